//go:build verif

package vault

// C05 (second half) — "every lease present in storage is tracked for expiry (or marked irrevocable after its retry
// budget), also after restart / leadership change; expired, non-renewable or irrevocable leases cannot be renewed;
// a renewal never moves the expiry past issue time + maximum": correspondence harness for the real
// ExpirationManager.  Stream `expiration` (stateful, one case per `reset`): seeded sequences of
//   reg / tokcreate / renew / tokrenew / revoke (lazy = forced expiry, or sync) / tokrevoke / setfail / restart
// on a real Core with a recording secrets backend whose revoke handler can fail (transiently n times, always,
// unrecoverably).  After every op the harness waits for quiescence and writes the result class plus the
// observation  st=<stored lease ordinals, x = marked irrevocable> pend= irr= non= rev=<revoked at the backend>
// calls=<backend revoke calls> unk=<leases the harness did not create>.
// Crash lines: a sync op is run gated, a snapshot is taken after each of its writes, a new core is started on the
// copy and stored-vs-tracked is compared there.

import (
	"context"
	"encoding/json"
	"errors"
	"fmt"
	"path"
	"sort"
	"strconv"
	"strings"
	"sync"
	"testing"
	"time"

	"github.com/openbao/openbao/sdk/v2/framework"
	"github.com/openbao/openbao/sdk/v2/helper/locksutil"
	"github.com/openbao/openbao/sdk/v2/logical"
	"github.com/openbao/openbao/sdk/v2/physical"
	"github.com/openbao/openbao/v2/internal/helper/namespace"
	"github.com/openbao/openbao/v2/internal/vault/routing"
	"github.com/openbao/openbao/v2/internal/zzverif/vh"
)

// ---- recording backend with a failing revoke (state is package-global so that it survives a core restart)

type c05bRecorder struct {
	mu        sync.Mutex
	Revoked   []string // secret ids revoked successfully
	Calls     int      // revoke handler invocations
	Mode      string   // none | transient | always | unrecoverable
	Transient int      // failures left in transient mode
	Flavor    int      // which error a failing revocation returns: plain / wrapping context.Canceled / wrapping context.DeadlineExceeded
	next      int
}

var c05bRec = &c05bRecorder{Mode: "none"}

func (r *c05bRecorder) reset() {
	r.mu.Lock()
	r.Revoked, r.Calls, r.Mode, r.Transient, r.next = nil, 0, "none", 0, 0
	r.mu.Unlock()
}

func c05bNum(v any) int64 {
	switch x := v.(type) {
	case json.Number:
		n, _ := x.Int64()
		return n
	case float64:
		return int64(x)
	case int:
		return int64(x)
	case int64:
		return x
	case string:
		n, _ := strconv.ParseInt(x, 10, 64)
		return n
	}
	return 0
}

func c05bFactory(ctx context.Context, conf *logical.BackendConfig) (logical.Backend, error) {
	b := &framework.Backend{BackendType: logical.TypeLogical}
	b.Paths = []*framework.Path{{
		Pattern: "lease/" + framework.MatchAllRegex("key"),
		Fields: map[string]*framework.FieldSchema{
			"key": {Type: framework.TypeString}, "ttl": {Type: framework.TypeInt}, "max": {Type: framework.TypeInt},
			"renewable": {Type: framework.TypeBool},
		},
		Callbacks: map[logical.Operation]framework.OperationFunc{
			logical.ReadOperation: func(ctx context.Context, req *logical.Request, d *framework.FieldData) (*logical.Response, error) {
				c05bRec.mu.Lock()
				c05bRec.next++
				id := fmt.Sprintf("s%d", c05bRec.next)
				c05bRec.mu.Unlock()
				ttl, max := d.Get("ttl").(int), d.Get("max").(int)
				resp := b.Secret("c05bsecret").Response(map[string]any{"secret": "canary-" + id},
					map[string]any{"id": id, "ttl": ttl, "max": max})
				resp.Secret.TTL = time.Duration(ttl) * time.Second
				resp.Secret.MaxTTL = time.Duration(max) * time.Second
				resp.Secret.Renewable = d.Get("renewable").(bool)
				return resp, nil
			},
		},
	}}
	b.Secrets = []*framework.Secret{{
		Type: "c05bsecret",
		Revoke: func(ctx context.Context, req *logical.Request, d *framework.FieldData) (*logical.Response, error) {
			id, _ := req.Secret.InternalData["id"].(string)
			c05bRec.mu.Lock()
			defer c05bRec.mu.Unlock()
			c05bRec.Calls++
			// the retry budget is a matter of "the attempt failed", not of what the backend's error wraps: an upstream
			// call of the BACKEND that was cancelled or timed out (the node itself is not stopping) is a failure like
			// any other
			failure := func(msg string) error {
				switch c05bRec.Flavor % 3 {
				case 1:
					return fmt.Errorf("c05b: %s: upstream call: %w", msg, context.Canceled)
				case 2:
					return fmt.Errorf("c05b: %s: upstream call: %w", msg, context.DeadlineExceeded)
				}
				return errors.New("c05b: " + msg)
			}
			switch c05bRec.Mode {
			case "transient":
				if c05bRec.Transient > 0 {
					c05bRec.Transient--
					return nil, failure("transient revoke failure")
				}
			case "always":
				return nil, failure("revoke keeps failing")
			case "unrecoverable":
				return nil, logical.ErrUnrecoverable
			}
			c05bRec.Revoked = append(c05bRec.Revoked, id)
			return nil, nil
		},
		Renew: func(ctx context.Context, req *logical.Request, d *framework.FieldData) (*logical.Response, error) {
			resp := &logical.Response{Secret: req.Secret}
			resp.Secret.TTL = time.Duration(c05bNum(req.Secret.InternalData["ttl"])) * time.Second
			resp.Secret.MaxTTL = time.Duration(c05bNum(req.Secret.InternalData["max"])) * time.Second
			return resp, nil
		},
	}}
	if err := b.Setup(ctx, conf); err != nil {
		return nil, err
	}
	return b, nil
}

func c05bTweak(conf *CoreConfig) {
	conf.LogicalBackends["c05brec"] = c05bFactory
	conf.ExpirationRevokeRetryBase = 2 * time.Millisecond
}


// c05bSnapshot: like vhPhys.Snapshot, but a key that a background expiration worker deletes between the listing and
// the read is skipped instead of failing the test (a crash picture taken while workers write is still a legal crash
// picture).
func c05bSnapshot(t *testing.T, p *vhPhys) *vhPhys {
	q := vhNewPhys(t)
	for _, k := range p.AllKeys() {
		e, err := p.inner.Get(context.Background(), k)
		if err != nil || e == nil {
			continue
		}
		v := make([]byte, len(e.Value))
		copy(v, e.Value)
		if err := q.inner.Put(context.Background(), &physical.Entry{Key: k, Value: v}); err != nil {
			t.Fatal(err)
		}
	}
	return q
}

// ---- one case

type c05bLease struct {
	ord     int
	leaseID string
	secret  string    // backend secret id ("" for token leases)
	token   string    // client token (token leases)
	issue   time.Time // when the harness saw it created (moved back by `age`): NOT read back from the stored entry
	ns      int       // 0 = root namespace, 1 / 2 = the sealable namespaces nsa/ nsb/
}

type c05bCase struct {
	t      *testing.T
	p      *vhPhys
	c      *Core
	keys   [][]byte
	root   string
	leases []*c05bLease
	byID   map[string]*c05bLease
	bySec  map[string]*c05bLease
	roles  map[string]bool // token roles created so far (roleCreate)
	deleted map[int]bool   // namespaces deleted so far
	// namespaces (only in namespace cases): index 1, 2
	nss    []*namespace.Namespace
	nsKeys map[string][][]byte
	sealed map[int]bool
	held   map[int]int        // namespace whose restore is held in flight -> ordinal of the lease whose restore shard is locked
	unseal map[int]chan error // the unseal goroutine of a held namespace
}

func c05bNewCase(t *testing.T) *c05bCase {
	c05bRec.reset()
	k := &c05bCase{t: t, p: vhNewPhys(t), byID: map[string]*c05bLease{}, bySec: map[string]*c05bLease{},
		sealed: map[int]bool{}, held: map[int]int{}, unseal: map[int]chan error{}, deleted: map[int]bool{}}
	k.c, k.keys, k.root = vhNewCore(t, k.p, nil, c05bTweak)
	if cl, _ := vhReq(k.c, logical.UpdateOperation, "sys/mounts/r5", k.root, map[string]any{"type": "c05brec"}); cl != "ok" {
		t.Fatal("mount", cl)
	}
	if cl, _ := vhReq(k.c, logical.UpdateOperation, "sys/policies/acl/c05bpol", k.root, map[string]any{"policy": `path "r5/*" { capabilities = ["read"] }`}); cl != "ok" {
		t.Fatal("policy", cl)
	}
	return k
}

func (k *c05bCase) add(leaseID, secret, token string) *c05bLease {
	l := &c05bLease{ord: len(k.leases), leaseID: leaseID, secret: secret, token: token, issue: time.Now()}
	k.leases = append(k.leases, l)
	k.byID[leaseID] = l
	if secret != "" {
		k.bySec[secret] = l
	}
	return l
}

func (k *c05bCase) tokenLeaseID(tok string) string {
	te, err := k.c.tokenStore.Lookup(vhRootCtx(), tok)
	if err != nil || te == nil {
		return ""
	}
	salted, err := k.c.tokenStore.SaltID(vhRootCtx(), te.ID)
	if err != nil {
		return ""
	}
	return path.Join(te.Path, salted)
}

// quiesce: no expired lease is waiting in `pending`, and the store has been calm for a while.
func (k *c05bCase) quiesce() {
	m := k.c.expiration
	deadline := time.Now().Add(5 * time.Second)
	for time.Now().Before(deadline) {
		c05bQuiesce(k.p)
		busy := false
		if m != nil {
			m.pending.Range(func(_, v any) bool {
				if info, ok := v.(pendingInfo); ok && info.cachedLeaseInfo != nil {
					e := info.cachedLeaseInfo.ExpireTime
					if !e.IsZero() && e.Before(time.Now()) {
						busy = true
					}
				}
				return true
			})
		}
		if !busy {
			return
		}
		time.Sleep(5 * time.Millisecond)
	}
}

// c05bQuiesce: the store untouched for two consecutive 8 ms windows (own copy: this file must not depend on
// another property's harness file).
func c05bQuiesce(p *vhPhys) {
	p.mu.Lock()
	wasRec := p.rec
	p.rec = true
	last := len(p.log)
	p.mu.Unlock()
	calm := 0
	for i := 0; i < 200 && calm < 2; i++ {
		time.Sleep(8 * time.Millisecond)
		p.mu.Lock()
		n := len(p.log)
		p.mu.Unlock()
		if n == last {
			calm++
		} else {
			calm = 0
			last = n
		}
	}
	p.mu.Lock()
	p.rec = wasRec
	if !wasRec {
		p.log = nil
	}
	p.mu.Unlock()
}

func c05bOrds(xs []int) string {
	if len(xs) == 0 {
		return "-"
	}
	sort.Ints(xs)
	var s []string
	for _, x := range xs {
		s = append(s, strconv.Itoa(x))
	}
	return strings.Join(s, ",")
}

// observe: stored / tracked sets by ordinal, plus the direct predicates (tracked = stored; expiry within issue+max).
func (k *c05bCase) observe() string {
	m := k.c.expiration
	unk := 0
	var st []string
	stored := map[int]bool{}
	var viol string
	var keys []string
	for _, key := range k.p.AllKeys() {
		if id := c05bLeaseIDOfKey(key); id != "" {
			keys = append(keys, id)
		}
	}
	type ent struct {
		ord int
		s   string
	}
	var ents []ent
	for _, id := range keys {
		l := k.byID[id]
		if l == nil {
			unk++
			continue
		}
		stored[l.ord] = true
		flag := ""
		var raw *logical.StorageEntry
		var err error = errors.New("sealed")
		if !k.sealed[l.ns] && !k.deleted[l.ns] {
			raw, err = m.leaseView(k.nsOf(l.ns)).Get(k.nsCtx(l.ns), id)
		}
		if err == nil && raw != nil {
			if le, err := decodeLeaseEntry(raw.Value); err == nil {
				if le.RevokeErr != "" {
					flag = "x"
				}
				// direct predicate: the expiry never lies past issue time + the effective maximum, counted from the issue
				// time the HARNESS recorded (slack: 2 s for the second truncation inside CalculateTTL, 1 s because the
				// harness notes the creation a moment after the manager did)
				// (an expiry that is not in the future is not a granted lifetime: a forced expiry — lazy revocation — of a lease
				// that was already overdue stamps "now", which lies past issue + maximum by construction)
				if max := k.effMax(le); max > 0 && !le.ExpireTime.IsZero() && le.ExpireTime.After(time.Now().Add(2*time.Second)) && le.ExpireTime.Sub(l.issue) > max+3*time.Second {
					viol = fmt.Sprintf("!VIOL:lease %d expires %s after issue, maximum %s#C05b:expiry-past-max", l.ord, le.ExpireTime.Sub(l.issue).Round(time.Second), max)
				}
			}
		}
		ents = append(ents, ent{l.ord, strconv.Itoa(l.ord) + flag})
	}
	sort.Slice(ents, func(i, j int) bool { return ents[i].ord < ents[j].ord })
	for _, e := range ents {
		st = append(st, e.s)
	}
	collect := func(mp *sync.Map) (out []int, tracked map[int]bool) {
		tracked = map[int]bool{}
		mp.Range(func(key, _ any) bool {
			if l := k.byID[key.(string)]; l != nil {
				out = append(out, l.ord)
				tracked[l.ord] = true
			} else {
				unk++
			}
			return true
		})
		return
	}
	pend, tp := collect(&m.pending)
	irr, ti := collect(&m.irrevocable)
	non, tn := collect(&m.nonexpiring)
	c05bRec.mu.Lock()
	var rev []int
	for _, s := range c05bRec.Revoked {
		if l := k.bySec[s]; l != nil {
			rev = append(rev, l.ord)
		}
	}
	calls := c05bRec.Calls
	c05bRec.mu.Unlock()
	// leases of sealed namespaces and the lease whose restore the harness holds back are legitimately untracked
	var nsl, heldOrds, sealedNS, marks []int
	exempt := map[int]bool{}
	for o := range stored {
		if k.sealed[k.leases[o].ns] {
			nsl = append(nsl, o)
			exempt[o] = true
		}
	}
	for ns, h := range k.held {
		_ = ns
		heldOrds = append(heldOrds, h)
		exempt[h] = true
	}
	for ns, is := range k.sealed {
		if is {
			sealedNS = append(sealedNS, ns)
		}
	}
	m.restoreLoaded.Range(func(key, _ any) bool {
		if l := k.byID[key.(string)]; l != nil {
			marks = append(marks, l.ord)
		}
		return true
	})
	// direct predicate: tracked = stored, per unsealed namespace
	if viol == "" {
		for o := range stored {
			if !exempt[o] && !tp[o] && !ti[o] && !tn[o] {
				viol = fmt.Sprintf("!VIOL:lease %d (namespace %d) is in storage but not tracked#C05b:stored-not-tracked", o, k.leases[o].ns)
			}
		}
		for _, set := range []map[int]bool{tp, ti, tn} {
			for o := range set {
				if !stored[o] || exempt[o] {
					viol = fmt.Sprintf("!VIOL:lease %d is tracked but not in storage (or in a sealed namespace)#C05b:tracked-not-stored", o)
				}
			}
		}
	}
	sts := "-"
	if len(st) > 0 {
		sts = strings.Join(st, ",")
	}
	return fmt.Sprintf("st=%s|pend=%s|irr=%s|non=%s|rev=%s|calls=%d|unk=%d|sealed=%s|nsl=%s|held=%s|marks=%s|rm=%d%s", sts, c05bOrds(pend), c05bOrds(irr),
		c05bOrds(non), c05bOrds(rev), calls, unk, c05bOrds(sealedNS), c05bOrds(nsl), c05bOrds(heldOrds), c05bOrds(marks), m.restoreMode.Load(), viol)
}

// effMax: the effective maximum lifetime of a lease counted from its issue time (system max 32 days unless the
// backend's / the token's explicit maximum is smaller).
func (k *c05bCase) effMax(le *leaseEntry) time.Duration {
	max := maxLeaseTTL
	if le.Secret != nil {
		if bm := time.Duration(c05bNum(le.Secret.InternalData["max"])) * time.Second; bm > 0 && bm < max {
			max = bm
		}
	}
	if le.Auth != nil && le.Auth.ExplicitMaxTTL > 0 && le.Auth.ExplicitMaxTTL < max {
		max = le.Auth.ExplicitMaxTTL
	}
	return max
}

func c05bErrClass(resp *logical.Response, cl string) string {
	msg := ""
	if resp != nil && resp.IsError() {
		msg = resp.Error().Error()
	}
	switch {
	case strings.Contains(msg, "lease not found"), strings.Contains(msg, "invalid lease ID"):
		return "err:notfound"
	case strings.Contains(msg, "failed previous revocation attempts"):
		return "err:irrevocable"
	case strings.Contains(msg, "lease is not renewable"):
		return "err:notrenewable"
	case strings.Contains(msg, "lease expired"):
		return "err:expired"
	case strings.Contains(msg, "past the max TTL"):
		return "err:pastmax"
	case strings.Contains(msg, "token not found"), cl == "denied":
		return "err:notoken"
	case strings.Contains(msg, "failed to revoke"):
		return "err:revoke"
	case strings.Contains(msg, "sealed"):
		return "err:sealed"
	}
	return cl
}

// round a TTL to the nearest minute: every configured TTL is a multiple of 60 s and a case lasts a few seconds
func c05bMin(d time.Duration) int64 { return (int64(d/time.Second) + 30) / 60 * 60 }

// c05bLeaseIDOfKey: the lease id of a physical key under .../sys/expire/id/ (root namespace: "sys/expire/id/<id>",
// other namespaces: "namespaces/<uuid>/sys/expire/id/<id>"), "" for other keys.
func c05bLeaseIDOfKey(key string) string {
	const mark = "sys/expire/id/"
	if strings.HasPrefix(key, mark) {
		return key[len(mark):]
	}
	if i := strings.Index(key, "/"+mark); i >= 0 && strings.HasPrefix(key, "namespaces/") {
		return key[i+1+len(mark):]
	}
	return ""
}

// liveOrds: ordinals of the leases currently in storage (all namespaces)
func (k *c05bCase) liveOrds() []int {
	var out []int
	for _, key := range k.p.AllKeys() {
		if id := c05bLeaseIDOfKey(key); id != "" {
			if l := k.byID[id]; l != nil {
				out = append(out, l.ord)
			}
		}
	}
	sort.Ints(out)
	return out
}

// blockedBy: leases a and b share a restore shard lock
func (k *c05bCase) blockedBy(a, b int) bool {
	m := k.c.expiration
	return locksutil.LockForKey(m.restoreLocks, k.leases[a].leaseID) == locksutil.LockForKey(m.restoreLocks, k.leases[b].leaseID)
}

// sharesShard: some other known lease has the same restore shard lock as o
func (k *c05bCase) sharesShard(o int) bool {
	for _, l := range k.leases {
		if l.ord != o && k.blockedBy(o, l.ord) {
			return true
		}
	}
	return false
}

func (k *c05bCase) nsOf(i int) *namespace.Namespace {
	if i == 0 {
		return namespace.RootNamespace
	}
	return k.nss[i]
}

func (k *c05bCase) nsCtx(i int) context.Context {
	return namespace.ContextWithNamespace(context.Background(), k.nsOf(i))
}

// usable: the lease can be the target of an op right now without blocking: its namespace is not sealed and its restore
// shard is not the one the harness holds locked
func (k *c05bCase) blocked(o int) bool {
	if o >= len(k.leases) {
		return false
	}
	m := k.c.expiration
	for _, h := range k.held {
		if locksutil.LockForKey(m.restoreLocks, k.leases[h].leaseID) == locksutil.LockForKey(m.restoreLocks, k.leases[o].leaseID) {
			return true
		}
	}
	return false
}

// age: rewrite the stored lease as if it had been issued d earlier (issue and expiry move back), then updatePending —
// the way a test makes time pass without waiting.
func (k *c05bCase) age(leaseID string, d time.Duration) string {
	m := k.c.expiration
	lock := m.lockForLeaseID(leaseID)
	lock.Lock()
	defer lock.Unlock()
	ctx := vhRootCtx()
	if l := k.byID[leaseID]; l != nil {
		ctx = k.nsCtx(l.ns)
	}
	le, err := m.loadEntry(ctx, leaseID)
	if err != nil {
		return "err:load"
	}
	if le == nil {
		return "err:notfound"
	}
	le.IssueTime = le.IssueTime.Add(-d)
	if !le.ExpireTime.IsZero() {
		le.ExpireTime = le.ExpireTime.Add(-d)
	}
	if err := m.persistEntry(ctx, le); err != nil {
		return "err:persist"
	}
	m.updatePending(le)
	return "ok"
}

func (k *c05bCase) restart(kind int) string {
	switch kind {
	case 0: // leadership-change analogue: stop the manager, set up a new one on the same core
		if err := k.c.expiration.Stop(); err != nil {
			return "err:stop"
		}
		if err := k.c.setupExpiration(expireLeaseStrategyFairsharing, false); err != nil {
			return "err:setup"
		}
	default: // process restart: a new core on a copy of the store
		snap := c05bSnapshot(k.t, k.p)
		c2, err := vhRestartCore(k.t, snap, k.keys, nil, c05bTweak)
		if err != nil {
			return "err:restart"
		}
		old := k.c
		k.c, k.p = c2, snap
		_ = old.Shutdown()
	}
	for i := 0; i < 2000 && k.c.expiration.inRestoreMode(); i++ {
		time.Sleep(5 * time.Millisecond)
	}
	if k.c.expiration.inRestoreMode() {
		return "err:restore-timeout"
	}
	return "ok"
}

// ---- the operations (each waits for quiescence, then writes `result|observation`)

type c05bRun struct {
	k   *c05bCase
	out *vh.Out
	now int64
	// the case has used age / a failing backend / lost timers: expired leases and pending revocation jobs may exist, whose
	// loads could reach a lease before the restore does; the faulted restarts are only driven while this is false
	perturbed bool
}

func (x *c05bRun) emit(res string, fields ...string) {
	x.k.quiesce()
	x.out.Op(vh.Catch(func() string { return res + "|" + x.k.observe() }), fields...)
}

func (x *c05bRun) reg(ownerOrd int, ttl, max int64, ren bool) {
	x.now++
	k := x.k
	owner := k.leases[ownerOrd]
	cl, resp := vhReq(k.c, logical.ReadOperation, fmt.Sprintf("r5/lease/k%d", x.now), owner.token,
		map[string]any{"ttl": int(ttl), "max": int(max), "renewable": ren})
	res := c05bErrClass(resp, cl)
	if cl == "ok" && resp != nil && resp.Secret != nil {
		id, _ := resp.Data["secret"].(string)
		l := k.add(resp.Secret.LeaseID, strings.TrimPrefix(id, "canary-"), "")
		res = fmt.Sprintf("ok:%d:%d", l.ord, c05bMin(resp.Secret.TTL))
	}
	x.emit(res, "reg", vh.I(int64(ownerOrd)), vh.I(ttl), vh.I(max), c05bB(ren), vh.I(x.now))
}

// batchReg: a leased secret issued to a fresh BATCH token (700 h, beyond every bound the histories ask for, so the cap by
// the token's own expiry never binds). Batch tokens have no lease; the secret lease carries ClientTokenType = batch.
func (x *c05bRun) batchReg(ttl, max int64, ren bool) {
	x.now++
	k := x.k
	// every other batch token is an ORPHAN (as the batch tokens of auth-method logins are): it has no parent whose token
	// index could carry the lease
	cl, resp := vhReq(k.c, logical.UpdateOperation, "auth/token/create", k.root,
		map[string]any{"type": "batch", "ttl": "700h", "policies": []string{"c05bpol"}, "no_parent": x.now%2 == 0})
	res := c05bErrClass(resp, cl)
	if cl == "ok" && resp != nil && resp.Auth != nil {
		bt := resp.Auth.ClientToken
		cl, resp = vhReq(k.c, logical.ReadOperation, fmt.Sprintf("r5/lease/k%d", x.now), bt,
			map[string]any{"ttl": int(ttl), "max": int(max), "renewable": ren})
		res = c05bErrClass(resp, cl)
		if cl == "ok" && resp != nil && resp.Secret != nil {
			id, _ := resp.Data["secret"].(string)
			l := k.add(resp.Secret.LeaseID, strings.TrimPrefix(id, "canary-"), "")
			res = fmt.Sprintf("ok:%d:%d", l.ord, c05bMin(resp.Secret.TTL))
		}
	}
	x.emit(res, "batchreg", vh.I(ttl), vh.I(max), c05bB(ren), vh.I(x.now))
}

// tokCreate: an orphan child of root (so that revoking another token does not cascade into it)
func (x *c05bRun) tokCreate(ttl, emax int64, ren bool) {
	x.now++
	k := x.k
	d := map[string]any{"ttl": fmt.Sprintf("%ds", ttl), "policies": []string{"c05bpol"}, "renewable": ren, "no_parent": true}
	if emax > 0 {
		d["explicit_max_ttl"] = fmt.Sprintf("%ds", emax)
	}
	cl, resp := vhReq(k.c, logical.UpdateOperation, "auth/token/create", k.root, d)
	res := c05bErrClass(resp, cl)
	if cl == "ok" && resp != nil && resp.Auth != nil {
		l := k.add(k.tokenLeaseID(resp.Auth.ClientToken), "", resp.Auth.ClientToken)
		res = fmt.Sprintf("ok:%d:%d", l.ord, c05bMin(resp.Auth.TTL))
	}
	x.emit(res, "tokcreate", vh.I(ttl), vh.I(emax), c05bB(ren), vh.I(x.now))
}

// roleCreate: an orphan token created through a token role (auth/token/create/<role>): the role carries its own
// token_explicit_max_ttl (remax, 0 = none), the request its own explicit_max_ttl (emax, 0 = none); the token is bound by
// the lesser of the two at creation AND at every renewal (authRenew re-reads the role).
func (x *c05bRun) roleCreate(ttl, emax, remax int64, ren bool) {
	x.now++
	k := x.k
	role := fmt.Sprintf("c05r%d", remax)
	if k.roles == nil {
		k.roles = map[string]bool{}
	}
	if !k.roles[role] {
		d := map[string]any{"allowed_policies": "c05bpol", "orphan": true}
		if remax > 0 {
			d["token_explicit_max_ttl"] = fmt.Sprintf("%ds", remax)
		}
		if cl, _ := vhReq(k.c, logical.UpdateOperation, "auth/token/roles/"+role, k.root, d); cl != "ok" {
			k.t.Fatalf("token role %s: %s", role, cl)
		}
		k.roles[role] = true
	}
	d := map[string]any{"ttl": fmt.Sprintf("%ds", ttl), "policies": []string{"c05bpol"}, "renewable": ren}
	if emax > 0 {
		d["explicit_max_ttl"] = fmt.Sprintf("%ds", emax)
	}
	cl, resp := vhReq(k.c, logical.UpdateOperation, "auth/token/create/"+role, k.root, d)
	res := c05bErrClass(resp, cl)
	if cl == "ok" && resp != nil && resp.Auth != nil {
		l := k.add(k.tokenLeaseID(resp.Auth.ClientToken), "", resp.Auth.ClientToken)
		res = fmt.Sprintf("ok:%d:%d", l.ord, c05bMin(resp.Auth.TTL))
	}
	x.emit(res, "rolecreate", vh.I(ttl), vh.I(emax), vh.I(remax), c05bB(ren), vh.I(x.now))
}

// periodRenew (directed, self-contained): a PERIODIC token created through a token role — the request carries its own
// period tokP, the role a period roleP (0 = none): issued with the lesser one — is renewed at once (renew-self) and
// revoked. "periodic tokens are capped by their period": the renewal grants the same lesser period.
func (x *c05bRun) periodRenew(tokP, roleP int64) {
	k := x.k
	role := fmt.Sprintf("c05p%d", roleP)
	d := map[string]any{"allowed_policies": "c05bpol", "orphan": true}
	if roleP > 0 {
		d["token_period"] = fmt.Sprintf("%ds", roleP)
	}
	if cl, _ := vhReq(k.c, logical.UpdateOperation, "auth/token/roles/"+role, k.root, d); cl != "ok" {
		k.t.Fatalf("token role %s: %s", role, cl)
	}
	cl, resp := vhReq(k.c, logical.UpdateOperation, "auth/token/create/"+role, k.root, map[string]any{"period": fmt.Sprintf("%ds", tokP), "policies": []string{"c05bpol"}})
	if cl != "ok" || resp == nil || resp.Auth == nil {
		x.emit("create:"+c05bErrClass(resp, cl), "periodrenew", vh.I(tokP), vh.I(roleP))
		return
	}
	tok := resp.Auth.ClientToken
	created := resp.Auth.TTL
	res := fmt.Sprintf("create:%d", c05bMin(created))
	mark := ""
	rcl, rresp := vhReq(k.c, logical.UpdateOperation, "auth/token/renew-self", tok, nil)
	if rcl == "ok" && rresp != nil && rresp.Auth != nil {
		res += fmt.Sprintf("|renew:%d", c05bMin(rresp.Auth.TTL))
		if rresp.Auth.TTL > time.Duration(tokP)*time.Second+5*time.Second {
			mark = fmt.Sprintf("!VIOL:a periodic token issued with period %ds (role period %ds) was renewed to a TTL of %ds: past its own period#periodic-token-renewed-past-its-period", tokP, roleP, int64(rresp.Auth.TTL/time.Second))
		}
	} else {
		res += "|renew:" + c05bErrClass(rresp, rcl)
	}
	_, _ = vhReq(k.c, logical.UpdateOperation, "auth/token/revoke", k.root, map[string]any{"token": tok})
	k.quiesce()
	x.out.Op(vh.Catch(func() string { return res + "|" + k.observe() })+mark, "periodrenew", vh.I(tokP), vh.I(roleP))
}

// roleGoneRenew (directed, self-contained): a token issued through a role that carries the lifetime bounds (period and/or
// explicit maximum, none given in the create call) is renewed AFTER the role was deleted: the bounds it was issued under
// keep applying — the renewal is refused, or granted within them; never the full increment.
func (x *c05bRun) roleGoneRenew(period, emax int64) {
	k := x.k
	role := fmt.Sprintf("c05g%d-%d", period, emax)
	d := map[string]any{"allowed_policies": "c05bpol", "orphan": true}
	if period > 0 {
		d["token_period"] = fmt.Sprintf("%ds", period)
	}
	if emax > 0 {
		d["token_explicit_max_ttl"] = fmt.Sprintf("%ds", emax)
	}
	if cl, _ := vhReq(k.c, logical.UpdateOperation, "auth/token/roles/"+role, k.root, d); cl != "ok" {
		k.t.Fatalf("token role %s: %s", role, cl)
	}
	cl, resp := vhReq(k.c, logical.UpdateOperation, "auth/token/create/"+role, k.root, map[string]any{"policies": []string{"c05bpol"}})
	if cl != "ok" || resp == nil || resp.Auth == nil {
		k.t.Fatalf("role token: %s", cl)
	}
	tok := resp.Auth.ClientToken
	if cl, _ := vhReq(k.c, logical.DeleteOperation, "auth/token/roles/"+role, k.root, nil); cl != "ok" {
		k.t.Fatalf("role delete: %s", cl)
	}
	bound := emax
	if period > 0 && (bound == 0 || period < bound) {
		bound = period
	}
	res, mark := "refused", ""
	rcl, rresp := vhReq(k.c, logical.UpdateOperation, "auth/token/renew-self", tok, map[string]any{"increment": "36000s"})
	if rcl == "ok" && rresp != nil && rresp.Auth != nil {
		res = "within"
		if rresp.Auth.TTL > time.Duration(bound)*time.Second+5*time.Second {
			res = fmt.Sprintf("granted:%d", c05bMin(rresp.Auth.TTL))
			mark = fmt.Sprintf("!VIOL:a token issued through a role with period %ds / explicit maximum %ds was renewed to %ds after the role had been deleted: the bounds it was issued under no longer apply#role-token-unbounded-after-role-deletion", period, emax, int64(rresp.Auth.TTL/time.Second))
		}
	}
	_, _ = vhReq(k.c, logical.UpdateOperation, "auth/token/revoke", k.root, map[string]any{"token": tok})
	k.quiesce()
	x.out.Op(vh.Catch(func() string { return res + "|" + k.observe() })+mark, "rolegonerenew", vh.I(period), vh.I(emax))
}

// rootCreate: a non-expiring root token (lease with zero expiry, tracked in `nonexpiring`)
func (x *c05bRun) rootCreate() {
	x.now++
	k := x.k
	cl, resp := vhReq(k.c, logical.UpdateOperation, "auth/token/create", k.root, map[string]any{"policies": []string{"root"}, "no_parent": true})
	res := c05bErrClass(resp, cl)
	if cl == "ok" && resp != nil && resp.Auth != nil {
		l := k.add(k.tokenLeaseID(resp.Auth.ClientToken), "", resp.Auth.ClientToken)
		res = fmt.Sprintf("ok:%d:%d", l.ord, c05bMin(resp.Auth.TTL))
	}
	x.emit(res, "rootcreate", vh.I(x.now))
}

// renew: sys/leases/renew for secret leases (and unknown ordinals), auth/token/renew for token leases
func (x *c05bRun) renew(o int, inc int64) {
	x.now++
	k := x.k
	if o < len(k.leases) && k.leases[o].token != "" {
		cl, resp := vhReq(k.c, logical.UpdateOperation, "auth/token/renew", k.root,
			map[string]any{"token": k.leases[o].token, "increment": int(inc)})
		res := c05bErrClass(resp, cl)
		if cl == "ok" && resp != nil && resp.Auth != nil {
			res = fmt.Sprintf("ok:%d", c05bMin(resp.Auth.TTL))
		}
		x.emit(res, "tokrenew", vh.I(int64(o)), vh.I(inc), vh.I(x.now))
		return
	}
	id := "r5/lease/none/doesnotexist"
	if o < len(k.leases) {
		id = k.leases[o].leaseID
	}
	cl, resp := vhReq(k.c, logical.UpdateOperation, "sys/leases/renew", k.root, map[string]any{"lease_id": id, "increment": int(inc)})
	res := c05bErrClass(resp, cl)
	if cl == "ok" && resp != nil && resp.Secret != nil {
		res = fmt.Sprintf("ok:%d", c05bMin(resp.Secret.TTL))
	}
	x.emit(res, "renew", vh.I(int64(o)), vh.I(inc), vh.I(x.now))
}

// revoke: sys/leases/revoke, lazy (forced expiry: the timer / revocation-job path) or sync
func (x *c05bRun) revoke(o int, sync bool) {
	x.now++
	k := x.k
	id := "r5/lease/none/doesnotexist"
	if o < len(k.leases) {
		id = k.leases[o].leaseID
	}
	cl, resp := vhReq(k.c, logical.UpdateOperation, "sys/leases/revoke", k.root, map[string]any{"lease_id": id, "sync": sync})
	x.emit(c05bErrClass(resp, cl), "revoke", vh.I(int64(o)), c05bB(sync), vh.I(x.now))
}

// revokeLoadFault: forced expiry (as revoke … lazy) of a secret lease whose backend keeps refusing the revocation, with
// ONE failing storage read of the lease entry at the moment revocationJob.OnFailure wants to mark the lease
// irrevocable (a storage outage that outlasts the retry budget). The lease must still end irrevocable (or revoked).
func (x *c05bRun) revokeLoadFault(o int) {
	x.now++
	k := x.k
	l := k.leases[o]
	k.p.FailKeyOnce("get", "sys/expire/id/"+l.leaseID, "OnFailure")
	cl, resp := vhReq(k.c, logical.UpdateOperation, "sys/leases/revoke", k.root, map[string]any{"lease_id": l.leaseID, "sync": false})
	res := c05bErrClass(resp, cl)
	k.quiesce()
	for i := 0; i < 400 && !k.p.kfFiredNow(); i++ {
		time.Sleep(5 * time.Millisecond)
	}
	k.quiesce()
	if !k.p.KeyFaultFired() {
		res += ":nofault"
	}
	x.emit(res, "revokeloadfault", vh.I(int64(o)), vh.I(x.now))
}

// tokRevoke: auth/token/revoke (its own lease goes, the leases it issued are expired)
func (x *c05bRun) tokRevoke(o int) {
	x.now++
	k := x.k
	cl, resp := vhReq(k.c, logical.UpdateOperation, "auth/token/revoke", k.root, map[string]any{"token": k.leases[o].token})
	x.emit(c05bErrClass(resp, cl), "tokrevoke", vh.I(int64(o)), vh.I(x.now))
}

func (x *c05bRun) setFail(mode string, n int) {
	if mode != "none" {
		x.perturbed = true
	}
	c05bRec.mu.Lock()
	c05bRec.Mode, c05bRec.Transient = mode, n
	if mode != "none" {
		c05bRec.Flavor++
	}
	c05bRec.mu.Unlock()
	x.emit("ok", "setfail", mode, vh.I(int64(n)))
}

// freeze: the expire strategy becomes the manager's own no-op (a lost timer); a restart thaws
func (x *c05bRun) freeze(on bool) {
	x.perturbed = x.perturbed || on
	var f ExpireLeaseStrategy = expireLeaseStrategyFairsharing
	if on {
		f = expireNoop
	}
	x.k.c.expiration.expireFunc.Store(&f)
	x.emit("ok", "freeze", c05bB(on))
}

// age: the lease was issued `secs` earlier (time passing, without waiting)
func (x *c05bRun) age(o int, secs int64) {
	x.perturbed = true
	x.now++
	k := x.k
	res := "err:notfound"
	if o < len(k.leases) {
		res = k.age(k.leases[o].leaseID, time.Duration(secs)*time.Second)
		if res == "ok" {
			k.leases[o].issue = k.leases[o].issue.Add(-time.Duration(secs) * time.Second)
		}
	}
	x.emit(res, "age", vh.I(int64(o)), vh.I(secs), vh.I(x.now))
}

// ---- namespaces: two sealable namespaces nsa/ (1) and nsb/ (2), each with the recording backend at r5/

func (x *c05bRun) withNamespaces() {
	k := x.k
	nsA := &namespace.Namespace{Path: "nsa/"}
	nsB := &namespace.Namespace{Path: "nsb/"}
	k.nsKeys = TestCoreCreateUnsealedNamespaces(k.t, k.c, nsA, nsB)
	k.nss = []*namespace.Namespace{nil, nsA, nsB}
	for i := 1; i <= 2; i++ {
		if err := k.c.mount(k.nsCtx(i), &routing.MountEntry{Table: routing.MountTableType, Path: "r5/", Type: "c05brec"}); err != nil {
			k.t.Fatalf("mount in namespace %d: %v", i, err)
		}
	}
	for i := 0; i < 2000 && k.c.expiration.inRestoreMode(); i++ {
		time.Sleep(5 * time.Millisecond)
	}
}

// nsReg: a secret lease issued in namespace ns to the root token
func (x *c05bRun) nsReg(ns int, ttl, max int64, ren bool) {
	x.now++
	k := x.k
	req := &logical.Request{Operation: logical.ReadOperation, Path: fmt.Sprintf("r5/lease/n%d", x.now), ClientToken: k.root,
		Data: map[string]any{"ttl": int(ttl), "max": int(max), "renewable": ren}}
	req.SetTokenEntry(nil)
	resp, err := k.c.HandleRequest(k.nsCtx(ns), req)
	cl := vhClass(resp, err)
	res := c05bErrClass(resp, cl)
	if err != nil && strings.Contains(err.Error(), "sealed") {
		res = "err:sealed"
	}
	if cl == "ok" && resp != nil && resp.Secret != nil {
		id, _ := resp.Data["secret"].(string)
		l := k.add(resp.Secret.LeaseID, strings.TrimPrefix(id, "canary-"), "")
		l.ns = ns
		res = fmt.Sprintf("ok:%d:%d", l.ord, c05bMin(resp.Secret.TTL))
	}
	x.emit(res, "nsreg", vh.I(int64(ns)), vh.I(ttl), vh.I(max), c05bB(ren), vh.I(x.now))
}

func (x *c05bRun) seal(ns int) {
	k := x.k
	res := "ok"
	if err := k.c.namespaceStore.SealNamespace(vhRootCtx(), strings.TrimSuffix(k.nss[ns].Path, "/")); err != nil {
		res = "err:seal"
	} else {
		k.sealed[ns] = true
	}
	x.emit(res, "seal", vh.I(int64(ns)))
}

// nsDelete: DELETE sys/namespaces/<ns>: every lease of the namespace must have been revoked at its backend (and be gone
// from storage and from the tracking maps) when the namespace is gone
func (x *c05bRun) nsDelete(ns int) {
	k := x.k
	path := strings.TrimSuffix(k.nss[ns].Path, "/")
	cl, resp := vhReq(k.c, logical.DeleteOperation, "sys/namespaces/"+path, k.root, nil)
	res := c05bErrClass(resp, cl)
	for i := 0; i < 800; i++ {
		n, err := k.c.namespaceStore.GetNamespaceByPath(vhRootCtx(), path)
		if err != nil || n == nil {
			break
		}
		time.Sleep(10 * time.Millisecond)
	}
	// the namespace's leases are not "of a sealed namespace" any more
	k.sealed[ns] = false
	k.deleted[ns] = true
	time.Sleep(300 * time.Millisecond)
	x.emit(res, "nsdelete", vh.I(int64(ns)))
}

func (k *c05bCase) doUnseal(ns int) error {
	for _, key := range k.nsKeys[k.nss[ns].Path] {
		done, err := TestNamespaceUnseal(k.c, k.nss[ns], key)
		if err != nil {
			return err
		}
		if done {
			break
		}
	}
	return nil
}

func (x *c05bRun) unsealNS(ns int) {
	x.now++
	k := x.k
	res := "ok"
	if err := k.doUnseal(ns); err != nil {
		res = "err:unseal"
	} else {
		k.sealed[ns] = false
	}
	x.emit(res, "unseal", vh.I(int64(ns)), vh.I(x.now))
}

// unsealBegin: unseal namespace ns while the restore shard lock of its lease h is held: the namespace's lease restore
// stays in flight (restore mode on, every other lease of ns restored, h not yet) until unsealEnd.
func (x *c05bRun) unsealBegin(ns, h int) {
	x.now++
	k := x.k
	m := k.c.expiration
	m.lockLease(k.leases[h].leaseID)
	k.held[ns] = h
	ch := make(chan error, 1)
	k.unseal[ns] = ch
	go func() { ch <- k.doUnseal(ns) }()
	// wait until the restore has handled every other lease of the namespace (it then waits for h's shard)
	deadline := time.Now().Add(5 * time.Second)
	for time.Now().Before(deadline) {
		if m.inRestoreMode() && !k.c.NamespaceSealed(k.nss[ns]) {
			break
		}
		time.Sleep(2 * time.Millisecond)
	}
	k.sealed[ns] = false
	x.emit("ok", "unsealbegin", vh.I(int64(ns)), vh.I(int64(h)), vh.I(x.now))
}

func (x *c05bRun) unsealEnd(ns int) {
	x.now++
	k := x.k
	res := "ok"
	h := k.held[ns]
	k.c.expiration.unlockLease(k.leases[h].leaseID)
	if err := <-k.unseal[ns]; err != nil {
		res = "err:unseal"
	}
	delete(k.held, ns)
	delete(k.unseal, ns)
	x.emit(res, "unsealend", vh.I(int64(ns)), vh.I(x.now))
}

func (x *c05bRun) restart(kind int) {
	x.now++
	x.emit(x.k.restart(kind), "restart", vh.I(int64(kind)), vh.I(x.now))
}

// restartFault: the leadership-change restart (Stop + setupExpiration) during which the storage read of lease o's entry
// fails once inside processRestore.  The node must not stay active with that lease untracked: restore() returns the
// error and runs errorFunc (Core.Shutdown) — answer err:shutdown, after which a new core is started on a copy of the
// store.  A node that stays active answers ok and is observed as it is.
func (x *c05bRun) restartFault(o int) {
	k := x.k
	if x.perturbed || o >= len(k.leases) || k.sealed[k.leases[o].ns] {
		x.restart(0)
		return
	}
	x.now++
	if err := k.c.expiration.Stop(); err != nil {
		x.emit("err:stop", "restartfault", vh.I(int64(o)), vh.I(x.now))
		return
	}
	k.p.FailKeyOnce("get", "sys/expire/id/"+k.leases[o].leaseID, "processRestore")
	if err := k.c.setupExpiration(expireLeaseStrategyFairsharing, false); err != nil {
		k.p.KeyFaultFired()
		x.emit("err:setup", "restartfault", vh.I(int64(o)), vh.I(x.now))
		return
	}
	// the shutdown that a failed restore triggers tears the manager down (c.expiration becomes nil): keep our own handle
	if m := k.c.expiration; m != nil {
		for i := 0; i < 2000 && m.inRestoreMode(); i++ {
			time.Sleep(5 * time.Millisecond)
		}
	}
	if !k.p.KeyFaultFired() {
		// the restore never read that entry (it is not in storage): this was an ordinary restart
		x.emit("ok", "restart", "0", vh.I(x.now))
		return
	}
	down := false
	for i := 0; i < 600 && !down; i++ {
		if down = k.c.Sealed(); !down {
			time.Sleep(5 * time.Millisecond)
		}
	}
	res := "ok"
	if down {
		res = "err:shutdown"
		snap := c05bSnapshot(k.t, k.p)
		c2, err := vhRestartCore(k.t, snap, k.keys, nil, c05bTweak)
		if err != nil {
			x.out.Op("err:restart", "restartfault", vh.I(int64(o)), vh.I(x.now))
			return
		}
		k.c, k.p = c2, snap
		for i := 0; i < 2000 && k.c.expiration.inRestoreMode(); i++ {
			time.Sleep(5 * time.Millisecond)
		}
	}
	x.emit(res, "restartfault", vh.I(int64(o)), vh.I(x.now))
}

// unsealFault: unseal of namespace ns during which the storage read of its lease o fails once inside processRestore:
// RestoreNamespace returns the error, the unseal fails and errorFunc seals the namespace again.
func (x *c05bRun) unsealFault(ns, o int) {
	k := x.k
	if x.perturbed || o >= len(k.leases) || k.leases[o].ns != ns {
		x.unsealNS(ns)
		return
	}
	x.now++
	k.p.FailKeyOnce("get", "sys/expire/id/"+k.leases[o].leaseID, "processRestore")
	err := k.doUnseal(ns)
	if !k.p.KeyFaultFired() {
		res := "ok"
		if err != nil {
			res = "err:unseal"
		} else {
			k.sealed[ns] = false
		}
		x.emit(res, "unseal", vh.I(int64(ns)), vh.I(x.now))
		return
	}
	resealed := false
	for i := 0; i < 600 && !resealed; i++ {
		if resealed = k.c.NamespaceSealed(k.nss[ns]); !resealed {
			time.Sleep(5 * time.Millisecond)
		}
	}
	res := "ok"
	switch {
	case err != nil && resealed:
		res = "err:unseal"
	case err != nil:
		res = "err:unseal-left-open"
		k.sealed[ns] = false
	default:
		k.sealed[ns] = resealed
	}
	x.emit(res, "unsealfault", vh.I(int64(ns)), vh.I(int64(o)), vh.I(x.now))
}

// start a case: fresh core; lease 0 is the requesting token (service, 4 h), created by root
func c05bStart(t *testing.T, out *vh.Out) *c05bRun {
	out.Reset()
	k := c05bNewCase(t)
	x := &c05bRun{k: k, out: out}
	tok0 := vhCreateToken(t, k.c, k.root, map[string]any{"ttl": "4h", "policies": []string{"c05bpol"}})
	k.add(k.tokenLeaseID(tok0), "", tok0)
	x.emit("ok:0:14400", "tokcreate", "14400", "0", "1", vh.I(x.now))
	return x
}

// directed histories (always run first): the corner cases a random history reaches only rarely
func c05bDirected() []func(x *c05bRun) {
	return []func(x *c05bRun){
		func(x *c05bRun) { // periodic role tokens: own period below / above / without a role period
			x.periodRenew(60, 3600)
			x.periodRenew(120, 60)
			x.periodRenew(60, 0)
			x.periodRenew(3600, 3600)
			x.roleGoneRenew(20, 60)
			x.roleGoneRenew(0, 60)
			x.roleGoneRenew(20, 0)
		},
		func(x *c05bRun) { // a restore that cannot read one lease entry must not leave the node active (secret lease, token lease)
			x.reg(0, 3600, 7200, true)
			x.tokCreate(3600, 0, true)
			x.restartFault(1)
			x.renew(1, 60)
			x.restartFault(2)
			x.renew(2, 60)
			x.restartFault(0)
			x.revoke(1, true)
			x.restartFault(1) // no longer stored: an ordinary restart
		},
		func(x *c05bRun) { // renewals of an ageing secret lease: full, then capped by issue + backend max, then capped hard
			x.reg(0, 3600, 7200, true)
			x.age(1, 3000)
			x.renew(1, 3600)
			x.age(1, 3000)
			x.renew(1, 3600)
			x.age(1, 600)
			x.renew(1, 36000)
			x.renew(1, 0)
			x.restart(1)
			x.renew(1, 60)
		},
		func(x *c05bRun) { // the same for a token with an explicit maximum; and one without (system maximum)
			x.tokCreate(3600, 7200, true)
			x.age(1, 3000)
			x.renew(1, 3600)
			x.age(1, 3000)
			x.renew(1, 3600)
			x.renew(1, 4000000)
			x.tokCreate(86400, 0, true)
			x.renew(2, 4000000)
			x.age(2, 90000)
			x.renew(2, 4000000)
		},
		func(x *c05bRun) { // retry budget: always failing backend ⇒ irrevocable after 6 calls; refused; survives restarts; sync revoke later succeeds
			x.reg(0, 3600, 0, true)
			x.reg(0, 600, 3600, false)
			x.renew(2, 60)
			x.setFail("always", 0)
			x.revoke(1, false)
			x.renew(1, 60)
			x.revoke(1, true)
			x.restart(0)
			x.renew(1, 60)
			x.restart(1)
			x.setFail("unrecoverable", 0)
			x.revoke(2, false)
			x.setFail("transient", 3)
			x.revoke(1, true)
			x.revoke(1, true)
			x.setFail("none", 0)
			x.revoke(2, true)
			x.revoke(1, true)
		},
		func(x *c05bRun) { // lost timers: expired but still stored ⇒ renew refused as expired; a restart revokes
			x.reg(0, 3600, 7200, true)
			x.tokCreate(3600, 0, true)
			x.reg(2, 600, 0, true)
			x.freeze(true)
			x.revoke(1, false)
			x.renew(1, 60)
			x.age(3, 7200)
			x.renew(3, 60)
			x.revoke(2, false)
			x.renew(2, 60)
			x.reg(2, 600, 0, true)
			x.restart(0)
			x.renew(1, 60)
		},
		func(x *c05bRun) { // a namespace with live leases is deleted: they are revoked at the backend, not just wiped
			x.withNamespaces()
			x.nsReg(1, 3600, 7200, true)
			x.nsReg(1, 600, 3600, true)
			x.nsReg(2, 3600, 0, true)
			x.reg(0, 3600, 7200, true)
			x.nsDelete(1)
			x.renew(4, 60)
			x.renew(3, 60)
			x.nsDelete(2)
			x.renew(4, 60)
		},
		func(x *c05bRun) { // the lease entry cannot be read when the retry budget is spent / on an unrecoverable error: still resolved
			x.reg(0, 3600, 7200, true)
			x.reg(0, 3600, 7200, true)
			x.setFail("always", 0)
			x.revokeLoadFault(1)
			x.renew(1, 60)
			x.setFail("unrecoverable", 0)
			x.revokeLoadFault(2)
			x.restart(1)
			x.setFail("none", 0)
			x.revoke(1, true)
			x.revoke(2, true)
		},
		func(x *c05bRun) { // role tokens: the request's explicit maximum survives renewals (role without / with a larger / with a smaller one)
			x.roleCreate(600, 3600, 0, true)
			x.renew(1, 18000)
			x.age(1, 3000)
			x.renew(1, 18000)
			x.roleCreate(600, 3600, 7200, true)
			x.renew(2, 18000)
			x.roleCreate(600, 7200, 3600, true)
			x.renew(3, 18000)
			x.roleCreate(600, 0, 7200, true)
			x.renew(4, 18000)
			x.roleCreate(600, 0, 0, true)
			x.renew(5, 18000)
			x.restart(1)
			x.renew(1, 18000)
			x.renew(5, 4000000)
		},
		func(x *c05bRun) { // leases issued to a batch token: renewal within the maximum; expired (lost timer) => refused; non-renewable (F64)
			x.batchReg(3600, 7200, true)
			x.renew(1, 600)
			x.age(1, 3000)
			x.renew(1, 36000)
			x.batchReg(600, 3600, true)
			x.freeze(true)
			x.revoke(2, false)
			x.renew(2, 60)
			x.age(1, 7200)
			x.renew(1, 60)
			x.freeze(false)
			x.batchReg(600, 3600, false)
			x.renew(3, 60)
			x.restart(1)
			x.renew(3, 60)
			x.revoke(3, true)
			x.renew(3, 60)
		},
		func(x *c05bRun) { // token revocation cascades into its leases under a transiently failing backend; root token
			x.tokCreate(7200, 0, true)
			x.reg(1, 3600, 0, true)
			x.reg(1, 3600, 0, true)
			x.reg(0, 3600, 0, true)
			x.setFail("transient", 4)
			x.tokRevoke(1)
			x.rootCreate()
			x.renew(5, 60)
			x.reg(5, 600, 0, true)
			x.revoke(5, false)
			x.restart(1)
		},
	}
}

func TestVerifC05b(t *testing.T) {
	out := vh.Open()
	defer out.Close()
	rng := vh.NewRand(vh.Seed())
	ncases, maxops := 24, 16
	if vh.Thorough() {
		ncases, maxops = 160, 22
	}
	ttls := []int64{600, 3600, 7200, 86400}
	maxs := []int64{0, 3600, 7200, 10800, 172800}
	incs := []int64{0, 60, 1800, 3600, 7200, 36000, 4000000}
	for di, d := range c05bDirected() {
		x := c05bStart(t, out)
		d(x)
		x.k.crashProbe(out, rng.Fork(uint64(1000+di)), x.now+1)
		_ = x.k.c.Shutdown()
	}
	// ---- namespace histories: seal / unseal of two sealable namespaces, restores held in flight while other leases are used
	nsCases := 6
	if vh.Thorough() {
		nsCases = 40
	}
	for ci := -1; ci < nsCases; ci++ {
		r := rng.Fork(uint64(5000 + ci))
		x := c05bStart(t, out)
		x.withNamespaces()
		k := x.k
		if ci < 0 {
			// directed: a lease of B is renewed while A's restore is in flight; later B is sealed and unsealed
			x.nsReg(1, 3600, 7200, true)
			x.nsReg(2, 3600, 7200, true)
			// lease ids are random: with probability 1/256 the two leases share a restore shard lock; take another one
			// (the test must look at the NEWEST lease — looking at lease 2 again looped forever once in a sweep)
			for tries := 0; k.blockedBy(1, len(k.leases)-1) && tries < 64; tries++ {
				x.nsReg(2, 3600, 7200, true)
			}
			l := len(k.leases) - 1
			x.seal(1)
			x.unsealBegin(1, 1)
			x.renew(l, 60)
			x.unsealEnd(1)
			x.seal(2)
			x.unsealNS(2)
			x.renew(l, 60)
			// an unseal whose restore cannot read one lease entry fails and leaves the namespace sealed; the next one succeeds
			x.seal(2)
			x.unsealFault(2, l)
			x.unsealNS(2)
			x.renew(l, 60)
			x.revoke(l, false)
			_ = k.c.Shutdown()
			continue
		}
		nops := 10 + r.Intn(maxops)
		for oi := 0; oi < nops; oi++ {
			live := k.liveOrds()
			// a stored lease that can be touched now (namespace unsealed, restore shard free)
			pickFree := func() int {
				var xs []int
				for _, o := range live {
					if !k.sealed[k.leases[o].ns] && !k.blocked(o) {
						xs = append(xs, o)
					}
				}
				if len(xs) == 0 {
					return -1
				}
				return xs[r.Intn(len(xs))]
			}
			var sealedNS, openNS, heldNS []int
			for ns := 1; ns <= 2; ns++ {
				_, h := k.held[ns]
				switch {
				case h:
					heldNS = append(heldNS, ns)
				case k.sealed[ns]:
					sealedNS = append(sealedNS, ns)
				default:
					openNS = append(openNS, ns)
				}
			}
			// while a restore is held in flight, leases are loaded more often (that is when marks appear)
			if len(heldNS) > 0 && r.Chance(35) {
				if o := pickFree(); o >= 0 {
					x.renew(o, r.PickInt(incs))
					continue
				}
			}
			switch w := r.Intn(100); {
			case w < 22:
				ns := r.Intn(3)
				if ns == 0 {
					x.reg(0, r.PickInt(ttls), r.PickInt(maxs), !r.Chance(20))
				} else if !k.sealed[ns] {
					x.nsReg(ns, r.PickInt(ttls), r.PickInt(maxs), !r.Chance(20))
				} else {
					x.nsReg(ns, 3600, 0, true) // refused: sealed
				}
			case w < 44:
				if o := pickFree(); o >= 0 {
					x.renew(o, r.PickInt(incs))
				}
			case w < 54:
				if o := pickFree(); o >= 0 && k.leases[o].token == "" {
					x.revoke(o, r.Chance(40))
				}
			case w < 60:
				if o := pickFree(); o >= 0 {
					x.age(o, r.PickInt([]int64{600, 1800, 3000}))
				}
			case w < 72:
				if len(openNS) > 0 {
					x.seal(openNS[r.Intn(len(openNS))])
				}
			case w < 80:
				if len(sealedNS) > 0 {
					ns := sealedNS[r.Intn(len(sealedNS))]
					f := -1
					for _, o := range live {
						if k.leases[o].ns == ns && r.Chance(60) {
							f = o
						}
					}
					if f >= 0 && r.Chance(40) {
						x.unsealFault(ns, f)
					} else {
						x.unsealNS(ns)
					}
				}
			case w < 92:
				// unseal with the restore held on one of the namespace's leases whose shard no other lease shares
				if len(sealedNS) > 0 {
					ns := sealedNS[r.Intn(len(sealedNS))]
					h := -1
					for _, o := range live {
						if k.leases[o].ns == ns && !k.sharesShard(o) {
							h = o
						}
					}
					if h >= 0 {
						x.unsealBegin(ns, h)
					} else {
						x.unsealNS(ns)
					}
				}
			case w < 97:
				if len(heldNS) > 0 {
					x.unsealEnd(heldNS[r.Intn(len(heldNS))])
				}
			default:
				mode := r.Pick([]string{"none", "always", "transient"})
				n := 0
				if mode == "transient" {
					n = 1 + r.Intn(3)
				}
				x.setFail(mode, n)
			}
		}
		for ns := 1; ns <= 2; ns++ {
			if _, h := k.held[ns]; h {
				x.unsealEnd(ns)
			}
		}
		_ = k.c.Shutdown()
	}
	for ci := 0; ci < ncases; ci++ {
		r := rng.Fork(uint64(ci))
		x := c05bStart(t, out)
		k := x.k
		nops := 6 + r.Intn(maxops-5)
		lastAged := -1
		for oi := 0; oi < nops; oi++ {
			// mostly a lease that is still in storage; sometimes any ordinal, or one past the end (unknown lease)
			pick := func() int {
				live := k.liveOrds()
				if len(live) > 0 && r.Chance(80) {
					return live[r.Intn(len(live))]
				}
				return r.Intn(len(k.leases) + 1)
			}
			pickSecret := func() int {
				var xs []int
				for _, o := range k.liveOrds() {
					if k.leases[o].token == "" {
						xs = append(xs, o)
					}
				}
				if len(xs) > 0 {
					return xs[r.Intn(len(xs))]
				}
				return pick()
			}
			switch w := r.Intn(100); {
			case w < 22:
				ownerOrd := 0
				if r.Chance(30) { // sometimes another token lease issues it
					for _, l := range k.leases {
						if l.token != "" && r.Chance(50) {
							ownerOrd = l.ord
						}
					}
				}
				if r.Chance(12) {
					x.batchReg(r.PickInt(ttls), r.PickInt([]int64{3600, 7200, 10800, 172800}), !r.Chance(20))
				} else {
					x.reg(ownerOrd, r.PickInt(ttls), r.PickInt(maxs), !r.Chance(20))
				}
			case w < 24:
				x.roleCreate(r.PickInt(ttls), r.PickInt([]int64{0, 3600, 7200, 172800}), r.PickInt([]int64{0, 7200}), !r.Chance(20))
			case w < 29:
				x.tokCreate(r.PickInt(ttls), r.PickInt([]int64{0, 0, 7200, 172800}), !r.Chance(20))
			case w < 53:
				o := pick()
				if lastAged >= 0 && r.Chance(55) {
					o = lastAged // renew what has just aged: the cap counted from the issue time becomes visible
				}
				x.renew(o, r.PickInt(incs))
			case w < 66:
				o := pick()
				c05bRec.mu.Lock()
				failing := c05bRec.Mode != "none"
				c05bRec.mu.Unlock()
				if failing && r.Chance(80) {
					o = pickSecret()
				}
				x.revoke(o, r.Chance(35))
			case w < 70:
				var toks []int
				for _, l := range k.leases {
					if l.token != "" {
						toks = append(toks, l.ord)
					}
				}
				x.tokRevoke(toks[r.Intn(len(toks))])
			case w < 76:
				// transient: at most 5 failures, so that concurrent jobs cannot exhaust one lease's budget in an order the
				// model does not fix; the budget itself is exercised by `always`
				mode := r.Pick([]string{"none", "none", "transient", "transient", "always", "unrecoverable"})
				n := 0
				if mode == "transient" {
					n = 1 + r.Intn(5)
				}
				x.setFail(mode, n)
			case w < 79:
				x.freeze(r.Chance(70))
			case w < 93:
				o := pick()
				lastAged = o
				x.age(o, r.PickInt([]int64{600, 1800, 1800, 3000, 3000, 3600, 7200, 90000}))
			case w < 95:
				x.rootCreate()
			default:
				if r.Chance(45) {
					x.restartFault(pick())
				} else {
					x.restart(r.Intn(2))
				}
			}
		}
		// crash points of one sync operation at the end of the case: every write prefix, new core, tracked = stored
		k.crashProbe(out, r, x.now+1)
		_ = k.c.Shutdown()
	}
}

func c05bB(b bool) string {
	if b {
		return "1"
	}
	return "0"
}

// crashProbe: run one synchronous op (renew, sync revoke or token revoke of a random lease) gated; after each of
// its writes snapshot the store, start a new core on the copy, wait for the restore, and compare stored vs tracked.
func (k *c05bCase) crashProbe(out *vh.Out, r *vh.Rand, now int64) {
	if len(k.leases) == 0 {
		return
	}
	c05bRec.mu.Lock()
	c05bRec.Mode, c05bRec.Transient = "none", 0
	c05bRec.mu.Unlock()
	var f ExpireLeaseStrategy = expireLeaseStrategyFairsharing
	k.c.expiration.expireFunc.Store(&f)
	o := r.Intn(len(k.leases))
	if live := k.liveOrds(); len(live) > 0 {
		o = live[r.Intn(len(live))]
	}
	l := k.leases[o]
	kind := r.Pick([]string{"renew", "revoke", "revoke", "reg"})
	s := vhNewSched(k.p, 1)
	s.Go(0, func() string {
		switch kind {
		case "renew":
			if l.token != "" {
				cl, _ := vhReq(k.c, logical.UpdateOperation, "auth/token/renew", k.root, map[string]any{"token": l.token, "increment": 60})
				return cl
			}
			cl, _ := vhReq(k.c, logical.UpdateOperation, "sys/leases/renew", k.root, map[string]any{"lease_id": l.leaseID, "increment": 60})
			return cl
		case "revoke":
			if l.token != "" {
				cl, _ := vhReq(k.c, logical.UpdateOperation, "auth/token/revoke", k.root, map[string]any{"token": l.token})
				return cl
			}
			cl, _ := vhReq(k.c, logical.UpdateOperation, "sys/leases/revoke", k.root, map[string]any{"lease_id": l.leaseID, "sync": true})
			return cl
		default:
			cl, _ := vhReq(k.c, logical.ReadOperation, "r5/lease/crash", k.leases[0].token, map[string]any{"ttl": 3600, "max": 7200, "renewable": true})
			return cl
		}
	})
	var snaps []*vhPhys
	lastWrite := false
	for step := 0; step < 10000; step++ {
		st := s.Advance(0)
		if st == "blocked" {
			continue
		}
		if lastWrite {
			snaps = append(snaps, c05bSnapshot(k.t, k.p))
			lastWrite = false
		}
		if st == "done" {
			break
		}
		op := s.Parked(0)
		lastWrite = op.Kind == "put" || op.Kind == "delete"
		s.Release(0)
	}
	s.Drain(1000)
	for j, snap := range snaps {
		res := vh.Catch(func() string {
			c2, err := vhRestartCore(k.t, snap, k.keys, nil, c05bTweak)
			if err != nil {
				return "err:restart"
			}
			defer func() { _ = c2.Shutdown() }()
			for i := 0; i < 2000 && c2.expiration.inRestoreMode(); i++ {
				time.Sleep(5 * time.Millisecond)
			}
			c05bQuiesce(snap)
			m := c2.expiration
			storedN, untracked, ghost := 0, 0, 0
			all := map[string]bool{}
			for _, key := range snap.AllKeys() {
				if strings.HasPrefix(key, "sys/expire/id/") {
					id := strings.TrimPrefix(key, "sys/expire/id/")
					all[id] = true
					storedN++
					_, a := m.pending.Load(id)
					_, b := m.irrevocable.Load(id)
					_, c := m.nonexpiring.Load(id)
					if !a && !b && !c {
						untracked++
					}
				}
			}
			cnt := func(key, _ any) bool {
				if !all[key.(string)] {
					ghost++
				}
				return true
			}
			m.pending.Range(cnt)
			m.irrevocable.Range(cnt)
			m.nonexpiring.Range(cnt)
			res := fmt.Sprintf("untracked=%d|ghost=%d", untracked, ghost)
			if untracked > 0 {
				res += "!VIOL:after a crash and restart a stored lease is not tracked#C05b:crash-stored-not-tracked"
			} else if ghost > 0 {
				res += "!VIOL:after a crash and restart a tracked lease is not in storage#C05b:crash-tracked-not-stored"
			}
			return res
		})
		out.Op(res, "crash", kind, vh.I(int64(j+1)), vh.I(now))
	}
}
