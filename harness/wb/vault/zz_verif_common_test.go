//go:build verif

package vault

// Shared helpers for every white-box harness overlaid into internal/vault (all identifiers prefixed `vh`).
//   vhPhys       physical.Backend wrapper over inmem: records every storage op, can fail the k-th op of a
//                tagged goroutine once (fault plan), can park tagged goroutines before every storage op until
//                a scheduler releases them (gate), can snapshot/restore the whole store (crash plan).
//   vhNewCore    real Core on a vhPhys, cache disabled (so every logical read reaches the gate and no goroutine
//                is parked while holding a cache stripe lock), initialised and unsealed.
//   vhRecBackend recording logical backend (counts handler invocations, can issue leased secrets, writes
//                one storage key per write).
// Nothing here is written into /repo: the file is mapped into the package by the build overlay.

import (
	"bytes"
	"context"
	"errors"
	"fmt"
	"os"
	"runtime"
	"sort"
	"strconv"
	"strings"
	"sync"
	"testing"
	"time"

	log "github.com/hashicorp/go-hclog"
	"github.com/openbao/openbao/sdk/v2/framework"
	"github.com/openbao/openbao/sdk/v2/logical"
	"github.com/openbao/openbao/sdk/v2/physical"
	physInmem "github.com/openbao/openbao/sdk/v2/physical/inmem"
	"github.com/openbao/openbao/v2/internal/helper/namespace"
)

func vhGid() uint64 {
	b := make([]byte, 64)
	b = b[:runtime.Stack(b, false)]
	b = bytes.TrimPrefix(b, []byte("goroutine "))
	b = b[:bytes.IndexByte(b, ' ')]
	n, _ := strconv.ParseUint(string(b), 10, 64)
	return n
}

type vhOp struct {
	Thread int // -1 = untagged (background / set-up)
	Kind   string
	Key    string
	Failed bool
}

type vhGateThread struct {
	arrive  chan vhOp
	release chan struct{}
}

var vhErrInjected = errors.New("vh: injected storage failure")

type vhPhys struct {
	inner physical.Backend
	mu    sync.Mutex
	tags  map[uint64]int
	log   []vhOp
	rec   bool
	// fault plan: for thread t fail op number failAt[t] (0-based among that thread's ops), once
	failAt  map[int]int
	count   map[int]int
	failSel func(op vhOp) bool // optional filter: only ops matching count towards failAt
	gates   map[int]*vhGateThread
	// key fault: the next op of ANY goroutine (tagged or not) of kind kfKind whose key contains kfSub and whose call
	// stack contains kfStack ("" = any) fails, once
	kfKind, kfSub, kfStack string
	kfArmed, kfFired       bool
	kfSticky               bool // the key fault stays armed until KeyFaultFired() disarms it (a storage outage, not a single failure)
	// one-shot hold of a Get after it was performed (HoldAfterGet)
	agSub, agStack    string
	agArmed           bool
	agHit, agRelease  chan struct{}
	// afterPut: called (outside the lock) after a Put was performed successfully
	afterPut func(key string)
}

func vhNewPhys(t *testing.T) *vhPhys {
	inm, err := physInmem.NewInmem(map[string]string{"disable_transactions": "true"}, log.NewNullLogger())
	if err != nil {
		t.Fatal(err)
	}
	return &vhPhys{inner: inm, tags: map[uint64]int{}, failAt: map[int]int{}, count: map[int]int{}, gates: map[int]*vhGateThread{}}
}

// Tag marks the calling goroutine as thread i (ops of untagged goroutines are never gated or failed).
func (p *vhPhys) Tag(i int) {
	p.mu.Lock()
	p.tags[vhGid()] = i
	p.mu.Unlock()
}

func (p *vhPhys) Untag() {
	p.mu.Lock()
	delete(p.tags, vhGid())
	p.mu.Unlock()
}

func (p *vhPhys) StartRecording() { p.mu.Lock(); p.rec = true; p.log = nil; p.mu.Unlock() }
func (p *vhPhys) StopRecording() []vhOp {
	p.mu.Lock()
	defer p.mu.Unlock()
	p.rec = false
	l := p.log
	p.log = nil
	return l
}

// FailNth arms a single fault: the n-th (0-based) storage op of thread t fails once.
func (p *vhPhys) FailNth(t, n int) {
	p.mu.Lock()
	p.failAt[t] = n
	p.count[t] = 0
	p.mu.Unlock()
}

// FailKeyOnce arms a single fault that also hits background goroutines (restore workers, revocation jobs): the next
// storage op of the given kind whose key contains sub, issued from a call stack that contains stackSub, fails once.
func (p *vhPhys) FailKeyOnce(kind, sub, stackSub string) {
	p.mu.Lock()
	p.kfKind, p.kfSub, p.kfStack, p.kfArmed, p.kfFired, p.kfSticky = kind, sub, stackSub, true, false, false
	p.mu.Unlock()
}

// FailKeyUntilCleared: like FailKeyOnce, but EVERY matching operation fails until KeyFaultFired() is called
func (p *vhPhys) FailKeyUntilCleared(kind, sub, stackSub string) {
	p.mu.Lock()
	p.kfKind, p.kfSub, p.kfStack, p.kfArmed, p.kfFired, p.kfSticky = kind, sub, stackSub, true, false, true
	p.mu.Unlock()
}

// KeyFaultFired reports whether the fault armed by FailKeyOnce was delivered, and disarms it.
func (p *vhPhys) KeyFaultFired() bool {
	p.mu.Lock()
	defer p.mu.Unlock()
	p.kfArmed, p.kfSticky = false, false
	return p.kfFired
}

// kfFiredNow: has the fault armed by FailKeyOnce been delivered (without disarming)?
func (p *vhPhys) kfFiredNow() bool {
	p.mu.Lock()
	defer p.mu.Unlock()
	return p.kfFired
}

func (p *vhPhys) ClearFaults() {
	p.mu.Lock()
	p.failAt = map[int]int{}
	p.count = map[int]int{}
	p.mu.Unlock()
}

// Gate makes thread t park before each storage op; returns the handle the scheduler uses.
func (p *vhPhys) Gate(t int) *vhGateThread {
	g := &vhGateThread{arrive: make(chan vhOp), release: make(chan struct{})}
	p.mu.Lock()
	p.gates[t] = g
	p.mu.Unlock()
	return g
}

func (p *vhPhys) Ungate(t int) {
	p.mu.Lock()
	delete(p.gates, t)
	p.mu.Unlock()
}

// before is called at the start of every storage op; returns an error when the op must fail.
func (p *vhPhys) before(kind, key string) error {
	p.mu.Lock()
	t, ok := p.tags[vhGid()]
	if !ok {
		t = -1
	}
	op := vhOp{Thread: t, Kind: kind, Key: key}
	var g *vhGateThread
	if ok {
		g = p.gates[t]
	}
	p.mu.Unlock()
	if g != nil {
		g.arrive <- op
		<-g.release
	}
	p.mu.Lock()
	defer p.mu.Unlock()
	if ok {
		if n, armed := p.failAt[t]; armed && (p.failSel == nil || p.failSel(op)) {
			c := p.count[t]
			p.count[t] = c + 1
			if c == n {
				delete(p.failAt, t)
				op.Failed = true
			}
		}
	}
	if p.kfArmed && kind == p.kfKind && strings.Contains(key, p.kfSub) {
		hit := p.kfStack == ""
		if !hit {
			b := make([]byte, 16384)
			b = b[:runtime.Stack(b, false)]
			hit = bytes.Contains(b, []byte(p.kfStack))
		}
		if hit {
			p.kfArmed, p.kfFired = p.kfSticky, true
			op.Failed = true
		}
	}
	if p.rec {
		p.log = append(p.log, op)
	}
	if op.Failed {
		return vhErrInjected
	}
	return nil
}

func (p *vhPhys) Put(ctx context.Context, e *physical.Entry) error {
	if err := p.before("put", e.Key); err != nil {
		return err
	}
	err := p.inner.Put(ctx, e)
	p.mu.Lock()
	hook := p.afterPut
	p.mu.Unlock()
	if err == nil && hook != nil {
		hook(e.Key)
	}
	return err
}

// SetAfterPut installs (nil: removes) a hook run after every successful Put
func (p *vhPhys) SetAfterPut(f func(key string)) {
	p.mu.Lock()
	p.afterPut = f
	p.mu.Unlock()
}

func (p *vhPhys) Get(ctx context.Context, k string) (*physical.Entry, error) {
	if err := p.before("get", k); err != nil {
		return nil, err
	}
	e, err := p.inner.Get(ctx, k)
	p.mu.Lock()
	hold := p.agArmed && strings.Contains(k, p.agSub)
	if hold && p.agStack != "" {
		b := make([]byte, 16384)
		b = b[:runtime.Stack(b, false)]
		hold = bytes.Contains(b, []byte(p.agStack))
	}
	if hold {
		p.agArmed = false
		hit, rel := p.agHit, p.agRelease
		p.mu.Unlock()
		close(hit)
		<-rel
		return e, err
	}
	p.mu.Unlock()
	return e, err
}

// HoldAfterGet arms a one-shot hold: the next Get of a key containing sub, issued from a call stack containing stackSub,
// is performed and then held BEFORE IT RETURNS (the caller has its — soon stale — copy, but has not acted on it yet).
// hit is closed when the Get is being held; release() lets it return.
func (p *vhPhys) HoldAfterGet(sub, stackSub string) (hit chan struct{}, release func()) {
	p.mu.Lock()
	defer p.mu.Unlock()
	p.agSub, p.agStack, p.agArmed = sub, stackSub, true
	p.agHit, p.agRelease = make(chan struct{}), make(chan struct{})
	rel := p.agRelease
	var once sync.Once
	return p.agHit, func() { once.Do(func() { close(rel) }) }
}

func (p *vhPhys) Delete(ctx context.Context, k string) error {
	if err := p.before("delete", k); err != nil {
		return err
	}
	return p.inner.Delete(ctx, k)
}

func (p *vhPhys) List(ctx context.Context, prefix string) ([]string, error) {
	if err := p.before("list", prefix); err != nil {
		return nil, err
	}
	return p.inner.List(ctx, prefix)
}

func (p *vhPhys) ListPage(ctx context.Context, prefix, after string, limit int) ([]string, error) {
	if err := p.before("list", prefix); err != nil {
		return nil, err
	}
	return p.inner.ListPage(ctx, prefix, after, limit)
}

// AllKeys lists every key of the underlying store (no gate, no fault, not recorded).
func (p *vhPhys) AllKeys() []string {
	var out []string
	var walk func(prefix string)
	walk = func(prefix string) {
		ks, err := p.inner.List(context.Background(), prefix)
		if err != nil {
			panic(err)
		}
		for _, k := range ks {
			if strings.HasSuffix(k, "/") {
				walk(prefix + k)
			} else {
				out = append(out, prefix+k)
			}
		}
	}
	walk("")
	sort.Strings(out)
	return out
}

// Snapshot deep-copies the store (crash plan: a new core is started on the copy).
func (p *vhPhys) Snapshot(t *testing.T) *vhPhys {
	q := vhNewPhys(t)
	for _, k := range p.AllKeys() {
		e, err := p.inner.Get(context.Background(), k)
		if err != nil {
			t.Fatalf("snapshot get %s: %v", k, err)
		}
		if e == nil {
			continue // a background worker deleted the key between the listing and the read
		}
		v := make([]byte, len(e.Value))
		copy(v, e.Value)
		if err := q.inner.Put(context.Background(), &physical.Entry{Key: k, Value: v}); err != nil {
			t.Fatal(err)
		}
	}
	return q
}

// ---------------------------------------------------------------------------------------------

// vhRecBackend: a recording secrets backend. Paths: "data/<k>" read/write/delete/list (one storage key each),
// "lease/<k>" read → leased secret with TTL, "unauth/<k>" (declared unauthenticated), "root/<k>" (declared root).
type vhRecBackend struct {
	*framework.Backend
	mu      sync.Mutex
	Calls   []string // "op path"
	Issued  []string // secret ids handed out
	Revoked []string // secret ids revoked
	nextID  int
	TTL     time.Duration
	MaxTTL  time.Duration
}

func (b *vhRecBackend) note(req *logical.Request) {
	b.mu.Lock()
	b.Calls = append(b.Calls, string(req.Operation)+" "+req.Path)
	b.mu.Unlock()
}

func (b *vhRecBackend) CallCount() int { b.mu.Lock(); defer b.mu.Unlock(); return len(b.Calls) }

func (b *vhRecBackend) Snapshot() (calls, issued, revoked []string) {
	b.mu.Lock()
	defer b.mu.Unlock()
	return append([]string{}, b.Calls...), append([]string{}, b.Issued...), append([]string{}, b.Revoked...)
}

func vhRecFactory(holder **vhRecBackend) logical.Factory {
	return func(ctx context.Context, conf *logical.BackendConfig) (logical.Backend, error) {
		b := &vhRecBackend{TTL: time.Hour, MaxTTL: 2 * time.Hour}
		b.Backend = &framework.Backend{
			BackendType: logical.TypeLogical,
			PathsSpecial: &logical.Paths{
				Unauthenticated: []string{"unauth/*"},
				Root:            []string{"root/*"},
			},
			Paths: []*framework.Path{
				{
					Pattern: "(data|unauth|root)/" + framework.MatchAllRegex("key"),
					Fields:  map[string]*framework.FieldSchema{"key": {Type: framework.TypeString}, "value": {Type: framework.TypeString}},
					Callbacks: map[logical.Operation]framework.OperationFunc{
						logical.ReadOperation: func(ctx context.Context, req *logical.Request, d *framework.FieldData) (*logical.Response, error) {
							b.note(req)
							e, err := req.Storage.Get(ctx, "k/"+d.Get("key").(string))
							if err != nil {
								return nil, err
							}
							if e == nil {
								return nil, nil
							}
							return &logical.Response{Data: map[string]any{"value": string(e.Value)}}, nil
						},
						logical.UpdateOperation: func(ctx context.Context, req *logical.Request, d *framework.FieldData) (*logical.Response, error) {
							b.note(req)
							v, _ := d.Get("value").(string)
							return nil, req.Storage.Put(ctx, &logical.StorageEntry{Key: "k/" + d.Get("key").(string), Value: []byte(v)})
						},
						logical.DeleteOperation: func(ctx context.Context, req *logical.Request, d *framework.FieldData) (*logical.Response, error) {
							b.note(req)
							return nil, req.Storage.Delete(ctx, "k/"+d.Get("key").(string))
						},
						logical.ListOperation: func(ctx context.Context, req *logical.Request, d *framework.FieldData) (*logical.Response, error) {
							b.note(req)
							ks, err := req.Storage.List(ctx, "k/"+d.Get("key").(string))
							if err != nil {
								return nil, err
							}
							return logical.ListResponse(ks), nil
						},
					},
				},
				{
					Pattern: "lease/" + framework.MatchAllRegex("key"),
					Fields:  map[string]*framework.FieldSchema{"key": {Type: framework.TypeString}},
					Callbacks: map[logical.Operation]framework.OperationFunc{
						logical.ReadOperation: func(ctx context.Context, req *logical.Request, d *framework.FieldData) (*logical.Response, error) {
							b.note(req)
							b.mu.Lock()
							b.nextID++
							id := fmt.Sprintf("s%d", b.nextID)
							b.Issued = append(b.Issued, id)
							ttl, max := b.TTL, b.MaxTTL
							b.mu.Unlock()
							resp := b.Secret("vhsecret").Response(map[string]any{"secret": "canary-" + id}, map[string]any{"id": id})
							resp.Secret.TTL = ttl
							resp.Secret.MaxTTL = max
							resp.Secret.Renewable = true
							return resp, nil
						},
					},
				},
			},
		}
		b.Backend.Secrets = []*framework.Secret{{
			Type: "vhsecret",
			Revoke: func(ctx context.Context, req *logical.Request, d *framework.FieldData) (*logical.Response, error) {
				id, _ := req.Secret.InternalData["id"].(string)
				b.mu.Lock()
				b.Revoked = append(b.Revoked, id)
				b.mu.Unlock()
				return nil, nil
			},
			Renew: func(ctx context.Context, req *logical.Request, d *framework.FieldData) (*logical.Response, error) {
				b.mu.Lock()
				ttl, max := b.TTL, b.MaxTTL
				b.mu.Unlock()
				resp := &logical.Response{Secret: req.Secret}
				resp.Secret.TTL = ttl
				resp.Secret.MaxTTL = max
				return resp, nil
			},
		}}
		if err := b.Backend.Setup(ctx, conf); err != nil {
			return nil, err
		}
		if holder != nil {
			*holder = b
		}
		return b, nil
	}
}

// vhNewCore builds a real, initialised, unsealed Core over phys with the read cache disabled and the
// recording backend registered as logical type "vhrec"; tweak may edit the CoreConfig before NewCore.
func vhNewCore(t *testing.T, phys physical.Backend, rec **vhRecBackend, tweak func(*CoreConfig)) (*Core, [][]byte, string) {
	t.Helper()
	logger := vhLogger()
	conf := testCoreConfig(t, phys, logger)
	conf.DisableCache = true
	conf.NumExpirationWorkers = numExpirationWorkersTest
	conf.LogicalBackends["vhrec"] = vhRecFactory(rec)
	if tweak != nil {
		tweak(conf)
	}
	c, err := NewCore(conf)
	if err != nil {
		t.Fatalf("NewCore: %v", err)
	}
	t.Cleanup(func() { _ = c.Shutdown() })
	core, keys, root := testCoreUnsealed(t, c)
	return core, keys, root
}

// vhRestartCore starts a NEW core on an existing (snapshotted) store and unseals it with keys.
func vhRestartCore(t *testing.T, phys physical.Backend, keys [][]byte, rec **vhRecBackend, tweak func(*CoreConfig)) (*Core, error) {
	t.Helper()
	logger := vhLogger()
	conf := testCoreConfig(t, phys, logger)
	conf.DisableCache = true
	conf.NumExpirationWorkers = numExpirationWorkersTest
	conf.LogicalBackends["vhrec"] = vhRecFactory(rec)
	if tweak != nil {
		tweak(conf)
	}
	c, err := NewCore(conf)
	if err != nil {
		return nil, err
	}
	t.Cleanup(func() { _ = c.Shutdown() })
	for _, k := range keys {
		if _, err := TestCoreUnseal(c, TestKeyCopy(k)); err != nil {
			return c, err
		}
	}
	if c.Sealed() {
		return c, errors.New("still sealed")
	}
	return c, nil
}

// vhLogger: silent unless VERIF_DEBUG is set (a chatty logger makes harness output enormous).
func vhLogger() log.Logger {
	if os.Getenv("VERIF_DEBUG") != "" {
		return log.New(&log.LoggerOptions{Level: log.Trace})
	}
	return log.NewNullLogger()
}

func vhRootCtx() context.Context { return namespace.RootContext(context.Background()) }

// vhReq issues one request and classifies the outcome: ok | denied | err:<short> ; returns the response too.
func vhReq(c *Core, op logical.Operation, path, token string, data map[string]any) (string, *logical.Response) {
	req := &logical.Request{Operation: op, Path: path, ClientToken: token, Data: data}
	req.SetTokenEntry(nil)
	resp, err := c.HandleRequest(vhRootCtx(), req)
	return vhClass(resp, err), resp
}

func vhClass(resp *logical.Response, err error) string {
	switch {
	case err != nil && errors.Is(err, logical.ErrPermissionDenied):
		return "denied"
	case err != nil && strings.Contains(err.Error(), "permission denied"):
		return "denied"
	case err != nil && errors.Is(err, logical.ErrInvalidRequest):
		return "err:invalid"
	case err != nil && errors.Is(err, logical.ErrUnsupportedPath):
		return "err:unsupported"
	case err != nil:
		return "err:internal"
	case resp != nil && resp.IsError():
		if strings.Contains(resp.Error().Error(), "permission denied") {
			return "denied"
		}
		return "err:resp"
	}
	return "ok"
}

// vhMount mounts the recording backend at path (with trailing slash) as root.
func vhMount(t *testing.T, c *Core, root, path string) {
	t.Helper()
	cl, resp := vhReq(c, logical.UpdateOperation, "sys/mounts/"+strings.TrimSuffix(path, "/"), root, map[string]any{"type": "vhrec"})
	if cl != "ok" {
		t.Fatalf("mount %s: %s %v", path, cl, resp)
	}
}

// vhCreateToken creates a child of parent with the given request data; returns the client token.
func vhCreateToken(t *testing.T, c *Core, parent string, data map[string]any) string {
	t.Helper()
	cl, resp := vhReq(c, logical.UpdateOperation, "auth/token/create", parent, data)
	if cl != "ok" || resp == nil || resp.Auth == nil {
		t.Fatalf("token create: %s %v", cl, resp)
	}
	return resp.Auth.ClientToken
}

// vhScheduler drives gated threads: Advance(i) waits until thread i parks at its next storage op, finishes,
// or stays invisible for `quiet` (then it is considered blocked on a lock).
type vhSched struct {
	p       *vhPhys
	gates   []*vhGateThread
	done    []chan string
	parked  []*vhOp
	result  []string
	quiet   time.Duration
}

func vhNewSched(p *vhPhys, n int) *vhSched {
	s := &vhSched{p: p, quiet: 30 * time.Millisecond}
	for i := 0; i < n; i++ {
		s.gates = append(s.gates, p.Gate(i))
		s.done = append(s.done, make(chan string, 1))
		s.parked = append(s.parked, nil)
		s.result = append(s.result, "")
	}
	return s
}

// Go starts thread i running f (tagged, gated); f's return value is the thread's result.
func (s *vhSched) Go(i int, f func() string) {
	ready := make(chan struct{})
	go func() {
		s.p.Tag(i)
		close(ready)
		r := f()
		s.p.Untag()
		s.done[i] <- r
	}()
	<-ready
}

// Advance returns "gate" (thread parked before an op; see Parked(i)), "done" or "blocked".
func (s *vhSched) Advance(i int) string {
	if s.result[i] != "" {
		return "done"
	}
	if s.parked[i] != nil {
		return "gate"
	}
	select {
	case op := <-s.gates[i].arrive:
		s.parked[i] = &op
		return "gate"
	case r := <-s.done[i]:
		s.result[i] = r
		return "done"
	case <-time.After(s.quiet):
		return "blocked"
	}
}

// Release lets the parked thread i execute its pending op.
func (s *vhSched) Release(i int) {
	if s.parked[i] == nil {
		return
	}
	s.parked[i] = nil
	s.gates[i].release <- struct{}{}
}

func (s *vhSched) Parked(i int) *vhOp   { return s.parked[i] }
func (s *vhSched) Result(i int) string  { return s.result[i] }
func (s *vhSched) Finished(i int) bool  { return s.result[i] != "" }

// Drain releases everything until all threads are done (used at the end of a case / on abort).
func (s *vhSched) Drain(max int) {
	for step := 0; step < max; step++ {
		all := true
		for i := range s.gates {
			if s.result[i] != "" {
				continue
			}
			all = false
			if s.Advance(i) == "gate" {
				s.Release(i)
			}
		}
		if all {
			break
		}
	}
	for i := range s.gates {
		s.p.Ungate(i)
	}
}

// vhKeyClass maps a physical key to a stable class name (ids are random): used in traces.
func vhKeyClass(k string) string {
	switch {
	case strings.HasPrefix(k, "sys/token/id/"):
		return "tok-id"
	case strings.HasPrefix(k, "sys/token/accessor/"):
		return "tok-accessor"
	case strings.HasPrefix(k, "sys/token/parent/"):
		return "tok-parent"
	case strings.HasPrefix(k, "sys/expire/id/"):
		return "lease-id"
	case strings.HasPrefix(k, "sys/expire/token/"):
		return "lease-tokidx"
	case strings.HasPrefix(k, "sys/policy/"):
		return "policy"
	case strings.HasPrefix(k, "logical/"):
		return "logical"
	case strings.HasPrefix(k, "auth/"):
		return "auth"
	case strings.HasPrefix(k, "core/"):
		return "core"
	case strings.HasPrefix(k, "sys/"):
		return "sys-other"
	}
	return "other"
}
