//go:build verif

package vault

// C03, last clause at the level of the Core — "the capability list reported for a path agrees with the operations
// actually permitted on it": Core.Capabilities (sys/capabilities) against the outcomes of REAL requests of the same
// token on the same path in the same namespace. Three set-ups per script: everything in the root namespace;
// everything inside a child namespace; and CROSS — policies and tokens in the root namespace (the rules name the child
// namespace's paths in full), mounts and requests (and the capabilities question) in the child namespace.
// The script is the one of C02 (`pol-put`, `tok-new`, `req` lines, same model) plus
//   caps <token label> <hex path>  =>  the sorted capability list
// judged on the implementation's own answers:
//   (1) a request of operation X was granted  =>  X is in the reported list (create/update: either; root: all);
//   (2) "deny" is reported                    =>  none of the seven path operations was granted;
//   (3) Core.Capabilities and the sys/capabilities endpoint give the same list.

import (
	"sort"
	"strings"
	"testing"

	"github.com/openbao/openbao/sdk/v2/logical"
	"github.com/openbao/openbao/v2/internal/zzverif/vh"
)

var c03cOps = []string{"read", "update", "delete", "list", "patch", "scan", "create"}

func (e *c02Env) capsOp(label, rpath string) {
	tok := e.toks[label].client
	granted := map[string]bool{}
	judge := !strings.HasSuffix(rpath, "/") && !strings.HasPrefix(rpath, "/") && !strings.Contains(rpath, "unauth/")
	for _, op := range c03cOps {
		granted[op] = e.reqRes("valid:"+label, op, rpath, "10.1.2.3")
	}
	if e.ns != nil && strings.HasPrefix(rpath, "/") {
		return // not a namespace-relative path (see `reqns` in the C02 harness): the requests above are all there is to compare
	}
	qctx, qpath := e.ctx(), rpath
	if e.qualified && e.ns != nil {
		qctx, qpath = vhRootCtx(), e.ns.Path+rpath
	}
	res := vh.Catch(func() string {
		cs, err := e.c.Capabilities(qctx, tok, qpath)
		if err != nil {
			return "err"
		}
		sort.Strings(cs)
		return strings.Join(cs, ",")
	})
	marker := ""
	// the endpoint
	req := &logical.Request{Operation: logical.UpdateOperation, Path: "sys/capabilities", ClientToken: e.root,
		Data: map[string]any{"token": tok, "path": qpath}, Connection: &logical.Connection{RemoteAddr: "127.0.0.1"}}
	resp, err := e.c.HandleRequest(qctx, req)
	if err == nil && resp != nil && !resp.IsError() {
		var got []string
		switch v := resp.Data["capabilities"].(type) {
		case []string:
			got = append(got, v...)
		case []any:
			for _, x := range v {
				got = append(got, x.(string))
			}
		}
		sort.Strings(got)
		if strings.Join(got, ",") != res {
			marker = "!VIOL:sys/capabilities reports [" + strings.Join(got, ",") + "], Core.Capabilities [" + res + "] for the same token and path#capabilities-endpoint-differs"
		}
	} else if res != "err" {
		marker = "!VIOL:sys/capabilities failed where Core.Capabilities answered [" + res + "]#capabilities-endpoint-differs"
	}
	if judge && marker == "" && res != "err" {
		has := map[string]bool{}
		for _, c := range strings.Split(res, ",") {
			has[c] = true
		}
		for _, op := range c03cOps {
			if !granted[op] || has["root"] {
				continue
			}
			ok := has[op]
			if op == "create" || op == "update" {
				ok = has["create"] || has["update"]
			}
			if has["deny"] {
				marker = "!VIOL:deny is reported for " + rpath + " but the token's " + op + " request on it was granted#capabilities-disagree-with-decisions"
				break
			}
			if !ok {
				marker = "!VIOL:the token's " + op + " request on " + rpath + " was granted but the reported capabilities are [" + res + "]#capabilities-disagree-with-decisions"
				break
			}
		}
	}
	e.out.Op(res+marker, "caps", label, vh.HexS(rpath))
}

func TestVerifC03Core(t *testing.T) {
	out := vh.Open()
	defer out.Close()
	master := vh.NewRand(vh.Seed())
	ncases := 150
	if vh.Thorough() {
		ncases = 2500
	}
	ncases = vh.EnvInt("VERIF_C03C_CASES", ncases)
	for ci := 0; ci < ncases; ci++ {
		rng := master.Fork(uint64(ci))
		out.Reset()
		func() {
			e := c02NewEnv(t, out, rng)
			defer func() { _ = e.c.Shutdown() }()
			mode := ci % 3
			if mode >= 1 {
				e.enterNS("c03ns")
			}
			e.cross = mode == 2
			if mode == 1 {
				// the token the model knows as `root` is the root token OF THE NAMESPACE here (policy root of c03ns/)
				// (what generate-root of a namespace hands out)
				te, err := e.c.tokenStore.rootToken(e.ctx())
				if err != nil || te == nil {
					t.Fatalf("namespace root token: %v", err)
				}
				id := te.ExternalID
				if id == "" {
					id = te.ID
				}
				e.toks["root"] = &c02Tok{label: "root", client: id, kind: "root"}
			}
			e.mount("rec/")
			if rng.Chance(40) {
				e.mount("deep/er/")
			}
			reqPaths := c02ReqPaths(e.mounts)
			rulePaths := c02RulePaths(e.mounts)
			pols := []string{"p1", "p2", "p3"}
			genRules := func() string {
				n := 1 + rng.Intn(3)
				seen := map[string]bool{}
				var rs []string
				for i := 0; i < n; i++ {
					p := rng.Pick(rulePaths)
					if seen[p] {
						continue
					}
					seen[p] = true
					rs = append(rs, p+"="+rng.Pick(c02CapSets))
				}
				return strings.Join(rs, ";")
			}
			newTok := func() string {
				e.ntok++
				label := "t" + vh.I(int64(e.ntok))
				var ps []string
				for _, p := range pols {
					if rng.Chance(55) {
						ps = append(ps, p)
					}
				}
				if len(ps) == 0 {
					ps = []string{"p0"}
				}
				kind := "service"
				if rng.Chance(20) {
					kind = "batch"
				}
				mk := func() { e.tokNew(label, strings.Join(ps, ","), 0, kind) }
				if e.cross {
					e.inRoot(mk)
				} else {
					mk()
				}
				return label
			}
			for _, p := range pols {
				e.polPut(p, genRules())
			}
			labels := []string{newTok(), newTok()}
			nops := 10 + rng.Intn(10)
			for i := 0; i < nops; i++ {
				switch r := rng.Intn(100); {
				case r < 15:
					e.polPut(rng.Pick(pols), genRules())
				case r < 22:
					labels = append(labels, newTok())
				default:
					l := rng.Pick(labels)
					p, _ := e.targeted(l)
					if p == "" || rng.Chance(30) {
						p = rng.Pick(reqPaths)
					}
					if p == "" {
						continue
					}
					// half of the questions of a namespace case are asked FROM THE ROOT NAMESPACE with the namespace-
					// qualified path (requests and capabilities alike): same decisions, same report
					e.qualified = mode == 1 && rng.Chance(50)
					e.capsOp(l, p)
					e.qualified = false
				}
			}
			if !e.cross {
				e.capsOp("root", e.mounts[0]+"data/a")
				e.qualified = mode == 1
				e.capsOp("root", e.mounts[0]+"data/b")
				e.qualified = false
			}
		}()
	}
}
