//go:build verif

package vault

// White-box correspondence harness for C11, parts 2 and 3 (streams "auditbroker", "auditpipe").
// Overlaid into internal/vault at check time together with zz_verif_common_test.go; never written into /repo.
//
//   TestVerifC11Broker  AuditBroker.LogRequest / LogResponse with 0..3 scripted fake devices; every vector over
//                       {ok, err, panic, header-hash error, header-hash panic}, several repetitions each (Go map
//                       order decides the visiting order, which is recorded and written into the op line).
//   TestVerifC11Pipe    the same fake devices ENABLED on a real unsealed Core (Core.enableAudit), the recording
//                       secrets backend mounted at rec/, a recording credential backend at auth/c11/: for every
//                       pair (request-entry outcome vector, response-entry outcome vector) over {ok, err, panic}
//                       and every request kind: was the handler invoked, what does the client get back.

import (
	"bytes"
	"context"
	"errors"
	"fmt"
	"os"
	"path/filepath"
	"reflect"
	"sort"
	"strings"
	"sync"
	"testing"
	"time"

	"github.com/openbao/openbao/sdk/v2/framework"
	"github.com/openbao/openbao/sdk/v2/logical"
	"github.com/openbao/openbao/v2/internal/audit"
	auditFile "github.com/openbao/openbao/v2/internal/builtin/audit/file"
	"github.com/openbao/openbao/v2/internal/vault/routing"
	"github.com/openbao/openbao/v2/internal/zzverif/vh"
)

type c11Event struct {
	dev   int
	what  string // "h" GetHash, "lq" LogRequest, "lr" LogResponse
	calls int    // handler invocations observed so far (orders audit events against routing)
	path  string
}

type c11Log struct {
	mu     sync.Mutex
	ev     []c11Event
	probe  func() int // current number of backend handler invocations
	filter string     // only record entries for this request path ("" = all)
}

func (l *c11Log) add(dev int, what, path string) {
	l.mu.Lock()
	defer l.mu.Unlock()
	if l.filter != "" && path != l.filter && what != "h" {
		return
	}
	n := 0
	if l.probe != nil {
		n = l.probe()
	}
	l.ev = append(l.ev, c11Event{dev: dev, what: what, calls: n, path: path})
}

func (l *c11Log) reset() { l.mu.Lock(); l.ev = nil; l.mu.Unlock() }
func (l *c11Log) snapshot() []c11Event {
	l.mu.Lock()
	defer l.mu.Unlock()
	return append([]c11Event{}, l.ev...)
}

// c11Dev is a scripted audit device: outcome letters o (ok) e (error) p (panic) h (GetHash error) q (GetHash panic)
type c11Dev struct {
	idx           int
	log           *c11Log
	mu            sync.Mutex
	reqOut, rspOut byte
	hashOut       byte
	seen          map[string][]string // the request headers this device was shown by the last Log* call
}

var _ audit.Backend = (*c11Dev)(nil)

func (d *c11Dev) set(req, rsp, hash byte) { d.mu.Lock(); d.reqOut, d.rspOut, d.hashOut = req, rsp, hash; d.mu.Unlock() }
func (d *c11Dev) get() (byte, byte, byte)  { d.mu.Lock(); defer d.mu.Unlock(); return d.reqOut, d.rspOut, d.hashOut }

func c11Act(o byte) error {
	switch o {
	case 'o':
		return nil
	case 'p':
		panic("c11: scripted device panic")
	}
	return errors.New("c11: scripted device failure")
}

func (d *c11Dev) LogRequest(_ context.Context, in *logical.LogInput) error {
	o, _, _ := d.get()
	d.log.add(d.idx, "lq", in.Request.Path)
	d.see(in)
	return c11Act(o)
}

func (d *c11Dev) LogResponse(_ context.Context, in *logical.LogInput) error {
	_, o, _ := d.get()
	d.log.add(d.idx, "lr", in.Request.Path)
	d.see(in)
	return c11Act(o)
}

func (d *c11Dev) see(in *logical.LogInput) {
	cp := map[string][]string{}
	for k, v := range in.Request.Headers {
		cp[k] = append([]string{}, v...)
	}
	d.mu.Lock()
	d.seen = cp
	d.mu.Unlock()
}

func (d *c11Dev) LogTestMessage(context.Context, *logical.LogInput, map[string]string) error { return nil }

func (d *c11Dev) GetHash(_ context.Context, s string) (string, error) {
	_, _, o := d.get()
	d.log.add(d.idx, "h", "")
	switch o {
	case 'h':
		return "", errors.New("c11: scripted salt failure")
	case 'q':
		panic("c11: scripted GetHash panic")
	}
	return "c11h:" + s, nil
}

func (d *c11Dev) Reload(context.Context) error { return nil }
func (d *c11Dev) Invalidate(context.Context)   {}

// c11Vectors enumerates all strings of length k over alphabet
func c11Vectors(alphabet string, k int) []string {
	out := []string{""}
	for i := 0; i < k; i++ {
		var next []string
		for _, p := range out {
			for _, c := range alphabet {
				next = append(next, p+string(c))
			}
		}
		out = next
	}
	return out
}

// c11Observe turns the recorded events of one broker call into (vector in visiting order, visited, logged, accepted)
func c11Observe(evs []c11Event, what string, outcome func(dev int) byte, k int) (vec string, visited, logged, accepted int) {
	seen := map[int]bool{}
	for _, e := range evs {
		if e.what != what && e.what != "h" {
			continue
		}
		if !seen[e.dev] {
			seen[e.dev] = true
			vec += string(outcome(e.dev))
			visited++
		}
		if e.what == what {
			logged++
			if outcome(e.dev) == 'o' {
				accepted++
			}
		}
	}
	for i := 0; i < k; i++ {
		if !seen[i] {
			vec += string(outcome(i))
		}
	}
	if vec == "" {
		vec = "-"
	}
	return
}

func c11BrokerErr(err error) string {
	switch {
	case err == nil:
		return "ok"
	case strings.Contains(err.Error(), "no audit backend succeeded") && !strings.Contains(err.Error(), "panic"):
		return "err:none-logged"
	case strings.Contains(err.Error(), "panic generating audit log") && !strings.Contains(err.Error(), "no audit backend"):
		return "err:panic"
	}
	return "err:other"
}

func TestVerifC11Broker(t *testing.T) {
	out := vh.Open()
	defer out.Close()
	reps := 4
	if vh.Thorough() {
		reps = 100
	}
	ctx := vhRootCtx()
	headersConf := &AuditedHeadersConfig{Headers: map[string]*auditedHeaderSettings{"x-c11": {HMAC: true}}}
	for k := 0; k <= 3; k++ {
		lg := &c11Log{}
		broker := NewAuditBroker(vhLogger())
		devs := make([]*c11Dev, k)
		for i := range devs {
			devs[i] = &c11Dev{idx: i, log: lg}
			broker.Register(fmt.Sprintf("c11d%d/", i), devs[i], nil, false)
		}
		for _, v := range c11Vectors("oephq", k) {
			for _, kind := range []string{"req", "resp"} {
				for r := 0; r < reps; r++ {
					for i, d := range devs {
						d.set(v[i], v[i], v[i])
					}
					lg.reset()
					hdr := map[string][]string{"X-C11": {"header-secret"}, "Other": {"x"}}
					in := &logical.LogInput{
						Auth:     &logical.Auth{ClientToken: "tok"},
						Request:  &logical.Request{ID: "id", Operation: logical.ReadOperation, Path: "rec/data/k", Headers: hdr},
						Response: &logical.Response{Data: map[string]any{"v": "x"}},
					}
					var err error
					crashed := vh.Catch(func() string {
						if kind == "req" {
							err = broker.LogRequest(ctx, in, headersConf)
						} else {
							err = broker.LogResponse(ctx, in, headersConf)
						}
						return ""
					})
					what := "lq"
					if kind == "resp" {
						what = "lr"
					}
					vec, visited, logged, accepted := c11Observe(lg.snapshot(), what, func(i int) byte { return v[i] }, k)
					res := c11BrokerErr(err)
					if crashed == "panic" {
						res = "panic"
					}
					line := fmt.Sprintf("%s visited=%d logged=%d accepted=%d", res, visited, logged, accepted)
					// property predicate on the implementation: success with >= 1 device means some device accepted;
					// the caller's header map is restored
					if res == "ok" && k > 0 && accepted == 0 {
						line += "!VIOL:broker reports success although no device accepted the entry#broker-ok-none-accepted"
					} else if len(in.Request.Headers) != 2 {
						line += "!VIOL:request headers not restored after audit#broker-headers-not-restored"
					}
					out.Op(line, kind, vec)
				}
			}
		}
	}

	// ---- AuditedHeadersConfig.ApplyConfig: which request headers (and in which form) a device is shown
	rng := vh.NewRand(vh.Seed())
	names := []string{"X-C11", "Authorization", "X-Vault-Token", "X-Forwarded-For", "Content-Type", "X-Vault-Inline-Auth-Parameter-Token", "accept", "X-UPPER"}
	nHdr := 1500
	if vh.Thorough() {
		nHdr = 150000
	}
	for n := 0; n < nHdr; n++ {
		lg := &c11Log{}
		dev := &c11Dev{idx: 0, log: lg, reqOut: 'o', rspOut: 'o', hashOut: 'o'}
		broker := NewAuditBroker(vhLogger())
		broker.Register("c11d0/", dev, nil, false)
		conf := &AuditedHeadersConfig{Headers: map[string]*auditedHeaderSettings{}}
		var cfgNames []string
		for _, nm := range names {
			if rng.Chance(40) {
				conf.Headers[strings.ToLower(nm)] = &auditedHeaderSettings{HMAC: rng.Bool()}
				cfgNames = append(cfgNames, strings.ToLower(nm))
			}
		}
		sort.Strings(cfgNames)
		hdr := map[string][]string{}
		var hdrNames []string
		for _, nm := range names {
			if rng.Chance(50) {
				var vals []string
				for i, m := 0, rng.Intn(3); i <= m; i++ {
					vals = append(vals, fmt.Sprintf("CANARY-hdr-%d-%x", n, rng.Bytes(3)))
				}
				if rng.Chance(10) {
					vals = []string{}
				}
				hdr[nm] = vals
				hdrNames = append(hdrNames, nm)
			}
		}
		sort.Strings(hdrNames)
		in := &logical.LogInput{Auth: &logical.Auth{ClientToken: "tok"},
			Request: &logical.Request{ID: "id", Operation: logical.ReadOperation, Path: "rec/data/k", Headers: hdr}, Response: &logical.Response{}}
		var err error
		if n%2 == 0 {
			err = broker.LogRequest(ctx, in, conf)
		} else {
			err = broker.LogResponse(ctx, in, conf)
		}
		// op fields
		cf := "-"
		if len(cfgNames) > 0 {
			parts := make([]string, len(cfgNames))
			for i, k := range cfgNames {
				parts[i] = k + ":" + map[bool]string{true: "1", false: "0"}[conf.Headers[k].HMAC]
			}
			cf = strings.Join(parts, ",")
		}
		enc := func(m map[string][]string, keys []string, hashed bool) string {
			if len(keys) == 0 {
				return "-"
			}
			parts := make([]string, len(keys))
			for i, k := range keys {
				vs := make([]string, len(m[k]))
				for j, v := range m[k] {
					switch {
					case hashed && strings.HasPrefix(v, "c11h:"):
						vs[j] = "h" + vh.HexS(strings.TrimPrefix(v, "c11h:"))
					case hashed:
						vs[j] = "s" + vh.HexS(v)
					default:
						vs[j] = vh.HexS(v)
					}
				}
				if len(vs) == 0 {
					vs = []string{"*"} // a header with no values
				}
				parts[i] = k + "=" + strings.Join(vs, "+")
			}
			return strings.Join(parts, ",")
		}
		var seenKeys []string
		for k := range dev.seen {
			seenKeys = append(seenKeys, k)
		}
		sort.Strings(seenKeys)
		res := enc(dev.seen, seenKeys, true)
		if err != nil {
			res = "err:" + c11BrokerErr(err)
		}
		// property predicate: a header value reaches the device in clear only if that header is configured without hmac
		clear := false
		for k, vals := range dev.seen {
			st := conf.Headers[k]
			for _, v := range vals {
				if strings.HasPrefix(v, "CANARY") && (st == nil || st.HMAC) {
					clear = true
				}
			}
		}
		if clear {
			res += "!VIOL:request header value shown to the audit device in clear#header-in-clear"
		} else if !reflect.DeepEqual(in.Request.Headers, hdr) {
			res += "!VIOL:request headers not restored after audit#broker-headers-not-restored"
		}
		out.Op(res, "hdr", cf, enc(hdr, hdrNames, false))
	}
}

// ------------------------------------------------------------------------------------------ pipeline

type c11Cred struct {
	*framework.Backend
	mu    sync.Mutex
	calls int
}

func (b *c11Cred) count() int { b.mu.Lock(); defer b.mu.Unlock(); return b.calls }

func c11CredFactory(holder **c11Cred) logical.Factory {
	return func(ctx context.Context, conf *logical.BackendConfig) (logical.Backend, error) {
		b := &c11Cred{}
		b.Backend = &framework.Backend{
			BackendType:  logical.TypeCredential,
			PathsSpecial: &logical.Paths{Unauthenticated: []string{"login"}},
			Paths: []*framework.Path{{
				Pattern: "login",
				Fields:  map[string]*framework.FieldSchema{"password": {Type: framework.TypeString}},
				Callbacks: map[logical.Operation]framework.OperationFunc{
					logical.UpdateOperation: func(ctx context.Context, req *logical.Request, d *framework.FieldData) (*logical.Response, error) {
						b.mu.Lock()
						b.calls++
						b.mu.Unlock()
						return &logical.Response{Auth: &logical.Auth{
							Policies:     []string{"default"},
							DisplayName:  "c11",
							LeaseOptions: logical.LeaseOptions{TTL: time.Hour, Renewable: true},
							Metadata:     map[string]string{"user": "c11"},
						}}, nil
					},
				},
			}},
		}
		if err := b.Backend.Setup(ctx, conf); err != nil {
			return nil, err
		}
		*holder = b
		return b, nil
	}
}

type c11Kind struct {
	name  string
	class string // authed | badtoken | login
	req   func() *logical.Request
	// setup runs before the request with every device accepting and returns the client token to use
	setup func() string
	// routed detection beyond the two recording backends: a storage write under this prefix
	putPrefix string
}

func c11ClientClass(resp *logical.Response, err error) string {
	e := "none"
	switch {
	case err == nil:
	case errors.Is(err, ErrInternalError) || strings.Contains(err.Error(), ErrInternalError.Error()):
		e = "internal"
	case errors.Is(err, logical.ErrPermissionDenied) || strings.Contains(err.Error(), "permission denied"):
		e = "denied"
	default:
		e = "other"
	}
	r := ""
	switch {
	case resp == nil:
		r = "nil"
	case resp.IsError():
		r = "errresp"
	default:
		if len(resp.Data) > 0 {
			r += "d"
		}
		if resp.Secret != nil {
			r += "s"
		}
		if resp.Auth != nil {
			r += "a"
		}
		if resp.WrapInfo != nil {
			r += "w"
		}
		if r == "" {
			r = "-"
		}
	}
	return e + "/" + r
}

func TestVerifC11Pipe(t *testing.T) {
	out := vh.Open()
	defer out.Close()
	rng := vh.NewRand(vh.Seed())

	lg := &c11Log{}
	pool := make([]*c11Dev, 3)
	for i := range pool {
		pool[i] = &c11Dev{idx: i, log: lg, reqOut: 'o', rspOut: 'o', hashOut: 'o'}
	}
	next := 0
	var rec *vhRecBackend
	var cred *c11Cred
	phys := vhNewPhys(t)
	core, _, root := vhNewCore(t, phys, &rec, func(conf *CoreConfig) {
		conf.AuditBackends["c11fake"] = func(context.Context, *audit.BackendConfig) (audit.Backend, error) {
			d := pool[next]
			next++
			return d, nil
		}
		conf.CredentialBackends["c11cred"] = c11CredFactory(&cred)
		conf.AuditBackends["file"] = auditFile.Factory
	})
	if n := core.auditBroker.Count(); n != 0 {
		t.Fatalf("test core starts with %d audit devices", n)
	}
	vhMount(t, core, root, "rec/")
	if cl, resp := vhReq(core, logical.UpdateOperation, "sys/auth/c11", root, map[string]any{"type": "c11cred"}); cl != "ok" {
		t.Fatalf("enable c11cred: %s %v", cl, resp)
	}
	if cl, _ := vhReq(core, logical.UpdateOperation, "rec/data/k1", root, map[string]any{"value": "CANARY-pipeline-secret"}); cl != "ok" {
		t.Fatalf("seed write: %s", cl)
	}
	lg.probe = func() int { return rec.CallCount() + cred.count() }

	kinds := []c11Kind{
		{name: "read", class: "authed", req: func() *logical.Request {
			return &logical.Request{Operation: logical.ReadOperation, Path: "rec/data/k1", ClientToken: root}
		}},
		{name: "login-auth", class: "login", req: func() *logical.Request {
			return &logical.Request{Operation: logical.UpdateOperation, Path: "auth/c11/login", Data: map[string]any{"password": "CANARY-login-password"}}
		}},
		{name: "write", class: "authed", req: func() *logical.Request {
			return &logical.Request{Operation: logical.UpdateOperation, Path: "rec/data/k2", ClientToken: root, Data: map[string]any{"value": "v"}}
		}},
		{name: "list", class: "authed", req: func() *logical.Request {
			return &logical.Request{Operation: logical.ListOperation, Path: "rec/data/", ClientToken: root}
		}},
		{name: "lease", class: "authed", req: func() *logical.Request {
			return &logical.Request{Operation: logical.ReadOperation, Path: "rec/lease/x", ClientToken: root}
		}},
		{name: "unauth-read", class: "login", req: func() *logical.Request {
			return &logical.Request{Operation: logical.ReadOperation, Path: "rec/unauth/k1"}
		}},
		{name: "token-create", class: "authed", putPrefix: "sys/token/id/", req: func() *logical.Request {
			return &logical.Request{Operation: logical.UpdateOperation, Path: "auth/token/create", ClientToken: root, Data: map[string]any{"policies": []string{"default"}, "ttl": "1h"}}
		}},
		{name: "wrapped-read", class: "authed", req: func() *logical.Request {
			return &logical.Request{Operation: logical.ReadOperation, Path: "rec/data/k1", ClientToken: root, WrapInfo: &logical.RequestWrapInfo{TTL: time.Minute}}
		}},
		{name: "bad-token", class: "badtoken", req: func() *logical.Request {
			return &logical.Request{Operation: logical.ReadOperation, Path: "rec/data/k1", ClientToken: "c11-not-a-token"}
		}},
		{name: "read-missing", class: "authed", req: func() *logical.Request {
			return &logical.Request{Operation: logical.ReadOperation, Path: "rec/data/absent", ClientToken: root}
		}},
		// unwrapping a wrapped response: the wrapping token is validated before the request audit, the response
		// entry is the DECODED wrapped response while the client gets the raw body
		// (handler invocation = the sys backend's cubbyhole read of the stored response; the deferred revocation of the
		// single-use wrapping token, which also happens when the request audit fails, only lists and deletes)
		{name: "unwrap", class: "authed", putPrefix: "get:logical/:/response", req: func() *logical.Request {
			return &logical.Request{Operation: logical.UpdateOperation, Path: "sys/wrapping/unwrap"}
		}, setup: func() string {
			r := &logical.Request{Operation: logical.ReadOperation, Path: "rec/data/k1", ClientToken: root, WrapInfo: &logical.RequestWrapInfo{TTL: time.Minute}}
			resp, err := core.HandleRequest(vhRootCtx(), r)
			if err != nil || resp == nil || resp.WrapInfo == nil {
				t.Fatalf("unwrap set-up: %v %v", resp, err)
			}
			return resp.WrapInfo.Token
		}},
		// the last use of a use-limited token: revocation is deferred until after the handler ran
		{name: "oneuse-read", class: "authed", req: func() *logical.Request {
			return &logical.Request{Operation: logical.ReadOperation, Path: "rec/data/k1"}
		}, setup: func() string {
			return vhCreateToken(t, core, root, map[string]any{"policies": []string{"root"}, "num_uses": 1, "ttl": "1h"})
		}},
	}

	// one request; returns client class, routed?, and the recorded audit events
	run := func(kd c11Kind) (string, bool, bool, int, []c11Event) {
		req := kd.req()
		if kd.setup != nil {
			saved := make([][3]byte, len(pool))
			for i, d := range pool {
				saved[i][0], saved[i][1], saved[i][2] = d.get()
				d.set('o', 'o', 'o')
			}
			req.ClientToken = kd.setup()
			for i, d := range pool {
				d.set(saved[i][0], saved[i][1], saved[i][2])
			}
		}
		req.SetTokenEntry(nil)
		base := lg.probe()
		lg.mu.Lock()
		lg.filter = req.Path
		lg.mu.Unlock()
		lg.reset()
		if kd.putPrefix != "" {
			phys.StartRecording()
		}
		var resp *logical.Response
		var err error
		crashed := vh.Catch(func() string {
			resp, err = core.HandleRequest(vhRootCtx(), req)
			return ""
		})
		probed := lg.probe() > base
		routed := probed
		if kd.putPrefix != "" {
			// "prefix" (a put) or "kind:prefix:suffix"
			kindWanted, prefix, suffix := "put", kd.putPrefix, ""
			if parts := strings.Split(kd.putPrefix, ":"); len(parts) == 3 {
				kindWanted, prefix, suffix = parts[0], parts[1], parts[2]
			}
			for _, op := range phys.StopRecording() {
				if op.Kind == kindWanted && strings.HasPrefix(op.Key, prefix) && strings.HasSuffix(op.Key, suffix) {
					routed = true
				}
			}
		}
		cl := c11ClientClass(resp, err)
		if crashed == "panic" {
			cl = "panic"
		}
		return cl, routed, probed, base, lg.snapshot()
	}

	baseline := map[string]string{}
	for _, kd := range kinds {
		cl, _, _, _, _ := run(kd)
		baseline[kd.name] = cl
	}

	vecs := [][]string{c11Vectors("oep", 0), c11Vectors("oep", 1), c11Vectors("oep", 2), c11Vectors("oep", 3)}
	sample3 := vh.EnvInt("VERIF_C11_SAMPLE3", 729) // k = 3: pairs per kind (full cross = 729); knob only for experiments
	for k := 0; k <= 3; k++ {
		if k > 0 {
			me := &routing.MountEntry{Table: auditTableType, Path: fmt.Sprintf("c11d%d", k-1), Type: "c11fake"}
			if err := core.enableAudit(vhRootCtx(), me, true); err != nil {
				t.Fatalf("enableAudit: %v", err)
			}
		}
		if core.auditBroker.Count() != k {
			t.Fatalf("expected %d devices, broker has %d", k, core.auditBroker.Count())
		}
		for ki, kd := range kinds {
			type pair struct{ rq, rs string }
			var pairs []pair
			for _, a := range vecs[k] {
				for _, b := range vecs[k] {
					pairs = append(pairs, pair{a, b})
				}
			}
			if k == 3 && ki >= 2 && sample3 < len(pairs) {
				for i := range pairs { // seeded partial shuffle
					j := i + rng.Intn(len(pairs)-i)
					pairs[i], pairs[j] = pairs[j], pairs[i]
				}
				pairs = pairs[:sample3]
			}
			if vh.Thorough() { // every pair three times: other Go map orders
				pairs = append(append(append([]pair{}, pairs...), pairs...), pairs...)
			}
			for _, p := range pairs {
				for i := 0; i < k; i++ {
					pool[i].set(p.rq[i], p.rs[i], 'o')
				}
				cl, routed, probed, base, evs := run(kd)
				rqVec, _, rqLogged, rqAcc := c11Observe(evs, "lq", func(i int) byte { return p.rq[i] }, k)
				rsVec, _, rsLogged, rsAcc := c11Observe(evs, "lr", func(i int) byte { return p.rs[i] }, k)
				rt := 0
				if routed {
					rt = 1
				}
				line := fmt.Sprintf("rq=%d/%d route=%d rs=%d/%d ret=%s", rqLogged, rqAcc, rt, rsLogged, rsAcc, cl)

				// ---- the property's predicate, evaluated on what the real code did
				acceptedBefore, acceptedAfter := false, false
				for _, e := range evs {
					if e.what == "lq" && p.rq[e.dev] == 'o' && e.calls == base {
						acceptedBefore = true // request entry accepted while the handler had not run yet
					}
					if e.what == "lr" && p.rs[e.dev] == 'o' && (!probed || e.calls > base) {
						acceptedAfter = true
					}
				}
				carries := !strings.HasSuffix(cl, "/nil") && !strings.HasSuffix(cl, "/errresp") && !strings.HasSuffix(cl, "/-") && cl != "panic"
				allReqFail := k > 0 && !strings.Contains(p.rq, "o")
				allRespFail := k > 0 && !strings.Contains(p.rs, "o")
				switch {
				case routed && k > 0 && !acceptedBefore:
					line += "!VIOL:backend handler invoked before any device accepted the request entry#route-without-request-audit"
				case carries && k > 0 && !acceptedAfter:
					line += "!VIOL:response content returned although no device accepted the response entry#data-without-response-audit"
				case allRespFail && cl != "internal/nil":
					line += "!VIOL:every device failed on the response entry but the client did not get the bare internal error#allfail-not-bare-error"
				case allReqFail && kd.class != "badtoken" && (routed || cl != "internal/nil"):
					line += "!VIOL:every device failed on the request entry but the request was served#allfail-request-served"
				}
				herr, hresp, _ := strings.Cut(baseline[kd.name], "/")
				out.Op(line, "pipe", kd.class, kd.name, herr, hresp, rqVec, rsVec)
			}
		}
	}

	// ---- end to end: the real file audit device next to the three (now always accepting) fakes; real requests
	// with secrets in every position; the bytes written to the file are scanned for those secrets and must
	// contain the device's HMAC of the client token instead.
	for i := range pool {
		pool[i].set('o', 'o', 'o')
	}
	logPath := filepath.Join(t.TempDir(), "c11-audit.log")
	fme := &routing.MountEntry{Table: auditTableType, Path: "c11file", Type: "file", Options: map[string]string{"file_path": logPath}}
	if err := core.enableAudit(vhRootCtx(), fme, true); err != nil {
		t.Fatalf("enable file audit: %v", err)
	}
	rounds := 20
	if vh.Thorough() {
		rounds = 300
	}
	for r := 0; r < rounds; r++ {
		can := func(tag string) string { return fmt.Sprintf("CANARY-%s-%d-%x", tag, r, rng.Bytes(5)) }
		for _, kd := range kinds {
			if err := os.Truncate(logPath, 0); err != nil {
				t.Fatal(err)
			}
			req := kd.req()
			if kd.setup != nil {
				req.ClientToken = kd.setup()
				if err := os.Truncate(logPath, 0); err != nil {
					t.Fatal(err)
				}
			}
			req.SetTokenEntry(nil)
			secrets := []string{}
			if kd.name == "unwrap" || kd.name == "read" || kd.name == "oneuse-read" {
				secrets = append(secrets, "CANARY-pipeline-secret") // the stored value these requests return
			}
			switch kd.name {
			case "write":
				v := can("value")
				req.Path = "rec/data/e2e"
				req.Data = map[string]any{"value": v, "nested": map[string]any{"list": []any{can("l1"), map[string]any{"deep": can("deep")}}}}
				secrets = append(secrets, v, req.Data["nested"].(map[string]any)["list"].([]any)[0].(string),
					req.Data["nested"].(map[string]any)["list"].([]any)[1].(map[string]any)["deep"].(string))
			case "login-auth":
				pw := can("password")
				req.Data = map[string]any{"password": pw}
				secrets = append(secrets, pw)
			case "bad-token":
				req.ClientToken = can("badtoken")
			}
			if req.ClientToken != "" {
				secrets = append(secrets, req.ClientToken)
			}
			resp, err := core.HandleRequest(vhRootCtx(), req)
			cl := c11ClientClass(resp, err)
			if resp != nil {
				if resp.Auth != nil {
					secrets = append(secrets, resp.Auth.ClientToken, resp.Auth.Accessor)
				}
				if resp.WrapInfo != nil {
					secrets = append(secrets, resp.WrapInfo.Token, resp.WrapInfo.Accessor)
				}
				for _, v := range resp.Data {
					if sv, ok := v.(string); ok && !resp.IsError() { // an error response's text is not a secret
						secrets = append(secrets, sv)
					}
				}
			}
			b, rerr := os.ReadFile(logPath)
			if rerr != nil {
				t.Fatal(rerr)
			}
			entries := bytes.Count(b, []byte("\n"))
			verdict := "clean"
			for _, sec := range secrets {
				if len(sec) >= 6 && bytes.Contains(b, []byte(sec)) {
					verdict = "leak:" + vh.HexS(sec) + "!VIOL:secret value found in the audit file#e2e-secret-in-file"
					break
				}
			}
			hm := 1
			if req.ClientToken != "" {
				h, herr := core.auditBroker.GetHash(vhRootCtx(), "c11file/", req.ClientToken)
				if herr != nil || !bytes.Contains(b, []byte(h)) {
					hm = 0
				}
			}
			_ = cl
			out.Op(fmt.Sprintf("entries=%d hmac=%d %s", entries, hm, verdict), "e2e", kd.class, kd.name)
		}
	}
}
