//go:build verif

package vault

// Stream "sealha" of C10: a two-node cluster (real HA: request forwarding, invalidation, the namespace key
// synchronisation) at predicate level. "a standby following the upgrade path ends with the same keyring as the active
// node" — for the root barrier and for the barrier of a separately sealed namespace. Op lines:
//   hatakeover <what rotated on the active node before the step-down: none | ns-rotroot | ns-rotate | root-rotate>
//     => keyring:<same|differs>|data:<readable|lost>|reseal:<unseals|fails|n/a>
// (keyring: the namespace / root keyring of the node that took over against the former active node's; data: an entry
// written before the rotation read on the new active node; reseal: the namespace sealed on the new active node after one
// more key rotation there and unsealed with its never-changed shares)

import (
	"bytes"
	"context"
	"testing"
	"time"

	"github.com/openbao/openbao/sdk/v2/logical"
	"github.com/openbao/openbao/v2/internal/helper/namespace"
	"github.com/openbao/openbao/v2/internal/zzverif/vh"
)

func c10hCase(t *testing.T, out *vh.Out, what string) {
	cluster := NewTestCluster(t, &CoreConfig{}, &TestClusterOptions{NumCores: 2})
	cluster.Start()
	defer cluster.Cleanup()
	active, standby := cluster.Cores[0].Core, cluster.Cores[1].Core
	TestWaitActive(t, active)
	root := cluster.RootToken
	ns := &namespace.Namespace{Path: "c10ns/"}
	nsKeys := TestCoreCreateUnsealedNamespaces(t, active, ns)["c10ns/"]
	nsCtx := namespace.ContextWithNamespace(context.Background(), ns)
	req := func(c *Core, ctx context.Context, op logical.Operation, path string, data map[string]any) string {
		r := logical.TestRequest(t, op, path)
		r.ClientToken, r.Data = root, data
		resp, err := c.HandleRequest(ctx, r)
		return vhClass(resp, err)
	}
	rootCtx := namespace.RootContext(context.Background())
	if cl := req(active, nsCtx, logical.UpdateOperation, "sys/policies/acl/canary", map[string]any{"policy": `path "x" { capabilities = ["read"] }`}); cl != "ok" {
		t.Fatalf("write in namespace: %s", cl)
	}
	if cl := req(active, rootCtx, logical.UpdateOperation, "sys/policies/acl/canary", map[string]any{"policy": `path "y" { capabilities = ["read"] }`}); cl != "ok" {
		t.Fatalf("write in root: %s", cl)
	}
	for deadline := time.Now().Add(60 * time.Second); ; {
		if b := standby.sealManager.NamespaceBarrier(ns.Path); b != nil && !b.Sealed() {
			break
		}
		if time.Now().After(deadline) {
			out.Op("unmodelled:standby-never-received-the-namespace-key", "hatakeover", what)
			return
		}
		time.Sleep(100 * time.Millisecond)
	}
	out.Reset()
	switch what {
	case "ns-rotroot":
		if cl := req(active, nsCtx, logical.UpdateOperation, "sys/rotate/root", nil); cl != "ok" {
			t.Fatalf("ns sys/rotate/root: %s", cl)
		}
	case "ns-rotate":
		if cl := req(active, nsCtx, logical.UpdateOperation, "sys/rotate", nil); cl != "ok" {
			t.Fatalf("ns sys/rotate: %s", cl)
		}
	case "root-rotate":
		if cl := req(active, rootCtx, logical.UpdateOperation, "sys/rotate", nil); cl != "ok" {
			t.Fatalf("sys/rotate: %s", cl)
		}
	}
	time.Sleep(2 * time.Second) // invalidations reach the standby
	nsKR, err := active.sealManager.NamespaceBarrier(ns.Path).Keyring()
	if err != nil {
		t.Fatal(err)
	}
	rootKR, err := active.barrier.Keyring()
	if err != nil {
		t.Fatal(err)
	}
	if err := active.StepDown(context.Background(), &logical.Request{Operation: logical.UpdateOperation, Path: "sys/step-down", ClientToken: root}); err != nil {
		t.Fatal(err)
	}
	TestWaitActive(t, standby)
	na := standby
	data := "lost"
	for deadline := time.Now().Add(30 * time.Second); time.Now().Before(deadline); time.Sleep(200 * time.Millisecond) {
		if req(na, nsCtx, logical.ReadOperation, "sys/policies/acl/canary", nil) == "ok" && req(na, rootCtx, logical.ReadOperation, "sys/policies/acl/canary", nil) == "ok" {
			data = "readable"
			break
		}
	}
	kr := "same"
	if n, err := na.sealManager.NamespaceBarrier(ns.Path).Keyring(); err != nil || !bytes.Equal(n.RootKey(), nsKR.RootKey()) || n.ActiveTerm() != nsKR.ActiveTerm() {
		kr = "differs"
	}
	if n, err := na.barrier.Keyring(); err != nil || !bytes.Equal(n.RootKey(), rootKR.RootKey()) || n.ActiveTerm() != rootKR.ActiveTerm() {
		kr = "differs"
	}
	reseal := "n/a"
	if data == "readable" {
		// one more key rotation in the namespace on the node that took over (persists its keyring), then seal / unseal
		if cl := req(na, nsCtx, logical.UpdateOperation, "sys/rotate", nil); cl != "ok" {
			reseal = "rotate:" + cl
		} else if err := na.namespaceStore.SealNamespace(rootCtx, ns.Path); err != nil {
			reseal = "seal-failed"
		} else {
			reseal = "fails"
			for _, k := range nsKeys {
				un, err := TestNamespaceUnseal(na, ns, k)
				if err != nil {
					break
				}
				if un {
					reseal = "unseals"
					break
				}
			}
		}
	}
	res := "keyring:" + kr + "|data:" + data + "|reseal:" + reseal
	if res != "keyring:same|data:readable|reseal:unseals" {
		res += "!VIOL:after the active node rotated (" + what + ") and stepped down, the node that took over: " + res + "#standby-takeover-stale-keyring"
	}
	out.Op(res, "hatakeover", what)
}

func TestVerifC10HA(t *testing.T) {
	out := vh.Open()
	defer out.Close()
	whats := []string{"ns-rotroot", "none"}
	if vh.Thorough() {
		whats = []string{"ns-rotroot", "none", "ns-rotate", "root-rotate"}
	}
	for _, w := range whats {
		c10hCase(t, out, w)
	}
}
