//go:build verif

package vault

// Stream "sealha" of C10: a two-node cluster (real HA: request forwarding, invalidation, the namespace key
// synchronisation) at predicate level. "a standby following the upgrade path ends with the same keyring as the active
// node" — for the root barrier and for the barrier of a separately sealed namespace. Op lines:
//   hatakeover <what rotated on the active node before the step-down: none | ns-rotroot | ns-rotate | root-rotate>
//     => keyring:<same|differs>|data:<readable|lost>|reseal:<unseals|fails|n/a>
// (keyring: the namespace / root keyring of the node that took over against the former active node's; data: an entry
// written before the rotation read on the new active node; reseal: the namespace sealed on the new active node after one
// more key rotation there and unsealed with its never-changed shares)

import (
	"bytes"
	"context"
	"testing"
	"time"

	hclog "github.com/hashicorp/go-hclog"
	"github.com/openbao/openbao/sdk/v2/helper/logging"
	"github.com/openbao/openbao/sdk/v2/physical"
	"github.com/openbao/openbao/sdk/v2/physical/inmem"

	"github.com/openbao/openbao/sdk/v2/logical"
	"github.com/openbao/openbao/v2/internal/helper/namespace"
	"github.com/openbao/openbao/v2/internal/zzverif/vh"
)

func c10hCase(t *testing.T, out *vh.Out, what string) {
	cluster := NewTestCluster(t, &CoreConfig{}, &TestClusterOptions{NumCores: 2})
	cluster.Start()
	defer cluster.Cleanup()
	active, standby := cluster.Cores[0].Core, cluster.Cores[1].Core
	TestWaitActive(t, active)
	root := cluster.RootToken
	ns := &namespace.Namespace{Path: "c10ns/"}
	nsKeys := TestCoreCreateUnsealedNamespaces(t, active, ns)["c10ns/"]
	nsCtx := namespace.ContextWithNamespace(context.Background(), ns)
	req := func(c *Core, ctx context.Context, op logical.Operation, path string, data map[string]any) string {
		r := logical.TestRequest(t, op, path)
		r.ClientToken, r.Data = root, data
		resp, err := c.HandleRequest(ctx, r)
		return vhClass(resp, err)
	}
	rootCtx := namespace.RootContext(context.Background())
	if cl := req(active, nsCtx, logical.UpdateOperation, "sys/policies/acl/canary", map[string]any{"policy": `path "x" { capabilities = ["read"] }`}); cl != "ok" {
		t.Fatalf("write in namespace: %s", cl)
	}
	if cl := req(active, rootCtx, logical.UpdateOperation, "sys/policies/acl/canary", map[string]any{"policy": `path "y" { capabilities = ["read"] }`}); cl != "ok" {
		t.Fatalf("write in root: %s", cl)
	}
	for deadline := time.Now().Add(60 * time.Second); ; {
		if b := standby.sealManager.NamespaceBarrier(ns.Path); b != nil && !b.Sealed() {
			break
		}
		if time.Now().After(deadline) {
			out.Op("unmodelled:standby-never-received-the-namespace-key", "hatakeover", what)
			return
		}
		time.Sleep(100 * time.Millisecond)
	}
	out.Reset()
	switch what {
	case "ns-rotroot":
		if cl := req(active, nsCtx, logical.UpdateOperation, "sys/rotate/root", nil); cl != "ok" {
			t.Fatalf("ns sys/rotate/root: %s", cl)
		}
	case "ns-rotate":
		if cl := req(active, nsCtx, logical.UpdateOperation, "sys/rotate", nil); cl != "ok" {
			t.Fatalf("ns sys/rotate: %s", cl)
		}
	case "root-rotate":
		if cl := req(active, rootCtx, logical.UpdateOperation, "sys/rotate", nil); cl != "ok" {
			t.Fatalf("sys/rotate: %s", cl)
		}
	}
	time.Sleep(2 * time.Second) // invalidations reach the standby
	nsKR, err := active.sealManager.NamespaceBarrier(ns.Path).Keyring()
	if err != nil {
		t.Fatal(err)
	}
	rootKR, err := active.barrier.Keyring()
	if err != nil {
		t.Fatal(err)
	}
	if err := active.StepDown(context.Background(), &logical.Request{Operation: logical.UpdateOperation, Path: "sys/step-down", ClientToken: root}); err != nil {
		t.Fatal(err)
	}
	TestWaitActive(t, standby)
	na := standby
	data := "lost"
	for deadline := time.Now().Add(30 * time.Second); time.Now().Before(deadline); time.Sleep(200 * time.Millisecond) {
		if req(na, nsCtx, logical.ReadOperation, "sys/policies/acl/canary", nil) == "ok" && req(na, rootCtx, logical.ReadOperation, "sys/policies/acl/canary", nil) == "ok" {
			data = "readable"
			break
		}
	}
	kr := "same"
	if n, err := na.sealManager.NamespaceBarrier(ns.Path).Keyring(); err != nil || !bytes.Equal(n.RootKey(), nsKR.RootKey()) || n.ActiveTerm() != nsKR.ActiveTerm() {
		kr = "differs"
	}
	if n, err := na.barrier.Keyring(); err != nil || !bytes.Equal(n.RootKey(), rootKR.RootKey()) || n.ActiveTerm() != rootKR.ActiveTerm() {
		kr = "differs"
	}
	reseal := "n/a"
	if data == "readable" {
		// one more key rotation in the namespace on the node that took over (persists its keyring), then seal / unseal
		if cl := req(na, nsCtx, logical.UpdateOperation, "sys/rotate", nil); cl != "ok" {
			reseal = "rotate:" + cl
		} else if err := na.namespaceStore.SealNamespace(rootCtx, ns.Path); err != nil {
			reseal = "seal-failed"
		} else {
			reseal = "fails"
			for _, k := range nsKeys {
				un, err := TestNamespaceUnseal(na, ns, k)
				if err != nil {
					break
				}
				if un {
					reseal = "unseals"
					break
				}
			}
		}
	}
	res := "keyring:" + kr + "|data:" + data + "|reseal:" + reseal
	if res != "keyring:same|data:readable|reseal:unseals" {
		res += "!VIOL:after the active node rotated (" + what + ") and stepped down, the node that took over: " + res + "#standby-takeover-stale-keyring"
	}
	out.Op(res, "hatakeover", what)
}

// c10hStaleCeremony (finding F111): a root-key rotation waiting for its verification is pending on the active node A when A
// steps down; B takes over and completes ANOTHER rotation (the unseal shares are K2 now); B steps down, A is active again.
// "…readable again after unsealing with a currently valid unseal key": the abandoned ceremony must be gone — its shares
// (K1) must not be able to replace K2 without one share of K2 having been supplied. Op line:
//   hastale => ceremony:<dropped|held>|verify:<refused|completed>|k2:<unseals|fails>
func c10hStaleCeremony(t *testing.T, out *vh.Out) {
	old := manualStepDownSleepPeriod
	manualStepDownSleepPeriod = 2 * time.Second
	defer func() { manualStepDownSleepPeriod = old }()
	logger := logging.NewVaultLogger(hclog.Error)
	inm, err := inmem.NewInmemHA(nil, logger)
	if err != nil {
		t.Fatal(err)
	}
	inmha, err := inmem.NewInmemHA(nil, logger)
	if err != nil {
		t.Fatal(err)
	}
	mk := func(addr string) *Core {
		c, err := NewCore(&CoreConfig{Physical: inm, HAPhysical: inmha.(physical.HABackend), RedirectAddr: addr})
		if err != nil {
			t.Fatal(err)
		}
		return c
	}
	a := mk("http://127.0.0.1:8200")
	defer a.Shutdown() //nolint:errcheck
	keys, root := TestCoreInit(t, a)
	for _, k := range keys {
		if _, err := TestCoreUnseal(a, TestKeyCopy(k)); err != nil {
			t.Fatal(err)
		}
	}
	TestWaitActive(t, a)
	b := mk("http://127.0.0.1:8500")
	defer b.Shutdown() //nolint:errcheck
	for _, k := range keys {
		if _, err := TestCoreUnseal(b, TestKeyCopy(k)); err != nil {
			t.Fatal(err)
		}
	}
	ns := namespace.RootNamespace
	ctx := namespace.RootContext(context.Background())
	sealType := a.seal.BarrierType().String()
	stepDown := func(c *Core) {
		if err := c.StepDown(ctx, &logical.Request{ClientToken: root, Path: "sys/step-down", ID: "c10h-stepdown"}); err != nil {
			t.Fatalf("step-down: %v", err)
		}
	}
	waitActive := func(c *Core) {
		for dl := time.Now().Add(40 * time.Second); time.Now().Before(dl); time.Sleep(50 * time.Millisecond) {
			if !c.Sealed() && !c.Standby() {
				TestWaitActive(t, c)
				return
			}
		}
		t.Fatal("core did not become active")
	}
	rotate := func(c *Core, verify bool) *RekeyResult {
		if _, err := c.sealManager.InitRotation(ctx, ns, &SealConfig{Type: sealType, SecretShares: 3, SecretThreshold: 2, VerificationRequired: verify}, false); err != nil {
			t.Fatalf("init rotation: %v", err)
		}
		rc := c.sealManager.RotationConfig(ns.UUID, false)
		for _, k := range keys {
			res, err := c.sealManager.UpdateRotation(ctx, ns, TestKeyCopy(k), rc.Nonce, false)
			if err != nil {
				t.Fatalf("update rotation: %v", err)
			}
			if res != nil {
				return res
			}
		}
		t.Fatal("rotation did not reach its threshold")
		return nil
	}
	res1 := rotate(a, true) // K1, waiting for verification on A
	stepDown(a)
	waitActive(b)
	out.Reset()
	ceremony := "dropped"
	if a.sealManager.RotationConfig(ns.UUID, false) != nil {
		ceremony = "held"
	}
	res2 := rotate(b, false) // K2: the unseal shares now
	stepDown(b)
	waitActive(a)
	verify := "refused"
	for i := 0; i < 2; i++ {
		done, err := a.sealManager.VerifyRotation(ctx, ns, TestKeyCopy(res1.SecretShares[i]), res1.VerificationNonce, false)
		if err != nil {
			break
		}
		if done != nil && done.Complete {
			verify = "completed"
		}
	}
	k2 := "fails"
	if err := b.Seal(root); err != nil {
		t.Fatalf("seal of the standby: %v", err)
	}
	for i := 0; i < 2; i++ {
		if _, err := TestCoreUnseal(b, TestKeyCopy(res2.SecretShares[i])); err != nil {
			break
		}
	}
	if !b.Sealed() {
		k2 = "unseals"
	}
	res := "ceremony:" + ceremony + "|verify:" + verify + "|k2:" + k2
	if verify == "completed" || k2 != "unseals" {
		res += "!VIOL:a rotation ceremony abandoned when its node stepped down was completed after the node became active again, replacing the unseal shares of a ceremony completed in between: " + res + "#stale-rotation-ceremony-after-stepdown"
	}
	out.Op(res, "hastale")
}

func TestVerifC10HA(t *testing.T) {
	out := vh.Open()
	defer out.Close()
	c10hStaleCeremony(t, out)
	whats := []string{"ns-rotroot", "none"}
	if vh.Thorough() {
		whats = []string{"ns-rotroot", "none", "ns-rotate", "root-rotate"}
	}
	for _, w := range whats {
		c10hCase(t, out, w)
	}
}
