//go:build verif

package vault

// C02 — "No backend effect or data without a live token and an allowing policy".
// White-box correspondence harness (overlaid into internal/vault). One real Core per case; the recording
// backend `vhrec` is mounted at "rec/" (and sometimes "deep/er/"); policies are written through
// sys/policies/acl, tokens are created through auth/token/create in every state of the property's quantifier,
// and requests are issued with every path form. Per request the trace carries
//   <class>|<handler invocations>|<writes under the mounts' storage prefixes>|<other key classes written>
// observed on the requesting goroutine.  The Lean stream `authz` predicts the same string from the op lines.

import (
	"context"
	"errors"
	"fmt"
	"github.com/openbao/openbao/v2/internal/vault/barrier"
	"github.com/openbao/openbao/v2/internal/vault/policy"
	"path"
	"sort"
	"strings"
	"testing"
	"time"

	"github.com/openbao/openbao/sdk/v2/framework"
	"github.com/openbao/openbao/sdk/v2/logical"
	"github.com/openbao/openbao/v2/internal/helper/namespace"
	"github.com/openbao/openbao/v2/internal/zzverif/vh"
)

type c02Tok struct {
	label  string
	client string // token string handed to the client
	kind   string
}

type c02Env struct {
	t      *testing.T
	c      *Core
	p      *vhPhys
	root   string
	out    *vh.Out
	rng    *vh.Rand
	backs  []*vhRecBackend
	mounts []string // mount paths with trailing slash, in mount order
	toks   map[string]*c02Tok
	order  []string // token labels in creation order
	ntok   int
	// identity set-up (lazily created)
	roleCIDR   bool
	ents       map[string]string    // entity label -> id
	entOff     map[string]bool      // entity label -> currently disabled
	short      map[string]time.Time // tokens created with a real 2 s TTL -> creation time
	nextShort  bool
	polRules   map[string]string    // policy name -> rules as written (generator bookkeeping only)
	tokPols    map[string][]string  // token label -> policy names
	dead       map[string]bool      // tokens the generator revoked or expired (bias only, never used for the verdict)
	probeAfter string               // a token whose interrupted revocation has to be followed by one request with it
	qualified  bool                 // with ns: requests (and capability questions) are made in the ROOT namespace with "<ns>/<path>"
	cross      bool                 // with ns: policies and tokens live in the ROOT namespace (rules name "<ns>/…"), mounts and requests in ns
	ns         *namespace.Namespace // non-nil: the whole case (mounts, policies, tokens, requests) lives in this child namespace
	debug      bool
}

func c02Class(resp *logical.Response, err error) string {
	msg := ""
	if err != nil {
		msg = err.Error()
	} else if resp != nil && resp.IsError() {
		msg = resp.Error().Error()
	}
	switch {
	case err == nil && (resp == nil || !resp.IsError()):
		return "ok"
	case strings.Contains(msg, "relative path"):
		return "relpath"
	case strings.Contains(msg, "cannot write to a path ending in '/'"):
		return "slashwrite"
	case strings.Contains(msg, "internal-only request operation"):
		return "internalop"
	case strings.Contains(msg, "error performing token check"):
		return "tokcheck"
	case err != nil && errors.Is(err, logical.ErrPermissionDenied), strings.Contains(msg, "permission denied"):
		return "denied"
	case err != nil && errors.Is(err, logical.ErrUnsupportedPath), strings.Contains(msg, "unsupported path"):
		return "nopath"
	case err != nil && errors.Is(err, logical.ErrUnsupportedOperation), strings.Contains(msg, "unsupported operation"):
		return "noop"
	case strings.Contains(msg, "cannot access root path in unauthenticated request"):
		return "rootunauth"
	case err != nil && errors.Is(err, logical.ErrInvalidRequest):
		return "invalid"
	}
	if len(msg) > 60 {
		msg = msg[:60]
	}
	return "err:" + strings.Map(func(r rune) rune {
		if r == '\t' || r == '\n' || r == '|' {
			return ' '
		}
		return r
	}, msg)
}

func c02NewEnv(t *testing.T, out *vh.Out, rng *vh.Rand) *c02Env {
	e := &c02Env{t: t, out: out, rng: rng, toks: map[string]*c02Tok{}, ents: map[string]string{}, entOff: map[string]bool{}, short: map[string]time.Time{},
		polRules: map[string]string{}, tokPols: map[string][]string{}, dead: map[string]bool{}}
	e.p = vhNewPhys(t)
	defer func() { e.toks["root"] = &c02Tok{label: "root", client: e.root, kind: "root"} }()
	e.c, _, e.root = vhNewCore(t, e.p, nil, func(conf *CoreConfig) {
		conf.DisableCache = false // the policy LRU and the lease-time cache are part of what C02 checks
		conf.LogicalBackends["vhrec"] = func(ctx context.Context, bc *logical.BackendConfig) (logical.Backend, error) {
			var h *vhRecBackend
			b, err := vhRecFactory(&h)(ctx, bc)
			if err == nil && h != nil {
				e.backs = append(e.backs, h)
			}
			return b, err
		}
	})
	return e
}

// ctx: the namespace every request of the case is made in. Authorisation is stated over namespace-relative paths, so
// the SAME script gives the same trace in a child namespace as in the root namespace (the model does not know which).
func (e *c02Env) ctx() context.Context {
	if e.ns != nil {
		return namespace.ContextWithNamespace(context.Background(), e.ns)
	}
	return vhRootCtx()
}

func (e *c02Env) enterNS(name string) {
	e.adm(logical.UpdateOperation, "sys/namespaces/"+name, map[string]any{})
	ns, err := e.c.namespaceStore.GetNamespaceByPath(vhRootCtx(), name)
	if err != nil || ns == nil {
		e.t.Fatalf("namespace %s: %v", name, err)
	}
	e.ns = ns
	e.out.Op("ok", "inns", name)
}

func (e *c02Env) adm(op logical.Operation, path string, data map[string]any) *logical.Response {
	e.t.Helper()
	req := &logical.Request{Operation: op, Path: path, ClientToken: e.root, Data: data,
		Connection: &logical.Connection{RemoteAddr: "127.0.0.1"}}
	resp, err := e.c.HandleRequest(e.ctx(), req)
	if err != nil || (resp != nil && resp.IsError()) {
		e.t.Fatalf("admin request %s %s failed: %v %v", op, path, err, resp)
	}
	return resp
}

func (e *c02Env) mount(path string) {
	e.adm(logical.UpdateOperation, "sys/mounts/"+strings.TrimSuffix(path, "/"), map[string]any{"type": "vhrec"})
	e.mounts = append(e.mounts, path)
	e.out.Op("ok", "mount", path)
}

// rules: "path=cap+cap;path=cap"
func c02HCL(rules string) string {
	var sb strings.Builder
	for _, r := range strings.Split(rules, ";") {
		if r == "" {
			continue
		}
		kv := strings.SplitN(r, "=", 2)
		caps := strings.Split(kv[1], "+")
		for i := range caps {
			caps[i] = `"` + caps[i] + `"`
		}
		fmt.Fprintf(&sb, "path %q { capabilities = [%s] }\n", kv[0], strings.Join(caps, ","))
	}
	return sb.String()
}

func (e *c02Env) polPut(name, rules string) {
	if e.cross && e.ns != nil {
		// the policy lives in the ROOT namespace and names the child namespace's paths in full
		var rs []string
		for _, r := range strings.Split(rules, ";") {
			if r != "" {
				rs = append(rs, e.ns.Path+strings.TrimPrefix(r, "/"))
			}
		}
		e.inRoot(func() {
			e.adm(logical.UpdateOperation, "sys/policies/acl/"+name, map[string]any{"policy": c02HCL(strings.Join(rs, ";"))})
		})
	} else {
		e.adm(logical.UpdateOperation, "sys/policies/acl/"+name, map[string]any{"policy": c02HCL(rules)})
	}
	e.polRules[name] = rules
	e.out.Op("ok", "pol-put", name, rules)
}

func (e *c02Env) polDel(name string) {
	if e.cross {
		e.inRoot(func() { e.adm(logical.DeleteOperation, "sys/policies/acl/"+name, nil) })
	} else {
		e.adm(logical.DeleteOperation, "sys/policies/acl/"+name, nil)
	}
	delete(e.polRules, name)
	e.out.Op("ok", "pol-del", name)
}

func (e *c02Env) ensureCIDRRole() {
	if e.roleCIDR {
		return
	}
	e.adm(logical.UpdateOperation, "auth/token/roles/c02cidr", map[string]any{"token_bound_cidrs": "10.0.0.0/8", "orphan": true})
	e.roleCIDR = true
}

// ensureEntity creates entity `label` with an alias on the token mount and a token role that may use the alias.
func (e *c02Env) ensureEntity(label string) {
	if _, ok := e.ents[label]; ok {
		return
	}
	resp := e.adm(logical.ReadOperation, "sys/auth", nil)
	acc := ""
	if m, ok := resp.Data["token/"].(map[string]any); ok {
		acc, _ = m["accessor"].(string)
	}
	if acc == "" {
		e.t.Fatalf("no token mount accessor: %v", resp.Data)
	}
	resp = e.adm(logical.UpdateOperation, "identity/entity", map[string]any{"name": "c02-" + label})
	id, _ := resp.Data["id"].(string)
	if id == "" {
		e.t.Fatalf("entity create: %v", resp)
	}
	e.adm(logical.UpdateOperation, "identity/entity-alias", map[string]any{"name": "c02alias-" + label, "canonical_id": id, "mount_accessor": acc})
	e.adm(logical.UpdateOperation, "auth/token/roles/c02ent-"+label, map[string]any{"allowed_entity_aliases": "c02alias-" + label, "orphan": true})
	e.ents[label] = id
}

// tokNew: kind service | batch | cidr | ent:<entity label>
func (e *c02Env) tokNew(label, pols string, numUses int, kind string) {
	if e.cross && e.ns != nil {
		e.inRoot(func() { e.tokNew0(label, pols, numUses, kind) }) // tokens and identities of a CROSS case live in the root namespace
		return
	}
	e.tokNew0(label, pols, numUses, kind)
}

func (e *c02Env) tokNew0(label, pols string, numUses int, kind string) {
	data := map[string]any{"ttl": "1h", "no_default_policy": true, "no_parent": true}
	if pols != "-" {
		data["policies"] = strings.Split(pols, ",")
	} else {
		data["policies"] = []string{}
	}
	if numUses > 0 {
		data["num_uses"] = numUses
	}
	if e.nextShort && (kind == "service" || kind == "batch") {
		data["ttl"] = "2s"
	}
	path := "auth/token/create"
	switch {
	case kind == "service":
	case kind == "batch":
		data["type"] = "batch"
	case kind == "cidr":
		e.ensureCIDRRole()
		path = "auth/token/create/c02cidr"
	case strings.HasPrefix(kind, "ent:"):
		l := strings.TrimPrefix(kind, "ent:")
		e.ensureEntity(l)
		path = "auth/token/create/c02ent-" + l
		data["entity_alias"] = "c02alias-" + l
	default:
		e.t.Fatalf("kind %s", kind)
	}
	resp := e.adm(logical.UpdateOperation, path, data)
	if resp == nil || resp.Auth == nil {
		e.t.Fatalf("token create %s: %v", label, resp)
	}
	want := []string{}
	if pols != "-" {
		want = strings.Split(pols, ",")
		sort.Strings(want)
	}
	got := append([]string{}, resp.Auth.TokenPolicies...)
	sort.Strings(got)
	if strings.Join(got, ",") != strings.Join(want, ",") {
		e.t.Fatalf("token %s: policies %v, wanted %v", label, got, want)
	}
	e.toks[label] = &c02Tok{label: label, client: resp.Auth.ClientToken, kind: kind}
	if e.nextShort && (kind == "service" || kind == "batch") {
		e.short[label] = time.Now()
		e.nextShort = false
	}
	e.order = append(e.order, label)
	e.tokPols[label] = strings.Split(pols, ",")
	e.out.Op("ok", "tok-new", label, pols, vh.I(int64(numUses)), kind)
}

func (e *c02Env) tokRevoke(label string) {
	if e.cross && e.ns != nil {
		e.inRoot(func() { e.tokRevoke0(label) }) // tokens and identities of a CROSS case live in the root namespace
	} else {
		e.tokRevoke0(label)
	}
	if e.probeAfter != "" {
		e.req("valid:"+e.probeAfter, "read", e.mounts[0]+"data/a", "10.1.2.3")
		e.p.KeyFaultFired()
		e.probeAfter = ""
	}
}

func (e *c02Env) tokRevoke0(label string) {
	if e.toks[label].kind != "batch" && e.rng.Chance(25) {
		// a revocation that does NOT run to completion (every storage delete fails for a while): the token is taken out
		// of service by the FIRST write of the revocation — from then on it authorises nothing, whatever becomes of
		// the rest ("unrevoked" is a condition of every grant; the model makes no difference between the two ends)
		// (the outage lasts until the token has been tried once: the expiration manager's own retries fail, too)
		e.p.FailKeyUntilCleared("delete", "", "")
		req := &logical.Request{Operation: logical.UpdateOperation, Path: "auth/token/revoke", ClientToken: e.root,
			Data: map[string]any{"token": e.toks[label].client}, Connection: &logical.Connection{RemoteAddr: "127.0.0.1"}}
		_, _ = e.c.HandleRequest(e.ctx(), req)
		e.dead[label] = true
		e.out.Op("ok", "tok-revoke", label)
		e.probeAfter = label // (tried, and the outage ended, by the caller: in the namespace of the case)
		return
	} else {
		e.adm(logical.UpdateOperation, "auth/token/revoke", map[string]any{"token": e.toks[label].client})
	}
	e.dead[label] = true
	e.out.Op("ok", "tok-revoke", label)
}

// tokExpire puts a service token into the state "lease expiry time passed, expiration manager has not revoked it
// yet": the lease entry's expiry is moved into the past in storage and in the manager's in-memory copy and the
// revocation timer is stopped. Only lookupInternal's own expiry comparison stands between this token and a request.
func (e *c02Env) tokExpire(label string) {
	if e.cross && e.ns != nil {
		e.inRoot(func() { e.tokExpire0(label) }) // tokens and identities of a CROSS case live in the root namespace
		return
	}
	e.tokExpire0(label)
}

func (e *c02Env) tokExpire0(label string) {
	tk := e.toks[label]
	e.dead[label] = true
	if t0, ok := e.short[label]; ok {
		// real expiry: wait until the 2 s TTL has passed and the expiration manager had time to act
		if d := time.Until(t0.Add(2600 * time.Millisecond)); d > 0 {
			time.Sleep(d)
		}
		e.out.Op("ok", "tok-expire", label)
		return
	}
	ctx := e.ctx()
	te, err := e.c.tokenStore.lookupTainted(ctx, tk.client)
	res := "ok"
	if err != nil {
		e.t.Fatalf("tokExpire lookup: %v", err)
	}
	if te == nil {
		res = "gone"
	} else {
		m := e.c.expiration
		salted, err := e.c.tokenStore.SaltID(ctx, te.ID)
		if err != nil {
			e.t.Fatal(err)
		}
		leaseID := path.Join(te.Path, salted)
		if e.ns != nil {
			leaseID += "." + e.ns.ID
		}
		le, err := m.loadEntry(ctx, leaseID)
		if err != nil {
			e.t.Fatal(err)
		}
		if le == nil {
			res = "gone"
		} else {
			past := time.Now().Add(-2 * time.Second)
			le.ExpireTime = past
			if err := m.persistEntry(ctx, le); err != nil {
				e.t.Fatal(err)
			}
			m.pendingLock.Lock()
			if info, ok := m.pending.Load(leaseID); ok {
				pi := info.(pendingInfo)
				pi.timer.Stop()
				if pi.cachedLeaseInfo != nil {
					cp := *pi.cachedLeaseInfo
					cp.ExpireTime = past
					pi.cachedLeaseInfo = &cp
				}
				m.pending.Store(leaseID, pi)
			}
			m.pendingLock.Unlock()
		}
	}
	_ = res // whether the entry was still there depends on how far the background revocation of an exhausted token got
	e.out.Op("ok", "tok-expire", label)
}

func (e *c02Env) entDisable(label string, disabled bool) {
	if e.cross && e.ns != nil {
		e.inRoot(func() { e.entDisable0(label, disabled) }) // tokens and identities of a CROSS case live in the root namespace
		return
	}
	e.entDisable0(label, disabled)
}

func (e *c02Env) entDisable0(label string, disabled bool) {
	id := e.ents[label]
	e.adm(logical.UpdateOperation, "identity/entity/id/"+id, map[string]any{"disabled": disabled})
	e.entOff[label] = disabled
	d := "0"
	if disabled {
		d = "1"
	}
	e.out.Op("ok", "ent-disable", label, d)
}

const c02B64 = "ABCDEFGHIJKLMNOPQRSTUVWXYZabcdefghijklmnopqrstuvwxyz0123456789-_"

func c02Mutate(tok string, pos int) string {
	b := []byte(tok)
	if pos < 4 || pos >= len(b) {
		pos = len(b) / 2
	}
	i := strings.IndexByte(c02B64, b[pos])
	// flip the top bit of the sextet: always another alphabet character, always different decoded bytes
	b[pos] = c02B64[(i+32)%64]
	return string(b)
}

// tokString renders a token form: none | garbage | garbage-b | valid:<l> | mutsig:<l> | mutbody:<l>
func (e *c02Env) tokString(form string) string {
	switch {
	case form == "none":
		return ""
	case form == "garbage":
		return "notatoken"
	case form == "garbage-s":
		return "hvs.ShortGarbageToken123"
	case form == "garbage-b":
		return "hvb.!!!notbase64!!!"
	case strings.HasPrefix(form, "valid:"):
		return e.toks[form[6:]].client
	case strings.HasPrefix(form, "mutsig:"):
		// SignedToken = {version, hmac (32 bytes), token}: base64 characters 10..50 encode the HMAC
		c := e.toks[form[7:]].client
		return c02Mutate(c, 14)
	case strings.HasPrefix(form, "mutbody:"):
		// the marshalled Token{random, …} is the tail of the string
		c := e.toks[form[8:]].client
		return c02Mutate(c, len(c)-9)
	}
	e.t.Fatalf("token form %s", form)
	return ""
}

// targeted derives a request (path, op) from one rule of one policy of token l ("" when there is none).
func (e *c02Env) targeted(l string) (string, string) {
	var rules []string
	for _, p := range e.tokPols[l] {
		if r, ok := e.polRules[p]; ok {
			rules = append(rules, strings.Split(r, ";")...)
		}
	}
	if len(rules) == 0 {
		return "", ""
	}
	kv := strings.SplitN(e.rng.Pick(rules), "=", 2)
	p := strings.TrimPrefix(kv[0], "/")
	if strings.HasSuffix(p, "*") {
		p = strings.TrimSuffix(p, "*") + e.rng.Pick([]string{"", "a", "x", "a/b", "data/a", "root/x", "data/b"})
	}
	caps := strings.Split(kv[1], "+")
	op := e.rng.Pick(caps)
	if op == "sudo" || op == "deny" || e.rng.Chance(25) {
		op = e.rng.Pick(c02Ops)
	}
	return p, op
}

func (e *c02Env) backendOf(mount string) *vhRecBackend {
	b := e.c.router.MatchingBackend(e.ctx(), mount)
	for _, h := range e.backs {
		if logical.Backend(h) == b {
			return h
		}
	}
	return nil
}

func (e *c02Env) req(form, op, rpath, remote string) { e.reqRes(form, op, rpath, remote) }

// reqRes: one request, written as a `req` line; returns whether it was granted (answered without error or a backend
// handler invoked)
func (e *c02Env) reqRes(form, op, rpath, remote string) bool {
	tok := e.tokString(form)
	ctx := e.ctx()
	type mnt struct {
		path, prefix string
		b            *vhRecBackend
		n            int
	}
	var ms []*mnt
	for _, m := range e.mounts {
		pfx, ok := e.c.router.MatchingStoragePrefixByAPIPath(ctx, m)
		if !ok {
			e.t.Fatalf("no storage prefix for %s", m)
		}
		b := e.backendOf(m)
		if b == nil {
			e.t.Fatalf("no backend instance for %s", m)
		}
		ms = append(ms, &mnt{path: m, prefix: pfx, b: b, n: b.CallCount()})
	}
	req := &logical.Request{Operation: logical.Operation(op), Path: rpath, ClientToken: tok,
		Data:       map[string]any{},
		Connection: &logical.Connection{RemoteAddr: remote}}
	if op == "update" || op == "create" || op == "patch" {
		req.Data["value"] = "v"
	}
	req.SetTokenEntry(nil)
	e.p.Tag(0)
	e.p.StartRecording()
	var resp *logical.Response
	var err error
	cls := vh.Catch(func() string {
		rctx := ctx
		if e.qualified && e.ns != nil {
			// the SAME request addressed from the root namespace with the namespace-qualified path
			rctx = vhRootCtx()
			req.Path = e.ns.Path + req.Path
		}
		resp, err = e.c.HandleRequest(rctx, req)
		return c02Class(resp, err)
	})
	ops := e.p.StopRecording()
	e.p.Untag()
	var calls, mw []string
	for _, m := range ms {
		cs, _, _ := m.b.Snapshot()
		for _, c := range cs[m.n:] {
			f := strings.SplitN(c, " ", 2)
			calls = append(calls, f[0]+":"+m.path+":"+f[1])
		}
	}
	book := map[string]bool{}
	for _, o := range ops {
		if o.Thread != 0 || (o.Kind != "put" && o.Kind != "delete") {
			continue
		}
		hit := false
		for _, m := range ms {
			if strings.HasPrefix(o.Key, m.prefix) {
				mw = append(mw, o.Kind+":"+m.path+":"+strings.TrimPrefix(o.Key, m.prefix))
				hit = true
			}
		}
		if !hit {
			k := o.Key
			if e.ns != nil {
				k = strings.TrimPrefix(k, "namespaces/"+e.ns.UUID+"/")
			}
			book[vhKeyClass(k)] = true
		}
	}
	sort.Strings(mw)
	var bk []string
	for k := range book {
		bk = append(bk, k)
	}
	sort.Strings(bk)
	j := func(xs []string) string {
		if len(xs) == 0 {
			return "-"
		}
		return strings.Join(xs, ",")
	}
	if e.debug && strings.HasPrefix(cls, "err:") {
		e.t.Logf("req %s %s %s -> %v %v", form, op, rpath, err, resp)
	}
	kind := "req"
	if e.ns != nil && strings.HasPrefix(rpath, "/") {
		// a leading slash is not namespace-relative: in a child namespace the ACL sees "<ns>//…" (a refusal either
		// way, but by the ACL instead of by the router); compared up to that (`reqns`), judged by the predicate in full
		kind = "reqns"
	}
	e.out.Op(cls+"|"+j(calls)+"|"+j(mw)+"|"+j(bk), kind, form, op, vh.HexS(rpath), remote)
	return cls == "ok" || len(calls) > 0
}

// inRoot runs f with the case's namespace switched off (administrative set-up made in the root namespace)
func (e *c02Env) inRoot(f func()) {
	old := e.ns
	e.ns = nil
	defer func() { e.ns = old }()
	f()
}

// ------------------------------------------------------------------------------------------ generator

var (
	c02Ops = []string{"read", "read", "read", "read", "read", "read", "update", "update", "update", "create", "create", "delete", "delete",
		"list", "list", "list", "help", "patch", "scan"}
	c02RareOps = []string{"header", "revoke", "renew", "rollback", "alias-lookahead"}
	c02Remotes = []string{"10.1.2.3", "10.1.2.3", "10.1.2.3", "192.168.0.9", "bad"}
	c02CapSets = []string{"read", "read+list", "update", "create", "create+update", "delete", "list", "read+update+delete+list",
		"read+update+delete+list", "read+create+update+delete+list", "sudo", "read+sudo", "read+update+delete+list+sudo",
		"read+update+delete+list+sudo", "deny", "deny+read", "patch", "read+create+update+delete+list+patch+scan+sudo",
		"read+create+update+delete+list+patch+scan", "scan"}
)

func c02ReqPaths(mounts []string) []string {
	var ps []string
	for _, m := range mounts {
		bare := strings.TrimSuffix(m, "/")
		for _, s := range []string{"data/a", "data/a", "data/a", "data/b", "data/a/b", "data/", "data/a/", "data", "unauth/x", "unauth/x", "unauth/",
			"unauth", "root/x", "root/x", "root/", "root", "data//a", "/data/a", "nope/x", "", "rootx", "unauthx/y", "root//x", "unauth//x",
			"data/./a", "data/../root/x", "./data/a", "root/..", "unauth/../root/x", "data/..", "root/.", "data/.a", "data/..a", "data/a.."} {
			ps = append(ps, m+s)
		}
		ps = append(ps, bare, "/"+m+"data/a", "/"+m+"root/x", "/"+m+"unauth/x", "//"+m+"data/a", "../"+m+"data/a", "./"+m+"root/x", bare+"//data/a")
		if i := strings.Index(bare, "/"); i >= 0 {
			ps = append(ps, bare[:i], bare[:i+1], bare[:i+1]+"data/a", bare[:i+1]+"root/x", bare[:i+1]+"unauth/x")
		}
	}
	ps = append(ps, "nomount/x", "nomount", ".", "..", "x/../"+mounts[0]+"root/x")
	return ps
}

func c02RulePaths(mounts []string) []string {
	var ps []string
	for _, m := range mounts {
		bare := strings.TrimSuffix(m, "/")
		for _, s := range []string{"data/a", "data/a", "data/*", "data/*", "data/*", "*", "*", "*", "data/a*", "data/a/*", "data/b", "data/", "data", "root/*", "root/*", "root/x", "root/",
			"unauth/*", "unauth/x", "", "nope/*", "data//a", "root//*", "r*", "d*"} {
			ps = append(ps, m+s)
		}
		ps = append(ps, bare, bare+"*", "/"+m+"data/a", "/"+m+"root/*")
		if i := strings.Index(bare, "/"); i >= 0 {
			ps = append(ps, bare[:i+1]+"*", bare[:i+1]+"data/*")
		}
	}
	ps = append(ps, "*", "nomount/*", "nomount")
	return ps
}

// c02InvalidatedPolicy (directed): a node that learns of a policy change through a STORAGE INVALIDATION (an HA standby
// serving requests) honours it on the very next request — for flat policy names and for names with several path
// segments ("team/dev"), in the root namespace and in a child namespace. The new policy text reaches storage behind the
// caches, then the key is invalidated. Op line: polinval <name> <ns> => before:<class>|after:<class>
func c02InvalidatedPolicy(t *testing.T, out *vh.Out) {
	for _, polName := range []string{"flat", "team/dev", "a/b/c"} {
		for _, where := range []string{"root", "child"} {
			out.Reset()
			c, root := testCore_Invalidate_TestCore(t, nil)
			ctx := vhRootCtx()
			if where == "child" {
				ns := &namespace.Namespace{ID: "c02i", Path: "c02i"}
				TestCoreCreateNamespaces(t, c, ns)
				ctx = namespace.ContextWithNamespace(context.Background(), ns)
			}
			ns, _ := namespace.FromContext(ctx)
			do := func(op logical.Operation, path, tok string, data map[string]any) (string, *logical.Response) {
				r := &logical.Request{Operation: op, Path: path, ClientToken: tok, Data: data}
				r.SetTokenEntry(nil)
				resp, err := c.HandleRequest(ctx, r)
				return c02Class(resp, err), resp
			}
			if cl, _ := do(logical.UpdateOperation, "sys/policies/acl/"+polName, root, map[string]any{"policy": `path "sys/mounts" { capabilities = ["read"] }`}); cl != "ok" {
				t.Fatalf("policy %s: %s", polName, cl)
			}
			cl, resp := do(logical.UpdateOperation, "auth/token/create", root, map[string]any{"policies": []string{polName}, "no_default_policy": true, "ttl": "1h"})
			if cl != "ok" || resp == nil || resp.Auth == nil {
				t.Fatalf("token: %s", cl)
			}
			tok := resp.Auth.ClientToken
			before, _ := do(logical.ReadOperation, "sys/mounts", tok, nil)
			pol, err := c.policyStore.GetPolicy(ctx, polName, policy.TypeACL)
			if err != nil || pol == nil {
				t.Fatalf("get policy: %v", err)
			}
			clone := pol.ShallowClone()
			clone.Raw = `path "sys/does-not-exist" { capabilities = ["read"] }`
			clone.DataVersion++
			storagePath := barrier.SystemBarrierPrefix + policy.ACLSubPath + polName
			entry, err := logical.StorageEntryJSON(storagePath, clone)
			if err != nil {
				t.Fatal(err)
			}
			testCore_Invalidate_sneakValueAroundCache(t, ctx, c, entry)
			key := storagePath
			if ns.ID != namespace.RootNamespaceID {
				key = path.Join(barrier.NamespacePrefix, ns.UUID, storagePath)
			}
			if err := c.invalidateSynchronous(key); err != nil {
				t.Fatalf("invalidate: %v", err)
			}
			after, _ := do(logical.ReadOperation, "sys/mounts", tok, nil)
			res := "before:" + before + "|after:" + after
			if before == "ok" && after == "ok" {
				res += "!VIOL:policy " + polName + " (" + where + " namespace) was replaced by one that grants nothing and its storage key invalidated, and the very next request of a token holding only that policy is still granted#policy-change-not-honoured-after-invalidation"
			}
			out.Op(res, "polinval", polName, where)
			_ = c.Shutdown()
		}
	}
}

func TestVerifC02(t *testing.T) {
	out := vh.Open()
	defer out.Close()
	master := vh.NewRand(vh.Seed())
	c02InvalidatedPolicy(t, out)
	ncases, nops := 600, 90
	if vh.Thorough() {
		ncases, nops = 12000, 140
	}
	ncases = vh.EnvInt("VERIF_C02_CASES", ncases)
	nops = vh.EnvInt("VERIF_C02_OPS", nops)
	for ci := 0; ci < ncases; ci++ {
		rng := master.Fork(uint64(ci))
		out.Reset()
		c02Case(t, out, rng, ci, nops)
	}
}

func c02Case(t *testing.T, out *vh.Out, rng *vh.Rand, ci, nops int) {
	e := c02NewEnv(t, out, rng)
	e.debug = vh.EnvInt("VERIF_C02_DEBUG", 0) != 0
	defer func() { _ = e.c.Shutdown() }()
	if ci%3 >= 1 {
		e.enterNS("c02ns")
	}
	e.cross = ci%3 == 2 // policies, tokens and identities in the ROOT namespace (rules name "c02ns/…"), mounts and requests in c02ns
	e.mount("rec/")
	if rng.Chance(50) {
		e.mount("deep/er/")
	}
	reqPaths := c02ReqPaths(e.mounts)
	rulePaths := c02RulePaths(e.mounts)
	pols := []string{"p1", "p2", "p3"}
	entLabels := []string{"e1", "e2"}
	genRules := func() string {
		n := 1 + rng.Intn(3)
		seen := map[string]bool{}
		var rs []string
		for i := 0; i < n; i++ {
			p := rng.Pick(rulePaths)
			if seen[p] {
				continue
			}
			seen[p] = true
			rs = append(rs, p+"="+rng.Pick(c02CapSets))
		}
		return strings.Join(rs, ";")
	}
	newTok := func() {
		e.ntok++
		label := fmt.Sprintf("t%d", e.ntok)
		var ps []string
		for _, p := range pols {
			if rng.Chance(50) {
				ps = append(ps, p)
			}
		}
		if len(ps) == 0 || rng.Chance(10) {
			ps = append([]string{"p0"}, ps...) // p0 is never written: a token whose policy does not exist
		}
		pl := strings.Join(ps, ",")
		kind := "service"
		nu := []int{0, 0, 0, 0, 0, 0, 1, 2, 3, 5}[rng.Intn(10)]
		switch rng.Intn(10) {
		case 0, 1:
			kind, nu = "batch", 0
		case 2, 3:
			kind = "cidr"
		case 4, 5:
			if l := rng.Pick(entLabels); !e.entOff[l] { // a token cannot be created for a disabled entity
				kind = "ent:" + l
			}
		}
		e.tokNew(label, pl, nu, kind)
	}
	// a useful start: policies and two tokens
	for _, p := range pols {
		if rng.Chance(70) {
			e.polPut(p, genRules())
		}
	}
	if (!vh.Thorough() && ci == 0) || (vh.Thorough() && ci%200 == 0) {
		// real expiry (TTL 2 s): a service token that works now and is refused once its TTL has passed
		e.ntok++
		l := fmt.Sprintf("t%d", e.ntok)
		e.nextShort = true
		e.polPut("p1", e.mounts[0]+"*=read+update+delete+list")
		e.tokNew(l, "p1", 0, "service")
		e.req("valid:"+l, "read", e.mounts[0]+"data/a", "10.1.2.3")
		e.req("valid:"+l, "update", e.mounts[0]+"data/b", "10.1.2.3")
		e.tokExpire(l)
		e.req("valid:"+l, "read", e.mounts[0]+"data/a", "10.1.2.3")
		e.req("valid:"+l, "read", e.mounts[0]+"unauth/x", "10.1.2.3")
	}
	if (!vh.Thorough() && ci == 1) || (vh.Thorough() && ci%200 == 1) {
		// batch tokens (no storage entry, no lease): (a) real expiry — the TTL inside the token is all that ends it;
		// (b) a batch token lives only as long as its PARENT: created by a service token that is then revoked
		e.polPut("p1", e.mounts[0]+"*=read+update+delete+list")
		e.ntok++
		l := fmt.Sprintf("t%d", e.ntok)
		e.nextShort = true
		e.tokNew(l, "p1", 0, "batch")
		e.req("valid:"+l, "read", e.mounts[0]+"data/a", "10.1.2.3")
		e.tokExpire(l)
		e.req("valid:"+l, "read", e.mounts[0]+"data/a", "10.1.2.3")
		e.req("valid:"+l, "update", e.mounts[0]+"data/b", "10.1.2.3")
		// (b) (not in a CROSS case: the parent's policy would have to name the root namespace's token mount)
		if !e.cross {
			e.polPut("pc", "auth/token/create=update;"+e.mounts[0]+"*=read+update")
			e.ntok++
			par := fmt.Sprintf("t%d", e.ntok)
			e.tokNew(par, "pc", 0, "service")
			e.ntok++
			ch := fmt.Sprintf("t%d", e.ntok)
			creq := &logical.Request{Operation: logical.UpdateOperation, Path: "auth/token/create", ClientToken: e.toks[par].client,
				Data:       map[string]any{"type": "batch", "ttl": "1h", "policies": []string{"pc"}, "no_default_policy": true},
				Connection: &logical.Connection{RemoteAddr: "127.0.0.1"}}
			cresp, cerr := e.c.HandleRequest(e.ctx(), creq)
			if cerr != nil || cresp == nil || cresp.Auth == nil {
				e.t.Fatalf("batch child of %s: %v %v", par, cerr, cresp)
			}
			e.toks[ch] = &c02Tok{label: ch, client: cresp.Auth.ClientToken, kind: "batch"}
			e.order = append(e.order, ch)
			e.tokPols[ch] = []string{"pc"}
			e.out.Op("ok", "tok-new", ch, "pc", "0", "batch")
			e.req("valid:"+ch, "read", e.mounts[0]+"data/a", "10.1.2.3")
			e.tokRevoke(par)
			// the batch child is no longer a live token: recorded for the model as its revocation
			e.dead[ch] = true
			e.out.Op("ok", "tok-revoke", ch)
			e.req("valid:"+ch, "read", e.mounts[0]+"data/a", "10.1.2.3")
			e.req("valid:"+ch, "update", e.mounts[0]+"data/b", "10.1.2.3")
			e.req("valid:"+par, "read", e.mounts[0]+"data/a", "10.1.2.3")
		}
	}
	newTok()
	newTok()
	pickTok := func() string {
		// favour recent tokens
		if len(e.order) == 0 {
			return ""
		}
		for try := 0; try < 4; try++ {
			l := rng.Pick(e.order)
			if rng.Chance(50) {
				l = e.order[len(e.order)-1-rng.Intn(min(3, len(e.order)))]
			}
			if !e.dead[l] || rng.Chance(30) {
				return l
			}
		}
		return rng.Pick(e.order)
	}
	var last []string // last request, to be repeated right after a mutation
	for i := 0; i < nops; i++ {
		x := rng.Intn(100)
		mutated := false
		switch {
		case x < 12:
			e.polPut(rng.Pick(pols), genRules())
			mutated = true
		case x < 16:
			e.polDel(rng.Pick(pols))
			mutated = true
		case x < 25:
			newTok()
		case x < 29:
			if l := pickTok(); l != "" && e.toks[l].kind != "batch" {
				e.tokRevoke(l)
				mutated = true
			}
		case x < 32:
			if l := pickTok(); l != "" && e.toks[l].kind != "batch" {
				e.tokExpire(l)
				mutated = true
			}
		case x < 36:
			var ls []string
			for _, l := range entLabels {
				if _, ok := e.ents[l]; ok {
					ls = append(ls, l)
				}
			}
			if len(ls) > 0 {
				e.entDisable(rng.Pick(ls), rng.Chance(65))
				mutated = true
			}
		default:
			form := "none"
			y := rng.Intn(100)
			l := pickTok()
			switch {
			case y < 4:
			case y < 7:
				form = "garbage"
			case y < 9:
				form = "garbage-s"
			case y < 11:
				form = "garbage-b"
			case y < 16:
				form = "valid:root"
			case l == "":
			case y < 21:
				form = "mutsig:" + l
			case y < 25:
				form = "mutbody:" + l
			default:
				form = "valid:" + l
			}
			op := rng.Pick(c02Ops)
			if rng.Chance(4) {
				op = rng.Pick(c02RareOps)
			}
			last = []string{form, op, rng.Pick(reqPaths), rng.Pick(c02Remotes)}
			if tp, to := e.targeted(l); strings.HasPrefix(form, "valid:t") && tp != "" && rng.Chance(55) {
				// aim at a rule of one of the token's policies: decisions close to the allow/deny boundary
				last[1], last[2], last[3] = to, tp, c02Remotes[0]
				if e.toks[l].kind == "cidr" && rng.Chance(35) {
					last[3] = rng.Pick(c02Remotes[3:]) // allowed by policy, wrong (or unparseable) source address
				}
			} else if rng.Chance(60) {
				// bias towards the well-formed data/root/unauth paths so that many requests are allowed
				last[2] = e.mounts[rng.Intn(len(e.mounts))] + rng.Pick([]string{"data/a", "data/b", "data/a/b", "root/x", "unauth/x", "data/"})
				last[3] = c02Remotes[0]
			}
			e.req(last[0], last[1], last[2], last[3])
		}
		if mutated && last != nil && rng.Chance(80) {
			// the very next request after a policy/token mutation repeats the previous request
			e.req(last[0], last[1], last[2], last[3])
		}
	}
}

var _ = namespace.RootNamespaceID

// ------------------------------------------------------------------------------------------ stream "special"
// Router.RootPath / Router.LoginPath against the model's special-path matching: the tables the builtin backends
// declare (sys, token store, identity, cubbyhole, the recording backend) and generated tables (mounted through a
// backend type whose PathsSpecial is taken from c02spNext), probed with remainders derived from every entry.

var c02spNext *logical.Paths

func c02spFactory(ctx context.Context, conf *logical.BackendConfig) (logical.Backend, error) {
	b := &framework.Backend{BackendType: logical.TypeLogical, PathsSpecial: c02spNext,
		Paths: []*framework.Path{{Pattern: ".*"}}}
	if err := b.Setup(ctx, conf); err != nil {
		return nil, err
	}
	return b, nil
}

func c02Probes(rng *vh.Rand, table []string) []string {
	seen := map[string]bool{}
	var out []string
	add := func(p string) {
		if !seen[p] {
			seen[p] = true
			out = append(out, p)
		}
	}
	for _, e := range table {
		k := strings.TrimSuffix(e, "*")
		for _, c := range []string{k, strings.ReplaceAll(k, "+", "seg"), strings.ReplaceAll(k, "+", "")} {
			add(c)
			add(c + "x")
			add(c + "/x")
			add(c + "/")
			add(c + "x/y/z")
			add(strings.TrimSuffix(c, "/"))
			add("x" + c)
			if len(c) > 1 {
				add(c[:len(c)-1])
				add(c[1:])
			}
			if i := strings.LastIndex(c, "/"); i > 0 {
				add(c[:i])
				add(c[:i+1])
				add(c[:i+1] + "zz")
			}
		}
	}
	for i := 0; i < 6; i++ {
		n := 1 + rng.Intn(3)
		var segs []string
		for j := 0; j < n; j++ {
			segs = append(segs, rng.Pick([]string{"a", "b", "ab", "", "abc", "seg"}))
		}
		add(strings.Join(segs, "/"))
	}
	add("")
	sort.Strings(out)
	return out
}

func c02GenTable(rng *vh.Rand, unauth bool) []string {
	n := 1 + rng.Intn(4)
	seen := map[string]bool{}
	var t []string
	for i := 0; i < n; i++ {
		d := 1 + rng.Intn(3)
		var segs []string
		for j := 0; j < d; j++ {
			s := rng.Pick([]string{"a", "b", "ab", "a", "b"})
			if unauth && rng.Chance(20) {
				s = "+"
			}
			segs = append(segs, s)
		}
		p := strings.Join(segs, "/")
		switch rng.Intn(5) {
		case 0:
			if !strings.HasSuffix(p, "+") { // "+*" is forbidden
				p += "*"
			}
		case 1, 2:
			p += "/*"
		}
		if !seen[p] {
			seen[p] = true
			t = append(t, p)
		}
	}
	return t
}

func TestVerifC02Special(t *testing.T) {
	out := vh.Open()
	defer out.Close()
	rng := vh.NewRand(vh.Seed() ^ 0x5bec1a1)
	p := vhNewPhys(t)
	c, _, root := vhNewCore(t, p, nil, func(conf *CoreConfig) { conf.LogicalBackends["c02sp"] = c02spFactory })
	ctx := vhRootCtx()
	vhMount(t, c, root, "rec/")
	probe := func(origin, mount string, sp *logical.Paths) {
		if sp == nil {
			sp = &logical.Paths{}
		}
		for _, kind := range []string{"root", "unauth"} {
			table := sp.Root
			if kind == "unauth" {
				table = sp.Unauthenticated
			}
			for _, rem := range c02Probes(rng, table) {
				var got bool
				if kind == "root" {
					got = c.router.RootPath(ctx, mount+rem)
				} else {
					got = c.router.LoginPath(ctx, mount+rem)
				}
				out.Op(fmt.Sprintf("%v", got), "probe", kind, origin, vh.HexS(strings.Join(table, ",")), vh.HexS(rem))
			}
		}
	}
	for _, m := range []string{"sys/", "auth/token/", "identity/", "cubbyhole/", "rec/"} {
		b := c.router.MatchingBackend(ctx, m)
		if b == nil {
			t.Fatalf("no backend at %s", m)
		}
		probe("builtin:"+m, m, b.SpecialPaths())
	}
	n := 60
	if vh.Thorough() {
		n = 600
	}
	fixed := [][2][]string{
		{{"a/*", "a/b"}, {"a/*", "a/b"}},            // the shadowing shape of rootPath_shadow_cex
		{{"a/b", "a/*"}, {"a/+/c", "a/b/*", "a/b"}}, // insertion order must not matter; wildcard fall-through after an exact miss
		{{"a", "a/*", "ab*"}, {"+", "a/+/*"}},
		{{"*"}, {"+/+"}},
		{{}, {}},
	}
	for i := 0; i < n; i++ {
		var rt, ut []string
		if i < len(fixed) {
			rt, ut = fixed[i][0], fixed[i][1]
		} else {
			rt, ut = c02GenTable(rng, false), c02GenTable(rng, true)
		}
		c02spNext = &logical.Paths{Root: rt, Unauthenticated: ut}
		mount := fmt.Sprintf("sp%d/", i)
		cl, resp := vhReq(c, logical.UpdateOperation, "sys/mounts/"+strings.TrimSuffix(mount, "/"), root, map[string]any{"type": "c02sp"})
		if cl != "ok" {
			t.Fatalf("mount %s with %v / %v: %s %v", mount, rt, ut, cl, resp)
		}
		probe("synth", mount, c02spNext)
	}
}
