//go:build verif

package vault

// Correspondence harness for C10, core level (white-box in internal/vault, shared helper zz_verif_common_test.go).
// A real Core with the default test Shamir seal (3 shares, threshold 3); data entries are written straight through
// c.barrier; the operations are key rotation (SealManager.RotateBarrierKey), rekey through the core's rekey API
// (RekeyInit / RekeyUpdate → performBarrierRekey) with generated (shares, threshold), the keyless root-key rotation
// (SealManager.RotateBarrierRootKey, sys/rotate/root), seal and unseal with the current or the previous share set.
// The physical layer snapshots the store after EVERY physical write of the operation's goroutine; `crash k who`
// restarts a NEW core on the store as it was after the k-th write and unseals it with the previous (`old`) or the
// current (`new`) share set, then reads every earlier entry back.  Compared with the model stream `sealcore`.
//
// Property predicate on the real outcomes (marker !VIOL): for every crash prefix of rekey / rotate-root / rotate the
// share set THE OPERATOR HOLDS (the old one; the new one only once the operation has returned, i.e. after its last
// write) must unseal the restarted core and every earlier entry must read back.

import (
	"bytes"
	"context"
	"crypto/aes"
	"crypto/cipher"
	"encoding/binary"
	"encoding/json"
	"errors"
	"fmt"
	"sort"
	"strings"
	"sync"
	"testing"
	"time"

	wrapping "github.com/openbao/go-kms-wrapping/v2"
	"github.com/openbao/go-kms-wrapping/v2/aead"
	"github.com/openbao/openbao/sdk/v2/helper/shamir"
	"github.com/openbao/openbao/sdk/v2/logical"
	"github.com/openbao/openbao/sdk/v2/physical"
	physInmem "github.com/openbao/openbao/sdk/v2/physical/inmem"
	"github.com/openbao/openbao/v2/internal/helper/namespace"
	"github.com/openbao/openbao/v2/internal/vault/barrier"
	vaultseal "github.com/openbao/openbao/v2/internal/vault/seal"
	"github.com/openbao/openbao/v2/internal/zzverif/vh"
	"google.golang.org/protobuf/proto"
)

// c10Phys: vhPhys + "snapshot after every write of the tagged goroutine while armed"
type c10Phys struct {
	*vhPhys
	t     *testing.T
	mu2   sync.Mutex
	armed bool
	snaps []*vhPhys // snaps[0] = before the operation, snaps[k] = after its k-th write
	ops   []string
}

func (p *c10Phys) arm() {
	p.mu2.Lock()
	p.snaps = []*vhPhys{p.vhPhys.Snapshot(p.t)}
	p.ops = nil
	p.armed = true
	p.mu2.Unlock()
}

func (p *c10Phys) disarm() {
	p.mu2.Lock()
	p.armed = false
	p.mu2.Unlock()
}

func (p *c10Phys) tagged() bool {
	p.vhPhys.mu.Lock()
	_, ok := p.vhPhys.tags[vhGid()]
	p.vhPhys.mu.Unlock()
	return ok
}

func (p *c10Phys) after(op string) {
	p.mu2.Lock()
	if p.armed && p.tagged() {
		p.snaps = append(p.snaps, p.vhPhys.Snapshot(p.t))
		p.ops = append(p.ops, op)
	}
	p.mu2.Unlock()
}

func (p *c10Phys) Put(ctx context.Context, e *physical.Entry) error {
	err := p.vhPhys.Put(ctx, e)
	if err == nil {
		p.after("put " + e.Key)
	}
	return err
}

func (p *c10Phys) Delete(ctx context.Context, k string) error {
	err := p.vhPhys.Delete(ctx, k)
	if err == nil {
		p.after("del " + k)
	}
	return err
}

type c10Core struct {
	failFirst bool // the next rekey's first write (stored keys) fails
	t      *testing.T
	out    *vh.Out
	p      *c10Phys
	c      *Core
	root   string
	cur    [][]byte // share set the operator holds
	prev   [][]byte
	seals  map[string]string // hex -> S<n>
	roots  map[string]string // hex -> R<n>
	terms  map[string]string // hex -> T<n>
	shadow map[string]string
	preSh  map[string]string
	lastOp string
	auto   bool // auto-unseal (stored-key) seal: no shares, the wrapper key plays the seal key
}

var c10AutoSecret = []byte("c10-auto-unseal-secret")

// c10NewAutoCore: a core with the repo's test auto-unseal seal (wrapping.TestWrapper with a fixed secret, so that a
// restarted core with a NEW seal object over the same secret can open the stored keys), initialised and unsealed
// with the stored keys.
func c10AutoConf(t *testing.T, phys physical.Backend) *CoreConfig {
	conf := testCoreConfig(t, phys, vhLogger())
	conf.DisableCache = true
	conf.NumExpirationWorkers = numExpirationWorkersTest
	conf.Seal = NewTestSeal(t, &vaultseal.TestSealOpts{Secret: c10AutoSecret, Logger: vhLogger()})
	return conf
}

func c10NewAutoCore(t *testing.T, phys physical.Backend) (*Core, string) {
	c, err := NewCore(c10AutoConf(t, phys))
	if err != nil {
		t.Fatalf("NewCore: %v", err)
	}
	t.Cleanup(func() { _ = c.Shutdown() })
	res, err := c.Initialize(vhRootCtx(), &InitParams{BarrierConfig: &SealConfig{}, RecoveryConfig: &SealConfig{SecretShares: 1, SecretThreshold: 1}})
	if err != nil {
		t.Fatalf("init: %v", err)
	}
	if err := c.UnsealWithStoredKeys(vhRootCtx()); err != nil {
		t.Fatalf("auto-unseal: %v", err)
	}
	if c.Sealed() {
		t.Fatal("auto-unseal left the core sealed")
	}
	return c, res.RootToken
}

func c10AutoUnseal(c *Core) (string, string) {
	err := c.UnsealWithStoredKeys(vhRootCtx())
	if err != nil {
		return c10UnsealClass(err), err.Error()
	}
	if c.Sealed() {
		return "insufficient", ""
	}
	return "unsealed", ""
}

func physInmemHA() (physical.HABackend, error) {
	b, err := physInmem.NewInmemHA(nil, vhLogger())
	if err != nil {
		return nil, err
	}
	return b.(physical.HABackend), nil
}

func c10Name(m map[string]string, pfx string, b []byte) string {
	h := vh.Hex(b)
	if n, ok := m[h]; ok {
		return n
	}
	n := fmt.Sprintf("%s%d", pfx, len(m)+1)
	m[h] = n
	return n
}

func c10Lookup(m map[string]string, b []byte) string {
	if n, ok := m[vh.Hex(b)]; ok {
		return n
	}
	return "?"
}

func c10Combine(shares [][]byte) []byte {
	if len(shares) == 1 {
		return append([]byte(nil), shares[0]...)
	}
	k, err := shamir.Combine(shares)
	if err != nil {
		return nil
	}
	return k
}

// independent AES-GCM open of a barrier record (nonce | ciphertext | tag after the 5-byte header; AAD = path)
func c10OpenRec(key []byte, path string, value []byte) ([]byte, bool) {
	if len(value) < 5+12+16 {
		return nil, false
	}
	blk, err := aes.NewCipher(key)
	if err != nil {
		return nil, false
	}
	gcm, err := cipher.NewGCM(blk)
	if err != nil {
		return nil, false
	}
	raw := value[5:]
	var aad []byte
	if value[4] == barrier.AESGCMVersion2 {
		aad = []byte(path)
	}
	pt, err := gcm.Open(nil, raw[:12], raw[12:], aad)
	if err != nil {
		return nil, false
	}
	if pt == nil {
		pt = []byte{}
	}
	return pt, true
}

func c10UnhexKeys(m map[string]string) map[string][]byte {
	out := map[string][]byte{}
	for h, n := range m {
		b := make([]byte, len(h)/2)
		fmt.Sscanf(h, "%x", &b)
		out[n] = b
	}
	return out
}

func c10SortedNames(m map[string][]byte) []string {
	var ns []string
	for n := range m {
		ns = append(ns, n)
	}
	sort.Slice(ns, func(i, j int) bool {
		if ns[i][0] != ns[j][0] {
			return ns[i][0] < ns[j][0]
		}
		var a, b int
		fmt.Sscanf(ns[i][1:], "%d", &a)
		fmt.Sscanf(ns[j][1:], "%d", &b)
		return a < b
	})
	return ns
}

type c10KeyJSON struct {
	Term  uint32
	Value []byte
}
type c10KeyringJSON struct {
	MasterKey []byte
	Keys      []*c10KeyJSON
}

// observe names the keys of the hierarchy in a fixed order and renders the physical hierarchy + in-memory keyring
func (x *c10Core) dump() {
	ctx := context.Background()
	get := func(k string) []byte {
		e, err := x.p.vhPhys.inner.Get(ctx, k)
		if err != nil || e == nil {
			return nil
		}
		return e.Value
	}
	// seal key of the share set the operator holds (auto-unseal: the wrapper secret stands for it)
	if x.auto {
		c10Name(x.seals, "S", c10AutoSecret)
	} else if sk := c10Combine(x.cur); sk != nil {
		c10Name(x.seals, "S", sk)
	}
	var parts []string
	// stored keys: which seal key opens them (go-kms-wrapping aead wrapper), which root key is inside
	if v := get(StoredBarrierKeysPath); v != nil {
		desc := "stored(?,?)"
		blob := &wrapping.BlobInfo{}
		if err := proto.Unmarshal(v, blob); err == nil {
			sk := c10UnhexKeys(x.seals)
			for _, n := range c10SortedNames(sk) {
				var pt []byte
				if x.auto {
					p2, err := wrapping.NewTestWrapper(sk[n]).Decrypt(ctx, blob)
					if err != nil {
						continue
					}
					pt = p2
				} else {
					w := aead.NewWrapper()
					if err := w.SetAesGcmKeyBytes(sk[n]); err != nil {
						continue
					}
					p2, err := w.Decrypt(ctx, blob, nil)
					if err != nil {
						continue
					}
					pt = p2
				}
				var keys [][]byte
				if json.Unmarshal(pt, &keys) == nil && len(keys) == 1 {
					desc = fmt.Sprintf("stored(%s,%s)", n, c10Name(x.roots, "R", keys[0]))
				}
				break
			}
		}
		parts = append(parts, StoredBarrierKeysPath+"="+desc)
	}
	if v := get(barrierSealConfigPath); v != nil {
		var sc SealConfig
		if json.Unmarshal(v, &sc) == nil {
			parts = append(parts, fmt.Sprintf("%s=cfg(%d,%d)", barrierSealConfigPath, sc.SecretShares, sc.SecretThreshold))
		}
	}
	// in-memory keyring first (term keys are named by first observation: memory, then storage)
	mem := "s1:none"
	if kr, err := x.c.barrier.Keyring(); err == nil && kr != nil {
		var ts []string
		for t := uint32(1); t <= kr.ActiveTerm(); t++ {
			if k := kr.TermKey(t); k != nil {
				ts = append(ts, fmt.Sprintf("%d=%s", t, c10Name(x.terms, "T", k.Value)))
			}
		}
		mem = fmt.Sprintf("s0:kr(%s;%d;%s)", c10Name(x.roots, "R", kr.RootKey()), kr.ActiveTerm(), strings.Join(ts, ","))
	}
	if v := get(barrier.KeyringPath); v != nil {
		desc := "?"
		rk := c10UnhexKeys(x.roots)
		for _, n := range c10SortedNames(rk) {
			if pt, ok := c10OpenRec(rk[n], barrier.KeyringPath, v); ok {
				var kj c10KeyringJSON
				if json.Unmarshal(pt, &kj) == nil {
					sort.Slice(kj.Keys, func(i, j int) bool { return kj.Keys[i].Term < kj.Keys[j].Term })
					var ts []string
					var act uint32
					for _, k := range kj.Keys {
						ts = append(ts, fmt.Sprintf("%d=%s", k.Term, c10Name(x.terms, "T", k.Value)))
						if k.Term > act {
							act = k.Term
						}
					}
					desc = fmt.Sprintf("%d:%s:kr(%s;%d;%s)", binary.BigEndian.Uint32(v[:4]), n, c10Lookup(x.roots, kj.MasterKey), act, strings.Join(ts, ","))
				}
				break
			}
		}
		parts = append(parts, barrier.KeyringPath+"="+desc)
	}
	tk := c10UnhexKeys(x.terms)
	openT := func(path string, v []byte) (string, []byte) {
		for _, n := range c10SortedNames(tk) {
			if pt, ok := c10OpenRec(tk[n], path, v); ok {
				return n, pt
			}
		}
		return "?", nil
	}
	if v := get(barrier.RootKeyPath); v != nil {
		n, pt := openT(barrier.RootKeyPath, v)
		body := "?"
		var kj c10KeyJSON
		if pt != nil && json.Unmarshal(pt, &kj) == nil {
			body = fmt.Sprintf("key(%d,%s)", kj.Term, c10Lookup(x.roots, kj.Value))
		}
		parts = append(parts, fmt.Sprintf("%s=%d:%s:%s", barrier.RootKeyPath, binary.BigEndian.Uint32(v[:4]), n, body))
	}
	if v := get(barrier.ShamirKekPath); v != nil {
		n, pt := openT(barrier.ShamirKekPath, v)
		body := "?"
		if pt != nil {
			body = fmt.Sprintf("raw(%s)", c10Lookup(x.seals, pt))
		}
		parts = append(parts, fmt.Sprintf("%s=%d:%s:%s", barrier.ShamirKekPath, binary.BigEndian.Uint32(v[:4]), n, body))
	}
	for _, k := range x.p.vhPhys.AllKeys() {
		if strings.HasPrefix(k, "d/") {
			v := get(k)
			n, pt := openT(k, v)
			body := "?"
			if pt != nil {
				body = "b:" + vh.Hex(pt)
			}
			parts = append(parts, fmt.Sprintf("%s=%d:%s:%s", k, binary.BigEndian.Uint32(v[:4]), n, body))
		}
	}
	sort.Strings(parts)
	x.out.Op("A="+mem+" P=["+strings.Join(parts, " ")+"]", "dump")
}

func c10BarErr(err error) string {
	switch {
	case err == nil:
		return "ok"
	case errors.Is(err, barrier.ErrBarrierSealed):
		return "err:sealed"
	}
	return "err:other:" + vh.HexS(err.Error())
}

func (x *c10Core) snapShadow() {
	x.preSh = map[string]string{}
	for k, v := range x.shadow {
		x.preSh[k] = v
	}
}

func (x *c10Core) put(k, vhex string) {
	v := []byte{}
	if vhex != "-" {
		v = make([]byte, len(vhex)/2)
		fmt.Sscanf(vhex, "%x", &v)
	}
	x.snapShadow()
	x.p.Tag(0)
	x.p.arm()
	err := x.c.barrier.Put(context.Background(), &logical.StorageEntry{Key: k, Value: v})
	x.p.disarm()
	x.p.Untag()
	if err == nil {
		x.shadow[k] = vhex
	}
	x.lastOp = "put"
	x.out.Op(c10BarErr(err), "put", k, vhex)
}

func (x *c10Core) get(k string) {
	e, err := x.c.barrier.Get(context.Background(), k)
	res := c10BarErr(err)
	if err == nil {
		if e == nil {
			res = "nil"
		} else {
			res = "ok:b:" + vh.Hex(e.Value)
		}
	}
	x.out.Op(res, "get", k)
}

func (x *c10Core) del(k string) {
	x.snapShadow()
	x.p.Tag(0)
	x.p.arm()
	err := x.c.barrier.Delete(context.Background(), k)
	x.p.disarm()
	x.p.Untag()
	if err == nil {
		delete(x.shadow, k)
	}
	x.lastOp = "del"
	x.out.Op(c10BarErr(err), "del", k)
}

func (x *c10Core) rotate() int {
	x.snapShadow()
	x.p.Tag(0)
	x.p.arm()
	err := x.c.sealManager.RotateBarrierKey(vhRootCtx(), namespace.RootNamespace)
	x.p.disarm()
	x.p.Untag()
	res := c10BarErr(err)
	if err == nil {
		ki, _ := x.c.barrier.ActiveKeyInfo()
		res = fmt.Sprintf("ok:%d", ki.Term)
	}
	x.lastOp = "rotate"
	x.out.Op(res, "rotate")
	return len(x.p.snaps) - 1
}

// tick: the core's 5-minute bookkeeping (checkBarrierAutoRotate -> barrier.CheckBarrierAutoRotate).  It re-persists the
// keyring when something was encrypted since the last tick; it must leave the in-memory root key alone.
func (x *c10Core) tick() int {
	x.snapShadow()
	var before []byte
	if kr, err := x.c.barrier.Keyring(); err == nil && kr != nil {
		before = append([]byte(nil), kr.RootKey()...)
	}
	x.p.Tag(0)
	x.p.arm()
	reason, err := x.c.barrier.CheckBarrierAutoRotate(vhRootCtx())
	x.p.disarm()
	x.p.Untag()
	res := c10BarErr(err)
	if err == nil && reason != "" {
		res = "due:" + vh.HexS(reason)
	}
	if kr, err := x.c.barrier.Keyring(); err == nil && kr != nil && before != nil && !bytes.Equal(kr.RootKey(), before) {
		res += "!VIOL:CheckBarrierAutoRotate changed the in-memory root key of the core's barrier"
	}
	x.lastOp = "tick"
	x.out.Op(res, "tick")
	return len(x.p.snaps) - 1
}

func (x *c10Core) rotroot() int {
	x.snapShadow()
	x.p.Tag(0)
	x.p.arm()
	err := x.c.sealManager.RotateBarrierRootKey(vhRootCtx(), namespace.RootNamespace)
	x.p.disarm()
	x.p.Untag()
	res := c10BarErr(err)
	n := len(x.p.snaps) - 1
	if err == nil {
		res = fmt.Sprintf("ok:%d", n)
	}
	x.lastOp = "rotroot"
	x.out.Op(res, "rotroot")
	return n
}

// rekey: mode "rekey" = Core.RekeyInit / RekeyUpdate (rekey.go, sys/rekey), "rekeysm" = SealManager.InitRotation /
// UpdateRotation (rotate.go, sys/rotate/root/init+update), "rekeyv" = rekey.go with verification required (the new
// shares are handed out first, the barrier rekey happens in RekeyVerify).  Only the committing call is recorded.
func (x *c10Core) rekey(n, t int, mode string) (int, bool) {
	x.snapShadow()
	ctx := vhRootCtx()
	fail := func(res string) (int, bool) {
		if x.failFirst {
			// the planned failure of the rekey's FIRST write (the stored keys): the operator gives up
			x.failFirst = false
			fired := x.p.vhPhys.KeyFaultFired()
			if mode == "rekeysm" {
				_ = x.c.sealManager.CancelRotation(ctx, namespace.RootNamespaceUUID, false)
			} else {
				_ = x.c.RekeyCancel(false)
			}
			if fired && !strings.HasPrefix(res, "err:config") {
				res = "err:io"
			}
			x.out.Op(res, mode+"fail", fmt.Sprint(n), fmt.Sprint(t))
			return 0, false
		}
		x.out.Op(res, mode, fmt.Sprint(n), fmt.Sprint(t))
		return 0, false
	}
	if x.failFirst {
		x.p.vhPhys.FailKeyOnce("put", "core/hsm/barrier-unseal-keys", "")
	}
	conf := &SealConfig{Type: x.c.seal.BarrierType().String(), SecretShares: n, SecretThreshold: t, VerificationRequired: mode == "rekeyv"}
	bc, _ := x.c.seal.BarrierConfig(context.Background())
	if bc == nil {
		x.t.Fatal("no barrier config")
	}
	var newShares [][]byte
	commit := func(f func() error) error {
		x.p.Tag(0)
		x.p.arm()
		err := f()
		x.p.disarm()
		x.p.Untag()
		return err
	}
	switch mode {
	case "rekey", "rekeyv":
		if herr := x.c.RekeyInit(conf, false); herr != nil {
			return fail("err:config")
		}
		rk, herr := x.c.RekeyConfig(false)
		if herr != nil || rk == nil {
			x.t.Fatalf("rekey config: %v", herr)
		}
		var result *RekeyResult
		for i, key := range x.cur {
			var err error
			step := func() error {
				r, e := x.c.RekeyUpdate(context.Background(), TestKeyCopy(key), rk.Nonce, false)
				result = r
				if e != nil {
					return e
				}
				return nil
			}
			if i == bc.SecretThreshold-1 && mode == "rekey" {
				err = commit(step)
			} else {
				err = step()
			}
			if err != nil {
				return fail("err:other:" + vh.HexS(err.Error()))
			}
			if result != nil {
				break
			}
		}
		if result == nil {
			x.t.Fatal("rekey did not complete")
		}
		newShares = result.SecretShares
		if mode == "rekeyv" {
			if !result.VerificationRequired {
				x.t.Fatal("verification was not requested")
			}
			done := false
			for i, key := range newShares {
				var vr *RekeyVerifyResult
				step := func() error {
					r, e := x.c.RekeyVerify(context.Background(), TestKeyCopy(key), result.VerificationNonce, false)
					vr = r
					if e != nil {
						return e
					}
					return nil
				}
				var err error
				if i == t-1 {
					err = commit(step)
				} else {
					err = step()
				}
				if err != nil {
					return fail("err:other:" + vh.HexS(err.Error()))
				}
				if vr != nil && vr.Complete {
					done = true
					break
				}
			}
			if !done {
				x.t.Fatal("rekey verification did not complete")
			}
		}
	case "rekeysm":
		if _, err := x.c.sealManager.InitRotation(ctx, namespace.RootNamespace, conf, false); err != nil {
			return fail("err:config")
		}
		rc := x.c.sealManager.RotationConfig(namespace.RootNamespaceUUID, false)
		if rc == nil {
			x.t.Fatal("no rotation config")
		}
		var result *RekeyResult
		for i, key := range x.cur {
			var err error
			step := func() error {
				r, e := x.c.sealManager.UpdateRotation(ctx, namespace.RootNamespace, TestKeyCopy(key), rc.Nonce, false)
				result = r
				return e
			}
			if i == bc.SecretThreshold-1 {
				err = commit(step)
			} else {
				err = step()
			}
			if err != nil {
				return fail("err:other:" + vh.HexS(err.Error()))
			}
			if result != nil {
				break
			}
		}
		if result == nil {
			x.t.Fatal("rotation did not complete")
		}
		newShares = result.SecretShares
	}
	nw := len(x.p.snaps) - 1
	x.prev = x.cur
	x.cur = newShares
	x.lastOp = mode
	x.out.Op(fmt.Sprintf("ok:%d", nw), mode, fmt.Sprint(n), fmt.Sprint(t))
	return nw, true
}

func c10UnsealClass(err error) string {
	var ik *ErrInvalidKey
	switch {
	case err == nil:
		return "unsealed"
	case errors.As(err, &ik), errors.Is(err, barrier.ErrBarrierInvalidKey), strings.Contains(err.Error(), "message authentication failed"):
		return "err:invalid"
	case errors.Is(err, ErrNotInit), errors.Is(err, barrier.ErrBarrierNotInit):
		return "err:not-init"
	}
	return "err:other"
}

// feed supplies every share of the set in turn; stops at the first error or as soon as the core is unsealed
func c10Feed(c *Core, shares [][]byte) (string, string) {
	c.ResetUnsealProcess()
	for _, s := range shares {
		unsealed, err := TestCoreUnseal(c, TestKeyCopy(s))
		if err != nil {
			return c10UnsealClass(err), err.Error()
		}
		if unsealed {
			return "unsealed", ""
		}
	}
	return "insufficient", ""
}

func (x *c10Core) sealOp() {
	err := TestCoreSeal(x.c)
	res := "ok"
	if err != nil {
		res = "err:other:" + vh.HexS(err.Error())
	}
	x.out.Op(res, "seal")
}

func (x *c10Core) unsealOp(who string) string {
	shares := x.cur
	if who == "old" {
		shares = x.prev
	}
	res := "unsealed"
	if x.c.Sealed() {
		if x.auto {
			res, _ = c10AutoUnseal(x.c)
		} else {
			res, _ = c10Feed(x.c, shares)
		}
	}
	viol := ""
	if res == "unsealed" {
		var bad []string
		for k, v := range x.shadow {
			e, err := x.c.barrier.Get(context.Background(), k)
			if err != nil || e == nil || vh.Hex(e.Value) != v {
				bad = append(bad, k)
			}
		}
		if len(bad) > 0 {
			sort.Strings(bad)
			viol = "!VIOL:after unseal earlier entries are not readable: " + strings.Join(bad, ",")
		}
	}
	x.out.Op(res+viol, "unseal", who)
	return res
}

type c10CrashRes struct {
	class string
	good  int
	total int
	msg   string
}

// crash restarts a new core on the store after the k-th write of the last operation
func (x *c10Core) crash(k int, who string) c10CrashRes {
	shares := x.cur
	if who == "old" {
		shares = x.prev
	}
	want := x.preSh
	if k == len(x.p.snaps)-1 {
		want = x.shadow
	}
	store := x.p.snaps[k].Snapshot(x.t)
	logger := vhLogger()
	conf := testCoreConfig(x.t, store, logger)
	conf.DisableCache = true
	conf.NumExpirationWorkers = numExpirationWorkersTest
	if x.auto {
		conf = c10AutoConf(x.t, store)
	}
	r := c10CrashRes{total: len(x.shadow)}
	c2, err := NewCore(conf)
	if err != nil {
		r.class, r.msg = "err:other", err.Error()
		return r
	}
	defer c2.Shutdown()
	if x.auto {
		r.class, r.msg = c10AutoUnseal(c2)
	} else {
		r.class, r.msg = c10Feed(c2, shares)
	}
	if r.class == "unsealed" {
		// the model counts, over the keys of the CURRENT shadow, those that read back with their current value
		for kk, v := range x.shadow {
			e, err := c2.barrier.Get(context.Background(), kk)
			if err == nil && e != nil && vh.Hex(e.Value) == v {
				r.good++
			}
		}
		for kk, v := range want {
			e, err := c2.barrier.Get(context.Background(), kk)
			if err != nil || e == nil || vh.Hex(e.Value) != v {
				r.msg = "entry " + kk + " not readable"
				r.class = "unsealed-but-unreadable"
			}
		}
	}
	return r
}

// haCrash restarts an HA-ENABLED core (inmem HA lock backend, like a raft or consul deployment) on the store after the
// k-th write of the last operation, unseals it and waits for it to win the leader election: waitForLeadership runs
// performKeyUpgrades (CheckUpgrade*, ReloadRootKey, ReloadKeyring) and shuts the core down when that fails.
func (x *c10Core) haCrash(k int) string {
	store := x.p.snaps[k].Snapshot(x.t)
	ha, err := physInmemHA()
	if err != nil {
		x.t.Fatal(err)
	}
	conf := testCoreConfig(x.t, store, vhLogger())
	if x.auto {
		conf = c10AutoConf(x.t, store)
	}
	conf.DisableCache = true
	conf.NumExpirationWorkers = numExpirationWorkersTest
	conf.HAPhysical = ha
	conf.RedirectAddr = "http://127.0.0.1:8200"
	c2, err := NewCore(conf)
	if err != nil {
		return "err:other"
	}
	defer c2.Shutdown()
	var cls string
	if x.auto {
		cls, _ = c10AutoUnseal(c2)
	} else {
		cls, _ = c10Feed(c2, x.cur)
	}
	if cls != "unsealed" {
		return cls
	}
	deadline := time.Now().Add(8 * time.Second)
	for time.Now().Before(deadline) {
		if c2.Sealed() {
			return "unsealed:leader-failed"
		}
		if !c2.Standby() {
			return "unsealed:active"
		}
		time.Sleep(5 * time.Millisecond)
	}
	return "unsealed:leader-timeout"
}

// haCrashAll: every crash prefix of the last operation on an HA-enabled restart; a node that unseals but cannot
// become active is the property failing (the data is there, nobody can serve it)
func (x *c10Core) haCrashAll(n int) {
	for k := 0; k <= n; k++ {
		res := x.haCrash(k)
		if res == "unsealed:leader-failed" || res == "unsealed:leader-timeout" {
			sig := fmt.Sprintf("ha-leader-setup-fails-after-crash:%s:%d/%d", x.lastOp, k, n)
			if x.lastOp == "rotroot" && k == 2 && res == "unsealed:leader-failed" {
				sig = "F46:root-key-entry-stale-after-crash"
			}
			res += fmt.Sprintf("!VIOL:crash after write %d/%d of %s (%s): the restarted HA node unseals but its leadership set-up (performKeyUpgrades: ReloadRootKey, ReloadKeyring) fails and the core shuts down#%s",
				k, n, x.lastOp, strings.Join(x.p.ops[:k], "; "), sig)
		}
		x.out.Op(res, "hacrash", fmt.Sprint(k))
	}
}

// crashAll: every prefix, both share sets; evaluates the property on the real outcomes
func (x *c10Core) crashAll(n int, both bool) {
	for k := 0; k <= n; k++ {
		whos := []string{"new"}
		if both {
			whos = []string{"old", "new"}
		}
		okHeld := false
		var lines []string
		var detail []string
		for _, who := range whos {
			r := x.crash(k, who)
			cls := r.class
			if cls == "unsealed-but-unreadable" {
				cls = "unsealed"
			}
			lines = append(lines, fmt.Sprintf("%s:%d/%d", cls, r.good, r.total))
			detail = append(detail, who+"="+r.class)
			// which share sets does the operator hold at this crash point?
			held := true
			if both && who == "new" && k < n && x.lastOp != "rekeyv" {
				held = false // the new shares are only returned when the rekey completes (unless verification was required)
			}
			if held && r.class == "unsealed" {
				okHeld = true
			}
		}
		for i, who := range whos {
			line := lines[i]
			if i == len(whos)-1 && !okHeld {
				// structural signatures: F6 = rekey, a proper prefix (at least one write applied, not complete), the old
				// shares are rejected as invalid; F45 = keyless root rotation, exactly the stored-keys write applied,
				// the shares are rejected as invalid.  Anything else is a different failure.
				sig := fmt.Sprintf("core-crash-prefix-unsealable:%s:%d/%d:%s", x.lastOp, k, n, strings.Join(detail, ","))
				switch {
				case strings.HasPrefix(x.lastOp, "rekey") && k >= 1 && k < n && detail[0] == "old=err:invalid":
					sig = "F6:rekey-crash-prefix-unsealable"
				case x.lastOp == "rotroot" && k == 1 && detail[0] == "new=err:invalid":
					sig = "F45:rotate-root-crash-prefix-unsealable"
				}
				line += fmt.Sprintf("!VIOL:crash after write %d/%d of %s (%s): no share set the operator holds unseals the restarted core with every earlier entry readable (%s)#%s",
					k, n, x.lastOp, strings.Join(x.p.ops[:k], "; "), strings.Join(detail, " "), sig)
			}
			x.out.Op(line, "crash", fmt.Sprint(k), who)
		}
	}
}

// c10RefusedUnseal: an unseal that is REFUSED after the barrier was opened (the marker of an interrupted declarative
// self-initialisation makes checkSelfInit refuse every unseal) must leave the node sealed in the property's sense: the
// barrier sealed and without key material, not only the core's flag set. Op line: refusedunseal => <unseal answer>|
// core:<sealed|unsealed>|barrier:<sealed|open>|keyring:<none|held>|get:<class of a barrier read>
func c10RefusedUnseal(t *testing.T, out *vh.Out) {
	p := &c10Phys{vhPhys: vhNewPhys(t), t: t}
	c, keys, _ := vhNewCore(t, p, nil, nil)
	out.Reset()
	if err := c.MarkSelfInitStarted(vhRootCtx()); err != nil {
		t.Fatalf("MarkSelfInitStarted: %v", err)
	}
	if err := TestCoreSeal(c); err != nil {
		t.Fatalf("seal: %v", err)
	}
	res, _ := c10Feed(c, keys)
	core, bar, kr, get := "unsealed", "open", "held", "served"
	if c.Sealed() {
		core = "sealed"
	}
	if c.barrier.Sealed() {
		bar = "sealed"
	}
	if k, err := c.barrier.Keyring(); err != nil || k == nil {
		kr = "none"
	}
	if _, err := c.barrier.Get(context.Background(), "core/mounts"); err != nil {
		get = "refused"
	}
	line := fmt.Sprintf("%s|core:%s|barrier:%s|keyring:%s|get:%s", res, core, bar, kr, get)
	if core == "sealed" && (bar != "sealed" || kr != "none" || get != "refused") {
		line += "!VIOL:after a refused unseal the node reports itself sealed but its barrier is open / holds the keyring / serves reads: " + line + "#refused-unseal-leaves-barrier-open"
	}
	out.Op(line, "refusedunseal")
	_ = c.Shutdown()
}

// c10NsReseal (finding F102): a separately sealed namespace that is NOT a direct child of the root namespace (p/c/, p/
// plain); its unseal fails after its barrier was opened (an unreadable mount-table entry), so the namespace store seals
// it again (the rollback). That must not damage anything: the core has to come up again with its (valid) shares and
// "every entry written earlier is readable again". Op line:
//   nsreseal => nsunseal:<failed|ok>|ns:<sealed|unsealed>|restart:<unsealed|class of the refusal>|get:<served|refused>
func c10NsReseal(t *testing.T, out *vh.Out) {
	p := &c10Phys{vhPhys: vhNewPhys(t), t: t}
	c, keys, root := vhNewCore(t, p, nil, nil)
	out.Reset()
	ctx := vhRootCtx()
	if cl, _ := vhReq(c, logical.UpdateOperation, "secret/canary", root, map[string]any{"v": "c10"}); cl != "ok" {
		t.Fatalf("canary write: %s", cl)
	}
	pn := &namespace.Namespace{Path: "p/"}
	TestCoreCreateNamespaces(t, c, pn)
	child := &namespace.Namespace{Path: "p/c/"}
	shares := TestCoreCreateUnsealedNamespaces(t, c, child)
	pCtx := namespace.ContextWithNamespace(ctx, pn)
	view := c.NamespaceView(child)
	uuids, err := view.List(ctx, coreMountConfigPath+"/")
	if err != nil {
		t.Fatalf("mount table of p/c/: %v", err)
	}
	bad := coreMountConfigPath // (non-transactional storage: the mount table is ONE entry)
	if len(uuids) > 0 {
		bad = coreMountConfigPath + "/" + uuids[0]
	}
	if e, gerr := view.Get(ctx, bad); gerr != nil || e == nil {
		t.Fatalf("mount table entry %s of p/c/: %v %v", bad, e, gerr)
	}
	if err := view.Put(ctx, &logical.StorageEntry{Key: bad, Value: []byte("{not valid json}")}); err != nil {
		t.Fatal(err)
	}
	if err := c.namespaceStore.SealNamespace(pCtx, "c"); err != nil {
		t.Fatalf("seal p/c/: %v", err)
	}
	nsun := "insufficient"
	for _, key := range shares["p/c/"] {
		unsealed, uerr := c.namespaceStore.UnsealNamespace(pCtx, "c", TestKeyCopy(key))
		if uerr != nil {
			nsun = "failed"
			break
		}
		if unsealed {
			nsun = "ok"
			break
		}
	}
	nsState := "unsealed"
	if c.NamespaceSealed(child) {
		nsState = "sealed"
	}
	if err := TestCoreSeal(c); err != nil {
		t.Fatalf("seal: %v", err)
	}
	restart, detail := c10Feed(c, keys)
	get := "refused"
	if restart == "unsealed" {
		if cl, resp := vhReq(c, logical.ReadOperation, "secret/canary", root, nil); cl == "ok" && resp != nil && resp.Data["v"] == "c10" {
			get = "served"
		}
	}
	line := fmt.Sprintf("nsunseal:%s|ns:%s|restart:%s|get:%s", nsun, nsState, restart, get)
	if restart != "unsealed" || get != "served" {
		line += "!VIOL:after the rolled-back unseal of the nested namespace p/c/ the core no longer unseals with its valid shares (" + detail + "): the data written earlier is not readable again#core-unsealable-after-namespace-reseal"
	}
	out.Op(line, "nsreseal")
	_ = c.Shutdown()
}

func TestVerifC10Core(t *testing.T) {
	out := vh.Open()
	defer out.Close()
	rng := vh.NewRand(vh.Seed())
	c10RefusedUnseal(t, out)
	c10NsReseal(t, out)
	nCases := vh.EnvInt("VERIF_C10_CORE_CASES", 60)
	if vh.Thorough() {
		nCases = vh.EnvInt("VERIF_C10_CORE_CASES", 1500)
	}
	cfgs := [][2]int{{1, 1}, {2, 2}, {3, 2}, {3, 3}, {5, 3}, {5, 2}, {4, 4}, {7, 5}, {2, 1}, {0, 0}, {3, 4}}
	for i := 0; i < nCases; i++ {
		out.Reset()
		r := rng.Fork(uint64(i))
		p := &c10Phys{vhPhys: vhNewPhys(t), t: t}
		auto := i%4 == 3
		var c *Core
		var keys [][]byte
		var root string
		if auto {
			c, root = c10NewAutoCore(t, p)
		} else {
			c, keys, root = vhNewCore(t, p, nil, nil)
		}
		x := &c10Core{t: t, out: out, p: p, c: c, root: root, cur: keys, prev: keys, auto: auto,
			seals: map[string]string{}, roots: map[string]string{}, terms: map[string]string{}, shadow: map[string]string{}}
		if auto {
			out.Op("ok", "bootauto")
		} else {
			out.Op("ok", "boot", "3", "3")
		}
		x.dump()
		dk := []string{"d/a", "d/b", "d/c", "d/d"}
		val := func() string { return vh.Hex(r.Bytes(1 + r.Intn(4))) }
		x.put("d/a", val())
		x.put("d/b", val())
		nOps := 3 + r.Intn(3)
		for j := 0; j < nOps; j++ {
			switch q := r.Intn(100); {
			case q < 15:
				x.put(r.Pick(dk), val())
			case q < 20:
				x.del(r.Pick(dk))
			case q < 25:
				x.get(r.Pick(dk))
			case q < 32:
				// traffic, then the bookkeeping tick; every crash prefix of its keyring persist
				x.put(r.Pick(dk), val())
				n := x.tick()
				x.dump()
				if r.Chance(50) || i < 2 {
					x.crashAll(n, false)
				}
			case q < 45:
				n := x.rotate()
				x.dump()
				if r.Chance(50) || i == 0 {
					x.crashAll(n, false)
				}
				x.put(r.Pick(dk), val())
			case (q < 75 || (j == 0)) && !auto:
				cfg := cfgs[r.Intn(len(cfgs))]
				if j == 0 && i < 4 {
					cfg = [][2]int{{1, 1}, {5, 3}, {3, 2}, {2, 2}}[i]
				}
				mode := []string{"rekey", "rekeysm", "rekeyv"}[r.Intn(3)]
				if j == 0 && i < 3 {
					mode = []string{"rekey", "rekeysm", "rekeyv"}[i]
				}
				if mode != "rekeyv" && r.Chance(25) {
					// a rekey that fails at its first write and is abandoned; the share-less root rotation that follows
					// writes the stored keys through the seal's wrapper — which must still hold the key the shares give
					x.failFirst = true
					if _, ok := x.rekey(cfg[0], cfg[1], mode); ok {
						t.Fatalf("rekey with a failing first write succeeded")
					}
					x.failFirst = false
					x.rotroot()
					x.sealOp()
					x.unsealOp("new")
					x.dump()
				}
				n, ok := x.rekey(cfg[0], cfg[1], mode)
				if ok {
					x.dump()
					x.crashAll(n, true)
					if r.Chance(60) {
						x.sealOp()
						x.get("d/a")
						x.unsealOp("old")
						x.unsealOp("new")
						x.dump()
					}
				}
			default:
				n := x.rotroot()
				x.dump()
				x.crashAll(n, false)
				if r.Chance(20) || i < 4 {
					x.haCrashAll(n)
				}
			}
		}
		x.sealOp()
		x.unsealOp("new")
		for _, k := range dk {
			x.get(k)
		}
		x.dump()
		_ = bytes.Equal
		c.Shutdown()
	}
}
