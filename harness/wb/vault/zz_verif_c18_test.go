//go:build verif

package vault

// C18 — "a response-wrapping token reveals its payload exactly once": trace-validation harness (uses the gated
// scheduler loop of zz_verif_c19_test.go; both files are always overlaid together).
//
// One concurrent case = a real Core, a response wrapped in a fresh wrapping token W (secret read / token creation
// ("login") / list), then k goroutines attempting to get at the payload or interfering: unwrap with W as client
// token (unwrap1), unwrap with W in the body and another client token (unwrap3), rewrap (rewrap1 / rewrap3),
// sys/wrapping/lookup (lookup1 / lookup3), a direct read of cubbyhole/response with W (cubby), an unrelated
// request with W (other), revocation of W by root (revoke). Op lines:
//   winit <wrapped-kind> <k> <attempt-kind>...   => wrapinfo-only | leak:<what>     (response to the original requester)
//   wlookup                                       => path:ok | path:<other>         (sys/wrapping/lookup before any attempt)
//   ev <t> <op> <keyclass> | blocked <t> | done <t> | bg   as in C19 (keyclass: tok-id = W's entry, payload, wrapinfo, …)
//   wfinal                                        => token:<gone|pending|uses:k>/payload:<0|1>/wrapinfo:<0|1>
//   wafter <attempt-kind>                         => outcome of one more sequential attempt
//   wnew                                          => outcome of unwrapping the token a successful rewrap returned (then once more)
// Sequential ops (one core): probe <path> <op> => allowed|denied (what W's policy grants); expiry => class.

import (
	"fmt"
	"github.com/openbao/openbao/v2/internal/helper/namespace"
	"context"
	"strings"
	"testing"
	"time"

	"github.com/openbao/openbao/sdk/v2/logical"
	"github.com/openbao/openbao/v2/internal/zzverif/vh"
)

var c18Attempts = []string{"unwrap1", "unwrap3", "rewrap1", "rewrap3", "lookup1", "lookup3", "cubby", "other", "revoke"}
var c18Wrapped = []string{"secret", "login", "list"}

const c18Canary = "canary-c18-payload"

type c18W struct {
	tok      string
	kind     string
	path     string
	requester string // class of the response the original requester saw
}

// c18Marker: what proves that a response carries the wrapped payload
func c18Marker(kind string) string {
	switch kind {
	case "secret":
		return c18Canary
	case "login":
		return "client_token"
	}
	return "\"keys\""
}

func c18DoWrap(c *Core, root, kind string, ttl time.Duration) c18W {
	var req *logical.Request
	switch kind {
	case "secret":
		req = &logical.Request{Operation: logical.ReadOperation, Path: "rec/data/a", ClientToken: root}
	case "login":
		req = &logical.Request{Operation: logical.UpdateOperation, Path: "auth/token/create", ClientToken: root,
			Data: map[string]any{"policies": []string{"default"}, "ttl": "1h"}}
	default:
		req = &logical.Request{Operation: logical.ListOperation, Path: "rec/data/", ClientToken: root}
	}
	req.WrapInfo = &logical.RequestWrapInfo{TTL: ttl}
	req.SetTokenEntry(nil)
	resp, err := c.HandleRequest(vhRootCtx(), req)
	w := c18W{kind: kind, path: req.Path}
	switch {
	case err != nil || resp == nil:
		w.requester = "err:" + vhClass(resp, err)
	case resp.WrapInfo == nil || resp.WrapInfo.Token == "":
		w.requester = "leak:not-wrapped"
	case len(resp.Data) != 0:
		w.requester = "leak:data"
	case resp.Auth != nil:
		w.requester = "leak:auth"
	case resp.Secret != nil:
		w.requester = "leak:secret"
	default:
		w.requester = "wrapinfo-only"
		w.tok = resp.WrapInfo.Token
	}
	return w
}

// c18Payload inspects a response for the wrapped payload
func c18Payload(resp *logical.Response, marker string) bool {
	if resp == nil || resp.Data == nil {
		return false
	}
	for _, k := range []string{logical.HTTPRawBody, "response"} {
		switch v := resp.Data[k].(type) {
		case []byte:
			if strings.Contains(string(v), marker) {
				return true
			}
		case string:
			if strings.Contains(v, marker) {
				return true
			}
		}
	}
	return false
}

// c18Attempt issues one attempt; other = client token of third parties. newTok receives a rewrap's new token.
func c18Attempt(c *Core, kind string, w c18W, other, root string, newTok *string) string {
	var req *logical.Request
	switch kind {
	case "unwrap1":
		req = &logical.Request{Operation: logical.UpdateOperation, Path: "sys/wrapping/unwrap", ClientToken: w.tok}
	case "unwrap3":
		req = &logical.Request{Operation: logical.UpdateOperation, Path: "sys/wrapping/unwrap", ClientToken: other, Data: map[string]any{"token": w.tok}}
	case "rewrap1":
		req = &logical.Request{Operation: logical.UpdateOperation, Path: "sys/wrapping/rewrap", ClientToken: w.tok}
	case "rewrap3":
		req = &logical.Request{Operation: logical.UpdateOperation, Path: "sys/wrapping/rewrap", ClientToken: other, Data: map[string]any{"token": w.tok}}
	case "lookup1":
		req = &logical.Request{Operation: logical.UpdateOperation, Path: "sys/wrapping/lookup", ClientToken: w.tok}
	case "lookup3":
		req = &logical.Request{Operation: logical.UpdateOperation, Path: "sys/wrapping/lookup", ClientToken: other, Data: map[string]any{"token": w.tok}}
	case "cubby":
		req = &logical.Request{Operation: logical.ReadOperation, Path: "cubbyhole/response", ClientToken: w.tok}
	case "other":
		req = &logical.Request{Operation: logical.ReadOperation, Path: "rec/data/a", ClientToken: w.tok}
	case "revoke":
		req = &logical.Request{Operation: logical.UpdateOperation, Path: "auth/token/revoke", ClientToken: root, Data: map[string]any{"token": w.tok}}
	default:
		return "bad-kind"
	}
	req.SetTokenEntry(nil)
	resp, err := c.HandleRequest(vhRootCtx(), req)
	cl := vhClass(resp, err)
	if err != nil && strings.Contains(err.Error(), "wrapping token is not valid") {
		cl = "err:invalid-wrapping-token"
	}
	if c18Payload(resp, c18Marker(w.kind)) {
		cl += "+payload"
	}
	if resp != nil && resp.WrapInfo != nil && resp.WrapInfo.Token != "" {
		cl += "+rewrapped"
		if newTok != nil {
			*newTok = resp.WrapInfo.Token
		}
	}
	if strings.HasPrefix(kind, "lookup") && resp != nil && resp.Data != nil {
		if p, _ := resp.Data["creation_path"].(string); p == w.path {
			cl += "+path"
		} else if p != "" {
			cl += "+wrongpath"
		}
	}
	return cl
}

// c18Keys: classifier for W's own keys and the existence probe of the final state
func c18Keys(t *testing.T, c *Core, p *vhPhys, tok string) (func(string) string, func() string, string) {
	te, err := c.tokenStore.lookupInternal(vhRootCtx(), tok, false, true)
	if err != nil || te == nil {
		t.Fatalf("c18Keys: wrapping token lookup failed: %v", err)
	}
	salted, err := c.tokenStore.SaltID(vhRootCtx(), te.ID)
	if err != nil {
		t.Fatal(err)
	}
	own := "sys/token/id/" + salted
	cub := "/" + te.CubbyholeID + "/"
	kc := func(k string) string {
		cl := vhKeyClass(k)
		switch {
		case cl == "tok-id" && k != own:
			return "tok-other"
		case cl == "logical" && strings.Contains(k, cub) && strings.HasSuffix(k, "/response"):
			return "payload"
		case cl == "logical" && strings.Contains(k, cub) && strings.HasSuffix(k, "/wrapinfo"):
			return "wrapinfo"
		case cl == "logical" && strings.Contains(k, cub):
			return "cubby-dir"
		}
		return cl
	}
	final := func() string {
		pl, wi := 0, 0
		for _, k := range p.AllKeys() {
			switch kc(k) {
			case "payload":
				pl = 1
			case "wrapinfo":
				wi = 1
			}
		}
		return vh.Sprintf("token:%s/payload:%d/wrapinfo:%d", c19TokenState(c, salted), pl, wi)
	}
	return kc, final, salted
}

func c18RunCase(t *testing.T, out *vh.Out, wrapped string, kinds []string, mode string, rng *vh.Rand) {
	p, c, root, _ := c19Setup(t)
	defer func() { _ = c.Shutdown() }()
	if cl, _ := vhReq(c, logical.UpdateOperation, "rec/data/a", root, map[string]any{"value": c18Canary}); cl != "ok" {
		t.Fatalf("seed write: %s", cl)
	}
	other := vhCreateToken(t, c, root, map[string]any{"ttl": "1h", "policies": []string{"default", "c19"}})
	w := c18DoWrap(c, root, wrapped, time.Hour)
	out.Reset()
	k := len(kinds)
	out.Op(w.requester, append([]string{"winit", wrapped, vh.I(int64(k))}, kinds...)...)
	if w.tok == "" {
		return
	}
	kc, final, salted := c18Keys(t, c, p, w.tok)
	out.Op(c18Attempt(c, "lookup3", w, other, root, nil), "wlookup")
	s := vhNewSched(p, k)
	newToks := make([]string, k)
	for i := 0; i < k; i++ {
		kind := kinds[i]
		s.Go(i, func() string {
			return vh.Catch(func() string { return c18Attempt(c, kind, w, other, root, &newToks[i]) })
		})
	}
	var pick c19Picker
	switch mode {
	case "sequential":
		order := make([]int, k)
		for i := range order {
			order[i] = i
		}
		for i := len(order) - 1; i > 0; i-- {
			j := rng.Intn(i + 1)
			order[i], order[j] = order[j], order[i]
		}
		rank := map[int]int{}
		for r, i := range order {
			rank[i] = r
		}
		pick = func(cand []int, step int) int {
			best := 0
			for x, i := range cand {
				if rank[i] < rank[cand[best]] {
					best = x
				}
			}
			return best
		}
	case "burst":
		cur, left := -1, 0
		pick = func(cand []int, step int) int {
			if left > 0 {
				for x, i := range cand {
					if i == cur {
						left--
						return x
					}
				}
			}
			x := rng.Intn(len(cand))
			cur, left = cand[x], rng.Intn(6)
			return x
		}
	default:
		pick = func(cand []int, step int) int { return rng.Intn(len(cand)) }
	}
	// the thread that writes the pending marker through UseToken is the (single) use; after it returned wait for
	// the revocation (lazy: expiration worker; third party: synchronous) to finish
	user := -1
	hk := c19Hooks{
		keyClass: kc,
		onEv: func(i int, op *vhOp) {
			if op.Kind == "put" && kc(op.Key) == "tok-id" && user < 0 && kinds[i] != "revoke" {
				user = i
			}
		},
		afterDone: func(i int) {
			if i != user {
				return
			}
			st := c19TokenState(c, salted)
			for waited := 0; st != "gone" && waited < 1000; waited++ {
				time.Sleep(time.Millisecond)
				st = c19TokenState(c, salted)
			}
			out.Op(st, "bg")
		},
	}
	ok := c19RunSchedule(out, s, k, pick, hk)
	s.Drain(4000)
	if !ok {
		return
	}
	st := final()
	for waited := 0; strings.HasPrefix(st, "token:pending") && waited < 300; waited++ {
		time.Sleep(10 * time.Millisecond)
		st = final()
	}
	out.Op(st, "wfinal")
	ak := c18Attempts[rng.Intn(5)] // another unwrap / rewrap / lookup
	out.Op(vh.Catch(func() string { return c18Attempt(c, ak, w, other, root, nil) }), "wafter", ak)
	for i := 0; i < k; i++ {
		if newToks[i] != "" {
			w2 := w
			w2.tok = newToks[i]
			a := vh.Catch(func() string { return c18Attempt(c, "unwrap3", w2, other, root, nil) })
			b := vh.Catch(func() string { return c18Attempt(c, "unwrap1", w2, other, root, nil) })
			out.Op(a+"|"+b, "wnew")
		}
	}
}

// c18WrapReq: the request whose response gets wrapped
func c18WrapReq(kind, root string) *logical.Request {
	switch kind {
	case "secret":
		return &logical.Request{Operation: logical.ReadOperation, Path: "rec/data/a", ClientToken: root}
	case "login":
		return &logical.Request{Operation: logical.UpdateOperation, Path: "auth/token/create", ClientToken: root,
			Data: map[string]any{"policies": []string{"default"}, "ttl": "1h"}}
	}
	return &logical.Request{Operation: logical.ListOperation, Path: "rec/data/", ClientToken: root}
}

// c18InfoString renders (creation_path, creation_ttl in seconds) of a wrap_info / a lookup response
func c18InfoString(path string, ttl time.Duration) string {
	return vh.Sprintf("path:%s/ttl:%d", path, int64(ttl/time.Second))
}

// c18History: the wrapping information through rewrap generations, sequentially on one core. Ops:
//   hist <path> <ttl-seconds>  => path:<wrap_info.creation_path>/ttl:<wrap_info.ttl>        (original requester's wrap_info)
//   hlookup                    => path:<creation_path>/ttl:<creation_ttl>/time:<fresh|stale> (sys/wrapping/lookup on the live token)
//   hrewrap 3|1                => path:…/ttl:… of the new wrap_info (third party) | outcome class (first party: denied)
//   hunwrap                    => outcome of a third-party unwrap of the live token
func c18History(t *testing.T, out *vh.Out, rng *vh.Rand, rounds int) {
	_, c, root, _ := c19Setup(t)
	defer func() { _ = c.Shutdown() }()
	if cl, _ := vhReq(c, logical.UpdateOperation, "rec/data/a", root, map[string]any{"value": c18Canary}); cl != "ok" {
		t.Fatalf("seed write: %s", cl)
	}
	other := vhCreateToken(t, c, root, map[string]any{"ttl": "1h", "policies": []string{"default", "c19"}})
	ttls := []time.Duration{time.Hour, 30 * time.Minute, 90 * time.Second, 7 * time.Minute}
	if cl, _ := vhReq(c, logical.UpdateOperation, "sys/namespaces/c18ns", root, nil); cl != "ok" {
		t.Fatalf("namespace c18ns: %s", cl)
	}
	nsObj, nerr := c.namespaceStore.GetNamespaceByPath(vhRootCtx(), "c18ns/")
	if nerr != nil || nsObj == nil {
		t.Fatalf("namespace c18ns: %v", nerr)
	}
	nsCtx := namespace.ContextWithNamespace(context.Background(), nsObj)
	do := func(req *logical.Request) (*logical.Response, error) {
		req.SetTokenEntry(nil)
		return c.HandleRequest(vhRootCtx(), req)
	}
	class := func(resp *logical.Response, err error) string {
		cl := vhClass(resp, err)
		if err != nil && strings.Contains(err.Error(), "wrapping token is not valid") {
			cl = "err:invalid-wrapping-token"
		}
		return cl
	}
	for round := 0; round < rounds; round++ {
		kind := c18Wrapped[round%len(c18Wrapped)]
		ttl := ttls[rng.Intn(len(ttls))]
		// the fixed history first, then random ones: L = lookup, 3 / 1 = third- / first-party rewrap, U = unwrap
		steps := "L3L3LU"
		if round >= len(c18Wrapped) {
			steps = ""
			for i, n := 0, 2+rng.Intn(6); i < n; i++ {
				steps += string("L33L3L1U"[rng.Intn(8)])
			}
			steps += "LUL"
		}
		req := c18WrapReq(kind, root)
		req.WrapInfo = &logical.RequestWrapInfo{TTL: ttl}
		t0 := time.Now().Add(-time.Second)
		var resp *logical.Response
		var err error
		if round%3 == 2 {
			// the response is wrapped in a CHILD namespace (its wrapping token and cubbyhole live there); every later
			// lookup / rewrap / unwrap comes in through the root namespace with the token in the body
			req = &logical.Request{Operation: logical.UpdateOperation, Path: "sys/wrapping/wrap", ClientToken: root,
				Data: map[string]any{"value": c18Canary}, WrapInfo: &logical.RequestWrapInfo{TTL: ttl}}
			kind = "secret"
			req.SetTokenEntry(nil)
			resp, err = c.HandleRequest(nsCtx, req)
		} else {
			resp, err = do(req)
		}
		out.Reset()
		if err != nil || resp == nil || resp.WrapInfo == nil || resp.WrapInfo.Token == "" {
			out.Op("nowrap:"+class(resp, err), "hist", req.Path, vh.I(int64(ttl/time.Second)))
			continue
		}
		out.Op(c18InfoString(resp.WrapInfo.CreationPath, resp.WrapInfo.TTL), "hist", req.Path, vh.I(int64(ttl/time.Second)))
		tok := resp.WrapInfo.Token
		for _, st := range steps {
			switch st {
			case 'L':
				r, e := do(&logical.Request{Operation: logical.UpdateOperation, Path: "sys/wrapping/lookup", ClientToken: other, Data: map[string]any{"token": tok}})
				res := class(r, e)
				if e == nil && r != nil && r.Data != nil && r.Data["creation_path"] != nil {
					p, _ := r.Data["creation_path"].(string)
					secs, _ := r.Data["creation_ttl"].(float64)
					fresh := "stale"
					switch ct := r.Data["creation_time"].(type) {
					case string:
						if tm, perr := time.Parse(time.RFC3339Nano, ct); perr == nil && tm.After(t0) && tm.Before(time.Now().Add(time.Second)) {
							fresh = "fresh"
						}
					case time.Time:
						if ct.After(t0) && ct.Before(time.Now().Add(time.Second)) {
							fresh = "fresh"
						}
					}
					res = vh.Sprintf("path:%s/ttl:%d/time:%s", p, int64(secs), fresh)
				}
				out.Op(res, "hlookup")
			case '3':
				t0 = time.Now().Add(-time.Second)
				r, e := do(&logical.Request{Operation: logical.UpdateOperation, Path: "sys/wrapping/rewrap", ClientToken: other, Data: map[string]any{"token": tok}})
				res := class(r, e)
				if e == nil && r != nil && r.WrapInfo != nil && r.WrapInfo.Token != "" {
					res = c18InfoString(r.WrapInfo.CreationPath, r.WrapInfo.TTL)
					tok = r.WrapInfo.Token
				}
				out.Op(res, "hrewrap", "3")
			case '1':
				r, e := do(&logical.Request{Operation: logical.UpdateOperation, Path: "sys/wrapping/rewrap", ClientToken: tok})
				res := class(r, e)
				if e == nil && r != nil && r.WrapInfo != nil && r.WrapInfo.Token != "" {
					res = c18InfoString(r.WrapInfo.CreationPath, r.WrapInfo.TTL)
					tok = r.WrapInfo.Token
				}
				out.Op(res, "hrewrap", "1")
			case 'U':
				w := c18W{tok: tok, kind: kind, path: req.Path}
				out.Op(vh.Catch(func() string { return c18Attempt(c, "unwrap3", w, other, root, nil) }), "hunwrap")
			}
		}
	}
}

// c18Sequential: what the wrapping token's policy grants, and TTL expiry, on one core
func c18Sequential(t *testing.T, out *vh.Out, rng *vh.Rand) {
	_, c, root, _ := c19Setup(t)
	defer func() { _ = c.Shutdown() }()
	if cl, _ := vhReq(c, logical.UpdateOperation, "rec/data/a", root, map[string]any{"value": c18Canary}); cl != "ok" {
		t.Fatalf("seed write: %s", cl)
	}
	// a requester that is bound to an identity entity whose identity policy (c18ident) grants far more than a wrapping
	// token may: the wrapping it asks for must still yield a token that is good for its payload only
	if cl, _ := vhReq(c, logical.UpdateOperation, "sys/policies/acl/c18ident", root, map[string]any{"policy": `
path "rec/data/a" { capabilities = ["create", "read", "update"] }
path "sys/mounts" { capabilities = ["read"] }
path "sys/policies/acl/default" { capabilities = ["read"] }
path "auth/token/create" { capabilities = ["update"] }
`}); cl != "ok" {
		t.Fatalf("policy c18ident: %s", cl)
	}
	_, eresp := vhReq(c, logical.UpdateOperation, "identity/entity", root, map[string]any{"name": "c18ent", "policies": []string{"c18ident"}})
	entityID := ""
	if eresp != nil && eresp.Data != nil {
		entityID, _ = eresp.Data["id"].(string)
	}
	if entityID == "" {
		t.Fatal("c18: no entity id")
	}
	alice := &logical.TokenEntry{Path: "auth/test/login", Policies: []string{"default"}, EntityID: entityID, TTL: time.Hour}
	testMakeTokenDirectly(t, vhRootCtx(), c.tokenStore, alice)
	if cl, _ := vhReq(c, logical.ReadOperation, "rec/data/a", alice.ID, nil); cl != "ok" {
		t.Fatalf("c18: the entity-bound requester cannot read through its identity policy: %s", cl)
	}
	out.Reset()
	out.Op("ok", "wseq")
	type pr struct {
		path string
		op   logical.Operation
	}
	probes := []pr{
		{"cubbyhole/response", logical.ReadOperation}, {"cubbyhole/response", logical.UpdateOperation},
		{"cubbyhole/response", logical.DeleteOperation}, {"cubbyhole/response", logical.ListOperation},
		{"cubbyhole/wrapinfo", logical.ReadOperation}, {"cubbyhole/other", logical.ReadOperation},
		{"cubbyhole/other", logical.UpdateOperation}, {"cubbyhole/", logical.ListOperation},
		{"sys/wrapping/unwrap", logical.UpdateOperation}, {"sys/wrapping/unwrap", logical.ReadOperation},
		{"sys/wrapping/rewrap", logical.UpdateOperation}, {"sys/wrapping/wrap", logical.UpdateOperation},
		{"sys/mounts", logical.ReadOperation}, {"rec/data/a", logical.ReadOperation},
		{"auth/token/lookup-self", logical.ReadOperation}, {"auth/token/create", logical.UpdateOperation},
		{"auth/token/revoke-self", logical.UpdateOperation}, {"sys/policies/acl/default", logical.ReadOperation},
		{"sys/leases/lookup", logical.UpdateOperation}, {"sys/capabilities-self", logical.UpdateOperation},
	}
	for qi, q := range append(probes, probes...) {
		reqName, reqTok := "root", root
		if qi >= len(probes) {
			reqName, reqTok = "entity", alice.ID
		}
		w := c18DoWrap(c, reqTok, "secret", time.Hour)
		if w.tok == "" {
			out.Op("nowrap:"+w.requester, "probe", q.path, string(q.op), reqName)
			continue
		}
		data := map[string]any{}
		if q.path == "sys/capabilities-self" {
			data["path"] = "sys/mounts"
		}
		if q.path == "sys/wrapping/wrap" || strings.HasPrefix(q.path, "cubbyhole/") {
			data["x"] = "y"
		}
		cl, _ := vhReq(c, q.op, q.path, w.tok, data)
		res := "allowed"
		if cl == "denied" {
			res = "denied"
		}
		out.Op(res, "probe", q.path, string(q.op), reqName)
		// whatever happened, the single use is gone now
		out.Op(vh.Catch(func() string { return c18Attempt(c, "unwrap3", w, root, root, nil) }), "wused")
	}
	// TTL: the payload is only obtainable before the wrapping token's TTL elapses
	w := c18DoWrap(c, root, "secret", time.Second)
	if w.tok != "" {
		time.Sleep(2200 * time.Millisecond)
		out.Op(vh.Catch(func() string { return c18Attempt(c, "unwrap3", w, root, root, nil) }), "expiry", "unwrap3")
	}
	w = c18DoWrap(c, root, "secret", time.Second)
	if w.tok != "" {
		time.Sleep(2200 * time.Millisecond)
		out.Op(vh.Catch(func() string { return c18Attempt(c, "unwrap1", w, root, root, nil) }), "expiry", "unwrap1")
	}
	_ = rng
}

// TestVerifC18Revoke: the same attempts racing with an explicit revocation of the wrapping token by root. The
// revocation path (revokeInternal: marker written without the token lock, tokensPendingDeletion) is C04's subject
// and is not part of the C18 model: this stream only feeds the direct property predicate.
func TestVerifC18Revoke(t *testing.T) {
	out := vh.Open()
	defer out.Close()
	rng := vh.NewRand(vh.Seed() ^ 0x5eed18)
	cases := vh.EnvInt("VERIF_C18R_CASES", 40)
	if vh.Thorough() {
		cases = vh.EnvInt("VERIF_C18R_CASES", 400)
	}
	for ci := 0; ci < cases; ci++ {
		r := rng.Fork(uint64(ci))
		wrapped := c18Wrapped[r.Intn(len(c18Wrapped))]
		k := 2 + r.Intn(2)
		kinds := []string{"revoke"}
		for i := 1; i < k; i++ {
			kinds = append(kinds, c18Attempts[r.Intn(2)])
		}
		for i := len(kinds) - 1; i > 0; i-- {
			j := r.Intn(i + 1)
			kinds[i], kinds[j] = kinds[j], kinds[i]
		}
		mode := "random"
		if r.Chance(30) {
			mode = "burst"
		}
		c18RunCase(t, out, wrapped, kinds, mode, r)
	}
}

// c18ControlGroup: wrapping tokens that carry a deferred control-group request. alice's policy puts `update` of rec/data/cg
// behind one approval by a member of group c18approvers (bob). (1) cgunwrap: alice's update is deferred (she receives a
// wrapping token), bob approves, the first unwrap executes the update; root overwrites the value; every further unwrap —
// with the token as client token, in the body of alice's request — and a lookup must fail and the value must stay.
// (2) cgstanza: an ordinary response-wrapped READ of that path (read is not controlled): the unwrap returns the stored
// response once, the second one fails.
func c18ControlGroup(t *testing.T, out *vh.Out) {
	_, c, root, _ := c19Setup(t)
	defer func() { _ = c.Shutdown() }()
	pol := func(name, body string) {
		if cl, _ := vhReq(c, logical.UpdateOperation, "sys/policies/acl/"+name, root, map[string]any{"policy": body}); cl != "ok" {
			t.Fatalf("policy %s: %s", name, cl)
		}
	}
	pol("c18cg", `
path "rec/data/cg" {
  capabilities = ["read", "update", "create"]
  control_group = {
    ttl = "5m"
    factor "approval" {
      controlled_capabilities = ["update", "create"]
      identity = {
        group_names = ["c18approvers"]
        approvals   = 1
      }
    }
  }
}
path "sys/wrapping/unwrap" { capabilities = ["update"] }
`)
	pol("c18approve", `
path "sys/control-group/authorize" { capabilities = ["update"] }
path "sys/control-group/request"   { capabilities = ["update"] }
`)
	ent := func(name string, pols []string) string {
		_, r := vhReq(c, logical.UpdateOperation, "identity/entity", root, map[string]any{"name": name, "policies": pols})
		if r == nil || r.Data == nil {
			t.Fatalf("entity %s", name)
		}
		id, _ := r.Data["id"].(string)
		return id
	}
	aliceID, bobID := ent("c18alice", []string{"c18cg"}), ent("c18bob", nil)
	if cl, _ := vhReq(c, logical.UpdateOperation, "identity/group", root, map[string]any{"name": "c18approvers", "policies": []string{"c18approve"}, "member_entity_ids": []string{bobID}}); cl != "ok" {
		t.Fatalf("group: %s", cl)
	}
	alice := &logical.TokenEntry{Path: "auth/test/login", Policies: []string{"default"}, EntityID: aliceID, TTL: time.Hour}
	testMakeTokenDirectly(t, vhRootCtx(), c.tokenStore, alice)
	bob := &logical.TokenEntry{Path: "auth/test/login", Policies: []string{"default"}, EntityID: bobID, TTL: time.Hour}
	testMakeTokenDirectly(t, vhRootCtx(), c.tokenStore, bob)
	if cl, _ := vhReq(c, logical.UpdateOperation, "rec/data/cg", root, map[string]any{"value": "v0"}); cl != "ok" {
		t.Fatalf("seed: %s", cl)
	}
	value := func() string {
		_, r := vhReq(c, logical.ReadOperation, "rec/data/cg", root, nil)
		if r == nil || r.Data == nil {
			return "?"
		}
		v, _ := r.Data["value"].(string)
		return v
	}
	unwrap := func(client, bodyTok string) (string, *logical.Response) {
		var d map[string]any
		if bodyTok != "" {
			d = map[string]any{"token": bodyTok}
		}
		return vhReq(c, logical.UpdateOperation, "sys/wrapping/unwrap", client, d)
	}
	b2 := func(cl string) string {
		if cl == "ok" {
			return "ok"
		}
		return "err"
	}

	// (1) approved control-group token
	out.Reset()
	_, resp := vhReq(c, logical.UpdateOperation, "rec/data/cg", alice.ID, map[string]any{"value": "v1"})
	if resp == nil || resp.WrapInfo == nil {
		out.Op("unmodelled:no-control-group-token", "cgunwrap")
	} else {
		w := resp.WrapInfo
		acl, _ := vhReq(c, logical.UpdateOperation, "sys/control-group/authorize", bob.ID, map[string]any{"accessor": w.Accessor})
		u1, _ := unwrap(w.Token, "")
		first := value()
		if cl, _ := vhReq(c, logical.UpdateOperation, "rec/data/cg", root, map[string]any{"value": "v2"}); cl != "ok" {
			t.Fatalf("overwrite: %s", cl)
		}
		u2, _ := unwrap(w.Token, "")
		u3, _ := unwrap(alice.ID, w.Token)
		lk, _ := vhReq(c, logical.UpdateOperation, "sys/wrapping/lookup", root, map[string]any{"token": w.Token})
		kept := "kept"
		if value() != "v2" {
			kept = "replayed"
		}
		res := fmt.Sprintf("approve:%s|first:%s:%s|second:%s|third:%s|lookup:%s|value:%s", b2(acl), b2(u1), first, b2(u2), b2(u3), b2(lk), kept)
		if b2(u1) == "ok" && (b2(u2) == "ok" || b2(u3) == "ok" || b2(lk) == "ok" || kept != "kept") {
			res += "!VIOL:a wrapping token carrying an approved control-group request was unwrapped more than once (the approved request was executed again)#control-group-token-unwrapped-twice"
		}
		out.Op(res, "cgunwrap")
	}

	// (2) an ordinary wrapped read on a path whose stanza has a control group for other capabilities
	out.Reset()
	req := &logical.Request{Operation: logical.ReadOperation, Path: "rec/data/cg", ClientToken: alice.ID, WrapInfo: &logical.RequestWrapInfo{TTL: time.Minute}}
	req.SetTokenEntry(nil)
	r2, err := c.HandleRequest(vhRootCtx(), req)
	if err != nil || r2 == nil || r2.WrapInfo == nil {
		out.Op("unmodelled:no-wrapping-token", "cgstanza")
		return
	}
	w := r2.WrapInfo
	u1, ur := unwrap(w.Token, "")
	got := "other"
	switch {
	case u1 != "ok":
		got = "err"
	case ur != nil && ur.WrapInfo != nil:
		got = "rewrapped"
	case ur != nil && ur.Data != nil:
		got = "data"
	}
	u2, _ := unwrap(w.Token, "")
	res := fmt.Sprintf("first:%s|second:%s", got, b2(u2))
	if got != "data" || b2(u2) == "ok" {
		res += "!VIOL:an ordinary response-wrapped read on a path whose policy stanza carries a control group (for other capabilities) is not unwrapped exactly once: the unwrap answered " + got + ", a second one " + b2(u2) + "#wrapped-read-under-control-group-stanza-reexecuted"
	}
	out.Op(res, "cgstanza")
}

// c18CrossNS: the wrapping token lives in one namespace, the third party that unwraps it (token in the request body)
// acts in another: `xns up` = wrapped in the child namespace c18ns, unwrapped by a root-namespace caller through the
// root namespace; `xns down` = wrapped in the root namespace, unwrapped through c18ns/; `xns same` = both in c18ns.
// "…exactly once, after which the token and its stored payload no longer exist": result
//   first:<class>/second:<class>/token:<gone|present>/payload:<n>/wrapinfo:<n>
func c18CrossNS(t *testing.T, out *vh.Out) {
	p, c, root, _ := c19Setup(t)
	defer func() { _ = c.Shutdown() }()
	if cl, _ := vhReq(c, logical.UpdateOperation, "sys/namespaces/c18ns", root, nil); cl != "ok" {
		t.Fatalf("namespace: %s", cl)
	}
	if cl, _ := vhReq(c, logical.UpdateOperation, "c18ns/sys/mounts/rec", root, map[string]any{"type": "vhrec"}); cl != "ok" {
		t.Fatalf("ns mount: %s", cl)
	}
	for _, pth := range []string{"rec/data/a", "c18ns/rec/data/a"} {
		if cl, _ := vhReq(c, logical.UpdateOperation, pth, root, map[string]any{"value": c18Canary}); cl != "ok" {
			t.Fatalf("seed write %s: %s", pth, cl)
		}
	}
	out.Reset()
	out.Op("ok", "wseq")
	for _, dir := range []string{"up", "down", "same", "up", "down"} {
		wrapPath, unwrapPath := "c18ns/rec/data/a", "sys/wrapping/unwrap"
		switch dir {
		case "down":
			wrapPath, unwrapPath = "rec/data/a", "c18ns/sys/wrapping/unwrap"
		case "same":
			unwrapPath = "c18ns/sys/wrapping/unwrap"
		}
		req := &logical.Request{Operation: logical.ReadOperation, Path: wrapPath, ClientToken: root, WrapInfo: &logical.RequestWrapInfo{TTL: time.Hour}}
		req.SetTokenEntry(nil)
		resp, err := c.HandleRequest(vhRootCtx(), req)
		if err != nil || resp == nil || resp.WrapInfo == nil || resp.WrapInfo.Token == "" {
			out.Op("nowrap:"+vhClass(resp, err), "xns", dir)
			continue
		}
		w := resp.WrapInfo.Token
		te, err := c.tokenStore.lookupInternal(vhRootCtx(), w, false, true)
		if err != nil || te == nil {
			t.Fatalf("xns: wrapping token lookup: %v", err)
		}
		cub := "/" + te.CubbyholeID + "/"
		unwrap := func() string {
			r := &logical.Request{Operation: logical.UpdateOperation, Path: unwrapPath, ClientToken: root, Data: map[string]any{"token": w}}
			r.SetTokenEntry(nil)
			resp, err := c.HandleRequest(vhRootCtx(), r)
			cl := vhClass(resp, err)
			if cl != "ok" {
				cl = "refused"
			}
			if c18Payload(resp, c18Canary) {
				cl += "+payload"
			}
			return cl
		}
		first := unwrap()
		second := unwrap()
		tokState := "gone"
		if te2, _ := c.tokenStore.lookupInternal(vhRootCtx(), w, false, true); te2 != nil {
			tokState = "present"
		}
		pl, wi := 0, 0
		for _, k := range p.AllKeys() {
			if strings.Contains(k, cub) && strings.HasSuffix(k, "/response") {
				pl++
			}
			if strings.Contains(k, cub) && strings.HasSuffix(k, "/wrapinfo") {
				wi++
			}
		}
		res := vh.Sprintf("first:%s/second:%s/token:%s/payload:%d/wrapinfo:%d", first, second, tokState, pl, wi)
		switch {
		case strings.Contains(second, "payload"):
			res += "!VIOL:the payload was revealed by a second unwrap (namespaces: " + dir + ")#payload-revealed-twice"
		case strings.Contains(first, "payload") && (tokState != "gone" || pl+wi > 0):
			res += "!VIOL:after the one successful third-party unwrap across namespaces (" + dir + ") the wrapping token or its stored payload still exists: token " + tokState + vh.Sprintf(", %d payload and %d wrapinfo entries", pl, wi) + "#wrapping-token-survives-unwrap"
		}
		out.Op(res, "xns", dir)
	}
}

func TestVerifC18(t *testing.T) {
	out := vh.Open()
	defer out.Close()
	rng := vh.NewRand(vh.Seed())
	c18ControlGroup(t, out)
	c18CrossNS(t, out)
	c18Sequential(t, out, rng.Fork(1<<41))
	histRounds := 12
	if vh.Thorough() {
		histRounds = 120
	}
	c18History(t, out, rng.Fork(1<<44), vh.EnvInt("VERIF_C18H_ROUNDS", histRounds))
	cases := vh.EnvInt("VERIF_C18_CASES", 150)
	if vh.Thorough() {
		cases = vh.EnvInt("VERIF_C18_CASES", 1500)
	}
	// directed (finding F44, repaired by 158010c): a third-party rewrap alone; afterwards the OLD wrapping token's
	// entry and both cubbyhole keys must be gone (`wfinal`), and the new token must reveal the payload exactly once
	for i, wrapped := range c18Wrapped {
		c18RunCase(t, out, wrapped, []string{"rewrap3"}, "sequential", rng.Fork(1<<42+uint64(i)))
	}
	c18RunCase(t, out, "secret", []string{"rewrap3", "unwrap3"}, "sequential", rng.Fork(1<<43))
	for ci := 0; ci < cases; ci++ {
		r := rng.Fork(uint64(ci))
		wrapped := c18Wrapped[r.Intn(len(c18Wrapped))]
		k := 2 + r.Intn(2)
		var kinds []string
		for i := 0; i < k; i++ {
			if r.Chance(55) {
				kinds = append(kinds, c18Attempts[r.Intn(2)]) // unwrap1 / unwrap3
			} else {
				kinds = append(kinds, c18Attempts[r.Intn(len(c18Attempts)-1)]) // `revoke` only in TestVerifC18Revoke
			}
		}
		mode := "random"
		switch x := r.Intn(10); {
		case x < 2:
			mode = "sequential"
		case x < 5:
			mode = "burst"
		}
		c18RunCase(t, out, wrapped, kinds, mode, r)
	}
}
