//go:build verif

package vault

// Correspondence harness for C04 (token revocation is final and cascades). White-box: overlaid into
// internal/vault at check time, never written into /repo. Four tests share one line protocol (driver stream
// `revoke`, model lean/Obao/Model/Revoke.lean):
//   TestVerifC04Seq    random token forests and operation histories; after every operation every token is
//                      probed and the token/lease/cubbyhole storage plus the tokensPendingDeletion map are listed
//   TestVerifC04Fault  for every storage operation of a revocation: fail it once, retry, probe
//   TestVerifC04Crash  restart a new core from the store as it was after every write prefix of a revocation
//   TestVerifC04Race   revoke(tree) against a concurrent child creation under seeded gate schedules
// Every request's own storage operations (token store, expiration, cubbyhole keys) are recorded,
// canonicalised (random ids -> ordinals in creation order) and compared with the model's micro-step trace.
// The property's predicate is evaluated here on the real core's answers (marker `!VIOL:` on `state` lines).

import (
	"context"
	"encoding/json"
	"fmt"
	"sort"
	"strconv"
	"strings"
	"testing"
	"time"

	"github.com/openbao/openbao/sdk/v2/helper/salt"
	"github.com/openbao/openbao/sdk/v2/logical"
	"github.com/openbao/openbao/v2/internal/helper/namespace"
	"github.com/openbao/openbao/v2/internal/vault/barrier"
	"github.com/openbao/openbao/v2/internal/vault/routing"
	"github.com/openbao/openbao/v2/internal/zzverif/vh"
)

const c04Policy = `
path "auth/token/*" { capabilities = ["create","update","read","sudo"] }
path "rec/*" { capabilities = ["create","update","read","list"] }
path "sys/leases/*" { capabilities = ["create","update","read","sudo"] }
`

type c04Tok struct {
	ord       int
	token     string // client token (SSC form)
	inner     string
	salted    string
	accessor  string
	accSalted string
	cubID     string
	leaseID   string // <path>/<salted>
	parent    int    // creating parent (ordinal) or -1
	depth     int
	kids      int
	custom    bool         // caller-chosen id (the identity can be created again after a revocation)
	cubSalted string       // the doubly salted token id: where the router keeps the cubbyhole of a prefix-less root-namespace token
	cubWritten map[int]bool // cubbyhole keys written by the current incarnation
	seen      bool         // a storage key of this (pending) token was observed
}

type c04Lease struct {
	ord    int
	id     string
	salted string
	tok    int
}

type c04Dead struct {
	by       string // the successful revocation (or the durable marker write)
	sig      string
	rejected bool // only "is rejected" is required (revocation interrupted by a crash, never reported successful)
}

type c04World struct {
	t       *testing.T
	p       *vhPhys
	c       *Core
	keys    [][]byte
	root    string
	toks    []*c04Tok
	leases  []*c04Lease
	cubPfx  string
	base    map[string]bool // physical keys present at case start (other cases' leftovers): ignored
	basePnd map[string]bool
	lines   [][2]string // (op fields joined by tab, result) of the current case, for re-emission
	out     *vh.Out
	caseNo  int
	pendViol string // predicate failure found by an operation, reported on the next `check` line
	// property bookkeeping: observations only, no model of the code
	dead      map[int]c04Dead
	lastIDs   map[int]int // id entries in the last digest: ord -> parent ord (-1 none, -2 unknown)
	lastMark  map[int]bool
	lastProbe map[int]string
	lastCub   map[int]int
	lastSl    map[int]bool // lease ord -> live
}

var c04CaseNo int

func c04Rel(k string) bool {
	return strings.HasPrefix(k, "sys/token/id/") || strings.HasPrefix(k, "sys/token/accessor/") ||
		strings.HasPrefix(k, "sys/token/parent/") || strings.HasPrefix(k, "sys/expire/") || strings.HasPrefix(k, "logical/")
}

func c04RelOp(op vhOp) bool { return c04Rel(op.Key) }

func c04NewWorld(t *testing.T, out *vh.Out) *c04World {
	p := vhNewPhys(t)
	var rec *vhRecBackend
	c, keys, root := vhNewCore(t, p, &rec, nil)
	vhMount(t, c, root, "rec/")
	if cl, _ := vhReq(c, logical.UpdateOperation, "sys/policy/c04", root, map[string]any{"policy": c04Policy}); cl != "ok" {
		t.Fatalf("policy: %s", cl)
	}
	w := &c04World{t: t, p: p, c: c, keys: keys, root: root, out: out}
	me := c.router.MatchingMountEntry(vhRootCtx(), "cubbyhole/")
	if me == nil {
		t.Fatal("no cubbyhole mount")
	}
	w.cubPfx = "logical/" + me.UUID + "/"
	p.failSel = c04RelOp
	w.newCase()
	return w
}

// newCase forgets the previous case's tokens: whatever they left in storage is ignored from now on.
func (w *c04World) newCase() {
	c04CaseNo++
	w.caseNo = c04CaseNo
	w.pendViol = ""
	w.toks = nil
	w.leases = nil
	w.lines = nil
	w.base = map[string]bool{}
	for _, k := range w.p.AllKeys() {
		w.base[k] = true
	}
	w.basePnd = map[string]bool{}
	w.c.tokenStore.tokensPendingDeletion.Range(func(k, v any) bool { w.basePnd[k.(string)] = true; return true })
	inner := w.root
	if in, err := w.c.DecodeSSCToken(w.root); err == nil && in != "" {
		inner = in
	}
	salted, _ := w.c.tokenStore.SaltID(vhRootCtx(), inner)
	w.toks = append(w.toks, &c04Tok{ord: 0, token: w.root, inner: inner, salted: salted, parent: -1})
	w.dead = map[int]c04Dead{}
	w.clearObs()
	w.out.Reset()
}

func (w *c04World) clearObs() {
	w.lastIDs, w.lastMark, w.lastProbe, w.lastCub, w.lastSl = map[int]int{}, map[int]bool{}, map[int]string{}, map[int]int{}, map[int]bool{}
}

func (w *c04World) emit(res string, fields ...string) {
	w.lines = append(w.lines, [2]string{strings.Join(fields, "\t"), res})
	w.out.Op(res, fields...)
}

// c04Skey: listing order key of a salted id. Plain-hex ids (caller-chosen token ids, lease ids) sort before the
// "h"-prefixed HMAC ids.
func c04Skey(s string) uint64 {
	var base uint64
	if strings.HasPrefix(s, "h") {
		s = s[1:]
		base = 1 << 48
	}
	if len(s) > 12 {
		s = s[:12]
	}
	v, _ := strconv.ParseUint(s, 16, 64)
	return base + v
}

func (w *c04World) bySalted(s string) int {
	for _, tk := range w.toks {
		if tk.salted == s {
			return tk.ord
		}
	}
	return -1
}

func (w *c04World) byInner(s string) int {
	for _, tk := range w.toks {
		if tk.inner != "" && tk.inner == s {
			return tk.ord
		}
	}
	return -1
}

// tokOrd resolves a salted token id; an unknown id seen while a creation is being canonicalised is the
// token being created (first-occurrence ordinal).
func (w *c04World) tokOrd(s string, pending *c04Tok) string {
	if o := w.bySalted(s); o >= 0 {
		return strconv.Itoa(o)
	}
	if pending != nil && (pending.salted == "" || pending.salted == s) {
		pending.salted = s
		pending.seen = true
		return strconv.Itoa(pending.ord)
	}
	return "?"
}

// canon maps a physical key to the model's key name; "" = not a key of the modelled stores.
func (w *c04World) canon(k string, pending *c04Tok) string {
	switch {
	case strings.HasPrefix(k, "sys/token/id/"):
		return "id:" + w.tokOrd(strings.TrimPrefix(k, "sys/token/id/"), pending)
	case strings.HasPrefix(k, "sys/token/accessor/"):
		a := strings.TrimPrefix(k, "sys/token/accessor/")
		for _, tk := range w.toks {
			if tk.accSalted == a {
				return "acc:" + strconv.Itoa(tk.ord)
			}
		}
		if pending != nil && (pending.accSalted == "" || pending.accSalted == a) {
			pending.accSalted = a
			return "acc:" + strconv.Itoa(pending.ord)
		}
		return "acc:?"
	case strings.HasPrefix(k, "sys/token/parent/"):
		parts := strings.Split(strings.TrimPrefix(k, "sys/token/parent/"), "/")
		if len(parts) == 2 && parts[1] == "" {
			return "par:" + w.tokOrd(parts[0], pending)
		}
		if len(parts) == 2 {
			return "par:" + w.tokOrd(parts[0], nil) + ":" + w.tokOrd(parts[1], pending)
		}
		if len(parts) == 1 {
			return "partop:" + w.tokOrd(parts[0], pending)
		}
		return "par:?"
	case strings.HasPrefix(k, "sys/expire/id/auth/token/"):
		i := strings.LastIndex(k, "/")
		return "tl:" + w.tokOrd(k[i+1:], pending)
	case strings.HasPrefix(k, "sys/expire/id/"):
		id := strings.TrimPrefix(k, "sys/expire/id/")
		for _, l := range w.leases {
			if l.id == id {
				return "sl:" + strconv.Itoa(l.ord)
			}
		}
		return "sl:?"
	case strings.HasPrefix(k, "sys/expire/token/"):
		parts := strings.Split(strings.TrimPrefix(k, "sys/expire/token/"), "/")
		if len(parts) == 2 && parts[1] == "" {
			return "tix:" + w.tokOrd(parts[0], pending)
		}
		if len(parts) == 2 {
			for _, l := range w.leases {
				if l.salted == parts[1] {
					return "tix:" + w.tokOrd(parts[0], nil) + ":" + strconv.Itoa(l.ord)
				}
			}
		}
		return "tix:?"
	case strings.HasPrefix(k, w.cubPfx):
		parts := strings.Split(strings.TrimPrefix(k, w.cubPfx), "/")
		if len(parts) == 2 {
			all := w.toks
			if pending != nil {
				all = append(append([]*c04Tok{}, w.toks...), pending)
			}
			for _, tk := range all {
				kind := ""
				if tk.cubID != "" && tk.cubID == parts[0] {
					kind = "c"
				} else if tk.cubSalted != "" && tk.cubSalted == parts[0] {
					kind = "s"
				}
				if kind != "" {
					if parts[1] == "" {
						return "cub:" + kind + strconv.Itoa(tk.ord)
					}
					return "cub:" + kind + strconv.Itoa(tk.ord) + ":" + strings.TrimPrefix(parts[1], "k")
				}
			}
			if pending != nil && !pending.custom && pending.cubID == "" {
				pending.cubID = parts[0]
				if parts[1] == "" {
					return "cub:c" + strconv.Itoa(pending.ord)
				}
				return "cub:c" + strconv.Itoa(pending.ord) + ":" + strings.TrimPrefix(parts[1], "k")
			}
		}
		return "cub:?"
	}
	return ""
}

func (w *c04World) canonOp(op vhOp, pending *c04Tok) string {
	k := w.canon(op.Key, pending)
	if k == "" {
		if strings.HasPrefix(op.Key, "sys/policy/") {
			return ""
		}
		return "x:" + vhKeyClass(op.Key)
	}
	s := op.Kind[:1] + ":" + k
	if op.Failed {
		s += "!"
	}
	return s
}

func (w *c04World) canonTrace(ops []vhOp, thread int, pending *c04Tok) string {
	var out []string
	for _, op := range ops {
		if op.Thread != thread {
			continue
		}
		if s := w.canonOp(op, pending); s != "" {
			out = append(out, s)
		}
	}
	if len(out) == 0 {
		return "-"
	}
	return strings.Join(out, ",")
}

// do runs f as the tagged thread 0 with recording; returns the recorded ops.
func (w *c04World) do(f func()) []vhOp {
	w.p.Tag(0)
	w.p.StartRecording()
	f()
	ops := w.p.StopRecording()
	w.p.Untag()
	return ops
}

// register reads the identifiers of a freshly created token (untagged reads).
func (w *c04World) register(tok string, parent int) *c04Tok {
	inner, err := w.c.DecodeSSCToken(tok)
	if err != nil || inner == "" {
		inner = tok
	}
	salted, _ := w.c.tokenStore.SaltID(vhRootCtx(), inner)
	raw, err := w.c.barrier.Get(vhRootCtx(), "sys/token/id/"+salted)
	if err != nil || raw == nil {
		w.t.Fatalf("register: token entry missing: %v", err)
	}
	var te logical.TokenEntry
	if err := json.Unmarshal(raw.Value, &te); err != nil {
		w.t.Fatal(err)
	}
	acc, _ := w.c.tokenStore.SaltID(vhRootCtx(), te.Accessor)
	tk := &c04Tok{ord: len(w.toks), token: tok, inner: inner, salted: salted, accessor: te.Accessor, accSalted: acc,
		cubID: te.CubbyholeID, leaseID: te.Path + "/" + salted, parent: parent, cubWritten: map[int]bool{}}
	tk.cubSalted = w.doubleSalt(salted)
	if parent >= 0 {
		tk.depth = w.toks[parent].depth + 1
		w.toks[parent].kids++
	}
	w.toks = append(w.toks, tk)
	return tk
}

// doubleSalt: the cubbyhole view's salt applied to the token store's salted id (what the router computes for
// a root-namespace token without the service prefix, and what destroyCubbyhole clears for it)
func (w *c04World) doubleSalt(salted string) string {
	return salt.SaltID(w.c.tokenStore.cubbyholeBackend.saltUUID, salted, salt.SHA1Hash)
}

// settle waits until the expiration workers have finished every lease that is marked expired.
func (w *c04World) settle() bool {
	deadline := time.Now().Add(4 * time.Second)
	for w.c.expiration.inRestoreMode() && time.Now().Before(deadline) {
		time.Sleep(time.Millisecond)
	}
	for {
		ok := true
		for _, l := range w.leases {
			raw, err := w.c.barrier.Get(vhRootCtx(), "sys/expire/id/"+l.id)
			if err != nil {
				ok = false
				continue
			}
			if raw != nil {
				le, derr := decodeLeaseEntry(raw.Value)
				if derr == nil && !le.ExpireTime.After(time.Now()) {
					ok = false
				}
			} else {
				r2, _ := w.c.barrier.Get(vhRootCtx(), "sys/expire/token/"+w.toks[l.tok].salted+"/"+l.salted)
				if r2 != nil {
					ok = false
				}
			}
		}
		// a token lease that is marked expired (the 1 ns revocation lease of the lease-less lookup branch) is
		// being finished by a worker as well
		for _, tk := range w.toks[1:] {
			if tk.leaseID == "" {
				continue
			}
			if raw, err := w.c.barrier.Get(vhRootCtx(), "sys/expire/id/"+tk.leaseID); err == nil && raw != nil {
				if le, derr := decodeLeaseEntry(raw.Value); derr == nil && !le.ExpireTime.After(time.Now()) {
					ok = false
				}
			}
		}
		if ok {
			return true
		}
		if time.Now().After(deadline) {
			return false
		}
		time.Sleep(time.Millisecond)
	}
}

type c04Item struct {
	a, b int
	s    string
}

func c04Join(items []c04Item) string {
	if len(items) == 0 {
		return "-"
	}
	sort.SliceStable(items, func(i, j int) bool {
		if items[i].a != items[j].a {
			return items[i].a < items[j].a
		}
		return items[i].b < items[j].b
	})
	ss := make([]string, len(items))
	for i, it := range items {
		ss[i] = it.s
	}
	return strings.Join(ss, ",")
}

func c04Atoi(s string) int {
	v, err := strconv.Atoi(s)
	if err != nil {
		return 1 << 30
	}
	return v
}

// digest lists the modelled stores through the barrier (ids as ordinals) and the pending-deletion map.
func (w *c04World) digest() string {
	w.clearObsKeep()
	var ids, acc, par, tl, sl, tix, cub, pend []c04Item
	now := time.Now()
	for _, k := range w.p.AllKeys() {
		if w.base[k] {
			continue
		}
		cn := w.canon(k, nil)
		if cn == "" {
			continue
		}
		f := strings.Split(cn, ":")
		switch f[0] {
		case "id":
			o := c04Atoi(f[1])
			s := f[1] + "/"
			raw, err := w.c.barrier.Get(vhRootCtx(), k)
			par0 := -2
			marked := false
			if err == nil && raw != nil {
				var te logical.TokenEntry
				if json.Unmarshal(raw.Value, &te) == nil {
					if te.Parent == "" {
						s += "-"
						par0 = -1
					} else if po := w.byInner(te.Parent); po >= 0 {
						s += strconv.Itoa(po)
						par0 = po
					} else {
						s += "?"
					}
					if te.NumUses < 0 {
						s += "*"
						marked = true
					}
				}
			}
			if o != 0 {
				ids = append(ids, c04Item{o, 0, s})
				w.lastIDs[o] = par0
				w.lastMark[o] = marked
			}
		case "acc":
			if o := c04Atoi(f[1]); o != 0 {
				acc = append(acc, c04Item{o, 0, f[1]})
			}
		case "par":
			if len(f) == 3 {
				par = append(par, c04Item{c04Atoi(f[1]), c04Atoi(f[2]), f[1] + ">" + f[2]})
			} else {
				par = append(par, c04Item{1 << 30, 0, cn})
			}
		case "partop":
			par = append(par, c04Item{1 << 30, 0, cn})
		case "tl":
			s := f[1]
			raw, err := w.c.barrier.Get(vhRootCtx(), k)
			if err == nil && raw == nil {
				continue // deleted between the listing and the read
			}
			if err == nil {
				if le, derr := decodeLeaseEntry(raw.Value); derr == nil && !le.ExpireTime.After(now) {
					s += "*"
				}
			}
			tl = append(tl, c04Item{c04Atoi(f[1]), 0, s})
		case "sl":
			o := c04Atoi(f[1])
			s := f[1] + "@"
			live := false
			if o < len(w.leases) {
				s += strconv.Itoa(w.leases[o].tok)
			} else {
				s += "?"
			}
			if raw, err := w.c.barrier.Get(vhRootCtx(), k); err == nil && raw != nil {
				if le, derr := decodeLeaseEntry(raw.Value); derr == nil {
					if !le.ExpireTime.After(now) {
						s += "*"
					} else {
						live = true
					}
				}
			}
			sl = append(sl, c04Item{o, 0, s})
			w.lastSl[o] = live
		case "tix":
			if len(f) == 3 {
				tix = append(tix, c04Item{c04Atoi(f[1]), c04Atoi(f[2]), f[1] + ":" + f[2]})
			} else {
				tix = append(tix, c04Item{1 << 30, 0, cn})
			}
		case "cub":
			if len(f) == 3 && len(f[1]) > 1 {
				o := c04Atoi(f[1][1:])
				kind := 0
				if f[1][0] == 's' {
					kind = 1000
				}
				cub = append(cub, c04Item{o, kind + c04Atoi(f[2]), f[1] + ":" + f[2]})
				w.lastCub[o]++
			} else {
				cub = append(cub, c04Item{1 << 30, 0, cn})
			}
		}
	}
	w.c.tokenStore.tokensPendingDeletion.Range(func(k, v any) bool {
		ks := k.(string)
		val := "F"
		if b, ok := v.(bool); ok && b {
			val = "T"
		}
		if o := w.bySalted(ks); o >= 0 {
			pend = append(pend, c04Item{o, 0, "s" + strconv.Itoa(o) + ":" + val})
		} else if o := w.byInner(ks); o >= 0 {
			pend = append(pend, c04Item{o, 1, "r" + strconv.Itoa(o) + ":" + val})
		} else if !w.basePnd[ks] {
			pend = append(pend, c04Item{1 << 30, 0, "?:" + val})
		}
		return true
	})
	return "ids=" + c04Join(ids) + ";acc=" + c04Join(acc) + ";par=" + c04Join(par) + ";tl=" + c04Join(tl) +
		";sl=" + c04Join(sl) + ";tix=" + c04Join(tix) + ";cub=" + c04Join(cub) + ";pend=" + c04Join(pend)
}

func (w *c04World) clearObsKeep() {
	w.lastIDs, w.lastMark, w.lastCub, w.lastSl = map[int]int{}, map[int]bool{}, map[int]int{}, map[int]bool{}
}

// probeAll asks auth/token/lookup-self with every token of the case.
func (w *c04World) probeAll() string {
	var out []string
	w.lastProbe = map[int]string{}
	for _, tk := range w.toks[1:] {
		cl := "denied"
		if tk.token != "" {
			cl, _ = vhReq(w.c, logical.ReadOperation, "auth/token/lookup-self", tk.token, nil)
		}
		w.settle()
		w.lastProbe[tk.ord] = cl
		out = append(out, strconv.Itoa(tk.ord)+":"+cl)
	}
	if len(out) == 0 {
		return "-"
	}
	return strings.Join(out, ",")
}

// observe emits the probe and state lines; the property predicate is evaluated on them.
func (w *c04World) observe() {
	w.emit(w.probeAll(), "probe")
	w.emit(w.digest(), "state")
	w.emitCheck(w.checkDead())
}

// emitCheck writes the verdict of the property's predicate on its own line, so that a `state` line is always
// compared with the model as it is
func (w *c04World) emitCheck(viol string) {
	if viol == "" {
		viol = w.pendViol
	}
	w.pendViol = ""
	if viol != "" {
		w.emit("ok!C04V:"+viol, "check") // reported per case by props/C04.py, with the whole history
	} else {
		w.emit("ok", "check")
	}
}

// descendants of t through the parent links of the id entries seen in the last digest (t included).
func (w *c04World) tree(t int) []int {
	in := map[int]bool{t: true}
	for changed := true; changed; {
		changed = false
		for o, p := range w.lastIDs {
			if !in[o] && p >= 0 && in[p] {
				in[o] = true
				changed = true
			}
		}
	}
	var out []int
	for o := range in {
		out = append(out, o)
	}
	sort.Ints(out)
	return out
}

func (w *c04World) markDead(set []int, by, sig string) {
	for _, o := range set {
		if _, ok := w.dead[o]; !ok {
			w.dead[o] = c04Dead{by: by, sig: sig}
		}
	}
}

// checkDead: the property's predicate on the real core's answers. Every token revoked by a revocation that
// reported success (and every non-orphan descendant it had) must be rejected, its entry gone or marked, its
// cubbyhole empty and every lease issued under it dead — now and after every later operation.
func (w *c04World) checkDead() string {
	var ords []int
	for o := range w.dead {
		ords = append(ords, o)
	}
	sort.Ints(ords)
	for _, o := range ords {
		d := w.dead[o]
		what := ""
		if cl := w.lastProbe[o]; cl != "denied" {
			what = "token t" + strconv.Itoa(o) + " accepted (" + cl + ")"
		} else if d.rejected {
			continue
		} else if _, ok := w.lastIDs[o]; ok && !w.lastMark[o] {
			what = "token t" + strconv.Itoa(o) + " entry still stored and not marked revoked"
		} else if w.lastCub[o] > 0 {
			what = "cubbyhole data of token t" + strconv.Itoa(o) + " still stored"
		} else {
			for _, l := range w.leases {
				if l.tok == o && w.lastSl[l.ord] {
					what = "lease l" + strconv.Itoa(l.ord) + " of token t" + strconv.Itoa(o) + " still live"
				}
			}
		}
		if what != "" {
			sig := d.sig
			if strings.HasPrefix(sig, "fault:") || strings.HasPrefix(sig, "crash-retry:") {
				// structural signature of a fault/retry failure: what state the token was left in, which op failed
				_, stored := w.lastIDs[o]
				switch {
				case stored && w.lastMark[o]:
					sig = "F37:revoke-retry-noop-on-pending-token"
				case stored && strings.HasPrefix(sig, "fault:p:id"):
					sig = "F2:revoke-retry-after-marker-write-failure"
				case stored && strings.HasPrefix(sig, "fault:g:id"):
					sig = "F36:revoke-retry-after-entry-read-failure"
				default:
					sig = "revoke-retry-leaves-token:" + sig
				}
			}
			return what + " after successful " + d.by + "#" + sig
		}
	}
	return ""
}

// ---------------------------------------------------------------------------------- operations

func (w *c04World) finishMk(cl string, resp *logical.Response, ops []vhOp, thread, r int, orphan bool) (string, uint64, int) {
	var pending *c04Tok
	newOrd := -1
	var skey uint64
	if cl == "ok" && resp != nil && resp.Auth != nil {
		par := r
		if orphan {
			par = -1
		}
		tk := w.register(resp.Auth.ClientToken, par)
		skey = c04Skey(tk.salted)
		newOrd = tk.ord
	} else {
		pending = &c04Tok{ord: len(w.toks), parent: -1}
	}
	trace := w.canonTrace(ops, thread, pending)
	if pending != nil && (pending.salted != "" || pending.accSalted != "") {
		w.toks = append(w.toks, pending)
		newOrd = pending.ord
		skey = c04Skey(pending.salted)
	}
	return trace, skey, newOrd
}

func c04Ord(o int) string {
	if o < 0 {
		return "-"
	}
	return strconv.Itoa(o)
}

func c04B(b bool) string {
	if b {
		return "1"
	}
	return "0"
}

func (w *c04World) stepMk(r int, orphan bool) int {
	path := "auth/token/create"
	if orphan {
		path = "auth/token/create-orphan"
	}
	var cl string
	var resp *logical.Response
	ops := w.do(func() {
		cl, resp = vhReq(w.c, logical.UpdateOperation, path, w.toks[r].token, map[string]any{"ttl": "1h", "policies": []string{"default", "c04"}})
	})
	trace, skey, newOrd := w.finishMk(cl, resp, ops, 0, r, orphan)
	w.settle()
	w.emit(cl+"|"+trace+"|"+c04Ord(newOrd), "mk", strconv.Itoa(r), c04B(orphan), strconv.FormatUint(skey, 10))
	return newOrd
}

func (w *c04World) stepRenew(t int) {
	var cl string
	ops := w.do(func() { cl, _ = vhReq(w.c, logical.UpdateOperation, "auth/token/renew-self", w.toks[t].token, nil) })
	w.settle()
	w.emit(cl+"|"+w.canonTrace(ops, 0, nil), "renew", strconv.Itoa(t))
}

func (w *c04World) stepCubby(t, k int) {
	var cl string
	ops := w.do(func() {
		cl, _ = vhReq(w.c, logical.UpdateOperation, "cubbyhole/k"+strconv.Itoa(k), w.toks[t].token, map[string]any{"v": "1"})
	})
	w.settle()
	if cl == "ok" && w.toks[t].cubWritten != nil {
		w.toks[t].cubWritten[k] = true
	}
	w.emit(cl+"|"+w.canonTrace(ops, 0, nil), "cubby", strconv.Itoa(t), strconv.Itoa(k))
}

// stepCubRead reads cubbyhole/k<k> with token t: data the current incarnation of the token did not write must
// not be there (a re-created token with a caller-chosen id must not see its revoked namesake's cubbyhole)
func (w *c04World) stepCubRead(t, k int) {
	var cl string
	var resp *logical.Response
	ops := w.do(func() {
		cl, resp = vhReq(w.c, logical.ReadOperation, "cubbyhole/k"+strconv.Itoa(k), w.toks[t].token, nil)
	})
	w.settle()
	seen := "-"
	if cl == "ok" {
		seen = "absent"
		if resp != nil && resp.Data != nil {
			seen = "present"
			if w.toks[t].cubWritten != nil && !w.toks[t].cubWritten[k] && w.pendViol == "" {
				w.pendViol = "token t" + strconv.Itoa(t) + " reads cubbyhole key k" + strconv.Itoa(k) +
					" that it never wrote: data of a revoked token with the same id#seq:cubbyhole-of-revoked-token-readable"
			}
		}
	}
	w.emit(cl+"|"+w.canonTrace(ops, 0, nil)+"|"+seen, "cubread", strconv.Itoa(t), strconv.Itoa(k))
}

// stepMkID: auth/token/create by r with a caller-chosen id; x is the identity's ordinal (len(w.toks) = a new id,
// else the id of an existing custom token, normally one that has been revoked)
func (w *c04World) stepMkID(r, x int) int {
	var pending *c04Tok
	var id, oldAccSalted string
	if x < len(w.toks) {
		pending = w.toks[x]
		id = pending.inner
		oldAccSalted = pending.accSalted
		if w.lastProbe[x] != "ok" { // the old accessor index went with the revocation; a new one is coming
			pending.accSalted = ""
		}
	} else {
		id = "c04id" + strconv.Itoa(w.caseNo) + "x" + strconv.Itoa(x)
		salted, _ := w.c.tokenStore.SaltID(vhRootCtx(), id)
		pending = &c04Tok{ord: x, token: id, inner: id, salted: salted, custom: true, parent: -1,
			leaseID: "auth/token/create/" + salted, cubSalted: w.doubleSalt(salted)}
	}
	var cl string
	var resp *logical.Response
	ops := w.do(func() {
		cl, resp = vhReq(w.c, logical.UpdateOperation, "auth/token/create", w.toks[r].token,
			map[string]any{"id": id, "ttl": "1h", "policies": []string{"default", "c04"}})
	})
	pending.seen = false
	trace := w.canonTrace(ops, 0, pending)
	if x == len(w.toks) && (pending.seen || cl == "ok") {
		w.toks = append(w.toks, pending)
	}
	if cl == "ok" && resp != nil && resp.Auth != nil {
		pending.token = resp.Auth.ClientToken
		pending.parent = r
		pending.depth = w.toks[r].depth + 1
		pending.cubID = ""
		if raw, err := w.c.barrier.Get(vhRootCtx(), "sys/token/id/"+pending.salted); err == nil && raw != nil {
			var te logical.TokenEntry
			if json.Unmarshal(raw.Value, &te) == nil {
				pending.cubID = te.CubbyholeID
				pending.accessor = te.Accessor
				pending.accSalted, _ = w.c.tokenStore.SaltID(vhRootCtx(), te.Accessor)
			}
		}
		pending.cubWritten = map[int]bool{}
		delete(w.dead, x) // a new incarnation of the identity
	}
	if cl != "ok" && pending.accSalted == "" {
		pending.accSalted = oldAccSalted
	}
	w.settle()
	w.emit(cl+"|"+trace, "mkid", strconv.Itoa(r), strconv.Itoa(x), strconv.FormatUint(c04Skey(pending.salted), 10))
	if cl == "ok" {
		return x
	}
	return -1
}

func (w *c04World) stepLease(t int) {
	var cl string
	var resp *logical.Response
	ops := w.do(func() { cl, resp = vhReq(w.c, logical.ReadOperation, "rec/lease/k", w.toks[t].token, nil) })
	var lkey uint64
	if cl == "ok" && resp != nil && resp.Secret != nil && resp.Secret.LeaseID != "" {
		salted, _ := w.c.tokenStore.SaltID(vhRootCtx(), resp.Secret.LeaseID)
		w.leases = append(w.leases, &c04Lease{ord: len(w.leases), id: resp.Secret.LeaseID, salted: salted, tok: t})
		lkey = c04Skey(salted)
	}
	w.settle()
	w.emit(cl+"|"+w.canonTrace(ops, 0, nil), "lease", strconv.Itoa(t), strconv.FormatUint(lkey, 10))
}

func c04HowPath(how string) string {
	switch how {
	case "tree":
		return "auth/token/revoke"
	case "self":
		return "auth/token/revoke-self"
	case "accessor":
		return "auth/token/revoke-accessor"
	case "lease":
		return "sys/leases/revoke"
	case "orphan":
		return "auth/token/revoke-orphan"
	}
	return ""
}

func (w *c04World) revokeData(how string, t int) map[string]any {
	switch how {
	case "tree", "orphan":
		return map[string]any{"token": w.toks[t].token}
	case "accessor":
		return map[string]any{"accessor": w.toks[t].accessor}
	case "lease":
		return map[string]any{"lease_id": w.toks[t].leaseID, "sync": true}
	}
	return nil
}

func (w *c04World) revokeReq(how string, r, t int) string {
	cl, _ := vhReq(w.c, logical.UpdateOperation, c04HowPath(how), w.toks[r].token, w.revokeData(how, t))
	return cl
}

// targets of a revocation for the predicate: t and its non-orphan descendants as stored before the request
func (w *c04World) targets(how string, t int) []int {
	if how == "orphan" {
		return []int{t}
	}
	return w.tree(t)
}

func (w *c04World) stepRev(how string, r, t int, sig string) string {
	set := w.targets(how, t)
	var cl string
	ops := w.do(func() { cl = w.revokeReq(how, r, t) })
	w.settle()
	w.emit(cl+"|"+w.canonTrace(ops, 0, nil), "rev", how, strconv.Itoa(r), strconv.Itoa(t))
	if cl == "ok" {
		w.markDead(set, "revoke("+how+") of t"+strconv.Itoa(t), sig)
	}
	return cl
}

// stepFrev: fail the j-th storage operation of the revocation once, then retry. Returns whether the fault fired.
func (w *c04World) stepFrev(how string, r, t, j int) bool {
	set := w.targets(how, t)
	w.p.Tag(0)
	w.p.FailNth(0, j)
	w.p.StartRecording()
	cl1 := w.revokeReq(how, r, t)
	ops1 := w.p.StopRecording()
	w.p.ClearFaults()
	w.p.Untag()
	fired := ""
	for _, op := range ops1 {
		if op.Failed {
			fired = w.canonOp(op, nil)
		}
	}
	w.settle()
	var cl2 string
	ops2 := w.do(func() { cl2 = w.revokeReq(how, r, t) })
	w.settle()
	w.emit(cl1+"|"+w.canonTrace(ops1, 0, nil)+"|"+cl2+"|"+w.canonTrace(ops2, 0, nil), "frev", how, strconv.Itoa(r), strconv.Itoa(t), strconv.Itoa(j))
	if cl2 == "ok" || cl1 == "ok" {
		sig := "fault:" + c04OpClass(fired)
		w.markDead(set, "retry of revoke("+how+") of t"+strconv.Itoa(t)+" after failed "+fired, sig)
	}
	return fired != ""
}

// c04OpClass drops the ordinals of a canonical op: g:tl:3! -> g:tl
func c04OpClass(s string) string {
	f := strings.Split(strings.TrimSuffix(s, "!"), ":")
	if len(f) >= 2 {
		return f[0] + ":" + f[1]
	}
	return s
}

// ---------------------------------------------------------------------------------- generators

type c04Shape struct {
	parent  []int   // per token (ordinal-1): creating parent ordinal (0 = root)
	orphan  []bool
	cub     [][]int // cubbyhole key numbers written with the token
	nlease  []int
	custom  []bool // created with a caller-chosen id
}

func c04RandShape(rng *vh.Rand, n int) c04Shape {
	var sh c04Shape
	depth := []int{0}
	kids := []int{0}
	for i := 1; i <= n; i++ {
		p := 0
		for try := 0; try < 8; try++ {
			p = rng.Intn(i)
			if depth[p] < 4 && (kids[p] < 3 || p == 0) {
				break
			}
			p = 0
		}
		orphan := rng.Chance(15)
		sh.parent = append(sh.parent, p)
		sh.orphan = append(sh.orphan, orphan)
		sh.custom = append(sh.custom, !orphan && rng.Chance(20))
		if orphan {
			depth = append(depth, 1)
		} else {
			depth = append(depth, depth[p]+1)
			kids[p]++
		}
		kids = append(kids, 0)
		var cub []int
		if rng.Chance(40) {
			cub = append(cub, rng.Intn(3))
			if rng.Chance(40) {
				cub = append(cub, (cub[0]+1+rng.Intn(2))%3)
			}
		}
		sh.cub = append(sh.cub, cub)
		nl := 0
		if rng.Chance(35) {
			nl = 1 + rng.Intn(2)
		}
		sh.nlease = append(sh.nlease, nl)
	}
	return sh
}

func (w *c04World) build(sh c04Shape) {
	for i := range sh.parent {
		var o int
		if i < len(sh.custom) && sh.custom[i] && !sh.orphan[i] {
			o = w.stepMkID(sh.parent[i], len(w.toks))
		} else {
			o = w.stepMk(sh.parent[i], sh.orphan[i])
		}
		if o < 0 {
			w.t.Fatalf("build: create failed")
		}
		for _, k := range sh.cub[i] {
			w.stepCubby(o, k)
		}
		for l := 0; l < sh.nlease[i]; l++ {
			w.stepLease(o)
		}
	}
}

func c04Hows() []string { return []string{"tree", "self", "accessor", "lease", "orphan"} }

func TestVerifC04Seq(t *testing.T) {
	out := vh.Open()
	defer out.Close()
	rng := vh.NewRand(vh.Seed())
	nCases := vh.EnvInt("VERIF_C04_SEQ", 50)
	if vh.Thorough() {
		nCases = vh.EnvInt("VERIF_C04_SEQ", 600)
	}
	c04NsCases(t, out)
	c04NsCases2(t, out)
	w := c04NewWorld(t, out)
	for ci := 0; ci < nCases; ci++ {
		cr := rng.Fork(uint64(ci))
		if ci > 0 {
			if ci%25 == 0 {
				w = c04NewWorld(t, out) // bound the leftovers a reused core accumulates
			} else {
				w.newCase()
			}
		}
		w.build(c04RandShape(cr, 2+cr.Intn(6)))
		w.observe()
		nOps := 5 + cr.Intn(26)
		for i := 0; i < nOps; i++ {
			n := len(w.toks)
			var live []int
			for o := 1; o < n; o++ {
				if w.lastProbe[o] == "ok" {
					live = append(live, o)
				}
			}
			pick := func(allowRoot bool) int {
				// mostly a live token, sometimes any token (revoked ones included)
				if len(live) > 0 && !cr.Chance(12) {
					return live[cr.Intn(len(live))]
				}
				if allowRoot && (n == 1 || cr.Chance(50)) {
					return 0
				}
				if n == 1 {
					return 0
				}
				return 1 + cr.Intn(n-1)
			}
			requester := func() int {
				if cr.Chance(50) {
					return 0
				}
				return pick(true)
			}
			switch x := cr.Intn(100); {
			case x < 22:
				// dead identities with a caller-chosen id: re-create one of them sometimes
				var deadCustom []int
				for o := 1; o < n; o++ {
					if w.toks[o].custom && w.lastProbe[o] != "ok" {
						deadCustom = append(deadCustom, o)
					}
				}
				switch {
				case len(deadCustom) > 0 && cr.Chance(50):
					r := 0
					if cr.Chance(30) {
						r = pick(true)
					}
					id := deadCustom[cr.Intn(len(deadCustom))]
					if w.stepMkID(r, id) >= 0 {
						// the new incarnation must not see anything of the revoked one
						for k := 0; k < 3; k++ {
							w.stepCubRead(id, k)
						}
					}
				case n < 14 && cr.Chance(30):
					r := 0
					if cr.Chance(30) {
						r = pick(true)
					}
					if cr.Chance(8) && n > 1 && len(live) > 0 {
						// an id that is in use: refused
						for _, o := range live {
							if w.toks[o].custom {
								w.stepMkID(r, o)
								break
							}
						}
					} else {
						w.stepMkID(r, n)
					}
				case n < 14:
					w.stepMk(pick(true), cr.Chance(15))
				default:
					w.stepRenew(pick(false))
				}
			case x < 30:
				if tk := pick(false); tk > 0 {
					w.stepRenew(tk)
				}
			case x < 40:
				if tk := pick(false); tk > 0 {
					w.stepCubby(tk, cr.Intn(3))
				}
			case x < 50:
				if tk := pick(false); tk > 0 && len(w.leases) < 10 {
					w.stepLease(tk)
				}
			default:
				tk := pick(false)
				if tk == 0 {
					continue
				}
				how := c04Hows()[cr.Intn(5)]
				r := requester()
				if how == "self" {
					r = tk
				}
				w.stepRev(how, r, tk, "seq:revoked-token-not-dead")
			}
			w.observe()
		}
	}
}

// c04FaultShapes: small trees with a cubbyhole and leases somewhere; target = token 1 unless stated.
func c04FaultCase(rng *vh.Rand) (c04Shape, string, int, int) {
	n := 1 + rng.Intn(4)
	sh := c04RandShape(rng, n)
	// make it one tree under token 1 mostly
	for i := 1; i < n; i++ {
		if sh.parent[i] == 0 && rng.Chance(80) {
			sh.parent[i] = 1 + rng.Intn(i)
		}
	}
	sh.parent[0] = 0
	sh.orphan[0] = rng.Chance(20)
	how := c04Hows()[rng.Intn(5)]
	target := 1
	if rng.Chance(25) {
		target = 1 + rng.Intn(n)
	}
	r := 0
	if how == "self" {
		r = target
	} else if rng.Chance(25) && n > 1 {
		r = 1 + rng.Intn(n)
	}
	return sh, how, r, target
}

// c04NsCases: revocation ACROSS namespaces (predicate level; the trace model covers the root namespace). A token of the
// root namespace whose policy reaches into child namespace c04ns/ obtains a leased secret THERE; the token is then
// revoked in every way (revoke, revoke-self, revoke by accessor, tree revocation of its parent, revoke-orphan sent
// through the child namespace's token mount): afterwards the token must be rejected and its lease revoked at the
// backend of the child namespace. Op line: nscase <how> => <class>|<dead|alive>|leases:<issued>/<revoked>
func c04NsCases(t *testing.T, out *vh.Out) {
	for _, how := range []string{"revoke", "self", "accessor", "tree", "orphan-via-child"} {
		p := vhNewPhys(t)
		var rec *vhRecBackend
		c, _, root := vhNewCore(t, p, &rec, nil)
		if cl, _ := vhReq(c, logical.UpdateOperation, "sys/namespaces/c04ns", root, nil); cl != "ok" {
			t.Fatalf("namespace: %s", cl)
		}
		if cl, _ := vhReq(c, logical.UpdateOperation, "c04ns/sys/mounts/rec", root, map[string]any{"type": "vhrec"}); cl != "ok" {
			t.Fatalf("ns mount: %s", cl)
		}
		if cl, _ := vhReq(c, logical.UpdateOperation, "sys/policy/c04reach", root, map[string]any{"policy": `
path "c04ns/rec/*" { capabilities = ["read"] }
path "auth/token/*" { capabilities = ["create", "update", "read"] }`}); cl != "ok" {
			t.Fatalf("policy: %s", cl)
		}
		par := vhCreateToken(t, c, root, map[string]any{"ttl": "1h", "policies": []string{"c04reach"}})
		cl, resp := vhReq(c, logical.UpdateOperation, "auth/token/create", par, map[string]any{"ttl": "30m", "policies": []string{"c04reach"}})
		if cl != "ok" || resp == nil || resp.Auth == nil {
			t.Fatalf("child token: %s", cl)
		}
		tok, acc := resp.Auth.ClientToken, resp.Auth.Accessor
		if cl, _ := vhReq(c, logical.ReadOperation, "c04ns/rec/lease/a", tok, nil); cl != "ok" {
			t.Fatalf("lease in child namespace: %s", cl)
		}
		out.Reset()
		var rcl string
		switch how {
		case "revoke":
			rcl, _ = vhReq(c, logical.UpdateOperation, "auth/token/revoke", root, map[string]any{"token": tok})
		case "self":
			rcl, _ = vhReq(c, logical.UpdateOperation, "auth/token/revoke-self", tok, nil)
		case "accessor":
			rcl, _ = vhReq(c, logical.UpdateOperation, "auth/token/revoke-accessor", root, map[string]any{"accessor": acc})
		case "tree":
			rcl, _ = vhReq(c, logical.UpdateOperation, "auth/token/revoke", root, map[string]any{"token": par})
		case "orphan-via-child":
			rcl, _ = vhReq(c, logical.UpdateOperation, "c04ns/auth/token/revoke-orphan", root, map[string]any{"token": tok})
		}
		state := "alive"
		issued, revoked := 0, 0
		for i := 0; i < 400; i++ {
			lcl, _ := vhReq(c, logical.ReadOperation, "auth/token/lookup-self", tok, nil)
			_, is, rv := rec.Snapshot()
			issued, revoked = len(is), len(rv)
			if lcl != "ok" {
				state = "dead"
				if revoked >= issued {
					break
				}
			}
			time.Sleep(5 * time.Millisecond)
		}
		viol := ""
		switch {
		case rcl == "ok" && state != "dead":
			viol = "!C04V:revocation (" + how + ") of a root-namespace token reported success but the token is still valid#ns:revoked-token-alive"
		case state == "dead" && revoked < issued:
			viol = "!C04V:the token was revoked (" + how + ") but the lease it obtained in a child namespace is still live at its backend#ns:lease-in-child-namespace-survives"
		}
		out.Op(fmt.Sprintf("%s|%s|leases:%d/%d%s", rcl, state, issued, revoked, viol), "nscase", how)
		_ = c.Shutdown()
	}
}

// c04NsCases2: two more cross-namespace cases. cubby: a root-namespace token writes into ITS cubbyhole through the
// cubbyhole mount of a child namespace (the router serves it there under the token's CubbyholeID); after the revocation
// nothing of it may be left in either mount. tidy: a parent token P of the root namespace with a non-orphaned child C
// created through c04ns/auth/token/create; auth/token/tidy runs in the root namespace; revoking P must still take C down.
func c04NsCases2(t *testing.T, out *vh.Out) {
	{
		p := vhNewPhys(t)
		c, _, root := vhNewCore(t, p, nil, nil)
		if cl, _ := vhReq(c, logical.UpdateOperation, "sys/namespaces/c04ns", root, nil); cl != "ok" {
			t.Fatalf("namespace: %s", cl)
		}
		if cl, _ := vhReq(c, logical.UpdateOperation, "sys/policy/c04cub", root, map[string]any{"policy": `
path "c04ns/cubbyhole/*" { capabilities = ["create", "update", "read", "list"] }
path "cubbyhole/*" { capabilities = ["create", "update", "read", "list"] }`}); cl != "ok" {
			t.Fatalf("policy: %s", cl)
		}
		tok := vhCreateToken(t, c, root, map[string]any{"ttl": "1h", "policies": []string{"c04cub"}})
		w1, _ := vhReq(c, logical.UpdateOperation, "cubbyhole/a", tok, map[string]any{"v": "root-ns"})
		w2, _ := vhReq(c, logical.UpdateOperation, "c04ns/cubbyhole/b", tok, map[string]any{"v": "child-ns"})
		if w1 != "ok" || w2 != "ok" {
			t.Fatalf("cubbyhole writes: %s %s", w1, w2)
		}
		nsEntry, err := c.namespaceStore.GetNamespaceByPath(vhRootCtx(), "c04ns/")
		if err != nil || nsEntry == nil {
			t.Fatalf("namespace lookup: %v", err)
		}
		count := func(ns *namespace.Namespace) int {
			ctx := namespace.ContextWithNamespace(context.Background(), ns)
			view, ok := c.router.MatchingStorageByAPIPath(ctx, routing.MountPathCubbyhole).(barrier.View)
			if !ok {
				return -1
			}
			keys, err := logical.CollectKeys(ctx, view)
			if err != nil {
				return -1
			}
			return len(keys)
		}
		out.Reset()
		rcl, _ := vhReq(c, logical.UpdateOperation, "auth/token/revoke", root, map[string]any{"token": tok})
		state := "alive"
		for i := 0; i < 400; i++ {
			if lcl, _ := vhReq(c, logical.ReadOperation, "auth/token/lookup-self", tok, nil); lcl != "ok" {
				state = "dead"
				break
			}
			time.Sleep(5 * time.Millisecond)
		}
		nr, nc := count(namespace.RootNamespace), count(nsEntry)
		viol := ""
		if state == "dead" && (nr != 0 || nc != 0) {
			viol = fmt.Sprintf("!C04V:the token was revoked but cubbyhole data it wrote is still stored (root mount: %d keys, child namespace mount: %d keys)#ns:cubbyhole-in-child-namespace-survives", nr, nc)
		}
		out.Op(fmt.Sprintf("%s|%s|cubby:%d/%d%s", rcl, state, nr, nc, viol), "nscase", "cubby-in-child")
		_ = c.Shutdown()
	}
	{
		p := vhNewPhys(t)
		c, _, root := vhNewCore(t, p, nil, nil)
		if cl, _ := vhReq(c, logical.UpdateOperation, "sys/namespaces/c04ns", root, nil); cl != "ok" {
			t.Fatalf("namespace: %s", cl)
		}
		par := vhCreateToken(t, c, root, map[string]any{"ttl": "2h", "policies": []string{"root"}})
		cl, resp := vhReq(c, logical.UpdateOperation, "c04ns/auth/token/create", par, map[string]any{"ttl": "1h", "policies": []string{"default"}})
		if cl != "ok" || resp == nil || resp.Auth == nil || resp.Auth.Orphan {
			t.Fatalf("child in namespace: %s", cl)
		}
		child := resp.Auth.ClientToken
		out.Reset()
		tcl, _ := vhReq(c, logical.UpdateOperation, "auth/token/tidy", root, nil)
		time.Sleep(100 * time.Millisecond)
		c.tokenStore.tidyLock.Lock()
		c.tokenStore.tidyLock.Unlock() //nolint:staticcheck
		rcl, _ := vhReq(c, logical.UpdateOperation, "auth/token/revoke", root, map[string]any{"token": par})
		state := "alive"
		for i := 0; i < 400; i++ {
			if lcl, _ := vhReq(c, logical.ReadOperation, "c04ns/auth/token/lookup-self", child, nil); lcl != "ok" {
				state = "dead"
				break
			}
			time.Sleep(5 * time.Millisecond)
		}
		viol := ""
		if rcl == "ok" && state != "dead" {
			viol = "!C04V:the parent token was revoked (tree) after auth/token/tidy ran, but its non-orphaned child in a child namespace is still accepted#ns:tidy-dropped-cross-namespace-parent-index"
		}
		out.Op(fmt.Sprintf("%s|%s|child:%s%s", tcl, rcl, state, viol), "nscase", "tidy-child")
		_ = c.Shutdown()
	}
	{
		// tidy-sealed-ancestor: a root-namespace token has a non-orphaned child in c04s/in/ (c04s/ has a seal of its
		// own); c04s/ is sealed — the namespaces below it leave the namespace store —, auth/token/tidy runs in the root
		// namespace, c04s/ is unsealed, the parent is revoked: the cascade must still reach the child
		p := vhNewPhys(t)
		c, _, root := vhNewCore(t, p, nil, nil)
		ns1 := &namespace.Namespace{Path: "c04s/"}
		ns2 := &namespace.Namespace{Path: "c04s/in/"}
		keys := TestCoreCreateUnsealedNamespaces(t, c, ns1)
		TestCoreCreateNamespaces(t, c, ns2)
		par := vhCreateToken(t, c, root, map[string]any{"ttl": "2h", "policies": []string{"root"}})
		cl, resp := vhReq(c, logical.UpdateOperation, "c04s/in/auth/token/create", par, map[string]any{"ttl": "1h", "policies": []string{"default"}})
		if cl != "ok" || resp == nil || resp.Auth == nil || resp.Auth.Orphan {
			t.Fatalf("child below a sealable namespace: %s", cl)
		}
		child := resp.Auth.ClientToken
		out.Reset()
		if err := c.namespaceStore.SealNamespace(vhRootCtx(), "c04s/"); err != nil {
			t.Fatalf("seal: %v", err)
		}
		tcl, _ := vhReq(c, logical.UpdateOperation, "auth/token/tidy", root, nil)
		time.Sleep(100 * time.Millisecond)
		c.tokenStore.tidyLock.Lock()
		c.tokenStore.tidyLock.Unlock() //nolint:staticcheck
		unsealed := false
		for _, key := range keys["c04s/"] {
			u, err := TestNamespaceUnseal(c, ns1, key)
			if err != nil {
				t.Fatalf("unseal: %v", err)
			}
			if u {
				unsealed = true
				break
			}
		}
		before := "alive"
		if lcl, _ := vhReq(c, logical.ReadOperation, "c04s/in/auth/token/lookup-self", child, nil); lcl != "ok" || !unsealed {
			before = "lost:" + lcl
		}
		rcl, _ := vhReq(c, logical.UpdateOperation, "auth/token/revoke", root, map[string]any{"token": par})
		state := "alive"
		for i := 0; i < 400; i++ {
			if lcl, _ := vhReq(c, logical.ReadOperation, "c04s/in/auth/token/lookup-self", child, nil); lcl != "ok" {
				state = "dead"
				break
			}
			time.Sleep(5 * time.Millisecond)
		}
		viol := ""
		if rcl == "ok" && before == "alive" && state != "dead" {
			viol = "!C04V:the parent token was revoked (tree) after auth/token/tidy ran while an ancestor namespace of its child was sealed; the non-orphaned child (alive again after the unseal) is still accepted#ns:tidy-dropped-parent-index-below-sealed-namespace"
		}
		out.Op(fmt.Sprintf("%s|%s|%s|child:%s%s", tcl, before, rcl, state, viol), "nscase", "tidy-sealed-ancestor")
		_ = c.Shutdown()
	}
}

func TestVerifC04Fault(t *testing.T) {
	out := vh.Open()
	defer out.Close()
	rng := vh.NewRand(vh.Seed() ^ 0xfa17)
	nCases := vh.EnvInt("VERIF_C04_FAULT", 20)
	if vh.Thorough() {
		nCases = vh.EnvInt("VERIF_C04_FAULT", 200)
	}
	w := c04NewWorld(t, out)
	first := true
	for ci := 0; ci < nCases; ci++ {
		cr := rng.Fork(uint64(ci))
		var sh c04Shape
		var how string
		var r, target int
		if ci == 0 {
			// the F2 witness shape: parent with one child holding cubbyhole data and a lease, tree revocation by root
			sh = c04Shape{parent: []int{0, 1}, orphan: []bool{false, false}, cub: [][]int{nil, {0}}, nlease: []int{0, 1}}
			how, r, target = "tree", 0, 1
		} else {
			sh, how, r, target = c04FaultCase(cr)
		}
		for j := 0; j < 400; j++ {
			if !first {
				w.newCase()
			}
			first = false
			w.build(sh)
			w.observe()
			fired := w.stepFrev(how, r, target, j)
			w.observe()
			if !fired {
				break
			}
		}
	}
}

// ---------------------------------------------------------------------------------- crash

func c04Advance(s *vhSched, i int) string {
	for try := 0; try < 100; try++ {
		if st := s.Advance(i); st != "blocked" {
			return st
		}
	}
	return "blocked"
}

func TestVerifC04Crash(t *testing.T) {
	out := vh.Open()
	defer out.Close()
	rng := vh.NewRand(vh.Seed() ^ 0xc4a5)
	nCases := vh.EnvInt("VERIF_C04_CRASH", 8)
	maxRestarts := vh.EnvInt("VERIF_C04_RESTARTS", 160)
	if vh.Thorough() {
		nCases = vh.EnvInt("VERIF_C04_CRASH", 60)
		maxRestarts = vh.EnvInt("VERIF_C04_RESTARTS", 3000)
	}
	restarts := 0
	for ci := 0; ci < nCases && restarts < maxRestarts; ci++ {
		cr := rng.Fork(uint64(ci))
		w := c04NewWorld(t, out)
		sh, how, r, target := c04FaultCase(cr)
		if ci == 0 {
			sh = c04Shape{parent: []int{0, 1, 1}, orphan: []bool{false, false, false}, cub: [][]int{{0}, {0, 1}, nil}, nlease: []int{0, 1, 0}}
			how, r, target = "tree", 0, 1
		}
		w.build(sh)
		w.observe()
		setup := append([][2]string{}, w.lines...)
		set := w.targets(how, target)
		// one gated run of the revocation; a snapshot of the store after every write
		s := vhNewSched(w.p, 1)
		data := w.revokeData(how, target)
		s.Go(0, func() string {
			cl, _ := vhReq(w.c, logical.UpdateOperation, c04HowPath(how), w.toks[r].token, data)
			return cl
		})
		var released []vhOp
		type snapT struct {
			phys   *vhPhys
			prefix int
		}
		var snaps []snapT
		for {
			st := c04Advance(s, 0)
			if st == "blocked" {
				t.Fatalf("crash run stuck")
			}
			if n := len(released); n == 0 {
				if len(snaps) == 0 {
					snaps = append(snaps, snapT{w.p.Snapshot(t), 0})
				}
			} else if last := released[n-1]; (last.Kind == "put" || last.Kind == "delete") && c04Rel(last.Key) && snaps[len(snaps)-1].prefix != n {
				w.settle()
				snaps = append(snaps, snapT{w.p.Snapshot(t), n})
			}
			if st == "done" {
				break
			}
			released = append(released, *s.Parked(0))
			s.Release(0)
		}
		s.Drain(10)
		cl := s.Result(0)
		for k := range snaps {
			if restarts >= maxRestarts {
				break
			}
			if !vh.Thorough() && ci > 0 && k%3 != ci%3 && k != len(snaps)-1 {
				continue // quick tier: every prefix for the first case, a third of them for the others
			}
			restarts++
			var rec2 *vhRecBackend
			c2, err := vhRestartCore(t, snaps[k].phys, w.keys, &rec2, nil)
			if err != nil {
				t.Fatalf("restart from prefix %d: %v", k, err)
			}
			w2 := &c04World{t: t, p: snaps[k].phys, c: c2, keys: w.keys, root: w.root, out: out, cubPfx: w.cubPfx,
				toks: w.toks, leases: w.leases, base: w.base, basePnd: map[string]bool{}, dead: map[int]c04Dead{}}
			w2.clearObs()
			out.Reset()
			for _, l := range setup {
				out.Op(l[1], strings.Split(l[0], "\t")...)
			}
			w2.settle()
			w2.emit(w2.canonTrace(released[:snaps[k].prefix], 0, nil), "crash", how, strconv.Itoa(r), strconv.Itoa(target), strconv.Itoa(k))
			if k == len(snaps)-1 && cl == "ok" {
				w2.markDead(set, "revoke("+how+") of t"+strconv.Itoa(target)+", then restart", "crash:revoked-token-not-dead-after-restart")
			}
			// tokens whose revocation marker was durable before the crash must be rejected after the restart
			w2.emit(w2.probeAll(), "probe")
			dg := w2.digest()
			var marked []int
			for o, m := range w2.lastMark {
				if m {
					marked = append(marked, o)
					if _, ok := w2.dead[o]; !ok {
						w2.dead[o] = c04Dead{by: "marker write before the crash at write " + strconv.Itoa(k), sig: "crash:marked-token-accepted", rejected: true}
					}
				}
			}
			w2.emit(dg, "state")
			w2.emitCheck(w2.checkDead())
			for _, o := range marked { // the retry below must do the full job for them too
				delete(w2.dead, o)
			}
			w2.stepRevSet(how, r, target, set, "crash-retry:"+how)
			w2.observe()
			_ = c2.Shutdown()
		}
	}
}

// stepRevSet: like stepRev with the target set computed earlier (before the crash)
func (w *c04World) stepRevSet(how string, r, t int, set []int, sig string) {
	var cl string
	ops := w.do(func() { cl = w.revokeReq(how, r, t) })
	w.settle()
	w.emit(cl+"|"+w.canonTrace(ops, 0, nil), "rev", how, strconv.Itoa(r), strconv.Itoa(t))
	if cl == "ok" {
		w.markDead(set, "revoke("+how+") of t"+strconv.Itoa(t)+" retried after the restart", sig)
	}
}

// ---------------------------------------------------------------------------------- race

// c04RaceSig classifies a surviving child structurally from the observed schedule (events "A:<op>" / "B:<op>").
// F3 (known) is: the revocation never saw the child's parent-index entry — it was written after the revocation's
// last pass over the parent — or it visited the child before the child's entry existed. If instead the index
// entry was written while the revocation, having listed the parent's children, was still tearing down another
// descendant of that parent (so its return to the parent had to find it), the survivor is a different defect.
func c04RaceSig(evs []string, par, child int) string {
	ps, cs := strconv.Itoa(par), strconv.Itoa(child)
	tPar, firstList, mark := -1, -1, -1
	visited := false
	for i, e := range evs {
		switch {
		case e == "B:p:par:"+ps+":"+cs:
			tPar = i
		case e == "A:l:par:"+ps && firstList < 0:
			firstList = i
		case e == "A:p:id:"+ps:
			mark = i
		case e == "A:g:id:"+cs:
			visited = true
		}
	}
	if visited || tPar < 0 || mark < 0 || firstList < 0 {
		return "F3:child-created-during-parent-revocation-survives"
	}
	// the revocation's last operation on another token before it turned to the parent itself
	wEnd := -1
	for i := mark - 1; i >= 0; i-- {
		if !strings.HasPrefix(evs[i], "A:") {
			continue
		}
		if evs[i] == "A:g:id:"+ps || evs[i] == "A:l:par:"+ps {
			continue
		}
		wEnd = i
		break
	}
	if firstList < tPar && tPar < wEnd {
		return "race:child-indexed-during-descendant-teardown-survives"
	}
	return "F3:child-created-during-parent-revocation-survives"
}

// c04Sched decides which thread runs next: directed plans first, then seeded random choices.
type c04Plan struct {
	name string
	// next returns 0 (A), 1 (B) given what each thread is parked at ("" = finished)
	next func(a, b string, step int) int
}

func TestVerifC04Race(t *testing.T) {
	out := vh.Open()
	defer out.Close()
	rng := vh.NewRand(vh.Seed() ^ 0x4ace)
	nRandom := vh.EnvInt("VERIF_C04_RACE", 120)
	if vh.Thorough() {
		nRandom = vh.EnvInt("VERIF_C04_RACE", 2000)
	}
	w := c04NewWorld(t, out)
	teardown := false
	isParPut := func(s string) bool { return strings.HasPrefix(s, "p:par:") }
	isIDPut := func(s string) bool { return strings.HasPrefix(s, "p:id:") }
	plans := []c04Plan{
		// F3 as probed in round 0: the creator is parked before its parent-index write, the revocation runs to the end
		{"child-before-parent-index", func(a, b string, _ int) int {
			if b != "" && !isParPut(b) {
				return 1
			}
			if a != "" {
				return 0
			}
			return 1
		}},
		// the creator has written the parent index but not its entry while the tree is revoked
		{"child-between-index-and-entry", func(a, b string, _ int) int {
			if b != "" && !isIDPut(b) {
				return 1
			}
			if a != "" {
				return 0
			}
			return 1
		}},
		// the revocation completes before the creator starts
		{"revoke-first", func(a, b string, _ int) int {
			if a != "" {
				return 0
			}
			return 1
		}},
		// the creation completes first
		{"create-first", func(a, b string, _ int) int {
			if b != "" {
				return 1
			}
			return 0
		}},
		// the parent has an existing child: the revocation is parked at that child's marker write (it has listed
		// the parent's children and is tearing one down), the whole creation runs, the revocation continues.
		// The second listing of the parent must find the new child and revoke it.
		{"create-during-sibling-teardown", func(a, b string, _ int) int {
			if !teardown && a != "" && !strings.HasPrefix(a, "p:id:") {
				return 0
			}
			teardown = true
			if b != "" {
				return 1
			}
			return 0
		}},
	}
	total := len(plans) + nRandom
	for ci := 0; ci < total; ci++ {
		cr := rng.Fork(uint64(ci))
		if ci > 0 {
			w.newCase()
		}
		// forest: g (1) -> p (2) [-> sibling child (3) sometimes]; revoke g or p; create under p
		sh := c04Shape{parent: []int{0, 1}, orphan: []bool{false, false}, cub: [][]int{nil, nil}, nlease: []int{0, 0}}
		if cr.Chance(40) || (ci < len(plans) && plans[ci].name == "create-during-sibling-teardown") {
			sh.parent = append(sh.parent, 2)
			sh.orphan = append(sh.orphan, false)
			sh.cub = append(sh.cub, nil)
			sh.nlease = append(sh.nlease, 0)
		}
		if cr.Chance(30) {
			sh.cub[1] = []int{0}
		}
		target := 2
		if cr.Chance(35) {
			target = 1
		}
		how := []string{"tree", "tree", "accessor", "lease"}[cr.Intn(4)]
		w.build(sh)
		w.observe()
		set := w.targets(how, target)
		par := 2
		s := vhNewSched(w.p, 2)
		data := w.revokeData(how, target)
		rootTok, parTok := w.root, w.toks[par].token
		s.Go(0, func() string {
			cl, _ := vhReq(w.c, logical.UpdateOperation, c04HowPath(how), rootTok, data)
			return cl
		})
		var bresp *logical.Response
		s.Go(1, func() string {
			cl, resp := vhReq(w.c, logical.UpdateOperation, "auth/token/create", parTok, map[string]any{"ttl": "1h", "policies": []string{"default", "c04"}})
			bresp = resp
			return cl
		})
		var events []vhOp
		var letters []byte
		pending := &c04Tok{ord: len(w.toks), parent: -1}
		// park(i): run thread i to its next modelled storage op (policy reads are released silently);
		// "" = finished, "blocked" = waiting on a lock
		park := func(i int) string {
			for {
				st := c04Advance(s, i)
				if st == "done" {
					return ""
				}
				if st == "blocked" {
					return "blocked"
				}
				if c := w.canonOp(*s.Parked(i), pending); c != "" {
					return c
				}
				s.Release(i)
			}
		}
		for step := 0; step < 1000; step++ {
			a, b := park(0), park(1)
			if a == "" && b == "" {
				break
			}
			var i int
			if ci < len(plans) {
				i = plans[ci].next(a, b, step)
			} else {
				i = cr.Intn(2)
			}
			if (i == 0 && a == "") || (i == 1 && b == "") {
				i = 1 - i
			}
			cur := a
			if i == 1 {
				cur = b
			}
			if cur == "blocked" {
				letters = append(letters, "ab"[i])
				if len(letters) > 200 {
					break
				}
				continue
			}
			op := *s.Parked(i)
			op.Thread = i
			s.Release(i)
			events = append(events, op)
			letters = append(letters, "AB"[i])
		}
		s.Drain(2000)
		clA, clB := s.Result(0), s.Result(1)
		// the child: first-occurrence ordinal; its client token is known when the creation reported success
		var evs []string
		child := -1
		var skey uint64
		if clB == "ok" && bresp != nil && bresp.Auth != nil {
			pending.token = bresp.Auth.ClientToken
			pending.inner, _ = w.c.DecodeSSCToken(pending.token)
			pending.salted, _ = w.c.tokenStore.SaltID(vhRootCtx(), pending.inner)
			pending.accessor = bresp.Auth.Accessor
			pending.accSalted, _ = w.c.tokenStore.SaltID(vhRootCtx(), pending.accessor)
			pending.leaseID = "auth/token/create/" + pending.salted
			pending.parent = par
			if raw, err := w.c.barrier.Get(vhRootCtx(), "sys/token/id/"+pending.salted); err == nil && raw != nil && pending.cubID == "" {
				var te logical.TokenEntry
				if json.Unmarshal(raw.Value, &te) == nil {
					pending.cubID = te.CubbyholeID
				}
			}
		}
		for _, op := range events {
			evs = append(evs, string("AB"[op.Thread])+":"+w.canonOp(op, pending))
		}
		if pending.salted != "" || pending.accSalted != "" {
			w.toks = append(w.toks, pending)
			child, skey = pending.ord, c04Skey(pending.salted)
		}
		w.settle()
		ev := "-"
		if len(evs) > 0 {
			ev = strings.Join(evs, ",")
		}
		w.emit(ev+"|A="+clA+"|B="+clB+"|"+c04Ord(child), "race", how, "0", strconv.Itoa(target), strconv.Itoa(par), "0",
			strconv.FormatUint(skey, 10), string(letters))
		if clA == "ok" {
			w.markDead(set, "revoke("+how+") of t"+strconv.Itoa(target)+" racing a child creation", "race:revoked-token-not-dead")
		}
		w.emit(w.probeAll(), "probe")
		d := w.digest()
		viol := w.checkDead()
		if viol == "" && clA == "ok" && child >= 0 {
			// a child that exists and is not an orphan must be rejected
			if p, ok := w.lastIDs[child]; ok && p >= 0 && !w.lastMark[child] && w.lastProbe[child] == "ok" {
				viol = "child t" + strconv.Itoa(child) + " created under t" + strconv.Itoa(par) + " during the revocation of t" + strconv.Itoa(target) +
					" is accepted and not an orphan after the revocation succeeded#" + c04RaceSig(evs, par, child)
			}
		}
		w.emit(d, "state")
		w.emitCheck(viol)
		// a later explicit revocation of the survivor must work (or not: observed, compared with the model)
		if child >= 0 && clB == "ok" {
			w.stepRev("tree", 0, child, "race:survivor-not-revocable")
			w.observe()
		}
	}
}
