//go:build verif

package vault

// White-box correspondence harness for C12, stream "confine": a REAL core (shared helper: recording physical
// layer, cache disabled) with namespaces created through sys/namespaces (one of them with its own shamir seal),
// the same backend type mounted at the same path in several namespaces plus nested paths, tokens of every
// namespace (policy tokens and root-policy tokens), and generated requests: namespace header / context / path
// combinations, traversal attempts in the request path (cores built with UnsafeRelativePaths let them reach the
// storage view) and in a backend-interpreted parameter (`skey` is used verbatim as a storage key), cubbyhole
// reads/writes with every token, requests into a sealed namespace.
// Compared with the model: outcome class and the exact mount-storage keys touched (mount ordinals, token ordinals).
// Evaluated directly (marker !VIOL): every physical key the requesting goroutine touched is in the target
// mount's barrier-view prefix (no '.'/'..' segment below it) or in a system area of the token's / request's namespace.
// All identifiers are prefixed c12; nothing is written into /repo.

import (
	"encoding/hex"
	"encoding/base64"
	"context"
	"fmt"
	"os"
	"sort"
	"strconv"
	"strings"
	"testing"
	"time"

	"github.com/openbao/openbao/sdk/v2/framework"
	"github.com/openbao/openbao/sdk/v2/logical"
	"github.com/openbao/openbao/v2/internal/helper/namespace"
	"github.com/openbao/openbao/v2/internal/helper/pgpkeys"
	"github.com/openbao/openbao/v2/internal/vault/routing"
	"github.com/openbao/openbao/v2/internal/zzverif/vh"
)

// c12RecFactory: secrets backend whose storage key comes verbatim from the request data field `skey`. With `own` set the
// backend goes through the storage view it was handed at set-up (conf.StorageView) instead of req.Storage — as the
// builtin ssh, pki and database backends do for their salt, tidy and rotation state: the property speaks of what "a
// request handled by a mounted backend" can touch, whichever handle the backend uses.
func c12RecFactory(ctx context.Context, conf *logical.BackendConfig) (logical.Backend, error) {
	b := &framework.Backend{BackendType: logical.TypeLogical}
	kept := conf.StorageView
	pick := func(req *logical.Request, d *framework.FieldData) logical.Storage {
		if own, _ := d.Get("own").(bool); own && kept != nil {
			return kept
		}
		return req.Storage
	}
	b.Paths = []*framework.Path{{
		// "raw/<anything>" and the mount root itself (empty relative path)
		Pattern: "(raw/" + framework.MatchAllRegex("rest") + ")?",
		Fields: map[string]*framework.FieldSchema{
			"rest": {Type: framework.TypeString}, "skey": {Type: framework.TypeString}, "value": {Type: framework.TypeString},
			"own": {Type: framework.TypeBool},
		},
		Callbacks: map[logical.Operation]framework.OperationFunc{
			logical.ReadOperation: func(ctx context.Context, req *logical.Request, d *framework.FieldData) (*logical.Response, error) {
				e, err := pick(req, d).Get(ctx, d.Get("skey").(string))
				if err != nil {
					return nil, err
				}
				if e == nil {
					return &logical.Response{Data: map[string]any{"found": false}}, nil
				}
				return &logical.Response{Data: map[string]any{"found": true, "value": string(e.Value)}}, nil
			},
			logical.UpdateOperation: func(ctx context.Context, req *logical.Request, d *framework.FieldData) (*logical.Response, error) {
				v, _ := d.Get("value").(string)
				return nil, pick(req, d).Put(ctx, &logical.StorageEntry{Key: d.Get("skey").(string), Value: []byte(v)})
			},
			logical.DeleteOperation: func(ctx context.Context, req *logical.Request, d *framework.FieldData) (*logical.Response, error) {
				return nil, pick(req, d).Delete(ctx, d.Get("skey").(string))
			},
			logical.ListOperation: func(ctx context.Context, req *logical.Request, d *framework.FieldData) (*logical.Response, error) {
				ks, err := pick(req, d).List(ctx, d.Get("skey").(string))
				if err != nil {
					return nil, err
				}
				return logical.ListResponse(ks), nil
			},
		},
	}}
	if err := b.Setup(ctx, conf); err != nil {
		return nil, err
	}
	return b, nil
}

type c12Ns struct {
	path     string // canonical, "" = root
	uuid     string
	ord      int
	sealable bool
	share    string
	obj      *namespace.Namespace
}

type c12Mount struct {
	ns   int
	path string
	uuid string
	id   int
}

type c12Tok struct {
	ord    int
	ns     int
	kind   string // root | p
	token  string
	cubby  string
	access string
}

type c12Case struct {
	t      *testing.T
	c      *Core
	p      *vhPhys
	out    *vh.Out
	nss    []*c12Ns
	mounts []*c12Mount
	toks   []*c12Tok
	unsafe bool
	// uuid -> description of every mount (incl. system ones) for key attribution
	mountByUUID map[string]*c12Mount
	// mounts that may hold a key with an empty path segment ("a//b", "d/", "/"): Core.moveStorage does not terminate on
	// those (see REPORT), so they are only remounted inside their namespace
	emptySeg map[int]bool
	// sealable namespaces whose own key shares were not supplied since a seal (of them or of an ancestor) last covered them
	pending map[int]bool
	cubbyNs     map[string]int // cubbyhole mount uuid -> ns ordinal
	nrot        int            // namespace rotations so far
}

func c12Class(resp *logical.Response, err error) string {
	msg := ""
	if err != nil {
		msg = err.Error()
		if resp != nil && resp.IsError() { // e.g. (ErrorResponse, ErrInvalidRequest): the text is in the response
			msg += ": " + resp.Error().Error()
		}
	} else if resp != nil && resp.IsError() {
		msg = resp.Error().Error()
	}
	switch {
	case msg == "":
		return "ok"
	case strings.Contains(msg, "permission denied"):
		return "denied"
	case strings.Contains(msg, "relative paths not supported"):
		return "err:relative"
	case strings.Contains(msg, "not sealable"):
		return "err:notsealable"
	case strings.Contains(msg, "namespace is sealed"):
		return "err:sealed"
	case strings.Contains(msg, "namespace not found"):
		return "err:nons"
	case strings.Contains(msg, "cannot write to a path ending in"):
		return "err:trailslash"
	case strings.Contains(msg, "error performing token check") && strings.Contains(msg, "sealed"):
		return "err:toksealed"
	case strings.Contains(msg, "internal error"):
		return "err:internal"
	case strings.Contains(msg, "cannot escape namespace"):
		return "err:escape"
	case strings.Contains(msg, "unsupported path") || strings.Contains(msg, "no handler for route"):
		return "err:unsupported"
	}
	if os.Getenv("VERIF_DEBUG_C12") != "" {
		fmt.Fprintf(os.Stderr, "c12: unclassified error: %s\n", msg)
	}
	return "err:other"
}

// c12Do runs one request with the calling goroutine tagged, returning the storage ops it performed.
func (k *c12Case) do(ctx context.Context, op logical.Operation, path, token string, data map[string]any) (*logical.Response, error, []vhOp) {
	req := &logical.Request{Operation: op, Path: path, ClientToken: token, Data: data}
	req.SetTokenEntry(nil)
	k.p.Tag(0)
	k.p.StartRecording()
	resp, err := k.c.HandleRequest(ctx, req)
	ops := k.p.StopRecording()
	k.p.Untag()
	var mine []vhOp
	for _, o := range ops {
		if o.Thread == 0 {
			mine = append(mine, o)
		}
	}
	return resp, err, mine
}

func (k *c12Case) must(what string, resp *logical.Response, err error) *logical.Response {
	if cl := c12Class(resp, err); cl != "ok" {
		k.t.Fatalf("c12 set-up %s: %s %v %v", what, cl, err, resp)
	}
	return resp
}

func (k *c12Case) nsCtx(i int) context.Context {
	if i == 0 {
		return vhRootCtx()
	}
	if k.nss[i].obj == nil {
		ns, err := k.c.namespaceStore.GetNamespaceByPath(vhRootCtx(), k.nss[i].path)
		if err != nil || ns == nil {
			k.t.Fatalf("namespace %s: %v", k.nss[i].path, err)
		}
		k.nss[i].obj = ns
	}
	return namespace.ContextWithNamespace(context.Background(), k.nss[i].obj)
}

func (k *c12Case) addNs(path string, sealable bool) {
	root := k.toks[0].token
	parent, name := "", strings.TrimSuffix(path, "/")
	if i := strings.LastIndex(name, "/"); i >= 0 {
		parent, name = name[:i+1], name[i+1:]
	}
	var data map[string]any
	if sealable {
		data = map[string]any{"seal": "seal \"shamir\" {\n shares = 1\n threshold = 1\n}"}
	}
	resp, err, _ := k.do(vhRootCtx(), logical.UpdateOperation, parent+"sys/namespaces/"+name, root, data)
	resp = k.must("namespace "+path, resp, err)
	n := &c12Ns{path: path, uuid: resp.Data["uuid"].(string), ord: len(k.nss), sealable: sealable}
	if sealable {
		n.share = resp.Data["key_shares"].([]string)[0]
	}
	k.nss = append(k.nss, n)
	k.out.Op("ok", "ns", vh.HexS(path), c12B(sealable))
	if sealable {
		k.pending[n.ord] = true
		k.setSeal(n.ord, false) // created sealed: unseal for the set-up
	}
	k.nsCtx(n.ord)
	k.refreshMounts()
}

// sealOp seals / unseals (with the namespace's OWN key share) namespace i through the parent namespace's
// sys/namespaces/<name>/(un)seal endpoint and reports the outcome class; `pending` is the harness's own record of
// "the own shares of this namespace were not supplied since a seal last covered it".
func (k *c12Case) sealOp(i int, seal bool) string {
	n := k.nss[i]
	root := k.toks[0].token
	parent, name := "", strings.TrimSuffix(n.path, "/")
	if j := strings.LastIndex(name, "/"); j >= 0 {
		parent, name = name[:j+1], name[j+1:]
	}
	var resp *logical.Response
	var err error
	if seal {
		resp, err, _ = k.do(vhRootCtx(), logical.UpdateOperation, parent+"sys/namespaces/"+name+"/seal", root, nil)
	} else {
		resp, err, _ = k.do(vhRootCtx(), logical.UpdateOperation, parent+"sys/namespaces/"+name+"/unseal", root, map[string]any{"key": n.share})
	}
	cl := c12Class(resp, err)
	if cl == "ok" && !seal && resp != nil && resp.Data != nil {
		if sl, ok := resp.Data["sealed"].(bool); ok && sl {
			cl = "ok:stillsealed"
		}
	}
	if cl == "ok" && !n.sealable {
		cl = "ok!VIOL:the seal request for namespace " + n.path + ", which has no seal of its own, was accepted (its mounts are torn down and there is no unseal)#seal-of-namespace-without-seal-accepted"
		k.out.Op(cl, "sealns", vh.HexS(n.path), c12B(seal))
		return "ok"
	}
	mark := ""
	if cl == "ok" {
		if seal {
			for _, m := range k.nss {
				if m.sealable && strings.HasPrefix(m.path, n.path) {
					k.pending[m.ord] = true
				}
			}
		} else {
			k.pending[i] = false
			// "readable again after unsealing": every namespace below the unsealed one that is not behind another
			// seal still waiting for its own shares is known to the namespace store again
			for _, m := range k.nss {
				if m.ord == i || !strings.HasPrefix(m.path, n.path) {
					continue
				}
				hidden := false
				for _, q := range k.nss {
					if q.sealable && k.pending[q.ord] && strings.HasPrefix(m.path, q.path) && q.path != m.path {
						hidden = true
					}
				}
				if hidden {
					continue
				}
				got, gerr := k.c.namespaceStore.GetNamespaceByPath(vhRootCtx(), m.path)
				if gerr != nil || got == nil || got.Path != m.path {
					mark = "!VIOL:after the accepted unseal of " + n.path + " its descendant namespace " + m.path + " is missing from the namespace store (requests for it are resolved into an ancestor; it can be created a second time)#namespace-lost-after-unseal"
					break
				}
			}
		}
	}
	if os.Getenv("VERIF_DEBUG_C12") != "" && cl != "ok" {
		fmt.Fprintf(os.Stderr, "c12: sealns %s seal=%v => %s (%v %v)\n", n.path, seal, cl, err, resp)
	}
	k.out.Op(cl+mark, "sealns", vh.HexS(n.path), c12B(seal))
	return cl
}

// nsRotate: root-key rotation (new shares, new seal key, new root key) of the separately sealed namespace i through the
// seal manager (what sys/namespaces/<name>/rotate/root drives), with the namespace's own share. Everything it writes must
// stay inside the namespace's own storage prefix namespaces/<uuid>/ — the seal material of a namespace is that
// namespace's. The namespace is sealed and unsealed with the NEW share afterwards by the ordinary sealns ops.
func (k *c12Case) nsRotate(i int) {
	n := k.nss[i]
	if !n.sealable || k.pending[i] {
		return
	}
	for _, m := range k.nss { // every sealable ancestor must be unsealed too
		if m.sealable && m.ord != i && strings.HasPrefix(n.path, m.path) && k.pending[m.ord] {
			return
		}
	}
	ctx := k.nsCtx(i)
	ns := n.obj
	share, err := hex.DecodeString(n.share)
	if err != nil {
		if share, err = base64.StdEncoding.DecodeString(n.share); err != nil {
			k.t.Fatalf("share of %s: %v", n.path, err)
		}
	}
	k.p.Tag(0)
	k.p.StartRecording()
	// every other rotation keeps a backup of the (PGP-encrypted) shares
	k.nrot++
	backup := k.nrot%2 == 0
	conf := &SealConfig{Type: "shamir", SecretShares: 1, SecretThreshold: 1}
	if backup {
		conf.PGPKeys, conf.Backup = []string{pgpkeys.TestPubKey1}, true
	}
	res := vh.Catch(func() string {
		if _, err := k.c.sealManager.InitRotation(ctx, ns, conf, false); err != nil {
			return "err:init"
		}
		rot := k.c.sealManager.RotationConfig(ns.UUID, false)
		if rot == nil {
			return "err:noconfig"
		}
		rr, err := k.c.sealManager.UpdateRotation(ctx, ns, share, rot.Nonce, false)
		if err != nil || rr == nil || len(rr.SecretShares) != 1 {
			return "err:update"
		}
		if backup {
			// the share comes back encrypted for the operator's PGP key
			plain, err := pgpkeys.DecryptBytes(hex.EncodeToString(rr.SecretShares[0]), pgpkeys.TestPrivKey1)
			if err != nil {
				if plain, err = pgpkeys.DecryptBytes(base64.StdEncoding.EncodeToString(rr.SecretShares[0]), pgpkeys.TestPrivKey1); err != nil {
					return "err:pgp"
				}
			}
			n.share = plain.String()
			return "ok"
		}
		n.share = hex.EncodeToString(rr.SecretShares[0])
		return "ok"
	})
	ops := k.p.StopRecording()
	k.p.Untag()
	pre := "namespaces/" + n.uuid + "/"
	var outside, inside []string
	seenIn := map[string]bool{}
	for _, o := range ops {
		if o.Thread != 0 || (o.Kind != "put" && o.Kind != "delete") {
			continue
		}
		if !strings.HasPrefix(o.Key, pre) {
			outside = append(outside, o.Kind+":"+o.Key)
		} else if rel := o.Kind + ":" + o.Key[len(pre):]; !seenIn[rel] {
			seenIn[rel] = true
			inside = append(inside, rel)
		}
	}
	sort.Strings(inside)
	out := "-"
	viol := ""
	if len(outside) > 0 {
		sort.Strings(outside)
		out = vh.HexS(strings.Join(outside, ","))
		viol = "!VIOL:the root-key rotation of namespace " + n.path + " wrote outside the namespace's storage prefix: " + strings.Join(outside, ", ") + "#namespace-rotation-wrote-outside-namespace"
	}
	opn := "nsrotate"
	if backup {
		opn = "nsrotatebk"
	}
	k.out.Op(res+"|"+out+"|"+strings.Join(inside, ",")+viol, opn, vh.HexS(n.path))
}

func (k *c12Case) setSeal(i int, seal bool) {
	if cl := k.sealOp(i, seal); cl != "ok" {
		k.t.Fatalf("c12 set-up seal=%v of %s: %s", seal, k.nss[i].path, cl)
	}
}

// refreshMounts re-reads the core's mount table so that every logical/<uuid>/ key can be attributed.
func (k *c12Case) refreshMounts() {
	k.c.mountsLock.RLock()
	defer k.c.mountsLock.RUnlock()
	for _, me := range k.c.mounts.Entries {
		if me.Type == routing.MountTypeCubbyhole || me.Type == routing.MountTypeNSCubbyhole {
			for _, n := range k.nss {
				if n.path == me.Namespace.Path {
					k.cubbyNs[me.UUID] = n.ord
				}
			}
		}
	}
}

// mountInside: a mount requested by namespace nsi at a path that lies INSIDE one of its child namespaces (first segment =
// the child's name): refused — otherwise requests made in the child would be served by the parent's mount and storage.
func (k *c12Case) mountInside(nsi, child int) {
	root := k.toks[0].token
	rel := strings.TrimPrefix(k.nss[child].path, k.nss[nsi].path) + "inside"
	resp, err, _ := k.do(vhRootCtx(), logical.UpdateOperation, k.nss[nsi].path+"sys/mounts/"+rel, root, map[string]any{"type": "c12rec"})
	cl := c12Class(resp, err)
	res := "refused"
	if cl == "ok" {
		res = "ok!VIOL:namespace " + k.nss[nsi].path + " was allowed to create the mount " + rel + "/, whose path lies inside its child namespace " + k.nss[child].path + "#mount-inside-child-namespace"
		_, _, _ = k.do(vhRootCtx(), logical.DeleteOperation, k.nss[nsi].path+"sys/mounts/"+rel, root, nil)
	}
	k.out.Op(res, "mountinside", vh.HexS(k.nss[nsi].path), vh.HexS(rel+"/"))
}

func (k *c12Case) addMount(nsi int, path string) {
	root := k.toks[0].token
	resp, err, _ := k.do(vhRootCtx(), logical.UpdateOperation, k.nss[nsi].path+"sys/mounts/"+strings.TrimSuffix(path, "/"), root, map[string]any{"type": "c12rec"})
	if cl := c12Class(resp, err); cl != "ok" {
		// a mount the tree has room for was refused: an outcome (the model answers ok), not a harness failure
		k.out.Op(cl+"!VIOL:the mount "+k.nss[nsi].path+path+" was refused although neither a mount nor a namespace occupies that path#mount-refused-without-conflict", "mount", vh.HexS(k.nss[nsi].path), vh.HexS(path), strconv.Itoa(len(k.mounts)+1))
		return
	}
	me := k.c.router.MatchingMountEntry(k.nsCtx(nsi), path)
	if me == nil || me.Path != path {
		k.t.Fatalf("mount entry for %s%s not found", k.nss[nsi].path, path)
	}
	m := &c12Mount{ns: nsi, path: path, uuid: me.UUID, id: len(k.mounts) + 1}
	k.mounts = append(k.mounts, m)
	k.mountByUUID[me.UUID] = m
	k.out.Op("ok", "mount", vh.HexS(k.nss[nsi].path), vh.HexS(path), strconv.Itoa(m.id))
}

// remount moves mount mi to (dstNs, dstPath) — possibly into another namespace — through the core's own remount
// routine (what sys/remount runs in the background); the mount keeps its UUID, its data moves with it.
func (k *c12Case) remount(mi, dstNs int, dstPath string) {
	m := k.mounts[mi]
	src := k.nss[m.ns].path + m.path
	dst := k.nss[dstNs].path + dstPath
	if err := k.c.remountSecretsEngineCurrentNamespace(vhRootCtx(), src, dst, true); err != nil {
		if os.Getenv("VERIF_DEBUG_C12") != "" {
			fmt.Fprintf(os.Stderr, "c12: remount %s -> %s failed: %v\n", src, dst, err)
		}
		k.out.Op("err", "remount", strconv.Itoa(m.id), vh.HexS(k.nss[dstNs].path), vh.HexS(dstPath))
		return
	}
	m.ns, m.path = dstNs, dstPath
	k.out.Op("ok", "remount", strconv.Itoa(m.id), vh.HexS(k.nss[dstNs].path), vh.HexS(dstPath))
}

var c12Patterns = []string{"m1/*", "deep/*", "m3/*", "cubbyhole/*", "+/m1/*", "c/m3/*", "nomount/*", "m1x", "mv/*", "t", "t/*"}

func (k *c12Case) addPolicy(nsi int) {
	root := k.toks[0].token
	var sb strings.Builder
	for _, p := range c12Patterns {
		sb.WriteString("path \"" + p + "\" { capabilities = [\"create\",\"read\",\"update\",\"delete\",\"list\"] }\n")
	}
	resp, err, _ := k.do(vhRootCtx(), logical.UpdateOperation, k.nss[nsi].path+"sys/policies/acl/p", root, map[string]any{"policy": sb.String()})
	k.must("policy", resp, err)
}

func (k *c12Case) addToken(nsi int, kind string) {
	root := k.toks[0].token
	pol := []string{"p"}
	if kind == "root" {
		// a root-policy token OF this namespace (the API refuses to create one from a parent namespace):
		// created through the token store directly
		ctx := k.nsCtx(nsi)
		ns, _ := namespace.FromContext(ctx)
		te := &logical.TokenEntry{Path: "auth/token/create", Policies: []string{"root"}, NamespaceID: ns.ID, CreationTime: time.Now().Unix(),
			Type: logical.TokenTypeService, DisplayName: "c12-ns-root"}
		if err := k.c.tokenStore.create(ctx, te, true); err != nil {
			k.t.Fatalf("ns root token: %v", err)
		}
		k.regToken(nsi, kind, te.ExternalID)
		return
	}
	resp, err, _ := k.do(vhRootCtx(), logical.UpdateOperation, k.nss[nsi].path+"auth/token/create", root, map[string]any{"policies": pol, "ttl": "1h", "no_default_policy": true})
	resp = k.must("token", resp, err)
	k.regToken(nsi, kind, resp.Auth.ClientToken)
}

func (k *c12Case) regToken(nsi int, kind, token string) {
	id, err := k.c.DecodeSSCToken(token)
	if err != nil {
		k.t.Fatal(err)
	}
	te, err := k.c.tokenStore.Lookup(vhRootCtx(), id)
	if err != nil || te == nil {
		k.t.Fatalf("lookup of new token: %v", err)
	}
	tk := &c12Tok{ord: len(k.toks), ns: nsi, kind: kind, token: token, cubby: te.CubbyholeID, access: te.Accessor}
	k.toks = append(k.toks, tk)
	pats := "-"
	if kind == "p" {
		hs := make([]string, len(c12Patterns))
		for i, p := range c12Patterns {
			hs[i] = vh.HexS(p)
		}
		pats = strings.Join(hs, ",")
	}
	k.out.Op("ok", "token", strconv.Itoa(tk.ord), vh.HexS(k.nss[nsi].path), kind, pats)
}

// physical key -> (namespace ordinal or -1, rest after the namespace prefix)
func (k *c12Case) splitNs(key string) (int, string, bool) {
	if !strings.HasPrefix(key, "namespaces/") {
		return 0, key, true
	}
	rest := key[len("namespaces/"):]
	i := strings.Index(rest, "/")
	if i < 0 {
		return -1, key, false
	}
	for _, n := range k.nss {
		if n.uuid == rest[:i] {
			return n.ord, rest[i+1:], true
		}
	}
	return -1, key, false
}

func c12HasDotSeg(s string) bool {
	for _, seg := range strings.Split(s, "/") {
		if seg == "." || seg == ".." {
			return true
		}
	}
	return false
}

// request: returns (result string incl. marker)
func (k *c12Case) request(tk *c12Tok, ctxNs int, hdr, path, opn, skey string) {
	var ctx context.Context
	if ctxNs < 0 {
		ctx = context.Background()
	} else {
		ctx = k.nsCtx(ctxNs)
	}
	chdr := namespace.Canonicalize(hdr)
	if hdr != "" {
		ctx = namespace.ContextWithNamespaceHeader(ctx, hdr)
	}
	var op logical.Operation
	switch opn {
	case "read":
		op = logical.ReadOperation
	case "update":
		op = logical.UpdateOperation
	case "delete":
		op = logical.DeleteOperation
	case "list":
		op = logical.ListOperation
	}
	value := "v" + strconv.Itoa(tk.ord)
	// every third request makes the backend use the view it kept from its set-up (deterministic: a replay is exact)
	data := map[string]any{"skey": skey, "value": value, "own": (len(skey)+len(path)+tk.ord)%3 == 0}
	ctxPath := "none"
	if ctxNs >= 0 {
		ctxPath = vh.HexS(k.nss[ctxNs].path)
	}
	res := vh.Catch(func() string {
		resp, err, ops := k.do(ctx, op, path, tk.token, data)
		cl := c12Class(resp, err)
		if cl == "ok" {
			switch {
			case opn == "read" && resp != nil && resp.Data != nil:
				if f, ok := resp.Data["found"].(bool); ok && !f {
					cl = "ok:0"
				} else if v, ok := resp.Data["value"].(string); ok {
					cl = "ok:1:" + vh.HexS(v)
				} else {
					cl = "ok:?"
				}
			case opn == "read":
				cl = "ok:0"
			case opn == "list":
				var names []string
				if resp != nil && resp.Data != nil {
					if ks, ok := resp.Data["keys"].([]string); ok {
						names = ks
					}
				}
				hs := make([]string, len(names))
				for i, n := range names {
					hs[i] = vh.HexS(n)
				}
				cl = "ok:[" + strings.Join(hs, ",") + "]"
			}
		}
		// the request's target, from the core's own resolution (only used by the direct predicate)
		fullHdr := chdr
		if ctxNs >= 0 {
			fullHdr = k.nss[ctxNs].path + chdr
		}
		tgtNs, tgtMount := -1, ""
		if rns, rel := k.c.namespaceStore.ResolveNamespaceFromRequest(fullHdr, path); rns != nil {
			for _, n := range k.nss {
				if n.path == rns.Path {
					tgtNs = n.ord
				}
			}
			if me := k.c.router.MatchingMountEntry(namespace.ContextWithNamespace(context.Background(), rns), rel); me != nil {
				tgtMount = me.UUID
			} else if me := k.c.router.MatchingMountEntry(namespace.ContextWithNamespace(context.Background(), rns), rel+"/"); me != nil {
				tgtMount = me.UUID
			}
		}
		var touches []string
		// the direct predicate: the worst verdict wins (lower number = more severe), so that a storage-placement
		// or routing break is never reported under the signature of the namespace-resolution finding
		viol, violPrio := "", 100
		setViol := func(prio int, msg string) {
			if prio < violPrio {
				viol, violPrio = msg, prio
			}
		}
		for _, o := range ops {
			nsi, rest, known := k.splitNs(o.Key)
			if known && nsi > 0 {
				// no request may touch ANY storage (mount data or system area) of a namespace that lies at or below a namespace
				// whose own key shares were not supplied since a seal last covered it
				for _, a := range k.nss {
					if a.sealable && k.pending[a.ord] && strings.HasPrefix(k.nss[nsi].path, a.path) {
						setViol(0, fmt.Sprintf("storage of namespace %q touched (%s %s) although the own key shares of %q were not supplied since it was last sealed#sealed-namespace-storage-touched", k.nss[nsi].path, o.Kind, rest, a.path))
					}
				}
			}
			seg := strings.SplitN(rest, "/", 3)
			if known && (seg[0] == "logical" || seg[0] == "auth") && len(seg) == 3 {
				uuid, rel := seg[1], seg[2]
				var ts string
				mountNs := -1 // namespace the touched mount belongs to according to the mount table
				if m, ok := k.mountByUUID[uuid]; ok {
					ts = "M" + strconv.Itoa(m.id) + ":" + o.Kind + "=" + vh.HexS(rel)
					mountNs = m.ns
				} else if cn, ok := k.cubbyNs[uuid]; ok {
					who := "?"
					cid, crest := rel, ""
					if i := strings.Index(rel, "/"); i >= 0 {
						cid, crest = rel[:i], rel[i+1:]
					}
					for _, t2 := range k.toks {
						if t2.cubby == cid {
							who = strconv.Itoa(t2.ord)
						}
					}
					if who == "?" {
						crest = rel
					}
					ts = "C" + strconv.Itoa(cn) + ":" + o.Kind + "=" + who + ":" + vh.HexS(crest)
					mountNs = cn
				} else {
					ts = "X:" + o.Kind + "=" + vh.HexS(o.Key)
				}
				touches = append(touches, ts)
				if m, ok := k.mountByUUID[uuid]; ok && o.Kind == "put" && (rel == "" || strings.HasSuffix(rel, "/") || strings.HasPrefix(rel, "/") || strings.Contains(rel, "//")) {
					k.emptySeg[m.id] = true
				}
				switch {
				case mountNs >= 0 && mountNs != nsi:
					// the mount's data does not lie under its own namespace's storage prefix
					setViol(1, fmt.Sprintf("data of a mount of namespace %q found under the storage prefix of namespace %q: %s#mount-wrong-namespace-prefix", k.nss[mountNs].path, k.nss[nsi].path, ts))
				case uuid != tgtMount:
					setViol(2, fmt.Sprintf("request to mount %q of namespace %d touched mount storage %s#request-touched-foreign-mount", tgtMount, tgtNs, ts))
				case c12HasDotSeg(rel):
					setViol(3, "storage key with a '.'/'..' segment below the mount prefix: "+ts+"#mount-key-dot-segment")
				case mountNs >= 0 && tgtNs >= 0 && mountNs != tgtNs:
					// finding F13: the request namespace is resolved along the CLEANED path and its prefix is cut from the RAW
					// path only when it is literally there; the router key is resolved-namespace-path ++ remainder, so the
					// mount that serves the request (correctly placed, correctly routed for that key) can belong to another namespace
					setViol(10, fmt.Sprintf("request resolved to namespace %q (its seal / API-lock / quota checks) was routed into and served by a mount of namespace %q: %s#resolved-namespace-differs-from-serving-mount", k.nss[tgtNs].path, k.nss[mountNs].path, ts))
				}
				continue
			}
			// system area: must belong to the token's or the request's namespace; plain data requests write nothing there
			if !known {
				setViol(4, "unattributable physical key "+o.Key+"#unknown-physical-key")
			} else if nsi != tk.ns && nsi != tgtNs {
				setViol(5, fmt.Sprintf("system storage of namespace %d touched by a request of a token of namespace %d into namespace %d: %s %s#foreign-namespace-system-storage", nsi, tk.ns, tgtNs, o.Kind, rest))
			} else if o.Kind == "put" || o.Kind == "delete" {
				setViol(6, "data request wrote system storage: "+o.Kind+" "+rest+"#data-request-wrote-system-storage")
			}
		}
		s := cl + "|"
		if len(touches) == 0 {
			s += "-"
		} else {
			s += strings.Join(touches, ",")
		}
		if viol != "" {
			s += "!VIOL:" + viol
		}
		return s
	})
	k.out.Op(res, "req", strconv.Itoa(tk.ord), ctxPath, vh.HexS(chdr), vh.HexS(path), opn, vh.HexS(skey))
}

func c12B(b bool) string {
	if b {
		return "1"
	}
	return "0"
}

var (
	c12Skeys = []string{"x", "y", "d/x", "d/y", "../x", "a/../../b", "./", "a//b", "..", "a/..", "", "é", "d/", "../../logical/x", "..x", "x/..y", "/", "k/./z"}
	c12Names = []string{"foo", "bar", "d/foo", "../foo", "a/../b", "./foo", "foo/..", "é", "a//b"}
)

// c12AliasCases: cores WITH the policy cache (the other cases run with DisableCache, which also turns the policy store's
// LRU off). Namespace A holds a c12rec mount with a value and a policy p that grants it; p is in the cache (a token of A
// has used it). A token is then requested in namespace B with the policy name "../<uuid of A>/p" — the name a cleaning
// join of namespace UUID and policy name would turn into A's p. Op lines (one case each):
//   aliascase                        => ok
//   aliastoken <B hex> <A hex>       => refused | created
//   aliasread  <B hex> <A hex>       => denied | ok:<value> ...   (only when the token was created)
func c12AliasCases(t *testing.T, out *vh.Out) {
	shapes := [][2]string{{"b/", "a/"}, {"a/b/", "a/"}, {"b/", "b/a/"}, {"b/", ""}, {"b/c/", "a/"}}
	for _, sh := range shapes {
		out.Reset()
		out.Op("ok", "aliascase")
		p := vhNewPhys(t)
		c, _, root := vhNewCore(t, p, nil, func(conf *CoreConfig) {
			conf.LogicalBackends["c12rec"] = c12RecFactory
			conf.DisableCache = false
		})
		req := func(op logical.Operation, path, tok string, data map[string]any) (*logical.Response, error) {
			r := &logical.Request{Operation: op, Path: path, ClientToken: tok, Data: data}
			r.SetTokenEntry(nil)
			return c.HandleRequest(vhRootCtx(), r)
		}
		must := func(what string, resp *logical.Response, err error) *logical.Response {
			if err != nil || (resp != nil && resp.IsError()) {
				t.Fatalf("c12 alias %s: %v %#v", what, err, resp)
			}
			return resp
		}
		uuidOf := map[string]string{"": namespace.RootNamespaceUUID}
		mk := func(path string) {
			if path == "" || uuidOf[path] != "" {
				return
			}
			segs := strings.Split(strings.TrimSuffix(path, "/"), "/")
			parent := strings.Join(segs[:len(segs)-1], "/")
			if parent != "" {
				parent += "/"
			}
			r, err := req(logical.UpdateOperation, parent+"sys/namespaces/"+segs[len(segs)-1], root, nil)
			resp := must("namespace "+path, r, err)
			uuidOf[path], _ = resp.Data["uuid"].(string)
		}
		for _, nsp := range []string{sh[0], sh[1]} {
			segs := strings.Split(strings.TrimSuffix(nsp, "/"), "/")
			for i := range segs {
				if nsp != "" {
					mk(strings.Join(segs[:i+1], "/") + "/")
				}
			}
		}
		B, A := sh[0], sh[1]
		r, err := req(logical.UpdateOperation, A+"sys/mounts/m1", root, map[string]any{"type": "c12rec"})
		must("mount", r, err)
		r, err = req(logical.UpdateOperation, A+"m1/raw/k", root, map[string]any{"skey": "x", "value": "secret-of-A"})
		must("write", r, err)
		r, err = req(logical.UpdateOperation, A+"sys/policies/acl/p", root, map[string]any{"policy": `path "m1/*" { capabilities = ["read","update","list"] }
path "m1" { capabilities = ["read","update","list"] }`})
		must("policy", r, err)
		r, err = req(logical.UpdateOperation, A+"auth/token/create", root, map[string]any{"policies": []string{"p"}, "ttl": "1h", "no_default_policy": true})
		ta := must("token of A", r, err).Auth.ClientToken
		r, err = req(logical.ReadOperation, A+"m1/raw/k", ta, map[string]any{"skey": "x"})
		must("read by A's token", r, err)
		// the alias
		r, err = req(logical.UpdateOperation, B+"auth/token/create", root, map[string]any{"policies": []string{"../" + uuidOf[A] + "/p"}, "ttl": "1h", "no_default_policy": true})
		if err != nil || r == nil || r.IsError() || r.Auth == nil || r.Auth.ClientToken == "" {
			out.Op("refused", "aliastoken", vh.HexS(B), vh.HexS(A))
			_ = c.Shutdown()
			continue
		}
		out.Op("created", "aliastoken", vh.HexS(B), vh.HexS(A))
		r, err = req(logical.ReadOperation, A+"m1/raw/k", r.Auth.ClientToken, map[string]any{"skey": "x"})
		res := "denied"
		if err == nil && r != nil && !r.IsError() {
			v, _ := r.Data["value"].(string)
			res = "ok:" + vh.HexS(v) + "!VIOL:a token of namespace " + B + " read data of namespace " + A + " through the policy NAME ../<uuid>/p, a policy that is not defined in its namespace#policy-name-alias-cross-namespace"
		}
		out.Op(res, "aliasread", vh.HexS(B), vh.HexS(A))
		_ = c.Shutdown()
	}
}

func TestVerifC12Confine(t *testing.T) {
	out := vh.Open()
	defer out.Close()
	rng := vh.NewRand(vh.Seed())
	c12AliasCases(t, out)
	cases := vh.EnvInt("VERIF_C12_CASES", 120)
	nreq := 140
	if vh.Thorough() {
		cases, nreq = vh.EnvInt("VERIF_C12_CASES", 1500), 220
	}
	for ci := 0; ci < cases; ci++ {
		out.Reset()
		r := rng.Fork(uint64(ci))
		k := &c12Case{t: t, out: out, mountByUUID: map[string]*c12Mount{}, cubbyNs: map[string]int{}, emptySeg: map[int]bool{}, pending: map[int]bool{}}
		k.unsafe = (ci/5)%2 == 1
		k.p = vhNewPhys(t)
		c, _, root := vhNewCore(t, k.p, nil, func(conf *CoreConfig) {
			conf.LogicalBackends["c12rec"] = c12RecFactory
			conf.UnsafeRelativePaths = k.unsafe
		})
		k.c = c
		out.Op("ok", "unsafe", c12B(k.unsafe))
		k.nss = []*c12Ns{{path: "", uuid: namespace.RootNamespaceUUID, ord: 0}}
		k.regToken(0, "root", root)
		// namespace tree
		sealIdx := -1
		nested := ci%5 == 4
		switch ci % 5 {
		case 4:
			// a separately sealed namespace NESTED in a separately sealed namespace
			k.addNs("n1/", false)
			k.addNs("out/", true)
			k.addNs("out/in/", true)
			k.addNs("out/in/x/", false)
			k.addNs("out/y/", false)
		case 3:
			// same-named chain: a request path naming a namespace WITHOUT its trailing slash
			k.addNs("t/", false)
			k.addNs("t/t/", false)
			k.addNs("t/t/t/", false)
		case 0:
			k.addNs("n1/", false)
			k.addNs("n2/", false)
			k.addNs("n1/c/", false)
		case 1:
			k.addNs("n1/", false)
			k.addNs("n1/c/", false)
			k.addNs("sn/", true)
			sealIdx = 3
			k.addNs("sn/c/", false)
			k.addNs("sn/c/d/", false) // a GRANDchild of the separately sealed namespace (must be back after its unseal)
		default:
			k.addNs("n1/", false)
			k.addNs("n10/", false)
			k.addNs("n1/n1/", false)
			k.addNs("n2/", false)
		}
		k.refreshMounts()
		// mounts: same type, same path in several namespaces; nested path; a mount named like a namespace's child
		k.addMount(0, "m1/")
		k.addMount(0, "deep/m2/")
		for i := 1; i < len(k.nss); i++ {
			k.addMount(i, "m1/")
			if r.Chance(50) {
				k.addMount(i, "m3/")
			}
			if r.Chance(30) {
				k.addMount(i, "deep/m2/")
			}
		}
		if r.Chance(50) {
			k.addMount(0, "c/")
		}
		if ci%5 == 3 {
			// (a mount t/ in t/ or t/t/ would collide with the child namespace: MountConflict refuses it)
			k.addMount(3, "t/")
		}
		for i := range k.nss {
			k.addPolicy(i)
			k.addToken(i, "p")
			if r.Chance(60) {
				k.addToken(i, "p")
			}
			if i > 0 && r.Chance(60) {
				k.addToken(i, "root")
			}
		}
		sealedNow := false
		sealAt, unsealAt := -1, -1
		if sealIdx >= 0 {
			sealAt = nreq/3 + r.Intn(nreq/6)
			unsealAt = sealAt + nreq/4 + r.Intn(nreq/6)
		}
		// directed: every (parent, direct or indirect child) pair — a mount of the parent inside the child's path is refused
		for _, par := range k.nss {
			for _, ch := range k.nss {
				if ch.ord != par.ord && strings.HasPrefix(ch.path, par.path) && !par.sealable && !ch.sealable {
					k.mountInside(par.ord, ch.ord)
				}
			}
		}
		remountAt := -1
		if ci%5 == 0 || ci%5 == 2 { // (not in the same-named chain: MountConflict reports a false "path in use at t/" there)
			remountAt = nreq/4 + r.Intn(nreq/4)
		}
		for qi := 0; qi < nreq; qi++ {
			if qi == remountAt {
				// same-namespace or cross-namespace remount of a random c12rec mount to "mv/"
				mi := r.Intn(len(k.mounts))
				dstNs := k.mounts[mi].ns
				if r.Chance(50) && !k.emptySeg[k.mounts[mi].id] {
					dstNs = r.Intn(len(k.nss))
				}
				k.remount(mi, dstNs, "mv/")
			}
			if nested && r.Chance(9) {
				// seal / unseal (own shares) of out/ (2) or out/in/ (3) in any order; refusals are outcomes, not errors
				k.sealOp(2+r.Intn(2), r.Chance(50))
			}
			if len(k.nss) > 1 && r.Chance(2) {
				// a seal request for a namespace WITHOUT a seal of its own: refused, nothing changes (the requests that
				// follow still reach its mounts)
				var plain []int
				for _, n := range k.nss[1:] {
					under := false // below a namespace that is sealed right now: the request does not get that far
					for _, a := range k.nss {
						if a.sealable && k.pending[a.ord] && strings.HasPrefix(n.path, a.path) {
							under = true
						}
					}
					if !n.sealable && !under {
						plain = append(plain, n.ord)
					}
				}
				if len(plain) > 0 {
					k.sealOp(plain[r.Intn(len(plain))], true)
				}
			}
			if nested && r.Chance(4) {
				k.nsRotate(2 + r.Intn(2))
			}
			if sealIdx >= 0 && !sealedNow && r.Chance(3) {
				k.nsRotate(sealIdx)
			}
			if qi == sealAt {
				k.setSeal(sealIdx, true)
				sealedNow = true
				// the path space of a SEALED namespace is still the namespace's: its parent may not mount into it (the
				// router knows a child namespace by its sys/ mount only, which a sealed namespace does not have)
				k.mountInside(0, sealIdx)
			}
			if qi == unsealAt {
				k.setSeal(sealIdx, false)
				sealedNow = false
			}
			tk := k.toks[r.Intn(len(k.toks))]
			// target namespace: the token's own (40%), any other
			tgt := tk.ns
			if r.Chance(60) {
				tgt = r.Intn(len(k.nss))
			}
			if sealedNow && r.Chance(40) {
				tgt = sealIdx + r.Intn(2)
			}
			if nested && r.Chance(50) {
				tgt = 2 + r.Intn(4)
			}
			// how the namespace is addressed: through the path, the header, the context, or a mix
			tpath := k.nss[tgt].path
			ctxNs, hdr, prefix := 0, "", tpath
			switch r.Intn(8) {
			case 0: // header, root context
				hdr, prefix = tpath, ""
			case 1: // header without any namespace in the context (absolute header)
				ctxNs, hdr, prefix = -1, tpath, ""
			case 2: // context = target
				ctxNs, prefix = tgt, ""
			case 3: // split between header and path
				if i := strings.Index(tpath, "/"); i >= 0 && i < len(tpath)-1 {
					hdr, prefix = tpath[:i+1], tpath[i+1:]
				}
			case 4: // context = first segment, rest in the path (relative header semantics)
				if i := strings.Index(tpath, "/"); i >= 0 {
					for j, n := range k.nss {
						if n.path == tpath[:i+1] {
							ctxNs, prefix = j, tpath[i+1:]
						}
					}
				}
			case 5: // hostile header variants
				hdr, prefix = []string{"root", "/" + tpath, "zz/", tpath + "../", "n1/../n2"}[r.Intn(5)], ""
				if r.Bool() {
					prefix = tpath
				}
			}
			// mount path
			var mp string
			switch r.Intn(10) {
			case 0, 1, 2, 3:
				mp = "m1/"
			case 4:
				mp = "m3/"
			case 5:
				mp = []string{"deep/m2/", "mv/"}[r.Intn(2)]
			case 6:
				mp = []string{"nomount/", "m1x/", "m1", "deep/", "c/m3/", "../m1/", "m1/../m3/", "c/", "/m1/", "m1//"}[r.Intn(10)]
			default:
				mp = "cubbyhole/"
			}
			opn := []string{"read", "read", "update", "update", "delete", "list"}[r.Intn(6)]
			skey := c12Skeys[r.Intn(len(c12Skeys))]
			if r.Chance(50) {
				skey = []string{"x", "y", "d/x"}[r.Intn(3)]
			}
			var path string
			if mp == "cubbyhole/" {
				name := c12Names[r.Intn(len(c12Names))]
				if r.Chance(60) {
					name = []string{"foo", "bar"}[r.Intn(2)]
				}
				if opn == "list" {
					name = []string{"", "d/", "d"}[r.Intn(3)]
				}
				if r.Chance(8) && len(k.toks) > 1 {
					// try to name another token's cubbyhole through the path
					name = "../" + k.toks[r.Intn(len(k.toks))].cubby + "/foo"
				}
				path = prefix + mp + name
			} else {
				rest := []string{"a", "a/b", "../a", "a/../../m3/raw/a", "", "a/../../../../zz", "a/../../../../../zz", "a/../../../zz",
					"a/../../../../n2/m1/raw/a", "a/../../../../../n1/m1/raw/a", "a//b"}[r.Intn(11)]
				if r.Chance(60) {
					rest = "a"
				}
				path = prefix + mp + "raw/" + rest
			}
			if tpath != "" && r.Chance(6) {
				// the whole path is the target namespace's own path without the trailing slash
				ctxNs, hdr, path = 0, "", strings.TrimSuffix(tpath, "/")
				if r.Bool() {
					path += "/t"
				}
			}
			if mp == "m3/" && ci%5 == 3 {
				path = prefix + "t/raw/a"
				if r.Chance(30) {
					path = prefix + "t/"
				}
			}
			k.request(tk, ctxNs, hdr, path, opn, skey)
		}
		// end of case: every mount-data key in the store lies under its own mount's prefix in its own namespace
		_ = sort.Strings
	}
}
