//go:build verif

package vault

import (
	"testing"

	"github.com/openbao/openbao/sdk/v2/logical"
	"github.com/openbao/openbao/v2/internal/zzverif/vh"
)

func TestVerifC19Smoke(t *testing.T) {
	rng := vh.NewRand(vh.Seed())
	for round := 0; round < 3; round++ {
		p := vhNewPhys(t)
		c, _, root := vhNewCore(t, p, nil, nil)
		tok := vhCreateToken(t, c, root, map[string]any{"ttl": "1h", "policies": []string{"default"}, "num_uses": 2})
		const m = 3
		s := vhNewSched(p, m)
		for i := 0; i < m; i++ {
			s.Go(i, func() string {
				cl, _ := vhReq(c, logical.ReadOperation, "cubbyhole/x", tok, nil)
				return cl
			})
		}
		trace := []string{}
		for step := 0; step < 2000; step++ {
			var cand []int
			for i := 0; i < m; i++ {
				if !s.Finished(i) {
					cand = append(cand, i)
				}
			}
			if len(cand) == 0 {
				break
			}
			i := cand[rng.Intn(len(cand))]
			switch s.Advance(i) {
			case "gate":
				op := s.Parked(i)
				trace = append(trace, vh.Sprintf("%d:%s:%s", i, op.Kind, vhKeyClass(op.Key)))
				s.Release(i)
			case "blocked":
				trace = append(trace, vh.Sprintf("%d:blocked", i))
			}
		}
		s.Drain(1000)
		t.Logf("round %d results=%v %v %v trace=%v", round, s.Result(0), s.Result(1), s.Result(2), trace)
	}
}
