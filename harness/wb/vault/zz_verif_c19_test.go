//go:build verif

package vault

// C19 — "a use-limited token authorises at most its number of uses": trace-validation harness.
//
// One case = a real Core on a gated physical backend, a token with num_uses = n, m goroutines each issuing ONE
// request with that token. A seeded scheduler decides which goroutine executes its next storage operation. The
// executed (thread, op, key class) sequence and every request's outcome class are written as ops; the Lean driver
// (stream `usecount`) replays the observed schedule on the micro-step model and answers, per event, whether it is
// an enabled transition, and, per request, the outcome the model predicts. The direct property predicate is
// evaluated on the same lines by props/C19.py (no model involved).
//
// Op lines of a case (after `reset`):
//   init <n> <m> <kind>...           => ok
//   ev <t> <get|put|delete|list> <keyclass>   (storage op executed by request thread t)   => ok
//   blocked <t>                       (thread t did not reach a gate: waiting for a lock)   => ok
//   done <t>                          => outcome class of request t
//   final                             => gone | pending | uses:<k>      (token entry read back from storage)
//   leases                            => issued:<a>/revoked:<b>         (recording backend's secrets)
//   after <kind>                      => outcome class of one more sequential request with the token
//
// The file also holds the scheduling loop shared with the C18 harness (identifiers prefixed c19).

import (
	"context"
	"github.com/openbao/openbao/sdk/v2/framework"
	"fmt"
	"encoding/json"
	"strings"
	"testing"
	"time"

	"github.com/openbao/openbao/sdk/v2/logical"
	"github.com/openbao/openbao/v2/internal/helper/namespace"
	"github.com/openbao/openbao/v2/internal/zzverif/vh"
)

const c19Policy = `
path "rec/lease/*" { capabilities = ["read"] }
path "rec/data/*" { capabilities = ["read", "update", "create"] }
path "auth/token/create" { capabilities = ["update"] }
path "auth/token/create-orphan" { capabilities = ["update", "sudo"] }
path "auth/token/create/c19orphan" { capabilities = ["update"] }
path "sys/wrapping/rewrap" { capabilities = ["update"] }
`

var c19Kinds = []string{"read", "write", "denied", "self", "lease", "create", "recread"}

// c19Issue performs the request of the given kind with token tok and returns its outcome class.
func c19Issue(c *Core, kind, tok string, k int) string {
	var cl string
	var resp *logical.Response
	switch kind {
	case "read":
		cl, resp = vhReq(c, logical.ReadOperation, "cubbyhole/x", tok, nil)
	case "write":
		cl, resp = vhReq(c, logical.UpdateOperation, "cubbyhole/x", tok, map[string]any{"v": "1"})
	case "denied":
		cl, resp = vhReq(c, logical.ReadOperation, "sys/mounts", tok, nil)
	case "self":
		cl, resp = vhReq(c, logical.ReadOperation, "auth/token/lookup-self", tok, nil)
	case "lease":
		cl, resp = vhReq(c, logical.ReadOperation, vh.Sprintf("rec/lease/k%d", k), tok, nil)
	case "recread":
		cl, resp = vhReq(c, logical.ReadOperation, "rec/data/a", tok, nil)
	case "create":
		// the three entry points of handleCreateCommon (the guard "use-limited tokens cannot create tokens" is theirs):
		// plain create, create-orphan, and a role that makes orphans — the latter two never look the parent up again
		path := []string{"auth/token/create", "auth/token/create-orphan", "auth/token/create/c19orphan"}[k%3]
		cl, resp = vhReq(c, logical.UpdateOperation, path, tok, map[string]any{"policies": []string{"default"}, "ttl": "10m"})
		if cl == "ok" && resp != nil && resp.Auth != nil && resp.Auth.ClientToken != "" {
			cl = "ok+child"
		}
	default:
		return "bad-kind"
	}
	if resp != nil && resp.Secret != nil {
		cl += "+secret"
	} else if resp != nil && resp.Data != nil {
		if s, ok := resp.Data["secret"].(string); ok && strings.HasPrefix(s, "canary-") {
			cl += "+secretdata"
		}
	}
	return cl
}

// c19Salted: the salted id under which the entry of token tok is stored (tok may be the external, server-side
// consistent form of the id: resolve it through a lookup once, before the case starts).
func c19Salted(t *testing.T, c *Core, tok string) string {
	te, err := c.tokenStore.lookupInternal(vhRootCtx(), tok, false, true)
	if err != nil || te == nil {
		t.Fatalf("c19Salted: token lookup failed: %v", err)
	}
	salted, err := c.tokenStore.SaltID(vhRootCtx(), te.ID)
	if err != nil {
		t.Fatal(err)
	}
	return salted
}

// c19TokenState reads the stored token entry through the token store's barrier view: no lookupInternal (which
// has side effects on entries without a lease), no gate (the calling goroutine is untagged).
func c19TokenState(c *Core, salted string) string {
	raw, err := c.tokenStore.idView(namespace.RootNamespace).Get(vhRootCtx(), salted)
	if err != nil {
		return "err:get"
	}
	if raw == nil {
		return "gone"
	}
	var te logical.TokenEntry
	if err := json.Unmarshal(raw.Value, &te); err != nil {
		return "err:decode"
	}
	if te.NumUses < 0 {
		return "pending"
	}
	return vh.Sprintf("uses:%d", te.NumUses)
}

// c19KeyClass classifies physical keys like vhKeyClass, but only the entry of token tok is `tok-id`; the id
// entries of all other tokens are `tok-other`.
func c19KeyClass(salted string) func(string) string {
	own := "sys/token/id/" + salted
	return func(k string) string {
		cl := vhKeyClass(k)
		if cl == "tok-id" && k != own {
			return "tok-other"
		}
		return cl
	}
}

// c19Step is one scheduling decision; pick returns the index into cand.
type c19Picker func(cand []int, step int) int

// c19Hooks: keyClass classifies physical keys (default vhKeyClass); onEv sees every executed op; afterDone runs
// right after the `done` line of a thread was written (used to wait for background revocation).
type c19Hooks struct {
	keyClass  func(key string) string
	onEv      func(i int, op *vhOp)
	afterDone func(i int)
}

// c19RunSchedule drives the m gated threads of sched to completion. Every executed storage op is written as
// an `ev` line, every lock wait as `blocked`, every completion as `done`. After releasing a thread the
// scheduler waits until that thread is parked again, finished, or blocked, so that between two scheduling
// decisions every request thread is quiescent (background goroutines of the core are never gated).
// Returns false when the case had to be aborted (deadlock / step limit).
func c19RunSchedule(out *vh.Out, s *vhSched, m int, pick c19Picker, hk c19Hooks) bool {
	if hk.keyClass == nil {
		hk.keyClass = vhKeyClass
	}
	state := make([]string, m) // "", "gate", "blocked", "done"
	stale := make([]bool, m)   // blocked verdict is older than the last executed op
	settle := func(i int) {
		r := s.Advance(i)
		if r == "blocked" {
			// nobody else alive => cannot be a lock held by a request thread: it is slow, keep waiting
			alive := false
			for j := 0; j < m; j++ {
				if j != i && state[j] != "done" {
					alive = true
				}
			}
			for tries := 0; !alive && r == "blocked" && tries < 200; tries++ {
				r = s.Advance(i)
			}
		}
		switch r {
		case "gate":
			state[i] = "gate"
		case "done":
			state[i] = "done"
			out.Op(s.Result(i), "done", vh.I(int64(i)))
			if hk.afterDone != nil {
				hk.afterDone(i)
			}
		case "blocked":
			state[i] = "blocked"
			stale[i] = false
			out.Op("ok", "blocked", vh.I(int64(i)))
		}
	}
	for i := 0; i < m; i++ {
		settle(i)
	}
	for step := 0; step < 4000; step++ {
		var cand []int
		alldone := true
		for i := 0; i < m; i++ {
			switch state[i] {
			case "gate":
				cand = append(cand, i)
				alldone = false
			case "blocked":
				alldone = false
				if stale[i] {
					cand = append(cand, i)
				}
			}
		}
		if alldone {
			return true
		}
		if len(cand) == 0 {
			out.Op("deadlock", "abort")
			return false
		}
		i := cand[pick(cand, step)]
		if state[i] == "blocked" {
			settle(i)
			continue
		}
		op := s.Parked(i)
		out.Op("ok", "ev", vh.I(int64(i)), op.Kind, hk.keyClass(op.Key))
		if hk.onEv != nil {
			hk.onEv(i, op)
		}
		s.Release(i)
		for j := 0; j < m; j++ {
			if state[j] == "blocked" {
				stale[j] = true
			}
		}
		state[i] = ""
		settle(i)
	}
	out.Op("step-limit", "abort")
	return false
}

type c19Case struct {
	n, m  int
	kinds []string
	mode  string // "random" | "sequential" | "burst"
}

func c19Setup(t *testing.T) (*vhPhys, *Core, string, *vhRecBackend) {
	p := vhNewPhys(t)
	var rec *vhRecBackend
	c, _, root := vhNewCore(t, p, &rec, nil)
	vhMount(t, c, root, "rec/")
	if cl, _ := vhReq(c, logical.UpdateOperation, "auth/token/roles/c19orphan", root, map[string]any{"orphan": true}); cl != "ok" {
		t.Fatal("role c19orphan", cl)
	}
	if cl, _ := vhReq(c, logical.UpdateOperation, "sys/policies/acl/c19", root, map[string]any{"policy": c19Policy}); cl != "ok" {
		t.Fatalf("policy write: %s", cl)
	}
	if cl, _ := vhReq(c, logical.UpdateOperation, "rec/data/a", root, map[string]any{"value": "v"}); cl != "ok" {
		t.Fatalf("seed write: %s", cl)
	}
	return p, c, root, rec
}

func c19RunCase(t *testing.T, out *vh.Out, cs c19Case, rng *vh.Rand) {
	p, c, root, rec := c19Setup(t)
	defer func() { _ = c.Shutdown() }()
	tok := vhCreateToken(t, c, root, map[string]any{"ttl": "1h", "policies": []string{"default", "c19"}, "num_uses": cs.n})
	out.Reset()
	out.Op("ok", append([]string{"init", vh.I(int64(cs.n)), vh.I(int64(cs.m))}, cs.kinds...)...)
	s := vhNewSched(p, cs.m)
	started := 0
	startThread := func(i int) {
		kind := cs.kinds[i]
		s.Go(i, func() string { return vh.Catch(func() string { return c19Issue(c, kind, tok, i) }) })
		started++
	}
	salted := c19Salted(t, c, tok)
	kc := c19KeyClass(salted)
	var pick c19Picker
	switch cs.mode {
	case "delaystore":
		// directed: every thread advances as far as it can before ANY decrement is written (a thread parked at
		// `put tok-id` is only released when nobody else can move): with the per-token lock around re-read AND
		// store the others block; a re-read outside the lock lets several threads store the same decrement
		for i := 0; i < cs.m; i++ {
			startThread(i)
		}
		pick = func(cand []int, step int) int {
			var free []int
			for k, i := range cand {
				if op := s.Parked(i); op == nil || !(op.Kind == "put" && kc(op.Key) == "tok-id") {
					free = append(free, k)
				}
			}
			if len(free) > 0 {
				return free[rng.Intn(len(free))]
			}
			return rng.Intn(len(cand))
		}
	case "sequential":
		// every request runs to completion before the next one starts
		for i := 0; i < cs.m; i++ {
			startThread(i)
		}
		order := make([]int, cs.m)
		for i := range order {
			order[i] = i
		}
		for i := len(order) - 1; i > 0; i-- {
			j := rng.Intn(i + 1)
			order[i], order[j] = order[j], order[i]
		}
		rank := map[int]int{}
		for r, i := range order {
			rank[i] = r
		}
		pick = func(cand []int, step int) int {
			best := 0
			for k, i := range cand {
				if rank[i] < rank[cand[best]] {
					best = k
				}
			}
			return best
		}
	case "latelease":
		// directed (finding F13): thread 0 runs until it is about to write a lease record, then thread 1 runs to
		// completion (last use, revocation), then thread 0 registers its lease
		for i := 0; i < cs.m; i++ {
			startThread(i)
		}
		pick = func(cand []int, step int) int {
			want := 0
			if p0 := s.Parked(0); p0 != nil && p0.Kind == "put" && strings.HasPrefix(vhKeyClass(p0.Key), "lease-") && !s.Finished(1) {
				want = 1
			}
			for k, i := range cand {
				if i == want {
					return k
				}
			}
			return 0
		}
	case "burst":
		// a thread keeps running for a random number of steps before the scheduler switches
		for i := 0; i < cs.m; i++ {
			startThread(i)
		}
		cur, left := -1, 0
		pick = func(cand []int, step int) int {
			if left > 0 {
				for k, i := range cand {
					if i == cur {
						left--
						return k
					}
				}
			}
			k := rng.Intn(len(cand))
			cur, left = cand[k], rng.Intn(5)
			return k
		}
	default:
		for i := 0; i < cs.m; i++ {
			startThread(i)
		}
		pick = func(cand []int, step int) int { return rng.Intn(len(cand)) }
	}
	// the request that performs the n-th decrement is the last use: when it has returned, its deferred
	// LazyRevoke has queued the revocation; wait for the expiration worker (never gated) to finish it, so that
	// the worker's effect has a definite place in the observed schedule (`bg`)
	puts, lastUser := 0, -1
	hk := c19Hooks{
		keyClass: kc,
		onEv: func(i int, op *vhOp) {
			if op.Kind == "put" && kc(op.Key) == "tok-id" {
				puts++
				if puts == cs.n {
					lastUser = i
				}
			}
		},
		afterDone: func(i int) {
			if i != lastUser {
				return
			}
			st := c19TokenState(c, salted)
			for waited := 0; st != "gone" && waited < 2000; waited++ {
				time.Sleep(time.Millisecond)
				st = c19TokenState(c, salted)
			}
			out.Op(st, "bg")
		},
	}
	ok := c19RunSchedule(out, s, cs.m, pick, hk)
	s.Drain(2000)
	if !ok {
		return
	}
	// the last use queues the revocation; the expiration worker performs it in the background
	st := c19TokenState(c, salted)
	for waited := 0; st == "pending" && waited < 500; waited++ {
		time.Sleep(10 * time.Millisecond)
		st = c19TokenState(c, salted)
	}
	out.Op(st, "final")
	_, issued, revoked := rec.Snapshot()
	for waited := 0; st == "gone" && len(revoked) < len(issued) && waited < 300; waited++ {
		time.Sleep(10 * time.Millisecond)
		_, issued, revoked = rec.Snapshot()
	}
	out.Op(vh.Sprintf("issued:%d/revoked:%d", len(issued), len(revoked)), "leases")
	ak := c19Kinds[rng.Intn(len(c19Kinds))]
	out.Op(vh.Catch(func() string { return c19Issue(c, ak, tok, 99) }), "after", ak)
}

// c19SealDenied: the use-counting entry points OUTSIDE handleRequest — Core.sealInitCommon (sys/seal) — with a token
// that has no permission to seal: n-1 uses are spent on leased secrets, the last one on the denied seal request. The
// token has then authorised n requests: it must be revoked together with the leases it obtained, like after a last
// use that went through handleRequest. Op line: sealdenied <n> => <class of the seal request>|token:<state>|leases:<issued>/<revoked>
func c19SealDenied(t *testing.T, out *vh.Out) {
	for n := 1; n <= 3; n++ {
		_, c, root, rec := c19Setup(t)
		tok := vhCreateToken(t, c, root, map[string]any{"ttl": "1h", "policies": []string{"default", "c19"}, "num_uses": n})
		salted := c19Salted(t, c, tok)
		out.Reset()
		for i := 0; i < n-1; i++ {
			if cl := c19Issue(c, "lease", tok, i); cl != "ok+secret" {
				t.Fatalf("c19 sealdenied set-up lease %d: %s", i, cl)
			}
		}
		req := &logical.Request{Operation: logical.UpdateOperation, Path: "sys/seal", ClientToken: tok}
		req.SetTokenEntry(nil)
		err := c.SealWithRequest(vhRootCtx(), req)
		cl := "ok"
		switch {
		case err != nil && strings.Contains(err.Error(), "permission denied"):
			cl = "denied"
		case err != nil:
			cl = "err"
		}
		if c.Sealed() {
			cl += "+sealed"
		}
		state := "sealed"
		if !c.Sealed() {
			for i := 0; i < 200; i++ { // the revocation is synchronous; the leases' backend calls follow
				if _, _, rv := rec.Snapshot(); len(rv) >= n-1 {
					break
				}
				time.Sleep(5 * time.Millisecond)
			}
			state = c19TokenState(c, salted)
		}
		_, issued, revoked := rec.Snapshot()
		viol := ""
		if state != "gone" && state != "sealed" {
			viol = "!VIOL:token entry not revoked after its last use (a denied sys/seal): " + state + "#spent-token-not-revoked-after-denied-seal"
		}
		out.Op(fmt.Sprintf("%s|token:%s|leases:%d/%d%s", cl, state, len(issued), len(revoked), viol), "sealdenied", vh.I(int64(n)))
		_ = c.Shutdown()
	}
}

// c19SealDeniedNs: the same entry point with a token OF A CHILD NAMESPACE (created through c19sd/auth/token/create):
// its entry lives in the child namespace's token store, so the revocation of the spent token has to run there.
// Op line: sealdenied <n> ns => denied|token:<state>
func c19SealDeniedNs(t *testing.T, out *vh.Out) {
	for n := 1; n <= 2; n++ {
		_, c, root, _ := c19Setup(t)
		if cl, _ := vhReq(c, logical.UpdateOperation, "sys/namespaces/c19sd", root, nil); cl != "ok" {
			t.Fatalf("namespace: %s", cl)
		}
		cl, resp := vhReq(c, logical.UpdateOperation, "c19sd/auth/token/create", root, map[string]any{"ttl": "1h", "policies": []string{"default"}, "num_uses": n})
		if cl != "ok" || resp == nil || resp.Auth == nil {
			t.Fatalf("token in child namespace: %s", cl)
		}
		tok := resp.Auth.ClientToken
		out.Reset()
		for i := 0; i < n-1; i++ {
			if cl, _ := vhReq(c, logical.ReadOperation, "c19sd/auth/token/lookup-self", tok, nil); cl != "ok" {
				t.Fatalf("c19 sealdenied ns set-up use %d: %s", i, cl)
			}
		}
		req := &logical.Request{Operation: logical.UpdateOperation, Path: "sys/seal", ClientToken: tok}
		req.SetTokenEntry(nil)
		err := c.SealWithRequest(vhRootCtx(), req)
		rcl := "ok"
		switch {
		case err != nil && strings.Contains(err.Error(), "permission denied"):
			rcl = "denied"
		case err != nil:
			rcl = "err"
		}
		state := "sealed"
		if !c.Sealed() {
			state = "alive"
			for i := 0; i < 300; i++ {
				// root may look the token up by accessor-free lookup in the child namespace
				if lcl, _ := vhReq(c, logical.UpdateOperation, "c19sd/auth/token/lookup", root, map[string]any{"token": tok}); lcl != "ok" {
					state = "gone"
					break
				}
				time.Sleep(5 * time.Millisecond)
			}
		}
		viol := ""
		if state == "alive" {
			viol = "!VIOL:token of a child namespace not revoked after its last use (a denied sys/seal)#spent-ns-token-not-revoked-after-denied-seal"
		}
		out.Op(fmt.Sprintf("%s|token:%s%s", rcl, state, viol), "sealdenied", vh.I(int64(n)), "ns")
		_ = c.Shutdown()
	}
}

// c19BatchUses: batch tokens are not stored, so a use count cannot be enforced on them: a create request (or a role) that
// asks for a use-limited batch token must be refused — never answered with a token that is reported as num_uses = n and
// serves any number of requests. Op line: batchuses <how> => refused | issued|uses:<requests it authorised, capped at n+3>
// c19AuthFactory: a credential backend whose login returns an Auth with the requested use limit
func c19AuthFactory(ctx context.Context, conf *logical.BackendConfig) (logical.Backend, error) {
	b := &framework.Backend{BackendType: logical.TypeCredential, PathsSpecial: &logical.Paths{Unauthenticated: []string{"login"}}}
	b.Paths = []*framework.Path{{
		Pattern: "login",
		Fields:  map[string]*framework.FieldSchema{"uses": {Type: framework.TypeInt}},
		Callbacks: map[logical.Operation]framework.OperationFunc{
			logical.UpdateOperation: func(ctx context.Context, req *logical.Request, d *framework.FieldData) (*logical.Response, error) {
				return &logical.Response{Auth: &logical.Auth{Policies: []string{"default"}, DisplayName: "c19user", NumUses: d.Get("uses").(int),
					LeaseOptions: logical.LeaseOptions{TTL: time.Hour, Renewable: true}}}, nil
			},
		},
	}}
	if err := b.Setup(ctx, conf); err != nil {
		return nil, err
	}
	return b, nil
}

func c19BatchUses(t *testing.T, out *vh.Out) {
	for _, how := range []string{"params", "params-emax0", "params-period0", "role", "role-default-batch", "login-mount-batch"} {
		var c *Core
		var root string
		if how == "login-mount-batch" {
			// a LOGIN whose token type is forced to batch by the mount's token_type tuning, the auth method asking for a use limit
			p := vhNewPhys(t)
			c, _, root = vhNewCore(t, p, nil, func(conf *CoreConfig) { conf.CredentialBackends["c19auth"] = c19AuthFactory })
		} else {
			_, c, root, _ = c19Setup(t)
		}
		out.Reset()
		const n = 1
		var tok string
		res := "refused"
		switch how {
		case "params", "params-emax0", "params-period0":
			d := map[string]any{"type": "batch", "ttl": "1h", "policies": []string{"default"}, "num_uses": n}
			if how == "params-emax0" {
				d["explicit_max_ttl"] = "0"
			}
			if how == "params-period0" {
				d["explicit_max_ttl"] = "0"
				d["period"] = "0"
			}
			if cl, resp := vhReq(c, logical.UpdateOperation, "auth/token/create", root, d); cl == "ok" && resp != nil && resp.Auth != nil {
				tok = resp.Auth.ClientToken
			}
		case "login-mount-batch":
			if cl, _ := vhReq(c, logical.UpdateOperation, "sys/auth/c19b", root, map[string]any{"type": "c19auth", "config": map[string]any{"token_type": "batch"}}); cl != "ok" {
				t.Fatalf("auth mount: %s", cl)
			}
			if cl, resp := vhReq(c, logical.UpdateOperation, "auth/c19b/login", "", map[string]any{"uses": n}); cl == "ok" && resp != nil && resp.Auth != nil {
				if resp.Auth.TokenType == logical.TokenTypeBatch {
					tok = resp.Auth.ClientToken
				} else {
					res = "service"
				}
			}
		case "role", "role-default-batch":
			tt := "batch"
			if how == "role-default-batch" {
				tt = "default-batch"
			}
			rcl, _ := vhReq(c, logical.UpdateOperation, "auth/token/roles/c19batch", root, map[string]any{"token_type": tt, "token_num_uses": n, "orphan": true})
			if rcl == "ok" {
				if cl, resp := vhReq(c, logical.UpdateOperation, "auth/token/create/c19batch", root, map[string]any{"ttl": "1h", "policies": []string{"default"}}); cl == "ok" && resp != nil && resp.Auth != nil {
					if resp.Auth.TokenType == logical.TokenTypeBatch {
						tok = resp.Auth.ClientToken
					} else {
						res = "service" // a service token: its use count is enforced (covered by the trace cases)
					}
				}
			}
		}
		if tok != "" {
			uses := 0
			for i := 0; i < n+3; i++ {
				if cl, _ := vhReq(c, logical.ReadOperation, "auth/token/lookup-self", tok, nil); cl != "ok" {
					break
				}
				uses++
			}
			res = fmt.Sprintf("issued|uses:%d", uses)
			if uses > n {
				res += fmt.Sprintf("!VIOL:a batch token issued with num_uses=%d authorised %d requests (batch tokens are not stored: the count is never enforced)#batch-token-use-limit-unenforced", n, uses)
			}
		}
		out.Op(res, "batchuses", how)
		_ = c.Shutdown()
	}
}

// c19OrphanRace: the use count against a writer that is not a use — the orphaning loop of revokeInternal (and tidy)
// rewrites a child's token entry with Parent = "". Thread 0 revokes (revoke-orphan) the parent P of a use-limited child C
// and is held right after it has read C's entry (a storage Get that has been performed but has not returned yet); thread 1
// then spends one use of C; thread 0 continues. The decrement
// must survive: C authorises n requests in total. Op line: orphanrace <n> => uses:<authorised requests in total>
func c19OrphanRace(t *testing.T, out *vh.Out) {
	// where thread 0 is held: after the orphaning loop's first read of C's entry (outside C's lock), or after the re-read
	// inside clearParent (with C's lock held: a use of C must then WAIT, not slip through)
	for _, at := range []string{"revokeInternal", "clearParent"} {
	for n := 2; n <= 3; n++ {
		p, c, root, _ := c19Setup(t)
		par := vhCreateToken(t, c, root, map[string]any{"ttl": "2h", "policies": []string{"root"}})
		cl, resp := vhReq(c, logical.UpdateOperation, "auth/token/create", par, map[string]any{"ttl": "1h", "policies": []string{"default"}, "num_uses": n})
		if cl != "ok" || resp == nil || resp.Auth == nil {
			t.Fatalf("orphanrace child: %s", cl)
		}
		child := resp.Auth.ClientToken
		salted := c19Salted(t, c, child)
		out.Reset()
		// thread 0: the revocation of P, held right after the orphaning loop has READ C's entry (outside C's lock)
		hit, release := p.HoldAfterGet("sys/token/id/"+salted, at)
		done0 := make(chan string, 1)
		go func() {
			done0 <- vh.Catch(func() string {
				cl, _ := vhReq(c, logical.UpdateOperation, "auth/token/revoke-orphan", root, map[string]any{"token": par})
				return cl
			})
		}()
		held := false
		select {
		case <-hit:
			held = true
		case <-time.After(3 * time.Second):
		}
		// thread 1: one use of C while thread 0 holds its copy (if thread 0 holds C's lock the use waits for the release)
		done1 := make(chan string, 1)
		go func() {
			cl, _ := vhReq(c, logical.ReadOperation, "auth/token/lookup-self", child, nil)
			done1 <- cl
		}()
		use1 := ""
		select {
		case use1 = <-done1:
		case <-time.After(400 * time.Millisecond):
		}
		release()
		r0 := <-done0
		if use1 == "" {
			use1 = <-done1
		}
		if !held || r0 != "ok" {
			t.Fatalf("orphanrace: revocation of the parent: held=%v result=%s", held, r0)
		}
		total := 0
		if use1 == "ok" {
			total++
		}
		for i := 0; i < n+3; i++ {
			if cl, _ := vhReq(c, logical.ReadOperation, "auth/token/lookup-self", child, nil); cl != "ok" {
				break
			}
			total++
		}
		viol := ""
		if total > n {
			viol = fmt.Sprintf("!VIOL:a token created with num_uses=%d authorised %d requests: a use spent while its parent was being revoked (orphaning rewrite of the entry) was lost#use-count-lost-update-on-orphaning", n, total)
		}
		out.Op(fmt.Sprintf("uses:%d%s", total, viol), "orphanrace", vh.I(int64(n)), at)
		_ = c.Shutdown()
	}
	}
}

// c19NsLast: a token of the ROOT namespace whose policy reaches into a child namespace spends its last use on a request
// into that child namespace (the n-1 uses before it in either namespace). The token (whose entry and lease live in the
// root namespace) must be revoked all the same. Op line: nslast <n> <k> => <class of the last request>|token:<state>
// (k = how many of the earlier uses went into the child namespace)
func c19NsLast(t *testing.T, out *vh.Out) {
	for n := 1; n <= 3; n++ {
		for k := 0; k < n; k += 2 {
			_, c, root, _ := c19Setup(t)
			if cl, _ := vhReq(c, logical.UpdateOperation, "sys/namespaces/c19ns", root, nil); cl != "ok" {
				t.Fatalf("namespace: %s", cl)
			}
			if cl, _ := vhReq(c, logical.UpdateOperation, "sys/policies/acl/c19reach", root, map[string]any{"policy": `
path "c19ns/*" { capabilities = ["read", "list"] }
path "cubbyhole/*" { capabilities = ["read", "update", "create"] }`}); cl != "ok" {
				t.Fatalf("policy: %s", cl)
			}
			tok := vhCreateToken(t, c, root, map[string]any{"ttl": "1h", "policies": []string{"c19reach"}, "num_uses": n})
			salted := c19Salted(t, c, tok)
			out.Reset()
			for i := 0; i < n-1; i++ {
				path := "cubbyhole/x"
				if i < k {
					path = "c19ns/sys/mounts"
				}
				if cl, _ := vhReq(c, logical.ReadOperation, path, tok, nil); cl != "ok" {
					t.Fatalf("c19 nslast set-up use %d on %s: %s", i, path, cl)
				}
			}
			cl, _ := vhReq(c, logical.ReadOperation, "c19ns/sys/mounts", tok, nil)
			state := ""
			for i := 0; i < 300; i++ { // the revocation is queued: the expiration worker deletes the entry
				if state = c19TokenState(c, salted); state == "gone" {
					break
				}
				time.Sleep(5 * time.Millisecond)
			}
			viol := ""
			if state != "gone" {
				viol = "!VIOL:token entry not revoked after its last use (a request into a child namespace): " + state + "#spent-token-not-revoked-after-child-namespace-use"
			}
			out.Op(fmt.Sprintf("%s|token:%s%s", cl, state, viol), "nslast", vh.I(int64(n)), vh.I(int64(k)))
			_ = c.Shutdown()
		}
	}
}

// c19RootLast: a use-limited token WITHOUT an expiry (root policy, no TTL: its lease never expires): "after its last use
// the token is revoked together with the leases issued under it" all the same. Uses 1..n-1 read a leased secret, the
// last one reads the cubbyhole. Op line: rootlast <n> => <class of the last use>|token:<state>|leases:<revoked>/<issued>
func c19RootLast(t *testing.T, out *vh.Out) {
	for n := 1; n <= 3; n++ {
		_, c, root, rec := c19Setup(t)
		tok := vhCreateToken(t, c, root, map[string]any{"policies": []string{"root"}, "num_uses": n})
		salted := c19Salted(t, c, tok)
		out.Reset()
		for i := 0; i < n-1; i++ {
			if cl := c19Issue(c, "lease", tok, i); !strings.HasPrefix(cl, "ok") {
				t.Fatalf("c19 rootlast set-up use %d: %s", i, cl)
			}
		}
		cl := c19Issue(c, "read", tok, 0)
		state := ""
		nrev := 0
		for i := 0; i < 400; i++ {
			_, _, revoked := rec.Snapshot()
			nrev = len(revoked)
			if state = c19TokenState(c, salted); state == "gone" && nrev >= n-1 {
				break
			}
			time.Sleep(5 * time.Millisecond)
		}
		_, issued, _ := rec.Snapshot()
		viol := ""
		if state != "gone" || nrev < len(issued) {
			viol = fmt.Sprintf("!VIOL:a use-limited token without an expiry (root policy, no TTL) is not revoked after its last use: token %s, %d of %d leases issued under it revoked#spent-nonexpiring-token-not-revoked", state, nrev, len(issued))
		}
		out.Op(fmt.Sprintf("%s|token:%s|leases:%d/%d%s", cl, state, nrev, len(issued), viol), "rootlast", vh.I(int64(n)))
		_ = c.Shutdown()
	}
}

// c19LastWrap: "a secret leased on the final use is not returned" — also not inside a wrapping token: the n-th request of
// an n-use token reads a leased secret WITH a wrap TTL. Op line: lastwrap <n> => <class>|wrapped:<0|1>|secret:<0|1>
// (secret: what unwrapping the returned wrapping token, if any, yields carries the leased secret)
func c19LastWrap(t *testing.T, out *vh.Out) {
	for n := 1; n <= 2; n++ {
		_, c, root, _ := c19Setup(t)
		tok := vhCreateToken(t, c, root, map[string]any{"ttl": "1h", "policies": []string{"default", "c19"}, "num_uses": n})
		out.Reset()
		for i := 0; i < n-1; i++ {
			if cl := c19Issue(c, "read", tok, 0); !strings.HasPrefix(cl, "ok") {
				t.Fatalf("c19 lastwrap set-up use %d: %s", i, cl)
			}
		}
		req := &logical.Request{Operation: logical.ReadOperation, Path: "rec/lease/kw", ClientToken: tok, WrapInfo: &logical.RequestWrapInfo{TTL: 5 * time.Minute}}
		req.SetTokenEntry(nil)
		resp, err := c.HandleRequest(vhRootCtx(), req)
		cl := vhClass(resp, err)
		if cl != "ok" {
			cl = "refused"
		}
		wrapped, secret := "0", "0"
		if resp != nil && resp.WrapInfo != nil && resp.WrapInfo.Token != "" {
			wrapped = "1"
			ur := &logical.Request{Operation: logical.UpdateOperation, Path: "sys/wrapping/unwrap", ClientToken: root, Data: map[string]any{"token": resp.WrapInfo.Token}}
			ur.SetTokenEntry(nil)
			if uresp, uerr := c.HandleRequest(vhRootCtx(), ur); uerr == nil && uresp != nil {
				body := ""
				for _, v := range uresp.Data {
					switch x := v.(type) {
					case []byte:
						body += string(x)
					case string:
						body += x
					default:
						body += fmt.Sprintf("%v", x)
					}
				}
				if uresp.Secret != nil || strings.Contains(body, "canary-") || strings.Contains(body, "\"lease_id\":\"rec/") {
					secret = "1"
				}
			}
		}
		if resp != nil && resp.Secret != nil {
			secret = "1"
		}
		res := fmt.Sprintf("%s|wrapped:%s|secret:%s", cl, wrapped, secret)
		if secret == "1" {
			res += "!VIOL:the secret leased on the FINAL use of a use-limited token was handed out" + map[string]string{"1": " inside a wrapping token (which outlives the spent token)", "0": ""}[wrapped] + "#leased-secret-returned-on-final-use"
		}
		out.Op(res, "lastwrap", vh.I(int64(n)))
		_ = c.Shutdown()
	}
}

func TestVerifC19(t *testing.T) {
	out := vh.Open()
	defer out.Close()
	rng := vh.NewRand(vh.Seed())
	c19LastWrap(t, out)
	c19RootLast(t, out)
	c19SealDenied(t, out)
	c19SealDeniedNs(t, out)
	c19OrphanRace(t, out)
	c19BatchUses(t, out)
	c19NsLast(t, out)
	cases := vh.EnvInt("VERIF_C19_CASES", 150)
	if vh.Thorough() {
		cases = vh.EnvInt("VERIF_C19_CASES", 1500)
	}
	c19RunCase(t, out, c19Case{n: 2, m: 2, kinds: []string{"lease", "read"}, mode: "latelease"}, rng.Fork(1<<40))
	for n := 1; n <= 3; n++ {
		kinds := []string{"read", "write", "recread", "denied"}[:n+1]
		c19RunCase(t, out, c19Case{n: n, m: n + 1, kinds: kinds, mode: "delaystore"}, rng.Fork(1<<40+uint64(n)))
	}
	for ci := 0; ci < cases; ci++ {
		r := rng.Fork(uint64(ci))
		cs := c19Case{n: 1 + r.Intn(4)}
		cs.m = cs.n + 1 + r.Intn(3)
		if r.Chance(12) { // fewer requests than uses: the count must simply go down
			cs.m = 1 + r.Intn(cs.n)
		}
		for i := 0; i < cs.m; i++ {
			cs.kinds = append(cs.kinds, c19Kinds[r.Intn(len(c19Kinds))])
		}
		switch x := r.Intn(10); {
		case x < 2:
			cs.mode = "sequential"
		case x < 3:
			cs.mode = "delaystore"
		case x < 5:
			cs.mode = "burst"
		default:
			cs.mode = "random"
		}
		c19RunCase(t, out, cs, r)
	}
}
