//go:build verif

package vault

// C07 — token creation and login never escalate privilege. White-box correspondence harness.
// Streams (both written to the same trace; the driver stream `tokencreate` understands all three op kinds):
//   role    raw role configuration written to auth/token/roles/<fresh name>  => the role as stored (read back)
//   create  caller capabilities, parent token (as stored), endpoint, stored role, request parameters
//           => denied | err:<code> | ok:<the created token: response auth block + lookup>
//   login   auth mount token type + TTLs, the logical.Auth a fake credential backend returns, identity policies
//           => err:<code> | ok:<the created token>
// One real Core per batch of cases; everything random derives from vh.NewRand(vh.Seed()).

import (
	"context"
	"fmt"
	"os"
	"sort"
	"strconv"
	"strings"
	"sync"
	"testing"
	"time"

	"github.com/openbao/openbao/sdk/v2/framework"
	"github.com/openbao/openbao/sdk/v2/logical"
	"github.com/openbao/openbao/v2/internal/helper/namespace"
	"github.com/openbao/openbao/v2/internal/vault/policy"
	"github.com/openbao/openbao/v2/internal/zzverif/vh"
)

// ---------------------------------------------------------------------------------- encoding

func c07List(xs []string) string {
	for _, x := range xs {
		if strings.ContainsAny(x, ",:;|\t\n=") {
			panic("c07: name outside the trace alphabet: " + x)
		}
	}
	return strconv.Itoa(len(xs)) + ":" + strings.Join(xs, ",")
}

func c07B(b bool) string {
	if b {
		return "1"
	}
	return "0"
}

func c07Secs(d time.Duration) string { return vh.I(int64(d / time.Second)) }

// c07Dur: a request duration parameter. kind 0 absent, 1 unparsable, 2 value (seconds).
type c07Dur struct {
	kind int
	secs int64
}

func (d c07Dur) field() string {
	switch d.kind {
	case 0:
		return "-"
	case 1:
		return "bad"
	}
	return vh.I(d.secs)
}

// str renders the value the way a client would send it (several spellings of the same duration).
func (d c07Dur) str(rng *vh.Rand) string {
	switch d.kind {
	case 0:
		return ""
	case 1:
		return rng.Pick([]string{"zz", "1x", "h1"})
	}
	if d.secs >= 0 && d.secs%3600 == 0 && rng.Chance(40) {
		return vh.I(d.secs/3600) + "h"
	}
	if d.secs >= 0 && d.secs%60 == 0 && rng.Chance(30) {
		return vh.I(d.secs/60) + "m"
	}
	if rng.Chance(20) {
		return vh.I(d.secs) + "s"
	}
	return vh.I(d.secs)
}

// error classes by message (the messages are the guards' identity; unknown text is reported verbatim-ish)
var c07ErrTable = [][2]string{
	{"parent token lookup failed: no parent found", "no-parent"},
	{"batch tokens cannot create more tokens", "batch-parent"},
	{"restricted use token cannot generate child tokens", "limited-use"},
	{"required to directly generate a token in a child namespace", "ns-sudo"},
	{"root tokens may not be created from a parent namespace", "ns-root"},
	{"contains invalid token type", "role-type"},
	{"'explicit_max_ttl' value could not be parsed", "batch-emax-parse"},
	{"'period' value could not be parsed", "batch-period-parse"},
	{"batch tokens cannot have \"explicit_max_ttl\" set", "batch-has-emax"},
	{"batch tokens cannot have \"num_uses\" set", "batch-has-uses"},
	{"batch tokens cannot have \"period\" set", "batch-has-period"},
	{"number of uses cannot be negative", "neg-uses"},
	{"'entity_alias' is only allowed in combination with token role", "alias-norole"},
	{"invalid 'entity_alias' value", "alias-invalid"},
	{"required to specify token id", "id-sudo"},
	{"token IDs can only be manually specified in the root namespace", "id-ns"},
	{"must be subset of the role's allowed policies", "role-not-allowed"},
	{"is disallowed by this role", "role-disallowed"},
	{"child policies must be subset of parent", "not-subset"},
	{"cannot assign policy", "non-assignable"},
	{"root tokens may not be created without parent token being root", "root-needs-root"},
	{"batch tokens cannot be root tokens", "batch-root"},
	{"required to create orphan token", "orphan-sudo"},
	{"explicit_max_ttl must be positive", "emax-neg"},
	{"period must be positive", "period-neg"},
	{"ttl must be positive", "ttl-neg"},
	{"lease must be positive", "ttl-neg"},
	{"required to create periodic token", "period-sudo"},
	{"expiring root tokens cannot create non-expiring root tokens", "root-expiring-parent"},
	{"custom token ID cannot have the 'hvs.' prefix", "id-hvs"},
	{"custom token ID cannot have the 's.' prefix", "id-s"},
	{"custom token ID cannot have a '.' in the value", "id-dot"},
	{"cannot create a token with a duplicate ID", "id-dup"},
	{"unknown role", "unknown-role"},
	{"auth methods cannot create root tokens", "login-root"},
	{"max TTL must be greater than zero", "ttl-calc"},
	{"past the max TTL", "ttl-calc"},
	// role writes
	{"given role path suffix contains invalid characters", "role-suffix"},
	{"error registering path suffix", "role-suffix-dotdot"},
	{"error parsing role fields", "role-parse"},
	{"generate non-orphan tokens", "role-batch-orphan"},
	{"generate periodic tokens", "role-batch-period"},
	{"generate renewable tokens", "role-batch-renewable"},
	{"generate tokens with an explicit max TTL", "role-batch-emax"},
	{"generate tokens with limited use count", "role-batch-uses"},
	{"batch tokens cannot have a limited use count", "role-batch-uses"},
	// last: generic texts that are substrings of more specific ones above
	{"invalid 'token_type' value", "bad-type"},
	{"could not parse duration", "dur-parse"},
	{"invalid duration", "dur-parse"},
	{"unknown unit", "dur-parse"},
	{"cannot provide negative value", "role-field"},
	{"error parsing", "dur-parse"},
	{"invalid syntax", "dur-parse"},
}

func c07Class(resp *logical.Response, err error) string {
	msg := ""
	if resp != nil && resp.IsError() {
		msg = resp.Error().Error()
	}
	if err != nil {
		msg += " | " + err.Error()
	}
	if msg == "" {
		return "ok"
	}
	for _, e := range c07ErrTable {
		if strings.Contains(msg, e[0]) {
			return "err:" + e[1]
		}
	}
	if strings.Contains(msg, "permission denied") {
		return "denied"
	}
	if strings.Contains(msg, "internal error") {
		return "err:internal"
	}
	m := strings.Map(func(r rune) rune {
		if r == '\t' || r == '\n' {
			return ' '
		}
		return r
	}, msg)
	if len(m) > 120 {
		m = m[:120]
	}
	return "err:other:" + m
}

func c07Do(c *Core, ctx context.Context, op logical.Operation, path, token string, data map[string]any) (*logical.Response, error) {
	req := &logical.Request{Operation: op, Path: path, ClientToken: token, Data: data}
	req.SetTokenEntry(nil)
	return c.HandleRequest(ctx, req)
}

// ---------------------------------------------------------------------------------- fake credential backend

var (
	c07LoginMu    sync.Mutex
	c07LoginSpecs = map[string]*logical.Auth{}
)

func c07AuthFactory(ctx context.Context, conf *logical.BackendConfig) (logical.Backend, error) {
	b := &framework.Backend{
		BackendType:  logical.TypeCredential,
		PathsSpecial: &logical.Paths{Unauthenticated: []string{"login"}},
	}
	b.Paths = []*framework.Path{{
		Pattern: "login",
		Fields:  map[string]*framework.FieldSchema{"k": {Type: framework.TypeString}},
		Callbacks: map[logical.Operation]framework.OperationFunc{
			logical.UpdateOperation: func(ctx context.Context, req *logical.Request, d *framework.FieldData) (*logical.Response, error) {
				c07LoginMu.Lock()
				a := c07LoginSpecs[d.Get("k").(string)]
				c07LoginMu.Unlock()
				if a == nil {
					return logical.ErrorResponse("c07: no spec"), nil
				}
				return &logical.Response{Auth: a}, nil
			},
		},
	}}
	if err := b.Setup(ctx, conf); err != nil {
		return nil, err
	}
	return b, nil
}

// ---------------------------------------------------------------------------------- environment of one core

// c07NS is one namespace requests are issued in: the root namespace or the child namespace `ns1/`.
type c07NS struct {
	name  string // "root" | "ns1"
	ctx   context.Context
	child bool
	roles []c07Role
	pars  []*c07Parent
}

type c07Parent struct {
	token    string
	home     *c07NS
	policies []string // as stored
	ttl      int64
	uses     int
	batch    bool
	caps     map[string][2]bool // request namespace + path -> (allowed, sudo)
}

type c07Role struct {
	name   string
	stored *tsRoleEntry
}

type c07Env struct {
	t      *testing.T
	c      *Core
	root   string
	ctx    context.Context
	rootNS *c07NS
	ns1    *c07NS
	rng    *vh.Rand
	out    *vh.Out
	seq    int
	mounts []c07Mount
	ents   []c07Entity
}

type c07Mount struct {
	path     string // auth/<x>/
	typ      string
	def, max int64
}

type c07Entity struct {
	alias    string
	policies []string
}

// ACL policies the parents draw from (defined with the same text in both namespaces). `a`: may use every token path,
// no sudo. `b`: may use create and create/<role> but not create-orphan (an exact path, so it shadows a glob of
// another policy). `s`: sudo on every token path. `t`: sudo on create-orphan only. `x`: defined nowhere.
// Root namespace only: `na` / `nsu`: the same as a / s on the CHILD namespace's token paths (for cross-namespace use).
var c07ACL = map[string]string{
	"a": `path "auth/token/*" { capabilities = ["create", "update"] }`,
	"b": `path "auth/token/create" { capabilities = ["update"] }
path "auth/token/create/*" { capabilities = ["update"] }`,
	"s": `path "auth/token/*" { capabilities = ["create", "update", "sudo"] }`,
	"t": `path "auth/token/create-orphan" { capabilities = ["update", "sudo"] }`,
}

var c07ACLRootOnly = map[string]string{
	"na":  `path "ns1/auth/token/*" { capabilities = ["create", "update"] }`,
	"nsu": `path "ns1/auth/token/*" { capabilities = ["create", "update", "sudo"] }`,
}

func (e *c07Env) mustDoCtx(ctx context.Context, what string, op logical.Operation, path, token string, data map[string]any) *logical.Response {
	resp, err := c07Do(e.c, ctx, op, path, token, data)
	if err != nil || (resp != nil && resp.IsError()) {
		e.t.Fatalf("c07 setup %s: %v %v", what, err, resp)
	}
	return resp
}

func (e *c07Env) mustDo(what string, op logical.Operation, path, token string, data map[string]any) *logical.Response {
	return e.mustDoCtx(e.ctx, what, op, path, token, data)
}

func c07NewEnv(t *testing.T, rng *vh.Rand, out *vh.Out) *c07Env {
	p := vhNewPhys(t)
	c, _, root := vhNewCore(t, p, nil, func(conf *CoreConfig) {
		conf.CredentialBackends["c07auth"] = c07AuthFactory
	})
	e := &c07Env{t: t, c: c, root: root, ctx: vhRootCtx(), rng: rng, out: out}
	e.rootNS = &c07NS{name: "root", ctx: e.ctx}
	// the child namespace, its ACL policies, and a lower TTL configuration on ITS token mount
	TestCoreCreateNamespaces(t, c, &namespace.Namespace{Path: "ns1/"})
	nsEntry, err := c.namespaceStore.GetNamespaceByPath(e.ctx, "ns1/")
	if err != nil || nsEntry == nil {
		t.Fatalf("c07 setup: namespace ns1: %v", err)
	}
	e.ns1 = &c07NS{name: "ns1", ctx: namespace.ContextWithNamespace(context.Background(), nsEntry), child: true}
	for name, rules := range c07ACL {
		e.mustDo("policy "+name, logical.UpdateOperation, "sys/policies/acl/"+name, root, map[string]any{"policy": rules})
		e.mustDoCtx(e.ns1.ctx, "ns1 policy "+name, logical.UpdateOperation, "sys/policies/acl/"+name, root, map[string]any{"policy": rules})
	}
	for name, rules := range c07ACLRootOnly {
		e.mustDo("policy "+name, logical.UpdateOperation, "sys/policies/acl/"+name, root, map[string]any{"policy": rules})
	}
	e.mustDoCtx(e.ns1.ctx, "ns1 tune", logical.UpdateOperation, "sys/auth/token/tune", root, map[string]any{"default_lease_ttl": "300s", "max_lease_ttl": "900s"})
	// a token whose id is taken (for the duplicate-id branch)
	e.mustDo("dup token", logical.UpdateOperation, "auth/token/create", root, map[string]any{"id": "c07dup", "policies": []string{"default"}, "ttl": "24h"})
	// auth mounts of the fake credential backend, one per mount token type, with different TTL configurations
	for _, m := range []c07Mount{
		{"auth/c07s/", "default-service", 0, 0},
		{"auth/c07b/", "default-batch", 1800, 7200},
		{"auth/c07v/", "service", 600, 3600},
		{"auth/c07x/", "batch", 0, 900},
	} {
		cfg := map[string]any{"token_type": m.typ}
		if m.def != 0 {
			cfg["default_lease_ttl"] = vh.I(m.def) + "s"
		}
		if m.max != 0 {
			cfg["max_lease_ttl"] = vh.I(m.max) + "s"
		}
		e.mustDo("enable "+m.path, logical.UpdateOperation, "sys/"+strings.TrimSuffix(m.path, "/"), root, map[string]any{"type": "c07auth", "config": cfg})
		sv := c.router.MatchingSystemView(e.ctx, m.path+"login")
		m.def, m.max = int64(sv.DefaultLeaseTTL()/time.Second), int64(sv.MaxLeaseTTL()/time.Second)
		e.mounts = append(e.mounts, m)
	}
	// entities with identity policies (reached through the alias the backend returns); what the identity API
	// accepted is read back, so the trace carries the real identity policies
	e.ents = append(e.ents, c07Entity{alias: ""})
	for _, want := range [][]string{{}, {"b"}, {"a", "default"}, {"response-wrapping"}, {"root"}, {"Zed", "b"}} {
		alias := "ent" + strconv.Itoa(len(e.ents))
		k := "setup-" + alias
		c07LoginMu.Lock()
		c07LoginSpecs[k] = &logical.Auth{Policies: []string{"default"}, Alias: &logical.Alias{Name: alias}, LeaseOptions: logical.LeaseOptions{TTL: time.Hour}}
		c07LoginMu.Unlock()
		got := []string{}
		// an alias belongs to one mount: make the same-named entity behind every auth mount
		for mi, m := range e.mounts {
			resp := e.mustDo("entity login", logical.UpdateOperation, m.path+"login", "", map[string]any{"k": k})
			if resp == nil || resp.Auth == nil || resp.Auth.EntityID == "" {
				t.Fatalf("c07 setup: no entity for %s", alias)
			}
			id := resp.Auth.EntityID
			if len(want) == 0 {
				continue
			}
			r2, err := c07Do(c, e.ctx, logical.UpdateOperation, "identity/entity/id/"+id, root, map[string]any{"policies": want})
			if err == nil && (r2 == nil || !r2.IsError()) && mi == 0 {
				r3 := e.mustDo("entity read", logical.ReadOperation, "identity/entity/id/"+id, root, nil)
				if ps, ok := r3.Data["policies"].([]string); ok {
					got = append(got, ps...)
				}
			}
		}
		e.ents = append(e.ents, c07Entity{alias: alias, policies: got})
	}
	return e
}

// ---------------------------------------------------------------------------------- generators

var c07Names = []string{"default", "a", "b", "s", "t", "root", "x", "ab", "a-b", "prod-x", "dev-a", "response-wrapping", "Default", " a", "ROOT", "b ", "", "A", "root ", "x*", "na", "nsu"}
var c07LoginNames = []string{"default", "a", "b", "x", "ab", "s", "dev-a", "root", "ROOT", " Root ", "response-wrapping", "Default", " a", "b ", "", "A", "x*", "Response-Wrapping", "t", "prod-x"}
var c07Globs = []string{"*", "a*", "*b", "pro*-x", "*-*", "d*", "*oo*", "r*t", "", "default", "x", "dev-*", "**", "a*b*", "*a", "D*", "def*lt"}

func (e *c07Env) pickNames(pool []string, maxN int) []string {
	n := e.rng.Intn(maxN + 1)
	out := make([]string, 0, n)
	for i := 0; i < n; i++ {
		// the first names of the pool are the common ones
		if e.rng.Chance(65) {
			out = append(out, pool[e.rng.Intn(7)])
		} else {
			out = append(out, pool[e.rng.Intn(len(pool))])
		}
	}
	return out
}

func (e *c07Env) pickDur(ref int64) c07Dur {
	switch e.rng.Intn(20) {
	case 0:
		return c07Dur{kind: 1}
	case 1:
		return c07Dur{kind: 2, secs: 0}
	case 2:
		return c07Dur{kind: 2, secs: -int64(1 + e.rng.Intn(100))}
	case 3, 4:
		return c07Dur{kind: 2, secs: ref}
	case 5, 6:
		return c07Dur{kind: 2, secs: ref + 1}
	case 7:
		return c07Dur{kind: 2, secs: ref - 1}
	case 8, 9, 10:
		return c07Dur{kind: 2, secs: int64(e.rng.Intn(400)) * 3600}
	default:
		return c07Dur{kind: 2, secs: int64(1 + e.rng.Intn(7200))}
	}
}

// newParent creates a parent token in namespace `home` (as the root token) and reads its stored form back.
func (e *c07Env) newParent(home *c07NS, uses int) *c07Parent {
	rng := e.rng
	var pols []string
	pool := []string{"default", "a", "b", "s", "t", "x"}
	if !home.child {
		pool = append(pool, "na", "nsu")
	}
	for _, n := range pool {
		if rng.Chance(30) {
			pols = append(pols, n)
		}
	}
	if rng.Chance(85) && !rng.Chance(100*len(pols)/(len(pols)+2)) {
		pols = append(pols, rng.Pick([]string{"a", "a", "s"})) // most parents may at least call the endpoints
	}
	isRoot := !home.child && rng.Chance(12)
	if isRoot {
		pols = append(pols, "root")
	}
	data := map[string]any{"policies": pols, "no_default_policy": true, "num_uses": uses}
	if len(pols) == 0 {
		data["policies"] = []string{"a"}
	}
	if !isRoot && uses == 0 && rng.Chance(3) {
		data["type"] = "batch"
	}
	switch {
	case isRoot && rng.Chance(50): // non-expiring root
	case rng.Chance(50):
		data["ttl"] = "1h"
	default:
		data["ttl"] = vh.I(int64(600+rng.Intn(5000))) + "s"
	}
	resp := e.mustDoCtx(home.ctx, "parent", logical.UpdateOperation, "auth/token/create", e.root, data)
	p := &c07Parent{token: resp.Auth.ClientToken, home: home, caps: map[string][2]bool{}}
	lk := e.mustDoCtx(home.ctx, "parent lookup", logical.UpdateOperation, "auth/token/lookup", e.root, map[string]any{"token": p.token})
	p.policies = append([]string{}, lk.Data["policies"].([]string)...)
	p.ttl = lk.Data["creation_ttl"].(int64)
	p.uses = lk.Data["num_uses"].(int)
	p.batch = lk.Data["type"].(string) == "batch"
	return p
}

// capsOn asks the real core for the parent's capabilities on a path of the request's namespace.
func (e *c07Env) capsOn(p *c07Parent, rns *c07NS, path string) (allowed, sudo bool) {
	key := rns.name + "|" + path
	if v, ok := p.caps[key]; ok {
		return v[0], v[1]
	}
	caps, err := e.c.Capabilities(rns.ctx, p.token, path)
	if err != nil {
		e.t.Fatalf("capabilities: %v", err)
	}
	for _, c := range caps {
		switch c {
		case "root":
			allowed, sudo = true, true
		case "update":
			allowed = true
		case "sudo":
			sudo = true
		}
	}
	p.caps[key] = [2]bool{allowed, sudo}
	return
}

func c07RoleTypeStr(t logical.TokenType) string {
	switch t {
	case logical.TokenTypeDefaultService:
		return "default-service"
	case logical.TokenTypeDefaultBatch:
		return "default-batch"
	case logical.TokenTypeService:
		return "service"
	case logical.TokenTypeBatch:
		return "batch"
	}
	return "other-" + strconv.Itoa(int(t))
}

func c07RoleFields(r *tsRoleEntry) []string {
	if r == nil {
		return []string{"-", "-", "-", "-", "-", "-", "-", "-", "-", "-", "-", "-", "-"}
	}
	return []string{
		c07List(r.AllowedPolicies), c07List(r.DisallowedPolicies), c07List(r.AllowedPoliciesGlob), c07List(r.DisallowedPoliciesGlob),
		c07B(r.Orphan), c07B(r.Renewable), c07B(r.TokenNoDefaultPolicy), c07Secs(r.TokenPeriod), c07Secs(r.TokenExplicitMaxTTL),
		strconv.Itoa(r.TokenNumUses), c07RoleTypeStr(r.TokenType), "s" + r.PathSuffix, c07List(r.AllowedEntityAliases),
	}
}

// genRole writes one role with a fresh name in namespace ns, emits the `role` op and remembers the stored role.
func (e *c07Env) genRole(ns *c07NS) {
	rng := e.rng
	e.seq++
	name := "r" + strconv.Itoa(e.seq)
	allowed, disallowed, aglob, dglob := []string{}, []string{}, []string{}, []string{}
	if rng.Chance(55) {
		allowed = e.pickNames(c07Names, 4)
	}
	if rng.Chance(35) {
		disallowed = e.pickNames(c07Names, 3)
	}
	if rng.Chance(35) {
		aglob = e.pickNames(c07Globs, 3)
	}
	if rng.Chance(25) {
		dglob = e.pickNames(c07Globs, 2)
	}
	orphan, renewable, noDefault := rng.Chance(40), rng.Chance(70), rng.Chance(20)
	period, emax, uses := int64(0), int64(0), 0
	if rng.Chance(30) {
		period = rng.PickInt([]int64{600, 3600, 7200, 100000, 1, 600, 3600, -5})
	}
	if rng.Chance(35) {
		emax = rng.PickInt([]int64{900, 3600, 5000, 86400, 4000000, 1, 900, 3600, -7})
	}
	if rng.Chance(20) {
		uses = int(rng.PickInt([]int64{1, 2, 7, 1, 2, 7, -1}))
	}
	tt := rng.Pick([]string{"-", "-", "-", "-", "-", "service", "batch", "batch", "default-service", "default-batch", "default-batch", "service", "batch", "bogus"})
	if tt == "batch" && rng.Chance(85) {
		orphan, renewable, period, emax = true, false, 0, 0
	}
	suffix := rng.Pick([]string{"", "", "", "", "", "", "v1x", "abc-def", "a", "a/../b", "x..y", "!!", "rev.2x", "v1x", "abc-def"})
	aliases := []string{}
	if rng.Chance(30) {
		aliases = e.pickNames([]string{"alice", "bob*", "*", "Carol", "svc-*", "x", "d"}, 3)
	}
	data := map[string]any{
		"allowed_policies": allowed, "disallowed_policies": disallowed,
		"allowed_policies_glob": aglob, "disallowed_policies_glob": dglob,
		"orphan": orphan, "renewable": renewable, "token_no_default_policy": noDefault,
		"token_period": period, "token_explicit_max_ttl": emax, "token_num_uses": uses,
		"path_suffix": suffix, "allowed_entity_aliases": aliases,
	}
	if tt != "-" {
		data["token_type"] = tt
	}
	resp, err := c07Do(e.c, ns.ctx, logical.UpdateOperation, "auth/token/roles/"+name, e.root, data)
	res := c07Class(resp, err)
	var stored *tsRoleEntry
	if res == "ok" {
		stored, err = e.c.tokenStore.tokenStoreRole(ns.ctx, name)
		if err != nil || stored == nil {
			e.t.Fatalf("role read back: %v", err)
		}
		res = "ok:" + strings.Join(c07RoleFields(stored), "|")
		ns.roles = append(ns.roles, c07Role{name: name, stored: stored})
	}
	e.out.Op(res, "role", c07List(allowed), c07List(disallowed), c07List(aglob), c07List(dglob), c07B(orphan), c07B(renewable), c07B(noDefault),
		vh.I(period), vh.I(emax), strconv.Itoa(uses), tt, "s"+suffix, c07B(suffix == "" || pathSuffixSanitize.MatchString(suffix)), c07List(aliases))
}

func c07Strs(v any) []string {
	switch x := v.(type) {
	case []string:
		return x
	case nil:
		return nil
	}
	return []string{fmt.Sprintf("?%T", v)}
}

func c07I64(v any) int64 {
	switch x := v.(type) {
	case int64:
		return x
	case int:
		return int64(x)
	case nil:
		return 0
	}
	return -999
}

// c07Spec is one creation request (everything but the parent's identity).
type c07Spec struct {
	rns                 *c07NS
	par                 *c07Parent
	ep, roleName        string
	role                *tsRoleEntry
	pols                []string
	noParent, noDefault bool
	renewable, lease    bool
	period, emax, ttl   c07Dur
	uses                int
	idKind, typ, alias  string
}

func (sp *c07Spec) path() string {
	switch sp.ep {
	case "orphan":
		return "auth/token/create-orphan"
	case "role", "norole":
		return "auth/token/create/" + sp.roleName
	}
	return "auth/token/create"
}

// genCreate draws one creation request and runs it.
func (e *c07Env) genCreate() {
	rng := e.rng
	sp := &c07Spec{rns: e.rootNS, renewable: true, idKind: "none", alias: "-", roleName: "-", ep: "create"}
	if rng.Chance(18) {
		sp.rns = e.ns1
	}
	// parent: from the request's namespace, or (child namespace) from the parent namespace
	home := sp.rns
	if sp.rns.child && rng.Chance(45) {
		home = e.rootNS
	}
	switch {
	case rng.Chance(5):
		sp.par = e.newParent(home, int(rng.PickInt([]int64{1, 1, 2, 3, 50})))
	case len(home.pars) < 40 || rng.Chance(2):
		sp.par = e.newParent(home, 0)
		home.pars = append(home.pars, sp.par)
	default:
		sp.par = home.pars[rng.Intn(len(home.pars))]
	}
	// endpoint
	switch r := rng.Intn(100); {
	case r < 40:
	case r < 55:
		sp.ep = "orphan"
	case r < 98 && len(sp.rns.roles) > 0:
		ro := sp.rns.roles[rng.Intn(len(sp.rns.roles))]
		sp.ep, sp.roleName, sp.role = "role", ro.name, ro.stored
	default:
		sp.ep, sp.roleName = "norole", "nosuchrole"
	}
	// parameters
	par, role := sp.par, sp.role
	var pols []string
	switch r := rng.Intn(100); {
	case r < 25:
	case r < 55 && len(par.policies) > 0: // a subset of the parent's, possibly plus one more
		for _, p := range par.policies {
			if rng.Chance(60) {
				pols = append(pols, p)
			}
		}
		if rng.Chance(20) {
			pols = append(pols, rng.Pick(c07Names))
		}
	case r < 80 && role != nil && len(role.AllowedPolicies) > 0:
		for _, p := range role.AllowedPolicies {
			if rng.Chance(60) {
				pols = append(pols, p)
			}
		}
		if rng.Chance(25) {
			pols = append(pols, rng.Pick(c07Names))
		}
	default:
		pols = e.pickNames(c07Names, 3)
	}
	if pols == nil {
		pols = []string{}
	}
	sp.pols = pols
	sp.noParent, sp.noDefault = rng.Chance(10), rng.Chance(25)
	sp.renewable = !rng.Chance(20)
	sysMax := int64(e.c.tokenStore.System().MaxLeaseTTL() / time.Second)
	if rng.Chance(12) {
		sp.period = e.pickDur(sysMax)
	}
	if rng.Chance(25) {
		sp.emax = e.pickDur(sysMax)
	}
	if rng.Chance(55) {
		sp.ttl = e.pickDur(sysMax)
		sp.lease = rng.Chance(8)
	}
	if rng.Chance(10) {
		sp.uses = int(rng.PickInt([]int64{1, 3, 9, 1, 3, 9, -2}))
	}
	if rng.Chance(10) {
		sp.idKind = rng.Pick([]string{"custom", "custom", "custom", "custom", "hvs", "legacy", "dot", "dup"})
	}
	sp.typ = rng.Pick([]string{"", "", "", "", "", "", "", "", "", "", "", "", "", "", "service", "service", "batch", "batch", "batch", "weird"})
	if rng.Chance(5) {
		sp.alias = "=" + rng.Pick([]string{"alice", "bobby", "Carol", "svc-1", "x", "zed"})
	}
	e.runCreate(sp)
}

// directed cases run at the start of every core: the shapes behind known finding F32 and its neighbours
// (root parent — expiring and not —, no ttl / no period, explicit max above and below the mount max).
func (e *c07Env) directedCreates() {
	sysMax := int64(e.c.tokenStore.System().MaxLeaseTTL() / time.Second)
	for _, parTTL := range []string{"", "1h"} {
		data := map[string]any{"policies": []string{"root"}}
		if parTTL != "" {
			data["ttl"] = parTTL
		}
		resp := e.mustDo("directed parent", logical.UpdateOperation, "auth/token/create", e.root, data)
		par := &c07Parent{token: resp.Auth.ClientToken, home: e.rootNS, caps: map[string][2]bool{}}
		lk := e.mustDo("directed parent lookup", logical.UpdateOperation, "auth/token/lookup", e.root, map[string]any{"token": par.token})
		par.policies = append([]string{}, lk.Data["policies"].([]string)...)
		par.ttl = lk.Data["creation_ttl"].(int64)
		// cross-namespace: the parent-namespace root token asks for root in the child namespace, spelled three ways (F33),
		// and for an ordinary token whose TTL the child namespace's own token mount tuning should bound (F34)
		for _, pols := range [][]string{{"root"}, {"ROOT"}, {" root "}, {"Root", "a"}, {"a"}, {}} {
			e.runCreate(&c07Spec{rns: e.ns1, par: par, ep: "create", roleName: "-", pols: pols, renewable: true, idKind: "none", alias: "-"})
		}
		for _, em := range []int64{sysMax + 1, 1000 * sysMax, sysMax, 60} {
			for _, ttl := range []c07Dur{{}, {kind: 2, secs: 0}, {kind: 2, secs: 120}} {
				e.runCreate(&c07Spec{rns: e.rootNS, par: par, ep: "create", roleName: "-", pols: []string{}, renewable: true,
					emax: c07Dur{kind: 2, secs: em}, ttl: ttl, idKind: "none", alias: "-"})
			}
		}
	}
}

// runCreate issues the request of a spec and emits the `create` op.
func (e *c07Env) runCreate(sp *c07Spec) {
	rng := e.rng
	par := sp.par
	path := sp.path()
	allowed, sudo := e.capsOn(par, sp.rns, path)
	sysDef, sysMax := int64(e.c.tokenStore.System().DefaultLeaseTTL()/time.Second), int64(e.c.tokenStore.System().MaxLeaseTTL()/time.Second)
	// the lease TTL maximum configured on the token mount of the REQUEST's namespace (what an operator tuned)
	mountMax := int64(e.c.maxLeaseTTL / time.Second)
	if me := e.c.router.MatchingMountEntry(sp.rns.ctx, "auth/token/create"); me != nil && me.Config.MaxLeaseTTL != 0 {
		mountMax = int64(me.Config.MaxLeaseTTL / time.Second)
	}
	var res string
	for attempt := 0; attempt < 5; attempt++ {
		data := map[string]any{"policies": append([]string{}, sp.pols...)}
		if sp.noParent {
			data["no_parent"] = true
		}
		if sp.noDefault {
			data["no_default_policy"] = true
		}
		if !sp.renewable {
			data["renewable"] = false
		}
		if sp.period.kind != 0 {
			data["period"] = sp.period.str(rng)
		}
		if sp.emax.kind != 0 {
			data["explicit_max_ttl"] = sp.emax.str(rng)
		}
		if sp.ttl.kind != 0 {
			if sp.lease {
				data["lease"] = sp.ttl.str(rng) // deprecated spelling of ttl, used when ttl is absent
			} else {
				data["ttl"] = sp.ttl.str(rng)
			}
		}
		if sp.uses != 0 {
			data["num_uses"] = sp.uses
		}
		e.seq++
		wantID := ""
		switch sp.idKind {
		case "custom":
			wantID = "c07id" + strconv.Itoa(e.seq)
		case "hvs":
			wantID = "hvs.c07" + strconv.Itoa(e.seq)
		case "legacy":
			wantID = "s.c07" + strconv.Itoa(e.seq)
		case "dot":
			wantID = "c07." + strconv.Itoa(e.seq)
		case "dup":
			wantID = "c07dup"
		}
		if wantID != "" {
			data["id"] = wantID
		}
		if sp.typ != "" {
			data["type"] = sp.typ
		}
		if sp.alias != "-" {
			data["entity_alias"] = sp.alias[1:]
		}
		if par.uses > 0 && attempt > 0 {
			// a use-limited parent is consumed by the request: make a fresh one with the same use count for a retry
			par = e.newParent(par.home, par.uses)
			allowed, sudo = e.capsOn(par, sp.rns, path)
		}
		before := time.Now().Unix()
		resp, err := c07Do(e.c, sp.rns.ctx, logical.UpdateOperation, path, par.token, data)
		after := time.Now().Unix()
		res = c07Class(resp, err)
		if res == "ok" {
			if resp == nil || resp.Auth == nil {
				res = "err:no-auth"
			} else {
				res = e.describeCreated(sp.rns, resp.Auth, wantID)
			}
		}
		if before == after {
			break
		}
		res = ""
	}
	if res == "" {
		return
	}
	f := []string{"create", c07B(allowed), c07B(sudo), c07B(sp.rns.child), c07B(par.home != sp.rns), vh.I(sysDef), vh.I(sysMax), vh.I(mountMax),
		c07List(par.policies), vh.I(par.ttl), strconv.Itoa(par.uses), c07B(par.batch), sp.ep, sp.roleName}
	f = append(f, c07RoleFields(sp.role)...)
	f = append(f, c07List(sp.pols), c07B(sp.noParent), c07B(sp.noDefault), c07B(sp.renewable), sp.period.field(), sp.emax.field(), sp.ttl.field(),
		strconv.Itoa(sp.uses), sp.idKind, "t"+sp.typ, sp.alias)
	e.out.Op(res, f...)
}

// describeCreated renders the created token: the response's auth block (A…) and the token looked up afterwards (L…).
// A non-expiring token in a child namespace is revoked by the expiration manager as soon as its lease is registered
// (leaseEntry.nonexpiringToken() accepts the root namespace only), so a lookup races with that revocation: for that
// shape only the response is recorded and the L… fields are written `?` (the driver does the same).
func (e *c07Env) describeCreated(rns *c07NS, a *logical.Auth, wantID string) string {
	if rns.child && a.TTL == 0 {
		return strings.Join([]string{
			"ok",
			"pol=" + c07List(a.Policies), "tpol=" + c07List(a.TokenPolicies), "lpol=?",
			"orphan=" + c07B(a.Orphan), "lorphan=?",
			"type=" + a.TokenType.String(), "ltype=?",
			"ttl=" + c07Secs(a.TTL), "lttl=?",
			"period=" + c07Secs(a.Period), "lperiod=?",
			"emax=" + c07Secs(a.ExplicitMaxTTL), "lemax=?",
			"uses=" + strconv.Itoa(a.NumUses), "luses=?",
			"renewable=" + c07B(a.Renewable), "custom=" + c07B(wantID != "" && a.ClientToken == wantID),
			"path=" + a.CreationPath, "role=?",
		}, ";")
	}
	lk, err := c07Do(e.c, rns.ctx, logical.UpdateOperation, "auth/token/lookup", e.root, map[string]any{"token": a.ClientToken})
	if err != nil || lk == nil || lk.IsError() {
		if os.Getenv("VERIF_DEBUG_C07") != "" {
			fmt.Fprintf(os.Stderr, "c07 lookup failed: token=%q err=%v resp=%v\n", a.ClientToken, err, lk)
		}
		return "err:lookup-failed"
	}
	d := lk.Data
	custom := wantID != "" && (a.ClientToken == wantID || d["id"] == wantID)
	role, _ := d["role"].(string)
	nsp, _ := d["namespace_path"].(string)
	if (nsp != "") != rns.child {
		return "err:wrong-namespace"
	}
	return strings.Join([]string{
		"ok",
		"pol=" + c07List(a.Policies), "tpol=" + c07List(a.TokenPolicies), "lpol=" + c07List(c07Strs(d["policies"])),
		"orphan=" + c07B(a.Orphan), "lorphan=" + c07B(d["orphan"].(bool)),
		"type=" + a.TokenType.String(), "ltype=" + d["type"].(string),
		"ttl=" + c07Secs(a.TTL), "lttl=" + vh.I(c07I64(d["creation_ttl"])),
		"period=" + c07Secs(a.Period), "lperiod=" + vh.I(c07I64(d["period"])),
		"emax=" + c07Secs(a.ExplicitMaxTTL), "lemax=" + vh.I(c07I64(d["explicit_max_ttl"])),
		"uses=" + strconv.Itoa(a.NumUses), "luses=" + vh.I(c07I64(d["num_uses"])),
		"renewable=" + c07B(a.Renewable), "custom=" + c07B(custom),
		"path=" + d["path"].(string), "role=" + role,
	}, ";")
}

// genLogin performs one login against the fake credential backend and emits the `login` op.
func (e *c07Env) genLogin() {
	rng := e.rng
	m := e.mounts[rng.Intn(len(e.mounts))]
	ent := e.ents[0]
	if rng.Chance(45) {
		ent = e.ents[rng.Intn(len(e.ents))]
	}
	pols := e.pickNames(c07LoginNames, 4)
	tpols := e.pickNames(c07Names, 2) // the backend's own TokenPolicies are overwritten by core: must have no influence
	noDefault := rng.Chance(30)
	pickT := func(ref int64) int64 {
		switch rng.Intn(10) {
		case 0, 1, 2, 3:
			return 0
		case 4:
			return ref
		case 5:
			return ref + 1
		case 6:
			return ref - 1
		case 7:
			return int64(rng.Intn(300)) * 3600
		default:
			return int64(1 + rng.Intn(7200))
		}
	}
	ttl, maxTTL, period, emax := pickT(m.max), pickT(m.max), int64(0), int64(0)
	if rng.Chance(25) {
		period = pickT(m.max)
	}
	if rng.Chance(35) {
		emax = pickT(m.max)
	}
	uses := 0
	if rng.Chance(15) {
		uses = 1 + rng.Intn(5)
	}
	renewable := rng.Chance(60)
	tt := logical.TokenType(rng.Intn(5))
	a := &logical.Auth{
		Policies: append([]string{}, pols...), TokenPolicies: tpols, NoDefaultPolicy: noDefault,
		NumUses: uses, Period: time.Duration(period) * time.Second, ExplicitMaxTTL: time.Duration(emax) * time.Second,
		TokenType: tt,
		LeaseOptions: logical.LeaseOptions{TTL: time.Duration(ttl) * time.Second, MaxTTL: time.Duration(maxTTL) * time.Second, Renewable: renewable},
	}
	if ent.alias != "" {
		a.Alias = &logical.Alias{Name: ent.alias}
	}
	e.seq++
	k := "k" + strconv.Itoa(e.seq)
	c07LoginMu.Lock()
	c07LoginSpecs[k] = a
	c07LoginMu.Unlock()
	resp, err := c07Do(e.c, e.ctx, logical.UpdateOperation, m.path+"login", "", map[string]any{"k": k})
	c07LoginMu.Lock()
	delete(c07LoginSpecs, k)
	c07LoginMu.Unlock()
	res := c07Class(resp, err)
	if res == "ok" {
		if resp == nil || resp.Auth == nil || resp.Auth.ClientToken == "" {
			res = "err:no-auth"
		} else {
			ra := resp.Auth
			lk, err := c07Do(e.c, e.ctx, logical.UpdateOperation, "auth/token/lookup", e.root, map[string]any{"token": ra.ClientToken})
			if err != nil || lk == nil || lk.IsError() {
				res = "err:lookup-failed"
			} else {
				d := lk.Data
				res = strings.Join([]string{
					"ok",
					"tpol=" + c07List(c07Strs(d["policies"])), "pol=" + c07List(ra.Policies), "ipol=" + c07List(ra.IdentityPolicies),
					"type=" + d["type"].(string), "ttl=" + vh.I(c07I64(d["creation_ttl"])), "attl=" + c07Secs(ra.TTL),
					"period=" + vh.I(c07I64(d["period"])), "emax=" + vh.I(c07I64(d["explicit_max_ttl"])),
					"uses=" + vh.I(c07I64(d["num_uses"])), "renewable=" + c07B(ra.Renewable), "orphan=" + c07B(d["orphan"].(bool)),
				}, ";")
			}
		}
	}
	ip := append([]string{}, ent.policies...)
	sort.Strings(ip)
	e.out.Op(res, "login", m.typ, vh.I(m.def), vh.I(m.max), c07List(pols), c07List(ip), c07B(noDefault),
		vh.I(ttl), vh.I(maxTTL), vh.I(period), vh.I(emax), strconv.Itoa(uses), c07B(renewable), strconv.Itoa(int(tt)))
}

// retune changes the token mount's default/max lease TTL (the mount maximum of the property).
func (e *c07Env) retune() {
	cfgs := [][2]string{{"0", "0"}, {"1800s", "3600s"}, {"600s", "86400s"}, {"3600s", "3600s"}, {"60s", "7200s"}}
	cfg := cfgs[e.rng.Intn(len(cfgs))]
	e.mustDo("tune", logical.UpdateOperation, "sys/auth/token/tune", e.root, map[string]any{"default_lease_ttl": cfg[0], "max_lease_ttl": cfg[1]})
}

func TestVerifC07Create(t *testing.T) { c07Run(t, true) }
func TestVerifC07Login(t *testing.T)  { c07Run(t, false) }

func c07Run(t *testing.T, creates bool) {
	out := vh.Open()
	defer out.Close()
	rng := vh.NewRand(vh.Seed())
	cores, rolesPer, createsPer, loginsPer := 4, 75, 10000, 3000
	if vh.Thorough() {
		cores, rolesPer, createsPer, loginsPer = 30, 100, 18000, 8000
	}
	cores = vh.EnvInt("VERIF_C07_CORES", cores)
	createsPer = vh.EnvInt("VERIF_C07_CREATES", createsPer)
	for k := 0; k < cores; k++ {
		e := c07NewEnv(t, rng.Fork(uint64(k)), out)
		if creates {
			e.out.Op("ok:"+c07List(policy.NonAssignablePolicies), "table", "nonassignable")
			for i := 0; i < rolesPer; i++ {
				if i%5 == 4 {
					e.genRole(e.ns1)
				} else {
					e.genRole(e.rootNS)
				}
			}
			e.directedCreates()
			for i := 0; i < createsPer; i++ {
				if i%150 == 0 {
					e.retune()
				}
				e.genCreate()
			}
		} else {
			for i := 0; i < loginsPer; i++ {
				e.genLogin()
			}
		}
		_ = e.c.Shutdown()
	}
}
