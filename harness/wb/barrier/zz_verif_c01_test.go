//go:build verif

package barrier

// Correspondence harness for C01 (white-box: sets currentAESGCMVersionByte, reads the keyring). Overlaid into
// internal/vault/barrier at check time; never written into /repo.
//
// A real AESGCMBarrier runs over sdk/physical/inmem. After every barrier write the harness parses the bytes
// that reached the physical backend (term ‖ version ‖ body) and proves with an INDEPENDENT crypto/cipher.NewGCM
// Open (explicit 12-byte nonce split; keys taken from the keyring; AAD chosen by the harness) which
// `Sealed key aad nonce plain` the body is. Between barrier operations the harness plays the adversary on the
// physical store (flip / trunc / extend / transplant / hswap / replay / advset / advdel) and re-describes
// the bytes symbolically (`rec:term:ver:b<n>` when the body is byte-identical to a body the barrier produced,
// else `raw:hdr:len` after checking that no key × AAD candidate opens it).
//
// Direct predicate (evaluated here on the real code's outputs, reported with the `!VIOL:` marker):
//   P1  a barrier write leaves at the storage key a record with header (active term, current version) whose
//       body opens under the active term's key with AAD = path (v2) / none (v1) to exactly the value put, and
//       no 8-byte window of the value occurs in the stored bytes;
//   P2  Get/tx-Get returns a value only if the stored bytes are byte-identical to a record the barrier wrote
//       with that value under the same key (or under any key in the legacy v1 format) — anything altered,
//       truncated, extended, re-headed or transplanted must give an error;
//   P3  `scan`: no 8-byte window of any plaintext of the case and no key material occurs in any physical value.
// Records written under the EMPTY storage key are outside P2 (version 2 binds no AAD for the empty path — see
// the model's `aadFor` and C01.empty_path_relocatable); no server code path writes the empty key.

import (
	"errors"
	"bytes"
	"context"
	"crypto/aes"
	"crypto/cipher"
	"encoding/binary"
	"sort"
	"strconv"
	"strings"
	"testing"

	"github.com/hashicorp/go-hclog"
	"github.com/openbao/openbao/sdk/v2/logical"
	"github.com/openbao/openbao/sdk/v2/physical"
	"github.com/openbao/openbao/sdk/v2/physical/inmem"
	"github.com/openbao/openbao/v2/internal/zzverif/vh"
)

type c01Written struct {
	key   string
	bytes []byte
	ver   byte
	plain []byte
}

type c01Case struct {
	t       *testing.T
	out     *vh.Out
	rng     *vh.Rand
	ctx     context.Context
	inm     physical.Backend
	tb      *TransactionalAESGCMBarrier
	b       *AESGCMBarrier
	rootKey []byte
	bodies  map[string]int // body bytes -> ordinal (= nonce ordinal of the model)
	written []c01Written   // every record the barrier handed to the physical layer, oldest first
	plains  [][]byte       // caller plaintexts of the case (for the canary scan)
	touched map[string]bool
	txFlip  bool
}

func c01Checksum(b []byte) string {
	a, c := 0, 0
	for i, x := range b {
		a = (a + int(x)) % 65521
		c = (c + (i+1)*int(x)) % 65521
	}
	return "u" + strconv.Itoa(len(b)) + "." + strconv.Itoa(a) + "." + strconv.Itoa(c)
}

// independent AEAD: plain NewGCM with the nonce split off by hand (the barrier uses NewGCMWithRandomNonce)
func c01Open(key, body, aad []byte) ([]byte, bool) {
	if len(body) < 28 {
		return nil, false
	}
	blk, err := aes.NewCipher(key)
	if err != nil {
		return nil, false
	}
	g, err := cipher.NewGCM(blk)
	if err != nil {
		return nil, false
	}
	p, err := g.Open([]byte{}, body[:12], body[12:], aad)
	if err != nil {
		return nil, false
	}
	return p, true
}

type c01Key struct {
	id  int // 0 = root key, else the term
	val []byte
}

func (c *c01Case) allKeys() []c01Key {
	ks := []c01Key{{0, c.rootKey}}
	var terms []int
	for t := range c.b.keyring.keys {
		terms = append(terms, int(t))
	}
	sort.Ints(terms)
	for _, t := range terms {
		ks = append(ks, c01Key{t, c.b.keyring.keys[uint32(t)].Value})
	}
	return ks
}

func (c *c01Case) physGet(k string) []byte {
	pe, err := c.inm.Get(c.ctx, k)
	if err != nil {
		c.t.Fatalf("physical get: %v", err)
	}
	if pe == nil {
		return nil
	}
	return pe.Value
}

func (c *c01Case) physPut(k string, v []byte) {
	cp := make([]byte, len(v))
	copy(cp, v)
	if err := c.inm.Put(c.ctx, &physical.Entry{Key: k, Value: cp}); err != nil {
		c.t.Fatalf("physical put: %v", err)
	}
	c.touched[k] = true
}

func c01Aad(a []byte) string {
	if a == nil {
		return "~"
	}
	return vh.Hex(a)
}

// describe a physical value symbolically; viol collects predicate failures
func (c *c01Case) describe(k string, v []byte, viol *string) string {
	if len(v) >= 5+28 {
		if n, ok := c.bodies[string(v[5:])]; ok {
			return "rec:" + vh.U(uint64(binary.BigEndian.Uint32(v[:4]))) + ":" + strconv.Itoa(int(v[4])) + ":b" + strconv.Itoa(n)
		}
		// must not open under any key × AAD candidate: the AEAD idealisation made concrete
		cands := [][]byte{nil, []byte(k)}
		for p := range c.touched {
			if p != "" {
				cands = append(cands, []byte(p))
			}
		}
		for _, key := range c.allKeys() {
			for _, aad := range cands {
				if _, ok := c01Open(key.val, v[5:], aad); ok {
					*viol = "!VIOL:a byte string the barrier never produced opens under a barrier key#forged-body"
					return "forged"
				}
			}
		}
	}
	n := len(v)
	if n > 5 {
		n = 5
	}
	return "raw:" + vh.Hex(v[:n]) + ":" + strconv.Itoa(len(v))
}

func c01HasWindow(hay, needle []byte) bool {
	win := make(map[[8]byte]struct{}, len(needle))
	var w [8]byte
	for i := 0; i+8 <= len(needle); i++ {
		copy(w[:], needle[i:i+8])
		win[w] = struct{}{}
	}
	for i := 0; i+8 <= len(hay); i++ {
		copy(w[:], hay[i:i+8])
		if _, ok := win[w]; ok {
			return true
		}
	}
	return false
}

// after a barrier write to k: parse, open independently, register the body; returns the description of the
// written record `khex=rec:term:ver:b<n>:k<id>:aad:plain`
func (c *c01Case) observeWrite(k string, want []byte, viol *string) string {
	v := c.physGet(k)
	c.touched[k] = true
	if len(v) < 5+28 {
		*viol = "!VIOL:barrier write left fewer than header+overhead bytes#put-not-sealed"
		return vh.HexS(k) + "=short:" + vh.Hex(v)
	}
	term := binary.BigEndian.Uint32(v[:4])
	ver := v[4]
	body := v[5:]
	if _, dup := c.bodies[string(body)]; dup {
		*viol = "!VIOL:the barrier produced the same sealed body twice (nonce reuse)#nonce-reuse"
	}
	n := len(c.bodies)
	c.bodies[string(body)] = n
	desc := vh.HexS(k) + "=rec:" + vh.U(uint64(term)) + ":" + strconv.Itoa(int(ver)) + ":b" + strconv.Itoa(n)
	// which key and which AAD open it?
	found := 0
	var plain []byte
	kd, ad := "k?", "?"
	for _, key := range c.allKeys() {
		for _, aad := range [][]byte{nil, []byte(k)} {
			if aad != nil && len(aad) == 0 {
				continue
			}
			if p, ok := c01Open(key.val, body, aad); ok {
				found++
				plain = p
				kd, ad = "k"+strconv.Itoa(key.id), c01Aad(aad)
			}
		}
	}
	if found != 1 {
		*viol = "!VIOL:written body opens under " + strconv.Itoa(found) + " (key, AAD) candidates#put-not-sealed"
		return desc + ":" + kd + ":" + ad + ":unopened"
	}
	pd := c01Checksum(plain)
	switch k {
	case KeyringPath:
		if kr, err := DeserializeKeyring(plain); err == nil && kd == "k0" && len(kr.keys) > 0 {
			var ts []int
			for t := range kr.keys {
				ts = append(ts, int(t))
			}
			sort.Ints(ts)
			ss := make([]string, len(ts))
			for i, t := range ts {
				ss[i] = strconv.Itoa(t)
			}
			pd = "keyring:" + strings.Join(ss, ",")
		}
	case RootKeyPath:
		if key, err := DeserializeKey(plain); err == nil && bytes.Equal(key.Value, c.rootKey) {
			pd = "rootkey"
		}
	}
	c.written = append(c.written, c01Written{key: k, bytes: append([]byte{}, v...), ver: ver, plain: plain})
	// P1 on a caller write
	if want != nil {
		act := c.b.keyring.ActiveTerm()
		wantAad := "~"
		if ver == AESGCMVersion2 && k != "" {
			wantAad = vh.HexS(k)
		}
		switch {
		case term != act || ver != c.b.currentAESGCMVersionByte:
			*viol = "!VIOL:written header is not (active term, current version)#put-header"
		case kd != "k"+strconv.Itoa(int(act)) || ad != wantAad:
			*viol = "!VIOL:written body is not sealed under the active key with the storage key as AAD#put-binding"
		case !bytes.Equal(plain, want):
			*viol = "!VIOL:written body does not open to the value put#put-plain"
		case len(want) >= 8 && c01HasWindow(v, want):
			*viol = "!VIOL:plaintext fragment in the physical value#plaintext-fragment"
		}
	}
	return desc + ":" + kd + ":" + ad + ":" + pd
}

func c01ErrClass(err error) string {
	s := err.Error()
	switch {
	case strings.Contains(s, "invalid value"):
		return "err:short"
	case strings.Contains(s, "no decryption key available"):
		return "err:noterm"
	case strings.Contains(s, "invalid cipher length"):
		return "err:len"
	case strings.Contains(s, "version bytes mis-match"):
		return "err:version"
	case strings.Contains(s, "message authentication failed"):
		return "err:auth"
	}
	if len(s) > 60 {
		s = s[:60]
	}
	return "err:other:" + strings.ReplaceAll(s, "\t", " ")
}

// P2: a value may be returned only for bytes the barrier itself wrote for that key (or a v1 record)
func (c *c01Case) authentic(k string, val []byte) string {
	cur := c.physGet(k)
	if cur == nil {
		return "!VIOL:Get returned a value for a key absent from the physical backend#value-from-nothing"
	}
	emptyKeyExempt := k == ""
	for _, w := range c.written {
		if bytes.Equal(w.bytes, cur) {
			if !bytes.Equal(w.plain, val) {
				return "!VIOL:Get returned a value different from the one sealed in the record#wrong-value"
			}
			if w.key == k || w.ver == AESGCMVersion1 {
				return ""
			}
			return "!VIOL:Get accepted a version-2 record written under another storage key#transplant-accepted"
		}
		if len(cur) >= 5 && len(w.bytes) == len(cur) && bytes.Equal(w.bytes[5:], cur[5:]) && w.key == "" {
			emptyKeyExempt = true
		}
	}
	if emptyKeyExempt {
		return ""
	}
	return "!VIOL:Get returned a value for stored bytes the barrier never wrote (altered/truncated/re-headed record accepted)#tampered-read-accepted"
}

// storage: the barrier itself (split < 0) or a barrier View (view.go) with prefix k[:split]; returns the storage
// and the key to use with it
func (c *c01Case) storage(k string, split int) (logical.Storage, string) {
	if split < 0 {
		return c.tb, k
	}
	return NewView(c.tb, k[:split]), k[split:]
}

func (c *c01Case) getRes(k string, tx bool, split int) string {
	return vh.Catch(func() string {
		var e *logical.StorageEntry
		var err error
		st, sk := c.storage(k, split)
		if tx {
			var txn logical.Transaction
			c.txFlip = !c.txFlip
			if c.txFlip {
				txn, err = st.(logical.TransactionalStorage).BeginReadOnlyTx(c.ctx)
			} else {
				txn, err = st.(logical.TransactionalStorage).BeginTx(c.ctx)
			}
			if err != nil {
				return "err:other:begin"
			}
			defer txn.Rollback(c.ctx)
			e, err = txn.Get(c.ctx, sk)
		} else {
			e, err = st.Get(c.ctx, sk)
		}
		if err != nil {
			return c01ErrClass(err)
		}
		if e == nil {
			return "none"
		}
		res := "ok:" + vh.Hex(e.Value)
		if len(e.Value) > 0 && e.Value[0] == '{' {
			if key, err := DeserializeKey(e.Value); err == nil && bytes.Equal(key.Value, c.rootKey) {
				res = "ok:rootkey"
			}
		}
		return res + c.authentic(k, e.Value)
	})
}

// a random split of k into view prefix + sub-key (at a '/' boundary, or anywhere), or -1 for the bare barrier
func (c *c01Case) split(k string) int {
	if !c.rng.Chance(35) || strings.Contains(k, "..") {
		return -1
	}
	var cuts []int
	for i := 0; i < len(k); i++ {
		if k[i] == '/' {
			cuts = append(cuts, i+1)
		}
	}
	if len(cuts) == 0 || c.rng.Chance(20) {
		return 0 // empty prefix: the whole key through a view
	}
	return cuts[c.rng.Intn(len(cuts))]
}

func (c *c01Case) opGet(k string, tx bool) {
	name := "get"
	if tx {
		name = "txget"
	}
	if sp := c.split(k); sp >= 0 {
		c.out.Op(c.getRes(k, tx, sp), "v"+name, vh.HexS(k), strconv.Itoa(sp))
		return
	}
	c.out.Op(c.getRes(k, tx, -1), name, vh.HexS(k))
}

func (c *c01Case) opPut(k string, v []byte, tx bool) {
	name := "put"
	if tx {
		name = "txput"
	}
	val := append([]byte{}, v...)
	sp := c.split(k)
	st, sk := c.storage(k, sp)
	sealWrap := c.rng.Chance(20)
	res := vh.Catch(func() string {
		var err error
		if tx {
			var txn logical.Transaction
			txn, err = st.(logical.TransactionalStorage).BeginTx(c.ctx)
			if err != nil {
				return "err:other:begin"
			}
			committed := false
			defer func() {
				if !committed {
					txn.Rollback(c.ctx)
				}
			}()
			err = txn.Put(c.ctx, &logical.StorageEntry{Key: sk, Value: val, SealWrap: sealWrap})
			if err == nil {
				err = txn.Commit(c.ctx)
				committed = true
			}
		} else {
			err = st.Put(c.ctx, &logical.StorageEntry{Key: sk, Value: val, SealWrap: sealWrap})
		}
		if err != nil {
			return c01ErrClass(err)
		}
		viol := ""
		want := v
		if want == nil {
			want = []byte{}
		}
		d := c.observeWrite(k, want, &viol)
		c.plains = append(c.plains, v)
		return "wrote:" + d + viol
	})
	if sp >= 0 {
		c.out.Op(res, "v"+name, vh.HexS(k), vh.Hex(v), strconv.Itoa(sp))
		return
	}
	c.out.Op(res, name, vh.HexS(k), vh.Hex(v))
}

func (c *c01Case) opDelete(k string, tx bool) {
	name := "delete"
	if tx {
		name = "txdelete"
	}
	sp := c.split(k)
	st, sk := c.storage(k, sp)
	res := vh.Catch(func() string {
		var err error
		if tx {
			var txn logical.Transaction
			txn, err = st.(logical.TransactionalStorage).BeginTx(c.ctx)
			if err != nil {
				return "err:other:begin"
			}
			err = txn.Delete(c.ctx, sk)
			if err == nil {
				err = txn.Commit(c.ctx)
			} else {
				txn.Rollback(c.ctx)
			}
		} else {
			err = st.Delete(c.ctx, sk)
		}
		if err != nil {
			return c01ErrClass(err)
		}
		return "done"
	})
	if sp >= 0 {
		c.out.Op(res, "v"+name, vh.HexS(k), strconv.Itoa(sp))
		return
	}
	c.out.Op(res, name, vh.HexS(k))
}

// Encrypt (the in-memory BarrierEncryptor entry point) + a physical put of its output: must be indistinguishable
// from Put
func (c *c01Case) opEncPut(k string, v []byte) {
	res := vh.Catch(func() string {
		ct, err := c.b.Encrypt(c.ctx, k, append([]byte{}, v...))
		if err != nil {
			return c01ErrClass(err)
		}
		c.physPut(k, ct)
		viol := ""
		want := v
		if want == nil {
			want = []byte{}
		}
		d := c.observeWrite(k, want, &viol)
		c.plains = append(c.plains, v)
		return "wrote:" + d + viol
	})
	c.out.Op(res, "encput", vh.HexS(k), vh.Hex(v))
}

// Decrypt applied to whatever bytes are stored under k (tampered or not)
func (c *c01Case) opDec(k string) {
	res := vh.Catch(func() string {
		cur := c.physGet(k)
		if cur == nil {
			return "none"
		}
		p, err := c.b.Decrypt(c.ctx, k, append([]byte{}, cur...))
		if err != nil {
			if strings.Contains(err.Error(), "empty ciphertext") {
				return "err:empty"
			}
			if strings.Contains(err.Error(), "invalid ciphertext term") {
				return "err:short"
			}
			return c01ErrClass(err)
		}
		res := "ok:" + vh.Hex(p)
		if len(p) > 0 && p[0] == '{' {
			if key, err := DeserializeKey(p); err == nil && bytes.Equal(key.Value, c.rootKey) {
				res = "ok:rootkey"
			}
		}
		return res + c.authentic(k, p)
	})
	c.out.Op(res, "dec", vh.HexS(k))
}

func (c *c01Case) opRotate() {
	res := vh.Catch(func() string {
		_, err := c.b.Rotate(c.ctx)
		if err != nil {
			return c01ErrClass(err)
		}
		viol := ""
		d1 := c.observeWrite(KeyringPath, nil, &viol)
		d2 := c.observeWrite(RootKeyPath, nil, &viol)
		return "wrote:" + d1 + "|" + d2 + viol
	})
	c.out.Op(res, "rotate")
}

func (c *c01Case) opSetver(v int) {
	c.b.currentAESGCMVersionByte = byte(v)
	c.out.Op("done", "setver", strconv.Itoa(v))
}

// adversary steps ------------------------------------------------------------------------------------------

func (c *c01Case) physDesc(keys ...string) string {
	viol := ""
	ds := make([]string, len(keys))
	for i, k := range keys {
		ds[i] = c.describe(k, c.physGet(k), &viol)
	}
	return "phys:" + strings.Join(ds, "|") + viol
}

func (c *c01Case) isRec(k string) (rec bool, user bool) {
	v := c.physGet(k)
	if len(v) < 5+28 {
		return false, false
	}
	_, ok := c.bodies[string(v[5:])]
	if !ok {
		return false, false
	}
	for _, w := range c.written {
		if bytes.Equal(w.bytes[5:], v[5:]) {
			return true, !c.metaBody(w)
		}
	}
	return true, true
}

// a body written by Rotate (opaque plaintext length in the model)
func (c *c01Case) metaBody(w c01Written) bool {
	if w.key == KeyringPath {
		_, err := DeserializeKeyring(w.plain)
		return err == nil
	}
	if w.key == RootKeyPath {
		key, err := DeserializeKey(w.plain)
		return err == nil && bytes.Equal(key.Value, c.rootKey)
	}
	return false
}

// an adversary step that does not fit the bytes actually stored (possible only when the code under test wrote
// something else than the record format) is answered `inapplicable`: a disagreement with the model, never a crash
// inapplicable: the generator drew an adversary step that cannot be carried out on the current physical store (a
// position beyond the record, a record that does not exist): nothing was done to the implementation, so nothing is
// written to the trace either (a line would only ask the model about an operation that never happened).
func (c *c01Case) inapplicable(fields ...string) {}

func (c *c01Case) opFlip(k string, pos int, mask byte) {
	v := append([]byte{}, c.physGet(k)...)
	if pos >= len(v) {
		c.inapplicable("flip", vh.HexS(k), strconv.Itoa(pos), strconv.Itoa(int(mask)))
		return
	}
	v[pos] ^= mask
	c.physPut(k, v)
	c.out.Op(c.physDesc(k), "flip", vh.HexS(k), strconv.Itoa(pos), strconv.Itoa(int(mask)))
}

func (c *c01Case) opTrunc(k string, n int) {
	v := c.physGet(k)
	if n > len(v) {
		c.inapplicable("trunc", vh.HexS(k), strconv.Itoa(n))
		return
	}
	c.physPut(k, v[:n])
	c.out.Op(c.physDesc(k), "trunc", vh.HexS(k), strconv.Itoa(n))
}

func (c *c01Case) opExtend(k string, n int) {
	v := append(append([]byte{}, c.physGet(k)...), c.rng.Bytes(n)...)
	c.physPut(k, v)
	c.out.Op(c.physDesc(k), "extend", vh.HexS(k), strconv.Itoa(n))
}

func (c *c01Case) opTransplant(src, dst string) {
	c.physPut(dst, c.physGet(src))
	c.out.Op(c.physDesc(dst), "transplant", vh.HexS(src), vh.HexS(dst))
}

func (c *c01Case) opHswap(k1, k2 string) {
	v1 := append([]byte{}, c.physGet(k1)...)
	v2 := append([]byte{}, c.physGet(k2)...)
	if len(v1) < 5 || len(v2) < 5 {
		c.inapplicable("hswap", vh.HexS(k1), vh.HexS(k2))
		return
	}
	for i := 0; i < 5; i++ {
		v1[i], v2[i] = v2[i], v1[i]
	}
	c.physPut(k1, v1)
	c.physPut(k2, v2)
	c.out.Op(c.physDesc(k1, k2), "hswap", vh.HexS(k1), vh.HexS(k2))
}

func (c *c01Case) opReplay(k string, i int) {
	if i >= len(c.written) {
		c.inapplicable("replay", vh.HexS(k), strconv.Itoa(i))
		return
	}
	c.physPut(k, c.written[i].bytes)
	c.out.Op(c.physDesc(k), "replay", vh.HexS(k), strconv.Itoa(i))
}

func (c *c01Case) opAdvdel(k string) {
	if err := c.inm.Delete(c.ctx, k); err != nil {
		c.t.Fatal(err)
	}
	c.out.Op("done", "advdel", vh.HexS(k))
}

func (c *c01Case) opAdvsetRaw(k string, v []byte) {
	c.physPut(k, v)
	n := len(v)
	if n > 5 {
		n = 5
	}
	c.out.Op(c.physDesc(k), "advset", vh.HexS(k), "raw", vh.Hex(v[:n]), strconv.Itoa(len(v)))
}

func (c *c01Case) opAdvsetRec(k string, term uint32, ver byte, bodyOrd int) {
	var body []byte
	for b, n := range c.bodies {
		if n == bodyOrd {
			body = []byte(b)
		}
	}
	v := make([]byte, 5, 5+len(body))
	binary.BigEndian.PutUint32(v[:4], term)
	v[4] = ver
	v = append(v, body...)
	c.physPut(k, v)
	c.out.Op(c.physDesc(k), "advset", vh.HexS(k), "rec", vh.U(uint64(term)), strconv.Itoa(int(ver)), strconv.Itoa(bodyOrd))
}

// opReunseal: Seal, then Unseal with the root key — the barrier's own reader of core/keyring (Unseal / ReloadKeyring
// read the record from the physical backend, check the term prefix, decrypt with the root key). Last op of a case.
func (c *c01Case) opReunseal() {
	_ = c.tb.Seal()
	res := vh.Catch(func() string {
		err := c.tb.Unseal(c.ctx, c.rootKey)
		if err == nil {
			return "ok"
		}
		s := err.Error()
		switch {
		case errors.Is(err, ErrBarrierNotInit):
			return "err:notinit"
		case errors.Is(err, ErrBarrierInvalidKey):
			return "err:invalidkey"
		case strings.Contains(s, "term mis-match"):
			return "err:term"
		case strings.Contains(s, "invalid cipher length"):
			return "err:len"
		case strings.Contains(s, "version bytes mis-match"):
			return "err:version"
		case strings.Contains(s, "keyring") && (strings.Contains(s, "too short") || strings.Contains(s, "invalid")):
			return "err:short"
		case strings.Contains(s, "deserializ"):
			return "err:notkeyring"
		}
		if len(s) > 60 {
			s = s[:60]
		}
		return "err:other:" + strings.ReplaceAll(s, "\t", " ")
	})
	if res == "panic" {
		res += "!VIOL:Unseal panicked on the keyring record the physical backend holds instead of failing with an error#unseal-panic-on-tampered-keyring"
	}
	c.out.Op(res, "reunseal")
}

// keyringCase: a few writes (and rotations), ONE tampering of core/keyring, then Seal + Unseal
func (c *c01Case) keyringCase(kind, arg int) {
	keys := c.pickKeys()
	for i := 0; i < 3; i++ {
		c.opPut(keys[c.rng.Intn(len(keys))], c.value(), c.rng.Chance(50))
	}
	if c.rng.Chance(40) {
		c.opRotate()
	}
	switch kind {
	case 0:
		c.opTrunc(KeyringPath, arg)
	case 1:
		if arg < 5 {
			c.opFlip(KeyringPath, arg, byte(1+c.rng.Intn(255)))
		} else {
			// a flipped body byte of a record whose length the model does not know (serialised keyring): described to the
			// model as the adversary storing raw bytes with that header and that length
			v := append([]byte{}, c.physGet(KeyringPath)...)
			v[arg%len(v)] ^= byte(1 + c.rng.Intn(255))
			c.opAdvsetRaw(KeyringPath, v)
		}
	case 2:
		c.opAdvdel(KeyringPath)
	case 3:
		c.opTransplant(RootKeyPath, KeyringPath)
	case 4:
		c.opAdvsetRaw(KeyringPath, append(append([]byte{}, c.physGet(KeyringPath)...), c.rng.Bytes(1+arg)...))
	case 5:
		c.opHswap(KeyringPath, keys[0])
	case 6: // untouched
	}
	c.opReunseal()
}

func (c *c01Case) opScan() {
	res := "clean"
	// windows of all caller plaintexts + the keys themselves
	var needles [][]byte
	for _, p := range c.plains {
		if len(p) >= 8 {
			needles = append(needles, p)
		}
	}
	for _, k := range c.allKeys() {
		needles = append(needles, k.val)
	}
	win := map[[8]byte]bool{}
	for _, nd := range needles {
		for i := 0; i+8 <= len(nd); i++ {
			var w [8]byte
			copy(w[:], nd[i:i+8])
			win[w] = true
		}
	}
	keys := []string{KeyringPath, RootKeyPath, LegacyRootKeyPath, ShamirKekPath}
	for k := range c.touched {
		keys = append(keys, k)
	}
	sort.Strings(keys)
outer:
	for _, k := range keys {
		v := c.physGet(k)
		for i := 0; i+8 <= len(v); i++ {
			var w [8]byte
			copy(w[:], v[i:i+8])
			if win[w] {
				res = "clean!VIOL:an 8-byte fragment of a plaintext or key appears in the physical value of " + vh.HexS(k) + "#plaintext-fragment"
				break outer
			}
		}
	}
	c.out.Op(res, "scan")
}

// generators ----------------------------------------------------------------------------------------------

var c01KeyPool = []string{
	"a", "b", "foo/bar", "foo/bar/", "foo/baz", "logical/3f6e1c2a-uuid/deep/er/path", "sys/policy/default",
	"ключ/鍵/🔑", "sp ace/ü", "x", "core/lock",
}

func newC01Case(t *testing.T, out *vh.Out, rng *vh.Rand) *c01Case {
	inm, err := inmem.NewInmem(nil, hclog.NewNullLogger())
	if err != nil {
		t.Fatal(err)
	}
	sb := NewAESGCMBarrier(inm, nil)
	tb, ok := sb.(*TransactionalAESGCMBarrier)
	if !ok {
		t.Fatalf("expected a transactional barrier over inmem, got %T", sb)
	}
	key, _ := tb.GenerateKey()
	ctx := context.Background()
	if err := tb.Initialize(ctx, key, nil); err != nil {
		t.Fatal(err)
	}
	if err := tb.Unseal(ctx, key); err != nil {
		t.Fatal(err)
	}
	out.Reset()
	c := &c01Case{t: t, out: out, rng: rng, ctx: ctx, inm: inm, tb: tb, b: tb.AESGCMBarrier, rootKey: key,
		bodies: map[string]int{}, touched: map[string]bool{}}
	// the two records Initialize wrote (keyring under the root key, root key under term 1)
	viol := ""
	d1 := c.observeWrite(KeyringPath, nil, &viol)
	d2 := c.observeWrite(RootKeyPath, nil, &viol)
	out.Op("wrote:"+d1+"|"+d2+viol, "init")
	return c
}

func (c *c01Case) pickKeys() []string {
	n := 3 + c.rng.Intn(3)
	ks := []string{}
	seen := map[string]bool{}
	for len(ks) < n {
		var k string
		switch r := c.rng.Intn(100); {
		case r < 6:
			k = ""
		case r < 9:
			k = RootKeyPath
		case r < 11:
			k = KeyringPath
		case r < 14:
			k = strings.Repeat("long/", 60) + "k"
		default:
			k = c.rng.Pick(c01KeyPool)
		}
		if !seen[k] {
			seen[k] = true
			ks = append(ks, k)
		}
	}
	return ks
}

func (c *c01Case) value() []byte {
	switch r := c.rng.Intn(100); {
	case r < 8:
		return []byte{}
	case r < 14:
		return c.rng.Bytes(1)
	case r < 20:
		return make([]byte, 8+c.rng.Intn(40)) // zeros
	case r < 30:
		return []byte("CANARY-" + strconv.FormatUint(c.rng.U64(), 36) + "-plaintext-secret-value")
	case r < 32:
		if vh.Thorough() && c.rng.Chance(25) {
			return c.rng.Bytes(65536)
		}
		return c.rng.Bytes(4096)
	case r < 38:
		return c.rng.Bytes(256 + c.rng.Intn(1024))
	default:
		return c.rng.Bytes(1 + c.rng.Intn(64))
	}
}

func (c *c01Case) terms() []uint32 {
	var ts []uint32
	for t := range c.b.keyring.keys {
		ts = append(ts, t)
	}
	sort.Slice(ts, func(i, j int) bool { return ts[i] < ts[j] })
	return ts
}

// one adversary action on key k (which has a physical value), followed by reads
func (c *c01Case) tamper(keys []string, k string) {
	v := c.physGet(k)
	rec, user := c.isRec(k)
	affected := []string{k}
	r := c.rng.Intn(100)
	switch {
	case r < 22 && len(v) > 0: // single-byte flip
		var pos int
		var mask byte
		hdrOnly := !rec || !user
		switch q := c.rng.Intn(10); {
		case q < 2 && len(v) >= 4: // retarget the term to another installed term / a nearby one
			ts := c.terms()
			cur := binary.BigEndian.Uint32(v[:4])
			nt := ts[c.rng.Intn(len(ts))]
			if nt == cur {
				nt = cur + 1
			}
			x := cur ^ nt
			pos = 3
			for p := 0; p < 4; p++ {
				if byte(x>>(8*(3-p))) != 0 {
					pos = p
				}
			}
			mask = byte(x >> (8 * (3 - pos)))
		case q < 4 && len(v) >= 5: // version byte
			pos = 4
			mask = []byte{3, 1, 2, 0x80, 0xff}[c.rng.Intn(5)]
		case q < 5 && len(v) >= 5:
			pos = c.rng.Intn(5)
			mask = byte(1 << c.rng.Intn(8))
		default:
			if hdrOnly {
				n := len(v)
				if n > 5 {
					n = 5
				}
				pos = c.rng.Intn(n)
			} else {
				cands := []int{5, 16, 17, len(v) - 17, len(v) - 16, len(v) - 1, 5 + c.rng.Intn(len(v)-5)}
				pos = cands[c.rng.Intn(len(cands))]
				if pos < 5 || pos >= len(v) {
					pos = len(v) - 1
				}
			}
			mask = []byte{1, 0x80, 0xff, byte(1 + c.rng.Intn(255))}[c.rng.Intn(4)]
		}
		if mask == 0 {
			mask = 1
		}
		c.opFlip(k, pos, mask)
	case r < 36 && rec && user: // truncation
		cands := []int{0, 1, 3, 4, 5, 6, 16, 17, 32, 33, len(v) - 1, c.rng.Intn(len(v))}
		n := cands[c.rng.Intn(len(cands))]
		if n >= len(v) {
			n = len(v) - 1
		}
		c.opTrunc(k, n)
	case r < 42 && rec && user:
		c.opExtend(k, 1+c.rng.Intn(3))
	case r < 58: // transplant to another key
		dst := keys[c.rng.Intn(len(keys))]
		if dst == k {
			dst = k + "/moved"
		}
		c.opTransplant(k, dst)
		affected = []string{dst}
	case r < 68: // header swap with another stored value of >= 5 bytes
		var other string
		found := false
		for _, o := range keys {
			if o != k && len(c.physGet(o)) >= 5 {
				other, found = o, true
			}
		}
		if found && len(v) >= 5 {
			c.opHswap(k, other)
			affected = []string{k, other}
		} else {
			c.opAdvdel(k)
		}
	case r < 82 && len(c.written) > 0: // replay: prefer an older record of the same key
		var same []int
		for i, w := range c.written {
			if w.key == k {
				same = append(same, i)
			}
		}
		i := c.rng.Intn(len(c.written))
		if len(same) > 0 && c.rng.Chance(70) {
			i = same[c.rng.Intn(len(same))]
		}
		c.opReplay(k, i)
	case r < 90: // attacker bytes with a plausible header
		ts := c.terms()
		l := []int{0, 2, 4, 5, 6, 20, 33, 34, 60}[c.rng.Intn(9)]
		raw := c.rng.Bytes(l)
		if l >= 4 && c.rng.Chance(80) {
			binary.BigEndian.PutUint32(raw[:4], ts[c.rng.Intn(len(ts))])
		}
		if l >= 5 && c.rng.Chance(80) {
			raw[4] = byte(1 + c.rng.Intn(2))
		}
		c.opAdvsetRaw(k, raw)
	case r < 97 && len(c.bodies) > 0: // any header in front of any body the barrier produced
		ts := append(c.terms(), 0, 7, 4294967295)
		c.opAdvsetRec(k, ts[c.rng.Intn(len(ts))], []byte{0, 1, 2, 2, 2, 3, 255}[c.rng.Intn(7)], c.rng.Intn(len(c.bodies)))
	default:
		c.opAdvdel(k)
	}
	for _, a := range affected {
		c.opGet(a, false)
		if c.rng.Chance(50) {
			c.opGet(a, true)
		}
		if c.rng.Chance(30) {
			c.opDec(a)
		}
	}
}

func (c *c01Case) randomCase(nops int) {
	keys := c.pickKeys()
	for i := 0; i < nops; i++ {
		k := keys[c.rng.Intn(len(keys))]
		switch r := c.rng.Intn(100); {
		case r < 21:
			c.opPut(k, c.value(), false)
		case r < 24:
			c.opEncPut(k, c.value())
		case r < 30:
			c.opPut(k, c.value(), true)
		case r < 42:
			c.opGet(k, false)
		case r < 45:
			c.opDec(k)
		case r < 50:
			c.opGet(k, true)
		case r < 53:
			c.opDelete(k, false)
		case r < 55:
			c.opDelete(k, true)
		case r < 61:
			c.opRotate()
		case r < 66:
			switch q := c.rng.Intn(20); {
			case q < 9:
				c.opSetver(1)
			case q < 18:
				c.opSetver(2)
			default:
				c.opSetver([]int{0, 3, 255}[c.rng.Intn(3)])
			}
		default:
			// adversary: needs a stored value
			var have []string
			for _, o := range keys {
				if c.physGet(o) != nil {
					have = append(have, o)
				}
			}
			if len(have) == 0 {
				c.opPut(k, c.value(), false)
				continue
			}
			c.tamper(keys, have[c.rng.Intn(len(have))])
		}
	}
	c.opSetver(2)
	for _, k := range keys {
		c.opGet(k, false)
	}
	c.opScan()
}

// directed sweep over ONE record: every header bit, every byte position (or a sample), every truncation length,
// extensions, each followed by plain and transactional reads; the record is restored by `replay` in between
func (c *c01Case) sweepCase(ver int, vlen int, everyPos bool, rotations int) {
	k := "sweep/key"
	for i := 0; i < rotations; i++ {
		c.opRotate()
	}
	c.opSetver(ver)
	val := c.rng.Bytes(vlen)
	nw := len(c.written)
	c.opPut(k, val, false)
	idx := nw // the record this put should have appended
	total := 5 + 28 + vlen
	c.opSetver(2)
	check := func() {
		c.opGet(k, false)
		c.opGet(k, true)
		c.opDec(k)
		c.opReplay(k, idx)
	}
	for pos := 0; pos < 5; pos++ {
		for bit := 0; bit < 8; bit++ {
			c.opFlip(k, pos, byte(1<<bit))
			check()
		}
	}
	for pos := 5; pos < total; pos++ {
		if !everyPos && !(pos < 7 || pos == 16 || pos == 17 || pos >= total-17 && pos <= total-15 || pos == total-1 || c.rng.Chance(10)) {
			continue
		}
		c.opFlip(k, pos, byte(1<<c.rng.Intn(8)))
		check()
	}
	for n := 0; n < total; n++ {
		c.opTrunc(k, n)
		check()
	}
	for n := 1; n <= 3; n++ {
		c.opExtend(k, n)
		check()
	}
	c.opGet(k, false)
	c.opScan()
}

// the empty storage path: version 2 binds no AAD there (documented boundary, pinned by the correspondence)
func (c *c01Case) emptyPathCase() {
	c.opSetver(2)
	c.opPut("", []byte("value-under-the-empty-key"), false)
	c.opPut("other", []byte("value-under-other"), false)
	c.opTransplant("", "moved")
	c.opGet("moved", false) // still bound: AAD = "moved" vs none
	c.opFlip("moved", 4, 3) // re-head as version 1: no AAD on either side
	c.opGet("moved", false)
	c.opTransplant("other", "")
	c.opGet("", false)
	c.opFlip("", 4, 3)
	c.opGet("", false)
	c.opSetver(1)
	c.opPut("legacy", []byte("legacy-format-value"), false)
	c.opSetver(2)
	c.opTransplant("legacy", "elsewhere")
	c.opGet("elsewhere", false) // legacy records are relocatable
	c.opFlip("elsewhere", 4, 3)
	c.opGet("elsewhere", false) // … but cannot be re-headed as version 2 under a non-empty key
	c.opTransplant("elsewhere", "")
	c.opGet("", true)
	c.opScan()
}

func TestVerifC01(t *testing.T) {
	out := vh.Open()
	defer out.Close()
	rng := vh.NewRand(vh.Seed())

	// directed cases first
	newC01Case(t, out, rng.Fork(1)).emptyPathCase()
	sweeps := []struct{ ver, vlen, rot int }{{2, 16, 0}, {1, 16, 1}, {2, 0, 2}, {2, 1, 0}}
	if vh.Thorough() {
		sweeps = append(sweeps, []struct{ ver, vlen, rot int }{{2, 256, 1}, {1, 200, 0}, {2, 64, 3}, {1, 0, 0}, {2, 31, 0}}...)
	}
	for i, s := range sweeps {
		newC01Case(t, out, rng.Fork(uint64(100+i))).sweepCase(s.ver, s.vlen, true, s.rot)
	}
	// the barrier's own reader of the keyring record, on every kind of tampering (truncations to 0..6 bytes first)
	ki := 0
	for _, n := range []int{0, 1, 2, 3, 4, 5, 6, 17, 33} {
		newC01Case(t, out, rng.Fork(uint64(500+ki))).keyringCase(0, n)
		ki++
	}
	for _, pos := range []int{0, 1, 3, 4, 5, 12, 30} {
		newC01Case(t, out, rng.Fork(uint64(500+ki))).keyringCase(1, pos)
		ki++
	}
	for kind := 2; kind <= 6; kind++ {
		newC01Case(t, out, rng.Fork(uint64(500+ki))).keyringCase(kind, 2)
		ki++
	}
	ncases := vh.EnvInt("VERIF_C01_CASES", 1500)
	if vh.Thorough() {
		ncases = vh.EnvInt("VERIF_C01_CASES", 20000)
	}
	for i := 0; i < ncases; i++ {
		r := rng.Fork(uint64(1000 + i))
		c := newC01Case(t, out, r)
		c.randomCase(20 + r.Intn(50))
	}
}
