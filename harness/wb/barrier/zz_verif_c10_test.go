//go:build verif

package barrier

// Correspondence harness for C10, barrier level (white-box: b.keyring, b.cache, b.sealed).  Overlaid into
// internal/vault/barrier at check time; never written into /repo.
//
// One case = one physical store, an ACTIVE barrier `a` and a STANDBY barrier `b` (a second barrier object over
// the same store).  Every operation is written as one protocol line and compared with the symbolic model
// lean/Obao/Model/SealKeys.lean (stream `sealkeys`).  Cryptography is made concrete here: every real key has a
// name (root / seal keys are named by the harness, term keys by first observation) and `dump` reports, for every
// physical entry, WHICH named key opens it — established by an independent crypto/cipher GCM Open with the path
// as AAD — and what is inside.  The store records a snapshot after every physical write, so that `crash k key`
// starts a FRESH barrier on the store as it was after the k-th write of the last operation.
//
// The property predicate is evaluated here on the real outputs (marker `!VIOL:`), independently of the model:
//   P2 an Unseal that leaves the sealed state was given a key that really opens the stored keyring;
//   P3 after such an unseal every entry written earlier reads back with its last value;
//   P4 the term in the header of a freshly written record is the newest term (1 + number of successful rotations);
//   P5 Seal leaves no key material (keyring nil, AEAD cache empty, previous key bytes zeroed);
//   P6 after every crash prefix of an operation one of the root keys the operator holds unseals a fresh barrier,
//      every earlier entry reads back, and the upgrade walk of a new leader (performKeyUpgrades) succeeds;
//   P7 a standby that completed the upgrade walk holds the active node's keyring;
//   P8 VerifyRoot accepts only the in-memory root key.
// `fail k` arms a single storage fault (the k-th physical write of the next operation fails).
// (P1, "sealed serves nothing", is evaluated in props/C10.py from the op lines alone.)

import (
	"strconv"
	"bytes"
	"context"
	"crypto/aes"
	"crypto/cipher"
	"encoding/binary"
	"errors"
	"fmt"
	"regexp"
	"sort"
	"strings"
	"sync"
	"testing"
	"time"

	log "github.com/hashicorp/go-hclog"
	"github.com/openbao/openbao/sdk/v2/logical"
	"github.com/openbao/openbao/sdk/v2/physical"
	"github.com/openbao/openbao/sdk/v2/physical/inmem"
	"github.com/openbao/openbao/v2/internal/helper/namespace"
	"github.com/openbao/openbao/v2/internal/zzverif/vh"
)

// c10Store: inmem (transactions disabled, so NewAESGCMBarrier returns the plain barrier) + a mirror map used to
// snapshot the store after every write.
type c10Store struct {
	physical.Backend
	mu    sync.Mutex
	data  map[string][]byte
	snaps []map[string][]byte // snaps[0] = store before the operation, snaps[k] = after its k-th write
	failAt int                // fault plan: the write number failAt (0-based) of the current operation fails; -1 = none
	nWr    int
}

var c10ErrInjected = errors.New("c10: injected storage failure")

func (s *c10Store) faulty() bool {
	s.mu.Lock()
	defer s.mu.Unlock()
	n := s.nWr
	s.nWr++
	return s.failAt >= 0 && n == s.failAt
}

func c10NewStore(t *testing.T, init map[string][]byte) *c10Store {
	inm, err := inmem.NewInmem(map[string]string{"disable_transactions": "true"}, log.NewNullLogger())
	if err != nil {
		t.Fatal(err)
	}
	s := &c10Store{Backend: inm, data: map[string][]byte{}, failAt: -1}
	for k, v := range init {
		if err := inm.Put(context.Background(), &physical.Entry{Key: k, Value: append([]byte(nil), v...)}); err != nil {
			t.Fatal(err)
		}
		s.data[k] = append([]byte(nil), v...)
	}
	return s
}

func (s *c10Store) copyData() map[string][]byte {
	c := make(map[string][]byte, len(s.data))
	for k, v := range s.data {
		c[k] = append([]byte(nil), v...)
	}
	return c
}

func (s *c10Store) begin() {
	s.mu.Lock()
	s.snaps = []map[string][]byte{s.copyData()}
	s.nWr = 0
	s.mu.Unlock()
}

func (s *c10Store) Put(ctx context.Context, e *physical.Entry) error {
	if s.faulty() {
		return c10ErrInjected
	}
	err := s.Backend.Put(ctx, e)
	if err == nil {
		s.mu.Lock()
		s.data[e.Key] = append([]byte(nil), e.Value...)
		s.snaps = append(s.snaps, s.copyData())
		s.mu.Unlock()
	}
	return err
}

func (s *c10Store) Delete(ctx context.Context, k string) error {
	if s.faulty() {
		return c10ErrInjected
	}
	err := s.Backend.Delete(ctx, k)
	if err == nil {
		s.mu.Lock()
		delete(s.data, k)
		s.snaps = append(s.snaps, s.copyData())
		s.mu.Unlock()
	}
	return err
}

// ---------------------------------------------------------------------------------------------

type c10Case struct {
	t      *testing.T
	rng    *vh.Rand
	out    *vh.Out
	ns     *namespace.Namespace
	pfx    string
	st     *c10Store
	a, b   *AESGCMBarrier
	named  map[string][]byte // R*/S* (and length variants) -> bytes
	names  []string          // deterministic order of `named`
	tnames map[string]string // hex(term key) -> T<n>
	shadow map[string]string // data key -> hex value last written successfully
	preSh  map[string]string // shadow before the last operation (what a crash before its last write must preserve)
	lastOp string
	hist   []string // the operations of the case so far (quoted in violation messages: a concrete failing history)
	rots   int  // successful rotations so far: a new record must carry a term >= 1 + rots
	lastT  uint32 // term of the previous record written by the active node (terms never go backwards)
	dead    bool // a panic left the lock of a barrier held (any further call would hang): the case is abandoned
	faulted bool // a storage fault was injected in this case: the crash predicates (single-failure claims) are not evaluated
	// candidates the operator holds for the last operation (names)
	cands []string
}

var c10Lens = []int{32, 16, 24, 31, 15, 17, 33}

func (c *c10Case) addNamed(name string, b []byte) {
	for _, l := range c10Lens {
		var v []byte
		if l <= len(b) {
			v = append([]byte(nil), b[:l]...)
		} else {
			v = append(append([]byte(nil), b...), 0xa5)
		}
		n := name
		if l != 32 {
			n = fmt.Sprintf("%s/%d", name, l)
		}
		c.named[n] = v
		c.names = append(c.names, n)
	}
}

func (c *c10Case) key(name string) []byte { return append([]byte(nil), c.named[name]...) }

func (c *c10Case) nameOf(b []byte) string {
	for _, n := range c.names {
		if bytes.Equal(c.named[n], b) {
			return n
		}
	}
	if n, ok := c.tnames[vh.Hex(b)]; ok {
		return n
	}
	return "?"
}

func (c *c10Case) learnTerm(b []byte) {
	if len(b) == 0 {
		return
	}
	allZero := true
	for _, x := range b {
		if x != 0 {
			allZero = false
		}
	}
	if allZero {
		return
	}
	h := vh.Hex(b)
	if _, ok := c.tnames[h]; ok {
		return
	}
	for _, n := range c.names {
		if bytes.Equal(c.named[n], b) {
			return
		}
	}
	c.tnames[h] = fmt.Sprintf("T%d", len(c.tnames)+1)
}

// independent AES-GCM open of a barrier record (layout written by NewGCMWithRandomNonce: nonce | ciphertext | tag)
func c10Open(key []byte, path string, value []byte) ([]byte, bool) {
	if len(value) < 5+12+16 {
		return nil, false
	}
	blk, err := aes.NewCipher(key)
	if err != nil {
		return nil, false
	}
	gcm, err := cipher.NewGCM(blk)
	if err != nil {
		return nil, false
	}
	raw := value[5:]
	var aad []byte
	if value[4] == AESGCMVersion2 && path != "" {
		aad = []byte(path)
	}
	pt, err := gcm.Open(nil, raw[:12], raw[12:], aad)
	if err != nil {
		return nil, false
	}
	if pt == nil {
		pt = []byte{}
	}
	return pt, true
}

// all candidate keys, deterministic order: named keys, then term keys
func (c *c10Case) allKeys() [][2]any {
	var out [][2]any
	for _, n := range c.names {
		out = append(out, [2]any{n, c.named[n]})
	}
	var ts []string
	for h := range c.tnames {
		ts = append(ts, h)
	}
	sort.Slice(ts, func(i, j int) bool { return c10TermNo(c.tnames[ts[i]]) < c10TermNo(c.tnames[ts[j]]) })
	for _, h := range ts {
		b, _ := c10Unhex(h)
		out = append(out, [2]any{c.tnames[h], b})
	}
	return out
}

func c10TermNo(s string) int {
	n := 0
	fmt.Sscanf(s, "T%d", &n)
	return n
}

func c10Unhex(h string) ([]byte, error) {
	if h == "-" {
		return nil, nil
	}
	out := make([]byte, len(h)/2)
	_, err := fmt.Sscanf(h, "%x", &out)
	return out, err
}

// whoOpens returns the name of the known key that opens value at path, and the plaintext
func (c *c10Case) whoOpens(path string, value []byte) (string, []byte) {
	for _, kv := range c.allKeys() {
		if pt, ok := c10Open(kv[1].([]byte), path, value); ok {
			return kv[0].(string), pt
		}
	}
	return "?", nil
}

func (c *c10Case) renderKeyring(kr *Keyring) string {
	if kr == nil {
		return "none"
	}
	var terms []int
	for t := range kr.keys {
		terms = append(terms, int(t))
	}
	sort.Ints(terms)
	var parts []string
	for _, t := range terms {
		parts = append(parts, fmt.Sprintf("%d=%s", t, c.nameOf(kr.keys[uint32(t)].Value)))
	}
	rot := ""
	if kr.rotationConfig.Interval != 0 {
		rot = fmt.Sprintf(";rot=%d", int64(kr.rotationConfig.Interval/(24*time.Hour)))
	}
	return fmt.Sprintf("kr(%s;%d;%s%s)", c.nameOf(kr.rootKey), kr.activeTerm, strings.Join(parts, ","), rot)
}

func (c *c10Case) learnKeyring(kr *Keyring) {
	if kr == nil {
		return
	}
	var terms []int
	for t := range kr.keys {
		terms = append(terms, int(t))
	}
	sort.Ints(terms)
	for _, t := range terms {
		c.learnTerm(kr.keys[uint32(t)].Value)
	}
}

func (c *c10Case) relPath(k string) string {
	if c.pfx != "" && strings.HasPrefix(k, c.pfx) {
		return strings.TrimPrefix(k, c.pfx)
	}
	return k
}

func (c *c10Case) absPath(rel string) string {
	if strings.HasPrefix(rel, "core/") && rel != LegacyRootKeyPath {
		return c.pfx + rel
	}
	return rel
}

// observe: learn term keys in a fixed scan order (a, b, stored keyring, upgrade entries)
func (c *c10Case) observe(data map[string][]byte) {
	c.learnKeyring(c.a.keyring)
	c.learnKeyring(c.b.keyring)
	if v, ok := data[c.pfx+KeyringPath]; ok {
		if _, pt := c.whoOpens(c.pfx+KeyringPath, v); pt != nil {
			if kr, err := DeserializeKeyring(pt); err == nil {
				c.learnKeyring(kr)
			}
		}
	}
	var ups []string
	for k := range data {
		if strings.HasPrefix(k, c.pfx+KeyringUpgradePrefix) {
			ups = append(ups, k)
		}
	}
	sort.Strings(ups)
	for _, k := range ups {
		if _, pt := c.whoOpens(k, data[k]); pt != nil {
			if key, err := DeserializeKey(pt); err == nil {
				c.learnTerm(key.Value)
			}
		}
	}
}

func (c *c10Case) renderPlain(rel string, pt []byte) string {
	switch {
	case rel == KeyringPath:
		kr, err := DeserializeKeyring(pt)
		if err != nil {
			return "?kr"
		}
		return c.renderKeyring(kr)
	case rel == RootKeyPath || rel == LegacyRootKeyPath || strings.HasPrefix(rel, KeyringUpgradePrefix):
		k, err := DeserializeKey(pt)
		if err != nil {
			return "?key"
		}
		return fmt.Sprintf("key(%d,%s)", k.Term, c.nameOf(k.Value))
	case rel == ShamirKekPath:
		return fmt.Sprintf("raw(%s)", c.nameOf(pt))
	}
	return "b:" + vh.Hex(pt)
}

func (c *c10Case) renderPhys(data map[string][]byte) string {
	var keys []string
	for k := range data {
		keys = append(keys, k)
	}
	type ent struct{ k, v string }
	var es []ent
	for _, k := range keys {
		v := data[k]
		rel := c.relPath(k)
		if len(v) < 5 {
			es = append(es, ent{rel, "?short"})
			continue
		}
		term := binary.BigEndian.Uint32(v[:4])
		who, pt := c.whoOpens(k, v)
		body := "?"
		if pt != nil {
			body = c.renderPlain(rel, pt)
		}
		es = append(es, ent{rel, fmt.Sprintf("%d:%s:%s", term, who, body)})
	}
	sort.Slice(es, func(i, j int) bool { return es[i].k < es[j].k })
	var parts []string
	for _, e := range es {
		parts = append(parts, e.k+"="+e.v)
	}
	return "[" + strings.Join(parts, " ") + "]"
}

func (c *c10Case) renderBar(b *AESGCMBarrier) string {
	s := "s0:"
	if b.sealed {
		s = "s1:"
	}
	return s + c.renderKeyring(b.keyring)
}

func (c *c10Case) dump() {
	if c.dead {
		return
	}
	c.st.mu.Lock()
	data := c.st.copyData()
	c.st.mu.Unlock()
	c.observe(data)
	c.out.Op("A="+c.renderBar(c.a)+" B="+c.renderBar(c.b)+" P="+c.renderPhys(data), "dump")
}

var c10NoTermRe = regexp.MustCompile(`no decryption key available for term (\d+)`)

func c10Err(err error) string {
	if err == nil {
		return "ok"
	}
	msg := err.Error()
	switch {
	case errors.Is(err, c10ErrInjected):
		return "err:io"
	case errors.Is(err, ErrBarrierSealed):
		return "err:sealed"
	case errors.Is(err, ErrNamespaceSealed):
		return "err:ns-sealed"
	case errors.Is(err, ErrBarrierInvalidKey):
		return "err:invalid-key"
	case errors.Is(err, ErrBarrierNotInit):
		return "err:not-init"
	case errors.Is(err, ErrBarrierAlreadyInit):
		return "err:already-init"
	case strings.Contains(msg, "key size must be"):
		return "err:keysize"
	case strings.Contains(msg, "failed to create cipher"):
		return "err:cipher"
	case c10NoTermRe.MatchString(msg):
		return "err:noterm:" + c10NoTermRe.FindStringSubmatch(msg)[1]
	case strings.Contains(msg, "decryption failed"):
		return "err:decrypt"
	case strings.Contains(msg, "conflicting key"):
		return "err:conflict"
	case strings.Contains(msg, "keyring unexpectedly missing"):
		return "err:missing"
	case strings.Contains(msg, "deserializ"):
		return "err:deser"
	case strings.Contains(msg, "term mis-match"):
		return "err:term-mismatch"
	}
	return "err:other:" + vh.HexS(msg)
}

// storedTerms: term -> key bytes of the stored keyring, opened independently (nil when there is none / it does not open)
func (c *c10Case) storedTerms(data map[string][]byte) map[uint32][]byte {
	v, ok := data[c.pfx+KeyringPath]
	if !ok {
		return nil
	}
	n := c.physRootName(data)
	if n == "" || n == "?" {
		return nil
	}
	pt, ok := c10Open(c.named[n], c.pfx+KeyringPath, v)
	if !ok {
		return nil
	}
	kr, err := DeserializeKeyring(pt)
	if err != nil {
		return nil
	}
	out := map[uint32][]byte{}
	for t, k := range kr.keys {
		out[t] = append([]byte(nil), k.Value...)
	}
	return out
}

// c10PrefixDiff: "" when kr holds exactly the terms 1..active, each with the stored key of that term
func c10PrefixDiff(kr *Keyring, ref map[uint32][]byte) string {
	if kr == nil {
		return ""
	}
	for t := uint32(1); t <= kr.activeTerm; t++ {
		k, ok := kr.keys[t]
		if !ok {
			return fmt.Sprintf("term %d is missing below its active term %d", t, kr.activeTerm)
		}
		r, ok := ref[t]
		if !ok {
			return fmt.Sprintf("term %d is not in the stored keyring", t)
		}
		if !bytes.Equal(k.Value, r) {
			return fmt.Sprintf("term %d has a key that is not the stored key of that term", t)
		}
	}
	if len(kr.keys) != int(kr.activeTerm) {
		return fmt.Sprintf("%d keys for active term %d", len(kr.keys), kr.activeTerm)
	}
	return ""
}

// physRootName: which named key really opens the stored keyring (independent GCM open)
func (c *c10Case) physRootName(data map[string][]byte) string {
	v, ok := data[c.pfx+KeyringPath]
	if !ok {
		return ""
	}
	for _, n := range c.names {
		if _, ok := c10Open(c.named[n], c.pfx+KeyringPath, v); ok {
			return n
		}
	}
	return "?"
}

// newestStoredTerm: the largest term of the stored keyring, read independently
func (c *c10Case) newestStoredTerm(data map[string][]byte) (uint32, bool) {
	v, ok := data[c.pfx+KeyringPath]
	if !ok {
		return 0, false
	}
	_, pt := c.whoOpens(c.pfx+KeyringPath, v)
	if pt == nil {
		return 0, false
	}
	kr, err := DeserializeKeyring(pt)
	if err != nil {
		return 0, false
	}
	var m uint32
	for t := range kr.keys {
		if t > m {
			m = t
		}
	}
	return m, true
}

func (c *c10Case) bar(who string) *AESGCMBarrier {
	if who == "b" {
		return c.b
	}
	return c.a
}

// readBack reads every shadow key through barrier x and returns the keys that do not give their last value
func (c *c10Case) readBack(x *AESGCMBarrier) []string {
	var bad []string
	var ks []string
	for k := range c.shadow {
		ks = append(ks, k)
	}
	sort.Strings(ks)
	for _, k := range ks {
		e, err := x.Get(context.Background(), k)
		if err != nil || e == nil || vh.Hex(e.Value) != c.shadow[k] {
			bad = append(bad, k)
		}
	}
	return bad
}

func (c *c10Case) getRes(x *AESGCMBarrier, rel string) string {
	e, err := x.Get(context.Background(), c.absPath(rel))
	if err != nil {
		return c10Err(err)
	}
	if e == nil {
		return "nil"
	}
	return "ok:" + c.renderPlain(rel, e.Value)
}

// op executes one barrier operation on `who` and writes its protocol line
func (c *c10Case) op(who string, f ...string) string {
	if c.dead {
		return "dead"
	}
	ctx := context.Background()
	x := c.bar(who)
	c.st.mu.Lock()
	pre := c.st.copyData()
	c.st.mu.Unlock()
	c.observe(pre)
	preRoot := c.physRootName(pre)
	c.cands = nil
	if preRoot != "" && preRoot != "?" {
		c.cands = append(c.cands, preRoot)
	}
	if x.keyring != nil {
		if n := c.nameOf(x.keyring.rootKey); n != "?" && n != preRoot {
			c.cands = append(c.cands, n)
		}
	}
	c.st.begin()
	c.preSh = map[string]string{}
	for k, v := range c.shadow {
		c.preSh[k] = v
	}
	viol := ""
	res := vh.Catch(func() string {
		switch f[0] {
		case "init":
			var sk []byte
			if f[2] != "-" {
				sk = c.key(f[2])
			}
			return c10Err(x.Initialize(ctx, c.key(f[1]), sk))
		case "unseal":
			was := x.sealed
			r := c10Err(x.Unseal(ctx, c.key(f[1])))
			if was && !x.sealed {
				// P2: the key must really open the stored keyring
				if _, ok := c10Open(c.named[f[1]], c.pfx+KeyringPath, pre[c.pfx+KeyringPath]); !ok {
					viol = "Unseal left the sealed state with a key that does not open the stored keyring"
				} else if bad := c.readBack(x); len(bad) > 0 { // P3
					viol = "after unseal with a valid key earlier entries are not readable: " + strings.Join(bad, ",")
				}
			}
			if was && r != "ok" && (!x.sealed || x.keyring != nil) {
				viol = "failed Unseal left the barrier unsealed or holding a keyring"
			}
			return r
		case "seal":
			old := x.keyring
			var slices [][]byte
			if old != nil {
				slices = append(slices, old.rootKey)
				for _, k := range old.keys {
					slices = append(slices, k.Value)
				}
			}
			r := c10Err(x.Seal())
			cleared := x.keyring == nil && len(x.cache) == 0 && x.sealed
			for _, s := range slices {
				for _, bb := range s {
					if bb != 0 {
						cleared = false
					}
				}
			}
			if r == "ok" {
				if cleared {
					return "ok:cleared"
				}
				viol = "Seal left key material in memory (keyring / AEAD cache / key bytes)" // P5
				return "ok:NOT-cleared"
			}
			return r
		case "put":
			v, _ := c10Unhex(f[2])
			if v == nil {
				v = []byte{}
			}
			err := x.Put(ctx, &logical.StorageEntry{Key: f[1], Value: v})
			if err == nil {
				c.shadow[f[1]] = f[2]
				// P4: the header term of the new record is a term of the STORED keyring, not older than the newest
				// successfully rotated term (1 + number of successful rotations) nor than the previous write's term
				c.st.mu.Lock()
				rec := append([]byte(nil), c.st.data[f[1]]...)
				now := c.st.copyData()
				c.st.mu.Unlock()
				if who == "a" && len(rec) >= 4 {
					got := binary.BigEndian.Uint32(rec[:4])
					nt, ok := c.newestStoredTerm(now)
					switch {
					case got < uint32(1+c.rots) || got < c.lastT:
						viol = fmt.Sprintf("new record written under the old term %d (newest rotated term %d, previous write %d)", got, 1+c.rots, c.lastT)
					case ok && got > nt:
						viol = fmt.Sprintf("new record written under term %d which the stored keyring (newest term %d) does not contain", got, nt)
					}
					c.lastT = got
				}
			}
			return c10Err(err)
		case "get":
			return c.getRes(x, f[1])
		case "del":
			err := x.Delete(ctx, f[1])
			if err == nil {
				delete(c.shadow, f[1])
			}
			return c10Err(err)
		case "list":
			ks, err := x.List(ctx, "d/")
			if err != nil {
				return c10Err(err)
			}
			sort.Strings(ks)
			for i := range ks {
				ks[i] = "d/" + ks[i]
			}
			return "ok:[" + strings.Join(ks, ",") + "]"
		case "rotate":
			t, err := x.Rotate(ctx)
			if err != nil {
				return c10Err(err)
			}
			c.rots++
			return fmt.Sprintf("ok:%d", t)
		case "rotroot":
			c.cands = append(c.cands, f[1])
			return c10Err(x.RotateRootKey(ctx, c.key(f[1])))
		case "setroot":
			return c10Err(x.SetRootKey(c.key(f[1])))
		case "reloadkr":
			return c10Err(x.ReloadKeyring(ctx))
		case "reloadroot":
			return c10Err(x.ReloadRootKey(ctx))
		case "mkupgrade":
			var t uint32
			fmt.Sscanf(f[1], "%d", &t)
			return c10Err(x.CreateUpgrade(ctx, t))
		case "chkupgrade":
			did, t, err := x.CheckUpgrade(ctx)
			if err != nil {
				return c10Err(err)
			}
			if !did && !c.faulted && x.keyring != nil {
				// fixpoint of the upgrade walk: every entry written under a term up to the walker's active term
				// must read back on it with its last value
				var ks []string
				for k := range c.shadow {
					ks = append(ks, k)
				}
				sort.Strings(ks)
				for _, k := range ks {
					rec := pre[k]
					if len(rec) < 4 || binary.BigEndian.Uint32(rec[:4]) > x.keyring.activeTerm {
						continue
					}
					e, gerr := x.Get(ctx, k)
					if gerr != nil || e == nil || vh.Hex(e.Value) != c.shadow[k] {
						viol = fmt.Sprintf("entry %s written under term %d is not readable on barrier %s after its upgrade walk reached term %d#standby-upgrade-path-diverges",
							k, binary.BigEndian.Uint32(rec[:4]), who, x.keyring.activeTerm)
						break
					}
				}
			}
			return fmt.Sprintf("ok:%v:%d", did, t)
		case "rmupgrade":
			var t uint32
			fmt.Sscanf(f[1], "%d", &t)
			return c10Err(x.DestroyUpgrade(ctx, t))
		case "verifyroot":
			r := c10Err(x.VerifyRoot(c.key(f[1])))
			if r == "ok" && (x.keyring == nil || !bytes.Equal(x.keyring.rootKey, c.named[f[1]])) {
				viol = "VerifyRoot accepted a key that is not the root key"
			}
			return r
		case "tick":
			// CheckBarrierAutoRotate: the bookkeeping tick; it must not touch the in-memory key hierarchy (P9)
			var before []byte
			if x.keyring != nil {
				before = append([]byte(nil), x.keyring.rootKey...)
			}
			reason, err := x.CheckBarrierAutoRotate(ctx)
			if x.keyring != nil && before != nil && !bytes.Equal(x.keyring.rootKey, before) {
				viol = "CheckBarrierAutoRotate changed the in-memory root key"
			}
			switch {
			case err != nil:
				return c10Err(err)
			case reason == "":
				return "ok"
			case reason == "reached max operations":
				return "due:max-ops"
			}
			return "due:" + vh.HexS(reason)
		case "setrot":
			var d int64
			fmt.Sscanf(f[1], "%d", &d)
			return c10Err(x.SetRotationConfig(ctx, KeyRotationConfig{MaxOperations: AbsoluteOperationMaximum, Interval: time.Duration(d) * 24 * time.Hour}))
		case "heat":
			x.UnaccountedEncryptions.Store(AbsoluteOperationMaximum + 1)
			return "ok"
		case "probe":
			// the barrier's other serving entry points: each has its OWN sealed guard. Any outcome other than the sealed
			// error is reported as "served" (on an unsealed barrier their results are not compared here).
			var err error
			switch f[1] {
			case "listpage":
				_, err = x.ListPage(ctx, "d/", "", -1)
			case "listpage1":
				_, err = x.ListPage(ctx, "d/", "d/a", 1)
			case "encrypt":
				_, err = x.Encrypt(ctx, "d/a", []byte("plain"))
			case "decrypt":
				_, err = x.Decrypt(ctx, "d/a", []byte{0, 0, 0, 1, 2, 9, 9, 9, 9, 9, 9, 9, 9, 9, 9, 9, 9, 9, 9, 9, 9, 9, 9, 9, 9, 9, 9, 9, 9, 9, 9, 9, 9, 9})
			case "keyring":
				_, err = x.Keyring()
			default:
				c.t.Fatalf("unknown probe %v", f)
			}
			if err != nil && (errors.Is(err, ErrBarrierSealed) || errors.Is(err, ErrNamespaceSealed)) {
				return c10Err(err)
			}
			return "served"
		case "keyinfo":
			ki, err := x.ActiveKeyInfo()
			if err != nil {
				return c10Err(err)
			}
			return fmt.Sprintf("ok:%d", ki.Term)
		}
		c.t.Fatalf("unknown op %v", f)
		return ""
	})
	c.st.mu.Lock()
	c.st.failAt = -1
	c.st.mu.Unlock()
	if strings.HasPrefix(res, "panic") {
		// a panic inside the barrier may have leaked b.l (several paths lock without defer): probe it
		if x.l.TryLock() {
			x.l.Unlock()
		} else {
			c.dead = true
			if viol == "" {
				viol = "panic inside the barrier left its lock held"
			}
		}
	}
	// P9 (after EVERY operation): a barrier that holds a keyring holds a root key the operator supplied, and the
	// stored keyring still opens with one of the operator's root keys
	if viol == "" && !c.dead {
		for _, wb := range []struct {
			n string
			b *AESGCMBarrier
		}{{"a", c.a}, {"b", c.b}} {
			if wb.b.keyring != nil && c.nameOf(wb.b.keyring.rootKey) == "?" {
				viol = "the in-memory root key of barrier " + wb.n + " is not a key the operator supplied (zeroed or corrupted)"
			}
		}
		c.st.mu.Lock()
		post := c.st.copyData()
		c.st.mu.Unlock()
		if c.physRootName(post) == "?" {
			viol = "the stored keyring no longer opens with any root key the operator supplied"
			c.dead = true
		}
		// P10 (no storage fault in the case): the keyring a barrier holds is a PREFIX of the stored keyring — terms
		// 1..active without a gap, each with the stored key of that term (compared by key bytes, the stored keyring
		// opened independently).  A standby that walked the upgrade path must not skip or mis-key a term.
		if viol == "" && !c.faulted {
			if ref := c.storedTerms(post); ref != nil {
				for _, wb := range []struct {
					n string
					b *AESGCMBarrier
				}{{"a", c.a}, {"b", c.b}} {
					if d := c10PrefixDiff(wb.b.keyring, ref); d != "" {
						viol = "the keyring of barrier " + wb.n + " is not a prefix of the stored keyring: " + d + "#" +
							map[string]string{"a": "active-keyring-diverges", "b": "standby-upgrade-path-diverges"}[wb.n]
						break
					}
				}
			}
		}
	}
	c.lastOp = f[0]
	c.hist = append(c.hist, who+" "+strings.Join(f, " "))
	if viol != "" && strings.Contains(viol, "-diverges") {
		// put the concrete history into the message, in front of the signature
		parts := strings.SplitN(viol, "#", 2)
		h := c.hist
		if len(h) > 40 {
			h = h[len(h)-40:]
		}
		viol = parts[0] + " | history: " + strings.Join(h, "; ") + "#" + parts[1]
	}
	if viol != "" {
		res += "!VIOL:" + viol
	}
	c.out.Op(res, append([]string{who}, f...)...)
	return strings.SplitN(res, "!VIOL:", 2)[0]
}

// fail arms a storage fault for the next operation: its k-th physical write (0-based) fails
func (c *c10Case) fail(k int) {
	if c.dead {
		return
	}
	c.st.mu.Lock()
	c.st.failAt = k
	c.st.mu.Unlock()
	c.faulted = true
	c.out.Op("ok", "fail", fmt.Sprint(k))
}

func (c *c10Case) nwrites() int {
	if c.dead {
		return 0
	}
	c.st.mu.Lock()
	n := len(c.st.snaps) - 1
	c.st.mu.Unlock()
	c.out.Op(fmt.Sprint(n), "nwrites")
	return n
}

type c10CrashOut struct {
	unseal  string
	badRead []string
	follow  []string
	line    string
}

// crashRun: fresh barrier on the store after the k-th write of the last op
func (c *c10Case) crashRun(k int, keyName string) c10CrashOut {
	ctx := context.Background()
	c.st.mu.Lock()
	snap := c.st.snaps[k]
	last := k == len(c.st.snaps)-1
	c.st.mu.Unlock()
	want := c.preSh
	if last {
		want = c.shadow
	}
	st := c10NewStore(c.t, snap)
	x := NewAESGCMBarrier(st, c.ns).(*AESGCMBarrier)
	o := c10CrashOut{}
	o.unseal = vh.Catch(func() string { return c10Err(x.Unseal(ctx, c.key(keyName))) })
	var reads []string
	if o.unseal == "ok" {
		var ks []string
		for kk := range c.shadow {
			ks = append(ks, kk)
		}
		sort.Strings(ks)
		for _, kk := range ks {
			r := vh.Catch(func() string { return c.getRes(x, kk) })
			reads = append(reads, kk+":"+r)
			_ = r
		}
		for kk, v := range want {
			if r := vh.Catch(func() string { return c.getRes(x, kk) }); r != "ok:b:"+v {
				o.badRead = append(o.badRead, kk)
			}
		}
		// performKeyUpgrades: CheckUpgrade until none, ReloadRootKey, ReloadKeyring
		r1 := ""
		for i := 0; i < 10000; i++ {
			did, t, err := x.CheckUpgrade(ctx)
			if err != nil {
				r1 = c10Err(err)
				break
			}
			r1 = fmt.Sprintf("ok:%v:%d", did, t)
			if !did {
				break
			}
		}
		o.follow = append(o.follow, r1)
		if r1 == "ok:false:0" {
			r2 := vh.Catch(func() string { return c10Err(x.ReloadRootKey(ctx)) })
			o.follow = append(o.follow, r2)
			if r2 == "ok" {
				o.follow = append(o.follow, vh.Catch(func() string { return c10Err(x.ReloadKeyring(ctx)) }))
			}
		}
	}
	o.line = "unseal=" + o.unseal + ";read=" + strings.Join(reads, ",") + ";follow=" + strings.Join(o.follow, ",")
	return o
}

// crashAll: every crash prefix of the last operation, every root key the operator holds (plus one he does not);
// evaluates P6 on the real outcomes.
func (c *c10Case) crashAll(n int, extraWrong string) {
	if c.dead {
		return
	}
	cands := append([]string(nil), c.cands...)
	for k := 0; k <= n; k++ {
		okKey := ""
		stale := ""
		var okFollow []string
		var outs []c10CrashOut
		for _, kn := range cands {
			o := c.crashRun(k, kn)
			outs = append(outs, o)
			if o.unseal == "ok" && len(o.badRead) == 0 {
				okKey = kn
				okFollow = o.follow
				stale = ""
				for _, fr := range o.follow {
					if !strings.HasPrefix(fr, "ok") {
						stale = fr
					}
				}
			}
		}
		for i, kn := range cands {
			line := outs[i].line
			if i == len(cands)-1 && !c.faulted {
				if okKey == "" {
					line += fmt.Sprintf("!VIOL:crash after write %d of %s: no root key the operator holds unseals the store and reads every earlier entry back#barrier-crash-prefix-unreadable:%s", k, c.lastOp, c.lastOp)
				} else if stale != "" {
					// F46 is exactly: the root key changed (the store now opens with a key other than the pre-operation
					// one), one write was applied, and the walk fails at ReloadKeyring with the invalid-key error
					sig := fmt.Sprintf("crash-upgrade-walk-fails:%s:%s", c.lastOp, stale)
					if k == 1 && len(cands) > 0 && okKey != cands[0] && strings.Join(okFollow, ",") == "ok:false:0,ok,err:invalid-key" {
						sig = "F46:root-key-entry-stale-after-crash"
					}
					line += fmt.Sprintf("!VIOL:crash after write %d of %s: unseal with %s succeeds but the upgrade walk of a new leader (CheckUpgrade*, ReloadRootKey, ReloadKeyring) gives %s#%s", k, c.lastOp, okKey, strings.Join(okFollow, ","), sig)
				}
			}
			c.out.Op(line, "crash", fmt.Sprint(k), kn)
		}
		if extraWrong != "" && k == n {
			c.out.Op(c.crashRun(k, extraWrong).line, "crash", fmt.Sprint(k), extraWrong)
		}
	}
}

// c10SealedCommit (directed): "while sealed, the barrier serves no read, write, list or delete" — including the writes a
// storage TRANSACTION buffered before the barrier was sealed (the barrier of a separately sealed namespace is sealed
// without waiting for that namespace's requests). Op line:
//   sealedcommit => get:<refused|served>|put:<refused|ok>|commit:<refused|ok>|entry:<absent|present>
func c10SealedCommit(t *testing.T, out *vh.Out) {
	out.Reset()
	ctx := context.Background()
	inm, err := inmem.NewInmem(nil, log.NewNullLogger())
	if err != nil {
		t.Fatal(err)
	}
	b, ok := NewAESGCMBarrier(inm, nil).(*TransactionalAESGCMBarrier)
	if !ok {
		t.Fatal("no transactional barrier over the transactional in-memory backend")
	}
	key, _ := b.GenerateKey()
	if err := b.Initialize(ctx, key, nil); err != nil {
		t.Fatal(err)
	}
	if err := b.Unseal(ctx, key); err != nil {
		t.Fatal(err)
	}
	txn, err := b.BeginTx(ctx)
	if err != nil {
		t.Fatal(err)
	}
	if err := txn.Put(ctx, &logical.StorageEntry{Key: "secret/foo", Value: []byte("bar")}); err != nil {
		t.Fatal(err)
	}
	if err := b.Seal(); err != nil {
		t.Fatal(err)
	}
	cls := func(err error, okName string) string {
		if err != nil {
			return "refused"
		}
		return okName
	}
	_, gerr := txn.Get(ctx, "secret/foo")
	perr := txn.Put(ctx, &logical.StorageEntry{Key: "secret/foo2", Value: []byte("bar")})
	cerr := txn.Commit(ctx)
	entry := "absent"
	if e, _ := inm.Get(ctx, "secret/foo"); e != nil {
		entry = "present"
	}
	res := "get:" + cls(gerr, "served") + "|put:" + cls(perr, "ok") + "|commit:" + cls(cerr, "ok") + "|entry:" + entry
	if cerr == nil || entry == "present" {
		res += "!VIOL:a sealed barrier served a write: the commit of a transaction begun before the seal was accepted and its entry reached the physical store#sealed-barrier-committed-transaction"
	}
	out.Op(res, "sealedcommit")
}

// c10TxnTerm (directed): "new writes use the newest key term" — also the writes of a storage TRANSACTION that was begun
// (and had written) before the rotation: a Put issued after Rotate has returned is sealed under the new term.
// Op line: txnterm => before:<term>|after:<term>|read:<ok|lost>
func c10TxnTerm(t *testing.T, out *vh.Out) {
	out.Reset()
	ctx := context.Background()
	inm, err := inmem.NewInmem(nil, log.NewNullLogger())
	if err != nil {
		t.Fatal(err)
	}
	b, ok := NewAESGCMBarrier(inm, nil).(*TransactionalAESGCMBarrier)
	if !ok {
		t.Fatal("no transactional barrier over the transactional in-memory backend")
	}
	key, _ := b.GenerateKey()
	if err := b.Initialize(ctx, key, nil); err != nil {
		t.Fatal(err)
	}
	if err := b.Unseal(ctx, key); err != nil {
		t.Fatal(err)
	}
	txn, err := b.BeginTx(ctx)
	if err != nil {
		t.Fatal(err)
	}
	if err := txn.Put(ctx, &logical.StorageEntry{Key: "kv/before", Value: []byte("one")}); err != nil {
		t.Fatal(err)
	}
	newTerm, err := b.Rotate(ctx)
	if err != nil {
		t.Fatalf("rotate: %v", err)
	}
	if err := txn.Put(ctx, &logical.StorageEntry{Key: "kv/after", Value: []byte("two")}); err != nil {
		t.Fatal(err)
	}
	if err := txn.Commit(ctx); err != nil {
		t.Fatalf("commit: %v", err)
	}
	term := func(k string) string {
		e, err := inm.Get(ctx, k)
		if err != nil || e == nil || len(e.Value) < 4 {
			return "?"
		}
		return strconv.Itoa(int(binary.BigEndian.Uint32(e.Value[:4])))
	}
	rd := "ok"
	for _, k := range []string{"kv/before", "kv/after"} {
		if e, err := b.Get(ctx, k); err != nil || e == nil {
			rd = "lost"
		}
	}
	res := "before:" + term("kv/before") + "|after:" + term("kv/after") + "|read:" + rd
	if term("kv/after") != strconv.Itoa(int(newTerm)) {
		res += "!VIOL:a write issued after the rotation to term " + strconv.Itoa(int(newTerm)) + " had returned was sealed under term " + term("kv/after") + " (a transaction begun before the rotation)#write-after-rotation-under-old-term"
	}
	out.Op(res, "txnterm")
}

// c10GateStore: a store whose next write of the keyring can be held back (a slow storage)
type c10GateStore struct {
	physical.Backend
	mu      sync.Mutex
	armed   bool
	entered chan struct{}
	release chan struct{}
}

func (g *c10GateStore) Put(ctx context.Context, e *physical.Entry) error {
	if e.Key == KeyringPath {
		g.mu.Lock()
		armed := g.armed
		g.armed = false
		g.mu.Unlock()
		if armed {
			close(g.entered)
			<-g.release
		}
	}
	return g.Backend.Put(ctx, e)
}

// c10TickRace (directed, concurrent): the periodic bookkeeping tick (CheckBarrierAutoRotate: it persists the encryption
// count with a keyring write) on a slow storage WHILE an operator rotates the encryption key. Whatever the interleaving:
// after a seal and an unseal every entry written before is readable and the term the rotation reported is the active
// one. Op line: tickrace => before:<ok|lost>|after:<ok|lost>|term:<kept|regressed>
func c10TickRace(t *testing.T, out *vh.Out) {
	out.Reset()
	ctx := context.Background()
	inm, err := inmem.NewInmem(map[string]string{"disable_transactions": "true"}, log.NewNullLogger())
	if err != nil {
		t.Fatal(err)
	}
	gate := &c10GateStore{Backend: inm, entered: make(chan struct{}), release: make(chan struct{})}
	b := NewAESGCMBarrier(gate, nil)
	rootKey, _ := b.GenerateKey()
	if err := b.Initialize(ctx, rootKey, nil); err != nil {
		t.Fatal(err)
	}
	if err := b.Unseal(ctx, rootKey); err != nil {
		t.Fatal(err)
	}
	if err := b.Put(ctx, &logical.StorageEntry{Key: "kv/before", Value: []byte("term 1")}); err != nil {
		t.Fatal(err)
	}
	gate.mu.Lock()
	gate.armed = true
	gate.mu.Unlock()
	tickDone := make(chan error, 1)
	go func() { _, err := b.CheckBarrierAutoRotate(ctx); tickDone <- err }()
	select {
	case <-gate.entered:
	case <-tickDone:
		out.Op("unmodelled:tick-wrote-nothing", "tickrace")
		return
	case <-time.After(20 * time.Second):
		t.Fatal("tick did not reach the storage")
	}
	type rr struct {
		term uint32
		err  error
	}
	rotDone := make(chan rr, 1)
	go func() { term, err := b.Rotate(ctx); rotDone <- rr{term, err} }()
	var rot rr
	got := false
	select {
	case rot = <-rotDone:
		got = true
	case <-time.After(400 * time.Millisecond): // (the tick holds the barrier's lock during its write: the rotation waits)
	}
	close(gate.release)
	<-tickDone
	if !got {
		rot = <-rotDone
	}
	if rot.err != nil {
		t.Fatalf("rotate: %v", rot.err)
	}
	if err := b.Put(ctx, &logical.StorageEntry{Key: "kv/after", Value: []byte("term 2")}); err != nil {
		t.Fatal(err)
	}
	if err := b.Seal(); err != nil {
		t.Fatal(err)
	}
	res := ""
	if err := b.Unseal(ctx, rootKey); err != nil {
		res = "unseal-failed"
	} else {
		rd := func(k string) string {
			if e, err := b.Get(ctx, k); err == nil && e != nil {
				return "ok"
			}
			return "lost"
		}
		term := "kept"
		if info, err := b.ActiveKeyInfo(); err != nil || uint32(info.Term) != rot.term {
			term = "regressed"
		}
		res = "before:" + rd("kv/before") + "|after:" + rd("kv/after") + "|term:" + term
	}
	if res != "before:ok|after:ok|term:kept" {
		res += "!VIOL:a key rotation that overlapped the bookkeeping tick's keyring write was reported successful, and after a seal/unseal: " + res + " (the tick's stale keyring overwrote the rotated one)#keyring-lost-update-tick-vs-rotate"
	}
	out.Op(res, "tickrace")
}

func TestVerifC10Barrier(t *testing.T) {
	out := vh.Open()
	defer out.Close()
	rng := vh.NewRand(vh.Seed())
	c10SealedCommit(t, out)
	c10TxnTerm(t, out)
	c10TickRace(t, out)
	nCases := vh.EnvInt("VERIF_C10_CASES", 1500)
	if vh.Thorough() {
		nCases = vh.EnvInt("VERIF_C10_CASES", 25000)
	}
	for i := 0; i < nCases; i++ {
		out.Reset()
		c10RunCase(t, out, rng.Fork(uint64(i)), i)
	}
}

func c10RunCase(t *testing.T, out *vh.Out, rng *vh.Rand, idx int) {
	c := &c10Case{t: t, rng: rng, out: out, named: map[string][]byte{}, tnames: map[string]string{}, shadow: map[string]string{}}
	if rng.Chance(25) {
		c.ns = &namespace.Namespace{ID: "vns", UUID: "vns-uuid", Path: "vns/"}
		c.pfx = NamespacePrefix + "vns-uuid/"
		out.Op("ok", "world", "ns")
	} else {
		out.Op("ok", "world", "root")
	}
	for i := 1; i <= 4; i++ {
		c.addNamed(fmt.Sprintf("R%d", i), rng.Bytes(32))
	}
	for i := 1; i <= 2; i++ {
		c.addNamed(fmt.Sprintf("S%d", i), rng.Bytes(32))
	}
	c.st = c10NewStore(t, nil)
	c.a = NewAESGCMBarrier(c.st, c.ns).(*AESGCMBarrier)
	c.b = NewAESGCMBarrier(c.st, c.ns).(*AESGCMBarrier)
	dataKeys := []string{"d/a", "d/b", "d/c", "d/d", "d/e", "d/f"}
	roots := []string{"R1", "R2", "R3", "R4"}
	badVariants := []string{"/16", "/24", "/31", "/15", "/17", "/33"}
	val := func() string { return vh.Hex(rng.Bytes(rng.Intn(5))) }
	curRoot := func() string {
		c.st.mu.Lock()
		d := c.st.copyData()
		c.st.mu.Unlock()
		return c.physRootName(d)
	}
	wrongRoot := func() string {
		cr := curRoot()
		for {
			r := rng.Pick(roots)
			if r != cr {
				return r
			}
		}
	}

	// before initialisation
	if rng.Chance(30) {
		c.op("a", "unseal", "R1")
		c.op("a", "put", "d/a", val())
		c.op("b", "get", "d/a")
		c.op("a", "keyinfo")
	}
	if rng.Chance(20) {
		c.op("a", "init", "R1"+rng.Pick([]string{"/15", "/33", "/17"}), "-")
	}
	r0 := rng.Pick(roots)
	sk := "-"
	if rng.Chance(50) {
		sk = "S1"
	}
	c.op("a", "init", r0, sk)
	c.nwrites()
	c.dump()
	if rng.Chance(20) {
		c.op(rng.Pick([]string{"a", "b"}), "init", wrongRoot(), "-")
	}
	if rng.Chance(50) {
		c.op("a", "unseal", wrongRoot())
		c.op("a", "unseal", r0+rng.Pick(badVariants))
		c.op("a", "get", "d/a")
	}
	c.op("a", "unseal", r0)
	if rng.Chance(60) {
		c.op("b", "unseal", r0)
	}
	c.dump()

	nOps := 8 + rng.Intn(30)
	for j := 0; j < nOps && !c.dead; j++ {
		r := rng.Intn(100)
		switch {
		case r < 6:
			c.tickOp()
		case r < 28:
			if rng.Chance(4) {
				c.fail(0)
			}
			if c.op("a", "put", rng.Pick(dataKeys), val()) == "ok" && rng.Chance(20) {
				n := c.nwrites()
				c.crashAll(n, "")
			}
		case r < 36:
			c.op("a", "get", rng.Pick(dataKeys))
		case r < 40:
			c.op("a", "del", rng.Pick(dataKeys))
		case r < 43:
			c.op("a", "list")
		case r < 55:
			if rng.Chance(12) {
				c.fail(rng.Intn(4))
			}
			res := c.op("a", "rotate")
			n := c.nwrites()
			c.dump()
			if strings.HasPrefix(res, "ok:") {
				c.crashAll(n, wrongRoot())
				if rng.Chance(75) {
					c.op("a", "mkupgrade", strings.TrimPrefix(res, "ok:"))
					c.dump()
				}
			}
		case r < 62:
			nr := rng.Pick(roots)
			if rng.Chance(15) {
				nr += rng.Pick(badVariants)
			}
			if rng.Chance(12) {
				c.fail(rng.Intn(4))
			}
			res := c.op("a", "rotroot", nr)
			n := c.nwrites()
			c.dump()
			if res == "ok" {
				c.crashAll(n, wrongRoot())
			}
		case r < 69:
			// seal / unseal cycle on a
			c.op("a", "seal")
			for _, o := range [][]string{{"put", rng.Pick(dataKeys), val()}, {"get", rng.Pick(dataKeys)}, {"del", rng.Pick(dataKeys)}, {"list"},
				{"rotate"}, {"rotroot", rng.Pick(roots)}, {"keyinfo"}, {"verifyroot", rng.Pick(roots)}, {"chkupgrade"}, {"mkupgrade", "2"},
				{"rmupgrade", "2"}, {"reloadroot"}, {"setroot", rng.Pick(roots)}, {"get", "core/root-key"}, {"tick"}, {"setrot", "1"},
				{"probe", "listpage"}, {"probe", "listpage1"}, {"probe", "encrypt"}, {"probe", "decrypt"}, {"probe", "keyring"}} {
				if rng.Chance(45) {
					c.op("a", o...)
				}
			}
			if rng.Chance(30) {
				c.op("a", "seal")
			}
			if rng.Chance(60) {
				c.op("a", "unseal", wrongRoot())
			}
			if rng.Chance(40) {
				c.op("a", "unseal", strings.SplitN(curRoot(), "/", 2)[0]+rng.Pick(badVariants))
			}
			c.dump()
			c.op("a", "unseal", curRoot())
			c.dump()
		case r < 85:
			// the standby
			sel := rng.Intn(13)
			if sel > 8 {
				sel = []int{3, 8, 8, 9}[sel-9]
			}
			switch sel {
			case 0:
				c.op("b", "unseal", curRoot())
			case 1:
				c.op("b", "unseal", wrongRoot())
			case 2:
				c.op("b", "get", rng.Pick(dataKeys))
			case 3:
				c.op("b", "chkupgrade")
			case 4:
				c.op("b", "reloadroot")
			case 5:
				c.op("b", "reloadkr")
			case 6:
				c.op("b", "seal")
			case 7:
				c.op("b", "keyinfo")
			case 9:
				// LATE upgrade entries (RotateBarrierKey only holds a read lock between Rotate and CreateUpgrade):
				// Rotate(N+1), Rotate(N+2), CreateUpgrade(N+1), CreateUpgrade(N+2), a write under each term, then the
				// standby (at term N) walks with CheckUpgrade only and must read all three entries
				if c.a.keyring != nil && !c.a.sealed && curRoot() != "?" {
					c.op("b", "seal")
					c.op("b", "unseal", curRoot())
					c.op("a", "put", "d/a", val())
					r1 := c.op("a", "rotate")
					c.op("a", "put", "d/b", val())
					r2 := c.op("a", "rotate")
					c.op("a", "put", "d/c", val())
					if strings.HasPrefix(r1, "ok:") && strings.HasPrefix(r2, "ok:") {
						c.op("a", "mkupgrade", strings.TrimPrefix(r1, "ok:"))
						c.op("a", "mkupgrade", strings.TrimPrefix(r2, "ok:"))
						c.dump()
						for k := 0; k < 8 && !c.dead; k++ {
							if r := c.op("b", "chkupgrade"); !strings.HasPrefix(r, "ok:true") {
								break
							}
						}
						for _, k := range []string{"d/a", "d/b", "d/c"} {
							c.op("b", "get", k)
						}
						c.cmp(false)
					}
				}
			case 8:
				// the complete upgrade walk of performKeyUpgrades, then P7
				if c.b.sealed {
					c.op("b", "unseal", curRoot())
				}
				allOK := !c.b.sealed && c.b.keyring != nil
				for k := 0; k < 64 && allOK; k++ {
					r := c.op("b", "chkupgrade")
					if r != "ok:true:"+fmt.Sprint(c.b.keyring.ActiveTerm()) {
						allOK = allOK && r == "ok:false:0"
						break
					}
				}
				if allOK {
					allOK = c.op("b", "reloadroot") == "ok"
				}
				if allOK {
					allOK = c.op("b", "reloadkr") == "ok"
				}
				c.cmp(allOK)
			}
			c.dump()
		case r < 88:
			c.op("a", "verifyroot", rng.Pick(roots))
		case r < 90:
			c.op("a", "keyinfo")
		case r < 92:
			c.op("a", "reloadkr")
			c.dump()
		case r < 94:
			c.op("a", "reloadroot")
			c.dump()
		case r < 96:
			if c.a.keyring != nil && c.a.keyring.ActiveTerm() >= 2 {
				c.op("a", "rmupgrade", fmt.Sprint(2+rng.Intn(int(c.a.keyring.ActiveTerm())-1)))
				c.dump()
			}
		case r < 97:
			c.op("a", "setroot", rng.Pick(roots))
			c.dump()
		case r < 98:
			switch rng.Intn(5) {
			case 0:
				c.op("a", "get", rng.Pick([]string{"core/root-key", "core/shamir-kek", "core/upgrade/1", "core/master"}))
			case 1:
				c.op("a", "setrot", fmt.Sprint(rng.Intn(4)))
				c.nwrites()
				c.dump()
			case 2:
				// over the operation limit: the tick answers "rotate", the caller (core.checkBarrierAutoRotate) rotates
				c.op("a", "heat")
				if c.op("a", "tick") == "due:max-ops" {
					c.op("a", "rotate")
				}
				c.dump()
			default:
				c.tickOp()
			}
		default:
			if c.a.keyring != nil && c.a.keyring.ActiveTerm() >= 2 {
				c.op("a", "mkupgrade", fmt.Sprint(2+rng.Intn(int(c.a.keyring.ActiveTerm())-1)))
				c.dump()
			}
		}
	}
	// end of case: seal, unseal with the valid key, everything must be back (P3 inside op)
	c.op("a", "seal")
	c.op("a", "get", rng.Pick(dataKeys))
	c.op("a", "unseal", curRoot())
	for _, k := range dataKeys {
		c.op("a", "get", k)
	}
	c.dump()
}

// tickOp: the bookkeeping tick on the active node (sometimes with a storage fault), its crash prefixes, and the
// consequences the operator would see: VerifyRoot of the current root key, the next persist (a second tick after traffic)
func (c *c10Case) tickOp() {
	if c.rng.Chance(8) {
		c.fail(c.rng.Intn(3))
	}
	res := c.op("a", "tick")
	n := c.nwrites()
	c.dump()
	if res == "ok" && n > 0 && !c.dead {
		c.crashAll(n, "")
	}
	if c.rng.Chance(40) && !c.dead {
		c.st.mu.Lock()
		d := c.st.copyData()
		c.st.mu.Unlock()
		if r := c.physRootName(d); r != "" && r != "?" {
			c.op("a", "verifyroot", r)
		}
	}
	if c.rng.Chance(30) && !c.dead {
		c.op("a", "put", "d/a", "7469636b")
		c.op("a", "tick")
		c.nwrites()
		c.dump()
	}
}

// cmp: does the standby hold the active node's keyring? (P7 when the standby just completed the upgrade walk)
func (c *c10Case) cmp(walked bool) {
	if c.dead {
		return
	}
	res := "n/a"
	if c.a.keyring != nil && c.b.keyring != nil {
		if c.renderKeyring(c.a.keyring) == c.renderKeyring(c.b.keyring) {
			res = "same"
		} else {
			res = "differ"
		}
	}
	// P7 is claimed when the active node's in-memory root key is the stored one (no pending SetRootKey)
	if walked && res == "differ" && !c.faulted {
		c.st.mu.Lock()
		d := c.st.copyData()
		c.st.mu.Unlock()
		if c.nameOf(c.a.keyring.rootKey) == c.physRootName(d) {
			res += "!VIOL:standby completed the upgrade walk but does not hold the active node's keyring"
		}
	}
	c.out.Op(res, "cmp")
}
