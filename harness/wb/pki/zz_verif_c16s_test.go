//go:build verif

package pki

// Stream "pkiscen" of C16: directed scenarios at PREDICATE level around the revocation report paths that the token-level
// model of stream "pkirevoke" does not reach: revocation of an ISSUER certificate (issuer/<ref>/revoke) with a storage
// fault at every write position followed by a restart and a retry; a config/crl switch whose CRL rebuild fails and is
// retried; issuers that share key and subject (one CRL) when one of them loses its crl-signing usage; a revoked CA
// certificate that is later imported as an issuer; the paginated listing of revoked serials. Every line carries what
// the three report channels say afterwards — status API, OCSP, the complete CRL of the issuer — and the driver answers
// with what the property demands (Obao/Props/C16.lean, section "report channels after a retry").
//
// Op lines:
//   scen issrev <k>   => <ok: the call or its retry succeeded>|cert:<revoked|good>|ocsp:<…>|crl:<listed|absent>
//   scen cfgcrl <what> <k> => <ok|err>|crl:<listed|absent>
// (k = position of the failing write of the first call, 0 = none; the real calls have more writes than the three / two
// the model distinguishes — the answer is the same for every k, theorem issuer_revoke_reported_after_retry)
//   scen equiv        => cert:…|ocsp:…|crl:…
//   scen impiss       => cert:…|crl:…|other:<kept|lost>
//   scen page <limit> => <n listed by pages>/<n revoked>

import (
	"crypto/ecdsa"
	"crypto/elliptic"
	"crypto/rand"
	"crypto/x509/pkix"
	"encoding/pem"
	"context"
	"crypto"
	"crypto/x509"
	"encoding/base64"
	"errors"
	"fmt"
	"strings"
	"sync"
	"testing"

	"github.com/openbao/openbao/sdk/v2/logical"
	"github.com/openbao/openbao/v2/internal/zzverif/vh"
	"golang.org/x/crypto/ocsp"
)

// c16sStore fails the k-th Put of the armed window (k = 0: none) and counts them.
type c16sStore struct {
	logical.Storage
	mu    sync.Mutex
	fail  int
	count int
	fired bool
}

func (f *c16sStore) arm(k int) {
	f.mu.Lock()
	f.fail, f.count, f.fired = k, 0, false
	f.mu.Unlock()
}

func (f *c16sStore) disarm() (n int, fired bool) {
	f.mu.Lock()
	defer f.mu.Unlock()
	n, fired = f.count, f.fired
	f.fail, f.count = 0, 0
	return
}

func (f *c16sStore) Put(ctx context.Context, e *logical.StorageEntry) error {
	f.mu.Lock()
	f.count++
	if f.fail > 0 && f.count == f.fail {
		f.fired = true
		f.mu.Unlock()
		return errors.New("verif: injected put failure on " + e.Key)
	}
	f.mu.Unlock()
	return f.Storage.Put(ctx, e)
}

type c16sEnv struct {
	t     *testing.T
	inner logical.Storage
	s     *c16sStore
	b     *backend
}

func c16sNew(t *testing.T) *c16sEnv {
	b, inner := CreateBackendWithStorage(t)
	return &c16sEnv{t: t, inner: inner, s: &c16sStore{Storage: inner}, b: b}
}

func (e *c16sEnv) restart() {
	config := logical.TestBackendConfig()
	config.StorageView = e.inner
	b := Backend(config)
	if err := b.Setup(context.Background(), config); err != nil {
		e.t.Fatal(err)
	}
	if err := b.Initialize(context.Background(), &logical.InitializationRequest{Storage: e.inner}); err != nil {
		e.t.Fatal(err)
	}
	e.b = b
}

func (e *c16sEnv) write(path string, d map[string]any) (*logical.Response, string) {
	resp, err := CBWrite(e.b, e.s, path, d)
	switch {
	case err != nil:
		return resp, "err"
	case resp != nil && resp.IsError():
		return resp, "err"
	}
	return resp, "ok"
}

func (e *c16sEnv) must(path string, d map[string]any) *logical.Response {
	resp, cl := e.write(path, d)
	if cl != "ok" {
		e.t.Fatalf("c16s set-up %s: %v", path, resp)
	}
	return resp
}

func (e *c16sEnv) certStatus(serial string) string {
	resp, err := CBRead(e.b, e.s, "cert/"+serial)
	if err != nil || resp == nil || resp.IsError() {
		return "cert:err"
	}
	if rt, _ := resp.Data["revocation_time"].(int64); rt != 0 {
		return "cert:revoked"
	}
	return "cert:good"
}

func (e *c16sEnv) ocspStatus(c, issuer *x509.Certificate) string {
	der, err := ocsp.CreateRequest(c, issuer, &ocsp.RequestOptions{Hash: crypto.SHA256})
	if err != nil {
		return "ocsp:err"
	}
	resp, err := CBRead(e.b, e.s, "ocsp/"+base64.StdEncoding.EncodeToString(der))
	if err != nil || resp == nil || resp.IsError() {
		return "ocsp:err"
	}
	raw, _ := resp.Data[logical.HTTPRawBody].([]byte)
	o, err := ocsp.ParseResponse(raw, issuer)
	if err != nil {
		if strings.Contains(err.Error(), "unauthorized") {
			return "ocsp:unauthorized"
		}
		return "ocsp:unparsable"
	}
	switch o.Status {
	case ocsp.Revoked:
		return "ocsp:revoked"
	case ocsp.Good:
		return "ocsp:good"
	}
	return "ocsp:unknown"
}

func (e *c16sEnv) crlHas(path, serial string, signer *x509.Certificate) string {
	crl := getParsedCrlFromBackend(e.t, e.b, e.s, path)
	if signer != nil {
		if err := crl.CheckSignatureFrom(signer); err != nil {
			return "crl:badsig"
		}
	}
	if requireSerialNumberInCRL(nil, crl, serial) {
		return "crl:listed"
	}
	return "crl:absent"
}

// root + intermediate (key in the mount), signed by the root, installed as an issuer; returns certs, serial, issuer id
func (e *c16sEnv) rootAndIntermediate(install bool) (root, inter *x509.Certificate, intPEM, serial, intID string) {
	resp := e.must("root/generate/internal", map[string]any{"common_name": "root example.com", "key_type": "ec", "issuer_name": "root", "ttl": "87600h"})
	root = parseCert(e.t, resp.Data["certificate"].(string))
	resp = e.must("intermediate/generate/internal", map[string]any{"common_name": "int example.com", "key_type": "ec"})
	resp = e.must("issuer/root/sign-intermediate", map[string]any{"csr": resp.Data["csr"], "common_name": "int example.com", "ttl": "43800h"})
	intPEM = resp.Data["certificate"].(string)
	inter = parseCert(e.t, intPEM)
	serial = resp.Data["serial_number"].(string)
	if install {
		resp = e.must("intermediate/set-signed", map[string]any{"certificate": intPEM})
		intID = resp.Data["imported_issuers"].([]string)[0]
	}
	return
}

func c16sIssuerRevoke(t *testing.T, out *vh.Out) {
	// k = 0: fault-free (counts the writes); then the k-th write of the call fails, restart, retry
	n := 0
	for k := 0; k == 0 || k <= n; k++ {
		e := c16sNew(t)
		root, inter, _, serial, intID := e.rootAndIntermediate(true)
		out.Reset()
		e.s.arm(k)
		_, first := e.write("issuer/"+intID+"/revoke", map[string]any{})
		cnt, fired := e.s.disarm()
		if k == 0 {
			n = cnt
		}
		retry := "-"
		if first != "ok" {
			e.restart()
			_, retry = e.write("issuer/"+intID+"/revoke", map[string]any{})
		}
		done := "err"
		if first == "ok" || retry == "ok" {
			done = "ok"
		}
		res := fmt.Sprintf("%s|%s|%s|%s", done, e.certStatus(serial), e.ocspStatus(inter, root), e.crlHas("issuer/root/crl/der", serial, root))
		viol := ""
		if (first == "ok" || retry == "ok") && (strings.Contains(res, "cert:good") || strings.Contains(res, "ocsp:good") || strings.Contains(res, "crl:absent")) {
			viol = "!VIOL:revocation of an issuer certificate reported successful, but a report channel does not show it revoked: " + res + "#issuer-revoke-not-reported"
		}
		if k > 0 && !fired {
			res += "|nofault"
		}
		out.Op(res+viol, "scen", "issrev", vh.I(int64(k)))
	}
}

func c16sConfigCRL(t *testing.T, out *vh.Out) {
	for _, what := range []string{"auto_rebuild", "disable"} {
		n := 0
		for k := 0; k == 0 || k <= n; k++ {
			e := c16sNew(t)
			root, _, _, _, _ := e.rootAndIntermediate(false)
			e.must("roles/r", map[string]any{"allow_any_name": true, "key_type": "ec", "ttl": "1h", "issuer_ref": "root"})
			e.must("config/crl", map[string]any{what: true})
			resp := e.must("issue/r", map[string]any{"common_name": "leaf.example.com"})
			serial := resp.Data["serial_number"].(string)
			e.must("revoke", map[string]any{"serial_number": serial})
			out.Reset()
			e.s.arm(k)
			_, first := e.write("config/crl", map[string]any{what: false})
			cnt, fired := e.s.disarm()
			if k == 0 {
				n = cnt
			}
			retry := "-"
			if first != "ok" {
				_, retry = e.write("config/crl", map[string]any{what: false})
			}
			done := "err"
			if first == "ok" || retry == "ok" {
				done = "ok"
			}
			res := fmt.Sprintf("%s|%s", done, e.crlHas("issuer/root/crl/der", serial, root))
			viol := ""
			if (first == "ok" || retry == "ok") && strings.Contains(res, "crl:absent") {
				viol = "!VIOL:config/crl " + what + "=false reported successful, but the CRL served afterwards lacks a serial whose revocation was reported long before#config-crl-retry-stale-crl"
			}
			if k > 0 && !fired {
				res += "|nofault"
			}
			out.Op(res+viol, "scen", "cfgcrl", what, vh.I(int64(k)))
		}
	}
}

func c16sEquiv(t *testing.T, out *vh.Out) {
	e := c16sNew(t)
	resp := e.must("root/generate/internal", map[string]any{"common_name": "root example.com", "key_type": "ec", "issuer_name": "a", "ttl": "87600h"})
	keyID := resp.Data["key_id"]
	e.must("roles/r", map[string]any{"allow_any_name": true, "key_type": "ec", "ttl": "1h"})
	resp = e.must("issue/r", map[string]any{"common_name": "leaf1.example.com"})
	serial := resp.Data["serial_number"].(string)
	leaf := parseCert(t, resp.Data["certificate"].(string))
	e.must("revoke", map[string]any{"serial_number": serial})
	resp = e.must("issuers/generate/root/existing", map[string]any{"common_name": "root example.com", "key_ref": keyID, "issuer_name": "b", "ttl": "87600h"})
	bCert := parseCert(t, resp.Data["certificate"].(string))
	e.must("issuer/a", map[string]any{"usage": "read-only"})
	out.Reset()
	if r, err := CBRead(e.b, e.s, "crl/rotate"); err != nil || (r != nil && r.IsError()) {
		t.Fatalf("crl/rotate: %v %v", r, err)
	}
	res := fmt.Sprintf("%s|%s|%s", e.certStatus(serial), e.ocspStatus(leaf, bCert), e.crlHas("issuer/b/crl/der", serial, bCert))
	viol := ""
	if res != "cert:revoked|ocsp:revoked|crl:listed" {
		viol = "!VIOL:a revoked, unexpired leaf of an issuer set (same key and subject) is not reported revoked after the member it is associated with lost its crl-signing usage: " + res + "#equivalent-issuer-drops-revoked"
	}
	out.Op(res+viol, "scen", "equiv")
}

// c16sIssuerRevokeImported: the revoked issuer's certificate is NOT stored under certs/<serial> (the mount did not sign it
// itself, or the certificate store was tidied) — `key`: the issuer has its key in the mount; `nokey`: only its
// certificate was imported. issuer/<ref>/revoke is the only way to revoke such an issuer; once it answers success every
// channel must report it. Op line: scen issrevimp <key|nokey> => ok|cert:…|ocsp:…|crl:…
func c16sIssuerRevokeImported(t *testing.T, out *vh.Out) {
	for _, how := range []string{"key", "nokey"} {
		e := c16sNew(t)
		var root, inter *x509.Certificate
		var serial, intID string
		if how == "key" {
			root, inter, _, serial, intID = e.rootAndIntermediate(true)
		} else {
			resp := e.must("root/generate/internal", map[string]any{"common_name": "root example.com", "key_type": "ec", "issuer_name": "root", "ttl": "87600h"})
			root = parseCert(t, resp.Data["certificate"].(string))
			k, err := ecdsa.GenerateKey(elliptic.P256(), rand.Reader)
			if err != nil {
				t.Fatal(err)
			}
			der, err := x509.CreateCertificateRequest(rand.Reader, &x509.CertificateRequest{Subject: pkix.Name{CommonName: "int example.com"}}, k)
			if err != nil {
				t.Fatal(err)
			}
			csr := string(pem.EncodeToMemory(&pem.Block{Type: "CERTIFICATE REQUEST", Bytes: der}))
			resp = e.must("issuer/root/sign-intermediate", map[string]any{"csr": csr, "common_name": "int example.com", "ttl": "43800h"})
			intPEM := resp.Data["certificate"].(string)
			inter = parseCert(t, intPEM)
			serial = resp.Data["serial_number"].(string)
			resp = e.must("issuers/import/cert", map[string]any{"pem_bundle": intPEM})
			ids, _ := resp.Data["imported_issuers"].([]string)
			if len(ids) != 1 {
				t.Fatalf("import of the key-less issuer: %v", resp.Data)
			}
			intID = ids[0]
		}
		// the certificate is not (no longer) in the mount's certificate store
		if err := e.s.Delete(context.Background(), "certs/"+strings.ReplaceAll(strings.ToLower(serial), ":", "-")); err != nil {
			t.Fatal(err)
		}
		out.Reset()
		_, first := e.write("issuer/"+intID+"/revoke", map[string]any{})
		res := fmt.Sprintf("%s|%s|%s|%s", first, e.certStatus(serial), e.ocspStatus(inter, root), e.crlHas("issuer/root/crl/der", serial, root))
		viol := ""
		if first == "ok" && res != "ok|cert:revoked|ocsp:revoked|crl:listed" {
			viol = "!VIOL:the revocation of an issuer whose certificate is not in the mount's certificate store (" + how + ") was reported successful, but a report channel does not show it revoked: " + res + "#imported-issuer-revoke-not-reported"
		}
		out.Op(res+viol, "scen", "issrevimp", how)
	}
}

func c16sImportedIssuer(t *testing.T, out *vh.Out) {
	e := c16sNew(t)
	root, _, intPEM, serial, _ := e.rootAndIntermediate(false)
	e.must("roles/r", map[string]any{"allow_any_name": true, "key_type": "ec", "ttl": "1h", "issuer_ref": "root"})
	resp := e.must("issue/r", map[string]any{"common_name": "leaf.example.com"})
	leafSerial := resp.Data["serial_number"].(string)
	e.must("revoke", map[string]any{"serial_number": leafSerial})
	e.must("revoke", map[string]any{"serial_number": serial})
	out.Reset()
	e.must("intermediate/set-signed", map[string]any{"certificate": intPEM})
	if r, err := CBRead(e.b, e.s, "crl/rotate"); err != nil || (r != nil && r.IsError()) {
		t.Fatalf("crl/rotate: %v %v", r, err)
	}
	other := "other:kept"
	if e.crlHas("issuer/root/crl/der", leafSerial, root) != "crl:listed" {
		other = "other:lost"
	}
	res := fmt.Sprintf("%s|%s|%s", e.certStatus(serial), e.crlHas("issuer/root/crl/der", serial, root), other)
	viol := ""
	if res != "cert:revoked|crl:listed|other:kept" {
		viol = "!VIOL:a CA certificate revoked by serial and later imported as an issuer is no longer on its parent's complete CRL: " + res + "#revoked-cert-imported-as-issuer-leaves-crl"
	}
	out.Op(res+viol, "scen", "impiss")
}

func c16sPagination(t *testing.T, out *vh.Out) {
	e := c16sNew(t)
	e.must("root/generate/internal", map[string]any{"common_name": "root example.com", "key_type": "ec", "issuer_name": "root", "ttl": "87600h"})
	e.must("roles/r", map[string]any{"allow_any_name": true, "key_type": "ec", "ttl": "1h"})
	e.must("config/crl", map[string]any{"auto_rebuild": true})
	// until two revoked serials share their first byte (birthday bound ~20; certain after 257)
	first := map[string]int{}
	shared := false
	for i := 0; i < 300 && !(shared && i >= 24); i++ {
		resp := e.must("issue/r", map[string]any{"common_name": fmt.Sprintf("leaf%d.example.com", i)})
		serial := resp.Data["serial_number"].(string)
		e.must("revoke", map[string]any{"serial_number": serial})
		first[serial[:2]]++
		if first[serial[:2]] > 1 {
			shared = true
		}
	}
	resp, err := CBList(e.b, e.s, "certs/revoked")
	if err != nil || resp == nil {
		t.Fatalf("list: %v", err)
	}
	all, _ := resp.Data["keys"].([]string)
	out.Reset()
	for _, limit := range []int{1, 2, 5} {
		seen := map[string]bool{}
		after := ""
		for guard := 0; guard < 1000; guard++ {
			resp, err = CBPaginatedList(e.b, e.s, "certs/revoked", after, limit)
			if err != nil || resp == nil {
				break
			}
			keys, _ := resp.Data["keys"].([]string)
			for _, k := range keys {
				seen[k] = true
			}
			if len(keys) == 0 {
				break
			}
			after = keys[len(keys)-1]
			if len(keys) < limit {
				break
			}
		}
		got := 0
		for _, k := range all {
			if seen[k] {
				got++
			}
		}
		res := "all"
		viol := ""
		if got != len(all) {
			res = fmt.Sprintf("%d/%d", got, len(all))
			viol = "!VIOL:the paginated listing of revoked serials (after = last key of the previous page) never returns some revoked serials: " + res + "#revoked-list-pagination-skips"
		}
		out.Op(res+viol, "scen", "page", vh.I(int64(limit)))
	}
}

func TestVerifC16Scenarios(t *testing.T) {
	out := vh.Open()
	defer out.Close()
	c16sIssuerRevoke(t, out)
	c16sConfigCRL(t, out)
	c16sEquiv(t, out)
	c16sImportedIssuer(t, out)
	c16sIssuerRevokeImported(t, out)
	c16sPagination(t, out)
}
