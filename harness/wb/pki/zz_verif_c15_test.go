//go:build verif

package pki

// Correspondence harness for C15 (white-box, overlaid into internal/builtin/logical/pki at check time; never
// written into /repo).  Three groups of ops, all compared with lean/Driver/PKI.lean:
//
//   idna/host/wild/glob   the helper functions validateNames is built from, called directly
//   vname/vcn             validateNames / validateCommonName on one name under a generated role
//   iss                   a whole request to issue/<role>, sign/<role>, sign-verbatim[/<role>] through
//                         Backend.HandleRequest on inmem storage; the certificate that comes back is parsed
//                         with crypto/x509 and reduced to a canonical record
//
// Every identifier is prefixed c15.

import (
	"context"
	"crypto"
	"crypto/ecdsa"
	"crypto/ed25519"
	"crypto/elliptic"
	"crypto/rand"
	"crypto/rsa"
	"crypto/x509"
	"crypto/x509/pkix"
	"encoding/asn1"
	"encoding/pem"
	"math/big"
	"net"
	"net/url"
	"sort"
	"strconv"
	"strings"
	"testing"
	"time"

	"github.com/openbao/openbao/sdk/v2/logical"
	"github.com/openbao/openbao/v2/internal/zzverif/vh"
	"github.com/ryanuber/go-glob"
	"golang.org/x/net/idna"
)

// ---------------------------------------------------------------- encoding helpers

func c15B(b bool) string {
	if b {
		return "1"
	}
	return "0"
}

// list of strings, each hex ("e" = empty string); "-" = empty list
func c15L(xs []string) string {
	if len(xs) == 0 {
		return "-"
	}
	ys := make([]string, len(xs))
	for i, x := range xs {
		if x == "" {
			ys[i] = "e"
		} else {
			ys[i] = vh.HexS(x)
		}
	}
	return strings.Join(ys, ",")
}

// list of plain tokens
func c15P(xs []string) string {
	if len(xs) == 0 {
		return "-"
	}
	return strings.Join(xs, ",")
}

func c15Sorted(xs []string) []string {
	ys := append([]string{}, xs...)
	sort.Strings(ys)
	return ys
}

func c15OptI(p *int64) string {
	if p == nil {
		return "-"
	}
	return vh.I(*p)
}

// ---------------------------------------------------------------- alphabets

var c15Long63 = strings.Repeat("a", 63)
var c15Long64 = strings.Repeat("a", 64)

var c15Labels = []string{
	"a", "b", "ex", "com", "localhost", "localdomain", "EX", "Com", "x-y", "-a", "a-", "a_b", "", "*", "*a", "a*",
	"a*b", "**", "foo", "evil-ex", "1", "exa", "a^b", c15Long63, c15Long64,
}

var c15Domains = []string{
	"ex.com", "EX.com", "a.ex.com", "*.ex.com", "ex*.com", "*ex.com", "e*.c*m", "*", "com", "localhost", "",
	"b.com", ".ex.com", "foo", "ex.com.", "*.com", "a*b.com", "ex.com", "ex.com",
}

var c15DisplayNames = []string{"", "", "tok", "ex.com", "user@ex.com", "a@b@c", "root", "Tok.Ex"}

func c15RandName(rng *vh.Rand, domains []string, dn string) string {
	toggle := func(s string) string {
		if rng.Bool() {
			return strings.ToUpper(s)
		}
		r := []byte(s)
		if len(r) > 0 {
			i := rng.Intn(len(r))
			r[i] = []byte(strings.ToUpper(string(r[i])))[0]
		}
		return string(r)
	}
	switch k := rng.Intn(100); {
	case k < 38 && len(domains) > 0:
		d := domains[rng.Intn(len(domains))]
		fill := []string{"zz", "a.b", "", "a", "-", "*", "x.y.z"}
		switch rng.Intn(20) {
		case 0, 1, 2:
			return d
		case 3, 4:
			return "a." + d
		case 5, 6:
			return "*." + d
		case 7:
			return "b.a." + d
		case 8:
			return "evil-" + d
		case 9:
			return "a" + d
		case 10:
			return toggle(d)
		case 11:
			return "user@" + d
		case 12:
			return "user@a." + d
		case 13:
			return "*.a." + d
		case 14:
			return d + "."
		case 15:
			return "a." + toggle(d)
		case 16:
			return strings.Replace(d, "*", fill[rng.Intn(len(fill))], 1)
		case 17:
			return strings.ReplaceAll(d, "*", fill[rng.Intn(len(fill))])
		case 18:
			return "a*." + d
		default:
			return "*a.b." + d
		}
	case k < 52:
		return rng.Pick([]string{"localhost", "a.localhost", "*.localhost", "localdomain", "x.localdomain",
			"user@localhost", "alocalhost", "*.localdomain", "user@a.localhost", "LOCALHOST", "a*.localhost",
			"user@localdomain", "*.a.localhost", "localhost.", "user@*.localhost"})
	case k < 60 && dn != "":
		switch rng.Intn(6) {
		case 0, 1:
			return dn
		case 2:
			return "a." + dn
		case 3:
			return "*." + dn
		case 4:
			if i := strings.Index(dn, "@"); i >= 0 {
				return "u@a." + dn[i+1:]
			}
			return "u@a." + dn
		default:
			return "x" + dn
		}
	case k < 86:
		n := 1 + rng.Intn(4)
		ls := make([]string, n)
		for i := range ls {
			ls[i] = c15Labels[rng.Intn(len(c15Labels))]
		}
		s := strings.Join(ls, ".")
		if rng.Chance(12) {
			s = "user@" + s
		}
		return s
	case k < 95:
		return rng.Pick([]string{"a@b@ex.com", "@ex.com", "user@", "*@ex.com", "user@*.ex.com", "bücher.ex.com",
			"ex。com", "xn--bcher-kva.ex.com", "a.ex.com.", "a..ex.com", "a.ex.com..", "*", "a*", "*.*.ex.com",
			"a.*.ex.com", "*.ex.com", "ex.com", "a.ex.com", "evil-ex.com", "EX.COM", "Kex.com", "user@EX.com",
			"a.b.ex.com", "foo", ".", "..", "*.", "*..ex.com", "user@bücher.ex.com"})
	default:
		return "ex.com"
	}
}

func c15PickDomains(rng *vh.Rand) []string {
	n := rng.Intn(4)
	if rng.Chance(50) && n == 0 {
		n = 1
	}
	ds := []string{}
	for i := 0; i < n; i++ {
		ds = append(ds, c15Domains[rng.Intn(len(c15Domains))])
	}
	return ds
}

// ---------------------------------------------------------------- name-role (vname / vcn / part of iss)

type c15NameRole struct {
	ad                                         []string
	bare, sub, glob, wild, lh, any, enf, tdn   bool
	dn                                         string
	cnv                                        []string
}

func c15RandNameRole(rng *vh.Rand) c15NameRole {
	r := c15NameRole{ad: c15PickDomains(rng)}
	r.bare = rng.Chance(50)
	r.sub = rng.Chance(50)
	r.glob = rng.Chance(45)
	r.wild = rng.Chance(70)
	r.lh = rng.Chance(45)
	r.any = rng.Chance(12)
	r.enf = rng.Chance(55)
	r.tdn = rng.Chance(25)
	r.dn = c15DisplayNames[rng.Intn(len(c15DisplayNames))]
	switch rng.Intn(8) {
	case 0:
		r.cnv = []string{"disabled"}
	case 1:
		r.cnv = []string{"email"}
	case 2:
		r.cnv = []string{"hostname"}
	default:
		r.cnv = []string{"email", "hostname"}
	}
	return r
}

func (r c15NameRole) fields() []string {
	return []string{"ad=" + c15L(r.ad), "bare=" + c15B(r.bare), "sub=" + c15B(r.sub), "glob=" + c15B(r.glob),
		"wild=" + c15B(r.wild), "lh=" + c15B(r.lh), "any=" + c15B(r.any), "enf=" + c15B(r.enf), "tdn=" + c15B(r.tdn),
		"dn=" + vh.HexS(r.dn), "cnv=" + c15P(r.cnv)}
}

func (r c15NameRole) entry() *roleEntry {
	w := r.wild
	return &roleEntry{AllowedDomains: r.ad, AllowBareDomains: r.bare, AllowSubdomains: r.sub, AllowGlobDomains: r.glob,
		AllowWildcardCertificates: &w, AllowLocalhost: r.lh, AllowAnyName: r.any, EnforceHostnames: r.enf,
		AllowTokenDisplayName: r.tdn, CNValidations: r.cnv}
}

// ---------------------------------------------------------------- mounts

type c15Mount struct {
	b        *backend
	s        logical.Storage
	root     *x509.Certificate
	mdef     int64
	mmax     int64
	created  time.Time
	serials  map[string]bool
	issued   int
	lnab     string
	roleSeen string
}

func c15Req(m *c15Mount, op logical.Operation, path string, data map[string]any, dn string) (*logical.Response, error) {
	return m.b.HandleRequest(context.Background(), &logical.Request{Operation: op, Path: path, Data: data, Storage: m.s,
		MountPoint: "pki/", DisplayName: dn})
}

func c15NewMount(t *testing.T, rng *vh.Rand) *c15Mount {
	m := &c15Mount{serials: map[string]bool{}, created: time.Now()}
	m.mmax = []int64{7200, 172800, 172800, 40000}[rng.Intn(4)]
	m.mdef = []int64{600, 3600, 3600, 50000}[rng.Intn(4)] // may exceed the mount maximum: the code then caps
	config := logical.TestBackendConfig()
	config.StorageView = &logical.InmemStorage{}
	config.System = &logical.StaticSystemView{DefaultLeaseTTLVal: time.Duration(m.mdef) * time.Second,
		MaxLeaseTTLVal: time.Duration(m.mmax) * time.Second}
	b := Backend(config)
	if err := b.Setup(context.Background(), config); err != nil {
		t.Fatal(err)
	}
	b.pkiStorageVersion.Store(true)
	m.b, m.s = b, config.StorageView
	rootTTL := []int64{1000, 5000, m.mmax - 500, m.mmax - 500}[rng.Intn(4)]
	resp, err := c15Req(m, logical.UpdateOperation, "root/generate/internal", map[string]any{"common_name": "C15 root",
		"key_type": "ec", "key_bits": 256, "ttl": strconv.FormatInt(rootTTL, 10) + "s"}, "")
	if err != nil || resp == nil || resp.IsError() {
		t.Fatalf("root generation failed: %v %v", err, resp)
	}
	blk, _ := pem.Decode([]byte(resp.Data["certificate"].(string)))
	c, err := x509.ParseCertificate(blk.Bytes)
	if err != nil {
		t.Fatal(err)
	}
	m.root = c
	m.serials[c.SerialNumber.String()] = true
	m.lnab = "err"
	return m
}

// ---------------------------------------------------------------- CSR key pool

type c15Key struct {
	kt     string
	kb     int
	signer crypto.Signer
}

func c15Keys(t *testing.T) []c15Key {
	mk := func(kt string, kb int, s crypto.Signer, err error) c15Key {
		if err != nil {
			t.Fatal(err)
		}
		return c15Key{kt, kb, s}
	}
	ks := []c15Key{}
	for _, c := range []elliptic.Curve{elliptic.P256(), elliptic.P256(), elliptic.P384(), elliptic.P224(), elliptic.P521()} {
		k, err := ecdsa.GenerateKey(c, rand.Reader)
		ks = append(ks, mk("ec", c.Params().BitSize, k, err))
	}
	_, ed, err := ed25519.GenerateKey(rand.Reader)
	ks = append(ks, mk("ed25519", 0, ed, err))
	r2, err := rsa.GenerateKey(rand.Reader, 2048)
	ks = append(ks, mk("rsa", 2048, r2, err))
	r1, err := rsa.GenerateKey(rand.Reader, 1024)
	ks = append(ks, mk("rsa", 1024, r1, err))
	// a modulus whose BIT length is just under the minimum while its BYTE length is not (2047 bits = 256 bytes)
	r3, err := rsa.GenerateKey(rand.Reader, 2047)
	ks = append(ks, mk("rsa", 2047, r3, err))
	return ks
}

var c15OidBasicConstraints = asn1.ObjectIdentifier{2, 5, 29, 19}

type c15CSR struct {
	sn    string // Subject serialNumber attribute
	cn    string
	dns   []string
	em    []string
	ips   []string
	uris  []string
	bc    bool
	key   c15Key
	pemS  string
	exts  []string
}

func c15IsASCII(s string) bool {
	for i := 0; i < len(s); i++ {
		if s[i] >= 0x80 {
			return false
		}
	}
	return true
}

func (c *c15CSR) build() error {
	tmpl := &x509.CertificateRequest{Subject: pkix.Name{CommonName: c.cn, SerialNumber: c.sn}, DNSNames: c.dns, EmailAddresses: c.em}
	for _, ip := range c.ips {
		tmpl.IPAddresses = append(tmpl.IPAddresses, net.ParseIP(ip))
	}
	for _, u := range c.uris {
		pu, err := url.Parse(u)
		if err != nil {
			return err
		}
		tmpl.URIs = append(tmpl.URIs, pu)
	}
	c.exts = nil
	if len(c.dns)+len(c.em)+len(c.ips)+len(c.uris) > 0 {
		c.exts = append(c.exts, "san")
	}
	if c.bc {
		der, err := asn1.Marshal(struct {
			IsCA bool `asn1:"optional"`
		}{true})
		if err != nil {
			return err
		}
		tmpl.ExtraExtensions = append(tmpl.ExtraExtensions, pkix.Extension{Id: c15OidBasicConstraints, Critical: true, Value: der})
		c.exts = append(c.exts, "bc")
	}
	der, err := x509.CreateCertificateRequest(rand.Reader, tmpl, c.key.signer)
	if err != nil {
		return err
	}
	c.pemS = string(pem.EncodeToMemory(&pem.Block{Type: "CERTIFICATE REQUEST", Bytes: der}))
	return nil
}

// ---------------------------------------------------------------- error classes

func c15ErrClass(msg string) string {
	has := func(s string) bool { return strings.Contains(msg, s) }
	switch {
	case has("serial_number") && has("not allowed by this role"):
		return "err:serial"
	case has("common name") && has("not allowed by this role"):
		return "err:cn"
	case has("subject alternate name") && has("not allowed by this role"):
		return "err:san"
	case has("email address") && has("not allowed by this role"):
		return "err:email"
	case has("the common_name field is required"):
		return "err:cn-required"
	case has("is not a valid IP address"):
		return "err:ip-invalid"
	case has("IP Subject Alternative Names are not allowed"):
		return "err:ip"
	case has("the IP address") && has("is not allowed in this role"):
		return "err:ip-cidr"
	case has("URI Subject Alternative Names"):
		return "err:uri"
	case has("Either ttl or not_after should be provided"):
		return "err:ttl-both"
	case has("not_after cannot be provided"):
		return "err:na-forbid"
	case has("that is beyond the TTL of"):
		return "err:na-ttl"
	case has("is in the past"):
		return "err:na-past"
	case has("beyond the expiration of the CA certificate"):
		return "err:na-ca"
	case has("beyond the maximum timestamp"):
		return "err:na-bound"
	case has("not_before cannot be provided"):
		return "err:nb-forbid"
	case has("older than the allowed not_before_duration"):
		return "err:nb-duration"
	case has("is later than the certificate's Not After"):
		return "err:nb-after"
	case has("is equal to the certificate's Not After"):
		return "err:nb-equal"
	case has("role requires keys of type"):
		return "err:keytype"
	case has("role requires a minimum of a"):
		return "err:keybits"
	case has("RSA keys < 2048 bits are unsafe"), has("requires a minimum of a 2048-bit key"):
		return "err:rsa-small"
	case has("not allowed for issuing certificates without providing key_type"):
		return "err:any-keytype"
	case has("failed to validate role"):
		return "err:keyparams"
	case has("idna:"):
		return "err:idna"
	case has("Field validation failed"):
		return "err:field"
	}
	r := []rune(msg)
	if len(r) > 60 {
		r = r[:60]
	}
	return "err:other:" + vh.HexS(string(r))
}

// ---------------------------------------------------------------- the issuance cases

var c15TimeLattice = []int64{-100, 10, 60, 300, 600, 900, 1200, 3600, 4000, 6000, 7200, 86400, 100000, 200000}

func c15PickT(rng *vh.Rand) int64 { return c15TimeLattice[rng.Intn(len(c15TimeLattice))] }

var c15KeyUsages = []string{"DigitalSignature", "KeyAgreement", "KeyEncipherment", "ContentCommitment", "DataEncipherment",
	"CertSign", "CRLSign", "EncipherOnly", "DecipherOnly", "bogus"}
var c15ExtKeyUsages = []string{"ServerAuth", "ClientAuth", "CodeSigning", "EmailProtection", "Any", "TimeStamping", "OCSPSigning",
	"IPSECUser", "bogus"}
var c15IPs = []string{"1.2.3.4", "10.0.0.1", "127.0.0.1", "::1", "2001:db8::1"}

// networks for allowed_ip_sans_cidr: each contains some addresses of the alphabet and not others; both families
var c15CIDRs = []string{"10.0.0.0/8", "1.2.3.0/24", "127.0.0.0/8", "::1/128", "2001:db8::/32", "0.0.0.0/1", "192.168.0.0/16", "10.0.0.1/32"}

// c15CIDRField: the role's allowed networks as stored (white-box), canonical: family:base(decimal):prefix length
func c15CIDRField(nets []net.IPNet) string {
	var out []string
	for _, n := range nets {
		ones, bits := n.Mask.Size()
		ip := n.IP
		fam := "6"
		if v4 := ip.To4(); v4 != nil && bits == 32 {
			ip, fam = v4, "4"
		} else {
			ip = ip.To16()
		}
		out = append(out, fam+":"+new(big.Int).SetBytes(ip).String()+":"+strconv.Itoa(ones))
	}
	return c15P(out)
}
var c15BadIPs = []string{"999.1.1.1", "a.b.c.d", "1.2.3"}
var c15URIs = []string{"spiffe://ex.com/a", "https://a.ex.com/x", "urn:foo:bar", "spiffe://evil.com/a"}
var c15SerialPatterns = []string{"dev-*", "ops-42", "*", "*-1"}
var c15Serials = []string{"dev-7", "prod-1", "ops-42", "ops-43", "x"}

var c15URIPatterns = []string{"spiffe://ex.com/*", "*", "https://*.ex.com/*", "urn:foo:bar", "spiffe://*"}

func c15Subset(rng *vh.Rand, xs []string, max int) []string {
	n := rng.Intn(max + 1)
	out := []string{}
	seen := map[string]bool{}
	for i := 0; i < n; i++ {
		x := xs[rng.Intn(len(xs))]
		if !seen[x] {
			seen[x] = true
			out = append(out, x)
		}
	}
	return out
}

func c15RFC(sec int64) string { return time.Unix(sec, 0).UTC().Format(time.RFC3339) }

type c15Case struct {
	ep       string // issue | sign | verbatim
	nr       c15NameRole
	norole   bool
	roleData map[string]any
	rnb, rna *int64
	nab      string // permit|forbid|ttl-limited|ts
	nabTs    int64
	nbb      string
	lnab     string
	// request
	cn            string
	alt           []string
	ips           []string
	uris          []string
	sn            string
	xcn           bool
	qkt           string // "-" = absent
	qkb           string // "-" = absent
	rttl          int64
	qnb, qna      *int64
	qku, qeku     []string
	qkuSet        bool
	qekuSet       bool
	qbc           string // "-" absent, "0", "1"
	csr           *c15CSR
}

// names the role is likely to accept (the generator's "mostly valid" half)
func c15FriendlyName(rng *vh.Rand, nr c15NameRole) string {
	if len(nr.ad) == 0 || nr.ad[0] == "" {
		return rng.Pick([]string{"ex.com", "a.ex.com", "localhost", "foo.b.com", "*.ex.com", "user@ex.com"})
	}
	d := nr.ad[0]
	lit := strings.ReplaceAll(d, "*", rng.Pick([]string{"zz", "a", "a.b"}))
	switch rng.Intn(8) {
	case 0, 1:
		return lit
	case 2, 3:
		return "a." + lit
	case 4:
		return "*." + lit
	case 5:
		return "user@" + lit
	case 6:
		return "b.a." + lit
	default:
		return strings.ToUpper(lit[:1]) + lit[1:]
	}
}

func c15GenCase(rng *vh.Rand, keys []c15Key) *c15Case {
	c := &c15Case{nr: c15RandNameRole(rng)}
	friendly := rng.Chance(62)
	ipHeavy := false
	if c.nr.dn == "" {
		// the theorems about names carry the hypothesis "allow_token_displayname ⇒ the display name is not empty";
		// the empty display name stays in the vname/vcn ops (model tie) and out of the whole-request cases
		c.nr.tdn = false
	}
	switch k := rng.Intn(100); {
	case k < 50:
		c.ep = "issue"
	case k < 82:
		c.ep = "sign"
	default:
		c.ep = "verbatim"
		c.norole = rng.Chance(40)
	}
	// names in the role: make accepting configurations common enough
	if friendly {
		c.nr.ad = []string{rng.Pick([]string{"ex.com", "ex.com", "*.ex.com", "ex*.com", "b.com"})}
		c.nr.bare, c.nr.sub, c.nr.glob = rng.Chance(85), rng.Chance(85), rng.Chance(80)
		c.nr.wild = rng.Chance(85)
		c.nr.enf = rng.Chance(50)
		c.nr.any = rng.Chance(25)
		c.nr.cnv = []string{"email", "hostname"}
	}
	rd := map[string]any{
		"allowed_domains": c.nr.ad, "allow_bare_domains": c.nr.bare, "allow_subdomains": c.nr.sub,
		"allow_glob_domains": c.nr.glob, "allow_wildcard_certificates": c.nr.wild, "allow_localhost": c.nr.lh,
		"allow_any_name": c.nr.any, "enforce_hostnames": c.nr.enf, "allow_token_displayname": c.nr.tdn,
		"cn_validations": c.nr.cnv,
	}
	rd["allow_ip_sans"] = rng.Chance(60)
	if rng.Chance(30) {
		if nets := c15Subset(rng, c15CIDRs, 3); len(nets) > 0 {
			rd["allowed_ip_sans_cidr"] = nets
		}
	}
	rd["allowed_uri_sans"] = c15Subset(rng, c15URIPatterns, 2)
	rd["allowed_serial_numbers"] = c15Subset(rng, c15SerialPatterns, 2)
	switch k := rng.Intn(20); {
	case k < 10:
		rd["key_type"], rd["key_bits"] = "ec", []int{0, 256, 256, 384, 224, 521}[rng.Intn(6)]
	case k < 14:
		rd["key_type"] = "any"
		if rng.Chance(25) {
			rd["key_bits"] = []int{2048, 384}[rng.Intn(2)]
		}
	case k < 17:
		rd["key_type"] = "ed25519"
	default:
		rd["key_type"], rd["key_bits"] = "rsa", []int{0, 2048, 3072}[rng.Intn(3)]
		if c.ep == "issue" && !rng.Chance(15) { // RSA key generation is slow: mostly keep issue on EC
			rd["key_type"], rd["key_bits"] = "ec", 256
		}
	}
	// lifetimes
	ttl, maxttl := int64(0), int64(0)
	if rng.Chance(55) {
		ttl = c15PickT(rng)
		if ttl < 0 {
			ttl = 0
		}
	}
	if rng.Chance(55) {
		maxttl = c15PickT(rng)
		if maxttl < 0 {
			maxttl = 0
		}
	}
	if maxttl > 0 && ttl > maxttl {
		ttl, maxttl = maxttl, ttl
	}
	rd["ttl"], rd["max_ttl"] = ttl, maxttl
	if rng.Chance(40) {
		rd["not_before_duration"] = []int64{0, 30, 60, 3600, 10}[rng.Intn(5)]
	}
	if rng.Chance(12) {
		v := []int64{-3600, -60, 60, 3600}[rng.Intn(4)]
		c.rnb = &v
	}
	if rng.Chance(12) {
		v := c15PickT(rng)
		c.rna = &v
	}
	c.nbb = rng.Pick([]string{"permit", "permit", "duration", "forbid"})
	c.nab = rng.Pick([]string{"permit", "permit", "forbid", "ttl-limited", "ttl-limited", "ts"})
	c.nabTs = c15PickT(rng)
	rd["not_before_bound"] = c.nbb
	// usages
	if rng.Chance(50) {
		rd["key_usage"] = c15Subset(rng, c15KeyUsages, 3)
	}
	if rng.Chance(40) {
		rd["ext_key_usage"] = c15Subset(rng, c15ExtKeyUsages, 3)
	}
	if rng.Chance(40) {
		rd["server_flag"], rd["client_flag"] = rng.Bool(), rng.Bool()
		rd["code_signing_flag"], rd["email_protection_flag"] = rng.Chance(30), rng.Chance(30)
	}
	if rng.Chance(25) {
		rd["use_csr_common_name"] = rng.Bool()
		rd["use_csr_sans"] = rng.Bool()
	}
	if rng.Chance(20) {
		rd["require_cn"] = false
	}
	if rng.Chance(15) {
		rd["basic_constraints_valid_for_non_ca"] = true
	}
	c.roleData = rd
	c.lnab = rng.Pick([]string{"err", "err", "truncate", "permit"})

	if friendly {
		if rd["key_type"] == "rsa" || rd["key_type"] == "ed25519" {
			rd["key_type"], rd["key_bits"] = "ec", 256
		}
		if rng.Chance(70) {
			c.rnb, c.rna = nil, nil
			c.nbb, c.nab = "permit", rng.Pick([]string{"permit", "permit", "ttl-limited"})
			rd["not_before_bound"] = c.nbb
		}
		if rng.Chance(50) {
			rd["allow_ip_sans"] = true
			rd["allowed_uri_sans"] = []string{"*"}
		}
		delete(rd, "require_cn")
		ipHeavy = rng.Chance(18)
		if ipHeavy {
			// IP-SAN cases: the role permits IP SANs inside a few networks, the request carries 1-4 addresses in random order
			rd["allow_ip_sans"] = true
			rd["allowed_ip_sans_cidr"] = append(c15Subset(rng, c15CIDRs, 2), c15CIDRs[rng.Intn(len(c15CIDRs))])
		}
	}
	// request
	name := func() string {
		if friendly && !rng.Chance(12) {
			return c15FriendlyName(rng, c.nr)
		}
		return c15RandName(rng, c.nr.ad, c.nr.dn)
	}
	if !rng.Chance(6) {
		c.cn = name()
	}
	for i, n := 0, []int{0, 0, 1, 1, 2, 3}[rng.Intn(6)]; i < n; i++ {
		a := name()
		if !strings.ContainsAny(a, ", ") {
			c.alt = append(c.alt, a)
		}
	}
	if strings.ContainsAny(c.cn, ", ") {
		c.cn = "ex.com"
	}
	if rng.Chance(25) || ipHeavy {
		c.ips = c15Subset(rng, c15IPs, 2)
		if ipHeavy {
			c.ips = c15Subset(rng, c15IPs, 4)
			if len(c.ips) == 0 {
				c.ips = []string{c15IPs[rng.Intn(len(c15IPs))]}
			}
		}
		if rng.Chance(8) {
			c.ips = append(c.ips, c15BadIPs[rng.Intn(len(c15BadIPs))])
		}
	}
	if rng.Chance(25) {
		c.uris = c15Subset(rng, c15URIs, 2)
	}
	if rng.Chance(15) {
		c.sn = rng.Pick(c15Serials) // the serial_number request parameter (Subject serialNumber)
	}
	c.xcn = rng.Chance(10)
	c.qkt, c.qkb = "-", "-"
	if c.ep == "issue" && (rd["key_type"] == "any" && rng.Chance(85) || rng.Chance(5)) {
		c.qkt = rng.Pick([]string{"ec", "ec", "ec", "ed25519"})
		if rng.Chance(60) {
			c.qkb = rng.Pick([]string{"0", "256", "384", "224", "521", "123", "2048"})
		}
	}
	if rng.Chance(40) {
		c.rttl = c15PickT(rng)
		if friendly && c.rttl < 0 {
			c.rttl = 300
		}
	}
	if rng.Chance(25) && !(friendly && c.rttl != 0) {
		v := c15PickT(rng)
		c.qna = &v
	}
	if rng.Chance(15) && !(friendly && rng.Chance(70)) {
		v := []int64{-7200, -3600, -60, -10, 60, 3600}[rng.Intn(6)]
		c.qnb = &v
	}
	c.qbc = "-"
	if c.ep == "verbatim" {
		if rng.Chance(50) {
			c.qku, c.qkuSet = c15Subset(rng, c15KeyUsages, 3), true
		}
		if rng.Chance(50) {
			c.qeku, c.qekuSet = c15Subset(rng, c15ExtKeyUsages, 3), true
		}
		if rng.Chance(25) {
			c.qbc = c15B(rng.Bool())
		}
	}
	if c.ep != "issue" {
		k := keys[rng.Intn(len(keys))]
		if rng.Chance(60) || friendly && rng.Chance(80) {
			k = keys[rng.Intn(3)]
		}
		cs := &c15CSR{key: k}
		if !rng.Chance(15) {
			cs.cn = name()
		}
		if rng.Chance(25) {
			cs.sn = rng.Pick(c15Serials)
		}
		for i, n := 0, []int{0, 1, 1, 2}[rng.Intn(4)]; i < n; i++ {
			a := name()
			if !c15IsASCII(a) {
				continue
			}
			if strings.Contains(a, "@") {
				cs.em = append(cs.em, a)
			} else if a != "" {
				cs.dns = append(cs.dns, a)
			}
		}
		// an empty SAN entry in front of the others (a CSR can carry one)
		if rng.Chance(7) {
			if rng.Chance(65) {
				cs.dns = append([]string{""}, append(cs.dns, rng.Pick([]string{"evil.org", "a.ex.com", "foo"}))...)
			} else {
				cs.em = append([]string{""}, append(cs.em, rng.Pick([]string{"x@evil.org", "user@ex.com"}))...)
			}
		}
		if rng.Chance(20) || ipHeavy && rng.Chance(60) {
			cs.ips = c15Subset(rng, c15IPs, 2)
			if ipHeavy {
				cs.ips = c15Subset(rng, c15IPs, 4)
			}
		}
		if rng.Chance(20) {
			cs.uris = c15Subset(rng, c15URIs, 2)
		}
		cs.bc = rng.Chance(35)
		c.csr = cs
	}
	return c
}

func c15CertRecord(m *c15Mount, certPEM string, s0 int64) string {
	blk, _ := pem.Decode([]byte(certPEM))
	if blk == nil {
		return "err:nopem"
	}
	c, err := x509.ParseCertificate(blk.Bytes)
	if err != nil {
		return "err:unparsable"
	}
	sig := c.CheckSignatureFrom(m.root) == nil
	ser := c.SerialNumber.String()
	fresh := !m.serials[ser]
	m.serials[ser] = true
	kt, kb := "unknown", 0
	switch k := c.PublicKey.(type) {
	case *ecdsa.PublicKey:
		kt, kb = "ec", k.Params().BitSize
	case *rsa.PublicKey:
		kt, kb = "rsa", k.N.BitLen()
	case ed25519.PublicKey:
		kt, kb = "ed25519", 0
	}
	ips := []string{}
	for _, ip := range c.IPAddresses {
		ips = append(ips, ip.String())
	}
	uris := []string{}
	for _, u := range c.URIs {
		uris = append(uris, u.String())
	}
	ekus := []int{}
	for _, e := range c.ExtKeyUsage {
		ekus = append(ekus, int(e))
	}
	sort.Ints(ekus)
	es := []string{}
	for _, e := range ekus {
		es = append(es, strconv.Itoa(e))
	}
	return vh.Sprintf("ok ca=%s bc=%s nb=%d na=%d cn=%s dns=%s em=%s ip=%s uri=%s kt=%s kb=%d ku=%d eku=%s sig=%s fresh=%s ssn=%s",
		c15B(c.IsCA), c15B(c.BasicConstraintsValid), c.NotBefore.Unix()-s0, c.NotAfter.Unix()-s0, vh.HexS(c.Subject.CommonName),
		c15L(c15Sorted(c.DNSNames)), c15L(c15Sorted(c.EmailAddresses)), c15P(c15Sorted(ips)), c15L(c15Sorted(uris)),
		kt, kb, int(c.KeyUsage), c15P(es), c15B(sig), c15B(fresh), vh.HexS(c.Subject.SerialNumber))
}

// run one case: write the role, set the issuer behaviour, send the request; all inside one wall-clock second
func c15RunCase(t *testing.T, m *c15Mount, c *c15Case, out *vh.Out) {
	ctx := context.Background()
	for attempt := 0; attempt < 6; attempt++ {
		s0 := time.Now().Unix()
		rd := map[string]any{}
		for k, v := range c.roleData {
			rd[k] = v
		}
		if c.rnb != nil {
			rd["not_before"] = c15RFC(s0 + *c.rnb)
		}
		if c.rna != nil {
			rd["not_after"] = c15RFC(s0 + *c.rna)
		}
		nabField := c.nab
		if c.nab == "ts" {
			rd["not_after_bound"] = c15RFC(s0 + c.nabTs)
			nabField = "ts:" + vh.I(c.nabTs)
		} else {
			rd["not_after_bound"] = c.nab
		}
		resp, err := c15Req(m, logical.UpdateOperation, "roles/r", rd, "")
		if err != nil || (resp != nil && resp.IsError()) {
			return // a role the engine refuses to store: not a case
		}
		role, err := m.b.getRole(ctx, m.s, "r")
		if err != nil || role == nil {
			t.Fatalf("role read back: %v", err)
		}
		if m.lnab != c.lnab {
			resp, err := c15Req(m, logical.PatchOperation, "issuer/default", map[string]any{"leaf_not_after_behavior": c.lnab}, "")
			if err != nil || (resp != nil && resp.IsError()) {
				t.Fatalf("issuer patch: %v %v", err, resp)
			}
			m.lnab = c.lnab
		}
		q := map[string]any{}
		if c.cn != "" {
			q["common_name"] = c.cn
		}
		if len(c.alt) > 0 {
			q["alt_names"] = strings.Join(c.alt, ",")
		}
		if len(c.ips) > 0 {
			q["ip_sans"] = strings.Join(c.ips, ",")
		}
		if len(c.uris) > 0 {
			q["uri_sans"] = strings.Join(c.uris, ",")
		}
		if c.sn != "" {
			q["serial_number"] = c.sn
		}
		if c.xcn {
			q["exclude_cn_from_sans"] = true
		}
		if c.qkt != "-" {
			q["key_type"] = c.qkt
		}
		if c.qkb != "-" {
			n, _ := strconv.Atoi(c.qkb)
			q["key_bits"] = n
		}
		if c.rttl != 0 {
			q["ttl"] = strconv.FormatInt(c.rttl, 10) + "s"
		}
		if c.qna != nil {
			q["not_after"] = c15RFC(s0 + *c.qna)
		}
		if c.qnb != nil {
			q["not_before"] = c15RFC(s0 + *c.qnb)
		}
		if c.qkuSet {
			q["key_usage"] = c.qku
		}
		if c.qekuSet {
			q["ext_key_usage"] = c.qeku
		}
		if c.qbc != "-" {
			q["basic_constraints_valid_for_non_ca"] = c.qbc == "1"
		}
		path := c.ep + "/r"
		if c.ep == "verbatim" {
			path = "sign-verbatim/r"
			if c.norole {
				path = "sign-verbatim"
			}
		}
		if c.csr != nil {
			if c.csr.pemS == "" {
				if err := c.csr.build(); err != nil {
					return // a CSR crypto/x509 cannot express: not a case
				}
			}
			q["csr"] = c.csr.pemS
		}
		ioff := m.root.NotAfter.Unix() - s0
		var res string
		func() {
			defer func() {
				if r := recover(); r != nil {
					res = "panic"
				}
			}()
			resp, err = c15Req(m, logical.UpdateOperation, path, q, c.nr.dn)
			switch {
			case err != nil:
				res = c15ErrClass(err.Error())
			case resp == nil:
				res = "err:nil-response"
			case resp.IsError():
				res = c15ErrClass(resp.Error().Error())
			default:
				cert, _ := resp.Data["certificate"].(string)
				res = c15CertRecord(m, cert, s0)
			}
		}()
		if time.Now().Unix() != s0 {
			continue // the second changed while the request ran: `now` is not known exactly, run it again
		}
		m.issued++
		// the role as stored (white-box read back), so that framework field parsing is not part of the model
		nbb := role.NotBeforeBound
		if nbb != "permit" && nbb != "duration" && nbb != "forbid" {
			nbb = "other"
		}
		f := []string{"iss", "ep=" + c.ep, "norole=" + c15B(c.norole)}
		nr := c.nr
		nr.ad, nr.bare, nr.sub, nr.glob = role.AllowedDomains, role.AllowBareDomains, role.AllowSubdomains, role.AllowGlobDomains
		nr.wild = role.AllowWildcardCertificates != nil && *role.AllowWildcardCertificates
		nr.lh, nr.any, nr.enf, nr.tdn, nr.cnv = role.AllowLocalhost, role.AllowAnyName, role.EnforceHostnames, role.AllowTokenDisplayName, role.CNValidations
		f = append(f, nr.fields()...)
		f = append(f, "ipok="+c15B(role.AllowIPSANs), "acidr="+c15CIDRField(role.AllowedIPSANsCIDR), "auri="+c15L(role.AllowedURISANs), "asn="+c15L(role.AllowedSerialNumbers), "kt="+role.KeyType, "kb="+strconv.Itoa(role.KeyBits),
			"ku="+c15P(role.KeyUsage), "eku="+c15P(role.ExtKeyUsage), "sf="+c15B(role.ServerFlag), "cf="+c15B(role.ClientFlag),
			"csf="+c15B(role.CodeSigningFlag), "epf="+c15B(role.EmailProtectionFlag), "ucn="+c15B(role.UseCSRCommonName),
			"usans="+c15B(role.UseCSRSANs), "rcn="+c15B(role.RequireCN), "bcnca="+c15B(role.BasicConstraintsValidForNonCA),
			"ttl="+vh.I(int64(role.TTL/time.Second)), "maxttl="+vh.I(int64(role.MaxTTL/time.Second)),
			"nbd="+vh.I(int64(role.NotBeforeDuration/time.Second)), "rnb="+c15OptI(c.rnb), "rna="+c15OptI(c.rna),
			"nbb="+nbb, "nab="+nabField,
			"mdef="+vh.I(m.mdef), "mmax="+vh.I(m.mmax), "ioff="+vh.I(ioff), "lnab="+c.lnab,
			"cn="+vh.HexS(c.cn), "alt="+c15L(c.alt), "ip="+c15P(c.ips), "uri="+c15L(c.uris), "sn="+vh.HexS(c.sn), "xcn="+c15B(c.xcn),
			"qkt="+c.qkt, "qkb="+c.qkb, "rttl="+vh.I(c.rttl), "qnb="+c15OptI(c.qnb), "qna="+c15OptI(c.qna))
		qku, qeku := c.qku, c.qeku
		if !c.qkuSet {
			qku = []string{"DigitalSignature", "KeyAgreement", "KeyEncipherment"}
		}
		f = append(f, "qku="+c15P(qku), "qeku="+c15P(qeku), "qbc="+c.qbc)
		if c.csr != nil {
			f = append(f, "csr=1", "ccn="+vh.HexS(c.csr.cn), "cdns="+c15L(c.csr.dns), "cem="+c15L(c.csr.em), "cip="+c15P(c.csr.ips),
				"curi="+c15L(c.csr.uris), "csn="+vh.HexS(c.csr.sn), "cext="+c15P(c.csr.exts), "ckt="+c.csr.key.kt, "ckb="+strconv.Itoa(c.csr.key.kb))
		} else {
			f = append(f, "csr=0")
		}
		out.Op(res, f...)
		return
	}
}

// ---------------------------------------------------------------- the test

// c15Cel: CEL roles (cel/issue/<role>): the role's program computes NotAfter = now + request.ttl itself; the issuer's
// leaf_not_after_behavior must be applied to it all the same. Op line: cel <behaviour> <ttl s> <issuer ttl s> =>
// refused | ok na=<seconds from now>
// c15CaEKU: the CA-producing endpoints (root/generate, sign-intermediate) with ext_key_usage AND ext_key_usage_oids: the
// certificate must carry what was asked for — dropping a requested extended key usage yields a LESS constrained CA than
// requested ("refused rather than silently widened"). Op line: caeku <endpoint> => eku:<sorted names>|oids:<n>
func c15CaEKU(t *testing.T, out *vh.Out) {
	const oid = "1.3.6.1.4.1.311.20.2.2"
	for _, ep := range []string{"root", "intermediate"} {
		b, s := CreateBackendWithStorage(t)
		do := func(op logical.Operation, path string, data map[string]any) (*logical.Response, error) {
			return b.HandleRequest(context.Background(), &logical.Request{Storage: s, Operation: op, Path: path, Data: data})
		}
		var certPEM string
		if ep == "root" {
			resp, err := do(logical.UpdateOperation, "root/generate/internal", map[string]any{"common_name": "root.com", "key_type": "ec",
				"ext_key_usage": "ServerAuth", "ext_key_usage_oids": oid})
			if err != nil || resp == nil || resp.IsError() {
				t.Fatalf("caeku root: %v %v", err, resp)
			}
			certPEM = resp.Data["certificate"].(string)
		} else {
			resp, err := do(logical.UpdateOperation, "root/generate/internal", map[string]any{"common_name": "root.com", "key_type": "ec"})
			if err != nil || resp == nil || resp.IsError() {
				t.Fatalf("caeku root: %v %v", err, resp)
			}
			resp, err = do(logical.UpdateOperation, "intermediate/generate/internal", map[string]any{"common_name": "int.com", "key_type": "ec"})
			if err != nil || resp == nil || resp.IsError() {
				t.Fatalf("caeku csr: %v %v", err, resp)
			}
			resp, err = do(logical.UpdateOperation, "root/sign-intermediate", map[string]any{"csr": resp.Data["csr"], "common_name": "int.com",
				"ext_key_usage": "ServerAuth", "ext_key_usage_oids": oid})
			if err != nil || resp == nil || resp.IsError() {
				t.Fatalf("caeku sign-intermediate: %v %v", err, resp)
			}
			certPEM = resp.Data["certificate"].(string)
		}
		c := parseCert(t, certPEM)
		var names []string
		for _, u := range c.ExtKeyUsage {
			if u == x509.ExtKeyUsageServerAuth {
				names = append(names, "serverauth")
			} else {
				names = append(names, "other")
			}
		}
		sort.Strings(names)
		noid := 0
		for _, o := range c.UnknownExtKeyUsage {
			if o.String() == oid {
				noid++
			}
		}
		res := "eku:" + strings.Join(names, "+") + "|oids:" + strconv.Itoa(noid)
		if len(names) == 0 || noid == 0 {
			res += "!VIOL:the CA certificate made by " + ep + " was asked for ext_key_usage=ServerAuth and ext_key_usage_oids=" + oid + " and carries " + res + ": a requested constraint was dropped silently#ca-requested-eku-dropped"
		}
		out.Op(res, "caeku", ep)
	}
}

func c15Cel(t *testing.T, out *vh.Out) {
	for _, beh := range []string{"err", "truncate", "permit"} {
		for _, ttl := range []int64{3600, 360000} {
			const issuerTTL = 7200
			for try := 0; try < 5; try++ {
				b, s := CreateBackendWithStorage(t)
				do := func(op logical.Operation, path string, data map[string]any) (*logical.Response, error) {
					return b.HandleRequest(context.Background(), &logical.Request{Storage: s, Operation: op, Path: path, Data: data})
				}
				resp, err := do(logical.UpdateOperation, "root/generate/internal", map[string]any{"common_name": "root.com", "ttl": "7200s", "key_type": "ec"})
				if err != nil || resp == nil || resp.IsError() {
					t.Fatalf("cel root: %v %v", err, resp)
				}
				ca := parseCert(t, resp.Data["certificate"].(string))
				if resp, err = do(logical.UpdateOperation, "issuer/default", map[string]any{"leaf_not_after_behavior": beh}); err != nil || (resp != nil && resp.IsError()) {
					t.Fatalf("cel issuer: %v %v", err, resp)
				}
				resp, err = do(logical.UpdateOperation, "cel/roles/r", map[string]any{
					"cel_program": map[string]any{
						"variables": []map[string]any{
							{"name": "cert", "expression": `CertTemplate{
								Subject: PKIX.Name{ CommonName: request.common_name },
								NotBefore: now,
								NotAfter: now + duration(request.ttl),
								DNSNames: [request.common_name],
							}`},
							{"name": "output", "expression": `ValidationOutput{ template: cert, issuer_ref: "default", key_type: "ec", key_bits: uint(256) }`},
						},
						"expression": "output",
					},
				})
				if err != nil || (resp != nil && resp.IsError()) {
					t.Fatalf("cel role: %v %v", err, resp)
				}
				t0 := time.Now()
				resp, err = do(logical.UpdateOperation, "cel/issue/r", map[string]any{"common_name": "example.com", "ttl": strconv.FormatInt(ttl, 10)+"s"})
				res := "refused"
				if err == nil && resp != nil && !resp.IsError() {
					leaf := parseCert(t, resp.Data["certificate"].(string))
					if leaf.NotAfter.Equal(ca.NotAfter) {
						res = "ok na=" + strconv.Itoa(issuerTTL) // truncated to the issuer's NotAfter
					} else {
						d := leaf.NotAfter.Unix() - t0.Unix()
						if d != ttl && d != ttl+1 {
							continue // a second boundary between our clock reading and the program's `now`
						}
						res = "ok na=" + strconv.FormatInt(ttl, 10)
					}
					if beh != "permit" && leaf.NotAfter.After(ca.NotAfter) {
						res += "!VIOL:cel/issue issued a leaf that outlives its issuer although the issuer's leaf_not_after_behavior is " + beh + "#cel-leaf-outlives-issuer"
					}
				}
				out.Op(res, "cel", beh, vh.I(ttl), vh.I(issuerTTL))
				break
			}
		}
	}
}

func TestVerifC15(t *testing.T) {
	out := vh.Open()
	defer out.Close()
	rng := vh.NewRand(vh.Seed())
	c15Cel(t, out)
	c15CaEKU(t, out)

	// 1. helper functions
	nHelper := 4000
	nNames := 2500
	nIss := 5000
	if vh.Thorough() {
		nHelper, nNames, nIss = 60000, 40000, 60000
	}
	nHelper = vh.EnvInt("VERIF_C15_HELPER", nHelper)
	nNames = vh.EnvInt("VERIF_C15_NAMES", nNames)
	nIss = vh.EnvInt("VERIF_C15_ISS", nIss)
	prof := idna.New(idna.StrictDomainName(true), idna.VerifyDNSLength(true))
	for i := 0; i < nHelper; i++ {
		s := c15RandName(rng, c15PickDomains(rng), c15DisplayNames[rng.Intn(len(c15DisplayNames))])
		if rng.Chance(10) {
			s = strings.Repeat("abcdefgh.", 26+rng.Intn(5)) + rng.Pick([]string{"com", "com.", "c"})
		}
		conv, err := prof.ToASCII(s)
		if err != nil {
			out.Op("err", "idna", vh.HexS(s))
		} else {
			out.Op("ok:"+vh.HexS(conv), "idna", vh.HexS(s))
		}
		out.Op(c15B(hostnameRegex.MatchString(s)), "host", vh.HexS(s))
		lab := c15Labels[rng.Intn(len(c15Labels))]
		if rng.Chance(40) {
			lab = lab + rng.Pick([]string{"*", "*b", "-", "*-", ""}) + c15Labels[rng.Intn(len(c15Labels))]
		}
		out.Op(c15B(leftWildLabelRegex.MatchString(lab)), "wild", vh.HexS(lab))
		pat := c15Domains[rng.Intn(len(c15Domains))]
		if rng.Chance(30) {
			pat = rng.Pick([]string{"*a*", "a*a", "**", "*.*", "ab*ab", "*ab", "ab*", "a*b*c", "*a*b*"})
		}
		subj := s
		if rng.Chance(30) {
			subj = rng.Pick([]string{"", "a", "aa", "aba", "abab", "ab", "abcab", "a.b", "axbxc", "abc", "ba", "aab"})
		}
		out.Op(c15B(glob.Glob(pat, subj)), "glob", vh.HexS(pat), vh.HexS(subj))
	}

	// 2. validateNames / validateCommonName on one name
	for i := 0; i < nNames; i++ {
		nr := c15RandNameRole(rng)
		entry := nr.entry()
		data := &inputBundle{role: entry, req: &logical.Request{DisplayName: nr.dn}}
		for j := 0; j < 10; j++ {
			name := c15RandName(rng, nr.ad, nr.dn)
			bad := vh.Catch(func() string { return c15B(validateNames(nil, data, []string{name}) == "") })
			out.Op(bad, append(append([]string{"vname"}, nr.fields()...), "n="+vh.HexS(name))...)
			if j < 3 {
				okcn := vh.Catch(func() string { return c15B(validateCommonName(nil, data, name) == "") })
				out.Op(okcn, append(append([]string{"vcn"}, nr.fields()...), "n="+vh.HexS(name))...)
			}
		}
	}

	// 3. whole requests
	keys := c15Keys(t)
	var m *c15Mount
	for i := 0; i < nIss; i++ {
		if m == nil || m.issued >= 150 || time.Since(m.created) > 30*time.Second {
			m = c15NewMount(t, rng)
		}
		c15RunCase(t, m, c15GenCase(rng.Fork(uint64(i)), keys), out)
	}
}
