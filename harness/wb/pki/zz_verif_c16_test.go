//go:build verif

package pki

// Correspondence harness for C16 ("a revoked certificate is reported revoked everywhere until it expires").
// White-box: overlaid into internal/builtin/logical/pki at check time; never written into /repo.
//
// Every case drives a real pki backend on a recording / faulting storage through a history of
// issue / revoke / rotate / tidy / config / issuer add-remove / restart operations, emits per operation the
// canonical outcome and the canonical sequence of effective CRL-related storage writes (every CRL written is
// parsed, its signature checked against the issuer, its number and serials mapped to ordinals), and after every
// operation an `obs` line with every issuer's served CRL and every certificate's status (cert/<serial>) and
// OCSP answer.  Stream 2 fails each storage operation of a revoke / rotate once and retries; stream 3 kills the
// storage after each write prefix of a revoke / rotate and restarts the backend.

import (
	"bytes"
	"context"
	"crypto/ecdsa"
	"crypto/elliptic"
	"crypto/rand"
	"crypto/x509"
	"crypto/x509/pkix"
	"encoding/base64"
	"encoding/json"
	"encoding/pem"
	"errors"
	"fmt"
	"math/big"
	"net/http"
	"os"
	"runtime"
	"sort"
	"strconv"
	"strings"
	"sync"
	"testing"
	"time"

	"github.com/openbao/openbao/sdk/v2/logical"
	"github.com/openbao/openbao/v2/internal/zzverif/vh"
	"golang.org/x/crypto/ocsp"
)

// ---------------------------------------------------------------- recording / faulting storage

type c16Op struct {
	kind  string // get put del list
	key   string
	value []byte
	noop  bool // delete of a key that does not exist
	paged bool // ListPage (tidy walks revoked/ with pages; a CRL build lists it in one go)
	thread int // concurrent cases: 1 = the other request (and its helper goroutines), 2 = the revoke
}

type c16Store struct {
	mu      sync.Mutex
	inner   *logical.InmemStorage
	rec     bool
	ops     []c16Op
	failAt  int // fail the n-th storage operation (1-based) once; 0 = no fault
	n       int
	failed  *c16Op
	dieAt   int // after this many effective writes every operation fails; -1 = never
	writes  int
	dead    bool
	errInj  error

	// concurrent cases: every storage operation is atomic (opMu), thread 1 can be parked before its parkAt-th operation
	opMu    sync.Mutex
	conc    bool
	g2      int64 // goroutine id of the revoke
	parkAt  int
	n1      int
	parked  chan struct{}
	release chan struct{}
	last2   time.Time
}

func c16Goid() int64 {
	var buf [64]byte
	n := runtime.Stack(buf[:], false)
	f := strings.Fields(string(buf[:n]))
	if len(f) < 2 {
		return -1
	}
	id, _ := strconv.ParseInt(f[1], 10, 64)
	return id
}

func (s *c16Store) armConc(parkAt int) {
	s.arm(0, -1)
	s.mu.Lock()
	defer s.mu.Unlock()
	s.conc, s.g2, s.parkAt, s.n1 = true, 0, parkAt, 0
	s.parked, s.release = make(chan struct{}), make(chan struct{})
	s.last2 = time.Now()
}

func (s *c16Store) disarmConc() []c16Op {
	ops := s.disarm()
	s.mu.Lock()
	defer s.mu.Unlock()
	s.conc = false
	return ops
}

// gate tags the operation with its thread and parks thread 1 before its parkAt-th operation.
func (s *c16Store) gate(key string) int {
	s.mu.Lock()
	if !s.conc || strings.HasPrefix(key, "acme/") {
		s.mu.Unlock()
		return 0
	}
	if c16Goid() == s.g2 {
		s.last2 = time.Now()
		s.mu.Unlock()
		return 2
	}
	s.n1++
	park := s.n1 == s.parkAt
	parked, release := s.parked, s.release
	s.mu.Unlock()
	if park {
		close(parked)
		<-release
	}
	return 1
}

func (s *c16Store) do(ctx context.Context, op c16Op, f func() error) error {
	op.thread = s.gate(op.key)
	s.opMu.Lock()
	defer s.opMu.Unlock()
	if err := s.before(ctx, op); err != nil {
		return err
	}
	if op.thread == 2 {
		s.mu.Lock()
		s.last2 = time.Now()
		s.mu.Unlock()
	}
	return f()
}

func c16NewStore() *c16Store {
	return &c16Store{inner: &logical.InmemStorage{}, dieAt: -1, errInj: errors.New("c16: injected storage failure")}
}

func (s *c16Store) arm(failAt, dieAt int) {
	s.mu.Lock()
	defer s.mu.Unlock()
	s.rec, s.ops, s.n, s.failAt, s.failed, s.dieAt, s.writes, s.dead = true, nil, 0, failAt, nil, dieAt, 0, dieAt == 0
}

func (s *c16Store) disarm() []c16Op {
	s.mu.Lock()
	defer s.mu.Unlock()
	ops := s.ops
	s.rec, s.ops, s.failAt, s.dieAt, s.dead = false, nil, 0, -1, false
	return ops
}

// before decides whether the operation goes through; it records it when it does.
func (s *c16Store) before(ctx context.Context, op c16Op) error {
	s.mu.Lock()
	defer s.mu.Unlock()
	if !s.rec {
		return nil
	}
	if strings.HasPrefix(op.key, "acme/") {
		// the ACME validation engine polls storage from its own goroutine; it is not part of any request under test
		return nil
	}
	if s.dead {
		return s.errInj
	}
	s.n++
	if s.failAt > 0 && s.n == s.failAt {
		o := op
		s.failed = &o
		return s.errInj
	}
	if op.kind == "del" {
		e, _ := s.inner.Get(ctx, op.key)
		op.noop = e == nil
	}
	s.ops = append(s.ops, op)
	if (op.kind == "put" || op.kind == "del") && !op.noop {
		s.writes++
		if s.dieAt >= 0 && s.writes >= s.dieAt {
			// this write still takes effect; everything after it is lost
			defer func() { s.dead = true }()
		}
	}
	return nil
}

func (s *c16Store) List(ctx context.Context, prefix string) (res []string, err error) {
	err = s.do(ctx, c16Op{kind: "list", key: prefix}, func() (e error) { res, e = s.inner.List(ctx, prefix); return })
	return
}

func (s *c16Store) ListPage(ctx context.Context, prefix, after string, limit int) (res []string, err error) {
	err = s.do(ctx, c16Op{kind: "list", key: prefix, paged: true}, func() (e error) {
		res, e = s.inner.ListPage(ctx, prefix, after, limit)
		return
	})
	return
}

func (s *c16Store) Get(ctx context.Context, key string) (res *logical.StorageEntry, err error) {
	err = s.do(ctx, c16Op{kind: "get", key: key}, func() (e error) { res, e = s.inner.Get(ctx, key); return })
	return
}

func (s *c16Store) Put(ctx context.Context, e *logical.StorageEntry) error {
	return s.do(ctx, c16Op{kind: "put", key: e.Key, value: append([]byte(nil), e.Value...)}, func() error { return s.inner.Put(ctx, e) })
}

func (s *c16Store) Delete(ctx context.Context, key string) error {
	return s.do(ctx, c16Op{kind: "del", key: key}, func() error { return s.inner.Delete(ctx, key) })
}

// ---------------------------------------------------------------- environment

type c16Issuer struct {
	ord  int
	ref  string // what request paths use: the issuer name (generated roots) or the issuer id (imported CAs)
	name string
	id   string
	cert *x509.Certificate
	key  *ecdsa.PrivateKey
	live bool
}

type c16Cert struct {
	ord      int
	issuer   int
	class    string
	serial   string // colon form
	cert     *x509.Certificate
	pem      string
	mNotAfter int64 // model clock
}

type c16Line struct {
	res    string
	fields []string
	reset  bool
}

type c16Env struct {
	t       *testing.T
	store   *c16Store
	b       *backend
	issuers []*c16Issuer // index = ord-1
	certs   []*c16Cert   // index = ord-1
	bySerial map[string]int // hyphen serial -> cert ordinal
	stamps  map[string]int // serial|time -> stamp
	nstamps int
	crlIDs  map[string]int // crl id -> issuer ordinal
	mnow    int64
	nextSerial int64
	lines   []c16Line
	anomaly string
}

func c16NewEnv(t *testing.T) *c16Env {
	e := &c16Env{t: t, store: c16NewStore(), bySerial: map[string]int{}, stamps: map[string]int{}, crlIDs: map[string]int{}, mnow: 100}
	e.startBackend()
	return e
}

func (e *c16Env) startBackend() {
	config := logical.TestBackendConfig()
	config.StorageView = e.store
	b := Backend(config)
	if err := b.Setup(context.Background(), config); err != nil {
		e.t.Fatal(err)
	}
	if err := b.initialize(context.Background(), &logical.InitializationRequest{Storage: e.store}); err != nil {
		e.t.Fatal(err)
	}
	if b.useLegacyBundleCaStorage() {
		e.t.Fatal("c16: backend stayed in legacy storage mode after initialize")
	}
	e.b = b
}

func (e *c16Env) emit(res string, fields ...string) {
	e.lines = append(e.lines, c16Line{res: res, fields: fields})
}

func (e *c16Env) req(op logical.Operation, path string, data map[string]any) (*logical.Response, error) {
	return e.b.HandleRequest(context.Background(), &logical.Request{Operation: op, Path: path, Data: data, Storage: e.store, MountPoint: "pki/"})
}

func c16Hyphen(serial string) string {
	return strings.ReplaceAll(strings.ToLower(serial), ":", "-")
}

// ---------------------------------------------------------------- canonical write trace

type c16Tok struct {
	s     string
	group int
	k1    int
	k2    int
}

func (e *c16Env) ordOfSerial(n *big.Int) string {
	if k, ok := e.bySerial[c16Hyphen(serialFromBigInt(n))]; ok {
		return "#" + strconv.Itoa(k)
	}
	return "#?"
}

func (e *c16Env) ordList(entries []x509.RevocationListEntry) string {
	ks := []int{}
	unknown := 0
	for _, rc := range entries {
		if k, ok := e.bySerial[c16Hyphen(serialFromBigInt(rc.SerialNumber))]; ok {
			ks = append(ks, k)
		} else {
			unknown++
		}
	}
	sort.Ints(ks)
	ss := []string{}
	for _, k := range ks {
		ss = append(ss, "#"+strconv.Itoa(k))
	}
	for i := 0; i < unknown; i++ {
		ss = append(ss, "#?")
	}
	return "[" + strings.Join(ss, ",") + "]"
}

// crlDesc parses a CRL, checks its signature against the issuer named in it and renders `<issuer>:<number>[ords]`.
func (e *c16Env) crlDesc(der []byte) (issuer int, desc string) {
	crl, err := x509.ParseRevocationList(der)
	if err != nil {
		return 0, "?:unparsable"
	}
	cn := crl.Issuer.CommonName
	n, _ := strconv.Atoi(strings.TrimPrefix(cn, "root"))
	bad := ""
	if n < 1 || n > len(e.issuers) {
		return 0, "?:unknown-issuer"
	}
	if err := crl.CheckSignatureFrom(e.issuers[n-1].cert); err != nil {
		bad = "!badsig"
	}
	num := "nonum"
	if crl.Number != nil {
		num = crl.Number.String()
	}
	return n, fmt.Sprintf("%d:%s%s%s", n, num, e.ordList(crl.RevokedCertificateEntries), bad)
}

func (e *c16Env) stampOf(serialHyphen string, t time.Time) int {
	key := serialHyphen + "|" + t.UTC().Format(time.RFC3339Nano)
	if s, ok := e.stamps[key]; ok {
		return s
	}
	return -1
}

// token renders one effective storage write; ok=false for writes outside the CRL/revocation state.
func (e *c16Env) token(op c16Op) (c16Tok, bool) {
	if op.kind != "put" && op.kind != "del" {
		return c16Tok{}, false
	}
	if op.noop {
		return c16Tok{}, false
	}
	put := op.kind == "put"
	key := op.key
	switch {
	case strings.HasPrefix(key, "revoked/"):
		ser := strings.TrimPrefix(key, "revoked/")
		k, ok := e.bySerial[ser]
		ks := "#?"
		if ok {
			ks = "#" + strconv.Itoa(k)
		}
		if put {
			var ri revocationInfo
			st := -1
			if json.Unmarshal(op.value, &ri) == nil {
				tkey := ser + "|" + ri.RevocationTimeUTC.UTC().Format(time.RFC3339Nano)
				if s, ok := e.stamps[tkey]; ok {
					st = s
				} else {
					e.nstamps++
					e.stamps[tkey] = e.nstamps
					st = e.nstamps
				}
			}
			return c16Tok{s: fmt.Sprintf("R%s:t%d", ks, st), group: 3, k1: k, k2: 2}, true
		}
		return c16Tok{s: "r" + ks, group: 3, k1: k, k2: 1}, true
	case strings.HasPrefix(key, "certs/"):
		ser := strings.TrimPrefix(key, "certs/")
		k, ok := e.bySerial[ser]
		if !ok {
			// issuance of a certificate not yet registered (the issue op itself) or an issuer certificate
			return c16Tok{}, false
		}
		if put {
			return c16Tok{s: "S#" + strconv.Itoa(k)}, true
		}
		return c16Tok{s: "s#" + strconv.Itoa(k), group: 3, k1: k, k2: 0}, true
	case key == "crls/config":
		if !put {
			return c16Tok{s: "k"}, true
		}
		var cfg internalCRLConfigEntry
		if err := json.Unmarshal(op.value, &cfg); err != nil {
			return c16Tok{s: "K[?]"}, true
		}
		type kv struct{ i, n int }
		var l []kv
		for iid, cid := range cfg.IssuerIDCRLMap {
			io := 0
			for _, is := range e.issuers {
				if is.id == string(iid) {
					io = is.ord
				}
			}
			e.crlIDs[string(cid)] = io
			l = append(l, kv{io, int(cfg.CRLNumberMap[cid])})
		}
		sort.Slice(l, func(a, b int) bool { return l[a].i < l[b].i })
		ss := []string{}
		for _, x := range l {
			ss = append(ss, fmt.Sprintf("%d=%d", x.i, x.n))
		}
		return c16Tok{s: "K[" + strings.Join(ss, ",") + "]"}, true
	case strings.HasPrefix(key, "crls/"):
		id := strings.TrimPrefix(key, "crls/")
		delta := strings.HasSuffix(id, "-delta")
		id = strings.TrimSuffix(id, "-delta")
		if put {
			i, desc := e.crlDesc(op.value)
			if i > 0 {
				e.crlIDs[id] = i
			}
			if delta {
				return c16Tok{s: "D" + desc, group: 2, k1: i}, true
			}
			return c16Tok{s: "C" + desc, group: 1, k1: i}, true
		}
		i := e.crlIDs[id]
		if delta {
			return c16Tok{s: "d" + strconv.Itoa(i), group: 4, k1: i, k2: 1}, true
		}
		return c16Tok{s: "c" + strconv.Itoa(i), group: 4, k1: i, k2: 0}, true
	case key == "config/crl":
		if !put {
			return c16Tok{s: "g"}, true
		}
		var c crlConfig
		_ = json.Unmarshal(op.value, &c)
		b := func(x bool) string {
			if x {
				return "1"
			}
			return "0"
		}
		return c16Tok{s: "G:a" + b(c.AutoRebuild) + "d" + b(c.Disable) + "x" + b(c.AllowExpiredCertRevocation)}, true
	case strings.HasPrefix(key, "delta-wal/"):
		if put {
			return c16Tok{s: "W:" + strings.TrimPrefix(key, "delta-wal/")}, true
		}
		return c16Tok{s: "w:" + strings.TrimPrefix(key, "delta-wal/")}, true
	}
	return c16Tok{}, false
}

func (e *c16Env) tokens(ops []c16Op) []c16Tok {
	var out []c16Tok
	for _, op := range ops {
		if t, ok := e.token(op); ok {
			out = append(out, t)
		}
	}
	return out
}

// c16Canon sorts every maximal run of tokens of one unordered group (map-iteration / listing order in the code).
func c16Canon(toks []c16Tok) []c16Tok {
	// the counter write that precedes each CRL of a phase depends on the order in which the runtime walks the issuers:
	// it is left out of canonical (order-free) traces; interrupted and concurrent executions report it
	var out []c16Tok
	for i, t := range toks {
		if strings.HasPrefix(t.s, "K[") && i+1 < len(toks) && (toks[i+1].group == 1 || toks[i+1].group == 2) {
			continue
		}
		out = append(out, t)
	}
	i := 0
	for i < len(out) {
		g := out[i].group
		j := i + 1
		if g != 0 {
			for j < len(out) && out[j].group == g {
				j++
			}
			run := out[i:j]
			sort.SliceStable(run, func(a, b int) bool {
				if run[a].k1 != run[b].k1 {
					return run[a].k1 < run[b].k1
				}
				return run[a].k2 < run[b].k2
			})
		}
		i = j
	}
	return out
}

func c16Join(toks []c16Tok) string {
	if len(toks) == 0 {
		return "-"
	}
	ss := make([]string, len(toks))
	for i, t := range toks {
		ss[i] = t.s
	}
	return strings.Join(ss, " ")
}

// class of a storage operation (for fault positions)
func c16Class(op c16Op) string {
	k := op.key
	c := k
	switch {
	case strings.HasPrefix(k, "certs/"):
		c = "certs"
		if strings.Contains(k, ":") {
			c = "certs-legacy"
		}
	case strings.HasPrefix(k, "revoked/"):
		c = "revoked"
		if strings.Contains(k, ":") {
			c = "revoked-legacy"
		}
		if k == "revoked/" {
			c = "revoked-dir"
		}
	case strings.HasPrefix(k, "config/issuer/"):
		c = "issuer"
		if k == "config/issuer/" {
			c = "issuer-dir"
		}
	case strings.HasPrefix(k, "config/key/"):
		c = "key"
	case k == "crls/config", k == "config/crl", k == "config/issuers", k == "urls", k == "crls/", k == "delta-wal/":
	case strings.HasPrefix(k, "crls//"):
		c = "crl-orphan"
	case strings.HasPrefix(k, "crls/"):
		c = "crl"
		if strings.HasSuffix(k, "-delta") {
			c = "crl-delta"
		}
	case strings.HasPrefix(k, "delta-wal/"):
		c = "delta-wal"
	}
	return op.kind + ":" + c
}

// ---------------------------------------------------------------- operations

func c16ErrClass(resp *logical.Response, err error) string {
	msg := ""
	if err != nil {
		msg = err.Error()
	} else if resp != nil && resp.IsError() {
		msg = resp.Error().Error()
	} else {
		return ""
	}
	switch {
	case strings.Contains(msg, "c16: injected"):
		if err != nil {
			return "err:internal"
		}
		return "err:user-storage"
	case strings.Contains(msg, "not found"):
		return "err:notfound"
	case strings.Contains(msg, "unable to verify signature on presented cert"):
		return "err:nosigner"
	case strings.Contains(msg, "to its own CRL is not allowed"):
		return "err:isissuer"
	case strings.Contains(msg, "unable to find PKI issuer") || strings.Contains(msg, "unable to fetch corresponding key"):
		return "err:noissuer"
	}
	return "err:other:" + vh.HexS(msg)
}

func (e *c16Env) addIssuerReq() (*logical.Response, error) {
	n := len(e.issuers) + 1
	return e.req(logical.UpdateOperation, "root/generate/exported", map[string]any{
		"common_name": "root" + strconv.Itoa(n), "issuer_name": "i" + strconv.Itoa(n), "ttl": "40h", "key_type": "ec", "key_bits": 256,
	})
}

func (e *c16Env) ensureRole() {
	if len(e.issuers) == 1 {
		if _, err := e.req(logical.UpdateOperation, "roles/r", map[string]any{"allow_any_name": true, "ttl": "1h", "max_ttl": "2h", "key_type": "ec", "key_bits": 256}); err != nil {
			e.t.Fatal(err)
		}
	}
}

func (e *c16Env) addIssuerRegister(resp *logical.Response) int {
	n := len(e.issuers) + 1
	name := "i" + strconv.Itoa(n)
	is := &c16Issuer{ord: n, name: name, ref: name, live: true}
	is.id = fmt.Sprint(resp.Data["issuer_id"])
	blk, _ := pem.Decode([]byte(resp.Data["certificate"].(string)))
	var err error
	is.cert, err = x509.ParseCertificate(blk.Bytes)
	if err != nil {
		e.t.Fatal(err)
	}
	kb, _ := pem.Decode([]byte(resp.Data["private_key"].(string)))
	if k, err := x509.ParseECPrivateKey(kb.Bytes); err == nil {
		is.key = k
	} else if k2, err2 := x509.ParsePKCS8PrivateKey(kb.Bytes); err2 == nil {
		is.key = k2.(*ecdsa.PrivateKey)
	} else {
		e.t.Fatal(err)
	}
	e.issuers = append(e.issuers, is)
	return n
}

func (e *c16Env) addIssuer() {
	e.store.arm(0, -1)
	resp, err := e.addIssuerReq()
	ops := e.store.disarm()
	if ec := c16ErrClass(resp, err); ec != "" {
		e.emit(ec, "addissuer")
		return
	}
	n := e.addIssuerRegister(resp)
	e.ensureRole()
	e.emit(fmt.Sprintf("ok:i%d w=%s", n, c16Join(c16Canon(e.tokens(ops)))), "addissuer")
}

func (e *c16Env) delIssuer(i int) {
	e.store.arm(0, -1)
	ref := "i" + strconv.Itoa(i)
	if i >= 1 && i <= len(e.issuers) {
		ref = e.issuers[i-1].ref
	}
	resp, err := e.req(logical.DeleteOperation, "issuer/"+ref, nil)
	ops := e.store.disarm()
	if ec := c16ErrClass(resp, err); ec != "" {
		e.emit(ec, "delissuer", strconv.Itoa(i))
		return
	}
	if i >= 1 && i <= len(e.issuers) {
		e.issuers[i-1].live = false
	}
	e.emit("ok w="+c16Join(c16Canon(e.tokens(ops))), "delissuer", strconv.Itoa(i))
}

func (e *c16Env) register(c *c16Cert) {
	c.ord = len(e.certs) + 1
	e.certs = append(e.certs, c)
	e.bySerial[c16Hyphen(c.serial)] = c.ord
}

func (e *c16Env) issue(i int, class string) {
	ttl := map[string]string{"L": "1h", "S": "1s", "M": "4s"}[class]
	mttl := map[string]int64{"L": 3600, "S": 1, "M": 4}[class]
	ref := "i" + strconv.Itoa(i)
	if i >= 1 && i <= len(e.issuers) {
		ref = e.issuers[i-1].ref
	}
	resp, err := e.req(logical.UpdateOperation, "issuer/"+ref+"/issue/r", map[string]any{"common_name": "leaf.example.com", "ttl": ttl})
	if ec := c16ErrClass(resp, err); ec != "" {
		e.emit(ec, "issue", strconv.Itoa(i), class)
		return
	}
	c := &c16Cert{issuer: i, class: class, serial: resp.Data["serial_number"].(string), pem: resp.Data["certificate"].(string), mNotAfter: e.mnow + mttl}
	blk, _ := pem.Decode([]byte(c.pem))
	c.cert, err = x509.ParseCertificate(blk.Bytes)
	if err != nil {
		e.t.Fatal(err)
	}
	e.register(c)
	e.emit("ok:#"+strconv.Itoa(c.ord), "issue", strconv.Itoa(i), class)
}

// craft signs, outside the mount, a leaf with issuer i's key (the issuer may have been deleted since): class X is
// already expired, class V is valid for an hour.  Serial numbers are CHOSEN, openssl style: 0x1001, 0x1002, ...
func (e *c16Env) craft(i int, class string) {
	fields := []string{"craft", strconv.Itoa(i), class}
	if i < 1 || i > len(e.issuers) {
		e.emit("err:noissuer", fields...)
		return
	}
	is := e.issuers[i-1]
	key, err := ecdsa.GenerateKey(elliptic.P256(), rand.Reader)
	if err != nil {
		e.t.Fatal(err)
	}
	e.nextSerial++
	sn := big.NewInt(0x1000 + e.nextSerial)
	now := time.Now()
	tmpl := &x509.Certificate{
		SerialNumber: sn, Subject: pkix.Name{CommonName: "crafted.example.com"},
		NotBefore: now.Add(-2 * time.Hour), NotAfter: now.Add(-1 * time.Hour),
		KeyUsage: x509.KeyUsageDigitalSignature, ExtKeyUsage: []x509.ExtKeyUsage{x509.ExtKeyUsageServerAuth},
	}
	c := &c16Cert{issuer: i, class: class, mNotAfter: e.mnow - 3600}
	if class == "V" {
		tmpl.NotAfter = now.Add(time.Hour)
		c.mNotAfter = e.mnow + 3600
	}
	der, err := x509.CreateCertificate(rand.Reader, tmpl, is.cert, &key.PublicKey, is.key)
	if err != nil {
		e.t.Fatal(err)
	}
	c.cert, _ = x509.ParseCertificate(der)
	c.serial = serialFromCert(c.cert)
	c.pem = string(pem.EncodeToMemory(&pem.Block{Type: "CERTIFICATE", Bytes: der}))
	e.register(c)
	e.emit("ok:#"+strconv.Itoa(c.ord), fields...)
}

// importIssuer builds, outside the mount, a self-signed CA certificate with its own key and imports it with
// issuers/import/bundle.  col = 0: a fresh serial number; col = k: the CA's own certificate carries the serial
// number of certificate #k (what an external parent with its own serial counter may well hand out).
// importBuild builds the external CA (col as in importIssuer) and returns its PEM bundle and the issuer record.
func (e *c16Env) importBuild(col int) (string, *c16Issuer) {
	n := len(e.issuers) + 1
	key, err := ecdsa.GenerateKey(elliptic.P256(), rand.Reader)
	if err != nil {
		e.t.Fatal(err)
	}
	var sn *big.Int
	if col > 0 {
		sn = new(big.Int).Set(e.certs[col-1].cert.SerialNumber)
	} else {
		e.nextSerial++
		sn = big.NewInt(0x7000000 + e.nextSerial)
	}
	now := time.Now()
	tmpl := &x509.Certificate{
		SerialNumber: sn, Subject: pkix.Name{CommonName: "root" + strconv.Itoa(n)},
		NotBefore: now.Add(-time.Hour), NotAfter: now.Add(40 * time.Hour),
		KeyUsage: x509.KeyUsageCertSign | x509.KeyUsageCRLSign | x509.KeyUsageDigitalSignature,
		IsCA:     true, BasicConstraintsValid: true,
	}
	der, err := x509.CreateCertificate(rand.Reader, tmpl, tmpl, &key.PublicKey, key)
	if err != nil {
		e.t.Fatal(err)
	}
	kder, err := x509.MarshalECPrivateKey(key)
	if err != nil {
		e.t.Fatal(err)
	}
	bundle := string(pem.EncodeToMemory(&pem.Block{Type: "CERTIFICATE", Bytes: der})) +
		string(pem.EncodeToMemory(&pem.Block{Type: "EC PRIVATE KEY", Bytes: kder}))
	is := &c16Issuer{ord: n, key: key, live: true}
	is.cert, _ = x509.ParseCertificate(der)
	return bundle, is
}

// importRegister completes the issuer record from the import response; "" when the response is not as expected.
func (e *c16Env) importRegister(is *c16Issuer, resp *logical.Response) string {
	ids, _ := resp.Data["imported_issuers"].([]string)
	if len(ids) != 1 {
		return "err:import:" + strconv.Itoa(len(ids))
	}
	is.ref, is.id = ids[0], ids[0]
	e.issuers = append(e.issuers, is)
	return ""
}

func (e *c16Env) importIssuer(col int) {
	fields := []string{"importissuer", strconv.Itoa(col)}
	if col < 0 || col > len(e.certs) {
		e.emit("bad-op", fields...)
		return
	}
	bundle, is := e.importBuild(col)
	e.store.arm(0, -1)
	resp, rerr := e.req(logical.UpdateOperation, "issuers/import/bundle", map[string]any{"pem_bundle": bundle})
	ops := e.store.disarm()
	if ec := c16ErrClass(resp, rerr); ec != "" {
		e.emit(ec, fields...)
		return
	}
	if ec := e.importRegister(is, resp); ec != "" {
		e.emit(ec, fields...)
		return
	}
	e.ensureRole()
	// the tokens of the import are rendered only now that the new issuer is known to the environment
	e.emit(fmt.Sprintf("ok:i%d w=%s", is.ord, c16Join(c16Canon(e.tokens(ops)))), fields...)
}

// cut: "" none; "fault" (n-th storage op fails once); "crash" (storage dies after j effective writes, restart)
type c16Cut struct {
	kind string
	n    int
}

// run executes a request under a cut and renders outcome + observed trace; returns the number of storage operations
// and effective writes of the request (for enumerating cut positions).
func (e *c16Env) runCut(cut c16Cut, fields []string, call func() (*logical.Response, error), okRes func(*logical.Response) string) (nops, nwrites int) {
	switch cut.kind {
	case "fault":
		e.store.arm(cut.n, -1)
	case "crash":
		e.store.arm(0, cut.n)
	default:
		e.store.arm(0, -1)
	}
	resp, err := call()
	failed := e.store.failed
	writes := e.store.writes
	ops := e.store.disarm()
	toks := e.tokens(ops)
	res := c16ErrClass(resp, err)
	if res == "" {
		res = okRes(resp)
	}
	switch cut.kind {
	case "fault":
		cls := "none"
		if failed != nil {
			cls = c16Class(*failed)
		}
		if failed == nil || !strings.HasPrefix(res, "err:") {
			// the fault was not hit, or its failure was swallowed: the request ran to completion
			res += " w=" + c16Join(c16Canon(toks))
		}
		e.emit(res, append(append([]string{}, fields...), "fault", cls, c16Join(toks))...)
	case "crash":
		e.emit("crashed", append(append([]string{}, fields...), "crash", c16Join(toks))...)
		e.b.Cleanup(context.Background())
		e.startBackend()
	default:
		e.emit(res+" w="+c16Join(c16Canon(toks)), fields...)
	}
	return len(ops), writes
}

func (e *c16Env) realRevokeExpired(c *c16Cert) bool {
	return c.cert.NotAfter.Before(time.Now().Add(2 * time.Second))
}

func (e *c16Env) realTidyExpired(c *c16Cert) bool {
	return time.Since(c.cert.NotAfter) > time.Second
}

func (e *c16Env) revoke(k int, mode string, cut c16Cut) (int, int) {
	fields := []string{"revoke", strconv.Itoa(k), mode}
	if k < 1 || k > len(e.certs) {
		e.emit("bad-op", fields...)
		return 0, 0
	}
	c := e.certs[k-1]
	data := map[string]any{"serial_number": c.serial}
	if mode == "cert" {
		data = map[string]any{"certificate": c.pem}
	}
	wantExp := c.mNotAfter < e.mnow+2
	if e.realRevokeExpired(c) != wantExp {
		e.anomaly = "revoke-expiry-before"
	}
	n, w := e.runCut(cut, fields, func() (*logical.Response, error) {
		return e.req(logical.UpdateOperation, "revoke", data)
	}, func(resp *logical.Response) string { return e.revokeOk(c, resp) })
	if e.realRevokeExpired(c) != wantExp {
		e.anomaly = "revoke-expiry-after"
	}
	return n, w
}

func (e *c16Env) revokeOk(c *c16Cert, resp *logical.Response) string {
	if resp == nil {
		return "ok:nil"
	}
	if st, ok := resp.Data["state"]; ok && st == "revoked" {
		ts, _ := resp.Data["revocation_time_rfc3339"].(string)
		t, perr := time.Parse(time.RFC3339Nano, ts)
		stamp := -1
		if perr == nil {
			stamp = e.stampOf(c16Hyphen(c.serial), t)
		}
		return fmt.Sprintf("ok:revoked:t%d", stamp)
	}
	for _, w := range resp.Warnings {
		if strings.Contains(w, "already expired; refusing to add to CRL") {
			return "ok:expired"
		}
	}
	return "ok:other"
}

func (e *c16Env) rotate(cut c16Cut) (int, int) {
	return e.runCut(cut, []string{"rotate"}, func() (*logical.Response, error) {
		return e.req(logical.ReadOperation, "crl/rotate", nil)
	}, func(resp *logical.Response) string {
		if resp != nil && resp.Data["success"] == true {
			return "ok"
		}
		return "ok:other"
	})
}

// ---------------------------------------------------------------- concurrent cases

func (s *c16Store) setG2(id int64) {
	s.mu.Lock()
	defer s.mu.Unlock()
	s.g2, s.last2 = id, time.Now()
}

func (s *c16Store) lastOp2() time.Time {
	s.mu.Lock()
	defer s.mu.Unlock()
	return s.last2
}

func (e *c16Env) issuerOrdByID(id string) int {
	for _, is := range e.issuers {
		if is.id == id {
			return is.ord
		}
	}
	return 0
}

func c16StepFields(st c16Step) []string {
	f := []string{st.op}
	for _, x := range []string{st.a, st.b, st.c} {
		if x != "" {
			f = append(f, x)
		}
	}
	return f
}

// conc runs request r1 (thread 1: issuer delete / generate / import, config/crl, tidy — all rebuild the CRLs outside
// revokeStorageLock) against `revoke k` (thread 2) on the same backend.  The storage wrapper is the scheduler: thread 1
// is parked before its parkAt-th storage operation, thread 2 runs until it finishes or makes no storage operation for
// 30 ms (blocked on a lock), then thread 1 is released and both run to the end.  Every storage operation is atomic and
// recorded in global order with its thread; the emitted schedule is that order restricted to effective writes, issuer
// entry creation/deletion and each build's listing of revoked/ ("L").
func (e *c16Env) conc(r1 c16Step, k int, mode string, parkAt int) {
	fields := append([]string{"conc"}, c16StepFields(r1)...)
	fields = append(fields, "|", "revoke", strconv.Itoa(k), mode, "|")
	if k < 1 || k > len(e.certs) {
		e.emit("bad-op", append(fields, "-")...)
		return
	}
	c := e.certs[k-1]
	atoi := func(x string) int { n, _ := strconv.Atoi(x); return n }
	var bundle string
	var newIs *c16Issuer
	if r1.op == "importissuer" {
		bundle, newIs = e.importBuild(0)
	}
	e.store.armConc(parkAt)
	var resp1, resp2 *logical.Response
	var err1, err2 error
	done1, done2 := make(chan struct{}), make(chan struct{})
	go func() {
		defer close(done1)
		resp1, err1 = e.r1Call(r1, bundle)
	}()
	timeout := ""
	select {
	case <-e.store.parked:
	case <-done1:
	case <-time.After(30 * time.Second):
		timeout = "timeout:r1-start"
	}
	data := map[string]any{"serial_number": c.serial}
	if mode == "cert" {
		data = map[string]any{"certificate": c.pem}
	}
	go func() {
		defer close(done2)
		e.store.setG2(c16Goid())
		resp2, err2 = e.req(logical.UpdateOperation, "revoke", data)
	}()
	start := time.Now()
wait2:
	for {
		select {
		case <-done2:
			break wait2
		default:
		}
		if time.Since(start) > 30*time.Millisecond && time.Since(e.store.lastOp2()) > 30*time.Millisecond {
			break
		}
		time.Sleep(500 * time.Microsecond)
	}
	close(e.store.release)
	for _, ch := range []chan struct{}{done1, done2} {
		select {
		case <-ch:
		case <-time.After(30 * time.Second):
			timeout = "timeout:deadlock"
		}
	}
	ops := e.store.disarmConc()
	if timeout != "" {
		e.emit(timeout, append(fields, "-")...)
		e.anomaly = timeout
		return
	}
	// the other request's bookkeeping in the environment
	r1res := c16ErrClass(resp1, err1)
	newOrd := 0
	if r1res == "" {
		r1res = "ok"
		switch r1.op {
		case "addissuer":
			newOrd = e.addIssuerRegister(resp1)
			r1res = "ok:i" + strconv.Itoa(newOrd)
		case "importissuer":
			if ec := e.importRegister(newIs, resp1); ec != "" {
				r1res = ec
			} else {
				newOrd = newIs.ord
				r1res = "ok:i" + strconv.Itoa(newOrd)
			}
		case "delissuer":
			if i := atoi(r1.a); i >= 1 && i <= len(e.issuers) {
				e.issuers[i-1].live = false
			}
		}
	}
	var ev []string
	seenNew := false
	for _, op := range ops {
		if op.thread == 0 {
			continue
		}
		pre := strconv.Itoa(op.thread) + ":"
		switch {
		case op.kind == "list" && op.key == "revoked/" && !op.paged:
			ev = append(ev, pre+"L")
		case strings.HasPrefix(op.key, "config/issuer/") && op.key != "config/issuer/":
			ord := e.issuerOrdByID(strings.TrimPrefix(op.key, "config/issuer/"))
			if op.kind == "del" && !op.noop && ord > 0 {
				ev = append(ev, pre+"x"+strconv.Itoa(ord))
			}
			if op.kind == "put" && ord > 0 && ord == newOrd && !seenNew {
				seenNew = true
				ev = append(ev, pre+"n"+strconv.Itoa(ord))
			}
		default:
			if t, ok := e.token(op); ok {
				ev = append(ev, pre+t.s)
			}
		}
	}
	r2res := c16ErrClass(resp2, err2)
	if r2res == "" {
		r2res = e.revokeOk(c, resp2)
	}
	sched := "-"
	if len(ev) > 0 {
		sched = strings.Join(ev, " ")
	}
	e.emit("r1="+r1res+" r2="+r2res, append(fields, sched)...)
}

// r1Call issues the other request of a concurrent case (no bookkeeping, no output).
func (e *c16Env) r1Call(r1 c16Step, bundle string) (resp *logical.Response, err error) {
	atoi := func(x string) int { n, _ := strconv.Atoi(x); return n }
	switch r1.op {
	case "delissuer":
		ref := "i" + r1.a
		if i := atoi(r1.a); i >= 1 && i <= len(e.issuers) {
			ref = e.issuers[i-1].ref
		}
		return e.req(logical.DeleteOperation, "issuer/"+ref, nil)
	case "addissuer":
		return e.addIssuerReq()
	case "importissuer":
		return e.req(logical.UpdateOperation, "issuers/import/bundle", map[string]any{"pem_bundle": bundle})
	case "config":
		data := map[string]any{}
		for name, v := range map[string]string{"auto_rebuild": r1.a, "disable": r1.b, "allow_expired_cert_revocation": r1.c} {
			if v == "1" {
				data[name] = true
			} else if v == "0" {
				data[name] = false
			}
		}
		return e.req(logical.UpdateOperation, "config/crl", data)
	case "tidy":
		resp, err = e.req(logical.UpdateOperation, "tidy", map[string]any{
			"tidy_cert_store": r1.a == "1", "tidy_revoked_certs": r1.b == "1", "tidy_revoked_cert_issuer_associations": r1.c == "1", "safety_buffer": 1,
		})
		deadline := time.Now().Add(30 * time.Second)
		for e.b.tidyCASGuard.Load() && time.Now().Before(deadline) {
			time.Sleep(200 * time.Microsecond)
		}
		return resp, err
	}
	return nil, errors.New("c16: unknown concurrent request")
}

// concProbe runs the other request alone (dry run on a throw-away environment).
func (e *c16Env) concProbe(r1 c16Step) {
	bundle := ""
	if r1.op == "importissuer" {
		bundle, _ = e.importBuild(0)
	}
	_, _ = e.r1Call(r1, bundle)
}

func c16B(b bool) string {
	if b {
		return "1"
	}
	return "0"
}

func (e *c16Env) tidy(cs, rc, assoc bool) {
	check := func(tag string) {
		for _, c := range e.certs {
			if e.realTidyExpired(c) != (c.mNotAfter+1 < e.mnow) {
				e.anomaly = "tidy-expiry-" + tag
			}
		}
	}
	check("before")
	e.runCut(c16Cut{}, []string{"tidy", c16B(cs), c16B(rc), c16B(assoc)}, func() (*logical.Response, error) {
		resp, err := e.req(logical.UpdateOperation, "tidy", map[string]any{
			"tidy_cert_store": cs, "tidy_revoked_certs": rc, "tidy_revoked_cert_issuer_associations": assoc, "safety_buffer": 1,
		})
		deadline := time.Now().Add(20 * time.Second)
		for e.b.tidyCASGuard.Load() && time.Now().Before(deadline) {
			time.Sleep(200 * time.Microsecond)
		}
		if e.b.tidyCASGuard.Load() {
			return nil, errors.New("c16: tidy did not finish")
		}
		return resp, err
	}, func(resp *logical.Response) string {
		e.b.tidyStatusLock.RLock()
		defer e.b.tidyStatusLock.RUnlock()
		if e.b.tidyStatus.err != nil {
			return "ok:tidy-error:" + vh.HexS(e.b.tidyStatus.err.Error())
		}
		return "ok"
	})
	check("after")
}

func (e *c16Env) config(a, d, x string) {
	data := map[string]any{}
	set := func(name, v string) {
		if v == "1" {
			data[name] = true
		} else if v == "0" {
			data[name] = false
		}
	}
	set("auto_rebuild", a)
	set("disable", d)
	set("allow_expired_cert_revocation", x)
	e.runCut(c16Cut{}, []string{"config", a, d, x}, func() (*logical.Response, error) {
		return e.req(logical.UpdateOperation, "config/crl", data)
	}, func(resp *logical.Response) string { return "ok" })
}

func (e *c16Env) restart() {
	e.b.Cleanup(context.Background())
	e.startBackend()
	e.emit("ok", "restart")
}

func (e *c16Env) tick(d int) {
	time.Sleep(time.Duration(d) * time.Second)
	e.mnow += int64(d)
	e.emit("ok", "tick", strconv.Itoa(d))
}

// ---------------------------------------------------------------- observation

func (e *c16Env) obs() {
	var sb strings.Builder
	sb.WriteString("crl")
	for _, is := range e.issuers {
		if !is.live {
			continue
		}
		resp, err := e.req(logical.ReadOperation, "issuer/"+is.ref+"/crl/der", nil)
		d := "none"
		if err != nil {
			d = "none"
			if !strings.Contains(err.Error(), "unable to find CRL for issuer") {
				d = "err"
			}
		} else if raw, _ := resp.Data[logical.HTTPRawBody].([]byte); len(raw) > 0 {
			i, desc := e.crlDesc(raw)
			d = strings.TrimPrefix(desc, strconv.Itoa(i)+":")
			if i != is.ord {
				d += "!wrong-issuer"
			}
		}
		fmt.Fprintf(&sb, " i%d=%s", is.ord, d)
	}
	sb.WriteString(" | def=")
	resp, err := e.req(logical.ReadOperation, "crl", nil)
	if err != nil {
		sb.WriteString("err")
	} else if raw, _ := resp.Data[logical.HTTPRawBody].([]byte); len(raw) > 0 {
		if crl, perr := x509.ParseRevocationList(raw); perr == nil && crl.Number != nil {
			sb.WriteString(crl.Number.String())
		} else {
			sb.WriteString("unparsable")
		}
	} else {
		sb.WriteString("none")
	}
	sb.WriteString(" |")
	for _, c := range e.certs {
		st := "N"
		resp, err := e.req(logical.ReadOperation, "cert/"+c.serial, nil)
		switch {
		case err != nil || (resp != nil && resp.IsError()):
			st = "E"
		case resp == nil:
			st = "N"
		default:
			rt, _ := resp.Data["revocation_time"].(int64)
			ts, _ := resp.Data["revocation_time_rfc3339"].(string)
			if rt == 0 && ts == "" {
				st = "G"
			} else {
				t, perr := time.Parse(time.RFC3339Nano, ts)
				stamp := -1
				if perr == nil {
					stamp = e.stampOf(c16Hyphen(c.serial), t)
				}
				st = "R" + strconv.Itoa(stamp)
			}
		}
		fmt.Fprintf(&sb, " #%d=%s/%s", c.ord, st, e.ocspStatus(c))
	}
	e.emit(sb.String(), "obs")
}

func (e *c16Env) ocspStatus(c *c16Cert) string {
	is := e.issuers[c.issuer-1]
	reqDer, err := ocsp.CreateRequest(c.cert, is.cert, nil)
	if err != nil {
		return "E"
	}
	resp, err := e.b.HandleRequest(context.Background(), &logical.Request{
		Operation: logical.UpdateOperation, Path: "ocsp", Storage: e.store, MountPoint: "pki/",
		HTTPRequest: &http.Request{Body: c16Body(reqDer)},
	})
	if err != nil || resp == nil {
		return "E"
	}
	raw, _ := resp.Data[logical.HTTPRawBody].([]byte)
	if bytes.Equal(raw, ocsp.UnauthorizedErrorResponse) {
		return "x"
	}
	if bytes.Equal(raw, ocsp.InternalErrorErrorResponse) {
		return "I"
	}
	if bytes.Equal(raw, ocsp.MalformedRequestErrorResponse) {
		return "M"
	}
	// the signer is the certificate's issuer, or the default issuer for "unknown"
	var parsed *ocsp.Response
	for _, cand := range e.issuers {
		if p, perr := ocsp.ParseResponse(raw, cand.cert); perr == nil {
			parsed = p
			break
		}
	}
	if parsed == nil {
		return "B" // not signed by any issuer of the mount
	}
	if parsed.SerialNumber.Cmp(c.cert.SerialNumber) != 0 {
		return "W"
	}
	switch parsed.Status {
	case ocsp.Good:
		return "g"
	case ocsp.Revoked:
		return "r"
	case ocsp.Unknown:
		return "u"
	}
	return "?"
}

type c16RC struct{ *bytes.Reader }

func (c16RC) Close() error { return nil }

func c16Body(b []byte) c16RC { return c16RC{bytes.NewReader(b)} }

var _ = base64.StdEncoding

// ---------------------------------------------------------------- generators

type c16Step struct {
	op   string
	a, b string
	c    string
}

// c16Gen produces a random history (as abstract steps that refer to ordinals) for one case.
type c16Gen struct {
	r        *vh.Rand
	nIssuers int
	live     []int
	nCerts   int
	revoked  map[int]bool
	crafted  []int
	thorough bool
}

func (g *c16Gen) isLive(i int) bool {
	for _, l := range g.live {
		if l == i {
			return true
		}
	}
	return false
}

func (g *c16Gen) pickLive() int {
	if len(g.live) == 0 {
		return 1 + g.r.Intn(max(1, g.nIssuers))
	}
	return g.live[g.r.Intn(len(g.live))]
}

func (g *c16Gen) next() c16Step {
	r := g.r
	if g.thorough && r.Chance(10) {
		return c16Step{op: "tick", a: "3"}
	}
	for {
		x := r.Intn(100)
		switch {
		case x < 26: // issue
			if g.nIssuers == 0 {
				continue
			}
			i := g.pickLive()
			if r.Chance(6) {
				i = 1 + r.Intn(g.nIssuers)
			}
			cls := "L"
			switch y := r.Intn(10); {
			case y < 2:
				cls = "S"
			case y < 4:
				cls = "M"
			}
			if g.isLive(i) {
				g.nCerts++
			}
			return c16Step{op: "issue", a: strconv.Itoa(i), b: cls}
		case x < 30: // craft
			if g.nIssuers == 0 {
				continue
			}
			g.nCerts++
			g.crafted = append(g.crafted, g.nCerts)
			cls := "X"
			if r.Chance(50) {
				cls = "V"
			}
			return c16Step{op: "craft", a: strconv.Itoa(1 + r.Intn(g.nIssuers)), b: cls}
		case x < 58: // revoke
			if g.nCerts == 0 {
				continue
			}
			k := 1 + r.Intn(g.nCerts)
			// prefer not yet revoked certificates two times out of three
			for tries := 0; tries < 3 && g.revoked[k] && !r.Chance(33); tries++ {
				k = 1 + r.Intn(g.nCerts)
			}
			mode := "serial"
			if r.Chance(25) {
				mode = "cert"
			}
			// externally signed certificates only enter the mount through revoke-by-certificate
			if len(g.crafted) > 0 && r.Chance(35) {
				k = g.crafted[r.Intn(len(g.crafted))]
				if r.Chance(85) {
					mode = "cert"
				}
			}
			g.revoked[k] = true
			return c16Step{op: "revoke", a: strconv.Itoa(k), b: mode}
		case x < 66:
			return c16Step{op: "rotate"}
		case x < 74:
			return c16Step{op: "tidy", a: c16B(r.Chance(35)), b: c16B(r.Chance(80)), c: c16B(r.Chance(30))}
		case x < 84:
			tri := func(p int) string {
				if !r.Chance(p) {
					return "-"
				}
				return c16B(r.Bool())
			}
			return c16Step{op: "config", a: tri(60), b: tri(35), c: tri(45)}
		case x < 88:
			if g.nIssuers >= 4 {
				continue
			}
			g.nIssuers++
			g.live = append(g.live, g.nIssuers)
			if r.Chance(45) {
				// an externally built CA; half of the time its own serial collides with a certificate, preferably a revoked one
				col := 0
				if g.nCerts > 0 && r.Chance(55) {
					col = 1 + r.Intn(g.nCerts)
					for tries := 0; tries < 4 && !g.revoked[col]; tries++ {
						col = 1 + r.Intn(g.nCerts)
					}
				}
				return c16Step{op: "importissuer", a: strconv.Itoa(col)}
			}
			return c16Step{op: "addissuer"}
		case x < 92:
			if g.nIssuers == 0 {
				continue
			}
			i := g.pickLive()
			var nl []int
			for _, l := range g.live {
				if l != i {
					nl = append(nl, l)
				}
			}
			g.live = nl
			return c16Step{op: "delissuer", a: strconv.Itoa(i)}
		case x < 96:
			return c16Step{op: "restart"}
		default:
			if !g.thorough {
				continue
			}
			return c16Step{op: "tick", a: "3"}
		}
	}
}

func (e *c16Env) apply(s c16Step) {
	atoi := func(x string) int { n, _ := strconv.Atoi(x); return n }
	switch s.op {
	case "addissuer":
		e.addIssuer()
	case "delissuer":
		e.delIssuer(atoi(s.a))
	case "issue":
		e.issue(atoi(s.a), s.b)
	case "craft":
		e.craft(atoi(s.a), s.b)
	case "importissuer":
		e.importIssuer(atoi(s.a))
	case "revoke":
		e.revoke(atoi(s.a), s.b, c16Cut{})
	case "rotate":
		e.rotate(c16Cut{})
	case "tidy":
		e.tidy(s.a == "1", s.b == "1", s.c == "1")
	case "config":
		e.config(s.a, s.b, s.c)
	case "restart":
		e.restart()
	case "tick":
		e.tick(atoi(s.a))
	}
	e.obs()
}

// c16History: 1–3 issuers, then n random steps.
func c16History(r *vh.Rand, n int, thorough, ticks bool) []c16Step {
	g := &c16Gen{r: r, revoked: map[int]bool{}, thorough: ticks}
	var steps []c16Step
	ni := 1 + r.Intn(3)
	for i := 0; i < ni; i++ {
		g.nIssuers++
		g.live = append(g.live, g.nIssuers)
		steps = append(steps, c16Step{op: "addissuer"})
	}
	if r.Chance(30) {
		steps = append(steps, c16Step{op: "config", a: "-", b: "-", c: "1"})
	}
	for len(steps) < n {
		steps = append(steps, g.next())
	}
	return steps
}

type c16Case func(e *c16Env)

// c16RunCases runs cases on a worker pool; output is written in case order; cases with a wall-clock anomaly
// (a certificate's real expiry class differed from the model clock's) are dropped and counted.
func c16RunCases(t *testing.T, out *vh.Out, cases []c16Case, workers int) (dropped int) {
	results := make([][]c16Line, len(cases))
	anomalies := make([]string, len(cases))
	var wg sync.WaitGroup
	ch := make(chan int)
	for w := 0; w < workers; w++ {
		wg.Add(1)
		go func() {
			defer wg.Done()
			for i := range ch {
				func() {
					e := c16NewEnv(t)
					defer func() {
						if r := recover(); r != nil {
							e.emit("panic:"+vh.HexS(fmt.Sprint(r)), "obs")
						}
						e.b.Cleanup(context.Background())
						results[i] = e.lines
						anomalies[i] = e.anomaly
					}()
					cases[i](e)
				}()
			}
		}()
	}
	for i := range cases {
		ch <- i
	}
	close(ch)
	wg.Wait()
	for i, lines := range results {
		if anomalies[i] != "" {
			dropped++
			continue
		}
		out.Reset()
		for _, l := range lines {
			out.Op(l.res, l.fields...)
		}
	}
	return dropped
}

func TestVerifC16(t *testing.T) {
	out := vh.Open()
	defer out.Close()
	seed := vh.Seed()
	rng := vh.NewRand(seed)
	thorough := vh.Thorough()
	var cases []c16Case

	// stream 1: random fault-free histories
	nHist := vh.EnvInt("C16_HIST", 500)
	if thorough {
		nHist = vh.EnvInt("C16_HIST", 2400)
	}
	for i := 0; i < nHist; i++ {
		r := rng.Fork(uint64(i))
		n := 5 + r.Intn(26)
		ticks := thorough && i%8 == 0
		steps := c16History(r, n, thorough, ticks)
		cases = append(cases, func(e *c16Env) {
			for _, s := range steps {
				e.apply(s)
				if e.anomaly != "" {
					return
				}
			}
		})
	}

	// stream 1b (directed): a leaf of issuer A — minted by the mount or externally with a chosen serial — is revoked; LATER
	// a CA whose own certificate carries the same serial number (or, as a control, a fresh one) is imported; every
	// rebuild afterwards (the import's own, rotate, another revoke, tidy, deleting the CA again) must keep listing the leaf
	nCol := vh.EnvInt("C16_COLLIDE", 24)
	if thorough {
		nCol = vh.EnvInt("C16_COLLIDE", 200)
	}
	for i := 0; i < nCol; i++ {
		r := rng.Fork(uint64(2000000 + i))
		var steps []c16Step
		if r.Chance(50) {
			steps = append(steps, c16Step{op: "addissuer"})
		} else {
			steps = append(steps, c16Step{op: "importissuer", a: "0"})
		}
		if r.Chance(40) {
			steps = append(steps, c16Step{op: "addissuer"})
		}
		nLeaf := 1 + r.Intn(3)
		for l := 0; l < nLeaf; l++ {
			if r.Chance(50) {
				steps = append(steps, c16Step{op: "craft", a: "1", b: "V"})
			} else {
				steps = append(steps, c16Step{op: "issue", a: "1", b: "L"})
			}
		}
		target := 1 + r.Intn(nLeaf)
		steps = append(steps, c16Step{op: "revoke", a: strconv.Itoa(target), b: "cert"})
		if r.Chance(30) {
			steps = append(steps, c16Step{op: "config", a: c16B(r.Bool()), b: "-", c: "-"})
		}
		col := target
		if i%4 == 3 {
			col = 0 // control: no collision
		}
		nIss := 2
		if len(steps) > 1 && steps[1].op == "addissuer" {
			nIss = 3
		}
		steps = append(steps, c16Step{op: "importissuer", a: strconv.Itoa(col)})
		tail := []c16Step{{op: "rotate"}, {op: "revoke", a: strconv.Itoa(1 + r.Intn(nLeaf)), b: "cert"}, {op: "tidy", a: "1", b: "1", c: "1"},
			{op: "revoke", a: strconv.Itoa(target), b: "serial"}, {op: "restart"}, {op: "config", a: "0", b: "-", c: "-"},
			{op: "delissuer", a: strconv.Itoa(nIss)}, {op: "rotate"}, {op: "revoke", a: strconv.Itoa(target), b: "serial"}}
		for _, t := range tail {
			if r.Chance(70) {
				steps = append(steps, t)
			}
		}
		steps = append(steps, c16Step{op: "rotate"})
		cases = append(cases, func(e *c16Env) {
			for _, s := range steps {
				e.apply(s)
			}
		})
	}

	// streams 2 and 3: every fault position / crash prefix of a revoke (or rotate) after a random prefix
	nCut := vh.EnvInt("C16_CUT", 14)
	if thorough {
		nCut = vh.EnvInt("C16_CUT", 60)
	}
	for i := 0; i < nCut; i++ {
		r := rng.Fork(uint64(1000000 + i))
		prefix := c16History(r, 3+r.Intn(8), thorough, false)
		// make sure there is a fresh long-lived certificate to revoke
		target := c16Step{op: "issue", a: "1", b: "L"}
		byCert := r.Chance(25)
		doRotate := i%4 == 3
		// dry run to learn the number of storage operations / writes of the target request
		probe := c16NewEnv(t)
		for _, s := range prefix {
			probe.apply(s)
		}
		probe.apply(target)
		k := len(probe.certs)
		mode := "serial"
		if byCert {
			mode = "cert"
		}
		var nops, nwrites int
		if doRotate {
			probe.revoke(k, mode, c16Cut{})
			nops, nwrites = probe.rotate(c16Cut{})
		} else {
			nops, nwrites = probe.revoke(k, mode, c16Cut{})
		}
		probe.b.Cleanup(context.Background())
		mk := func(cut c16Cut) c16Case {
			return func(e *c16Env) {
				for _, s := range prefix {
					e.apply(s)
				}
				e.apply(target)
				if doRotate {
					e.revoke(k, mode, c16Cut{})
					e.obs()
					e.rotate(cut)
					e.obs()
					e.rotate(c16Cut{})
					e.obs()
				} else {
					e.revoke(k, mode, cut)
					e.obs()
					e.revoke(k, mode, c16Cut{}) // the retry
					e.obs()
					e.rotate(c16Cut{})
					e.obs()
				}
				e.restart()
				e.obs()
			}
		}
		for n := 1; n <= nops; n++ {
			cases = append(cases, mk(c16Cut{kind: "fault", n: n}))
		}
		for j := 0; j <= nwrites; j++ {
			cases = append(cases, mk(c16Cut{kind: "crash", n: j}))
		}
	}

	// stream 4 (concurrency): one request that rebuilds the CRLs outside revokeStorageLock against one revoke, parked
	// at its first storage operation and at every storage operation from the start of its CRL build to its end
	nConc := vh.EnvInt("C16_CONC", 10)
	if thorough {
		nConc = vh.EnvInt("C16_CONC", 60)
	}
	for i := 0; i < nConc; i++ {
		r := rng.Fork(uint64(3000000 + i))
		prefix := c16History(r, 2+r.Intn(6), thorough, false)
		nIss := 0
		for _, st := range prefix {
			if st.op == "addissuer" || st.op == "importissuer" {
				nIss++
			}
		}
		nIss++
		prefix = append(prefix, c16Step{op: "addissuer"})
		if r.Chance(80) {
			prefix = append(prefix, c16Step{op: "config", a: "0", b: "0", c: "1"})
		}
		var r1 c16Step
		switch i % 5 {
		case 0:
			// delete another issuer when there is one (the target's own otherwise)
			r1 = c16Step{op: "delissuer", a: strconv.Itoa(1 + r.Intn(nIss))}
		case 1:
			r1 = c16Step{op: "addissuer"}
		case 2:
			r1 = c16Step{op: "importissuer", a: "0"}
		case 3:
			r1 = c16Step{op: "config", a: "0", b: c16B(r.Chance(25)), c: "-"}
			prefix = append(prefix, c16Step{op: "config", a: "1", b: "-", c: "-"}) // auto-rebuild on -> off triggers the rebuild
		case 4:
			r1 = c16Step{op: "tidy", a: c16B(r.Chance(30)), b: "1", c: c16B(r.Chance(30))}
			// an expired revoked entry for tidy to remove, so that it rebuilds
			prefix = append(prefix, c16Step{op: "config", a: "-", b: "-", c: "1"}, c16Step{op: "craft", a: strconv.Itoa(nIss), b: "X"})
		}
		mode := "serial"
		if r.Chance(25) {
			mode = "cert"
		}
		tidyCase := i%5 == 4
		target := c16Step{op: "issue", a: strconv.Itoa(nIss), b: "L"}
		// dry run: the other request alone, to find its storage operations from the start of its CRL build
		probe := c16NewEnv(t)
		setup := func(e *c16Env) int {
			for _, st := range prefix {
				e.apply(st)
			}
			if tidyCase {
				e.revoke(len(e.certs), "cert", c16Cut{})
				e.obs()
			}
			e.apply(target)
			return len(e.certs)
		}
		k := setup(probe)
		probe.store.armConc(0)
		done := make(chan struct{})
		go func() { defer close(done); probe.concProbe(r1) }()
		<-done
		pops := probe.store.disarmConc()
		probe.b.Cleanup(context.Background())
		listAt, startAt := 0, 0
		for j, op := range pops {
			if op.kind == "list" && op.key == "revoked/" && !op.paged && listAt == 0 {
				listAt = j + 1
			}
		}
		for j := 0; j < listAt; j++ {
			if pops[j].kind == "list" && pops[j].key == "config/issuer/" {
				startAt = j + 1
			}
		}
		positions := []int{1}
		if startAt > 0 {
			for j := startAt; j <= len(pops)+1; j++ {
				positions = append(positions, j)
			}
		} else {
			positions = append(positions, len(pops)+1)
		}
		for _, pk := range positions {
			pk := pk
			cases = append(cases, func(e *c16Env) {
				setup(e)
				e.conc(r1, k, mode, pk)
				e.obs()
				e.rotate(c16Cut{})
				e.obs()
			})
		}
	}

	workers := vh.EnvInt("C16_WORKERS", 4)
	if thorough {
		workers = vh.EnvInt("C16_WORKERS", 6)
	}
	dropped := c16RunCases(t, out, cases, workers)
	t.Logf("c16: %d cases, %d dropped for wall-clock anomalies", len(cases), dropped)
	if p := os.Getenv("VERIF_OUT"); p != "" {
		_ = os.WriteFile(p+".stats", []byte(fmt.Sprintf("{\"cases\": %d, \"histories\": %d, \"cut_bases\": %d, \"dropped_wall_clock_anomaly\": %d}\n",
			len(cases), nHist, nCut, dropped)), 0o644)
	}
	if dropped*10 > len(cases) {
		t.Fatalf("c16: too many cases dropped for wall-clock anomalies (%d of %d)", dropped, len(cases))
	}
}
