//go:build verif

package raft

// White-box correspondence harness for C13 (root module): a real raft FSM (bbolt file in a temp dir) used directly as
// a physical.Backend, and a bootstrapped single-node RaftBackend (writes go through the raft log; transactions are
// real RaftTransactions over the FSM's bbolt file). Overlaid into internal/physical/raft at check time.

import (
	"context"
	"testing"

	"github.com/hashicorp/go-hclog"
	"github.com/openbao/openbao/sdk/v2/logical"
	"github.com/openbao/openbao/sdk/v2/physical"
	"github.com/openbao/openbao/sdk/v2/zzverif/c13core"
	"github.com/openbao/openbao/sdk/v2/zzverif/vh"
	"github.com/openbao/openbao/v2/internal/vault/barrier"
)

func TestVerifC13(t *testing.T) {
	out := vh.Open()
	defer out.Close()

	fsm, err := NewFSM(t.TempDir(), "", hclog.NewNullLogger())
	if err != nil {
		t.Fatal(err)
	}
	defer fsm.Close()

	rb := getRaftWithDirQuiet(t, t.TempDir())
	defer rb.TeardownCluster(nil)

	wipe := func(f *FSM) {
		if err := f.DeletePrefix(context.Background(), ""); err != nil {
			t.Fatal(err)
		}
	}

	// internal/vault/barrier.NewView over any logical.Storage (the view code does not depend on the storage being an
	// AES-GCM barrier): driven as layer kind "bview"
	bview := func(s logical.Storage, prefix string) logical.Storage { return barrier.NewView(s, prefix) }
	targets := []c13core.Target{
		{Kind: "fsm", Weight: 3, MaxKeys: 30, BarrierView: bview, KeySizeBoundary: true,
			Fresh: func() physical.Backend { wipe(fsm); return fsm }},
		{Kind: "raft", Weight: 4, MaxKeys: 25, BarrierView: bview, KeySizeBoundary: true,
			Fresh: func() physical.Backend { wipe(rb.fsm); return rb }},
	}
	cases := vh.EnvInt("VERIF_C13_CASES", 500)
	big := 1
	if vh.Thorough() {
		cases = vh.EnvInt("VERIF_C13_CASES", 40000)
		big = 4
	}
	c13core.Run(out, vh.Seed(), targets, cases, big)
}

// getRaftWithDirQuiet is testing.go's getRaftWithDir with a null logger (the stock helper logs at trace level).
func getRaftWithDirQuiet(t testing.TB, raftDir string) *RaftBackend {
	conf := map[string]string{
		"path":          raftDir,
		"trailing_logs": "100",
		"node_id":       "verif-c13",
	}
	backendRaw, err := NewRaftBackend(conf, hclog.NewNullLogger())
	if err != nil {
		t.Fatal(err)
	}
	backend := backendRaw.(*RaftBackend)
	if err := backend.Bootstrap([]Peer{{ID: backend.NodeID(), Address: backend.NodeID()}}); err != nil {
		t.Fatal(err)
	}
	if err := backend.SetupCluster(context.Background(), SetupOpts{}); err != nil {
		t.Fatal(err)
	}
	for backend.raft.AppliedIndex() < 2 {
	}
	backend.DisableAutopilot()
	return backend
}
