//go:build verif

package raft

// White-box correspondence harness for C13 (root module): a real raft FSM (bbolt file in a temp dir) used directly as
// a physical.Backend, and a bootstrapped single-node RaftBackend (writes go through the raft log; transactions are
// real RaftTransactions over the FSM's bbolt file). Overlaid into internal/physical/raft at check time.

import (
	"context"
	"testing"

	"github.com/hashicorp/go-hclog"
	"github.com/openbao/openbao/sdk/v2/logical"
	"github.com/openbao/openbao/sdk/v2/physical"
	"github.com/openbao/openbao/sdk/v2/physical/inmem"
	"github.com/openbao/openbao/sdk/v2/zzverif/c13core"
	"github.com/openbao/openbao/sdk/v2/zzverif/vh"
	"github.com/openbao/openbao/v2/internal/vault/barrier"
)

func TestVerifC13(t *testing.T) {
	out := vh.Open()
	defer out.Close()

	fsm, err := NewFSM(t.TempDir(), "", hclog.NewNullLogger())
	if err != nil {
		t.Fatal(err)
	}
	defer fsm.Close()

	rb := getRaftWithDirQuiet(t, t.TempDir())
	defer rb.TeardownCluster(nil)

	wipe := func(f *FSM) {
		if err := f.DeletePrefix(context.Background(), ""); err != nil {
			t.Fatal(err)
		}
	}

	// internal/vault/barrier.NewView over any logical.Storage (the view code does not depend on the storage being an
	// AES-GCM barrier): driven as layer kind "bview"
	bview := func(s logical.Storage, prefix string) logical.Storage { return barrier.NewView(s, prefix) }
	targets := []c13core.Target{
		{Kind: "fsm", Weight: 3, MaxKeys: 30, BarrierView: bview, KeySizeBoundary: true,
			Fresh: func() physical.Backend { wipe(fsm); return fsm }},
		{Kind: "raft", Weight: 4, MaxKeys: 25, BarrierView: bview, KeySizeBoundary: true,
			Fresh: func() physical.Backend { wipe(rb.fsm); return rb }},
	}
	// the real encrypting storage barrier (TransactionalAESGCMBarrier over inmem's transactional backend, initialised
	// and unsealed), reached through a barrier view as in a running server, adapted to the physical interface: to the
	// key/value and listing contract it is transparent — driven as kind "inmemtx", with and without transactions
	targets = append(targets, c13core.Target{Kind: "inmemtx", Weight: 4, MaxKeys: 25, BarrierView: bview,
		Implicit: []c13core.Layer{{Kind: "bview", Prefix: "logical/m/"}},
		Fresh:    func() physical.Backend { return c13NewBarrierBackend(t) }})
	cases := vh.EnvInt("VERIF_C13_CASES", 500)
	big := 1
	if vh.Thorough() {
		cases = vh.EnvInt("VERIF_C13_CASES", 40000)
		big = 4
	}
	c13core.Run(out, vh.Seed(), targets, cases, big)
}

// getRaftWithDirQuiet is testing.go's getRaftWithDir with a null logger (the stock helper logs at trace level).
func getRaftWithDirQuiet(t testing.TB, raftDir string) *RaftBackend {
	conf := map[string]string{
		"path":          raftDir,
		"trailing_logs": "100",
		"node_id":       "verif-c13",
	}
	backendRaw, err := NewRaftBackend(conf, hclog.NewNullLogger())
	if err != nil {
		t.Fatal(err)
	}
	backend := backendRaw.(*RaftBackend)
	if err := backend.Bootstrap([]Peer{{ID: backend.NodeID(), Address: backend.NodeID()}}); err != nil {
		t.Fatal(err)
	}
	if err := backend.SetupCluster(context.Background(), SetupOpts{}); err != nil {
		t.Fatal(err)
	}
	for backend.raft.AppliedIndex() < 2 {
	}
	backend.DisableAutopilot()
	return backend
}

// ------------------------------------------------------------------------------------------------
// the storage barrier as a physical.Backend

type c13BarStore struct{ s logical.Storage }

func c13NewBarrierBackend(t testing.TB) physical.Backend {
	raw, err := inmem.NewInmem(nil, hclog.NewNullLogger())
	if err != nil {
		t.Fatal(err)
	}
	sb := barrier.NewAESGCMBarrier(raw.(physical.TransactionalBackend), nil)
	key, err := sb.GenerateKey()
	if err != nil {
		t.Fatal(err)
	}
	ctx := context.Background()
	if err := sb.Initialize(ctx, key, nil); err != nil {
		t.Fatal(err)
	}
	if err := sb.Unseal(ctx, key); err != nil {
		t.Fatal(err)
	}
	return &c13BarBackend{c13BarStore{sb}}
}

func (b c13BarStore) Put(ctx context.Context, e *physical.Entry) error {
	return b.s.Put(ctx, &logical.StorageEntry{Key: e.Key, Value: e.Value})
}

func (b c13BarStore) Get(ctx context.Context, k string) (*physical.Entry, error) {
	e, err := b.s.Get(ctx, k)
	if err != nil || e == nil {
		return nil, err
	}
	return &physical.Entry{Key: e.Key, Value: e.Value}, nil
}

func (b c13BarStore) Delete(ctx context.Context, k string) error { return b.s.Delete(ctx, k) }
// the barrier's own records (core/keyring, core/root-key) live beside the data: hidden from root listings
func c13HideCore(p string, ks []string, err error) ([]string, error) {
	if err != nil || p != "" {
		return ks, err
	}
	out := ks[:0:0]
	for _, k := range ks {
		if k != "core/" {
			out = append(out, k)
		}
	}
	return out, nil
}

func (b c13BarStore) List(ctx context.Context, p string) ([]string, error) {
	ks, err := b.s.List(ctx, p)
	return c13HideCore(p, ks, err)
}

func (b c13BarStore) ListPage(ctx context.Context, p, after string, limit int) ([]string, error) {
	if p == "" && limit > 0 {
		ks, err := b.s.ListPage(ctx, p, after, limit+1)
		ks, err = c13HideCore(p, ks, err)
		if len(ks) > limit {
			ks = ks[:limit]
		}
		return ks, err
	}
	ks, err := b.s.ListPage(ctx, p, after, limit)
	return c13HideCore(p, ks, err)
}

type c13BarBackend struct{ c13BarStore }

type c13BarTxn struct {
	c13BarStore
	tx logical.Transaction
}

func (t *c13BarTxn) Commit(ctx context.Context) error   { return t.tx.Commit(ctx) }
func (t *c13BarTxn) Rollback(ctx context.Context) error { return t.tx.Rollback(ctx) }

func (b *c13BarBackend) BeginTx(ctx context.Context) (physical.Transaction, error) {
	tx, err := b.s.(logical.TransactionalStorage).BeginTx(ctx)
	if err != nil {
		return nil, err
	}
	return &c13BarTxn{c13BarStore{tx}, tx}, nil
}

func (b *c13BarBackend) BeginReadOnlyTx(ctx context.Context) (physical.Transaction, error) {
	tx, err := b.s.(logical.TransactionalStorage).BeginReadOnlyTx(ctx)
	if err != nil {
		return nil, err
	}
	return &c13BarTxn{c13BarStore{tx}, tx}, nil
}
