//go:build verif

package raft

// Correspondence harness for C09 (white-box: FSM, fsmTxnCommitIndexTracker, createVerificationEntry,
// BoltSnapshotStore are driven directly). Overlaid into internal/physical/raft at check time; never written
// into /repo.
//
// One case = one committed log + k real FSMs (NewFSM in temp dirs), each handed the same log through
// ApplyBatch under its own random batching, with process restarts (Close + NewFSM on the same dir) and snapshot
// installs (writeTo of a replica that is ahead -> BoltSnapshotSink -> Restore) at random positions. Every
// FSMApplyResponse verdict and the full data bucket after every step go into the trace; the Lean model replays
// the same lines (stream "raftfsm"), the orchestrator evaluates "all replicas agree" on the real outputs.

import (
	"bytes"
	"context"
	"fmt"
	"io"
	"os"
	"sort"
	"strings"
	"testing"

	log "github.com/hashicorp/go-hclog"
	"github.com/hashicorp/raft"
	bolt "go.etcd.io/bbolt"
	"google.golang.org/protobuf/proto"

	"github.com/openbao/openbao/v2/internal/zzverif/vh"
)

// ---------------------------------------------------------------- log entries as generated

type c09Op struct {
	kind  byte // p d r l b c o
	key   string
	val   []byte
	bad   bool // r/l: ship a hash that cannot match
	pfx   string
	after string
	limit int
	items []string
	start uint64
}

type c09Entry struct {
	idx    uint64
	low    *uint64
	config bool
	ops    []c09Op
}

func (e *c09Entry) isTx() bool { return !e.config && len(e.ops) > 0 && e.ops[0].kind == 'b' }

func c09u64(v uint64) *uint64 { return &v }

func (o *c09Op) field() string {
	switch o.kind {
	case 'p':
		return "p:" + vh.HexS(o.key) + ":" + vh.Hex(o.val)
	case 'd':
		return "d:" + vh.HexS(o.key)
	case 'r':
		if o.bad {
			return "r:" + vh.HexS(o.key) + ":!"
		}
		return "r:" + vh.HexS(o.key) + ":" + vh.Hex(o.val)
	case 'l':
		items := "0"
		if o.bad {
			items = "!"
		} else if len(o.items) > 0 {
			hs := make([]string, len(o.items))
			for i, it := range o.items {
				hs[i] = vh.HexS(it)
			}
			items = strings.Join(hs, "+")
		}
		return fmt.Sprintf("l:%s:%s:%d:%s", vh.HexS(o.pfx), vh.HexS(o.after), o.limit, items)
	case 'b':
		return "b:" + vh.U(o.start)
	case 'c':
		return "c"
	}
	return "o"
}

func (e *c09Entry) field() string {
	low := "-"
	if e.low != nil {
		low = vh.U(*e.low)
	}
	cmd := "-"
	if e.config {
		cmd = "G"
	} else if len(e.ops) > 0 {
		fs := make([]string, len(e.ops))
		for i := range e.ops {
			fs[i] = e.ops[i].field()
		}
		cmd = strings.Join(fs, ",")
	}
	return vh.U(e.idx) + ";" + low + ";" + cmd
}

// toLog builds the raft log entry exactly as RaftBackend does (LogData protobuf; verification hashes from the
// package's own helpers).
func (e *c09Entry) toLog(rng *vh.Rand) *raft.Log {
	if e.config {
		cfg := raft.Configuration{Servers: []raft.Server{{Suffrage: raft.Voter, ID: "n1", Address: "a1"}}}
		return &raft.Log{Index: e.idx, Term: 1, Type: raft.LogConfiguration, Data: raft.EncodeConfiguration(cfg)}
	}
	ld := &LogData{LowestActiveIndex: e.low}
	for i := range e.ops {
		o := &e.ops[i]
		switch o.kind {
		case 'p':
			ld.Operations = append(ld.Operations, &LogOperation{OpType: putOp, Key: o.key, Value: o.val})
		case 'd':
			ld.Operations = append(ld.Operations, &LogOperation{OpType: deleteOp, Key: o.key})
		case 'r':
			var h []byte
			if o.bad {
				switch rng.Intn(3) {
				case 0: // truncated
					h = nil
				case 1: // unknown hash type
					h = append([]byte{0x7f}, rng.Bytes(48)...)
				default: // hash of another key
					h, _ = createVerificationEntry(o.key+"~", []byte("zz"))
				}
			} else {
				h, _ = createVerificationEntry(o.key, o.val)
			}
			ld.Operations = append(ld.Operations, &LogOperation{OpType: verifyReadOp, Key: o.key, Value: h})
		case 'l':
			repr, h, err := createListVerificationEntry(o.pfx, o.after, o.limit, o.items)
			if err != nil {
				panic(err)
			}
			if o.bad {
				if rng.Bool() {
					h = append([]byte{0x7f}, rng.Bytes(48)...)
				} else {
					_, h, _ = createListVerificationEntry(o.pfx, o.after, o.limit, append([]string{"~nope~"}, o.items...))
				}
			}
			ld.Operations = append(ld.Operations, &LogOperation{OpType: verifyListOp, Key: repr, Value: h})
		case 'b':
			bv, err := createBeginTxOpValue(o.start)
			if err != nil {
				panic(err)
			}
			ld.Operations = append(ld.Operations, &LogOperation{OpType: beginTxOp, Value: bv})
		case 'c':
			ld.Operations = append(ld.Operations, &LogOperation{OpType: commitTxOp})
		default:
			ld.Operations = append(ld.Operations, &LogOperation{OpType: getOp, Key: "ignored"})
		}
	}
	b, err := proto.Marshal(ld)
	if err != nil {
		panic(err)
	}
	return &raft.Log{Index: e.idx, Term: 1, Type: raft.LogCommand, Data: b}
}

// ---------------------------------------------------------------- generator-side shadow store
// Only used to choose plausible observations (values / listings a client could have seen at some log
// position); nothing is compared against it.

type c09Shadow map[string][]byte

func (s c09Shadow) clone() c09Shadow {
	n := make(c09Shadow, len(s))
	for k, v := range s {
		n[k] = v
	}
	return n
}

func (s c09Shadow) list(pfx, after string, limit int) []string {
	ks := make([]string, 0, len(s))
	for k := range s {
		if strings.HasPrefix(k, pfx) {
			ks = append(ks, k)
		}
	}
	sort.Strings(ks)
	var out []string
	for _, k := range ks {
		if limit > 0 && len(out) >= limit {
			break
		}
		key := strings.TrimPrefix(k, pfx)
		if i := strings.Index(key, "/"); i >= 0 {
			key = key[:i+1]
			if len(out) > 0 && out[len(out)-1] == key {
				continue
			}
		}
		if after != "" && key <= after {
			continue
		}
		out = append(out, key)
	}
	return out
}

func (s c09Shadow) apply(e *c09Entry) {
	if e.config {
		return
	}
	if e.isTx() {
		for _, o := range e.ops {
			switch o.kind {
			case 'r':
				if o.bad || !bytes.Equal(s[o.key], o.val) {
					return
				}
			case 'l':
				if o.bad || strings.Join(s.list(o.pfx, o.after, o.limit), "\n") != strings.Join(o.items, "\n") {
					return
				}
			}
		}
		if e.ops[len(e.ops)-1].kind != 'c' {
			return
		}
	}
	for _, o := range e.ops {
		switch o.kind {
		case 'p':
			s[o.key] = o.val
		case 'd':
			delete(s, o.key)
		}
	}
}

// ---------------------------------------------------------------- real replicas

type c09Replica struct {
	dir   string
	fsm   *FSM
	store *BoltSnapshotStore
	pos   int
}

var c09Logger = log.NewNullLogger()

func c09NewReplica(t *testing.T) *c09Replica {
	dir := t.TempDir()
	f, err := NewFSM(dir, "", c09Logger)
	if err != nil {
		t.Fatal(err)
	}
	return &c09Replica{dir: dir, fsm: f}
}

func (r *c09Replica) close() {
	if r.fsm != nil {
		r.fsm.Close()
		r.fsm = nil
	}
	os.RemoveAll(r.dir)
}

func (r *c09Replica) digest() string {
	var parts []string
	err := r.fsm.getDB().View(func(tx *bolt.Tx) error {
		c := tx.Bucket(dataBucketName).Cursor()
		for k, v := c.First(); k != nil; k, v = c.Next() {
			if bytes.HasPrefix(k, []byte("raftchunking/")) {
				continue // in-flight chunks of the chunking FSM (kept in the same bucket): not key/value state
			}
			parts = append(parts, vh.Hex(k)+"="+vh.Hex(v))
		}
		return nil
	})
	if err != nil {
		return "err:" + err.Error()
	}
	if len(parts) == 0 {
		return "-"
	}
	return strings.Join(parts, ",")
}

func (r *c09Replica) state() string {
	idx, cfg := r.fsm.LatestState()
	ci := uint64(0)
	if cfg != nil {
		ci = cfg.Index
	}
	return vh.U(idx.Index) + "|" + vh.U(ci) + "|" + r.digest()
}

func (r *c09Replica) restart(t *testing.T) {
	if err := r.fsm.Close(); err != nil {
		t.Fatal(err)
	}
	f, err := NewFSM(r.dir, "", c09Logger)
	if err != nil {
		t.Fatal(err)
	}
	r.fsm = f
	r.store = nil
}

type c09DiscardWEC struct{}

func (c09DiscardWEC) Write(p []byte) (int, error) { return len(p), nil }
func (c09DiscardWEC) Close() error                { return nil }
func (c09DiscardWEC) CloseWithError(error) error  { return nil }

// install streams src's data (FSM.writeTo, as BoltSnapshotStore.Open does on the sending side) into a
// BoltSnapshotSink of the receiving replica and calls FSM.Restore with the resulting installer: the path
// hashicorp/raft takes on InstallSnapshot.
func (r *c09Replica) install(src *c09Replica) error {
	if r.store == nil {
		st, err := NewBoltSnapshotStore(r.dir, c09Logger, r.fsm)
		if err != nil {
			return err
		}
		r.store = st
	}
	idx, cfg := src.fsm.LatestState()
	var cidx uint64
	var conf raft.Configuration
	if cfg != nil {
		cidx, conf = protoConfigurationToRaftConfiguration(cfg)
	}
	sink, err := r.store.Create(1, idx.Index, idx.Term, conf, cidx, nil)
	if err != nil {
		return err
	}
	pr, pw := io.Pipe()
	go src.fsm.writeTo(context.Background(), c09DiscardWEC{}, pw)
	if _, err := io.Copy(sink, pr); err != nil {
		sink.Cancel()
		return err
	}
	if err := sink.Close(); err != nil {
		return err
	}
	_, rc, err := r.store.Open(sink.ID())
	if err != nil {
		return err
	}
	return r.fsm.Restore(rc)
}

func (r *c09Replica) applyBatch(es []*c09Entry, rng *vh.Rand) string {
	logs := make([]*raft.Log, len(es))
	for i, e := range es {
		logs[i] = e.toLog(rng)
	}
	return vh.Catch(func() string {
		resp := r.fsm.ApplyBatch(logs)
		if len(resp) != len(es) {
			return fmt.Sprintf("err:resp-len-%d", len(resp))
		}
		var sb strings.Builder
		for i, x := range resp {
			ar, ok := x.(*FSMApplyResponse)
			if !ok || !ar.Success {
				sb.WriteByte('?')
				continue
			}
			sentinel := false
			for _, fe := range ar.EntrySlice {
				if fe.IsTxError() {
					sentinel = true
				}
			}
			switch {
			case sentinel:
				sb.WriteByte('X')
			case len(ar.EntrySlice) != 0:
				sb.WriteByte('?')
			case es[i].config:
				sb.WriteByte('g')
			case es[i].isTx():
				sb.WriteByte('C')
			default:
				sb.WriteByte('-')
			}
		}
		return sb.String() + "|" + r.state()
	})
}

// ---------------------------------------------------------------- case generation

var c09Keys = []string{"a", "b", "k", "a/x", "a/y", "a/b/c", "a/b/d", "c/d", "ab", "j"}
// list prefixes with and without trailing slash (listPageInner seeks to prefix+after; hasModifiedListEntry
// normalises a slash-less prefix to prefix+"/")
var c09Prefixes = []string{"", "a/", "a/b/", "c/", "zz/", "a", "a/b", "ab", "c", "/"}

// `after` values that are not an entry of the listing: plain segments, folders, empty and dot segments
var c09Afters = []string{"a", "b", "m", "x", "b/", "/", "/x", ".", "..", "a/../m", "./x", "b//", "x/y", "~"}
var c09Vals = [][]byte{[]byte("1"), []byte("2"), []byte("3"), []byte("old"), []byte("new"), {}, []byte("v")}

type c09Gen struct {
	rng     *vh.Rand
	entries []*c09Entry
	states  []c09Shadow // states[j] = shadow state after j entries
	latest  []uint64    // latest[j] = index of entry j-1 (0 for j = 0)
	wild    bool
}

var c09OddKeys = []string{"a/<x>&", "a/b/\"q\"", "c/{d}", "~", "a/b/c/d/e/f", "/r", "a//z", "a/./y"}

func (g *c09Gen) pickKey() string {
	if g.wild && g.rng.Chance(5) {
		return c09OddKeys[g.rng.Intn(len(c09OddKeys))]
	}
	return c09Keys[g.rng.Intn(len(c09Keys))]
}

func (g *c09Gen) pickVal() []byte {
	if g.wild && g.rng.Chance(8) {
		return g.rng.Bytes(g.rng.Intn(41))
	}
	return c09Vals[g.rng.Intn(len(c09Vals))]
}

func (g *c09Gen) genTx(i int, idx uint64) []c09Op {
	rng := g.rng
	// snapshot position j and start index
	j := i
	switch r := rng.Intn(100); {
	case r < 45:
	case r < 75:
		j = i - 1 - rng.Intn(3)
	default:
		j = rng.Intn(i + 1)
	}
	if j < 0 {
		j = 0
	}
	start := g.latest[j]
	if rng.Chance(10) && j > 0 { // index read before the bolt snapshot was opened: may be older than the snapshot
		start = g.latest[rng.Intn(j+1)]
	}
	if g.wild && rng.Chance(8) { // not generable by an honest client: stale observation with a fresh start index
		start = g.latest[i]
	}
	if g.wild && rng.Chance(3) {
		start = idx + uint64(rng.Intn(3))
	}
	st := g.states[j]
	ops := []c09Op{{kind: 'b', start: start}}
	nr := rng.Intn(3)
	for x := 0; x < nr; x++ {
		k := g.pickKey()
		o := c09Op{kind: 'r', key: k, val: st[k]}
		if rng.Chance(6) {
			o.val = g.pickVal()
		}
		if g.wild && rng.Chance(3) {
			o.bad = true
		}
		ops = append(ops, o)
	}
	if rng.Chance(35) {
		p := c09Prefixes[rng.Intn(len(c09Prefixes))]
		after := ""
		limit := []int{-1, 0, 1, 2, 5}[rng.Intn(5)]
		full := st.list(p, "", -1)
		if rng.Chance(50) {
			if len(full) > 0 && rng.Chance(60) {
				after = full[rng.Intn(len(full))] // may be "" (the key equal to a slash-less prefix)
			} else {
				after = c09Afters[rng.Intn(len(c09Afters))]
			}
		}
		o := c09Op{kind: 'l', pfx: p, after: after, limit: limit, items: st.list(p, after, limit)}
		if rng.Chance(5) && len(o.items) > 0 {
			o.items = o.items[:len(o.items)-1]
		}
		if g.wild && rng.Chance(3) {
			o.bad = true
		}
		ops = append(ops, o)
	}
	nw := 1 + rng.Intn(2)
	if rng.Chance(10) {
		nw = 0
	}
	for x := 0; x < nw; x++ {
		if rng.Chance(80) {
			ops = append(ops, c09Op{kind: 'p', key: g.pickKey(), val: g.pickVal()})
		} else {
			ops = append(ops, c09Op{kind: 'd', key: g.pickKey()})
		}
	}
	if g.wild && rng.Chance(3) {
		ops = append(ops, c09Op{kind: 'o'})
	}
	if g.wild && rng.Chance(12) { // any order of verifications and writes is accepted by the FSM
		for x := len(ops) - 1; x > 1; x-- {
			y := 1 + rng.Intn(x)
			ops[x], ops[y] = ops[y], ops[x]
		}
	}
	ops = append(ops, c09Op{kind: 'c'})
	if g.wild && rng.Chance(4) { // malformed transactions
		switch rng.Intn(4) {
		case 0:
			ops = ops[:len(ops)-1] // no commit
		case 1:
			ops = append(ops, c09Op{kind: 'p', key: g.pickKey(), val: g.pickVal()}) // write after commit
		case 2:
			ops = append(ops[:1], append([]c09Op{{kind: 'c'}}, ops[1:]...)...) // commit in the middle
		default:
			ops = append(ops[:1], append([]c09Op{{kind: 'b', start: start}}, ops[1:]...)...) // second begin
		}
	}
	return ops
}

func c09GenLog(rng *vh.Rand, n int, wild bool) *c09Gen {
	g := &c09Gen{rng: rng, wild: wild}
	g.states = []c09Shadow{{}}
	g.latest = []uint64{0}
	idx := uint64(0)
	for i := 0; i < n; i++ {
		idx += 1
		if rng.Chance(15) {
			idx += uint64(1 + rng.Intn(2)) // noop / barrier entries never reach the FSM
		}
		e := &c09Entry{idx: idx}
		switch r := rng.Intn(100); {
		case r < 4:
			e.config = true
		case r < 34 && i > 0:
			e.ops = g.genTx(i, idx)
		case r < 38 && wild:
			// plain command with several operations (accepted by the FSM, never produced by RaftBackend)
			m := rng.Intn(4)
			for x := 0; x < m; x++ {
				switch rng.Intn(5) {
				case 0:
					e.ops = append(e.ops, c09Op{kind: 'd', key: g.pickKey()})
				case 1:
					e.ops = append(e.ops, c09Op{kind: []byte{'o', 'c', 'r'}[rng.Intn(3)], key: g.pickKey()})
				default:
					e.ops = append(e.ops, c09Op{kind: 'p', key: g.pickKey(), val: g.pickVal()})
				}
			}
		case r < 85:
			e.ops = []c09Op{{kind: 'p', key: g.pickKey(), val: g.pickVal()}}
		default:
			e.ops = []c09Op{{kind: 'd', key: g.pickKey()}}
		}
		g.entries = append(g.entries, e)
		s := g.states[i].clone()
		s.apply(e)
		g.states = append(g.states, s)
		g.latest = append(g.latest, idx)
	}
	// LowestActiveIndex: what a leader ships is min(raft applied index, lowest start index of the write
	// transactions still open), always below the entry's own index. `safe` is the largest value that no later
	// transaction of this log can be hurt by.
	for i, e := range g.entries {
		if e.config {
			continue
		}
		prev := g.latest[i]
		safe := prev
		for _, l := range g.entries[i:] {
			if l.isTx() && l.ops[0].start < safe {
				safe = l.ops[0].start
			}
		}
		switch r := rng.Intn(100); {
		case !wild || r < 50:
			e.low = c09u64(safe)
		case r < 75:
			e.low = c09u64(prev) // raft applied index, FSM lagging behind it (F7 mechanism)
		case r < 85:
			d := uint64(rng.Intn(4))
			if d > prev {
				d = prev
			}
			e.low = c09u64(prev - d)
		case r < 90:
			e.low = c09u64(0)
		case r < 94:
			e.low = nil
		case r < 97:
			e.low = c09u64(e.idx + uint64(rng.Intn(3)))
		default:
			e.low = c09u64(^uint64(0))
		}
	}
	return g
}

// ---------------------------------------------------------------- running one case

type c09Event struct {
	kind byte // B batch, R restart, S snapshot, L clearOldEntries on this replica only (Rollback on the leader), P persist of a local snapshot taken at index low
	r    int
	n    int // batch size
	src  int
	low  uint64
}

func c09Run(t *testing.T, out *vh.Out, rng *vh.Rand, entries []*c09Entry, k int, sched func(reps []*c09Replica) c09Event) {
	out.Reset()
	reps := make([]*c09Replica, k)
	for i := range reps {
		reps[i] = c09NewReplica(t)
		out.Op("ok", "new", vh.I(int64(i)))
	}
	defer func() {
		for _, r := range reps {
			r.close()
		}
	}()
	for {
		ev := sched(reps)
		if ev.kind == 0 {
			break
		}
		r := reps[ev.r]
		switch ev.kind {
		case 'B':
			es := entries[r.pos : r.pos+ev.n]
			fields := []string{"batch", vh.I(int64(ev.r))}
			for _, e := range es {
				fields = append(fields, e.field())
			}
			res := r.applyBatch(es, rng)
			r.pos += ev.n
			out.Op(res, fields...)
		case 'R':
			r.restart(t)
			out.Op(r.state(), "restart", vh.I(int64(ev.r)))
		case 'S':
			if err := r.install(reps[ev.src]); err != nil {
				out.Op("err:"+strings.ReplaceAll(err.Error(), "\t", " "), "snap", vh.I(int64(ev.r)), vh.I(int64(ev.src)))
			} else {
				out.Op(r.state(), "snap", vh.I(int64(ev.r)), vh.I(int64(ev.src)))
			}
			r.pos = reps[ev.src].pos
		case 'P':
			// raft persists this replica's LOCAL snapshot: the position (ev.low) was captured on the FSM goroutine
			// earlier, Persist -> FSM.witnessSnapshot runs now, after the FSM has applied further entries
			lidx, lcfg := r.fsm.LatestState()
			meta := &raft.SnapshotMeta{Index: ev.low, Term: lidx.Term}
			if lcfg != nil {
				meta.ConfigurationIndex, meta.Configuration = protoConfigurationToRaftConfiguration(lcfg)
			}
			res := "ok"
			if err := r.fsm.witnessSnapshot(meta); err != nil {
				res = "err:" + err.Error()
			} else {
				res = r.state()
			}
			out.Op(res, "persist", vh.I(int64(ev.r)), vh.U(ev.low))
		case 'L':
			// what RaftTransaction.Rollback's deferred function does on the node that ran the transaction
			r.fsm.fastTxnTracker.clearOldEntries(ev.low)
			out.Op("ok", "lclear", vh.I(int64(ev.r)), vh.U(ev.low))
		}
	}
	for i, r := range reps {
		out.Op(r.state(), "digest", vh.I(int64(i)))
	}
}

// fixed schedule given as a list of events
func c09Fixed(evs []c09Event) func([]*c09Replica) c09Event {
	i := 0
	return func([]*c09Replica) c09Event {
		if i >= len(evs) {
			return c09Event{}
		}
		i++
		return evs[i-1]
	}
}

func c09Random(rng *vh.Rand, n int, pRestart, pSnap int) func([]*c09Replica) c09Event {
	return func(reps []*c09Replica) c09Event {
		var open []int
		for i, r := range reps {
			if r.pos < n {
				open = append(open, i)
			}
		}
		if len(open) == 0 {
			return c09Event{}
		}
		ri := open[rng.Intn(len(open))]
		r := reps[ri]
		if rng.Chance(pRestart) {
			return c09Event{kind: 'R', r: ri}
		}
		if pSnap > 0 && r.pos > 0 && rng.Chance(pSnap) {
			// a local snapshot whose position was captured anywhere at or before the current index
			if li, _ := r.fsm.LatestState(); li.Index > 0 {
				return c09Event{kind: 'P', r: ri, low: li.Index - uint64(rng.Intn(int(min(li.Index, 4))+1))}
			}
		}
		if rng.Chance(pSnap) {
			var srcs []int
			for i, s := range reps {
				if i != ri && s.pos > r.pos && s.digest() != "-" {
					srcs = append(srcs, i)
				}
			}
			if len(srcs) > 0 {
				return c09Event{kind: 'S', r: ri, src: srcs[rng.Intn(len(srcs))]}
			}
		}
		rem := n - r.pos
		var b int
		switch x := rng.Intn(10); {
		case x < 3:
			b = 1
		case x < 8:
			b = 1 + rng.Intn(5)
		default:
			b = rem
		}
		if b > rem {
			b = rem
		}
		return c09Event{kind: 'B', r: ri, n: b}
	}
}

func c09Put(idx uint64, k, v string, low uint64) *c09Entry {
	return &c09Entry{idx: idx, low: c09u64(low), ops: []c09Op{{kind: 'p', key: k, val: []byte(v)}}}
}

func c09Del(idx uint64, k string, low uint64) *c09Entry {
	return &c09Entry{idx: idx, low: c09u64(low), ops: []c09Op{{kind: 'd', key: k}}}
}

// transaction that read key k = seen at start index `start` and writes j = 1
func c09Txn(idx, start uint64, k string, seen []byte, j string, low uint64) *c09Entry {
	return &c09Entry{idx: idx, low: c09u64(low), ops: []c09Op{
		{kind: 'b', start: start}, {kind: 'r', key: k, val: seen}, {kind: 'p', key: j, val: []byte("1")}, {kind: 'c'},
	}}
}

func c09TxnList(idx, start uint64, pfx string, items []string, j string, low uint64) *c09Entry {
	return &c09Entry{idx: idx, low: c09u64(low), ops: []c09Op{
		{kind: 'b', start: start}, {kind: 'l', pfx: pfx, after: "", limit: -1, items: items}, {kind: 'p', key: j, val: []byte("1")}, {kind: 'c'},
	}}
}

func c09B(r, n int) c09Event   { return c09Event{kind: 'B', r: r, n: n} }
func c09R(r int) c09Event      { return c09Event{kind: 'R', r: r} }
func c09S(r, src int) c09Event { return c09Event{kind: 'S', r: r, src: src} }
func c09L(r int, low uint64) c09Event { return c09Event{kind: 'L', r: r, low: low} }
func c09P(r int, idx uint64) c09Event { return c09Event{kind: 'P', r: r, low: idx} }

func TestVerifC09(t *testing.T) {
	out := vh.Open()
	defer out.Close()
	rng := vh.NewRand(vh.Seed())

	// ---- directed cases (DESIGN section 6: F1, F10 and their neighbours)
	// F1: restart between the conflicting write and the transaction
	// (the log of C09.logF1, leader-generated: LowestActiveIndex 0, 1, 2; then the round-0 probe's variant with 0, 0, 0)
	f1 := []*c09Entry{c09Put(1, "k", "old", 0), c09Put(2, "k", "new", 1), c09Txn(3, 1, "k", []byte("old"), "j", 2)}
	c09Run(t, out, rng, f1, 2, c09Fixed([]c09Event{c09B(0, 3), c09B(1, 2), c09R(1), c09B(1, 1)}))
	f1z := []*c09Entry{c09Put(1, "k", "old", 0), c09Put(2, "k", "new", 0), c09Txn(3, 1, "k", []byte("old"), "j", 0)}
	c09Run(t, out, rng, f1z, 2, c09Fixed([]c09Event{c09B(0, 3), c09B(1, 2), c09R(1), c09B(1, 1)}))
	// same log, no restart: both reject
	c09Run(t, out, rng, f1, 2, c09Fixed([]c09Event{c09B(0, 3), c09B(1, 2), c09B(1, 1)}))
	// F1 through a snapshot install: replica 1 receives indexes 1..2 as a snapshot of replica 0
	c09Run(t, out, rng, f1, 2, c09Fixed([]c09Event{c09B(0, 2), c09S(1, 0), c09B(0, 1), c09B(1, 1)}))
	// local snapshot persisted late (C09.snapshot_persist_regress_cex): replica 1 persists the snapshot it took at
	// position 1 after it applied index 2; both replicas must still reject the transaction
	c09Run(t, out, rng, f1, 2, c09Fixed([]c09Event{c09B(0, 3), c09B(1, 2), c09P(1, 1), c09B(1, 1)}))
	c09Run(t, out, rng, f1z, 2, c09Fixed([]c09Event{c09B(0, 1), c09B(0, 1), c09P(0, 1), c09P(0, 0), c09B(0, 1), c09B(1, 3), c09P(1, 3)}))
	// F1 with a deleted key and with a list verification
	f1d := []*c09Entry{c09Put(1, "k", "old", 0), c09Del(2, "k", 0), c09Txn(3, 1, "k", []byte("old"), "j", 0)}
	c09Run(t, out, rng, f1d, 2, c09Fixed([]c09Event{c09B(0, 3), c09B(1, 2), c09R(1), c09B(1, 1)}))
	f1l := []*c09Entry{c09Put(1, "a/x", "1", 0), c09Put(2, "a/y", "1", 0), c09TxnList(3, 1, "a/", []string{"x"}, "j", 0)}
	c09Run(t, out, rng, f1l, 3, c09Fixed([]c09Event{c09B(0, 3), c09B(1, 2), c09R(1), c09B(1, 1), c09B(2, 1), c09B(2, 2)}))
	// F10: every LowestActiveIndex below its own index (leader-generable with a lagging FSM, F7)
	f10 := []*c09Entry{c09Put(1, "k", "old", 0), c09Put(2, "k", "new", 1), c09Put(3, "x", "y", 2), c09Put(4, "y", "z", 3),
		c09Txn(5, 1, "k", []byte("old"), "j", 4)}
	c09Run(t, out, rng, f10, 2, c09Fixed([]c09Event{c09B(0, 5), c09B(1, 4), c09B(1, 1)}))
	c09Run(t, out, rng, f10, 3, c09Fixed([]c09Event{c09B(0, 5), c09B(1, 2), c09B(1, 3), c09B(2, 3), c09B(2, 2)}))
	// leader-local clearing on Rollback (log and schedule of C09.leader_rollback_clear_cex): replica 0 plays the
	// leader — same single-entry batches as the follower, plus the clearOldEntries(3) its Rollback performs
	frb := []*c09Entry{c09Put(1, "k", "old", 0), c09Put(2, "k", "new", 1), c09Put(3, "x", "y", 1), c09Txn(4, 1, "k", []byte("old"), "j", 3)}
	c09Run(t, out, rng, frb, 2, c09Fixed([]c09Event{c09B(0, 1), c09B(0, 1), c09B(0, 1), c09L(0, 3), c09B(0, 1),
		c09B(1, 1), c09B(1, 1), c09B(1, 1), c09B(1, 1)}))
	// paginated list records (non-empty after) under a slash-less and a slash-terminated prefix: every replica
	// evaluates or skips them alike; a write to "ab" is under prefix "a" but not under its normalisation "a/"
	lst := func(idx, start uint64, pfx, after string, limit int, items []string, low uint64) *c09Entry {
		return &c09Entry{idx: idx, low: c09u64(low), ops: []c09Op{{kind: 'b', start: start},
			{kind: 'l', pfx: pfx, after: after, limit: limit, items: items}, {kind: 'p', key: "j", val: []byte("1")}, {kind: 'c'}}}
	}
	fls := []*c09Entry{c09Put(1, "a/x", "1", 0), c09Put(2, "a/y", "1", 1), c09Put(3, "ab", "1", 2), c09Put(4, "a", "1", 3),
		c09Put(5, "k", "1", 4),
		lst(6, 4, "a", "/", -1, []string{"b"}, 4),              // honest, nothing under "a" written since 4
		lst(7, 2, "a", "", 2, []string{"/"}, 2),                // stale (a, ab added since 2), tracker prefix "a/" misses both
		lst(8, 6, "a/", "x", 1, []string{"y"}, 6),              // honest page after "x"
		c09Put(9, "a/xx", "1", 6),
		lst(10, 8, "a/", "x", 1, []string{"y"}, 8),             // stale: a/xx now follows x
		lst(11, 10, "a/", "a/../m", 0, []string{"x", "xx", "y"}, 10), // after with dot segments: plain string comparison
	}
	c09Run(t, out, rng, fls, 3, c09Fixed([]c09Event{c09B(0, 11), c09B(1, 5), c09B(1, 1), c09B(1, 1), c09B(1, 1), c09B(1, 1),
		c09B(1, 1), c09B(1, 1), c09B(2, 3), c09R(2), c09B(2, 4), c09B(2, 4)}))
	// neighbours without defect: honest transaction that must commit / must conflict everywhere
	ok1 := []*c09Entry{c09Put(1, "k", "old", 0), c09Put(2, "x", "1", 1), c09Txn(3, 1, "k", []byte("old"), "j", 1),
		c09Txn(4, 2, "j", nil, "k", 2), c09Txn(5, 4, "j", []byte("1"), "z", 4)}
	c09Run(t, out, rng, ok1, 3, c09Fixed([]c09Event{c09B(0, 5), c09B(1, 1), c09B(1, 1), c09B(1, 1), c09B(1, 1), c09B(1, 1),
		c09B(2, 2), c09R(2), c09B(2, 3)}))

	// ---- random cases
	n := vh.EnvInt("VERIF_C09_CASES", 4000)
	maxLen := 24
	if vh.Thorough() {
		n = vh.EnvInt("VERIF_C09_CASES", 80000)
		maxLen = 60
	}
	for c := 0; c < n; c++ {
		crng := rng.Fork(uint64(c))
		wild := crng.Chance(50)
		ln := 3 + crng.Intn(maxLen-2)
		g := c09GenLog(crng, ln, wild)
		k := 2 + crng.Intn(2)
		pR, pS := 8, 10
		if crng.Chance(25) {
			pR, pS = 0, 0 // batching only
		}
		c09Run(t, out, crng, g.entries, k, c09Random(crng, ln, pR, pS))
	}
}

// ---------------------------------------------------------------- stream "rafttracker"
// The tracker data structure on its own: a real fsmTxnCommitIndexTracker driven with random operations
// (including list keys that hasModifiedListEntry normalises: "", "/", with and without trailing slash).

func c09TrackerDump(t *fsmTxnCommitIndexTracker) string {
	t.l.Lock()
	defer t.l.Unlock()
	idxs := make([]uint64, 0, len(t.indexModifiedMap))
	for i := range t.indexModifiedMap {
		idxs = append(idxs, i)
	}
	sort.Slice(idxs, func(a, b int) bool { return idxs[a] < idxs[b] })
	if len(idxs) == 0 {
		return "-"
	}
	parts := make([]string, len(idxs))
	for n, i := range idxs {
		ks := make([]string, 0, len(t.indexModifiedMap[i]))
		for k := range t.indexModifiedMap[i] {
			ks = append(ks, k)
		}
		sort.Strings(ks)
		for x := range ks {
			ks[x] = vh.HexS(ks[x])
		}
		body := "-"
		if len(ks) > 0 {
			body = strings.Join(ks, "+")
		}
		parts[n] = vh.U(i) + ":" + body
	}
	return strings.Join(parts, ",")
}

func TestVerifC09Tracker(t *testing.T) {
	out := vh.Open()
	defer out.Close()
	rng := vh.NewRand(vh.Seed() ^ 0x7ac)
	keys := []string{"a", "b", "a/x", "a/y", "a/b/c", "ab", "a/", "c/d/e", "/", "/r"}
	lkeys := []string{"", "/", "a", "a/", "a/b", "a/b/", "ab", "c", "c/d/", "zz/", "/r"}
	showLow := func(v uint64) string {
		if v == ^uint64(0) {
			return "max"
		}
		return vh.U(v)
	}
	cases := 3000
	if vh.Thorough() {
		cases = 60000
	}
	for c := 0; c < cases; c++ {
		out.Reset()
		tr := FsmTxnCommitIndexTracker()
		top := uint64(0)
		steps := 10 + rng.Intn(40)
		for s := 0; s < steps; s++ {
			switch r := rng.Intn(100); {
			case r < 22:
				top += uint64(1 + rng.Intn(2))
				i := top
				if rng.Chance(10) && top > 1 {
					i = 1 + uint64(rng.Intn(int(top))) // re-assignment of an index replaces the record
				}
				k := keys[rng.Intn(len(keys))]
				tr.logWrite(i, k)
				out.Op("ok", "logw", vh.U(i), vh.HexS(k))
			case r < 34:
				top += 1
				n := rng.Intn(4)
				set := map[string]struct{}{}
				var fs []string
				for x := 0; x < n; x++ {
					k := keys[rng.Intn(len(keys))]
					set[k] = struct{}{}
					fs = append(fs, vh.HexS(k))
				}
				f := "-"
				if len(fs) > 0 {
					f = strings.Join(fs, ",")
				}
				tr.logTxnWrites(top, set)
				out.Op("ok", "logt", vh.U(top), f)
			case r < 42:
				low := uint64(rng.Intn(int(top) + 3))
				if rng.Chance(5) {
					low = ^uint64(0) >> 1
				}
				tr.clearOldEntries(low)
				out.Op("ok", "clear", vh.U(low))
			case r < 62:
				mn := uint64(rng.Intn(int(top) + 2))
				mx := top + uint64(rng.Intn(2))
				k := keys[rng.Intn(len(keys))]
				if rng.Chance(8) && top > 0 { // the "saw later index" panic: only with a key recorded nowhere
					mx = uint64(rng.Intn(int(top)))
					k = "never-written"
				}
				res := vh.Catch(func() string {
					_, found := tr.hasModifiedEntry(mn, mx, k)
					return fmt.Sprint(found)
				})
				out.Op(res, "hme", vh.U(mn), vh.U(mx), vh.HexS(k))
			case r < 80:
				mn := uint64(rng.Intn(int(top) + 2))
				mx := top + uint64(rng.Intn(2))
				k := lkeys[rng.Intn(len(lkeys))]
				res := vh.Catch(func() string {
					_, found := tr.hasModifiedListEntry(mn, mx, k)
					return fmt.Sprint(found)
				})
				out.Op(res, "hmle", vh.U(mn), vh.U(mx), vh.HexS(k))
			case r < 87:
				i := uint64(rng.Intn(int(top) + 2))
				tr.trackTransaction(i)
				out.Op("ok", "track", vh.U(i))
			case r < 92:
				i := uint64(rng.Intn(int(top) + 2))
				tr.completeTransaction(i)
				out.Op("ok", "complete", vh.U(i))
			case r < 95:
				out.Op(showLow(tr.lowestActiveIndex()), "lowest")
			case r < 98:
				i := uint64(rng.Intn(int(top) + 2))
				out.Op(showLow(tr.lowestActiveIndexAfterCommit(i)), "lowestafter", vh.U(i))
			default:
				out.Op(c09TrackerDump(tr), "dump")
			}
		}
		out.Op(c09TrackerDump(tr), "dump")
	}
}
