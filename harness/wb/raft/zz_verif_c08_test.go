//go:build verif

package raft

// White-box correspondence harness for C08 (b): the same scheduler as harness/bb/c08 (one goroutine, explicit
// interleaving of the operations and commits of 1-4 open transactions plus plain readers/writers), over a REAL
// single-node RaftBackend (bbolt FSM, hashicorp/raft with on-disk log, the real apply path with the fast-path
// tracker). Stream "txn-raft". Besides the random cases it runs directed scenarios for the candidate findings
// F8 (list verification misses appended keys) and F7 (FSM held back behind raft's applied index with
// SetFSMApplyCallback while a transaction begins). Overlaid into internal/physical/raft; never written into /repo.

import (
	"context"
	"errors"
	"fmt"
	"os"
	"strings"
	"testing"
	"time"

	"github.com/hashicorp/go-hclog"
	"github.com/hashicorp/go-uuid"
	"github.com/openbao/openbao/sdk/v2/physical"
	"github.com/openbao/openbao/v2/internal/zzverif/vh"
)

func c08NewRaft(t *testing.T) (*RaftBackend, func()) {
	base := ""
	if st, err := os.Stat("/dev/shm"); err == nil && st.IsDir() {
		base = "/dev/shm"
	}
	dir, err := os.MkdirTemp(base, "verif-c08-raft-")
	if err != nil {
		t.Fatal(err)
	}
	id, err := uuid.GenerateUUID()
	if err != nil {
		t.Fatal(err)
	}
	logger := hclog.New(&hclog.LoggerOptions{Name: "raft-c08", Level: hclog.Error})
	conf := map[string]string{"path": dir, "trailing_logs": "100", "node_id": id, "doNotStoreLatestState": "", "performance_multiplier": "1"}
	raw, err := NewRaftBackend(conf, logger)
	if err != nil {
		t.Fatal(err)
	}
	b := raw.(*RaftBackend)
	if err := b.Bootstrap([]Peer{{ID: b.NodeID(), Address: b.NodeID()}}); err != nil {
		t.Fatal(err)
	}
	if err := b.SetupCluster(context.Background(), SetupOpts{}); err != nil {
		t.Fatal(err)
	}
	deadline := time.Now().Add(90 * time.Second)
	for b.raft.AppliedIndex() < 2 {
		if time.Now().After(deadline) {
			t.Fatal("raft did not elect itself")
		}
		time.Sleep(2 * time.Millisecond)
	}
	b.DisableAutopilot()
	return b, func() {
		_ = b.TeardownCluster(nil)
		_ = b.Close()
		_ = os.RemoveAll(dir)
	}
}

// ---- canonical results ----

func c08ErrClass(err error) string {
	switch {
	case errors.Is(err, physical.ErrTransactionReadOnly):
		return "err:readonly"
	case errors.Is(err, physical.ErrTransactionAlreadyCommitted):
		return "err:finished"
	case errors.Is(err, physical.ErrTransactionCommitFailure):
		return "err:conflict"
	case err != nil && strings.Contains(err.Error(), physical.ErrTransactionCommitFailure.Error()):
		// the FSM's verdict travels back through raft as a string (FSMEntry.AsTxError)
		return "err:conflict-unwrapped"
	}
	return "err:other"
}

func c08q(s string) string {
	if s == "" {
		return "-"
	}
	return s
}

func c08ResGet(e *physical.Entry, err error) string {
	if err != nil {
		return c08ErrClass(err)
	}
	if e == nil {
		return "nil"
	}
	return "v:" + vh.Hex(e.Value)
}

func c08ResList(l []string, err error) string {
	if err != nil {
		return c08ErrClass(err)
	}
	qs := make([]string, len(l))
	for i, x := range l {
		qs[i] = c08q(x)
	}
	return "[" + strings.Join(qs, ",") + "]"
}

func c08ResErr(err error) string {
	if err != nil {
		return c08ErrClass(err)
	}
	return "ok"
}

// c08Guard runs one storage call with a watchdog: a call that does not return is an observation ("timeout"),
// not a hung check.
func c08Guard(f func() string) string {
	ch := make(chan string, 1)
	go func() { ch <- vh.Catch(f) }()
	select {
	case r := <-ch:
		return r
	case <-time.After(90 * time.Second):
		return "timeout"
	}
}

// ---- generator (prefixes with and without trailing slash; `after` values incl. empty and dot segments: both
// listing paths seek to the plain concatenation prefix+after) ----

var c08KeyPool = [][]string{
	{"a", "b", "c"},
	{"foo/a", "foo/b", "foo/c", "g"},
	{"foo/a", "foo/b", "foo/d/x", "foo/d/y", "h"},
	{"a", "a/b", "a/c", "ab", "b/c/d"},
	{"foo", "foo/a", "foo/b/c", "foo/b/d", "foo0", "z"},
	{"k/1", "k/2", "k/3", "k/4", "k/5", "k/6"},
}

var c08Values = [][]byte{{}, {1}, {2}, {3}, {0xab, 0xcd}}
var c08Limits = []int{-1, 0, 1, 2, 3, 10}

type c08Gen struct {
	rng      *vh.Rand
	keys     []string
	prefixes []string
	afters   []string
	rawPfx   []string // prefixes that do not end in "/" (used with List only: no filepath.Join involved)
}

func c08SortStrings(s []string) {
	for i := 1; i < len(s); i++ {
		for j := i; j > 0 && s[j] < s[j-1]; j-- {
			s[j], s[j-1] = s[j-1], s[j]
		}
	}
}

func c08NewGen(rng *vh.Rand, keys []string) *c08Gen {
	g := &c08Gen{rng: rng, keys: keys}
	pset := map[string]bool{"": true}
	aset := map[string]bool{"": true, "zz": true, "0": true}
	for _, k := range g.keys {
		parts := strings.Split(k, "/")
		for i := 1; i < len(parts); i++ {
			pset[strings.Join(parts[:i], "/")+"/"] = true
		}
		for i, p := range parts {
			if i < len(parts)-1 {
				aset[p+"/"] = true
			}
			aset[p] = true
		}
	}
	for p := range pset {
		g.prefixes = append(g.prefixes, p)
	}
	for a := range aset {
		g.afters = append(g.afters, a)
	}
	rset := map[string]bool{}
	for _, k := range g.keys {
		if len(k) > 1 && k[len(k)-2] != '/' {
			rset[k[:len(k)-1]] = true
		}
	}
	// `after` values for prefixes without a trailing slash (the entries such a listing returns, i.e. what a
	// caller paginating it would pass next) and values with empty / dot segments: since the seek is the plain
	// concatenation prefix+after these are ordinary inputs (filepath.Join used to rewrite them)
	for p := range rset {
		for _, k := range g.keys {
			if strings.HasPrefix(k, p) {
				rest := k[len(p):]
				if i := strings.Index(rest, "/"); i >= 0 {
					aset[rest[:i+1]] = true
				} else {
					aset[rest] = true
				}
			}
		}
	}
	for _, a := range []string{".", "..", "./", "//", "a//", "a/../b", "../", "a/./b", "/"} {
		aset[a] = true
	}
	g.afters = g.afters[:0]
	for a := range aset {
		g.afters = append(g.afters, a)
	}
	for p := range rset {
		g.rawPfx = append(g.rawPfx, p)
	}
	c08SortStrings(g.prefixes)
	c08SortStrings(g.afters)
	c08SortStrings(g.rawPfx)
	return g
}

type c08Sched struct {
	t    *testing.T
	out  *vh.Out
	ctx  context.Context
	b    *RaftBackend
	g    *c08Gen
	txns []physical.Transaction
	ro   []bool
	done []bool
	hung bool
	mark string // appended to every later dump of the case once a stale commit went through (directed scenarios)
}

func (s *c08Sched) op(res string, fields ...string) {
	if res == "timeout" {
		s.hung = true
	}
	s.out.Op(res, fields...)
}

func (s *c08Sched) who(id int) (physical.Backend, string) {
	if id < 0 {
		return s.b, "p"
	}
	return s.txns[id], vh.I(int64(id))
}

func (s *c08Sched) put(id int, key string, v []byte) {
	k, w := s.who(id)
	s.op(c08Guard(func() string { return c08ResErr(k.Put(s.ctx, &physical.Entry{Key: key, Value: v})) }), "put", w, key, vh.Hex(v))
}
func (s *c08Sched) del(id int, key string) {
	k, w := s.who(id)
	s.op(c08Guard(func() string { return c08ResErr(k.Delete(s.ctx, key)) }), "del", w, key)
}
func (s *c08Sched) get(id int, key string) string {
	k, w := s.who(id)
	r := c08Guard(func() string { return c08ResGet(k.Get(s.ctx, key)) })
	s.op(r, "get", w, key)
	return r
}
func (s *c08Sched) list(id int, p string) {
	k, w := s.who(id)
	s.op(c08Guard(func() string { return c08ResList(k.List(s.ctx, p)) }), "list", w, c08q(p))
}
func (s *c08Sched) listp(id int, p, a string, l int) {
	k, w := s.who(id)
	s.op(c08Guard(func() string { return c08ResList(k.ListPage(s.ctx, p, a, l)) }), "listp", w, c08q(p), c08q(a), vh.I(int64(l)))
}

func (s *c08Sched) dataOp(id int, writeBias int) {
	rng := s.g.rng
	key := rng.Pick(s.g.keys)
	switch c := rng.Intn(100); {
	case c < writeBias*2/3:
		s.put(id, key, c08Values[rng.Intn(len(c08Values))])
	case c < writeBias:
		s.del(id, key)
	case c < writeBias+(100-writeBias)/2:
		s.get(id, key)
	case c < writeBias+(100-writeBias)*3/4:
		if len(s.g.rawPfx) > 0 && rng.Chance(15) {
			s.list(id, rng.Pick(s.g.rawPfx))
		} else {
			s.list(id, rng.Pick(s.g.prefixes))
		}
	default:
		p := rng.Pick(s.g.prefixes)
		if len(s.g.rawPfx) > 0 && rng.Chance(20) {
			p = rng.Pick(s.g.rawPfx) // paginated listing of a prefix without a trailing slash
		}
		s.listp(id, p, rng.Pick(s.g.afters), c08Limits[rng.Intn(len(c08Limits))])
	}
}

func (s *c08Sched) dump() {
	vals := make([]string, len(s.g.keys))
	for i, k := range s.g.keys {
		k := k
		vals[i] = c08Guard(func() string { return c08ResGet(s.b.Get(s.ctx, k)) })
	}
	s.op(strings.Join(vals, ",")+s.mark, append([]string{"dump"}, s.g.keys...)...)
}

func (s *c08Sched) begin(ro bool) int {
	var tx physical.Transaction
	r := c08Guard(func() string {
		var err error
		if ro {
			tx, err = s.b.BeginReadOnlyTx(s.ctx)
		} else {
			tx, err = s.b.BeginTx(s.ctx)
		}
		return c08ResErr(err)
	})
	if r != "ok" {
		s.t.Fatalf("begin: %s", r)
	}
	s.txns = append(s.txns, tx)
	s.ro = append(s.ro, ro)
	s.done = append(s.done, false)
	mode := "rw"
	if ro {
		mode = "ro"
	}
	s.op("ok", "begin", vh.I(int64(len(s.txns)-1)), mode)
	return len(s.txns) - 1
}

func (s *c08Sched) finish(id int, commit bool, mark string) string {
	w := vh.I(int64(id))
	var r string
	if commit {
		r = c08Guard(func() string { return c08ResErr(s.txns[id].Commit(s.ctx)) })
		s.op(r+mark, "commit", w)
	} else {
		r = c08Guard(func() string { return c08ResErr(s.txns[id].Rollback(s.ctx)) })
		s.op(r, "rollback", w)
	}
	s.done[id] = true
	s.dump()
	return r
}

func (s *c08Sched) open() []int {
	var o []int
	for id := range s.txns {
		if !s.done[id] {
			o = append(o, id)
		}
	}
	return o
}

// start a case on the shared backend: close whatever is open, empty the store (plain deletes), write `reset`
func c08StartCase(t *testing.T, out *vh.Out, b *RaftBackend, rng *vh.Rand, keys []string, name string) *c08Sched {
	ctx := context.Background()
	all, err := b.List(ctx, "")
	if err != nil {
		t.Fatal(err)
	}
	var wipe func(prefix string, entries []string)
	wipe = func(prefix string, entries []string) {
		for _, e := range entries {
			if strings.HasSuffix(e, "/") {
				sub, err := b.List(ctx, prefix+e)
				if err != nil {
					t.Fatal(err)
				}
				wipe(prefix+e, sub)
				// a key can be both an entry and a folder ("foo" and "foo/a"): handled by the leaf branch of "foo"
			} else if err := b.Delete(ctx, prefix+e); err != nil {
				t.Fatal(err)
			}
		}
	}
	wipe("", all)
	out.Reset()
	out.Op("ok", "layer", name)
	return &c08Sched{t: t, out: out, ctx: ctx, b: b, g: c08NewGen(rng, keys)}
}

func (s *c08Sched) endCase() {
	for _, id := range s.open() {
		s.finish(id, s.g.rng.Chance(90), "")
	}
	s.dump()
}

func c08RandomCase(t *testing.T, out *vh.Out, b *RaftBackend, rng *vh.Rand, steps int) bool {
	s := c08StartCase(t, out, b, rng, c08KeyPool[rng.Intn(len(c08KeyPool))], "raft")
	for _, k := range s.g.keys {
		if rng.Chance(60) {
			s.put(-1, k, c08Values[rng.Intn(len(c08Values))])
		}
	}
	maxOpen := 1 + rng.Intn(4)
	plainW := []int{0, 10, 25}[rng.Intn(3)]
	for i := 0; i < steps && !s.hung; i++ {
		o := s.open()
		c := rng.Intn(100)
		switch {
		case len(o) < maxOpen && len(s.txns) < 8 && (len(o) == 0 || c < 12):
			s.begin(rng.Chance(15))
		case c < 12+plainW:
			s.dataOp(-1, 70)
		case c < 12+plainW+8 && len(o) > 0:
			s.finish(o[rng.Intn(len(o))], rng.Chance(85), "")
		case c < 12+plainW+8+3 && len(s.txns) > len(o):
			var fin []int
			for id := range s.txns {
				if s.done[id] {
					fin = append(fin, id)
				}
			}
			id := fin[rng.Intn(len(fin))]
			switch rng.Intn(4) {
			case 0:
				s.finish(id, true, "")
			case 1:
				s.finish(id, false, "")
			default:
				s.dataOp(id, 40)
			}
		case len(o) > 0:
			id := o[rng.Intn(len(o))]
			wb := 40
			if s.ro[id] {
				wb = 15
			}
			s.dataOp(id, wb)
		default:
			s.dataOp(-1, 50)
		}
	}
	if s.hung {
		return false
	}
	s.endCase()
	return !s.hung
}

// Directed scenario for F8: a transaction lists a directory WITHOUT reaching a limit, another writer appends a
// key that sorts after everything the transaction saw, the transaction writes something and commits.
func c08PhantomCase(t *testing.T, out *vh.Out, b *RaftBackend, rng *vh.Rand) {
	keys := []string{"foo/a", "foo/b", "foo/c", "foo/d", "out"}
	s := c08StartCase(t, out, b, rng, keys, "raft")
	n := 1 + rng.Intn(3)
	for i := 0; i < n; i++ {
		s.put(-1, keys[i], []byte{1})
	}
	id := s.begin(false)
	switch rng.Intn(3) {
	case 0:
		s.list(id, "foo/")
	case 1:
		s.listp(id, "foo/", "", 0)
	default:
		s.listp(id, "foo/", "", 10)
	}
	// derived write: "out" := number of entries seen (any write will do)
	s.put(id, "out", []byte{byte(n)})
	// the phantom: a concurrent plain writer appends foo/<next>
	s.put(-1, keys[n], []byte{2})
	s.finish(id, true, "")
	s.endCase()
}

// Directed scenario: a listing whose prefix does not end in "/" (legal at the physical layer), a concurrent
// insert in FRONT of what was listed (full verification would see it), commit.
func c08NonSlashCase(t *testing.T, out *vh.Out, b *RaftBackend, rng *vh.Rand) {
	keys := []string{"foo/a", "fob", "fox", "out"}
	s := c08StartCase(t, out, b, rng, keys, "raft")
	s.put(-1, "foo/a", []byte{1})
	id := s.begin(false)
	s.list(id, "fo")
	s.put(id, "out", []byte{1})
	s.put(-1, keys[1+rng.Intn(2)], []byte{2})
	s.finish(id, true, "")
	s.endCase()
}

// Directed scenario for F7: hold the FSM back behind raft's applied index (SetFSMApplyCallback parks
// ApplyBatch), begin a transaction on the lagging FSM, let the FSM catch up, commit.
// Trace lines are written in FSM-application order (the order in which the store actually changed).
func c08LagCase(t *testing.T, out *vh.Out, rng *vh.Rand, extra int) {
	b, closeFn := c08NewRaft(t)
	defer closeFn()
	keys := []string{"k", "x", "y", "j"}
	s := c08StartCase(t, out, b, rng, keys, "raft-lag")
	s.put(-1, "k", []byte{1})
	n := b.AppliedIndex()

	gate := make(chan struct{})
	b.SetFSMApplyCallback(func() { <-gate })
	type pend struct {
		key string
		val []byte
		ch  chan string
	}
	var pending []pend
	submit := func(key string, val []byte, wait uint64) {
		p := pend{key, val, make(chan string, 1)}
		go func() { p.ch <- vh.Catch(func() string { return c08ResErr(b.Put(s.ctx, &physical.Entry{Key: key, Value: val})) }) }()
		pending = append(pending, p)
		for i := 0; i < 2000 && b.raft.AppliedIndex() < wait; i++ {
			time.Sleep(2 * time.Millisecond)
		}
	}
	submit("k", []byte{2}, n+1)
	submit("x", []byte{3}, n+2)
	for i := 0; i < extra; i++ {
		// submitted while raft's applied index is ahead of the FSM and no transaction is tracked:
		// these entries carry LowestActiveIndex = raft applied index
		submit("y", []byte{byte(4 + i)}, n+3+uint64(i))
	}
	lag := b.raft.AppliedIndex() - b.AppliedIndex()
	s.op("ok", "lag", vh.U(lag))

	id := s.begin(false)
	r := s.get(id, "k")
	s.put(id, "j", []byte{0xdd})

	close(gate) // (do not reset the callback: SetFSMApplyCallback needs fsm.l.Lock, which the open transaction blocks)
	for _, p := range pending {
		var res string
		select {
		case res = <-p.ch:
		case <-time.After(90 * time.Second):
			res = "timeout"
		}
		s.op(res, "put", "p", p.key, vh.Hex(p.val))
	}
	cur := c08Guard(func() string { return c08ResGet(b.Get(s.ctx, "k")) })
	mark := ""
	w := vh.I(int64(id))
	cr := c08Guard(func() string { return c08ResErr(s.txns[id].Commit(s.ctx)) })
	if cr == "ok" && cur != r {
		mark = "!VIOL:transaction began on an FSM lagging raft's applied index by " + vh.U(lag) +
			", read k=" + r + ", k was " + cur + " at commit, commit succeeded#F7:raft-lagging-fsm-stale-commit"
	}
	s.op(cr+mark, "commit", w)
	if mark != "" {
		s.mark = "!VIOL:the store holds a write derived from a stale read (stale commit of a transaction begun on a lagging FSM)#F7:raft-lagging-fsm-stale-commit"
	}
	s.done[id] = true
	s.dump()
	s.endCase()
}

// c08BeginRaceCase (directed): a write transaction is being STARTED while a plain write of a key it will read is
// applied by the FSM. BeginTx reads the applied index under b.l.RLock: holding b.l parks it there, the write is
// applied through applyLog (what Put calls under that lock), then both go on. In the trace the write precedes `begin`
// (BeginTx returns after it): whatever the transaction then observes, it may commit only if that is still current.
func c08BeginRaceCase(t *testing.T, out *vh.Out, rng *vh.Rand) {
	b, closeFn := c08NewRaft(t)
	defer closeFn()
	s := c08StartCase(t, out, b, rng, []string{"k", "j"}, "raft-beginrace")
	s.put(-1, "k", []byte{1})
	base := b.fsm.db.Stats().OpenTxN
	b.l.Lock()
	type br struct {
		tx  physical.Transaction
		err error
	}
	ch := make(chan br, 1)
	go func() {
		tx, err := b.BeginTx(s.ctx)
		ch <- br{tx, err}
	}()
	for dl := time.Now().Add(400 * time.Millisecond); time.Now().Before(dl) && b.fsm.db.Stats().OpenTxN <= base; {
		time.Sleep(5 * time.Millisecond)
	}
	time.Sleep(40 * time.Millisecond)
	aerr := b.applyLog(s.ctx, &LogData{Operations: []*LogOperation{{OpType: putOp, Key: "k", Value: []byte{2}}}})
	b.l.Unlock()
	s.op(c08ResErr(aerr), "put", "p", "k", vh.Hex([]byte{2}))
	var res br
	select {
	case res = <-ch:
	case <-time.After(60 * time.Second):
		s.op("timeout", "begin", "0", "rw")
		return
	}
	if res.err != nil {
		t.Fatalf("begin: %v", res.err)
	}
	s.txns = append(s.txns, res.tx)
	s.ro = append(s.ro, false)
	s.done = append(s.done, false)
	s.op("ok", "begin", "0", "rw")
	r := s.get(0, "k")
	s.put(0, "j", []byte{0xee})
	cur := c08Guard(func() string { return c08ResGet(b.Get(s.ctx, "k")) })
	mark := ""
	cr := c08Guard(func() string { return c08ResErr(s.txns[0].Commit(s.ctx)) })
	if cr == "ok" && cur != r {
		mark = "!VIOL:a transaction whose start raced with the application of a write observed k=" + r + ", k was " + cur +
			" at commit time, and the commit succeeded#begin-race-stale-commit"
	}
	s.op(cr+mark, "commit", "0")
	s.done[0] = true
	s.dump()
	s.endCase()
}

func TestVerifC08Raft(t *testing.T) {
	out := vh.Open()
	defer out.Close()
	rng := vh.NewRand(vh.Seed())
	n := vh.EnvInt("VERIF_C08_RAFT_CASES", 3000)
	if vh.Thorough() {
		n = vh.EnvInt("VERIF_C08_RAFT_CASES", 150000)
	}
	b, closeFn := c08NewRaft(t)
	ok := true
	start := time.Now()
	for i := 0; i < n && ok; i++ {
		cr := rng.Fork(uint64(i))
		if i%25 == 7 {
			c08PhantomCase(t, out, b, cr)
			continue
		}
		if i%100 == 13 {
			c08NonSlashCase(t, out, b, cr)
			continue
		}
		ok = c08RandomCase(t, out, b, cr, 8+cr.Intn(40))
	}
	t.Logf("raft cases: %d in %v", n, time.Since(start))
	if ok {
		closeFn()
	} else {
		fmt.Fprintln(os.Stderr, "a storage call hung; the backend is abandoned")
	}
	for i := 0; i < 3; i++ {
		c08BeginRaceCase(t, out, rng.Fork(uint64(200000+i)))
	}
	if vh.EnvInt("VERIF_C08_LAG", 1) == 1 {
		for _, extra := range []int{1, 2} {
			c08LagCase(t, out, rng.Fork(uint64(100000+extra)), extra)
		}
	}
}
