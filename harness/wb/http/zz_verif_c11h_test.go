//go:build verif

package http

// Stream "audithttp" of C11: the audited "non logical" endpoints of the HTTP layer (sys/generate-root/*, sys/rekey/*),
// which internal/http/handler.go wraps with handleAuditNonLogical instead of sending them through Core.HandleRequest.
// One audit device (corehelpers.NoopAudit) that accepts everything, refuses every REQUEST entry, or refuses every RESPONSE
// entry. Op line:  nonlogical <endpoint> <none|req|resp>  =>  <ok|err>|secret:<present|none>
// (secret = the generate-root OTP / the new unseal key shares in the body the client received)

import (
	"bytes"
	"context"
	"encoding/hex"
	"encoding/json"
	"errors"
	"io"
	nethttp "net/http"
	"strings"
	"testing"

	"github.com/openbao/openbao/sdk/v2/helper/jsonutil"
	"github.com/openbao/openbao/v2/internal/audit"
	"github.com/openbao/openbao/v2/internal/command/server"
	"github.com/openbao/openbao/v2/internal/helper/configutil"
	"github.com/openbao/openbao/v2/internal/helper/testhelpers/corehelpers"
	"github.com/openbao/openbao/v2/internal/vault"
	"github.com/openbao/openbao/v2/internal/zzverif/vh"
)

func c11hServer(t *testing.T) (*corehelpers.NoopAudit, string, [][]byte, func()) {
	t.Helper()
	noop := corehelpers.TestNoopAudit(t, nil)
	core, keys, root := vault.TestCoreUnsealedWithConfig(t, &vault.CoreConfig{
		RawConfig: &server.Config{UnsafeAllowAPIAuditCreation: true},
		AuditBackends: map[string]audit.Factory{
			"noop": func(ctx context.Context, config *audit.BackendConfig) (audit.Backend, error) {
				return noop, nil
			},
		},
	})
	ln, addr := TestListener(t)
	props := &vault.HandlerProperties{
		Core: core,
		ListenerConfig: &configutil.Listener{
			Address:                              "127.0.0.1",
			DisableUnauthedGenerateRootEndpoints: new(false),
			DisableUnauthedRekeyEndpoints:        new(false),
		},
	}
	TestServerWithListenerAndProperties(t, ln, addr, core, props)
	resp := testHttpPost(t, root, addr+"/v1/sys/audit/noop", map[string]any{"type": "noop"})
	testResponseStatus(t, resp, 204)
	return noop, addr, keys, func() { ln.Close() }
}

func c11hArm(noop *corehelpers.NoopAudit, fail string) {
	switch fail {
	case "req":
		noop.ReqErr = errors.New("audit device is down")
	case "resp":
		noop.RespErr = errors.New("audit device is down")
	}
}

// c11hPut: a PUT that tolerates a dropped connection (status 0)
func c11hPut(t *testing.T, url string, body map[string]any) (status int, data []byte) {
	b, err := json.Marshal(body)
	if err != nil {
		t.Fatal(err)
	}
	req, err := nethttp.NewRequest("PUT", url, bytes.NewReader(b))
	if err != nil {
		t.Fatal(err)
	}
	req.Header.Set("Content-Type", "application/json")
	resp, err := (&nethttp.Client{}).Do(req)
	if err != nil {
		return 0, nil
	}
	defer resp.Body.Close()
	data, _ = io.ReadAll(resp.Body)
	return resp.StatusCode, data
}

func c11hFirstJSON(body []byte) map[string]any {
	var first map[string]any
	s := string(body)
	if i := strings.IndexByte(s, '\n'); i >= 0 {
		s = s[:i+1]
	}
	_ = jsonutil.DecodeJSON([]byte(s), &first)
	return first
}

func c11hLine(out *vh.Out, endpoint, fail string, status int, secret bool) {
	cl, sec := "ok", "secret:none"
	if status == 0 || status >= 400 {
		cl = "err"
	}
	if secret {
		sec = "secret:present"
	}
	res := cl + "|" + sec
	if fail != "none" && (cl == "ok" || secret) {
		res += "!VIOL:every audit device refused the " + fail + " entry of " + endpoint + ", but the client received " + cl + " with" + map[bool]string{true: "", false: "out"}[secret] + " the secret material#nonlogical-response-before-audit"
	}
	out.Op(res, "nonlogical", endpoint, fail)
}

func TestVerifC11HTTP(t *testing.T) {
	out := vh.Open()
	defer out.Close()
	for _, fail := range []string{"none", "resp", "req"} {
		{
			noop, addr, _, done := c11hServer(t)
			out.Reset()
			c11hArm(noop, fail)
			status, body := c11hPut(t, addr+"/v1/sys/generate-root/attempt", map[string]any{})
			otp, _ := c11hFirstJSON(body)["otp"].(string)
			c11hLine(out, "generate-root/attempt", fail, status, otp != "")
			done()
		}
		{
			noop, addr, keys, done := c11hServer(t)
			out.Reset()
			resp := testHttpPut(t, "", addr+"/v1/sys/rekey/init", map[string]any{"secret_shares": 1, "secret_threshold": 1})
			testResponseStatus(t, resp, 200)
			var st map[string]any
			testResponseBody(t, resp, &st)
			nonce, _ := st["nonce"].(string)
			var status int
			var body []byte
			for i, key := range keys {
				if i == len(keys)-1 {
					c11hArm(noop, fail) // the final share: the response carries the NEW unseal key
				}
				status, body = c11hPut(t, addr+"/v1/sys/rekey/update", map[string]any{"nonce": nonce, "key": hex.EncodeToString(key)})
			}
			ks, _ := c11hFirstJSON(body)["keys"].([]any)
			c11hLine(out, "rekey/update", fail, status, len(ks) > 0)
			done()
		}
	}
}
