//go:build verif

package c17t

// Correspondence harness for C17 through the real transit backend: every operation of the shared generator
// (sdk/zzverif/c17core) is a logical.Request handled by transit.Factory's backend over InmemStorage wrapped by a
// put-fault injector. Overlaid as internal/zzverif/c17t; nothing is written into /repo.

import (
	"context"
	"encoding/base64"
	"encoding/json"
	"strings"
	"testing"

	"github.com/openbao/openbao/sdk/v2/logical"
	"github.com/openbao/openbao/sdk/v2/zzverif/c17core"
	"github.com/openbao/openbao/sdk/v2/zzverif/vh"
	"github.com/openbao/openbao/v2/internal/builtin/logical/transit"
)

type target struct {
	b    logical.Backend
	st   logical.Storage // transactional: StartTxStorage in the handlers opens real transactions
	fs   *c17core.FaultStore
	ctx  context.Context
	name string
}

func newTarget(useCache bool) c17core.Target {
	st, fs := c17core.NewFaultStorage()
	conf := logical.TestBackendConfig()
	sv := logical.TestSystemView()
	sv.CachingDisabledVal = !useCache
	conf.System = sv
	conf.StorageView = st
	b, err := transit.Factory(context.Background(), conf)
	if err != nil {
		panic(err)
	}
	return &target{b: b, st: st, fs: fs, ctx: context.Background(), name: "k"}
}

func (t *target) Close()              { t.b.Cleanup(t.ctx) }
func (t *target) SupportsNonce() bool { return false }

// RawConfig: the endpoints offer no unguarded assignment.
func (t *target) RawConfig(dec, enc int) (string, bool) { return "", false }

// RestoreRaw: the endpoint is the only way in.
func (t *target) RestoreRaw(blob string, force bool) (string, bool) { return "", false }
func (t *target) FailPut(k int)       { t.fs.FailAt = k }
func (t *target) FailCommit()         { t.fs.FailCommit = true }

// call performs one request; returns the response data and the canonical error class ("" = success).
func (t *target) call(op logical.Operation, path string, data map[string]any) (d map[string]any, warnings []string, res string) {
	defer func() {
		if r := recover(); r != nil {
			res = "PANIC"
		}
	}()
	resp, err := t.b.HandleRequest(t.ctx, &logical.Request{Operation: op, Path: path, Data: data, Storage: t.st})
	if resp != nil && resp.IsError() {
		return nil, nil, c17core.Classify(resp.Error().Error())
	}
	if err != nil {
		return nil, nil, c17core.Classify(err.Error())
	}
	if resp == nil {
		return nil, nil, ""
	}
	return resp.Data, resp.Warnings, ""
}

func (t *target) mutating(op logical.Operation, path string, data map[string]any) (map[string]any, []string, string) {
	t.fs.Count = 0
	defer func() { t.fs.FailAt = 0 }()
	return t.call(op, path, data)
}

func toInt(v any) int {
	switch x := v.(type) {
	case int:
		return x
	case int64:
		return int(x)
	case float64:
		return int(x)
	}
	return -999
}

func (t *target) Info() (c17core.Info, bool) {
	d, _, c := t.call(logical.ReadOperation, "keys/"+t.name, nil)
	if c != "" || d == nil {
		return c17core.Info{}, false
	}
	return c17core.Info{Latest: toInt(d["latest_version"]), MinDec: toInt(d["min_decryption_version"]),
		MinEnc: toInt(d["min_encryption_version"]), MinAvail: toInt(d["min_available_version"])}, true
}

func (t *target) New(typ string, derived, convergent bool) string {
	data := map[string]any{"type": typ, "derived": derived, "convergent_encryption": convergent}
	if typ == "hmac" {
		data["key_size"] = 32
	}
	_, warns, c := t.mutating(logical.UpdateOperation, "keys/"+t.name, data)
	for _, w := range warns {
		if strings.Contains(w, "already existed") {
			return "exists"
		}
	}
	return c
}

func (t *target) Rotate() string {
	_, _, c := t.mutating(logical.UpdateOperation, "keys/"+t.name+"/rotate", nil)
	return c
}

func (t *target) Config(dec, enc *int, del, exp, apb *bool) string {
	data := map[string]any{}
	if dec != nil {
		data["min_decryption_version"] = *dec
	}
	if enc != nil {
		data["min_encryption_version"] = *enc
	}
	if del != nil {
		data["deletion_allowed"] = *del
	}
	if exp != nil {
		data["exportable"] = *exp
	}
	if apb != nil {
		data["allow_plaintext_backup"] = *apb
	}
	_, _, c := t.mutating(logical.UpdateOperation, "keys/"+t.name+"/config", data)
	return c
}

func (t *target) Trim(n int) string {
	_, _, c := t.mutating(logical.UpdateOperation, "keys/"+t.name+"/trim", map[string]any{"min_available_version": n})
	return c
}

func (t *target) SoftDelete(restore bool) string {
	if restore {
		_, _, c := t.mutating(logical.UpdateOperation, "keys/"+t.name+"/soft-delete-restore", nil)
		return c
	}
	_, _, c := t.mutating(logical.DeleteOperation, "keys/"+t.name+"/soft-delete", nil)
	return c
}

func (t *target) Backup() (string, string) {
	d, _, c := t.mutating(logical.ReadOperation, "backup/"+t.name, nil)
	if c != "" {
		return "", c
	}
	s, _ := d["backup"].(string)
	return s, ""
}

func (t *target) Restore(blob string, force bool) string {
	_, _, c := t.mutating(logical.UpdateOperation, "restore/"+t.name, map[string]any{"backup": blob, "force": force})
	return c
}

func (t *target) Delete() string {
	_, _, c := t.mutating(logical.DeleteOperation, "keys/"+t.name, nil)
	return c
}

func b64(b []byte) string { return base64.StdEncoding.EncodeToString(b) }

func str(d map[string]any, k string) string {
	s, _ := d[k].(string)
	return s
}

func (t *target) Encrypt(ver int, ctx, aad, nonce, plain []byte) (string, string) {
	data := map[string]any{"plaintext": b64(plain), "key_version": ver}
	if len(ctx) > 0 {
		data["context"] = b64(ctx)
	}
	if len(aad) > 0 {
		data["associated_data"] = b64(aad)
	}
	d, _, c := t.call(logical.UpdateOperation, "encrypt/"+t.name, data)
	if c != "" {
		return "", c
	}
	return str(d, "ciphertext"), ""
}

func (t *target) Decrypt(ct string, ctx, aad []byte) ([]byte, string) {
	data := map[string]any{"ciphertext": ct}
	if len(ctx) > 0 {
		data["context"] = b64(ctx)
	}
	if len(aad) > 0 {
		data["associated_data"] = b64(aad)
	}
	d, _, c := t.call(logical.UpdateOperation, "decrypt/"+t.name, data)
	if c != "" {
		return nil, c
	}
	raw, err := base64.StdEncoding.DecodeString(str(d, "plaintext"))
	if err != nil {
		return nil, "other(plaintext not base64)"
	}
	return raw, ""
}

func (t *target) Rewrap(ct string, ver int, ctx []byte) (string, string) {
	data := map[string]any{"ciphertext": ct, "key_version": ver}
	if len(ctx) > 0 {
		data["context"] = b64(ctx)
	}
	d, _, c := t.call(logical.UpdateOperation, "rewrap/"+t.name, data)
	if c != "" {
		return "", c
	}
	return str(d, "ciphertext"), ""
}

func (t *target) Sign(ver int, ctx, msg []byte) (string, string) {
	data := map[string]any{"input": b64(msg), "key_version": ver}
	if len(ctx) > 0 {
		data["context"] = b64(ctx)
	}
	d, _, c := t.call(logical.UpdateOperation, "sign/"+t.name, data)
	if c != "" {
		return "", c
	}
	return str(d, "signature"), ""
}

func (t *target) Verify(sig string, ctx, msg []byte) (ok bool, res string) {
	defer func() {
		if r := recover(); r != nil {
			ok, res = false, "PANIC"
		}
	}()
	data := map[string]any{"input": b64(msg), "signature": sig}
	if len(ctx) > 0 {
		data["context"] = b64(ctx)
	}
	resp, err := t.b.HandleRequest(t.ctx, &logical.Request{Operation: logical.UpdateOperation, Path: "verify/" + t.name, Data: data, Storage: t.st})
	msgOf := ""
	if resp != nil && resp.IsError() {
		msgOf = resp.Error().Error()
	} else if err != nil {
		msgOf = err.Error()
	}
	if msgOf != "" {
		if c17core.SigFormatError(msgOf) {
			return false, ""
		}
		return false, c17core.Classify(msgOf)
	}
	v, _ := resp.Data["valid"].(bool)
	return v, ""
}

func (t *target) HMAC(ver int, msg []byte) (string, string) {
	d, _, c := t.call(logical.UpdateOperation, "hmac/"+t.name, map[string]any{"input": b64(msg), "key_version": ver})
	if c != "" {
		return "", c
	}
	return str(d, "hmac"), ""
}

func (t *target) HMACVerify(mac string, msg []byte) (bool, string) {
	d, _, c := t.call(logical.UpdateOperation, "verify/"+t.name, map[string]any{"input": b64(msg), "hmac": mac})
	if c != "" {
		return false, c
	}
	v, _ := d["valid"].(bool)
	return v, ""
}

// Batch sends one batch_input request to encrypt/, decrypt/ or rewrap/ and returns the per-item results.
func (t *target) Batch(kind string, items []c17core.BatchItem) (rs []c17core.BatchResult, whole string) {
	defer func() {
		if r := recover(); r != nil {
			rs, whole = nil, "PANIC"
		}
	}()
	in := make([]any, len(items))
	for i, it := range items {
		m := map[string]any{}
		if len(it.Ctx) > 0 {
			m["context"] = b64(it.Ctx)
		}
		switch kind {
		case "encrypt":
			m["plaintext"] = b64(it.Plain)
			m["key_version"] = it.Ver
			if len(it.Aad) > 0 {
				m["associated_data"] = b64(it.Aad)
			}
		case "decrypt":
			m["ciphertext"] = it.Ct
			if len(it.Aad) > 0 {
				m["associated_data"] = b64(it.Aad)
			}
		case "rewrap":
			m["ciphertext"] = it.Ct
			m["key_version"] = it.Ver
		}
		in[i] = m
	}
	resp, err := t.b.HandleRequest(t.ctx, &logical.Request{Operation: logical.UpdateOperation, Path: kind + "/" + t.name,
		Data: map[string]any{"batch_input": in}, Storage: t.st})
	if resp != nil && resp.IsError() {
		return nil, c17core.Classify(resp.Error().Error())
	}
	if err != nil {
		return nil, c17core.Classify(err.Error())
	}
	if resp == nil {
		return nil, "other(nil response)"
	}
	// a batch with failing items is answered through RespondWithStatusCode: the logical response is JSON in http_raw_body
	var raw any = resp.Data["batch_results"]
	if body, ok := resp.Data[logical.HTTPRawBody]; ok {
		var env struct {
			Data map[string]any `json:"data"`
		}
		var bs []byte
		switch x := body.(type) {
		case string:
			bs = []byte(x)
		case []byte:
			bs = x
		}
		if err := json.Unmarshal(bs, &env); err != nil {
			return nil, "other(undecodable http_raw_body)"
		}
		raw = env.Data["batch_results"]
	}
	enc, err := json.Marshal(raw)
	if err != nil {
		return nil, "other(unencodable batch_results)"
	}
	var list []map[string]any
	if err := json.Unmarshal(enc, &list); err != nil {
		return nil, "other(undecodable batch_results)"
	}
	rs = make([]c17core.BatchResult, len(list))
	for i, m := range list {
		if e, _ := m["error"].(string); e != "" {
			rs[i].Cls = c17core.Classify(e)
			continue
		}
		if kind == "decrypt" {
			pt, _ := m["plaintext"].(string)
			rawPt, err := base64.StdEncoding.DecodeString(pt)
			if err != nil {
				rs[i].Cls = "other(plaintext not base64)"
				continue
			}
			rs[i].Text = string(rawPt)
		} else {
			rs[i].Text, _ = m["ciphertext"].(string)
		}
	}
	return rs, ""
}

func TestVerifC17Endpoints(t *testing.T) {
	out := vh.Open()
	defer out.Close()
	rng := vh.NewRand(vh.Seed() ^ 0x7f4a7c15)
	cases, ops := vh.EnvInt("VERIF_C17_CASES", 1500), 60
	if vh.Thorough() {
		cases = vh.EnvInt("VERIF_C17_CASES", 20000)
	}
	c17core.Run(out, rng, newTarget, cases, ops, false)
}

// TestVerifC17EndpointFaults: endpoint histories with single storage-put faults (cache on).
func TestVerifC17EndpointFaults(t *testing.T) {
	out := vh.Open()
	defer out.Close()
	rng := vh.NewRand(vh.Seed() ^ 0x3c6ef372)
	cases, ops := vh.EnvInt("VERIF_C17_CASES", 800), 50
	if vh.Thorough() {
		cases = vh.EnvInt("VERIF_C17_CASES", 12000)
	}
	c17core.Run(out, rng, newTarget, cases, ops, true)
}
