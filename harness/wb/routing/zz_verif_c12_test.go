//go:build verif

package routing

// White-box correspondence harness for C12, stream "router": a real Router with fake backends mounted at
// nested / sibling paths in the root and in child namespaces; Mount / Unmount / Remount / Taint, the Matching*
// look-ups and Route for generated (namespace, path, key, token entry) combinations. Each backend writes the
// client-supplied `key` through the storage view the router attached to the request; a recorder below the
// barrier views notes the physical key touched. Overlaid into internal/vault/routing; nothing is written into /repo.

import (
	"context"
	"errors"
	"strconv"
	"strings"
	"testing"

	"github.com/openbao/openbao/sdk/v2/helper/salt"
	"github.com/openbao/openbao/sdk/v2/logical"
	"github.com/openbao/openbao/v2/internal/helper/namespace"
	"github.com/openbao/openbao/v2/internal/vault/backend"
	"github.com/openbao/openbao/v2/internal/vault/barrier"
	"github.com/openbao/openbao/v2/internal/zzverif/vh"
)

type c12Rec struct {
	inner logical.Storage
	ops   []string
}

func (r *c12Rec) take() []string { o := r.ops; r.ops = nil; return o }
func (r *c12Rec) List(ctx context.Context, p string) ([]string, error) {
	r.ops = append(r.ops, "list="+vh.HexS(p))
	return r.inner.List(ctx, p)
}

func (r *c12Rec) ListPage(ctx context.Context, p, a string, l int) ([]string, error) {
	r.ops = append(r.ops, "list="+vh.HexS(p))
	return r.inner.ListPage(ctx, p, a, l)
}

func (r *c12Rec) Get(ctx context.Context, k string) (*logical.StorageEntry, error) {
	r.ops = append(r.ops, "get="+vh.HexS(k))
	return r.inner.Get(ctx, k)
}

func (r *c12Rec) Put(ctx context.Context, e *logical.StorageEntry) error {
	r.ops = append(r.ops, "put="+vh.HexS(e.Key))
	return r.inner.Put(ctx, e)
}

func (r *c12Rec) Delete(ctx context.Context, k string) error {
	r.ops = append(r.ops, "delete="+vh.HexS(k))
	return r.inner.Delete(ctx, k)
}

type c12Obs struct {
	called  bool
	id      int
	path    string
	mp      string
	tok     string
	storage string
	touch   string
	uuid    string
}

type c12Ns struct {
	ns      *namespace.Namespace
	storage string // namespace storage prefix
}

func TestVerifC12Router(t *testing.T) {
	out := vh.Open()
	defer out.Close()
	rng := vh.NewRand(vh.Seed())
	bg := context.Background()

	nss := []c12Ns{
		{namespace.RootNamespace, ""},
		{&namespace.Namespace{ID: "idn1", UUID: "nsu1", Path: "n1/"}, "namespaces/nsu1/"},
		{&namespace.Namespace{ID: "idn1c", UUID: "nsu2", Path: "n1/c/"}, "namespaces/nsu2/"},
		{&namespace.Namespace{ID: "idn2", UUID: "nsu3", Path: "n2/"}, "namespaces/nsu3/"},
		{&namespace.Namespace{ID: "idn10", UUID: "nsu4", Path: "n10/"}, "namespaces/nsu4/"},
	}
	mountPaths := []string{"secret/", "kv/", "kv/nested/", "a/", "a/b/", "a/b/c/", "cubbyhole/", "sys/", "auth/token/", "identity/",
		"n1/", "n1/secret/", "c/", "c/secret/", "secret", "s", "é/", "", "auth/", "n1/c/kv/", "secret/x/"}
	rests := []string{"", "x", "x/y", "../x", "a/../../b", "./", "a//b", "..", "a/..", "/", "nested/x", "b/c/d", "é", "x/", "../secret/x",
		"../../n2/secret/x", "token/create", "\xff"}
	keys := []string{"x", "k/x", "../x", "a/../../b", "./", "a//b", "..", "a/..", "", "é", "../../logical/u1/x", "..x", "x..", "a/.b", "/", "/.."}
	cases := 250
	if vh.Thorough() {
		cases = 6000
	}
	tokSalt, err := salt.NewSalt(bg, nil, &salt.Config{HashFunc: salt.SHA1Hash})
	if err != nil {
		t.Fatal(err)
	}
	for ci := 0; ci < cases; ci++ {
		out.Reset()
		r := rng.Fork(uint64(ci))
		rec := &c12Rec{inner: &logical.InmemStorage{}}
		rt := NewRouter(nil)
		rt.SetTokenStoreSaltFunc(func(context.Context) (*salt.Salt, error) { return tokSalt, nil })
		obs := &c12Obs{}
		nextID := 0
		var mountedKeys []string // ns index + path of successful mounts (for directed requests)
		type mk struct {
			ns   int
			path string
		}
		var mounted []mk
		doMount := func(nsi int, path string) {
			nextID++
			id := nextID
			uuid := "u" + strconv.Itoa(id)
			sp := nss[nsi].storage + "logical/" + uuid + "/"
			if r.Chance(3) {
				sp = ""
			}
			me := &MountEntry{Table: MountTableType, Path: path, Type: "kv", UUID: uuid, Accessor: "acc" + strconv.Itoa(id),
				NamespaceID: nss[nsi].ns.ID, Namespace: nss[nsi].ns}
			be := &backend.Noop{}
			be.RequestHandler = func(ctx context.Context, req *logical.Request) (*logical.Response, error) {
				obs.called, obs.id, obs.path, obs.mp, obs.tok, obs.uuid = true, id, req.Path, req.MountPoint, req.ClientToken, uuid
				if bv, ok := req.Storage.(barrier.View); ok {
					obs.storage = bv.Prefix()
				} else {
					obs.storage = "?"
				}
				rec.take()
				key, _ := req.Data["key"].(string)
				sop, _ := req.Data["sop"].(string)
				sub, _ := req.Data["sub"].(string)
				// the backend only holds req.Storage (a barrier.View); optionally it narrows it with SubView first
				st := req.Storage
				if sub != "" {
					st = req.Storage.(barrier.View).SubView(sub)
				}
				var perr error
				switch sop {
				case "get":
					_, perr = st.Get(ctx, key)
				case "delete":
					perr = st.Delete(ctx, key)
				case "list":
					_, perr = st.List(ctx, key)
				case "listpage":
					_, perr = st.ListPage(ctx, key, "a", 2)
				default:
					perr = st.Put(ctx, &logical.StorageEntry{Key: key, Value: []byte("v")})
				}
				ops := rec.take()
				switch {
				case errors.Is(perr, logical.ErrRelativePath) && len(ops) == 0:
					obs.touch = "err:relative"
				case perr == nil && len(ops) == 1:
					obs.touch = ops[0]
				default:
					obs.touch = "odd:" + strings.Join(ops, ",")
				}
				return nil, nil
			}
			view := barrier.NewView(rec, sp)
			res := vh.Catch(func() string {
				err := rt.Mount(be, path, me, view)
				switch {
				case err == nil:
					return "ok"
				case strings.Contains(err.Error(), "cannot mount under existing mount"):
					return "err:nested"
				case strings.Contains(err.Error(), "missing prefix"):
					return "err:noprefix"
				case strings.Contains(err.Error(), "missing storage view prefix"):
					return "err:nostorage"
				}
				return "err:other"
			})
			if res == "ok" {
				mounted = append(mounted, mk{nsi, path})
				mountedKeys = append(mountedKeys, nss[nsi].ns.Path+path)
			}
			out.Op(res, "mount", vh.HexS(nss[nsi].ns.Path), vh.HexS(path), strconv.Itoa(id), vh.HexS(sp))
		}
		nm := 3 + r.Intn(6)
		for i := 0; i < nm; i++ {
			doMount(r.Intn(len(nss)), mountPaths[r.Intn(len(mountPaths))])
		}
		genPath := func() (int, string) {
			nsi := r.Intn(len(nss))
			var p string
			switch {
			case len(mounted) > 0 && r.Chance(60):
				m := mounted[r.Intn(len(mounted))]
				if r.Chance(70) {
					nsi = m.ns
				}
				p = m.path
				if r.Chance(15) {
					p = strings.TrimSuffix(p, "/")
				} else {
					p += rests[r.Intn(len(rests))]
				}
				if nsi != m.ns && r.Chance(50) {
					// address the other namespace's mount through the path
					p = strings.TrimPrefix(nss[m.ns].ns.Path+p, nss[nsi].ns.Path)
				}
			default:
				p = mountPaths[r.Intn(len(mountPaths))] + rests[r.Intn(len(rests))]
			}
			return nsi, p
		}
		nops := 30 + r.Intn(40)
		for oi := 0; oi < nops; oi++ {
			switch c := r.Intn(20); {
			case c == 0:
				doMount(r.Intn(len(nss)), mountPaths[r.Intn(len(mountPaths))])
			case c == 1:
				nsi, p := r.Intn(len(nss)), mountPaths[r.Intn(len(mountPaths))]
				if len(mounted) > 0 && r.Chance(70) {
					m := mounted[r.Intn(len(mounted))]
					nsi, p = m.ns, m.path
				}
				ctx := namespace.ContextWithNamespace(bg, nss[nsi].ns)
				res := vh.Catch(func() string {
					if err := rt.Unmount(ctx, p); err != nil {
						return "err:other"
					}
					return "ok"
				})
				out.Op(res, "unmount", vh.HexS(nss[nsi].ns.Path), vh.HexS(p))
			case c == 2:
				nsi, src := r.Intn(len(nss)), mountPaths[r.Intn(len(mountPaths))]
				if len(mounted) > 0 && r.Chance(80) {
					m := mounted[r.Intn(len(mounted))]
					nsi, src = m.ns, m.path
				}
				dst := mountPaths[r.Intn(len(mountPaths))]
				ctx := namespace.ContextWithNamespace(bg, nss[nsi].ns)
				res := vh.Catch(func() string {
					err := rt.Remount(ctx, src, dst, nil)
					switch {
					case err == nil:
						return "ok"
					case strings.Contains(err.Error(), "no mount at"):
						return "err:nomount"
					}
					return "err:other"
				})
				if res == "ok" {
					mounted = append(mounted, mk{nsi, dst})
				}
				out.Op(res, "remount", vh.HexS(nss[nsi].ns.Path), vh.HexS(src), vh.HexS(dst))
			case c == 3:
				nsi, p := genPath()
				ctx := namespace.ContextWithNamespace(bg, nss[nsi].ns)
				v := r.Chance(60)
				res := vh.Catch(func() string {
					var err error
					if v {
						err = rt.Taint(ctx, p)
					} else {
						err = rt.Untaint(ctx, p)
					}
					if err != nil {
						return "err:other"
					}
					return "ok"
				})
				out.Op(res, "taint", vh.HexS(nss[nsi].ns.Path), vh.HexS(p), c12B(v))
			case c < 9:
				nsi, p := genPath()
				ctx := namespace.ContextWithNamespace(bg, nss[nsi].ns)
				res := vh.Catch(func() string {
					m := rt.MatchingMount(ctx, p)
					me := rt.MatchingMountEntry(ctx, p)
					st := rt.MatchingStorageByAPIPath(ctx, p)
					sp2, ok2 := rt.MatchingStoragePrefixByAPIPath(ctx, p)
					ids, sts := "nil", "nil"
					if me != nil {
						ids = strings.TrimPrefix(me.UUID, "u")
					}
					viol := ""
					if st != nil {
						sts = vh.HexS(st.(barrier.View).Prefix())
						if !ok2 || sp2 != st.(barrier.View).Prefix() {
							viol = "!VIOL:MatchingStoragePrefixByAPIPath disagrees with MatchingStorageByAPIPath"
						}
					} else if ok2 {
						viol = "!VIOL:MatchingStoragePrefixByAPIPath found a mount where MatchingStorageByAPIPath found none"
					}
					if (me == nil) != (st == nil) || (me == nil && m != "") { // (a remount to "" leaves the key "": MatchingMount then returns "" for a match)
						viol = "!VIOL:look-ups disagree on whether a mount matches"
					}
					return vh.HexS(m) + "|" + ids + "|" + sts + viol
				})
				out.Op(res, "lookup", vh.HexS(nss[nsi].ns.Path), vh.HexS(p))
			default:
				nsi, p := genPath()
				nsv := nss[nsi].ns
				nst := r.Chance(5)
				if nst {
					cp := *nsv
					cp.Tainted = true
					nsv = &cp
				}
				ctx := namespace.ContextWithNamespace(bg, nsv)
				op, opn := logical.ReadOperation, "read"
				switch r.Intn(12) {
				case 0:
					op, opn = logical.RevokeOperation, "revoke"
				case 1:
					op, opn = logical.RollbackOperation, "rollback"
				}
				key := keys[r.Intn(len(keys))]
				// token entry
				teS := "nil"
				var te *logical.TokenEntry
				token := "tok" + strconv.Itoa(r.Intn(3))
				prefixed := false
				if r.Chance(85) {
					rootNs := r.Chance(50)
					service := r.Chance(85)
					prefixed = r.Chance(50)
					cub := []string{"cub1", "cub2", "", "../cub1"}[r.Intn(4)]
					te = &logical.TokenEntry{Type: logical.TokenTypeBatch, NamespaceID: "idn1", CubbyholeID: cub}
					if rootNs {
						te.NamespaceID = namespace.RootNamespaceID
					}
					if service {
						te.Type = logical.TokenTypeService
					}
					teS = c12B(rootNs) + ":" + c12B(service) + ":" + c12B(prefixed) + ":" + vh.HexS(cub)
				}
				if prefixed {
					token = []string{"s.", "hvs."}[r.Intn(2)] + token
				}
				*obs = c12Obs{}
				sop := []string{"put", "put", "get", "delete", "list", "listpage"}[r.Intn(6)]
				sub := ""
				if r.Chance(30) {
					sub = []string{"s/", "t", "../", "a/b/"}[r.Intn(4)]
				}
				req := &logical.Request{Operation: op, Path: p, ClientToken: token, Data: map[string]any{"key": key, "sop": sop, "sub": sub}}
				req.SetTokenEntry(te)
				res := vh.Catch(func() string {
					resp, err := rt.Route(ctx, req)
					switch {
					case errors.Is(err, logical.ErrUnsupportedPath):
						if obs.called {
							return "unsupported!VIOL:backend called although the route was refused"
						}
						return "unsupported"
					case err != nil:
						if obs.called {
							return "err:internal!VIOL:backend called although routing failed"
						}
						return "err:internal"
					case resp != nil && resp.IsError():
						if obs.called {
							return "err:resp!VIOL:backend called although routing failed"
						}
						return "err:resp"
					case !obs.called:
						return "nocall"
					}
					var tk string
					switch {
					case obs.tok == token:
						tk = "raw"
					case obs.tok == salt.SaltID(obs.uuid, token, salt.SHA1Hash):
						tk = "salted"
					case te != nil && te.CubbyholeID != "" && obs.tok == te.CubbyholeID:
						tk = "cubby:" + vh.HexS(obs.tok)
					case obs.tok == salt.SaltID(obs.uuid, tokSalt.SaltID(token), salt.SHA1Hash):
						tk = "dsalt"
					default:
						tk = "other:" + vh.HexS(obs.tok)
					}
					s := "ok|" + vh.HexS(obs.mp) + "|" + vh.HexS(obs.path) + "|" + strconv.Itoa(obs.id) + "|" + vh.HexS(obs.storage) + "|" + tk + "|" + obs.touch
					if req.Storage != nil || req.ClientToken != token {
						s += "!VIOL:request not restored after routing"
					}
					return s
				})
				out.Op(res, "route", vh.HexS(nss[nsi].ns.Path), c12B(nst), vh.HexS(p), opn, vh.HexS(key), teS, sop, vh.HexS(sub))
			}
		}
		_ = mountedKeys
	}
}

func c12B(b bool) string {
	if b {
		return "1"
	}
	return "0"
}
