//go:build verif

package kv

// Correspondence harness for C14 (versioned KV = linearizable versioned register with exact check-and-set).
// White-box: overlaid into internal/builtin/logical/kv at check time; never written into /repo.
// Three streams, one op language (lean/Driver/KV2.lean, driver stream "kv2"):
//   TestVerifC14Seq    sequential histories over 1-3 paths, response compared op by op with the model
//   TestVerifC14Fault  every single storage-operation fault inside a write/patch; predicate failed_write_no_change
//   TestVerifC14Conc   writers presenting the same cas + readers under a gated storage and a seeded scheduler;
//                      predicate cas_one_winner + linearizability w.r.t. the sequential model
// The versioned backend is driven through Backend.HandleRequest on an in-memory storage, transactional
// (inmem.NewInmem) and non-transactional (disable_transactions), wrapped by a counting/faulting/gating
// logical.Storage.

import (
	"context"
	"encoding/json"
	"errors"
	"fmt"
	"sort"
	"strconv"
	"strings"
	"sync"
	"testing"
	"time"

	log "github.com/hashicorp/go-hclog"
	"github.com/openbao/openbao/sdk/v2/logical"
	"github.com/openbao/openbao/sdk/v2/physical/inmem"
	"github.com/openbao/openbao/v2/internal/zzverif/vh"
)

// ------------------------------------------------------------------------------------------------
// storage wrapper: counts storage operations, fails the k-th once, parks goroutines at a gate

var errC14Fault = errors.New("verif-c14-injected-storage-fault")

type c14ctl struct {
	mu     sync.Mutex
	armed  bool
	n      int
	failAt int
	fired  bool
	oplog  []string
	gate   *c14gate
}

func (c *c14ctl) arm(failAt int) {
	c.mu.Lock()
	c.armed, c.n, c.failAt, c.fired, c.oplog = true, 0, failAt, false, nil
	c.mu.Unlock()
}

func (c *c14ctl) disarm() (n int, fired bool, oplog []string) {
	c.mu.Lock()
	defer c.mu.Unlock()
	c.armed = false
	return c.n, c.fired, c.oplog
}

func (c *c14ctl) before(tid int, op string) error {
	if g := c.gate; g != nil && tid > 0 {
		g.park(tid, op)
	}
	c.mu.Lock()
	defer c.mu.Unlock()
	if !c.armed {
		return nil
	}
	i := c.n
	c.n++
	c.oplog = append(c.oplog, op)
	if i == c.failAt && !c.fired {
		c.fired = true
		return errC14Fault
	}
	return nil
}

type c14store struct {
	inner logical.Storage
	c     *c14ctl
	tid   int
}

func (s *c14store) Get(ctx context.Context, key string) (*logical.StorageEntry, error) {
	if err := s.c.before(s.tid, "get"); err != nil {
		return nil, err
	}
	return s.inner.Get(ctx, key)
}

func (s *c14store) Put(ctx context.Context, e *logical.StorageEntry) error {
	if err := s.c.before(s.tid, "put"); err != nil {
		return err
	}
	return s.inner.Put(ctx, e)
}

func (s *c14store) Delete(ctx context.Context, key string) error {
	if err := s.c.before(s.tid, "delete"); err != nil {
		return err
	}
	return s.inner.Delete(ctx, key)
}

func (s *c14store) List(ctx context.Context, prefix string) ([]string, error) {
	if err := s.c.before(s.tid, "list"); err != nil {
		return nil, err
	}
	return s.inner.List(ctx, prefix)
}

func (s *c14store) ListPage(ctx context.Context, prefix, after string, limit int) ([]string, error) {
	if err := s.c.before(s.tid, "list"); err != nil {
		return nil, err
	}
	return s.inner.ListPage(ctx, prefix, after, limit)
}

// transactional variant: only this type satisfies logical.TransactionalStorage
type c14txstore struct{ c14store }

func (s *c14txstore) BeginTx(ctx context.Context) (logical.Transaction, error) {
	if err := s.c.before(s.tid, "begin"); err != nil {
		return nil, err
	}
	tx, err := s.inner.(logical.TransactionalStorage).BeginTx(ctx)
	if err != nil {
		return nil, err
	}
	return &c14tx{c14store{inner: tx, c: s.c, tid: s.tid}, tx}, nil
}

func (s *c14txstore) BeginReadOnlyTx(ctx context.Context) (logical.Transaction, error) {
	if err := s.c.before(s.tid, "beginro"); err != nil {
		return nil, err
	}
	tx, err := s.inner.(logical.TransactionalStorage).BeginReadOnlyTx(ctx)
	if err != nil {
		return nil, err
	}
	return &c14tx{c14store{inner: tx, c: s.c, tid: s.tid}, tx}, nil
}

type c14tx struct {
	c14store
	tx logical.Transaction
}

func (t *c14tx) Commit(ctx context.Context) error {
	if err := t.c.before(t.tid, "commit"); err != nil {
		return err
	}
	return t.tx.Commit(ctx)
}

func (t *c14tx) Rollback(ctx context.Context) error { return t.tx.Rollback(ctx) }

var (
	_ logical.Storage              = (*c14store)(nil)
	_ logical.TransactionalStorage = (*c14txstore)(nil)
	_ logical.Transaction          = (*c14tx)(nil)
)

// ------------------------------------------------------------------------------------------------
// environment: one fresh backend + storage per case

type c14env struct {
	b    *versionedKVBackend
	base logical.Storage
	c    *c14ctl
	tx   bool
}

func (e *c14env) storage(tid int) logical.Storage {
	if e.tx {
		return &c14txstore{c14store{inner: e.base, c: e.c, tid: tid}}
	}
	return &c14store{inner: e.base, c: e.c, tid: tid}
}

// c14coldEnv: leave the backend's caches (config, key encryptor, salt) cold (cold-start stream only)
var c14coldEnv = false

func newC14Env(t *testing.T, tx bool) *c14env {
	conf := map[string]string{}
	if !tx {
		conf["disable_transactions"] = "true"
	}
	phys, err := inmem.NewInmem(conf, log.NewNullLogger())
	if err != nil {
		t.Fatalf("inmem: %v", err)
	}
	base := logical.NewLogicalStorage(phys)
	if _, ok := base.(logical.TransactionalStorage); ok != tx {
		t.Fatalf("storage transactional=%v, wanted %v", ok, tx)
	}
	bc := &logical.BackendConfig{
		Logger:      log.NewNullLogger(),
		System:      &logical.StaticSystemView{},
		StorageView: base,
		BackendUUID: "c14",
	}
	lb, err := VersionedKVFactory(context.Background(), bc)
	if err != nil {
		t.Fatalf("factory: %v", err)
	}
	b := lb.(*versionedKVBackend)
	deadline := time.Now().Add(20 * time.Second)
	for b.upgrading.Load() {
		if time.Now().After(deadline) {
			t.Fatal("upgrade did not finish")
		}
		time.Sleep(200 * time.Microsecond)
	}
	e := &c14env{b: b, base: base, c: &c14ctl{failAt: -1}, tx: tx}
	if c14coldEnv {
		return e
	}
	// warm the caches (config, key encryptor, salt) so that the storage-operation sequence of a request is the
	// handler's own; the warm-up key is removed again.
	for _, o := range []c14op{
		{kind: "confread"},
		{kind: "write", path: "zzwarm", cas: "-", data: "a=warm"},
		{kind: "read", path: "zzwarm"},
		{kind: "metadelete", path: "zzwarm"},
	} {
		if r := e.exec(0, o); strings.HasPrefix(r, "err") || r == "panic" {
			t.Fatalf("warm-up %s: %s", o.kind, r)
		}
	}
	return e
}

func (e *c14env) close() { e.b.Cleanup(context.Background()) }

// ------------------------------------------------------------------------------------------------
// the op language

type c14op struct {
	kind   string // write patch read delete deletev undelete destroy metawrite metaread metadelete confwrite confread
	path   string
	cas    string // "-" absent, decimal, "bad"
	data   string // k=v,k=v ("~" = JSON null, patch only); "-" = empty object
	ver    int64
	vers   string // comma separated ints, "-" = empty list
	max    string // "-" or decimal
	casreq string // "-", "0", "1"
	dva    string // "-", "0", "F" (far future), "N" (negative: config only = disabled)
	cm     string // custom_metadata: "" or "-" absent, "{}" empty map, k=v,... ("~" = null, metadata patch only)
	mcas   string // metadata_cas: "" or "-" absent, decimal
}

func c14dash(s string) string {
	if s == "" {
		return "-"
	}
	return s
}

func (o c14op) fields() []string {
	switch o.kind {
	case "write", "patch":
		return []string{o.kind, o.path, o.cas, o.data}
	case "read":
		return []string{o.kind, o.path, vh.I(o.ver)}
	case "delete", "metaread", "metadelete":
		return []string{o.kind, o.path}
	case "deletev", "undelete", "destroy":
		return []string{o.kind, o.path, o.vers}
	case "metawrite", "metapatch":
		return []string{o.kind, o.path, o.max, o.casreq, o.dva, c14dash(o.cm), c14dash(o.mcas)}
	case "confwrite":
		return []string{o.kind, o.max, o.casreq, o.dva}
	case "confread":
		return []string{o.kind}
	}
	panic("kind " + o.kind)
}

func c14data(s string) map[string]any {
	m := map[string]any{}
	if s == "-" {
		return m
	}
	for _, kv := range strings.Split(s, ",") {
		p := strings.SplitN(kv, "=", 2)
		if p[1] == "~" {
			m[p[0]] = nil
		} else {
			m[p[0]] = p[1]
		}
	}
	return m
}

func c14encData(v any) string {
	m, ok := v.(map[string]any)
	if !ok {
		return "?" + fmt.Sprintf("%T", v)
	}
	if len(m) == 0 {
		return "-"
	}
	ks := make([]string, 0, len(m))
	for k := range m {
		ks = append(ks, k)
	}
	sort.Strings(ks)
	out := make([]string, len(ks))
	for i, k := range ks {
		s, ok := m[k].(string)
		if !ok {
			s = "?" + fmt.Sprintf("%T", m[k])
		}
		out[i] = k + "=" + s
	}
	return strings.Join(out, ",")
}

const c14far = "87600h" // ten years: "far future" delete_version_after

func (o c14op) request() (logical.Operation, string, map[string]any) {
	d := map[string]any{}
	switch o.kind {
	case "write", "patch":
		d["data"] = c14data(o.data)
		switch o.cas {
		case "-":
		case "bad":
			d["options"] = map[string]any{"cas": "notanumber"}
		default:
			n, _ := strconv.ParseInt(o.cas, 10, 64)
			d["options"] = map[string]any{"cas": n}
		}
		if o.kind == "patch" {
			return logical.PatchOperation, "data/" + o.path, d
		}
		return logical.UpdateOperation, "data/" + o.path, d
	case "read":
		d["version"] = o.ver
		return logical.ReadOperation, "data/" + o.path, d
	case "delete":
		return logical.DeleteOperation, "data/" + o.path, d
	case "deletev", "undelete", "destroy":
		if o.vers == "-" {
			d["versions"] = []int{}
		} else {
			d["versions"] = o.vers
		}
		pre := map[string]string{"deletev": "delete/", "undelete": "undelete/", "destroy": "destroy/"}[o.kind]
		return logical.UpdateOperation, pre + o.path, d
	case "metawrite", "confwrite", "metapatch":
		if cm := c14dash(o.cm); cm == "{}" {
			d["custom_metadata"] = map[string]any{}
		} else if cm != "-" {
			d["custom_metadata"] = c14data(cm)
		}
		if mc := c14dash(o.mcas); mc != "-" {
			n, _ := strconv.ParseInt(mc, 10, 64)
			d["metadata_cas"] = n
		}
		if o.max != "-" {
			n, _ := strconv.ParseInt(o.max, 10, 64)
			d["max_versions"] = n
		}
		if o.casreq != "-" {
			d["cas_required"] = o.casreq == "1"
		}
		switch o.dva {
		case "0":
			d["delete_version_after"] = "0s"
		case "F":
			d["delete_version_after"] = c14far
		case "N":
			d["delete_version_after"] = "-5s"
		}
		if o.kind == "confwrite" {
			return logical.UpdateOperation, "config", d
		}
		if o.kind == "metapatch" {
			return logical.PatchOperation, "metadata/" + o.path, d
		}
		return logical.UpdateOperation, "metadata/" + o.path, d
	case "metaread":
		return logical.ReadOperation, "metadata/" + o.path, d
	case "metadelete":
		return logical.DeleteOperation, "metadata/" + o.path, d
	case "confread":
		return logical.ReadOperation, "config", d
	}
	panic("kind " + o.kind)
}

func c14errClass(s string) string {
	switch {
	case strings.Contains(s, errC14Fault.Error()):
		return "err:storage"
	case strings.Contains(s, "metadata check-and-set parameter does not match"):
		return "err:mcas-mismatch"
	case strings.Contains(s, "metadata_cas must be 0"):
		return "err:mcas-notzero"
	case strings.Contains(s, "metadata check-and-set parameter required"):
		return "err:mcas-required"
	case strings.Contains(s, "custom_metadata validation failed"):
		return "err:custom-metadata"
	case strings.Contains(s, "did not match the current version"):
		return "err:cas-mismatch"
	case strings.Contains(s, "check-and-set parameter required"):
		return "err:cas-required"
	case strings.Contains(s, "error parsing check-and-set"):
		return "err:cas-parse"
	case strings.Contains(s, "no data provided"):
		return "err:no-data"
	case strings.Contains(strings.ToLower(s), "no version number provided"):
		return "err:no-versions"
	case strings.Contains(s, "could not find version data"):
		return "err:missing-blob"
	case strings.Contains(s, "invalid secret path"):
		return "err:badpath"
	case strings.Contains(s, "Field validation failed"):
		return "err:field"
	case strings.Contains(s, "read-only") || strings.Contains(s, "read only"):
		return "err:readonly"
	case strings.Contains(s, "transaction"):
		return "err:txn"
	}
	return "err:other"
}

func c14num(v any) string {
	switch x := v.(type) {
	case uint64:
		return vh.U(x)
	case uint32:
		return vh.U(uint64(x))
	case int:
		return vh.I(int64(x))
	case int64:
		return vh.I(x)
	case float64:
		return vh.I(int64(x))
	case json.Number:
		return x.String()
	}
	return "?" + fmt.Sprintf("%T", v)
}

// deletion_time class: "-" none, "D" in the past (deleted), "F" far in the future
func c14del(v any) string {
	s, ok := v.(string)
	if !ok {
		return "?"
	}
	if s == "" {
		return "-"
	}
	tm, err := time.Parse(time.RFC3339Nano, s)
	if err != nil {
		return "?"
	}
	now := time.Now()
	switch {
	case !tm.After(now):
		return "D"
	case tm.After(now.Add(24 * 365 * time.Hour)):
		return "F"
	}
	return "?"
}

func c14bool(v any) string {
	if b, ok := v.(bool); ok {
		if b {
			return "1"
		}
		return "0"
	}
	return "?"
}

func c14dva(v any) string {
	s, _ := v.(string)
	d, err := time.ParseDuration(s)
	switch {
	case err != nil:
		return "?"
	case d == 0:
		return "0"
	case d < 0:
		return "N"
	case d > 24*365*time.Hour:
		return "F"
	}
	return "?"
}

func c14encCM(v any) string {
	switch m := v.(type) {
	case nil:
		return "-"
	case map[string]string:
		if len(m) == 0 {
			return "-"
		}
		ks := make([]string, 0, len(m))
		for k := range m {
			ks = append(ks, k)
		}
		sort.Strings(ks)
		out := make([]string, len(ks))
		for i, k := range ks {
			out[i] = k + "=" + m[k]
		}
		return strings.Join(out, ",")
	case map[string]any:
		return c14encData(m)
	}
	return "?" + fmt.Sprintf("%T", v)
}

func c14verMeta(m map[string]any) string {
	return c14num(m["version"]) + ":" + c14del(m["deletion_time"]) + ":" + c14bool(m["destroyed"])
}

func c14canon(kind string, resp *logical.Response, err error) string {
	if resp != nil && resp.IsError() {
		return c14errClass(resp.Error().Error())
	}
	if err != nil {
		return c14errClass(err.Error())
	}
	if resp == nil {
		return "nil"
	}
	if code, ok := resp.Data[logical.HTTPStatusCode]; ok {
		if c14num(code) != "404" {
			return "status:" + c14num(code)
		}
		body, ok := resp.Data[logical.HTTPRawBody].(string)
		if !ok {
			return "notfound"
		}
		var h struct {
			Data map[string]any `json:"data"`
		}
		if err := json.Unmarshal([]byte(body), &h); err != nil {
			return "notfound:?"
		}
		md := h.Data
		if kind == "read" {
			if h.Data["data"] != nil {
				return "notfound:?data"
			}
			md, _ = h.Data["metadata"].(map[string]any)
		}
		if md == nil {
			return "notfound:?"
		}
		return "gone:" + c14verMeta(md)
	}
	warn := ""
	if len(resp.Warnings) > 0 {
		warn = ":warn"
	}
	switch kind {
	case "write", "patch":
		return "ok:" + c14num(resp.Data["version"]) + ":" + c14del(resp.Data["deletion_time"]) + warn
	case "read":
		md, _ := resp.Data["metadata"].(map[string]any)
		if md == nil {
			return "ok:?"
		}
		return "ok:" + c14num(md["version"]) + ":" + c14encData(resp.Data["data"]) + ":" + c14del(md["deletion_time"]) + ":" + c14bool(md["destroyed"]) + warn
	case "metaread":
		d := resp.Data
		vs, _ := d["versions"].(map[string]any)
		type ent struct {
			n uint64
			s string
		}
		var es []ent
		for k, v := range vs {
			n, _ := strconv.ParseUint(k, 10, 64)
			vm, _ := v.(map[string]any)
			es = append(es, ent{n, k + "/" + c14del(vm["deletion_time"]) + "/" + c14bool(vm["destroyed"])})
		}
		sort.Slice(es, func(i, j int) bool { return es[i].n < es[j].n })
		ss := make([]string, len(es))
		for i := range es {
			ss[i] = es[i].s
		}
		vstr := strings.Join(ss, ",")
		if vstr == "" {
			vstr = "-"
		}
		return "meta:cur=" + c14num(d["current_version"]) + ":old=" + c14num(d["oldest_version"]) + ":max=" + c14num(d["max_versions"]) +
			":casreq=" + c14bool(d["cas_required"]) + ":dva=" + c14dva(d["delete_version_after"]) + ":mv=" + c14num(d["current_metadata_version"]) +
			":" + vstr + ":cm=" + c14encCM(d["custom_metadata"]) + warn
	case "confread":
		d := resp.Data
		return "conf:max=" + c14num(d["max_versions"]) + ":casreq=" + c14bool(d["cas_required"]) + ":dva=" + c14dva(d["delete_version_after"]) + warn
	}
	if warn != "" {
		return "warn"
	}
	return "resp"
}

func (e *c14env) exec(tid int, o c14op) (res string) {
	defer func() {
		if r := recover(); r != nil {
			res = "panic"
		}
	}()
	op, path, data := o.request()
	req := &logical.Request{Operation: op, Path: path, Storage: e.storage(tid), Data: data}
	resp, err := e.b.HandleRequest(context.Background(), req)
	return c14canon(o.kind, resp, err)
}

// every observation the API offers about one path: the metadata and a read of every version number up to
// current+1 (and version 0 = current)
func (e *c14env) observe(path string) []string {
	m := e.exec(0, c14op{kind: "metaread", path: path})
	out := []string{m}
	cur := int64(0)
	if strings.HasPrefix(m, "meta:cur=") {
		s := strings.TrimPrefix(m, "meta:cur=")
		cur, _ = strconv.ParseInt(s[:strings.Index(s, ":")], 10, 64)
	}
	for v := int64(0); v <= cur+1; v++ {
		out = append(out, e.exec(0, c14op{kind: "read", path: path, ver: v}))
	}
	return out
}

// "reading version v returns exactly the data of the v-th write UNLESS that version was deleted": straight after an
// ACCEPTED delete of named versions, none of them may still be served (judged on the code's own answers: no model)
func (e *c14env) deletedStillServed(o c14op, res string) string {
	if o.kind != "deletev" || o.vers == "-" || c14isErr(res) || (res != "resp" && res != "nil" && res != "warn") {
		return ""
	}
	for _, f := range strings.Split(o.vers, ",") {
		v, err := strconv.ParseInt(f, 10, 64)
		if err != nil || v <= 0 {
			continue
		}
		if r := e.exec(0, c14op{kind: "read", path: o.path, ver: v}); strings.HasPrefix(r, "ok:") {
			return "!VIOL:the delete of versions " + o.vers + " of " + o.path + " was accepted, and version " + f + " is still served afterwards (" + r + ")#deleted-version-still-served"
		}
	}
	return ""
}

// emit the observation ops as ordinary protocol lines (so that the model is compared on them, too)
func (e *c14env) emitObserve(out *vh.Out, path string) string {
	o := c14op{kind: "metaread", path: path}
	m := e.exec(0, o)
	out.Op(m, o.fields()...)
	all := []string{m}
	cur := int64(0)
	if strings.HasPrefix(m, "meta:cur=") {
		s := strings.TrimPrefix(m, "meta:cur=")
		cur, _ = strconv.ParseInt(s[:strings.Index(s, ":")], 10, 64)
	}
	for v := int64(0); v <= cur+1; v++ {
		o := c14op{kind: "read", path: path, ver: v}
		r := e.exec(0, o)
		out.Op(r, o.fields()...)
		all = append(all, r)
	}
	return strings.Join(all, "|")
}

// ------------------------------------------------------------------------------------------------
// generator

type c14gen struct {
	rng   *vh.Rand
	paths []string
	cur   map[string]int64 // shadow of the current version, only used to aim cas values and version numbers
	mv    map[string]int64 // shadow of the current metadata version (aims metadata_cas)
	n     int
	small bool // profile: small max_versions, so that pruning happens early
}

func (g *c14gen) val() string { g.n++; return "w" + strconv.Itoa(g.n) }

func (g *c14gen) dataField(patch bool) string {
	keys := []string{"a", "b", "c"}
	var parts []string
	for _, k := range keys {
		if g.rng.Chance(55) {
			if patch && g.rng.Chance(30) {
				parts = append(parts, k+"=~")
			} else {
				parts = append(parts, k+"="+g.val())
			}
		}
	}
	if len(parts) == 0 {
		if g.rng.Chance(50) {
			return "-"
		}
		return "a=" + g.val()
	}
	return strings.Join(parts, ",")
}

func (g *c14gen) casField(path string) string {
	c := g.cur[path]
	switch r := g.rng.Intn(100); {
	case r < 38:
		return "-"
	case r < 74:
		return vh.I(c)
	case r < 80:
		return vh.I(c + 1)
	case r < 86:
		return vh.I(c - 1)
	case r < 91:
		return "0"
	case r < 94:
		return vh.I(-1 - int64(g.rng.Intn(3)))
	case r < 96:
		return "4294967296"
	case r < 98:
		return "bad"
	}
	return vh.I(int64(g.rng.Intn(6)))
}

func (g *c14gen) versField(path string) string {
	c := g.cur[path]
	if g.rng.Chance(4) {
		return "-"
	}
	n := 1 + g.rng.Intn(3)
	var vs []string
	for i := 0; i < n; i++ {
		var v int64
		switch r := g.rng.Intn(100); {
		case r < 35:
			v = c
		case r < 80:
			v = 1 + int64(g.rng.Intn(int(c)+2))
		case r < 90:
			v = c - int64(g.rng.Intn(4))
		case r < 95:
			v = 0
		default:
			v = -1
		}
		vs = append(vs, vh.I(v))
	}
	return strings.Join(vs, ",")
}

func (g *c14gen) maxField() string {
	if g.small {
		return g.rng.Pick([]string{"-", "0", "1", "1", "2", "2", "3", "4"})
	}
	return g.rng.Pick([]string{"-", "-", "0", "1", "2", "3", "5", "12", "-1"})
}

func (g *c14gen) cmField(patch bool) string {
	if g.rng.Chance(55) {
		return "-"
	}
	if g.rng.Chance(10) {
		return "{}"
	}
	var parts []string
	for _, k := range []string{"x", "y"} {
		if g.rng.Chance(60) {
			if patch && g.rng.Chance(35) {
				parts = append(parts, k+"=~")
			} else {
				parts = append(parts, k+"="+g.val())
			}
		}
	}
	if len(parts) == 0 {
		return "x=" + g.val()
	}
	return strings.Join(parts, ",")
}

func (g *c14gen) mcasField(path string) string {
	switch r := g.rng.Intn(100); {
	case r < 65:
		return "-"
	case r < 85:
		return vh.I(g.mv[path])
	case r < 92:
		return vh.I(g.mv[path] + 1)
	case r < 96:
		return "0"
	}
	return vh.I(int64(g.rng.Intn(4)))
}

// c14alias: a name that is not in cleaned form but cleans to secret name p ("p/", "/p", doubled slash)
func c14alias(rng *vh.Rand, p string) string {
	switch rng.Intn(4) {
	case 0:
		return p + "/"
	case 1:
		return "/" + p
	case 2:
		if i := strings.Index(p, "/"); i > 0 {
			return p[:i] + "/" + p[i:]
		}
		return p + "//"
	}
	return "//" + p
}

func (g *c14gen) next() c14op {
	p := g.rng.Pick(g.paths)
	if g.rng.Chance(5) {
		// a request under an alias of the secret's name: refused, the secret untouched
		p = c14alias(g.rng, p)
	}
	switch r := g.rng.Intn(100); {
	case r < 30:
		return c14op{kind: "write", path: p, cas: g.casField(p), data: g.dataField(false)}
	case r < 40:
		return c14op{kind: "patch", path: p, cas: g.casField(p), data: g.dataField(true)}
	case r < 54:
		v := int64(0)
		if g.rng.Chance(70) {
			v = int64(g.rng.Intn(int(g.cur[p]) + 3))
		}
		return c14op{kind: "read", path: p, ver: v}
	case r < 59:
		return c14op{kind: "delete", path: p}
	case r < 65:
		return c14op{kind: "deletev", path: p, vers: g.versField(p)}
	case r < 71:
		return c14op{kind: "undelete", path: p, vers: g.versField(p)}
	case r < 77:
		return c14op{kind: "destroy", path: p, vers: g.versField(p)}
	case r < 81:
		return c14op{kind: "metawrite", path: p, max: g.maxField(), casreq: g.rng.Pick([]string{"-", "-", "0", "1"}),
			dva: g.rng.Pick([]string{"-", "-", "-", "0", "F"}), cm: g.cmField(false), mcas: g.mcasField(p)}
	case r < 84:
		mx := g.maxField()
		if mx == "-1" {
			mx = "7" // a negative max_versions cannot be merged into the uint32 field: the patch errors out (not modelled)
		}
		return c14op{kind: "metapatch", path: p, max: mx, casreq: g.rng.Pick([]string{"-", "-", "0", "1"}),
			dva: g.rng.Pick([]string{"-", "-", "-", "0", "F"}), cm: g.cmField(true), mcas: g.mcasField(p)}
	case r < 92:
		return c14op{kind: "metaread", path: p}
	case r < 94:
		return c14op{kind: "metadelete", path: p}
	case r < 98:
		return c14op{kind: "confwrite", max: g.maxField(), casreq: g.rng.Pick([]string{"-", "-", "0", "1"}),
			dva: g.rng.Pick([]string{"-", "-", "-", "0", "F", "N"})}
	}
	return c14op{kind: "confread"}
}

// keep the shadow current version in step with the implementation's answers
func (g *c14gen) note(o c14op, res string) {
	switch o.kind {
	case "write", "patch":
		if strings.HasPrefix(res, "ok:") {
			f := strings.Split(res, ":")
			g.cur[o.path], _ = strconv.ParseInt(f[1], 10, 64)
		}
	case "metadelete":
		if res == "nil" {
			g.cur[o.path] = 0
			g.mv[o.path] = 0
		}
	case "metaread":
		if i := strings.Index(res, ":mv="); i >= 0 {
			t := res[i+4:]
			g.mv[o.path], _ = strconv.ParseInt(t[:strings.Index(t, ":")], 10, 64)
		}
	}
}

func c14mode(tx bool) string {
	if tx {
		return "tx"
	}
	return "notx"
}

// ------------------------------------------------------------------------------------------------
// stream 1: sequential histories

func TestVerifC14Seq(t *testing.T) {
	out := vh.Open()
	defer out.Close()
	root := vh.NewRand(vh.Seed())
	nCases := vh.EnvInt("VERIF_C14_SEQ_CASES", 2000)
	if vh.Thorough() {
		nCases = vh.EnvInt("VERIF_C14_SEQ_CASES", 8000)
	}
	for ci := 0; ci < nCases; ci++ {
		rng := root.Fork(uint64(ci))
		tx := ci%2 == 0
		e := newC14Env(t, tx)
		out.Reset()
		out.Op("ok", "mode", c14mode(tx))
		g := &c14gen{rng: rng, cur: map[string]int64{}, mv: map[string]int64{}, small: rng.Chance(60)}
		g.paths = []string{"p0", "p1", "d/p2"}[:1+rng.Intn(3)]
		nOps := 15 + rng.Intn(60)
		for i := 0; i < nOps; i++ {
			o := g.next()
			switch o.kind {
			case "deletev", "undelete", "destroy", "delete", "metawrite":
				// bracket some of the flag-changing requests with metadata reads (ops_local is evaluated on
				// consecutive metadata reads)
				if rng.Chance(40) {
					m := c14op{kind: "metaread", path: o.path}
					out.Op(e.exec(0, m), m.fields()...)
				}
			}
			res := e.exec(0, o)
			g.note(o, res)
			res += e.deletedStillServed(o, res)
			out.Op(res, o.fields()...)
		}
		for _, p := range g.paths {
			e.emitObserve(out, p)
		}
		e.close()
	}
}

// ------------------------------------------------------------------------------------------------
// stream 2: every single storage fault inside a write/patch

func c14isErr(res string) bool { return strings.HasPrefix(res, "err") || res == "panic" }

type c14scenario struct {
	tx     bool
	paths  []string
	prefix []c14op
	target c14op
}

func c14faultScenario(t *testing.T, rng *vh.Rand, idx int) c14scenario {
	sc := c14scenario{tx: idx%2 == 0}
	g := &c14gen{rng: rng, cur: map[string]int64{}, mv: map[string]int64{}, small: true}
	switch idx % 4 {
	case 0, 1:
		// engineered: a window that has to move by several versions, optionally with a destroyed version (a gap
		// that stops the clean-up loop) in it
		sc.paths = []string{"p0"}
		n := 2 + rng.Intn(6)
		for i := 0; i < n; i++ {
			sc.prefix = append(sc.prefix, c14op{kind: "write", path: "p0", cas: "-", data: "a=" + g.val()})
		}
		if rng.Chance(50) {
			sc.prefix = append(sc.prefix, c14op{kind: "destroy", path: "p0", vers: vh.I(int64(1 + rng.Intn(n)))})
		}
		if rng.Chance(30) {
			sc.prefix = append(sc.prefix, c14op{kind: "delete", path: "p0"})
		}
		if rng.Chance(80) {
			sc.prefix = append(sc.prefix, c14op{kind: "metawrite", path: "p0", max: vh.I(int64(1 + rng.Intn(3))), casreq: "-", dva: "-"})
		}
		cas := "-"
		if rng.Chance(50) {
			cas = vh.I(int64(n))
		}
		kind := "write"
		if rng.Chance(35) {
			kind = "patch"
		}
		sc.target = c14op{kind: kind, path: "p0", cas: cas, data: g.dataField(kind == "patch")}
	default:
		sc.paths = []string{"p0", "p1"}[:1+rng.Intn(2)]
		g.paths = sc.paths
		n := 5 + rng.Intn(30)
		// the prefix is generated against a scratch backend so that the generator can aim its cas values
		e := newC14Env(t, sc.tx)
		for i := 0; i < n; i++ {
			o := g.next()
			g.note(o, e.exec(0, o))
			sc.prefix = append(sc.prefix, o)
		}
		e.close()
		p := rng.Pick(sc.paths)
		kind := "write"
		if rng.Chance(40) {
			kind = "patch"
		}
		sc.target = c14op{kind: kind, path: p, cas: g.casField(p), data: g.dataField(kind == "patch")}
	}
	return sc
}

func TestVerifC14Fault(t *testing.T) {
	out := vh.Open()
	defer out.Close()
	root := vh.NewRand(vh.Seed() ^ 0xfa17)
	nSc := vh.EnvInt("VERIF_C14_FAULT_SCENARIOS", 300)
	if vh.Thorough() {
		nSc = vh.EnvInt("VERIF_C14_FAULT_SCENARIOS", 2500)
	}
	maxOps := 0
	for si := 0; si < nSc; si++ {
		sc := c14faultScenario(t, root.Fork(uint64(si)), si)
		cleanAfter := ""
		nOps := -1
		// k = -1: clean run (counts the storage operations of the target); then every fault position 0..nOps
		// (position nOps is past the end: the fault must not fire)
		for k := -1; nOps < 0 || k <= nOps; k++ {
			e := newC14Env(t, sc.tx)
			out.Reset()
			out.Op("ok", "mode", c14mode(sc.tx))
			for _, o := range sc.prefix {
				out.Op(e.exec(0, o), o.fields()...)
			}
			before := ""
			for _, p := range sc.paths {
				before += e.emitObserve(out, p) + "||"
			}
			kk := k
			if k < 0 {
				kk = 1000000
			}
			e.c.arm(kk)
			res := e.exec(0, sc.target)
			n, fired, oplog := e.c.disarm()
			if k < 0 {
				nOps = n
				if n > maxOps {
					maxOps = n
					t.Logf("scenario %d: %s %s: %d storage operations: %v", si, c14mode(sc.tx), sc.target.kind, n, oplog)
				}
			}
			after := ""
			fl := ":notfired"
			if fired {
				fl = ":fired"
			}
			// the observations are taken before the target's line is written so that the predicate's verdict can
			// be attached to it; they are emitted right after it
			type ob struct {
				f []string
				r string
			}
			var obs []ob
			for _, p := range sc.paths {
				lines := e.observe(p)
				after += strings.Join(lines, "|") + "||"
				obs = append(obs, ob{[]string{"metaread", p}, lines[0]})
				for v, r := range lines[1:] {
					obs = append(obs, ob{[]string{"read", p, vh.I(int64(v))}, r})
				}
			}
			viol := ""
			switch {
			case c14isErr(res) && after != before:
				viol = "!VIOL:a failed " + sc.target.kind + " changed what later reads return#failed-write-changed-state"
			case k < 0:
				cleanAfter = after
			case !c14isErr(res) && after != cleanAfter:
				viol = "!VIOL:a " + sc.target.kind + " that reported success under a storage fault left a state different from the fault-free one#faulted-success-differs"
			case fired != (k >= 0 && k < nOps):
				viol = "!VIOL:harness: fault position bookkeeping#harness"
			}
			f := sc.target.fields()
			f[0] += "f"
			out.Op(res+fl+viol, append(f, vh.I(int64(kk)))...)
			for _, o := range obs {
				out.Op(o.r, o.f...)
			}
			// a following fault-free write must behave as if the failed one never happened
			nx := c14op{kind: "write", path: sc.target.path, cas: "-", data: "z=next"}
			out.Op(e.exec(0, nx), nx.fields()...)
			for _, p := range sc.paths {
				e.emitObserve(out, p)
			}
			e.close()
		}
	}
}

// ------------------------------------------------------------------------------------------------
// stream 3: concurrent writers presenting the same cas, readers, gated storage, seeded scheduler

type c14gate struct {
	mu     sync.Mutex
	parked map[int]chan struct{}
	op     map[int]string
	ev     chan struct{}
}

func newC14Gate() *c14gate {
	return &c14gate{parked: map[int]chan struct{}{}, op: map[int]string{}, ev: make(chan struct{}, 4096)}
}

func (g *c14gate) signal() {
	select {
	case g.ev <- struct{}{}:
	default:
	}
}

func (g *c14gate) park(tid int, op string) {
	ch := make(chan struct{})
	g.mu.Lock()
	g.parked[tid] = ch
	g.op[tid] = op
	g.mu.Unlock()
	g.signal()
	<-ch
}

func (g *c14gate) isParked(tid int) bool {
	g.mu.Lock()
	defer g.mu.Unlock()
	_, ok := g.parked[tid]
	return ok
}

func (g *c14gate) release(tid int) string {
	g.mu.Lock()
	ch := g.parked[tid]
	op := g.op[tid]
	delete(g.parked, tid)
	g.mu.Unlock()
	close(ch)
	return op
}

const c14quiet = 30 * time.Millisecond

// runSchedule runs one request per thread under a seeded scheduler.  Scheduler actions: start a thread, or let a
// parked thread perform its next storage operation.  A started thread that does not reach a gate within the quiet
// period is blocked on the key lock; it shows up at its first gate after the holder has finished.
// c14chooser picks the next scheduler action among `choices` (threads not started yet or parked at a gate);
// performed[i] = storage operations thread i has been allowed to perform so far
type c14chooser func(choices []int, started []bool, performed []int) int

func c14random(rng *vh.Rand) c14chooser {
	return func(choices []int, _ []bool, _ []int) int { return choices[rng.Intn(len(choices))] }
}

// c14directed: thread p performs exactly j storage operations and is then kept parked while thread w runs (to
// completion, unless it blocks on the key lock); afterwards p, then everything else
func c14directed(p, w, j int) c14chooser {
	return func(choices []int, started []bool, performed []int) int {
		has := func(i int) bool {
			for _, c := range choices {
				if c == i {
					return true
				}
			}
			return false
		}
		if has(p) && (!started[p] || performed[p] < j) {
			return p
		}
		if has(w) {
			return w
		}
		if has(p) {
			return p
		}
		return choices[0]
	}
}

func (e *c14env) runSchedule(ops []c14op, choose c14chooser) (res []string, prec []string, sched []string, performed []int, err error) {
	g := newC14Gate()
	e.c.gate = g
	defer func() { e.c.gate = nil }()
	n := len(ops)
	var mu sync.Mutex
	started := make([]bool, n)
	done := make([]bool, n)
	performed = make([]int, n)
	res = make([]string, n)
	isDone := func(i int) bool { mu.Lock(); defer mu.Unlock(); return done[i] }
	waitFor := func(pred func() bool, d time.Duration) bool {
		deadline := time.NewTimer(d)
		defer deadline.Stop()
		for {
			if pred() {
				return true
			}
			select {
			case <-g.ev:
			case <-deadline.C:
				return pred()
			}
		}
	}
	running := func() int {
		c := 0
		for i := 0; i < n; i++ {
			if started[i] && !isDone(i) && !g.isParked(i+1) {
				c++
			}
		}
		return c
	}
	for {
		var choices []int
		all := true
		for i := 0; i < n; i++ {
			if !isDone(i) {
				all = false
			}
			if !started[i] || g.isParked(i+1) {
				choices = append(choices, i)
			}
		}
		if all {
			break
		}
		if len(choices) == 0 {
			anyParked := func() bool {
				for i := 0; i < n; i++ {
					if g.isParked(i + 1) {
						return true
					}
				}
				return countTrue(done, &mu) == n
			}
			if !waitFor(anyParked, 10*time.Second) {
				return nil, nil, sched, performed, errors.New("schedule stuck: " + strings.Join(sched, " "))
			}
			continue
		}
		pick := choose(choices, started, performed)
		if !started[pick] {
			for f := 0; f < n; f++ {
				if isDone(f) {
					prec = append(prec, fmt.Sprintf("%d<%d", f, pick))
				}
			}
			started[pick] = true
			sched = append(sched, fmt.Sprintf("start%d", pick))
			go func(i int) {
				r := e.exec(i+1, ops[i])
				mu.Lock()
				res[i] = r
				done[i] = true
				mu.Unlock()
				g.signal()
			}(pick)
			waitFor(func() bool { return g.isParked(pick+1) || isDone(pick) }, c14quiet)
		} else {
			op := g.release(pick + 1)
			performed[pick]++
			sched = append(sched, fmt.Sprintf("%d:%s", pick, op))
			// a released thread may also block: the transactional data read begins its read-only transaction
			// before it asks for the key lock
			waitFor(func() bool { return g.isParked(pick+1) || isDone(pick) }, c14quiet)
			if isDone(pick) && running() > 0 {
				// the holder of the key lock has finished: blocked threads may reach their first gate now
				waitFor(func() bool { return running() == 0 }, c14quiet)
			}
		}
	}
	return res, prec, sched, performed, nil
}

func countTrue(b []bool, mu *sync.Mutex) int {
	mu.Lock()
	defer mu.Unlock()
	c := 0
	for _, x := range b {
		if x {
			c++
		}
	}
	return c
}

// c14concEmit evaluates the property's predicates directly on the answers of one concurrent phase and on the state it
// left behind, writes the `conc` line (the driver searches a linearization), then follow-up requests and observations
// (compared with the model state reached by the linearization, and seen by the per-case predicate)
func c14concEmit(out *vh.Out, e *c14env, ops []c14op, res []string, prec []string, sched []string, cur0, cas int64, otherBump bool) {
	obsLines := e.observe("p0")
	viol := ""
	var okVers []int64
	casWinners, casWriters := 0, 0
	for i, o := range ops {
		if o.kind == "write" && o.path == "p0" && o.cas != "-" {
			casWriters++
		}
		if (o.kind == "write" || o.kind == "patch") && o.path == "p0" && strings.HasPrefix(res[i], "ok:") {
			v, _ := strconv.ParseInt(strings.Split(res[i], ":")[1], 10, 64)
			okVers = append(okVers, v)
			if o.cas != "-" {
				casWinners++
			}
			// read of version v returns v's data (unless another thread deleted/destroyed it: then it is not "ok")
			if o.kind == "write" && int(v)+1 < len(obsLines) {
				r := obsLines[v+1]
				if strings.HasPrefix(r, "ok:") && !strings.HasPrefix(r, "ok:"+vh.I(v)+":"+o.data+":") {
					viol = "!VIOL:after the concurrent phase version " + vh.I(v) + " reads " + r + ", the write acknowledged with that version stored " + o.data + "#conc-read-wrong-data"
				}
			}
		}
	}
	sort.Slice(okVers, func(i, j int) bool { return okVers[i] < okVers[j] })
	for i, v := range okVers {
		if v != cur0+int64(i)+1 {
			viol = "!VIOL:successful concurrent writes did not receive consecutive version numbers#conc-versions-not-consecutive"
		}
	}
	curAfter := int64(-1)
	if m := obsLines[0]; strings.HasPrefix(m, "meta:cur=") {
		t := strings.TrimPrefix(m, "meta:cur=")
		curAfter, _ = strconv.ParseInt(t[:strings.Index(t, ":")], 10, 64)
	} else if m == "nil" {
		curAfter = 0
	}
	if want := cur0 + int64(len(okVers)); curAfter != want {
		viol = "!VIOL:the current version after the concurrent phase is " + vh.I(curAfter) + ", the acknowledged writes imply " + vh.I(want) + " (an acknowledged version was lost)#conc-acknowledged-version-lost"
	}
	switch {
	case casWinners > 1:
		viol = "!VIOL:more than one writer presenting the same cas value succeeded#cas-two-winners"
	case casWriters > 0 && casWinners == 0 && cas == cur0 && !otherBump:
		viol = "!VIOL:no writer presenting the current version as cas succeeded#cas-no-winner"
	case casWinners == 1 && cas != cur0 && !otherBump:
		viol = "!VIOL:a writer presenting a stale cas value succeeded#cas-stale-winner"
	}
	var enc []string
	for _, o := range ops {
		enc = append(enc, strings.Join(o.fields(), ";"))
	}
	pr := strings.Join(prec, ",")
	if pr == "" {
		pr = "-"
	}
	// last field: the schedule that produced the history (start<i> = thread i started, <i>:<op> = thread i performed
	// that storage operation); informative, ignored by the driver
	out.Op("lin"+viol, "conc", strings.Join(enc, "|"), pr, strings.Join(res, "|"), "p0", strings.Join(obsLines, "|"), strings.Join(sched, " "))
	e.emitObserve(out, "p0")
	e.emitObserve(out, "p1")
	// follow-up: the cas value the writers presented must be refused once one of them has won; the next write gets the
	// next number; every version still reads its own data
	for _, o := range []c14op{
		{kind: "write", path: "p0", cas: vh.I(cas), data: "f=again"},
		{kind: "write", path: "p0", cas: "-", data: "f=next"},
	} {
		out.Op(e.exec(0, o), o.fields()...)
	}
	e.emitObserve(out, "p0")
}

// directed schedules: a metadata PATCH / PUT is parked after each of its storage operations while a complete data
// write (or delete / destroy / metadata PUT) on the same key runs
func TestVerifC14ConcDirected(t *testing.T) {
	out := vh.Open()
	defer out.Close()
	holders := []c14op{
		{kind: "metapatch", path: "p0", max: "5", casreq: "-", dva: "-"},
		{kind: "metapatch", path: "p0", max: "-", casreq: "-", dva: "-", cm: "x=m1", mcas: "0"},
		{kind: "metawrite", path: "p0", max: "-", casreq: "-", dva: "-", cm: "y=m2"},
		// a READ parked after each of its storage operations (key metadata, then the version entry) while a request that
		// removes or replaces what it is about to read completes: the answer must still be one a sequential execution gives
		{kind: "read", path: "p0", ver: 0},
		{kind: "read", path: "p0", ver: 1},
		{kind: "metaread", path: "p0"},
	}
	runners := []c14op{
		{kind: "write", path: "p0", cas: "2", data: "a=w9,t=t0"},
		{kind: "write", path: "p0", cas: "-", data: "a=w9,t=t0"},
		{kind: "delete", path: "p0"},
		{kind: "destroy", path: "p0", vers: "2"},
		{kind: "metawrite", path: "p0", max: "-", casreq: "1", dva: "-", cm: "z=m3"},
		{kind: "patch", path: "p0", cas: "-", data: "b=w8"},
	}
	nRun := 0
	for _, tx := range []bool{true, false} {
		for hi, h := range holders {
			// read holders also run with max_versions = 1 set after the two set-up writes: the runner's write then prunes
			// the versions the reader has just been told about
			narrowN := 1
			if h.kind == "read" {
				narrowN = 2
			}
			_ = hi
			for narrow := 0; narrow < narrowN; narrow++ {
				for _, r := range runners {
					// both roles: the metadata handler parked while the other request runs, and the other request parked
					// (holding the key lock from its first storage operation on) while the metadata handler runs as far as
					// it can — a handler that reads the key metadata before it takes the lock gets its stale copy here
					for _, first := range []int{0, 1} {
						total := -1
						for j := 0; total < 0 || j <= total; j++ {
							e := newC14Env(t, tx)
							out.Reset()
							out.Op("ok", "mode", c14mode(tx))
							setup := []c14op{
								{kind: "write", path: "p0", cas: "-", data: "a=w1"},
								{kind: "write", path: "p0", cas: "-", data: "a=w2"},
							}
							if narrow == 1 {
								setup = append(setup, c14op{kind: "metawrite", path: "p0", max: "1", casreq: "-", dva: "-"})
							}
							for _, o := range setup {
								out.Op(e.exec(0, o), o.fields()...)
							}
							ops := []c14op{h, r}
							res, prec, sched, performed, err := e.runSchedule(ops, c14directed(first, 1-first, j))
							if err != nil {
								t.Fatalf("directed %s/%s first=%d j=%d: %v", h.kind, r.kind, first, j, err)
							}
							total = performed[first]
							if nRun < 2 || (j == 1 && r.kind == "write" && r.cas == "2" && h.max == "5") {
								t.Logf("directed (%s) holder=%s runner=%s first=%d j=%d: %s => %v", c14mode(tx), h.kind, r.kind, first, j, strings.Join(sched, " "), res)
							}
							nRun++
							c14concEmit(out, e, ops, res, prec, sched, 2, 2, r.kind == "patch" || (r.kind == "write" && r.cas == "-"))
							e.close()
						}
					}
				}
			}
		}
	}
	t.Logf("%d directed schedules", nRun)
}

func TestVerifC14Conc(t *testing.T) {
	out := vh.Open()
	defer out.Close()
	root := vh.NewRand(vh.Seed() ^ 0xc0c0)
	nSched := vh.EnvInt("VERIF_C14_CONC_SCHEDULES", 180)
	if vh.Thorough() {
		nSched = vh.EnvInt("VERIF_C14_CONC_SCHEDULES", 3500)
	}
	for si := 0; si < nSched; si++ {
		rng := root.Fork(uint64(si))
		tx := si%2 == 0
		e := newC14Env(t, tx)
		out.Reset()
		out.Op("ok", "mode", c14mode(tx))
		g := &c14gen{rng: rng, cur: map[string]int64{}, mv: map[string]int64{}, small: true}
		// set-up: a few versions on the contended path, sometimes a narrow window or cas_required
		var setup []c14op
		nv := rng.Intn(5)
		for i := 0; i < nv; i++ {
			setup = append(setup, c14op{kind: "write", path: "p0", cas: "-", data: "a=" + g.val()})
		}
		if rng.Chance(40) {
			setup = append(setup, c14op{kind: "metawrite", path: "p0", max: vh.I(int64(1 + rng.Intn(3))), casreq: rng.Pick([]string{"-", "1"}), dva: "-"})
		}
		if nv > 0 && rng.Chance(15) {
			setup = append(setup, c14op{kind: "delete", path: "p0"})
		}
		for _, o := range setup {
			out.Op(e.exec(0, o), o.fields()...)
		}
		cur0 := int64(nv)
		cas := cur0
		if rng.Chance(15) {
			cas = cur0 + int64(1+rng.Intn(2))
		}
		nW := 2 + rng.Intn(2)
		var ops []c14op
		for i := 0; i < nW; i++ {
			ops = append(ops, c14op{kind: "write", path: "p0", cas: vh.I(cas), data: fmt.Sprintf("a=%s,t=t%d", g.val(), i)})
		}
		ops = append(ops, c14op{kind: "read", path: "p0", ver: 0})
		otherBump := false
		if rng.Chance(50) {
			ops = append(ops, c14op{kind: "metaread", path: "p0"})
		}
		if rng.Chance(45) {
			// a metadata PATCH / PUT thread next to the data writers: every handler that rewrites the key metadata
			// must be an atomic section under the key lock
			if rng.Chance(60) {
				ops = append(ops, c14op{kind: "metapatch", path: "p0", max: rng.Pick([]string{"-", "3", "5"}), casreq: "-", dva: "-",
					cm: "x=" + g.val(), mcas: rng.Pick([]string{"-", "-", "0", "1"})})
			} else {
				ops = append(ops, c14op{kind: "metawrite", path: "p0", max: "-", casreq: "-", dva: "-", cm: "y=" + g.val()})
			}
		}
		if rng.Chance(45) {
			switch rng.Intn(7) {
			case 0:
				ops = append(ops, c14op{kind: "delete", path: "p0"})
			case 1:
				ops = append(ops, c14op{kind: "patch", path: "p0", cas: "-", data: "b=" + g.val()})
				otherBump = true
			case 2:
				ops = append(ops, c14op{kind: "destroy", path: "p0", vers: vh.I(cur0 + int64(rng.Intn(2)))})
			case 3:
				ops = append(ops, c14op{kind: "undelete", path: "p0", vers: vh.I(cur0)})
			case 4:
				ops = append(ops, c14op{kind: "metawrite", path: "p0", max: vh.I(int64(1 + rng.Intn(2))), casreq: "-", dva: "-"})
			case 5:
				ops = append(ops, c14op{kind: "write", path: "p1", cas: "0", data: "a=" + g.val()})
			case 6:
				ops = append(ops, c14op{kind: "deletev", path: "p0", vers: vh.I(cur0 + 1)})
			}
		}
		// shuffle thread order
		for j := len(ops) - 1; j > 0; j-- {
			q := rng.Intn(j + 1)
			ops[j], ops[q] = ops[q], ops[j]
		}
		res, prec, sched, _, err := e.runSchedule(ops, c14random(rng))
		if err != nil {
			t.Fatalf("schedule %d: %v", si, err)
		}
		if si < 3 {
			t.Logf("schedule %d (%s): %s => %v", si, c14mode(tx), strings.Join(sched, " "), res)
		}
		c14concEmit(out, e, ops, res, prec, sched, cur0, cas, otherBump)
		e.close()
	}
}

// ------------------------------------------------------------------------------------------------
// stream 4: cold start — the first requests on a fresh mount, while the backend's caches are empty

// a second backend instance over the same storage = the mount after a restart (or on another node)
func (e *c14env) restarted(t *testing.T) *c14env {
	bc := &logical.BackendConfig{Logger: log.NewNullLogger(), System: &logical.StaticSystemView{}, StorageView: e.base, BackendUUID: "c14"}
	lb, err := VersionedKVFactory(context.Background(), bc)
	if err != nil {
		t.Fatalf("factory: %v", err)
	}
	b := lb.(*versionedKVBackend)
	deadline := time.Now().Add(20 * time.Second)
	for b.upgrading.Load() {
		if time.Now().After(deadline) {
			t.Fatal("upgrade did not finish")
		}
		time.Sleep(200 * time.Microsecond)
	}
	return &c14env{b: b, base: e.base, c: &c14ctl{failAt: -1}, tx: e.tx}
}

func c14okErr(res string) string {
	if c14isErr(res) {
		return "err"
	}
	return "ok"
}

func TestVerifC14Cold(t *testing.T) {
	out := vh.Open()
	defer out.Close()
	c14coldEnv = true
	defer func() { c14coldEnv = false }()
	fl := func(fired bool) string {
		if fired {
			return ":fired"
		}
		return ":notfired"
	}
	for _, tx := range []bool{true, false} {
		// (a) config write with a fault, config cache cold / warm
		for _, warm := range []string{"cold", "warm"} {
			for _, args := range [][3]string{{"3", "1", "-"}, {"-", "1", "-"}, {"2", "-", "F"}, {"-", "-", "N"}, {"-", "-", "-"}} {
				for k := 0; k <= 5; k++ {
					e := newC14Env(t, tx)
					if warm == "warm" {
						e.exec(0, c14op{kind: "confread"})
					}
					e.c.arm(k)
					res := e.exec(0, c14op{kind: "confwrite", max: args[0], casreq: args[1], dva: args[2]})
					_, fired, _ := e.c.disarm()
					eff := e.exec(0, c14op{kind: "confread"})
					w := e.exec(0, c14op{kind: "write", path: "p", cas: "-", data: "a=x"})
					if !c14isErr(w) {
						w = "ok"
					}
					e2 := e.restarted(t)
					durable := e2.exec(0, c14op{kind: "confread"})
					viol := ""
					if c14isErr(res) && eff != durable {
						viol = "!VIOL:a failed config write changed the configuration the backend applies (it differs from the stored one until a restart)#failed-config-write-changed-config"
					}
					out.Op(c14okErr(res)+fl(fired)+"|"+eff+"|"+durable+"|"+w+viol, "coldconf", c14mode(tx), warm, args[0], args[1], args[2], vh.I(int64(k)))
					e.close()
					e2.close()
				}
			}
		}
		// (b) the first write on the mount with a fault, then a fault-free write, a read, and a read after a restart
		for k := 0; k <= 10; k++ {
			e := newC14Env(t, tx)
			e.c.arm(k)
			res := e.exec(0, c14op{kind: "write", path: "p", cas: "-", data: "a=first"})
			_, fired, oplog := e.c.disarm()
			w2 := e.exec(0, c14op{kind: "write", path: "p", cas: "-", data: "a=second"})
			r := e.exec(0, c14op{kind: "read", path: "p"})
			e2 := e.restarted(t)
			r2 := e2.exec(0, c14op{kind: "read", path: "p"})
			after := "lost"
			if r2 == r && strings.HasPrefix(r, "ok:") {
				after = "ok"
			}
			viol := ""
			if after == "lost" && !c14isErr(w2) {
				viol = "!VIOL:after a failed first write, versions written successfully later cannot be read after a restart (" + r2 + "): the salt generated inside the failed transaction stayed cached but was never persisted#failed-write-unpersisted-salt"
			}
			if k == 10 {
				t.Logf("cold first write (%s): %v", c14mode(tx), oplog)
			}
			out.Op(c14okErr(res)+fl(fired)+"|"+c14okErr(w2)+"|"+after+viol, "coldwrite", c14mode(tx), vh.I(int64(k)))
			e.close()
			e2.close()
		}
	}
}
