//go:build verif

package vault

// C01, second stream (`barriercanary`): a whole Core over sdk/physical/inmem. Every request carries a fresh
// canary plaintext in a VALUE position; after each request every value in the physical backend is scanned for
// any >= 8-byte fragment of the canary (and, once, for the barrier's key material). The model's claim per request
// kind is the string the driver prints (`clean`, or for the UI-headers kind the leak the code is written to
// produce — finding F12); the property predicate (`!VIOL:` marker) fires on every leak.
// Overlaid into internal/vault at check time; never written into /repo.

import (
	"bytes"
	"context"
	"sort"
	"strconv"
	"strings"
	"testing"

	"github.com/hashicorp/go-hclog"
	"github.com/openbao/openbao/sdk/v2/logical"
	"github.com/openbao/openbao/sdk/v2/physical"
	"github.com/openbao/openbao/sdk/v2/physical/inmem"
	"github.com/openbao/openbao/v2/internal/helper/namespace"
	"github.com/openbao/openbao/v2/internal/helper/testhelpers/corehelpers"
	"github.com/openbao/openbao/v2/internal/vault/barrier"
	"github.com/openbao/openbao/v2/internal/zzverif/vh"
)

func c01AllKeys(t *testing.T, ctx context.Context, b physical.Backend, prefix string, out *[]string) {
	ks, err := b.List(ctx, prefix)
	if err != nil {
		t.Fatalf("list %q: %v", prefix, err)
	}
	for _, k := range ks {
		if strings.HasSuffix(k, "/") {
			c01AllKeys(t, ctx, b, prefix+k, out)
		} else {
			*out = append(*out, prefix+k)
		}
	}
}

// scan every physical value for any 8-byte window of any needle; returns the sorted keys that leak
func c01Scan(t *testing.T, ctx context.Context, b physical.Backend, needles [][]byte) (leaks []string, scanned int) {
	var keys []string
	c01AllKeys(t, ctx, b, "", &keys)
	sort.Strings(keys)
	for _, k := range keys {
		e, err := b.Get(ctx, k)
		if err != nil || e == nil {
			continue
		}
		scanned++
		hit := false
		for _, nd := range needles {
			for i := 0; i+8 <= len(nd) && !hit; i++ {
				if bytes.Contains(e.Value, nd[i:i+8]) {
					hit = true
				}
			}
		}
		if hit {
			leaks = append(leaks, k)
		}
	}
	return leaks, scanned
}

func TestVerifC01Core(t *testing.T) {
	out := vh.Open()
	defer out.Close()
	rng := vh.NewRand(vh.Seed())
	ctx := namespace.RootContext(context.Background())

	rounds := 2
	if vh.Thorough() {
		rounds = 6
	}
	for round := 0; round < rounds; round++ {
		inm, err := inmem.NewInmem(nil, hclog.NewNullLogger())
		if err != nil {
			t.Fatal(err)
		}
		core := TestCoreWithSealAndUI(t, &CoreConfig{Physical: inm, EnableUI: round%2 == 1, EnableRaw: true,
			BuiltinRegistry: corehelpers.NewMockBuiltinRegistry()})
		_, _, root := testCoreUnsealed(t, core)
		out.Reset()

		nCanary := 0
		canary := func(kind string) string {
			// random part first and last, a short tag in the middle: two canaries share no 8-byte fragment
			nCanary++
			return strconv.FormatUint(rng.U64(), 36) + "~c" + strconv.Itoa(nCanary) + "~" + strconv.FormatUint(rng.U64(), 36)
		}
		type reqSpec struct {
			kind string
			mk   func(c string) *logical.Request
		}
		specs := []reqSpec{
			{"policy", func(c string) *logical.Request {
				return &logical.Request{Operation: logical.UpdateOperation, Path: "sys/policies/acl/c01-" + strconv.Itoa(round),
					Data: map[string]any{"policy": "# " + c + "\npath \"secret/*\" { capabilities = [\"read\"] }"}}
			}},
			{"kv", func(c string) *logical.Request {
				return &logical.Request{Operation: logical.UpdateOperation, Path: "secret/c01/deep/key",
					Data: map[string]any{"value": c, "other": map[string]any{"nested": c}}}
			}},
			{"cubbyhole", func(c string) *logical.Request {
				return &logical.Request{Operation: logical.UpdateOperation, Path: "cubbyhole/c01", Data: map[string]any{"value": c}}
			}},
			{"token", func(c string) *logical.Request {
				return &logical.Request{Operation: logical.UpdateOperation, Path: "auth/token/create",
					Data: map[string]any{"display_name": "c01", "meta": map[string]any{"note": c}, "ttl": "1h"}}
			}},
			{"mount", func(c string) *logical.Request {
				return &logical.Request{Operation: logical.UpdateOperation, Path: "sys/mounts/c01kv" + strconv.Itoa(round),
					Data: map[string]any{"type": "kv", "description": c}}
			}},
			{"wrap", func(c string) *logical.Request {
				return &logical.Request{Operation: logical.UpdateOperation, Path: "sys/wrapping/wrap",
					Data: map[string]any{"secret": c}, WrapInfo: &logical.RequestWrapInfo{TTL: 3600 * 1e9}}
			}},
			{"entity", func(c string) *logical.Request {
				return &logical.Request{Operation: logical.UpdateOperation, Path: "identity/entity",
					Data: map[string]any{"name": "c01-entity-" + strconv.Itoa(round), "metadata": map[string]any{"note": c}}}
			}},
			{"cors", func(c string) *logical.Request {
				return &logical.Request{Operation: logical.UpdateOperation, Path: "sys/config/cors",
					Data: map[string]any{"allowed_origins": "https://" + strings.ReplaceAll(c, "~", "-") + ".example.com"}}
			}},
			{"pwpolicy", func(c string) *logical.Request {
				return &logical.Request{Operation: logical.UpdateOperation, Path: "sys/policies/password/c01",
					Data: map[string]any{"policy": "length = 20\nrule \"charset\" { charset = \"abcdefghij" + c + "\" }"}}
			}},
			{"auditedheader", func(c string) *logical.Request {
				return &logical.Request{Operation: logical.UpdateOperation, Path: "sys/config/auditing/request-headers/X-" + c,
					Data: map[string]any{"hmac": true}}
			}},
			{"uiheader", func(c string) *logical.Request {
				return &logical.Request{Operation: logical.UpdateOperation, Path: "sys/config/ui/headers/X-C01-Canary",
					Data: map[string]any{"values": []string{c}}}
			}},
		}
		var all [][]byte
		for _, sp := range specs {
			c := canary(sp.kind)
			req := sp.mk(c)
			req.ClientToken = root
			res := vh.Catch(func() string {
				resp, err := core.HandleRequest(ctx, req)
				if err != nil {
					return "err:" + strings.ReplaceAll(err.Error(), "\t", " ")
				}
				if resp != nil && resp.IsError() {
					return "err:" + strings.ReplaceAll(resp.Error().Error(), "\t", " ")
				}
				all = append(all, []byte(c))
				leaks, n := c01Scan(t, ctx, inm, [][]byte{[]byte(c)})
				if n < 10 {
					return "err:scan-saw-only-" + strconv.Itoa(n) + "-values"
				}
				if len(leaks) == 0 {
					return "clean"
				}
				sig := "plaintext-in-physical:" + sp.kind
				if sp.kind == "uiheader" && len(leaks) == 1 && leaks[0] == barrier.SystemBarrierPrefix+"ui"+uiConfigPlaintextKey {
					sig = "F12:uiconfig-plaintext-headers"
				}
				return "leak:" + strings.Join(leaks, ",") + "!VIOL:request plaintext (" + sp.kind + ") found in clear in physical value(s) " +
					strings.Join(leaks, ",") + "#" + sig
			})
			if len(res) > 300 {
				res = res[:300]
			}
			out.Op(res, "req", sp.kind)
		}
		// ---- sys/raw: which storage access does storageByPath select? (EnableRaw is on) --------------------------
		c01RawSection(t, ctx, out, rng, core, inm, root, round)

		// key material: term keys and root key never in clear in any physical value
		res := vh.Catch(func() string {
			kr, err := core.barrier.Keyring()
			if err != nil {
				return "err:keyring"
			}
			needles := [][]byte{kr.RootKey()}
			for term := uint32(1); term <= kr.ActiveTerm(); term++ {
				if k := kr.TermKey(term); k != nil {
					needles = append(needles, k.Value)
				}
			}
			leaks, _ := c01Scan(t, ctx, inm, needles)
			if len(leaks) > 0 {
				return "leak:" + strings.Join(leaks, ",") + "!VIOL:barrier key material in clear in " + strings.Join(leaks, ",") + "#key-material-in-physical"
			}
			return "clean"
		})
		out.Op(res, "keys")
		// rotate, then everything written before is still not in clear (and the keyring persisted only sealed)
		res = vh.Catch(func() string {
			req := &logical.Request{Operation: logical.UpdateOperation, Path: "sys/rotate/keyring", ClientToken: root}
			if resp, err := core.HandleRequest(ctx, req); err != nil || (resp != nil && resp.IsError()) {
				req.Path = "sys/rotate"
				if resp, err := core.HandleRequest(ctx, req); err != nil || (resp != nil && resp.IsError()) {
					return "err:rotate"
				}
			}
			kr, err := core.barrier.Keyring()
			if err != nil {
				return "err:keyring"
			}
			needles := append([][]byte{kr.RootKey()}, all[:len(all)-1]...) // all canaries except the UI header one (last)
			for term := uint32(1); term <= kr.ActiveTerm(); term++ {
				if k := kr.TermKey(term); k != nil {
					needles = append(needles, k.Value)
				}
			}
			leaks, _ := c01Scan(t, ctx, inm, needles)
			if len(leaks) > 0 {
				return "leak:" + strings.Join(leaks, ",") + "!VIOL:plaintext or key material in clear after rotation in " + strings.Join(leaks, ",") + "#plaintext-in-physical:after-rotate"
			}
			return "clean:term" + strconv.Itoa(int(kr.ActiveTerm()))
		})
		out.Op(res, "rotatescan")
	}
}

// c01RawSection drives sys/raw write/read/delete/list over generated keys and observes, independently of
// storageByPath, whether the request was served by the unencrypted direct physical access or by a barrier:
//   write: the canary is in clear in the physical value at the key (direct) / it is not, and core.barrier.Get returns
//          it (barrier);  read: a plaintext planted straight into the physical backend comes back as is (direct) /
//          is refused because it is not a barrier record (barrier).
// Predicate: direct access (plaintext written / unauthenticated bytes served) only under the exact fixed bootstrap
// keys core/seal-config and core/recovery-config.
func c01RawSection(t *testing.T, ctx context.Context, out *vh.Out, rng *vh.Rand, core *Core, inm physical.Backend, root string, round int) {
	const rootUUID = namespace.RootNamespaceUUID
	// a live child namespace (cheap: one request)
	childUUID := ""
	if resp, err := core.HandleRequest(ctx, &logical.Request{Operation: logical.UpdateOperation, Path: "sys/namespaces/c01ns" + strconv.Itoa(round),
		ClientToken: root, Data: map[string]any{}}); err == nil && resp != nil && !resp.IsError() {
		if u, ok := resp.Data["uuid"].(string); ok {
			childUUID = u
		}
	}
	known := "-"
	if childUUID != "" {
		known = vh.HexS(childUUID)
	}
	fixed := map[string]bool{barrierSealConfigPath: true, recoverySealConfigPath: true}
	rnd := func() string { return strconv.FormatUint(rng.U64(), 36) }
	bases := []string{barrierSealConfigPath, recoverySealConfigPath}
	keys := []string{}
	for _, b := range bases {
		keys = append(keys, b, b+".bak", b+"-old/shares", b+"-backup", b+"/", b+"/x/"+rnd(), b+rnd(), b[:len(b)-1], "x"+b,
			strings.ToUpper(b[:1])+b[1:], b+" ", "/"+b)
	}
	keys = append(keys,
		"core/keyring", "core/keyringX", "core/keyring/sub", "core/cluster/local/info", "core/cluster/local/info2", "core/cluster/local",
		"core/c01-"+rnd(), "core/c01/"+rnd()+"/deep", "core/seal", "core/recovery",
		"logical/c01/"+rnd(), "sys/c01-"+rnd(), "c01-"+rnd(), "c01/dir/"+rnd(),
		"namespaces/"+rootUUID+"/"+barrierSealConfigPath, "namespaces/"+rootUUID+"/"+recoverySealConfigPath,
		"namespaces/"+rootUUID+"/"+barrierSealConfigPath+".bak", "namespaces/"+rootUUID+"/c01-"+rnd(),
		"namespaces/"+rootUUID+"/core/keyring",
		"namespaces/c01-unknown-"+rnd()+"/"+barrierSealConfigPath, "namespaces/c01-unknown-"+rnd()+"/c01/"+rnd(),
		"namespaces/c01-noslash-"+rnd(), "namespaces/"+rootUUID, "namespacesX/"+rootUUID+"/"+barrierSealConfigPath,
	)
	if childUUID != "" {
		keys = append(keys, "namespaces/"+childUUID+"/"+barrierSealConfigPath, "namespaces/"+childUUID+"/"+barrierSealConfigPath+".bak",
			"namespaces/"+childUUID+"/c01/"+rnd(), "namespaces/"+childUUID+"/core/keyring")
	}
	// shuffle (the order must not matter; every key is restored after use)
	for i := len(keys) - 1; i > 0; i-- {
		j := rng.Intn(i + 1)
		keys[i], keys[j] = keys[j], keys[i]
	}
	// errors reach the client as opaque "internal error"/"invalid request": one class
	errClass := func(resp *logical.Response, err error) string {
		if err != nil || (resp != nil && resp.IsError()) {
			return "refused"
		}
		return ""
	}
	rb := NewRawBackend(core)
	// is k of the form namespaces/<uuid>/<fixed key>? (the UUID alias of finding F-rawalias)
	alias := func(k string) bool {
		rest, ok := strings.CutPrefix(k, "namespaces/")
		if !ok {
			return false
		}
		_, rest, ok = strings.Cut(rest, "/")
		return ok && fixed[rest]
	}
	sigOf := func(k, generic string) string {
		if alias(k) {
			return "raw-direct-via-namespace-uuid-alias"
		}
		return generic
	}
	physRaw := func(k string) []byte {
		e, err := inm.Get(ctx, k)
		if err != nil || e == nil {
			return nil
		}
		return e.Value
	}
	for _, k := range keys {
		saved := physRaw(k) // restore afterwards: the exact bootstrap keys hold the live seal configuration
		restore := func() {
			if saved != nil {
				_ = core.physical.Put(ctx, &physical.Entry{Key: k, Value: append([]byte{}, saved...)})
			} else {
				_ = core.physical.Delete(ctx, k)
			}
		}
		outside := !fixed[k]

		// the real storageByPath, called directly
		res0 := vh.Catch(func() string {
			st, allow, err := rb.storageByPath(ctx, k)
			if err != nil {
				if strings.Contains(err.Error(), "cannot access") {
					return "denied"
				}
				return "err:" + strings.ReplaceAll(err.Error(), "\t", " ")
			}
			switch st.(type) {
			case *directStorageAccess:
				r := "direct:" + strconv.FormatBool(allow)
				if outside {
					r += "!VIOL:storageByPath selects the direct physical access for " + strconv.Quote(k) +
						", which is not one of the fixed bootstrap keys#" + sigOf(k, "raw-direct-selected-outside-fixed-set")
				}
				return r
			case *secureStorageAccess:
				return "barrier:" + strconv.FormatBool(allow)
			}
			return "other"
		})
		out.Op(res0, "raw", "sel", vh.HexS(k), known)
		if strings.HasSuffix(k, "/") || strings.HasPrefix(k, "/") {
			continue // the framework refuses writes to paths ending in '/'; a leading '/' is normalised by the router
		}

		// write
		canary := "c" + rnd() + "~w~" + rnd() + rnd() // never starts with a compressutil canary byte
		res := vh.Catch(func() string {
			resp, err := core.HandleRequest(ctx, &logical.Request{Operation: logical.UpdateOperation, Path: "sys/raw/" + k, ClientToken: root,
				Data: map[string]any{"value": canary}})
			if c := errClass(resp, err); c != "" {
				return c
			}
			sel := "other"
			pv := physRaw(k)
			switch {
			case bytes.Contains(pv, []byte(canary)):
				sel = "direct"
			case pv != nil:
				if e, err := core.barrier.Get(ctx, k); err == nil && e != nil && bytes.Equal(e.Value, []byte(canary)) {
					sel = "barrier"
				}
			}
			rt := "bad"
			if resp, err := core.HandleRequest(ctx, &logical.Request{Operation: logical.ReadOperation, Path: "sys/raw/" + k, ClientToken: root,
				Data: map[string]any{"compressed": false}}); err == nil && resp != nil && !resp.IsError() {
				if v, ok := resp.Data["value"].(string); ok && v == canary {
					rt = "ok"
				}
			}
			r := sel + ":" + rt
			if sel == "direct" && outside {
				r += "!VIOL:sys/raw wrote the value in clear to the physical backend under " + strconv.Quote(k) +
					", which is not one of the fixed bootstrap keys#" + sigOf(k, "raw-write-plaintext-outside-fixed-set")
			}
			return r
		})
		out.Op(res, "raw", "write", vh.HexS(k), known)

		// list of the parent directory
		res = vh.Catch(func() string {
			dir := ""
			base := k
			if i := strings.LastIndex(strings.TrimSuffix(k, "/"), "/"); i >= 0 {
				dir, base = k[:i], k[i+1:]
			}
			resp, err := core.HandleRequest(ctx, &logical.Request{Operation: logical.ListOperation, Path: "sys/raw/" + dir, ClientToken: root})
			if c := errClass(resp, err); c != "" {
				return c
			}
			_ = base
			return "listed"
		})
		dir := ""
		if i := strings.LastIndex(strings.TrimSuffix(k, "/"), "/"); i >= 0 {
			dir = k[:i]
		}
		if dir != "" {
			out.Op(res, "raw", "list", vh.HexS(dir), known)
		}

		// read of bytes planted straight into the physical backend (never through a barrier)
		planted := "PLANTED-" + rnd() + "-not-a-barrier-record-" + rnd()
		res = vh.Catch(func() string {
			// never overwrite the live keyring / cluster info, even for a moment (these paths are refused anyway)
			if !strings.Contains(k, "core/keyring") && !strings.Contains(k, "core/cluster/local/info") {
				if err := core.physical.Put(ctx, &physical.Entry{Key: k, Value: []byte(planted)}); err != nil {
					return "err:plant"
				}
			}
			resp, err := core.HandleRequest(ctx, &logical.Request{Operation: logical.ReadOperation, Path: "sys/raw/" + k, ClientToken: root,
				Data: map[string]any{"compressed": false}})
			if c := errClass(resp, err); c != "" {
				return c // protected path, or a barrier refused the planted bytes (not an authentic record)
			}
			if resp != nil {
				if v, ok := resp.Data["value"].(string); ok && v == planted {
					r := "direct"
					if outside {
						r += "!VIOL:sys/raw served unauthenticated physical bytes under " + strconv.Quote(k) +
							", which is not one of the fixed bootstrap keys#" + sigOf(k, "raw-read-unauthenticated-outside-fixed-set")
					}
					return r
				}
			}
			return "other"
		})
		out.Op(res, "raw", "read", vh.HexS(k), known)

		// delete
		res = vh.Catch(func() string {
			resp, err := core.HandleRequest(ctx, &logical.Request{Operation: logical.DeleteOperation, Path: "sys/raw/" + k, ClientToken: root})
			if c := errClass(resp, err); c != "" {
				return c
			}
			if physRaw(k) != nil {
				return "still-there"
			}
			return "done"
		})
		out.Op(res, "raw", "delete", vh.HexS(k), known)
		restore()
	}
}
