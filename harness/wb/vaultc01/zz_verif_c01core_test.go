//go:build verif

package vault

// C01, second stream (`barriercanary`): a whole Core over sdk/physical/inmem. Every request carries a fresh
// canary plaintext in a VALUE position; after each request every value in the physical backend is scanned for
// any >= 8-byte fragment of the canary (and, once, for the barrier's key material). The model's claim per request
// kind is the string the driver prints (`clean`, or for the UI-headers kind the leak the code is written to
// produce — finding F12); the property predicate (`!VIOL:` marker) fires on every leak.
// Overlaid into internal/vault at check time; never written into /repo.

import (
	"bytes"
	"context"
	"sort"
	"strconv"
	"strings"
	"testing"

	"github.com/hashicorp/go-hclog"
	"github.com/openbao/openbao/sdk/v2/logical"
	"github.com/openbao/openbao/sdk/v2/physical"
	"github.com/openbao/openbao/sdk/v2/physical/inmem"
	"github.com/openbao/openbao/v2/internal/helper/namespace"
	"github.com/openbao/openbao/v2/internal/helper/testhelpers/corehelpers"
	"github.com/openbao/openbao/v2/internal/vault/barrier"
	"github.com/openbao/openbao/v2/internal/zzverif/vh"
)

func c01AllKeys(t *testing.T, ctx context.Context, b physical.Backend, prefix string, out *[]string) {
	ks, err := b.List(ctx, prefix)
	if err != nil {
		t.Fatalf("list %q: %v", prefix, err)
	}
	for _, k := range ks {
		if strings.HasSuffix(k, "/") {
			c01AllKeys(t, ctx, b, prefix+k, out)
		} else {
			*out = append(*out, prefix+k)
		}
	}
}

// scan every physical value for any 8-byte window of any needle; returns the sorted keys that leak
func c01Scan(t *testing.T, ctx context.Context, b physical.Backend, needles [][]byte) (leaks []string, scanned int) {
	var keys []string
	c01AllKeys(t, ctx, b, "", &keys)
	sort.Strings(keys)
	for _, k := range keys {
		e, err := b.Get(ctx, k)
		if err != nil || e == nil {
			continue
		}
		scanned++
		hit := false
		for _, nd := range needles {
			for i := 0; i+8 <= len(nd) && !hit; i++ {
				if bytes.Contains(e.Value, nd[i:i+8]) {
					hit = true
				}
			}
		}
		if hit {
			leaks = append(leaks, k)
		}
	}
	return leaks, scanned
}

func TestVerifC01Core(t *testing.T) {
	out := vh.Open()
	defer out.Close()
	rng := vh.NewRand(vh.Seed())
	ctx := namespace.RootContext(context.Background())

	rounds := 2
	if vh.Thorough() {
		rounds = 6
	}
	for round := 0; round < rounds; round++ {
		inm, err := inmem.NewInmem(nil, hclog.NewNullLogger())
		if err != nil {
			t.Fatal(err)
		}
		core := TestCoreWithSealAndUI(t, &CoreConfig{Physical: inm, EnableUI: round%2 == 1, EnableRaw: true,
			BuiltinRegistry: corehelpers.NewMockBuiltinRegistry()})
		_, _, root := testCoreUnsealed(t, core)
		out.Reset()

		nCanary := 0
		canary := func(kind string) string {
			// random part first and last, a short tag in the middle: two canaries share no 8-byte fragment
			nCanary++
			return strconv.FormatUint(rng.U64(), 36) + "~c" + strconv.Itoa(nCanary) + "~" + strconv.FormatUint(rng.U64(), 36)
		}
		type reqSpec struct {
			kind string
			mk   func(c string) *logical.Request
		}
		specs := []reqSpec{
			{"policy", func(c string) *logical.Request {
				return &logical.Request{Operation: logical.UpdateOperation, Path: "sys/policies/acl/c01-" + strconv.Itoa(round),
					Data: map[string]any{"policy": "# " + c + "\npath \"secret/*\" { capabilities = [\"read\"] }"}}
			}},
			{"kv", func(c string) *logical.Request {
				return &logical.Request{Operation: logical.UpdateOperation, Path: "secret/c01/deep/key",
					Data: map[string]any{"value": c, "other": map[string]any{"nested": c}}}
			}},
			{"cubbyhole", func(c string) *logical.Request {
				return &logical.Request{Operation: logical.UpdateOperation, Path: "cubbyhole/c01", Data: map[string]any{"value": c}}
			}},
			{"token", func(c string) *logical.Request {
				return &logical.Request{Operation: logical.UpdateOperation, Path: "auth/token/create",
					Data: map[string]any{"display_name": "c01", "meta": map[string]any{"note": c}, "ttl": "1h"}}
			}},
			{"mount", func(c string) *logical.Request {
				return &logical.Request{Operation: logical.UpdateOperation, Path: "sys/mounts/c01kv" + strconv.Itoa(round),
					Data: map[string]any{"type": "kv", "description": c}}
			}},
			{"wrap", func(c string) *logical.Request {
				return &logical.Request{Operation: logical.UpdateOperation, Path: "sys/wrapping/wrap",
					Data: map[string]any{"secret": c}, WrapInfo: &logical.RequestWrapInfo{TTL: 3600 * 1e9}}
			}},
			{"entity", func(c string) *logical.Request {
				return &logical.Request{Operation: logical.UpdateOperation, Path: "identity/entity",
					Data: map[string]any{"name": "c01-entity-" + strconv.Itoa(round), "metadata": map[string]any{"note": c}}}
			}},
			{"cors", func(c string) *logical.Request {
				return &logical.Request{Operation: logical.UpdateOperation, Path: "sys/config/cors",
					Data: map[string]any{"allowed_origins": "https://" + strings.ReplaceAll(c, "~", "-") + ".example.com"}}
			}},
			{"pwpolicy", func(c string) *logical.Request {
				return &logical.Request{Operation: logical.UpdateOperation, Path: "sys/policies/password/c01",
					Data: map[string]any{"policy": "length = 20\nrule \"charset\" { charset = \"abcdefghij" + c + "\" }"}}
			}},
			{"auditedheader", func(c string) *logical.Request {
				return &logical.Request{Operation: logical.UpdateOperation, Path: "sys/config/auditing/request-headers/X-" + c,
					Data: map[string]any{"hmac": true}}
			}},
			{"uiheader", func(c string) *logical.Request {
				return &logical.Request{Operation: logical.UpdateOperation, Path: "sys/config/ui/headers/X-C01-Canary",
					Data: map[string]any{"values": []string{c}}}
			}},
		}
		var all [][]byte
		for _, sp := range specs {
			c := canary(sp.kind)
			req := sp.mk(c)
			req.ClientToken = root
			res := vh.Catch(func() string {
				resp, err := core.HandleRequest(ctx, req)
				if err != nil {
					return "err:" + strings.ReplaceAll(err.Error(), "\t", " ")
				}
				if resp != nil && resp.IsError() {
					return "err:" + strings.ReplaceAll(resp.Error().Error(), "\t", " ")
				}
				all = append(all, []byte(c))
				leaks, n := c01Scan(t, ctx, inm, [][]byte{[]byte(c)})
				if n < 10 {
					return "err:scan-saw-only-" + strconv.Itoa(n) + "-values"
				}
				if len(leaks) == 0 {
					return "clean"
				}
				sig := "plaintext-in-physical:" + sp.kind
				if sp.kind == "uiheader" && len(leaks) == 1 && leaks[0] == barrier.SystemBarrierPrefix+"ui"+uiConfigPlaintextKey {
					sig = "F12:uiconfig-plaintext-headers"
				}
				return "leak:" + strings.Join(leaks, ",") + "!VIOL:request plaintext (" + sp.kind + ") found in clear in physical value(s) " +
					strings.Join(leaks, ",") + "#" + sig
			})
			if len(res) > 300 {
				res = res[:300]
			}
			out.Op(res, "req", sp.kind)
		}
		// key material: term keys and root key never in clear in any physical value
		res := vh.Catch(func() string {
			kr, err := core.barrier.Keyring()
			if err != nil {
				return "err:keyring"
			}
			needles := [][]byte{kr.RootKey()}
			for term := uint32(1); term <= kr.ActiveTerm(); term++ {
				if k := kr.TermKey(term); k != nil {
					needles = append(needles, k.Value)
				}
			}
			leaks, _ := c01Scan(t, ctx, inm, needles)
			if len(leaks) > 0 {
				return "leak:" + strings.Join(leaks, ",") + "!VIOL:barrier key material in clear in " + strings.Join(leaks, ",") + "#key-material-in-physical"
			}
			return "clean"
		})
		out.Op(res, "keys")
		// rotate, then everything written before is still not in clear (and the keyring persisted only sealed)
		res = vh.Catch(func() string {
			req := &logical.Request{Operation: logical.UpdateOperation, Path: "sys/rotate/keyring", ClientToken: root}
			if resp, err := core.HandleRequest(ctx, req); err != nil || (resp != nil && resp.IsError()) {
				req.Path = "sys/rotate"
				if resp, err := core.HandleRequest(ctx, req); err != nil || (resp != nil && resp.IsError()) {
					return "err:rotate"
				}
			}
			kr, err := core.barrier.Keyring()
			if err != nil {
				return "err:keyring"
			}
			needles := append([][]byte{kr.RootKey()}, all[:len(all)-1]...) // all canaries except the UI header one (last)
			for term := uint32(1); term <= kr.ActiveTerm(); term++ {
				if k := kr.TermKey(term); k != nil {
					needles = append(needles, k.Value)
				}
			}
			leaks, _ := c01Scan(t, ctx, inm, needles)
			if len(leaks) > 0 {
				return "leak:" + strings.Join(leaks, ",") + "!VIOL:plaintext or key material in clear after rotation in " + strings.Join(leaks, ",") + "#plaintext-in-physical:after-rotate"
			}
			return "clean:term" + strconv.Itoa(int(kr.ActiveTerm()))
		})
		out.Op(res, "rotatescan")
	}
}
