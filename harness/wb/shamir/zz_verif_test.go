//go:build verif

package shamir

// Correspondence harness for C20 (white-box: mult, div, inverse, add, evaluate, interpolatePolynomial
// are unexported). Overlaid into sdk/helper/shamir at check time; never written into /repo.

import (
	"bytes"
	"crypto/rand"
	"io"
	"strings"
	"testing"

	"github.com/openbao/openbao/sdk/v2/zzverif/vh"
)

type recReader struct {
	inner io.Reader
	buf   bytes.Buffer
}

func (r *recReader) Read(p []byte) (int, error) {
	n, err := r.inner.Read(p)
	r.buf.Write(p[:n])
	return n, err
}

// replayReader feeds a recorded random stream back (ones once exhausted, which is flagged).
type replayReader struct {
	data      []byte
	pos       int
	exhausted bool
}

func (r *replayReader) Read(p []byte) (int, error) {
	for i := range p {
		if r.pos < len(r.data) {
			p[i] = r.data[r.pos]
			r.pos++
		} else {
			// past the recorded stream (flagged): ones, not zeros - a dealer that keeps drawing until a byte is
			// non-zero (rejection sampling) must not hang the harness
			p[i] = 1
			r.exhausted = true
		}
	}
	return len(p), nil
}

// zeroLead: re-run Split on the recorded random stream with the LEADING coefficient of one secret byte's
// polynomial set to zero. A dealer that draws every non-constant coefficient uniformly from the whole field (zero
// included - what "fewer than t shares are consistent with every possible secret" rests on) uses that byte as it
// comes; the shares are reported as a plain `split` operation, so the model (which uses the stream verbatim)
// must produce the same ones.
func zeroLead(out *vh.Out, secret []byte, n, th int, recorded []byte, idx int) {
	l := len(secret)
	need := l * (th - 1)
	mod := append([]byte{}, recorded...)
	mod[len(mod)-need+idx*(th-1)+(th-2)] = 0
	rr := &replayReader{data: mod}
	old := rand.Reader
	rand.Reader = rr
	parts, err := Split(secret, n, th)
	rand.Reader = old
	coeffs := mod[len(mod)-need:]
	if err != nil {
		out.Op("err!VIOL:Split failed on a random stream whose leading coefficient is zero - the dealer does not draw its coefficients uniformly from the whole field, so sub-threshold shares exclude candidate secrets#dealer-coefficients-not-uniform", "split", vh.Hex(secret), "00", vh.Hex(coeffs), vh.I(int64(th)))
		return
	}
	xs := make([]byte, n)
	for j := range parts {
		xs[j] = parts[j][l]
	}
	res := sharesStr(parts)
	if rr.exhausted || rr.pos != len(mod) {
		res += "!VIOL:Split did not use the random stream as it came when a leading coefficient was zero (it drew again) - the dealer's coefficients are not uniform on the whole field, so sub-threshold shares exclude candidate secrets#dealer-coefficients-not-uniform"
	}
	out.Op(res, "split", vh.Hex(secret), vh.Hex(xs), vh.Hex(coeffs), vh.I(int64(th)))
}

// influence: re-run Split on the recorded random stream with ONE coefficient byte changed and report which
// share columns (secret byte positions) change. Independence of the per-byte polynomials (what the
// "fewer than t shares reveal nothing" half of C20 rests on) means exactly one column changes.
func influence(secret []byte, n, th int, recorded []byte, relpos int, orig [][]byte) string {
	need := len(secret) * (th - 1)
	mod := append([]byte{}, recorded...)
	mod[len(mod)-need+relpos] ^= 0x5a
	rr := &replayReader{data: mod}
	old := rand.Reader
	rand.Reader = rr
	parts, err := Split(secret, n, th)
	rand.Reader = old
	if err != nil {
		return "err"
	}
	if rr.exhausted || rr.pos != len(mod) {
		return "stream-mismatch"
	}
	cols := []string{}
	for idx := 0; idx <= len(secret); idx++ {
		changed := false
		for i := range parts {
			if parts[i][idx] != orig[i][idx] {
				changed = true
			}
		}
		if changed {
			if idx == len(secret) {
				cols = append(cols, "x")
			} else {
				cols = append(cols, vh.I(int64(idx)))
			}
		}
	}
	res := "cols:" + strings.Join(cols, ",")
	if len(cols) != 1 {
		res += "!VIOL:one random coefficient byte influences " + vh.I(int64(len(cols))) + " share columns - polynomials of different secret bytes are not independent, so sub-threshold shares leak"
	}
	return res
}

func sharesStr(parts [][]byte) string {
	ss := make([]string, len(parts))
	for i, p := range parts {
		ss[i] = vh.Hex(p)
	}
	return strings.Join(ss, ",")
}

func combineRes(parts [][]byte) string {
	return vh.Catch(func() string {
		s, err := Combine(parts)
		if err != nil {
			switch {
			case strings.Contains(err.Error(), "less than two"):
				return "err:tooFew"
			case strings.Contains(err.Error(), "at least two bytes"):
				return "err:tooShort"
			case strings.Contains(err.Error(), "same length"):
				return "err:unequal"
			case strings.Contains(err.Error(), "duplicate"):
				return "err:duplicate"
			}
			return "err:other"
		}
		return "ok:" + vh.Hex(s)
	})
}

func TestVerifC20(t *testing.T) {
	out := vh.Open()
	defer out.Close()
	rng := vh.NewRand(vh.Seed())

	// 1. the field operations, exhaustively (finite functions: the tie is complete, not sampled)
	for a := 0; a < 256; a++ {
		for b := 0; b < 256; b++ {
			out.Op(vh.I(int64(mult(uint8(a), uint8(b)))), "mult", vh.I(int64(a)), vh.I(int64(b)))
			out.Op(vh.I(int64(add(uint8(a), uint8(b)))), "add", vh.I(int64(a)), vh.I(int64(b)))
			a, b := a, b
			out.Op(vh.Catch(func() string { return vh.I(int64(div(uint8(a), uint8(b)))) }), "div", vh.I(int64(a)), vh.I(int64(b)))
		}
		out.Op(vh.I(int64(inverse(uint8(a)))), "inverse", vh.I(int64(a)))
	}

	// 2. evaluate / interpolate on random polynomials
	nPoly := 2000
	if vh.Thorough() {
		nPoly = 50000
	}
	for i := 0; i < nPoly; i++ {
		deg := rng.Intn(8)
		p := polynomial{coefficients: rng.Bytes(deg + 1)}
		x := uint8(rng.Intn(256))
		out.Op(vh.Catch(func() string { return vh.I(int64(p.evaluate(x))) }), "eval", vh.Hex(p.coefficients), vh.I(int64(x)))
		// distinct xs
		n := 1 + rng.Intn(6)
		perm := rng.Bytes(0)
		seen := map[byte]bool{}
		for len(perm) < n {
			c := byte(rng.Intn(256))
			if !seen[c] {
				seen[c] = true
				perm = append(perm, c)
			}
		}
		ys := rng.Bytes(n)
		at := uint8(rng.Intn(256))
		out.Op(vh.Catch(func() string { return vh.I(int64(interpolatePolynomial(perm, ys, at))) }), "interp", vh.Hex(perm), vh.Hex(ys), vh.I(int64(at)))
	}

	// 3. Split parameter checks (incl. the malformed stream)
	for _, l := range []int{0, 1, 2, 33} {
		for _, parts := range []int{-1, 0, 1, 2, 3, 5, 254, 255, 256, 1000} {
			for _, thr := range []int{-1, 0, 1, 2, 3, 5, 254, 255, 256, 1000} {
				secret := rng.Bytes(l)
				_, err := Split(secret, parts, thr)
				res := "ok"
				if err != nil {
					switch err.Error() {
					case "parts cannot be less than threshold":
						res = "err:partsLtThreshold"
					case "parts cannot exceed 255":
						res = "err:partsGt255"
					case "threshold must be at least 2":
						res = "err:thresholdLt2"
					case "threshold cannot exceed 255":
						res = "err:thresholdGt255"
					case "cannot split an empty secret":
						res = "err:emptySecret"
					default:
						res = "err:other"
					}
				}
				out.Op(res, "splitcheck", vh.I(int64(l)), vh.I(int64(parts)), vh.I(int64(thr)))
			}
		}
	}

	// 4. Split with replayed randomness, then Combine on subsets
	nSplit := 300
	if vh.Thorough() {
		nSplit = 5000
	}
	for i := 0; i < nSplit; i++ {
		var l, n, th int
		switch {
		case i < 60: // exhaustive-ish small corner: 1-2 byte secrets, n <= 6
			l = 1 + i%2
			n = 2 + (i/2)%5
			th = 2 + rng.Intn(n-1)
		case rng.Chance(6):
			l = 1 + rng.Intn(6)
			n = 200 + rng.Intn(56)
			th = 2 + rng.Intn(n-1)
		default:
			l = 1 + rng.Intn(40)
			n = 2 + rng.Intn(9)
			th = 2 + rng.Intn(n-1)
		}
		secret := rng.Bytes(l)
		rec := &recReader{inner: rand.Reader}
		old := rand.Reader
		rand.Reader = rec
		parts, err := Split(secret, n, th)
		rand.Reader = old
		if err != nil {
			t.Fatalf("split: %v", err)
		}
		xs := make([]byte, n)
		for j := range parts {
			xs[j] = parts[j][l]
		}
		recorded := rec.buf.Bytes()
		need := l * (th - 1)
		if len(recorded) < need {
			t.Fatalf("recorded %d random bytes, need %d", len(recorded), need)
		}
		coeffs := recorded[len(recorded)-need:]
		out.Op(sharesStr(parts), "split", vh.Hex(secret), vh.Hex(xs), vh.Hex(coeffs), vh.I(int64(th)))
		zeroLead(out, secret, n, th, append([]byte{}, recorded...), rng.Intn(l))
		if n <= 12 {
			for q := 0; q < 3; q++ {
				relpos := rng.Intn(need)
				out.Op(influence(secret, n, th, append([]byte{}, recorded...), relpos, parts), "influence", vh.I(int64(l)), vh.I(int64(th)), vh.I(int64(relpos)))
			}
		}

		// combine: subsets of size >= th (exhaustive for n <= 6), in shuffled order; and below-threshold subsets
		subsets := [][]int{}
		if n <= 6 {
			for m := 1; m < 1<<n; m++ {
				var s []int
				for j := 0; j < n; j++ {
					if m>>j&1 == 1 {
						s = append(s, j)
					}
				}
				subsets = append(subsets, s)
			}
		} else {
			for k := 0; k < 6; k++ {
				sz := 1 + rng.Intn(n)
				permI := make([]int, n)
				for j := range permI {
					permI[j] = j
				}
				for j := n - 1; j > 0; j-- {
					q := rng.Intn(j + 1)
					permI[j], permI[q] = permI[q], permI[j]
				}
				subsets = append(subsets, permI[:sz])
			}
		}
		for _, s := range subsets {
			ps := make([][]byte, len(s))
			for j, idx := range s {
				ps[j] = parts[idx]
			}
			// shuffle order
			for j := len(ps) - 1; j > 0; j-- {
				q := rng.Intn(j + 1)
				ps[j], ps[q] = ps[q], ps[j]
			}
			res := combineRes(ps)
			tag := "combine"
			if len(s) >= th {
				tag = "combine-ge" // at/above threshold: the property demands the secret back
				if res != "ok:"+vh.Hex(secret) {
					res = res + "!secret=" + vh.Hex(secret)
				}
			}
			_ = tag
			out.Op(res, "combine", sharesStr(ps))
		}
	}

	// 5. malformed Combine inputs
	for i := 0; i < 400; i++ {
		n := rng.Intn(5)
		ps := make([][]byte, n)
		l := rng.Intn(4)
		for j := range ps {
			lj := l
			if rng.Chance(15) {
				lj = rng.Intn(5)
			}
			ps[j] = rng.Bytes(lj)
			if lj > 0 && rng.Chance(30) && j > 0 && len(ps[0]) > 0 {
				ps[j][lj-1] = ps[0][len(ps[0])-1] // duplicate x
			}
		}
		out.Op(combineRes(ps), "combine", sharesStr(ps))
	}
}
