//go:build verif

package vault

// Correspondence harness for the threshold-accounting part of C20 (white-box: drives
// SealManager.unsealFragment — recordUnsealPart + getUnsealKey — on a real, initialized, sealed core and
// reads len(unlockInformation.Parts)). Overlaid into internal/vault at check time; never written into /repo.

import (
	"context"
	"errors"
	"strconv"
	"strings"
	"testing"

	"github.com/openbao/openbao/sdk/v2/helper/shamir"
	"github.com/openbao/openbao/v2/internal/helper/namespace"
	"github.com/openbao/openbao/v2/internal/zzverif/vh"
)

func c20Class(err error) string {
	var ik *ErrInvalidKey
	if errors.As(err, &ik) {
		r := ik.Reason
		switch {
		case strings.Contains(r, "shorter than minimum"):
			return "short"
		case strings.Contains(r, "longer than maximum"):
			return "long"
		case strings.Contains(r, "failed to compute combined key"):
			switch {
			case strings.Contains(r, "less than two"):
				return "cerr:tooFew"
			case strings.Contains(r, "at least two bytes"):
				return "cerr:tooShort"
			case strings.Contains(r, "same length"):
				return "cerr:unequal"
			case strings.Contains(r, "duplicate"):
				return "cerr:duplicate"
			}
			return "cerr:other"
		}
	}
	return "err:other"
}

func TestVerifC20Threshold(t *testing.T) {
	out := vh.Open()
	defer out.Close()
	rng := vh.NewRand(vh.Seed() ^ 0xc20c20)

	type cfg struct{ n, t int }
	cfgs := []cfg{{1, 1}, {2, 2}, {3, 2}, {5, 3}}
	cases := 250
	if vh.Thorough() {
		cfgs = append(cfgs, cfg{4, 4}, cfg{7, 4}, cfg{10, 5}, cfg{20, 2}, cfg{255, 6})
		cases = 3000
	}
	ctx := namespace.RootContext(context.Background())
	rootUUID := namespace.RootNamespace.UUID

	for ci, c := range cfgs {
		core := TestCore(t)
		res, err := core.Initialize(ctx, &InitParams{
			BarrierConfig:  &SealConfig{SecretShares: c.n, SecretThreshold: c.t},
			RecoveryConfig: &SealConfig{SecretShares: c.n, SecretThreshold: c.t},
		})
		if err != nil {
			t.Fatalf("init %v: %v", c, err)
		}
		if !core.Sealed() {
			t.Fatalf("core not sealed after Initialize")
		}
		shares := res.SecretShares
		sm := core.sealManager
		min, max := core.barrier.KeyLength()
		max += shamir.ShareOverhead
		thr, mn, mx := strconv.Itoa(c.t), strconv.Itoa(min), strconv.Itoa(max)
		progress := func() int {
			if info := sm.unlockInformationByNamespace[rootUUID]; info != nil {
				return len(info.Parts)
			}
			return 0
		}

		for k := 0; k < cases; k++ {
			r := rng.Fork(uint64(ci*1000003 + k))
			sm.ResetUnsealProcess(rootUUID)
			out.Reset()
			var hist [][]byte            // everything submitted in this case
			distinct := map[string]bool{} // distinct valid-length parts since the last completion / reset
			steps := 1 + r.Intn(c.t+4)
			for s := 0; s < steps; s++ {
				var part []byte
				switch x := r.Intn(100); {
				case x < 50:
					part = append([]byte(nil), shares[r.Intn(len(shares))]...)
				case x < 65 && len(hist) > 0:
					part = append([]byte(nil), hist[r.Intn(len(hist))]...)
				case x < 72:
					part = r.Bytes(r.Intn(min))
				case x < 79:
					part = r.Bytes(max + 1 + r.Intn(8))
				case x < 87:
					part = r.Bytes(len(shares[0]))
				case x < 94: // a genuine share with one y byte changed: same x tag, different part
					part = append([]byte(nil), shares[r.Intn(len(shares))]...)
					part[r.Intn(len(part)-1)] ^= byte(1 + r.Intn(255))
				default:
					part = r.Bytes(min + r.Intn(max-min+1))
				}
				hist = append(hist, part)
				before := progress()
				var key []byte
				var err error
				resStr := vh.Catch(func() string {
					key, err = sm.unsealFragment(ctx, namespace.RootNamespace, core.seal, core.barrier, append([]byte(nil), part...))
					return ""
				})
				after := progress()
				valid := len(part) >= min && len(part) <= max
				if valid {
					distinct[string(part)] = true
				}
				viol := ""
				if resStr == "" {
					switch {
					case err != nil:
						resStr = c20Class(err)
					case key != nil:
						resStr = "key:" + vh.Hex(key)
						if len(distinct) < c.t {
							viol = "!VIOL:key produced from fewer than threshold distinct parts#c20-key-below-threshold"
						}
					case after == before:
						resStr = "dup"
					default:
						resStr = "pending:" + strconv.Itoa(after)
					}
				}
				completed := strings.HasPrefix(resStr, "key:") || strings.HasPrefix(resStr, "cerr:")
				if completed {
					distinct = map[string]bool{}
				} else if viol == "" && after != len(distinct) {
					viol = "!VIOL:progress is not the number of distinct valid parts#c20-progress-count"
				}
				if viol == "" && !completed && after >= c.t {
					viol = "!VIOL:threshold reached without recovering a key#c20-threshold-stall"
				}
				out.Op(resStr+";progress="+strconv.Itoa(after)+viol, "submit", thr, mn, mx, vh.Hex(part))
			}
		}

		// liveness on the real entry point: `threshold` genuine shares (with a duplicate in between) unseal
		sm.ResetUnsealProcess(rootUUID)
		unsealed := false
		for i := 0; i < c.t; i++ {
			if i == 1 {
				if u, _ := core.Unseal(append([]byte(nil), shares[0]...)); u {
					out.Reset()
					out.Op("unsealed!VIOL:duplicate share advanced the unseal#c20-duplicate-advances", "unseal-live", thr)
				}
			}
			u, err := core.Unseal(append([]byte(nil), shares[i]...))
			if err != nil {
				t.Logf("unseal: %v", err)
			}
			if u && i < c.t-1 {
				out.Reset()
				out.Op("unsealed!VIOL:unsealed below the threshold#c20-key-below-threshold", "unseal-live", thr)
			}
			unsealed = u
		}
		if !unsealed {
			out.Reset()
			out.Op("sealed!VIOL:threshold genuine shares did not unseal#c20-threshold-stall", "unseal-live", thr)
		}
	}
}
