//go:build verif

package vault

// Correspondence harness for the threshold-accounting part of C20 (white-box: drives
// SealManager.unsealFragment — recordUnsealPart + getUnsealKey — on a real, initialized, sealed core and
// reads len(unlockInformation.Parts)). Overlaid into internal/vault at check time; never written into /repo.

import (
	"context"
	"errors"
	"strconv"
	"strings"
	"testing"

	wrapping "github.com/openbao/go-kms-wrapping/v2"
	"github.com/hashicorp/go-secure-stdlib/base62"
	"github.com/openbao/openbao/sdk/v2/helper/shamir"
	"github.com/openbao/openbao/v2/internal/helper/namespace"
	"github.com/openbao/openbao/v2/internal/vault/barrier"
	vaultseal "github.com/openbao/openbao/v2/internal/vault/seal"
	"github.com/openbao/openbao/v2/internal/zzverif/vh"
)

func c20Class(err error) string {
	var ik *ErrInvalidKey
	if errors.As(err, &ik) {
		r := ik.Reason
		switch {
		case strings.Contains(r, "shorter than minimum"):
			return "short"
		case strings.Contains(r, "longer than maximum"):
			return "long"
		case strings.Contains(r, "failed to compute combined key"):
			switch {
			case strings.Contains(r, "less than two"):
				return "cerr:tooFew"
			case strings.Contains(r, "at least two bytes"):
				return "cerr:tooShort"
			case strings.Contains(r, "same length"):
				return "cerr:unequal"
			case strings.Contains(r, "duplicate"):
				return "cerr:duplicate"
			}
			return "cerr:other"
		}
	}
	return "err:other"
}

func TestVerifC20Threshold(t *testing.T) {
	out := vh.Open()
	defer out.Close()
	rng := vh.NewRand(vh.Seed() ^ 0xc20c20)

	type cfg struct{ n, t int }
	cfgs := []cfg{{1, 1}, {2, 2}, {3, 2}, {5, 3}}
	cases := 250
	if vh.Thorough() {
		cfgs = append(cfgs, cfg{4, 4}, cfg{7, 4}, cfg{10, 5}, cfg{20, 2}, cfg{255, 6})
		cases = 3000
	}
	ctx := namespace.RootContext(context.Background())
	rootUUID := namespace.RootNamespace.UUID

	for ci, c := range cfgs {
		core := TestCore(t)
		res, err := core.Initialize(ctx, &InitParams{
			BarrierConfig:  &SealConfig{SecretShares: c.n, SecretThreshold: c.t},
			RecoveryConfig: &SealConfig{SecretShares: c.n, SecretThreshold: c.t},
		})
		if err != nil {
			t.Fatalf("init %v: %v", c, err)
		}
		if !core.Sealed() {
			t.Fatalf("core not sealed after Initialize")
		}
		shares := res.SecretShares
		sm := core.sealManager
		min, max := core.barrier.KeyLength()
		max += shamir.ShareOverhead
		thr, mn, mx := strconv.Itoa(c.t), strconv.Itoa(min), strconv.Itoa(max)
		progress := func() int {
			if info := sm.unlockInformationByNamespace[rootUUID]; info != nil {
				return len(info.Parts)
			}
			return 0
		}

		for k := 0; k < cases; k++ {
			r := rng.Fork(uint64(ci*1000003 + k))
			sm.ResetUnsealProcess(rootUUID)
			out.Reset()
			var hist [][]byte            // everything submitted in this case
			distinct := map[string]bool{} // distinct valid-length parts since the last completion / reset
			steps := 1 + r.Intn(c.t+4)
			for s := 0; s < steps; s++ {
				var part []byte
				switch x := r.Intn(100); {
				case x < 50:
					part = append([]byte(nil), shares[r.Intn(len(shares))]...)
				case x < 65 && len(hist) > 0:
					part = append([]byte(nil), hist[r.Intn(len(hist))]...)
				case x < 72:
					part = r.Bytes(r.Intn(min))
				case x < 79:
					part = r.Bytes(max + 1 + r.Intn(8))
				case x < 87:
					part = r.Bytes(len(shares[0]))
				case x < 94: // a genuine share with one y byte changed: same x tag, different part
					part = append([]byte(nil), shares[r.Intn(len(shares))]...)
					part[r.Intn(len(part)-1)] ^= byte(1 + r.Intn(255))
				default:
					part = r.Bytes(min + r.Intn(max-min+1))
				}
				hist = append(hist, part)
				before := progress()
				var key []byte
				var err error
				resStr := vh.Catch(func() string {
					key, err = sm.unsealFragment(ctx, namespace.RootNamespace, core.seal, core.barrier, append([]byte(nil), part...))
					return ""
				})
				after := progress()
				valid := len(part) >= min && len(part) <= max
				if valid {
					distinct[string(part)] = true
				}
				viol := ""
				if resStr == "" {
					switch {
					case err != nil:
						resStr = c20Class(err)
					case key != nil:
						resStr = "key:" + vh.Hex(key)
						if len(distinct) < c.t {
							viol = "!VIOL:key produced from fewer than threshold distinct parts#c20-key-below-threshold"
						}
					case after == before:
						resStr = "dup"
					default:
						resStr = "pending:" + strconv.Itoa(after)
					}
				}
				completed := strings.HasPrefix(resStr, "key:") || strings.HasPrefix(resStr, "cerr:")
				if completed && viol == "" && len(distinct) < c.t {
					// the attempt went on to Combine (and its progress was discarded) before `threshold` DISTINCT parts
					viol = "!VIOL:the unseal attempt proceeded to combine with fewer than threshold distinct parts (" + resStr + ")#c20-attempt-below-threshold"
				}
				if completed {
					distinct = map[string]bool{}
				} else if viol == "" && after != len(distinct) {
					viol = "!VIOL:progress is not the number of distinct valid parts#c20-progress-count"
				}
				if viol == "" && !completed && after >= c.t {
					viol = "!VIOL:threshold reached without recovering a key#c20-threshold-stall"
				}
				out.Op(resStr+";progress="+strconv.Itoa(after)+viol, "submit", thr, mn, mx, vh.Hex(part))
			}
		}

		// liveness on the real entry point: `threshold` genuine shares (with a duplicate in between) unseal
		sm.ResetUnsealProcess(rootUUID)
		unsealed := false
		for i := 0; i < c.t; i++ {
			if i == 1 {
				if u, _ := core.Unseal(append([]byte(nil), shares[0]...)); u {
					out.Reset()
					out.Op("unsealed!VIOL:duplicate share advanced the unseal#c20-duplicate-advances", "unseal-live", thr)
				}
			}
			u, err := core.Unseal(append([]byte(nil), shares[i]...))
			if err != nil {
				t.Logf("unseal: %v", err)
			}
			if u && i < c.t-1 {
				out.Reset()
				out.Op("unsealed!VIOL:unsealed below the threshold#c20-key-below-threshold", "unseal-live", thr)
			}
			unsealed = u
		}
		if !unsealed {
			out.Reset()
			out.Op("sealed!VIOL:threshold genuine shares did not unseal#c20-threshold-stall", "unseal-live", thr)
		}
	}

	c20Rotation(t, out, rng)
	c20Verification(t, out, rng)
}

// ---------------------------------------------------------------------------------------------------
// Rotation paths: (*SealManager).InitRotation / UpdateRotation on real unsealed cores.
//   root-shamir : Shamir barrier, root rotation authorised by the unseal shares (KEK);
//   root-auto   : auto-unseal test seal with recovery keys, root rotation authorised by the recovery shares;
//   recovery    : the same seal, rotation of the recovery key itself.
// Per submission: outcome class + len(RotationProgress); a case ends when the rotation proceeds. The property
// predicate is evaluated here on the real outputs: "proceeded => the parts of that attempt contain at least
// `threshold` pairwise distinct GENUINE shares of the current key", and "refused => nothing was rotated".

func c20CombineClass(m string) string {
	switch {
	case strings.Contains(m, "less than two"):
		return "cerr:tooFew"
	case strings.Contains(m, "at least two bytes"):
		return "cerr:tooShort"
	case strings.Contains(m, "same length"):
		return "cerr:unequal"
	case strings.Contains(m, "duplicate"):
		return "cerr:duplicate"
	}
	return "cerr:other"
}

func c20RotClass(proceeded bool, err error) string {
	if err != nil {
		m := err.Error()
		switch {
		case strings.Contains(m, "shorter than minimum"):
			return "short"
		case strings.Contains(m, "longer than maximum"):
			return "long"
		case strings.Contains(m, "already been provided"):
			return "dup"
		case strings.Contains(m, "failed to compute"):
			return c20CombineClass(m)
		case strings.Contains(m, "verification failed"), strings.Contains(m, "failed to read root key"),
			strings.Contains(m, "failed to setup unseal key"), strings.Contains(m, "root generation aborted"):
			return "verify-fail"
		}
		return "err:other:" + vh.HexS(m)
	}
	if proceeded {
		return "proceeds"
	}
	return "pending"
}

type c20RotCore struct {
	kind     string
	n, t     int
	core     *Core
	recovery bool
	shares   [][]byte // genuine shares of the current key
	secret   []byte   // the key they were dealt from
}

func c20NewRotCore(t *testing.T, kind string, n, th int) *c20RotCore {
	ctx := namespace.RootContext(context.Background())
	rc := &c20RotCore{kind: kind, n: n, t: th, recovery: strings.HasSuffix(kind, "recovery")}
	if strings.HasSuffix(kind, "-shamir") {
		core, shares, _, _ := TestCoreUnsealedWithConfigs(t, &SealConfig{SecretShares: n, SecretThreshold: th}, nil)
		rc.core, rc.shares = core, shares
		rc.secret = c20ShamirKek(t, rc)
	} else {
		core, _, rec, _ := TestCoreUnsealedWithConfigSealOpts(t, &SealConfig{},
			&SealConfig{SecretShares: n, SecretThreshold: th}, &vaultseal.TestSealOpts{Wrapper: wrapping.WrapperTypeTest})
		rc.core, rc.shares = core, rec
		k, err := core.seal.RecoveryKey(ctx)
		if err != nil {
			t.Fatalf("recovery key: %v", err)
		}
		rc.secret = k
	}
	if len(rc.shares) != n {
		t.Fatalf("%s: %d shares, want %d", kind, len(rc.shares), n)
	}
	return rc
}

// the current Shamir KEK, read from the barrier's own copy (independent of shamir.Combine)
func c20ShamirKek(t *testing.T, rc *c20RotCore) []byte {
	ctx := namespace.RootContext(context.Background())
	e, err := rc.core.barrier.Get(ctx, barrier.ShamirKekPath)
	if err == nil && e != nil && len(e.Value) > 0 {
		return append([]byte(nil), e.Value...)
	}
	if len(rc.shares) == 1 {
		return append([]byte(nil), rc.shares[0]...)
	}
	k, err := shamir.Combine(rc.shares[:rc.t])
	if err != nil {
		t.Fatalf("kek: %v", err)
	}
	return k
}

// what must not change when a rotation is refused
func c20RotFingerprint(rc *c20RotCore) string {
	ctx := namespace.RootContext(context.Background())
	var parts []string
	if ks, err := rc.core.seal.GetStoredKeys(ctx); err == nil {
		for _, k := range ks {
			parts = append(parts, vh.Hex(k))
		}
	} else {
		parts = append(parts, "stored-err")
	}
	if rc.core.seal.RecoveryKeySupported() {
		if k, err := rc.core.seal.RecoveryKey(ctx); err == nil {
			parts = append(parts, "rk="+vh.Hex(k))
		}
	} else if e, err := rc.core.barrier.Get(ctx, barrier.ShamirKekPath); err == nil && e != nil {
		parts = append(parts, "kek="+vh.Hex(e.Value))
	}
	return strings.Join(parts, "|")
}

// the entry points of one path, behind one shape
type c20Path struct {
	lenCheck string // "-" or "min:max" when the path checks the part length first
	init     func() error
	nonce    func() string
	update   func(key []byte, nonce string) (proceeded bool, res *RekeyResult, err error)
	cancel   func()
	progress func() int
	rekeys   bool // a success replaces key material (fingerprint must change)
}

func c20PathFor(t *testing.T, rc *c20RotCore, n, th int) *c20Path {
	ctx := namespace.RootContext(context.Background())
	ns := namespace.RootNamespace
	core := rc.core
	sm := core.sealManager
	min, max := core.barrier.KeyLength()
	max += shamir.ShareOverhead
	lc := strconv.Itoa(min) + ":" + strconv.Itoa(max)
	newCfg := func() *SealConfig {
		if rc.kind == "root-auto" || rc.kind == "legacy-root-auto" {
			return &SealConfig{SecretShares: 1, SecretThreshold: 1}
		}
		return &SealConfig{SecretShares: n, SecretThreshold: th}
	}
	switch rc.kind {
	case "root-shamir", "root-auto", "recovery":
		return &c20Path{lenCheck: "-", rekeys: true,
			init: func() error { _, err := sm.InitRotation(ctx, ns, newCfg(), rc.recovery); return err },
			nonce: func() string { return sm.rotationConfig(ns.UUID, rc.recovery).Nonce },
			update: func(key []byte, nonce string) (bool, *RekeyResult, error) {
				res, err := sm.UpdateRotation(ctx, ns, key, nonce, rc.recovery)
				return err == nil && res != nil, res, err
			},
			cancel: func() { _ = sm.CancelRotation(ctx, ns.UUID, rc.recovery) },
			progress: func() int {
				if cf := sm.rotationConfig(ns.UUID, rc.recovery); cf != nil {
					return len(cf.RotationProgress)
				}
				return 0
			}}
	case "legacy-root-shamir", "legacy-root-auto", "legacy-recovery":
		conf := func() *SealConfig {
			if rc.recovery {
				return core.recoveryRotationConfig
			}
			return core.rootRotationConfig
		}
		return &c20Path{lenCheck: lc, rekeys: true,
			init: func() error {
				if e := core.RekeyInit(newCfg(), rc.recovery); e != nil {
					return e
				}
				return nil
			},
			nonce: func() string { return conf().Nonce },
			update: func(key []byte, nonce string) (bool, *RekeyResult, error) {
				res, e := core.RekeyUpdate(ctx, key, nonce, rc.recovery)
				if e != nil {
					return false, nil, e
				}
				return res != nil, res, nil
			},
			cancel: func() { _ = core.RekeyCancel(rc.recovery) },
			progress: func() int {
				if cf := conf(); cf != nil {
					return len(cf.RotationProgress)
				}
				return 0
			}}
	case "genroot-shamir", "genroot-auto":
		return &c20Path{lenCheck: lc, rekeys: false,
			init: func() error {
				otp, err := base62.Random(TokenPrefixLength + TokenLength)
				if err != nil {
					return err
				}
				return core.GenerateRootInit(ctx, otp, "", GenerateStandardRootTokenStrategy)
			},
			nonce: func() string {
				if g := core.namespaceRootGens[ns.UUID]; g != nil {
					return g.Config.Nonce
				}
				return ""
			},
			update: func(key []byte, nonce string) (bool, *RekeyResult, error) {
				res, err := core.GenerateRootUpdate(ctx, key, nonce, GenerateStandardRootTokenStrategy)
				return err == nil && res != nil && res.EncodedToken != "", nil, err
			},
			cancel: func() { _ = core.GenerateRootCancel(ctx) },
			progress: func() int {
				if g := core.namespaceRootGens[ns.UUID]; g != nil {
					return len(g.Progress)
				}
				return 0
			}}
	}
	t.Fatalf("unknown kind %s", rc.kind)
	return nil
}

// c20Verification: the VERIFICATION phase of a root-key rotation started with require_verification (sys/rotate/root/
// verify, SealManager.VerifyRotation): the NEW shares are submitted; the rotation takes effect only once `threshold`
// DISTINCT genuine new shares have been supplied. Same accounting, same model (`rotSubmit`), op lines of kind
// `verify-root-shamir` with the new key as the secret.
func c20Verification(t *testing.T, out *vh.Out, rng *vh.Rand) {
	ctx := namespace.RootContext(context.Background())
	ns := namespace.RootNamespace
	cases := 40
	if vh.Thorough() {
		cases = 400
	}
	for ci, c := range [][2]int{{3, 2}, {5, 3}} {
		n, th := c[0], c[1]
		rc := c20NewRotCore(t, "root-shamir", n, th)
		sm := rc.core.sealManager
		for k := 0; k < cases; k++ {
			r := rng.Fork(uint64(9000000 + ci*1000003 + k))
			_ = sm.CancelRotation(ctx, ns.UUID, false)
			if _, err := sm.InitRotation(ctx, ns, &SealConfig{Type: rc.core.seal.BarrierType().String(), SecretShares: n, SecretThreshold: th, VerificationRequired: true}, false); err != nil {
				t.Fatalf("verify init: %v", err)
			}
			var result *RekeyResult
			for i := 0; i < th; i++ {
				res, err := sm.UpdateRotation(ctx, ns, append([]byte(nil), rc.shares[i]...), sm.rotationConfig(ns.UUID, false).Nonce, false)
				if err != nil {
					t.Fatalf("verify set-up update %d: %v", i, err)
				}
				result = res
			}
			if result == nil || !result.VerificationRequired || len(result.SecretShares) != n {
				t.Fatalf("verify set-up: no verification phase: %+v", result)
			}
			newKey := append([]byte(nil), sm.rotationConfig(ns.UUID, false).VerificationKey...)
			out.Reset()
			var hist [][]byte
			attempt := map[string]bool{}
			steps := 2 + r.Intn(th+4)
			for s := 0; s < steps; s++ {
				var part []byte
				sl := len(result.SecretShares[0])
				switch x := r.Intn(100); {
				case x < 45:
					part = append([]byte(nil), result.SecretShares[r.Intn(n)]...)
				case x < 75 && len(hist) > 0:
					part = append([]byte(nil), hist[r.Intn(len(hist))]...) // a share submitted before
				case x < 85:
					part = append([]byte(nil), rc.shares[r.Intn(len(rc.shares))]...) // a share of the OLD key
				default:
					part = r.Bytes(sl)
				}
				hist = append(hist, part)
				cf := sm.rotationConfig(ns.UUID, false)
				ret, err := sm.VerifyRotation(ctx, ns, append(make([]byte, 0, len(part)+1), part...), cf.VerificationNonce, false)
				cls := c20RotClass(ret != nil && ret.Complete, err)
				p := 0
				if cf2 := sm.rotationConfig(ns.UUID, false); cf2 != nil {
					p = len(cf2.VerificationProgress)
				}
				if cls == "pending" {
					cls = "pending:" + strconv.Itoa(p)
				}
				viol := ""
				if attempt[string(part)] && cls != "dup" {
					viol = "!QUORUM:the verification step accepted a share that had already been supplied in this attempt (" + cls + ": progress " + strconv.Itoa(p) + " with " + strconv.Itoa(len(attempt)) + " distinct share(s)): the threshold is not one of DISTINCT shares#c20-verify-duplicate-counted"
				}
				if cls != "dup" {
					attempt[string(part)] = true
				}
				if cls == "verify-fail" || strings.HasPrefix(cls, "cerr") {
					attempt = map[string]bool{}
				}
				out.Op(cls+";progress="+strconv.Itoa(p)+viol, "rotate", "verify-root-shamir", strconv.Itoa(th), "-", vh.Hex(newKey), vh.Hex(part))
				if cls == "proceeds" {
					rc.shares = result.SecretShares
					break
				}
			}
		}
		_ = sm.CancelRotation(ctx, ns.UUID, false)
	}
}

func c20Rotation(t *testing.T, out *vh.Out, rng *vh.Rand) {
	ctx := namespace.RootContext(context.Background())
	type cfg struct {
		kind string
		n, t int
	}
	cfgs := []cfg{{"root-shamir", 1, 1}, {"root-shamir", 3, 2}, {"root-shamir", 5, 3},
		{"root-auto", 3, 2}, {"root-auto", 5, 3}, {"recovery", 3, 2}, {"recovery", 5, 3},
		{"legacy-root-shamir", 3, 2}, {"legacy-root-auto", 5, 3}, {"legacy-recovery", 3, 2},
		{"genroot-shamir", 3, 2}, {"genroot-auto", 5, 3}}
	cases := 60
	if vh.Thorough() {
		cfgs = append(cfgs, cfg{"root-shamir", 7, 4}, cfg{"root-auto", 1, 1}, cfg{"root-auto", 10, 5},
			cfg{"recovery", 1, 1}, cfg{"recovery", 7, 4}, cfg{"legacy-root-shamir", 1, 1}, cfg{"legacy-root-shamir", 5, 3},
			cfg{"legacy-root-auto", 3, 2}, cfg{"legacy-recovery", 5, 3}, cfg{"genroot-shamir", 1, 1}, cfg{"genroot-auto", 3, 2})
		cases = 600
	}
	for ci, c := range cfgs {
		rc := c20NewRotCore(t, c.kind, c.n, c.t)
		path := c20PathFor(t, rc, c.n, c.t)
		thr := strconv.Itoa(c.t)
		for k := 0; k < cases; k++ {
			r := rng.Fork(uint64(7000000 + ci*1000003 + k))
			path.cancel()
			if err := path.init(); err != nil {
				t.Fatalf("%v init: %v", c, err)
			}
			nonce := path.nonce()
			out.Reset()
			genuine := map[string]bool{}
			for _, sh := range rc.shares {
				genuine[string(sh)] = true
			}
			var hist [][]byte
			attempt := map[string]bool{} // distinct recorded parts since the last completed combine
			steps := 1 + r.Intn(c.t+4)
			// some cases are a clean quorum (so that rotations do happen), some are all-forged of the right shape
			mode := r.Intn(10)
			done := false
			for s := 0; s < steps && !done; s++ {
				var part []byte
				x := r.Intn(100)
				switch {
				case mode < 3:
					x = r.Intn(50) // genuine only (+ repeats)
				case mode == 3:
					x = 80 + r.Intn(14) // forged parts of share shape only
				}
				sl := len(rc.shares[0])
				switch {
				case x < 40:
					part = append([]byte(nil), rc.shares[r.Intn(len(rc.shares))]...)
				case x < 50 && len(hist) > 0:
					part = append([]byte(nil), hist[r.Intn(len(hist))]...)
				case x < 50:
					part = append([]byte(nil), rc.shares[r.Intn(len(rc.shares))]...)
				case x < 56:
					part = r.Bytes(r.Intn(16))
				case x < 62:
					part = r.Bytes(sl + 1 + r.Intn(8))
				case x < 80:
					part = r.Bytes(sl)
				case x < 87:
					part = r.Bytes(sl)
					part[sl-1] = byte(1 + r.Intn(255))
				case x < 94: // a genuine share with one y byte changed: same x tag, different part
					part = append([]byte(nil), rc.shares[r.Intn(len(rc.shares))]...)
					if sl > 1 {
						part[r.Intn(sl-1)] ^= byte(1 + r.Intn(255))
					} else {
						part[0] ^= 1
					}
				default:
					part = r.Bytes(16 + r.Intn(18))
				}
				hist = append(hist, part)
				before := c20RotFingerprint(rc)
				var res *RekeyResult
				var err error
				proceeded := false
				cls := vh.Catch(func() string {
					// a non-nil copy even when empty, as the API handlers produce (hex/base64 decoding of a non-empty string)
					proceeded, res, err = path.update(append(make([]byte, 0, len(part)+1), part...), nonce)
					return ""
				})
				after := c20RotFingerprint(rc)
				if cls == "" {
					cls = c20RotClass(proceeded, err)
				}
				p := path.progress()
				if cls == "pending" {
					cls = "pending:" + strconv.Itoa(p)
				}
				viol := ""
				if cls != "dup" && cls != "short" && cls != "long" {
					attempt[string(part)] = true
				}
				nGenuine := 0
				for q := range attempt {
					if genuine[q] {
						nGenuine++
					}
				}
				switch {
				case cls == "proceeds":
					if nGenuine < c.t {
						viol = "!QUORUM:" + c.kind + " proceeded with " + strconv.Itoa(nGenuine) + " genuine distinct share(s) of threshold " + thr + "#c20-rotation-without-quorum"
					} else if path.rekeys && after == before {
						viol = "!QUORUM:rotation reported success but nothing was rotated#c20-rotation-noop"
					}
				case after != before:
					viol = "!QUORUM:" + c.kind + " keys changed although the operation did not proceed (" + cls + ")#c20-rotation-without-quorum"
				case strings.HasPrefix(cls, "pending") && p >= c.t:
					viol = "!QUORUM:threshold reached without attempting recovery#c20-threshold-stall"
				}
				out.Op(cls+";progress="+strconv.Itoa(p)+viol, "rotate", c.kind, thr, path.lenCheck, vh.Hex(rc.secret), vh.Hex(part))
				if cls == "verify-fail" || strings.HasPrefix(cls, "cerr") {
					attempt = map[string]bool{}
				}
				if cls == "proceeds" {
					done = true
					// new key material: genuine shares / secret of the next case
					switch c.kind {
					case "root-shamir", "legacy-root-shamir":
						rc.shares = res.SecretShares
						rc.secret = c20ShamirKek(t, rc)
					case "recovery", "legacy-recovery":
						rc.shares = res.SecretShares
						k, err := rc.core.seal.RecoveryKey(ctx)
						if err != nil {
							t.Fatalf("recovery key: %v", err)
						}
						rc.secret = k
					}
				}
			}
		}
		path.cancel()
	}
}
