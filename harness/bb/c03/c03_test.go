//go:build verif

package c03

// Black-box correspondence harness for C03 (ACL decisions), overlaid as internal/zzverif/c03.
// Generates policies as HCL text, parses them with policy.ParseACLPolicy (so the parsePaths post-processing is
// compared as well), builds ACLs with policy.NewACL in several attachment orders, and evaluates
// AllowOperation / Capabilities on generated requests. One line per operation, see lean/Driver/ACL.lean.

import (
	"encoding/json"
	"context"
	"sort"
	"strconv"
	"strings"
	"testing"
	"time"

	"github.com/openbao/openbao/sdk/v2/logical"
	"github.com/openbao/openbao/v2/internal/helper/namespace"
	"github.com/openbao/openbao/v2/internal/vault/policy"
	"github.com/openbao/openbao/v2/internal/zzverif/vh"
)

// ---------------------------------------------------------------- values

type val struct {
	kind byte // 's', 'i', 'b', 'n'
	s    string
	i    int
	b    bool
}

func (v val) goVal() any {
	switch v.kind {
	case 's':
		return v.s
	case 'i':
		return v.i
	case 'b':
		return v.b
	}
	return nil
}

func (v val) enc() string {
	switch v.kind {
	case 's':
		return "s" + vh.HexS(v.s)
	case 'i':
		return "i" + strconv.Itoa(v.i)
	case 'b':
		if v.b {
			return "bt"
		}
		return "bf"
	}
	return "n"
}

func (v val) hcl() string {
	switch v.kind {
	case 's':
		return strconv.Quote(v.s)
	case 'i':
		return strconv.Itoa(v.i)
	case 'b':
		return strconv.FormatBool(v.b)
	}
	return `""`
}

func encAny(x any) string {
	switch t := x.(type) {
	case nil:
		return "n"
	case string:
		return "s" + vh.HexS(t)
	case int:
		return "i" + strconv.Itoa(t)
	case int64:
		return "i" + strconv.FormatInt(t, 10)
	case json.Number:
		return "i" + t.String()
	case bool:
		if t {
			return "bt"
		}
		return "bf"
	}
	return "?" + vh.Sprintf("%T", x)
}

func sv(s string) val { return val{kind: 's', s: s} }
func iv(i int) val    { return val{kind: 'i', i: i} }

// ---------------------------------------------------------------- source rules

type pmap struct {
	present bool
	keys    []string
	vals    [][]val
}

func (m pmap) enc() string {
	if !m.present {
		return "-"
	}
	if len(m.keys) == 0 {
		return "{}"
	}
	es := make([]string, len(m.keys))
	for i, k := range m.keys {
		vs := make([]string, len(m.vals[i]))
		for j, v := range m.vals[i] {
			vs[j] = v.enc()
		}
		es[i] = vh.HexS(k) + "=" + strings.Join(vs, ",")
	}
	return strings.Join(es, ";")
}

func (m pmap) hcl() string {
	var b strings.Builder
	b.WriteString("{ ")
	for i, k := range m.keys {
		vs := make([]string, len(m.vals[i]))
		for j, v := range m.vals[i] {
			vs[j] = v.hcl()
		}
		b.WriteString(strconv.Quote(k) + " = [" + strings.Join(vs, ", ") + "] ")
	}
	b.WriteString("}")
	return b.String()
}

type srcRule struct {
	path        string
	capsPresent bool
	caps        []string
	legacy      string
	min, max    *int
	allowed     pmap
	denied      pmap
	required    []string
	pag         int
	pagPresent  bool
	exp         *int // expiration = now + exp seconds (only far offsets: the text is parsed many times during a case)
}

func optInt(p *int) string {
	if p == nil {
		return "-"
	}
	return strconv.Itoa(*p)
}

func csvOrDash(xs []string) string {
	if len(xs) == 0 {
		return "-"
	}
	return strings.Join(xs, ",")
}

func (r srcRule) enc() string {
	req := make([]string, len(r.required))
	for i, k := range r.required {
		req[i] = vh.HexS(k)
	}
	leg := r.legacy
	if leg == "" {
		leg = "-"
	}
	return strings.Join([]string{vh.HexS(r.path), csvOrDash(r.caps), leg, optInt(r.min), optInt(r.max),
		r.allowed.enc(), r.denied.enc(), csvOrDash(req), strconv.Itoa(r.pag), optInt(r.exp)}, "|")
}

func quoteAll(xs []string) string {
	q := make([]string, len(xs))
	for i, x := range xs {
		q[i] = strconv.Quote(x)
	}
	return "[" + strings.Join(q, ", ") + "]"
}

func (r srcRule) hcl() string {
	var b strings.Builder
	b.WriteString("path " + strconv.Quote(r.path) + " {\n")
	if r.capsPresent {
		b.WriteString("  capabilities = " + quoteAll(r.caps) + "\n")
	}
	if r.legacy != "" {
		b.WriteString("  policy = " + strconv.Quote(r.legacy) + "\n")
	}
	if r.min != nil {
		b.WriteString("  min_wrapping_ttl = " + strconv.Itoa(*r.min) + "\n")
	}
	if r.max != nil {
		b.WriteString("  max_wrapping_ttl = " + strconv.Itoa(*r.max) + "\n")
	}
	if r.allowed.present {
		b.WriteString("  allowed_parameters = " + r.allowed.hcl() + "\n")
	}
	if r.denied.present {
		b.WriteString("  denied_parameters = " + r.denied.hcl() + "\n")
	}
	if len(r.required) > 0 {
		b.WriteString("  required_parameters = " + quoteAll(r.required) + "\n")
	}
	if r.pagPresent {
		b.WriteString("  pagination_limit = " + strconv.Itoa(r.pag) + "\n")
	}
	if r.exp != nil {
		b.WriteString("  expiration = " + strconv.Quote(time.Now().Add(time.Duration(*r.exp)*time.Second).UTC().Format(time.RFC3339)) + "\n")
	}
	b.WriteString("}\n")
	return b.String()
}

type srcPolicy struct {
	name   string
	rules  []srcRule
	text   string
	shared *policy.Policy // parsed once, re-used by "shared" attachments (as the policy cache does)
	ok     bool
}

// ---------------------------------------------------------------- canonical output of the parsed policy

func durSec(d time.Duration) string {
	if d%time.Second != 0 {
		return "ns" + strconv.FormatInt(int64(d), 10)
	}
	return strconv.FormatInt(int64(d/time.Second), 10)
}

func showPM(m map[string][]any) string {
	if len(m) == 0 {
		return "-"
	}
	keys := make([]string, 0, len(m))
	for k := range m {
		keys = append(keys, k)
	}
	sort.Strings(keys)
	es := make([]string, len(keys))
	for i, k := range keys {
		vs := make([]string, len(m[k]))
		for j, v := range m[k] {
			vs[j] = encAny(v)
		}
		es[i] = vh.HexS(k) + "=" + strings.Join(vs, ",")
	}
	return strings.Join(es, ";")
}

func expClass(t time.Time) string {
	switch {
	case t.IsZero():
		return "-"
	case t.After(time.Now()):
		return "fut"
	}
	return "past"
}

func showParsed(p *policy.Policy) string {
	if len(p.Paths) == 0 {
		return "ok -"
	}
	rs := make([]string, len(p.Paths))
	for i, pr := range p.Paths {
		kind := "E"
		if pr.HasSegmentWildcards {
			kind = "S"
		} else if pr.IsPrefix {
			kind = "P"
		}
		pm := pr.Permissions
		req := make([]string, len(pm.RequiredParameters))
		for j, k := range pm.RequiredParameters {
			req[j] = vh.HexS(k)
		}
		rs[i] = strings.Join([]string{vh.HexS(pr.Path), kind, strconv.FormatUint(uint64(pm.CapabilitiesBitmap), 10),
			durSec(pm.MinWrappingTTL), durSec(pm.MaxWrappingTTL), showPM(pm.AllowedParameters), showPM(pm.DeniedParameters),
			csvOrDash(req), strconv.Itoa(pm.PaginationLimit), expClass(pr.Expiration)}, "|")
	}
	return "ok " + strings.Join(rs, "&")
}

func parseErrClass(err error) string {
	s := err.Error()
	switch {
	case strings.Contains(s, "'+*' is forbidden"):
		return "err:plusstar"
	case strings.Contains(s, "invalid capability"):
		return "err:badcap"
	case strings.Contains(s, "invalid policy"):
		return "err:badpolicy"
	case strings.Contains(s, "max_wrapping_ttl cannot be less"):
		return "err:ttl"
	case strings.Contains(s, "_wrapping_ttl cannot be negative"):
		return "err:negttl"
	case strings.Contains(s, "more than once (parameter names are case-insensitive)"):
		return "err:dupparam"
	}
	return "err:other"
}

// ---------------------------------------------------------------- requests

type request struct {
	path string
	op   string
	keys []string
	vals []val
	wrap *int
}

func (r request) dataEnc() string {
	if len(r.keys) == 0 {
		return "-"
	}
	idx := make([]int, len(r.keys))
	for i := range idx {
		idx[i] = i
	}
	sort.Slice(idx, func(a, b int) bool { return r.keys[idx[a]] < r.keys[idx[b]] })
	es := make([]string, len(idx))
	for i, j := range idx {
		es[i] = vh.HexS(r.keys[j]) + "=" + r.vals[j].enc()
	}
	return strings.Join(es, ";")
}

func (r request) build(nilWhenEmpty bool) *logical.Request {
	req := &logical.Request{Path: r.path, Operation: logical.Operation(r.op)}
	if len(r.keys) > 0 || !nilWhenEmpty {
		req.Data = make(map[string]any, len(r.keys))
		// numbers: a request that came in over the API carries json.Number (the body is decoded with UseNumber), an
		// internal caller a Go int; both forms are driven (chosen by a parity of the request, so a replay is exact)
		jn := (len(r.path)+len(r.keys))%2 == 0
		for i, k := range r.keys {
			if v := r.vals[i]; jn && v.kind == 'i' {
				req.Data[k] = json.Number(strconv.Itoa(v.i))
			} else {
				req.Data[k] = v.goVal()
			}
		}
	}
	if r.wrap != nil {
		req.WrapInfo = &logical.RequestWrapInfo{TTL: time.Duration(*r.wrap) * time.Second}
	}
	return req
}

func b01(b bool) string {
	if b {
		return "1"
	}
	return "0"
}

func showRes(res *policy.ACLResults, req *logical.Request) string {
	l := "-"
	if v, ok := req.Data["limit"]; ok {
		l = encAny(v)
	}
	return "a=" + b01(res.Allowed) + " r=" + b01(res.RootPrivs) + " i=" + b01(res.IsRoot) + " c=" +
		strconv.FormatUint(uint64(res.CapabilitiesBitmap), 10) + " l=" + l
}

// ---------------------------------------------------------------- the harness state of one case

type env struct {
	ctx   context.Context
	out   *vh.Out
	rng   *vh.Rand
	pols  []*srcPolicy
	slots map[int]*policy.ACL
	// shadow[slot]: the ACL built from the same policies with the expired stanzas REMOVED and no expiration left on
	// the others (nil when no stanza of the slot carries an expiration)
	shadow map[int]*policy.ACL
	t      *testing.T
}

// override: before NewACL, set Paths[stanza].Expiration of the k-th attached (freshly parsed) policy object to
// now+off seconds, or to the zero time. This plays the cached policy whose stanza expires while it sits in the LRU.
type override struct {
	k, stanza int
	off       int
	zero      bool
}

func (o override) enc() string {
	off := "z"
	if !o.zero {
		off = strconv.Itoa(o.off)
	}
	return strconv.Itoa(o.k) + ":" + strconv.Itoa(o.stanza) + ":" + off
}

func (e *env) addPolicy(name string, rules []srcRule) *srcPolicy {
	sp := &srcPolicy{name: name, rules: rules}
	var b strings.Builder
	fields := []string{"policy", name}
	for _, r := range rules {
		b.WriteString(r.hcl())
		fields = append(fields, r.enc())
	}
	sp.text = b.String()
	res := vh.Catch(func() string {
		p, err := policy.ParseACLPolicy(namespace.RootNamespace, sp.text)
		if err != nil {
			return parseErrClass(err)
		}
		p.Name = name
		sp.shared = p
		sp.ok = true
		return showParsed(p)
	})
	e.out.Op(res, fields...)
	e.pols = append(e.pols, sp)
	return sp
}

// reparse parses the same policy text many times: the parsed stanzas must be the same every time (the decision must be
// a function of the policy text, whatever node, restart or cache reload parsed it)
func (e *env) reparse(name string, rules []srcRule) {
	var b strings.Builder
	fields := []string{"reparse", name}
	for _, r := range rules {
		b.WriteString(r.hcl())
		fields = append(fields, r.enc())
	}
	text := b.String()
	res := vh.Catch(func() string {
		first := ""
		for i := 0; i < 300; i++ {
			p, err := policy.ParseACLPolicy(namespace.RootNamespace, text)
			cur := ""
			if err != nil {
				cur = parseErrClass(err)
			} else {
				cur = showParsed(p)
			}
			if i == 0 {
				first = cur
			} else if cur != first {
				return "unstable!VIOL:the same policy text parses to different stanzas (parameter names differing only in case)#parse-nondeterministic-param-key-case"
			}
		}
		return "stable"
	})
	e.out.Op(res, fields...)
}

// attach builds an ACL over the policies with the given indices (-1 = nil entry)
func (e *env) attach(slot int, shared bool, idxs []int) bool { return e.attachOv(slot, shared, idxs, nil) }

func (e *env) attachOv(slot int, shared bool, idxs []int, ovs []override) bool {
	build := func() []*policy.Policy {
		ps := make([]*policy.Policy, 0, len(idxs))
		for _, ix := range idxs {
			if ix < 0 {
				ps = append(ps, nil)
				continue
			}
			sp := e.pols[ix]
			if shared {
				ps = append(ps, sp.shared)
			} else {
				p, err := policy.ParseACLPolicy(namespace.RootNamespace, sp.text)
				if err != nil {
					e.t.Fatalf("re-parse failed: %v", err)
				}
				p.Name = sp.name
				ps = append(ps, p)
			}
		}
		return ps
	}
	enc := make([]string, len(idxs))
	for i, ix := range idxs {
		enc[i] = "n"
		if ix >= 0 {
			enc[i] = strconv.Itoa(ix)
		}
	}
	ps := build()
	now := time.Now()
	for _, o := range ovs {
		if o.zero {
			ps[o.k].Paths[o.stanza].Expiration = time.Time{}
		} else {
			ps[o.k].Paths[o.stanza].Expiration = now.Add(time.Duration(o.off) * time.Second)
		}
	}
	// the shadow: expired stanzas removed by hand, nothing left for NewACL's expiry test to do
	delete(e.shadow, slot)
	if !shared {
		any := false
		for _, p := range ps {
			if p == nil {
				continue
			}
			for _, pr := range p.Paths {
				any = any || !pr.Expiration.IsZero()
			}
		}
		if any {
			sh := build()
			for k, p := range ps {
				if p == nil {
					continue
				}
				var keep []*policy.PathRules
				for i, pr := range p.Paths {
					if !pr.Expiration.IsZero() && pr.Expiration.Before(now) {
						continue
					}
					q := sh[k].Paths[i]
					q.Expiration = time.Time{}
					keep = append(keep, q)
				}
				sh[k].Paths = keep
			}
			if acl, err := policy.NewACL(e.ctx, sh); err == nil {
				e.shadow[slot] = acl
			}
		}
	}
	mode := "fresh"
	if shared {
		mode = "shared"
	}
	okk := false
	res := vh.Catch(func() string {
		acl, err := policy.NewACL(e.ctx, ps)
		if err != nil {
			if strings.Contains(err.Error(), "other policies present along with root") {
				return "err:root"
			}
			return "err:other"
		}
		e.slots[slot] = acl
		okk = true
		return "ok"
	})
	idxEnc := "-"
	if len(enc) > 0 {
		idxEnc = strings.Join(enc, ",")
	}
	ovEnc := "-"
	if len(ovs) > 0 {
		oe := make([]string, len(ovs))
		for i, o := range ovs {
			oe[i] = o.enc()
		}
		ovEnc = strings.Join(oe, ";")
	}
	e.out.Op(res, "attach", strconv.Itoa(slot), mode, idxEnc, ovEnc)
	return okk
}

const expiredMarker = "!VIOL:a stanza whose expiration has passed when the ACL is built still contributes to the decision (differs from the ACL built without it)"

func (e *env) evalAllow(slot int, cc bool, r request) string {
	acl := e.slots[slot]
	return vh.Catch(func() string {
		req := r.build(e.rng.Bool())
		res := acl.AllowOperation(e.ctx, req, cc)
		return showRes(res, req)
	})
}

func (e *env) allow(slot int, cc bool, r request, marker string) string {
	res := e.evalAllow(slot, cc, r)
	if sh := e.shadow[slot]; sh != nil && marker == "" {
		want := vh.Catch(func() string {
			req := r.build(false)
			return showRes(sh.AllowOperation(e.ctx, req, cc), req)
		})
		if want != res {
			marker = expiredMarker
		}
	}
	e.out.Op(res+marker, "allow", strconv.Itoa(slot), b01(cc), r.op, vh.HexS(r.path), r.dataEnc(), optInt(r.wrap))
	return res
}

var capOps = []struct {
	op, capName string
	bit         uint32
}{
	{"create", "create", policy.CreateCapabilityInt}, {"read", "read", policy.ReadCapabilityInt},
	{"update", "update", policy.UpdateCapabilityInt}, {"patch", "patch", policy.PatchCapabilityInt},
	{"delete", "delete", policy.DeleteCapabilityInt}, {"list", "list", policy.ListCapabilityInt},
	{"scan", "scan", policy.ScanCapabilityInt},
}

// caps writes Capabilities(path) and evaluates the property "the reported capability list agrees with the
// operations actually permitted" directly on the implementation: for each of the seven path operations,
//   (1) permitted with empty data and no wrapping  =>  its capability is reported;
//   (2) its capability is reported  <=>  the rule that decides this operation carries the capability
//       (AllowOperation(capCheckOnly) bitmap of that very operation);
//   (3) "deny" reported  =>  nothing is permitted;   (4) "root" reported  =>  everything is permitted.
func (e *env) caps(slot int, path string) {
	acl := e.slots[slot]
	marker := ""
	res := vh.Catch(func() string {
		cs := acl.Capabilities(e.ctx, path)
		has := map[string]bool{}
		for _, c := range cs {
			has[c] = true
		}
		for _, co := range capOps {
			r0 := acl.AllowOperation(e.ctx, &logical.Request{Path: path, Operation: logical.Operation(co.op)}, false)
			r1 := acl.AllowOperation(e.ctx, &logical.Request{Path: path, Operation: logical.Operation(co.op)}, true)
			bad := ""
			switch {
			case has["root"]:
				if !r0.Allowed {
					bad = "root reported but " + co.op + " denied"
				}
			case r0.Allowed && !has[co.capName]:
				bad = co.op + " permitted but capability not reported"
			case has["deny"] && r0.Allowed:
				bad = "deny reported but " + co.op + " permitted"
			case has[co.capName] != (r1.CapabilitiesBitmap&co.bit > 0 && r1.CapabilitiesBitmap&policy.DenyCapabilityInt == 0):
				bad = "capability " + co.capName + " reported=" + b01(has[co.capName]) + " but the rule deciding " + co.op + " says otherwise"
			}
			if bad != "" && marker == "" {
				sig := ""
				if strings.HasSuffix(path, "/") && co.op != "list" && co.op != "scan" {
					// Capabilities evaluates the path as a LIST request, so for a path with a trailing slash it
					// reports the rule found by the list fallback (pattern without the slash)
					sig = "#caps-trailing-slash-list-fallback"
				}
				marker = "!VIOL:" + bad + sig
			}
		}
		if sh := e.shadow[slot]; sh != nil && marker == "" {
			if strings.Join(sh.Capabilities(e.ctx, path), ",") != strings.Join(cs, ",") {
				marker = expiredMarker
			}
		}
		return strings.Join(cs, ",")
	})
	e.out.Op(res+marker, "caps", strconv.Itoa(slot), vh.HexS(path))
}

// ---------------------------------------------------------------- generators

var litSegs = []string{"a", "b", "ab", "c"}

func genPattern(rng *vh.Rand) string {
	switch rng.Intn(40) {
	case 0:
		return "*"
	case 1:
		return "+"
	case 2:
		return ""
	case 3:
		return "+/*"
	}
	n := 1 + rng.Intn(4)
	segs := make([]string, n)
	for i := range segs {
		switch x := rng.Intn(100); {
		case x < 55:
			segs[i] = rng.Pick(litSegs)
		case x < 85:
			segs[i] = "+"
		case x < 90:
			segs[i] = rng.Pick([]string{"+a", "a+", "a+b"})
		case x < 94:
			segs[i] = ""
		default:
			segs[i] = rng.Pick([]string{"abc", "ba", "d"})
		}
	}
	p := strings.Join(segs, "/")
	switch x := rng.Intn(100); {
	case x < 25:
		if strings.HasSuffix(p, "+") && rng.Chance(85) {
			p += "/*" // "+*" is rejected by the parser: keep that error rare
		} else {
			p += "*"
		}
	case x < 40:
		p += "/*"
	case x < 50:
		p += "/"
	}
	if rng.Chance(5) {
		p = "/" + p
	}
	return p
}

func genReqPath(rng *vh.Rand, pool []string) string {
	var p string
	if len(pool) > 0 && rng.Chance(75) {
		// derived from a pattern: instantiate '+', extend a glob
		pat := pool[rng.Intn(len(pool))]
		pat = strings.TrimPrefix(pat, "/")
		glob := strings.HasSuffix(pat, "*")
		pat = strings.TrimSuffix(pat, "*")
		segs := strings.Split(pat, "/")
		for i, s := range segs {
			if s == "+" && rng.Chance(90) {
				segs[i] = rng.Pick([]string{"a", "b", "ab", "c", "zz", ""})
			}
		}
		p = strings.Join(segs, "/")
		if glob {
			switch rng.Intn(5) {
			case 0:
			case 1:
				p += rng.Pick(litSegs)
			case 2:
				p += "/" + rng.Pick(litSegs)
			case 3:
				p += rng.Pick(litSegs) + "/" + rng.Pick(litSegs) + "/" + rng.Pick(litSegs)
			case 4:
				p += "/"
			}
		}
		if rng.Chance(10) && len(p) > 0 {
			p = p[:len(p)-1] // drop the last byte
		}
	} else {
		n := 1 + rng.Intn(5)
		segs := make([]string, n)
		for i := range segs {
			switch x := rng.Intn(100); {
			case x < 80:
				segs[i] = rng.Pick(litSegs)
			case x < 88:
				segs[i] = rng.Pick([]string{"abc", "ba", "d", "zz"})
			case x < 94:
				segs[i] = "+"
			case x < 97:
				segs[i] = rng.Pick([]string{"+a", "a+", "a+b"})
			default:
				segs[i] = ""
			}
		}
		p = strings.Join(segs, "/")
	}
	switch x := rng.Intn(100); {
	case x < 30:
		p += "/"
	case x < 33:
		p += "//"
	}
	if rng.Chance(4) {
		p = "/" + p
	}
	return p
}

var capNames = []string{"create", "read", "update", "delete", "list", "sudo", "patch", "scan"}

func genValList(rng *vh.Rand) []val {
	if rng.Chance(30) {
		return []val{}
	}
	n := 1 + rng.Intn(3)
	vs := make([]val, n)
	for i := range vs {
		switch rng.Intn(12) {
		case 0, 1:
			vs[i] = sv("a")
		case 2:
			vs[i] = sv("b")
		case 3:
			vs[i] = sv("a*")
		case 4:
			vs[i] = sv("*b")
		case 5:
			vs[i] = sv("*a*")
		case 6:
			vs[i] = sv("*")
		case 7:
			vs[i] = iv(1)
		case 8:
			vs[i] = iv(2)
		case 9:
			vs[i] = val{kind: 'b', b: true}
		case 10:
			vs[i] = sv("**")
		default:
			vs[i] = sv("")
		}
	}
	return vs
}

func genPMap(rng *vh.Rand, pct int) pmap {
	if !rng.Chance(pct) {
		return pmap{}
	}
	if rng.Chance(5) {
		return pmap{present: true}
	}
	m := pmap{present: true}
	n := 1 + rng.Intn(3)
	seen := map[string]bool{}
	for i := 0; i < n; i++ {
		k := rng.Pick([]string{"k", "k", "j", "*", "K", "limit"})
		if seen[strings.ToLower(k)] {
			continue // keys of one stanza stay distinct after lower-casing (see the note in props/C03.py)
		}
		seen[strings.ToLower(k)] = true
		m.keys = append(m.keys, k)
		m.vals = append(m.vals, genValList(rng))
	}
	return m
}

func ip(i int) *int { return &i }

func genRule(rng *vh.Rand, pattern string, negTTL bool) srcRule {
	r := srcRule{path: pattern}
	if rng.Chance(95) {
		r.capsPresent = true
		switch x := rng.Intn(100); {
		case x < 12:
			r.caps = []string{"deny"}
			if rng.Chance(30) {
				r.caps = append([]string{rng.Pick(capNames)}, r.caps...)
			}
			if rng.Chance(20) {
				r.caps = append(r.caps, rng.Pick(capNames))
			}
		case x < 14:
			r.caps = []string{}
		default:
			for _, c := range capNames {
				if rng.Chance(45) {
					r.caps = append(r.caps, c)
				}
			}
			if r.caps == nil {
				r.caps = []string{rng.Pick(capNames)}
			}
		}
		if rng.Chance(1) {
			r.caps = append(r.caps, "bogus")
		}
	}
	if rng.Chance(6) {
		r.legacy = rng.Pick([]string{"deny", "read", "write", "sudo", "read", "write", "sudo", "read", "write", "bogus"})
	}
	ttls := []int{1, 5, 10, 60}
	if rng.Chance(22) {
		r.min = ip(ttls[rng.Intn(len(ttls))])
		if rng.Chance(10) {
			r.min = ip(0)
		}
	}
	if rng.Chance(22) {
		r.max = ip(ttls[rng.Intn(len(ttls))])
		if rng.Chance(10) {
			r.max = ip(0)
		}
	}
	if r.min != nil && r.max != nil && *r.max != 0 && *r.max < *r.min && rng.Chance(85) {
		r.min, r.max = r.max, r.min // max < min is a parse error: keep it rare
	}
	if negTTL && rng.Chance(40) {
		if rng.Bool() {
			r.max = ip(-1 - rng.Intn(3))
		} else {
			r.min = ip(-1 - rng.Intn(3))
		}
	}
	r.allowed = genPMap(rng, 25)
	r.denied = genPMap(rng, 20)
	if rng.Chance(15) {
		n := 1 + rng.Intn(2)
		for i := 0; i < n; i++ {
			r.required = append(r.required, rng.Pick([]string{"k", "j", "limit", "K", "Limit", "x"}))
		}
	}
	switch x := rng.Intn(100); {
	case x < 3:
		r.exp = ip(-315360000) // ten years ago: dropped by parsePaths, whatever else the stanza says
	case x < 8:
		r.exp = ip(315360000)
	}
	if rng.Chance(22) {
		r.pagPresent = true
		r.pag = []int{1, 5, 10, 10, 5, 0, -1}[rng.Intn(7)]
	}
	return r
}

var opWeights = []struct {
	op string
	w  int
}{
	{"read", 20}, {"update", 15}, {"create", 10}, {"patch", 5}, {"delete", 8}, {"list", 16}, {"scan", 9}, {"help", 2},
	{"revoke", 3}, {"renew", 2}, {"rollback", 2}, {"alias-lookahead", 2},
}

func genOp(rng *vh.Rand) string {
	tot := 0
	for _, o := range opWeights {
		tot += o.w
	}
	x := rng.Intn(tot)
	for _, o := range opWeights {
		if x < o.w {
			return o.op
		}
		x -= o.w
	}
	return "read"
}

func genDataVal(rng *vh.Rand) val {
	switch rng.Intn(12) {
	case 0, 1:
		return sv("a")
	case 2:
		return sv("b")
	case 3:
		return sv("ab")
	case 4:
		return sv("ba")
	case 5:
		return sv("c")
	case 6:
		return iv(1)
	case 7:
		return iv(2)
	case 8:
		return val{kind: 'b', b: true}
	case 9:
		return val{kind: 'n'}
	case 10:
		return sv("")
	}
	return sv("bab")
}

func genLimitVal(rng *vh.Rand) val {
	switch rng.Intn(16) {
	case 0:
		return iv(0)
	case 1:
		return iv(1)
	case 2:
		return iv(5)
	case 3:
		return iv(6)
	case 4:
		return iv(10)
	case 5:
		return iv(11)
	case 6:
		return iv(-1)
	case 7:
		return sv("5")
	case 8:
		return sv("max")
	case 9:
		return sv("x")
	case 10:
		return sv("")
	case 11:
		return val{kind: 'b', b: true}
	case 12:
		return sv("+5")
	case 13:
		return sv("-0")
	case 14:
		return sv("99999999999999999999")
	}
	return sv("1_0")
}

func genRequest(rng *vh.Rand, pool []string) request {
	r := request{path: genReqPath(rng, pool), op: genOp(rng)}
	isList := r.op == "list" || r.op == "scan"
	if rng.Chance(50) {
		n := 1 + rng.Intn(3)
		seen := map[string]bool{}
		for i := 0; i < n; i++ {
			k := rng.Pick([]string{"k", "k", "j", "K", "x", "*", "limit"})
			if seen[k] {
				continue
			}
			seen[k] = true
			r.keys = append(r.keys, k)
			if k == "limit" {
				r.vals = append(r.vals, genLimitVal(rng))
			} else {
				r.vals = append(r.vals, genDataVal(rng))
			}
		}
	}
	if isList && rng.Chance(60) {
		has := false
		for _, k := range r.keys {
			has = has || k == "limit"
		}
		if !has {
			r.keys = append(r.keys, "limit")
			r.vals = append(r.vals, genLimitVal(rng))
		}
	}
	if rng.Chance(40) {
		r.wrap = ip([]int{0, 1, 5, 7, 10, 60, 61}[rng.Intn(7)])
	}
	return r
}

func shuffled(rng *vh.Rand, xs []int) []int {
	ys := append([]int(nil), xs...)
	for i := len(ys) - 1; i > 0; i-- {
		j := rng.Intn(i + 1)
		ys[i], ys[j] = ys[j], ys[i]
	}
	return ys
}

// ---------------------------------------------------------------- cases

func newEnv(t *testing.T, out *vh.Out, rng *vh.Rand) *env {
	out.Reset()
	return &env{ctx: namespace.RootContext(context.Background()), out: out, rng: rng, slots: map[int]*policy.ACL{}, shadow: map[int]*policy.ACL{}, t: t}
}

func simpleRule(path string, caps ...string) srcRule {
	return srcRule{path: path, capsPresent: true, caps: caps}
}

// hand-written cases run first on every seed: the documented examples and the witnesses of the findings
func fixedCases(t *testing.T, out *vh.Out, rng *vh.Rand) {
	// documented priority examples
	e := newEnv(t, out, rng)
	e.addPolicy("doc", []srcRule{
		simpleRule("secret/*", "create", "read", "update", "delete", "list"),
		simpleRule("secret/super-secret", "deny"),
		simpleRule("secret/foo", "read"),
		simpleRule("secret/bar/*", "read"),
		simpleRule("secret/zip-*", "read"),
		simpleRule("secret/+/teamb", "read"),
		simpleRule("secret/+/+/foo/*", "update"),
	})
	e.attach(0, false, []int{0})
	for _, p := range []string{"secret/foo", "secret/food", "secret/foo/bar", "secret/super-secret", "secret/bar/zip",
		"secret/bars/zip", "secret/zip-zap", "secret/zip/zap", "secret/x/teamb", "secret/x/y/foo/z", "secret/", "secret", "other"} {
		for _, op := range []string{"read", "update", "list"} {
			e.allow(0, false, request{path: p, op: op}, "")
		}
		e.caps(0, p)
	}
	// witness of F19 (repaired: a negative wrapping-TTL bound is a parse error now; the case stays armed — should such
	// a stanza be accepted again, the order predicate in props/C03.py sees the two attachment orders disagree)
	e = newEnv(t, out, rng)
	ra := simpleRule("x", "read")
	ra.max = ip(-1)
	rb := simpleRule("x", "read")
	rb.max = ip(5)
	pa := e.addPolicy("a", []srcRule{ra})
	pb := e.addPolicy("b", []srcRule{rb})
	if pa.ok && pb.ok {
		e.attach(0, false, []int{0, 1})
		e.allow(0, false, request{path: "x", op: "read"}, "")
		e.attach(1, false, []int{1, 0})
		e.allow(1, false, request{path: "x", op: "read"}, "")
	}
	rmin := simpleRule("x", "read")
	rmin.min = ip(-2)
	e.addPolicy("c", []srcRule{rmin})
	rdeny := simpleRule("x", "deny")
	rdeny.max = ip(-1) // a deny stanza skips the fine-grained fields altogether
	e.addPolicy("d", []srcRule{rdeny})
	// witness: NewACL appends to slices owned by the shared *Policy objects
	e = newEnv(t, out, rng)
	mk := func(vals []val, req []string) srcRule {
		r := simpleRule("y", "update")
		r.allowed = pmap{present: true, keys: []string{"k", "*"}, vals: [][]val{vals, {}}}
		r.required = req
		return r
	}
	e.addPolicy("p1", []srcRule{mk([]val{sv("a"), sv("b"), sv("c")}, []string{"r1", "r2", "r3"})})
	e.addPolicy("p2", []srcRule{mk([]val{sv("d")}, []string{"r4"})})
	e.addPolicy("p3", []srcRule{mk([]val{sv("e")}, []string{"r5"})})
	reqs := []request{
		{path: "y", op: "update", keys: []string{"k", "r1", "r2", "r3", "r4"}, vals: []val{sv("d"), sv("1"), sv("1"), sv("1"), sv("1")}},
		{path: "y", op: "update", keys: []string{"k", "r1", "r2", "r3", "r4"}, vals: []val{sv("e"), sv("1"), sv("1"), sv("1"), sv("1")}},
		{path: "y", op: "update", keys: []string{"k", "r1", "r2", "r3", "r5"}, vals: []val{sv("a"), sv("1"), sv("1"), sv("1"), sv("1")}},
	}
	e.sharedProbe(0, []int{1, 0}, 1, []int{2, 0}, reqs)
	e.sharedProbe(2, []int{0, 1}, 3, []int{0, 2}, reqs)
	// stanza expiration while the parsed policy object is cached: "kv/*" read for ever, "kv/secret" read+update+sudo
	// until an instant that passes 5 s before / 30 s after the ACL is built; a stanza expired ten years ago is dropped
	// by the parser together with its otherwise invalid content
	e = newEnv(t, out, rng)
	rs := simpleRule("kv/secret", "read", "update", "sudo")
	rs.exp = ip(315360000)
	rold := simpleRule("kv/+*", "bogus")
	rold.exp = ip(-315360000)
	rdn := simpleRule("kv/locked", "deny")
	e.addPolicy("exp", []srcRule{simpleRule("kv/*", "read"), rs, rold, rdn})
	for i, ovs := range [][]override{nil, {{k: 0, stanza: 1, off: -5}}, {{k: 0, stanza: 1, off: 30}}, {{k: 0, stanza: 1, zero: true}},
		{{k: 0, stanza: 2, off: -5}}, {{k: 0, stanza: 0, off: -3600}, {k: 0, stanza: 1, off: -5}}} {
		if e.attachOv(i, false, []int{0}, ovs) {
			for _, p := range []string{"kv/secret", "kv/locked", "kv/other"} {
				e.allow(i, false, request{path: p, op: "update"}, "")
				e.allow(i, false, request{path: p, op: "read"}, "")
				e.allow(i, true, request{path: p, op: "read"}, "")
				e.caps(i, p)
			}
		}
	}
	// witness of F21 (repaired: two parameter names differing only in case are a parse error now; stays armed: 300
	// parses of the same text must give the same result)
	e = newEnv(t, out, rng)
	rc := simpleRule("x", "update")
	rc.allowed = pmap{present: true, keys: []string{"k", "K"}, vals: [][]val{{sv("a")}, {sv("b")}}}
	e.reparse("c", []srcRule{rc})
	rc.allowed = pmap{present: true, keys: []string{"k", "K"}, vals: [][]val{{sv("a")}, {sv("a")}}}
	e.reparse("c2", []srcRule{rc})
	rc.caps = []string{"deny"}
	rc.allowed = pmap{present: true, keys: []string{"k", "K"}, vals: [][]val{{sv("a")}, {sv("b")}}}
	e.reparse("c3", []srcRule{rc})
	// policy objects are SHARED between ACLs (the policy store caches them): three stanzas for one path — the first without
	// allowed/denied parameters, the second and third with — attached together once; an ACL built afterwards from the
	// second policy alone must still decide by that policy's own parameters (seeded change C03-5: the first merged
	// parameter map aliased to the cached policy)
	for _, kind := range []string{"allowed", "denied"} {
		e = newEnv(t, out, rng)
		r1 := simpleRule("x", "update")
		r2 := simpleRule("x", "update")
		r3 := simpleRule("x", "update")
		if kind == "allowed" {
			r2.allowed = pmap{present: true, keys: []string{"a"}, vals: [][]val{{}}}
			r3.allowed = pmap{present: true, keys: []string{"b"}, vals: [][]val{{}}}
		} else {
			r2.denied = pmap{present: true, keys: []string{"a"}, vals: [][]val{{}}}
			r3.denied = pmap{present: true, keys: []string{"b"}, vals: [][]val{{}}}
		}
		e.addPolicy("p1", []srcRule{r1})
		e.addPolicy("p2", []srcRule{r2})
		e.addPolicy("p3", []srcRule{r3})
		if e.attach(0, true, []int{0, 1, 2}) {
			e.allow(0, false, request{path: "x", op: "update", keys: []string{"b"}, vals: []val{sv("v")}}, "")
		}
		if e.attach(1, true, []int{1}) {
			e.allow(1, false, request{path: "x", op: "update", keys: []string{"a"}, vals: []val{sv("v")}}, "")
			e.allow(1, false, request{path: "x", op: "update", keys: []string{"b"}, vals: []val{sv("v")}}, "")
		}
		if e.attach(2, true, []int{0, 1}) {
			e.allow(2, false, request{path: "x", op: "update", keys: []string{"b"}, vals: []val{sv("v")}}, "")
		}
	}
	// witness: Capabilities on a path with a trailing slash reports the list-fallback rule
	e = newEnv(t, out, rng)
	e.addPolicy("q", []srcRule{simpleRule("foo", "deny"), simpleRule("foo/*", "read")})
	e.attach(0, false, []int{0})
	e.allow(0, false, request{path: "foo/", op: "read"}, "")
	e.caps(0, "foo/")
}

// sharedProbe: ACL A over shared policy objects, evaluate; build ACL B over shared objects; evaluate A again.
// A's decisions must not change (the ACL of one token is a function of its own policies only).
func (e *env) sharedProbe(slotA int, idxA []int, slotB int, idxB []int, reqs []request) {
	if !e.attach(slotA, true, idxA) {
		return
	}
	before := make([]string, len(reqs))
	for i, r := range reqs {
		before[i] = e.allow(slotA, false, r, "")
	}
	if !e.attach(slotB, true, idxB) {
		return
	}
	for i, r := range reqs {
		after := e.evalAllow(slotA, false, r)
		marker := ""
		if after != before[i] {
			marker = "!VIOL:decision of an existing ACL changed when another ACL was built from the same policy objects#newacl-aliases-policy-slices"
		}
		e.out.Op(after+marker, "allow", strconv.Itoa(slotA), "0", r.op, vh.HexS(r.path), r.dataEnc(), optInt(r.wrap))
		e.allow(slotB, false, r, "")
	}
}

// priorityCase stresses the comparator: every pattern is derived from ONE request path (segments replaced by '+',
// truncated to a glob), so several patterns match the same request and the five-level priority order decides.
// Pattern i grants a different capability, so the winner is visible in the decision.
func priorityCase(t *testing.T, out *vh.Out, rng *vh.Rand) {
	e := newEnv(t, out, rng)
	n := 2 + rng.Intn(3)
	segs := make([]string, n)
	for i := range segs {
		segs[i] = rng.Pick([]string{"a", "b", "ab"})
	}
	path := strings.Join(segs, "/")
	if rng.Chance(25) {
		path += "/"
	}
	npat := 3 + rng.Intn(5)
	pool := make([]string, 0, npat)
	seen := map[string]bool{}
	for len(pool) < npat {
		ps := append([]string(nil), segs...)
		for i := range ps {
			if rng.Chance(45) {
				ps[i] = "+"
			}
		}
		var p string
		switch rng.Intn(6) {
		case 0, 1, 2: // full length, no glob
			p = strings.Join(ps, "/")
			if strings.HasSuffix(path, "/") && rng.Chance(70) {
				p += "/"
			}
		case 3: // cut after k segments and glob
			k := 1 + rng.Intn(n)
			p = strings.Join(ps[:k], "/") + "/*"
		case 4: // partial glob inside the last kept segment
			k := 1 + rng.Intn(n)
			last := segs[k-1]
			p = strings.Join(append(append([]string(nil), ps[:k-1]...), last[:rng.Intn(len(last)+1)]), "/") + "*"
		default:
			p = strings.Join(ps, "/") + "*"
		}
		if strings.Contains(p, "+*") || seen[p] {
			if rng.Chance(20) {
				npat--
			}
			continue
		}
		seen[p] = true
		pool = append(pool, p)
	}
	npol := 1 + rng.Intn(3)
	var okIdx []int
	for i := 0; i < npol; i++ {
		var rules []srcRule
		for j, p := range pool {
			if npol > 1 && !rng.Chance(70) {
				continue
			}
			r := simpleRule(p, capNames[(j+i)%len(capNames)])
			if rng.Chance(10) {
				r.caps = []string{"deny"}
			}
			rules = append(rules, r)
		}
		if len(rules) == 0 {
			rules = []srcRule{simpleRule(pool[0], "read")}
		}
		if e.addPolicy("p"+strconv.Itoa(i), rules).ok {
			okIdx = append(okIdx, i)
		}
	}
	if len(okIdx) == 0 {
		return
	}
	paths := []string{path, strings.TrimSuffix(path, "/"), path + "/", path + "/a", strings.Join(segs[:n-1], "/")}
	for slot := 0; slot < 2; slot++ {
		if !e.attach(slot, false, shuffled(rng, okIdx)) {
			continue
		}
		for _, p := range paths {
			e.allow(slot, true, request{path: p, op: "read"}, "")
			e.allow(slot, true, request{path: p, op: "list"}, "")
			e.allow(slot, false, request{path: p, op: genOp(rng)}, "")
			e.caps(slot, p)
		}
	}
}

// aliasCase: the policy-cache situation. One policy object is shared by two ACLs whose other policies differ; the
// shared policy's value lists have spare capacity (3 or 5-7 elements as HCL decodes them), and every value is probed.
func aliasCase(t *testing.T, out *vh.Out, rng *vh.Rand) {
	e := newEnv(t, out, rng)
	pat := genPattern(rng)
	vals := []string{"a", "b", "c", "d", "e", "f", "g", "h", "i"}
	nb := []int{3, 3, 5, 6, 7}[rng.Intn(5)]
	useDenied := rng.Chance(30)
	mk := func(vs []string, req []string) srcRule {
		r := simpleRule(pat, "update", "create")
		vv := make([]val, len(vs))
		for i, v := range vs {
			vv[i] = sv(v)
		}
		m := pmap{present: true, keys: []string{"k", "*"}, vals: [][]val{vv, {}}}
		if useDenied {
			m = pmap{present: true, keys: []string{"k"}, vals: [][]val{vv}}
			r.denied = m
		} else {
			r.allowed = m
		}
		r.required = req
		return r
	}
	reqBase := []string{"r1", "r2", "r3"}
	if !e.addPolicy("base", []srcRule{mk(vals[:nb], reqBase)}).ok ||
		!e.addPolicy("x", []srcRule{mk(vals[nb:nb+1], []string{"r4"})}).ok ||
		!e.addPolicy("y", []srcRule{mk(vals[nb+1:nb+2], []string{"r5"})}).ok {
		return
	}
	path := genReqPath(rng, []string{pat})
	var reqs []request
	for _, v := range vals[:nb+2] {
		for _, extra := range []string{"r4", "r5"} {
			reqs = append(reqs, request{path: path, op: "update", keys: []string{"k", "r1", "r2", "r3", extra},
				vals: []val{sv(v), sv("1"), sv("1"), sv("1"), sv("1")}})
		}
	}
	if rng.Bool() {
		e.sharedProbe(0, []int{1, 0}, 1, []int{2, 0}, reqs)
	} else {
		e.sharedProbe(0, []int{0, 1}, 1, []int{0, 2}, reqs)
	}
}

func randomCase(t *testing.T, out *vh.Out, rng *vh.Rand) {
	e := newEnv(t, out, rng)
	negTTL := rng.Chance(3)
	npool := 2 + rng.Intn(4)
	pool := make([]string, npool)
	for i := range pool {
		pool[i] = genPattern(rng)
	}
	npol := 1 + rng.Intn(4)
	rootCase := rng.Chance(3)
	var okIdx []int
	for i := 0; i < npol; i++ {
		nr := 1 + rng.Intn(4)
		rules := make([]srcRule, nr)
		for j := range rules {
			rules[j] = genRule(rng, pool[rng.Intn(npool)], negTTL)
		}
		name := "p" + strconv.Itoa(i)
		if rootCase && i == 0 {
			name = "root"
		}
		if e.addPolicy(name, rules).ok {
			okIdx = append(okIdx, i)
		}
		if rng.Chance(2) {
			rr := append([]srcRule(nil), rules...)
			if rng.Chance(50) {
				j := rng.Intn(len(rr))
				m := pmap{present: true, keys: []string{"k", "K"}, vals: [][]val{genValList(rng), genValList(rng)}}
				if rng.Bool() {
					rr[j].allowed = m
				} else {
					rr[j].denied = m
				}
			}
			e.reparse(name, rr)
		}
	}
	if len(okIdx) == 0 {
		return
	}
	att := okIdx
	if rootCase && rng.Bool() {
		att = []int{okIdx[0]}
	}
	nreq := 6 + rng.Intn(10)
	reqs := make([]request, nreq)
	for i := range reqs {
		reqs[i] = genRequest(rng, pool)
	}
	ncaps := 2 + rng.Intn(3)
	capPaths := make([]string, ncaps)
	for i := range capPaths {
		capPaths[i] = genReqPath(rng, pool)
	}
	run := func(slot int) {
		for _, r := range reqs {
			e.allow(slot, false, r, "")
			if rng.Chance(20) {
				e.allow(slot, true, r, "")
			}
		}
		for _, p := range capPaths {
			e.caps(slot, p)
		}
	}
	order1 := shuffled(rng, att)
	if rng.Chance(3) {
		order1 = append(order1, -1)
	}
	genOvs := func(order []int) []override {
		if !rng.Chance(30) {
			return nil
		}
		var ovs []override
		for k, ix := range order {
			if ix < 0 {
				continue
			}
			for si := range e.pols[ix].shared.Paths {
				if rng.Chance(25) {
					o := override{k: k, stanza: si, off: []int{-3600, -5, 30, 3600}[rng.Intn(4)]}
					if rng.Chance(10) {
						o.zero = true
					}
					ovs = append(ovs, o)
				}
			}
		}
		return ovs
	}
	if e.attachOv(0, false, order1, genOvs(order1)) {
		run(0)
	}
	order2 := shuffled(rng, att)
	if e.attachOv(1, false, order2, nil) {
		run(1)
	}
	if rng.Chance(15) {
		// the same policies once more, now with stanzas that expired while the parsed objects were cached
		order3 := shuffled(rng, att)
		if ovs := genOvs(order3); len(ovs) > 0 && e.attachOv(4, false, order3, ovs) {
			run(4)
		}
	}
	if rng.Chance(20) && len(okIdx) >= 2 {
		// policy objects shared between two ACLs, as with the policy store's cache
		a := shuffled(rng, okIdx)
		k := 1 + rng.Intn(len(a))
		b := shuffled(rng, okIdx)
		e.sharedProbe(2, a[:k], 3, b[:1+rng.Intn(len(b))], reqs)
	}
}

// ---------------------------------------------------------------- control groups of one pattern, in every order
//
// "the decision is independent of the order in which policies are attached": 2-3 policies with one stanza each for the
// SAME pattern, each with or without a control_group (ttl, self_auth_allowed, 1-2 named factors); NewACL over every
// permutation; AllowOperation(update) -> the control group the request is subject to. One line per permutation
//   cgmerge <cg of the 1st attached> <2nd> …  =>  nocg | cg:<ttl>:<self>:<sorted factor names>
// and the marker when two permutations of the same policies disagree.
type cgSpec struct {
	present bool
	ttl     int
	self    bool
	factors []string
}

func (c cgSpec) field() string {
	if !c.present {
		return "-"
	}
	s := "0"
	if c.self {
		s = "1"
	}
	return strconv.Itoa(c.ttl) + ":" + s + ":" + strings.Join(c.factors, "+")
}

func (c cgSpec) hcl() string {
	var b strings.Builder
	b.WriteString("path \"cg/x\" {\n  capabilities = [\"update\", \"read\"]\n")
	if c.present {
		b.WriteString("  control_group = {\n")
		if c.ttl > 0 {
			b.WriteString("    ttl = \"" + strconv.Itoa(c.ttl) + "s\"\n")
		}
		if c.self {
			b.WriteString("    self_auth_allowed = true\n")
		}
		for _, f := range c.factors {
			b.WriteString("    factor \"" + f + "\" {\n      controlled_capabilities = [\"update\"]\n      identity = {\n        group_names = [\"g-" + f + "\"]\n        approvals = 1\n      }\n    }\n")
		}
		b.WriteString("  }\n")
	}
	b.WriteString("}\n")
	return b.String()
}

func cgOrderCase(t *testing.T, out *vh.Out, rng *vh.Rand, fixed []cgSpec) {
	out.Reset()
	ctx := namespace.RootContext(context.Background())
	specs := fixed
	if specs == nil {
		n := 2 + rng.Intn(2)
		for i := 0; i < n; i++ {
			c := cgSpec{present: rng.Chance(60)}
			if c.present {
				c.ttl = []int{0, 15, 30, 60}[rng.Intn(4)]
				c.self = rng.Chance(40)
				c.factors = []string{rng.Pick([]string{"fa", "fb", "fc"})}
				if rng.Chance(30) {
					if f := rng.Pick([]string{"fa", "fb", "fc"}); f != c.factors[0] {
						c.factors = append(c.factors, f)
					}
				}
			}
			specs = append(specs, c)
		}
	}
	perms := [][]int{{0, 1}, {1, 0}}
	if len(specs) == 3 {
		perms = [][]int{{0, 1, 2}, {0, 2, 1}, {1, 0, 2}, {1, 2, 0}, {2, 0, 1}, {2, 1, 0}}
	}
	first := ""
	for pi, perm := range perms {
		var pols []*policy.Policy
		var fields []string
		for k, i := range perm {
			p, err := policy.ParseACLPolicy(namespace.RootNamespace, specs[i].hcl())
			if err != nil {
				t.Fatalf("cgorder: parse: %v\n%s", err, specs[i].hcl())
			}
			p.Name = "p" + strconv.Itoa(k)
			pols = append(pols, p)
			fields = append(fields, specs[i].field())
		}
		res := vh.Catch(func() string {
			acl, err := policy.NewACL(ctx, pols)
			if err != nil {
				return "err"
			}
			r := acl.AllowOperation(ctx, &logical.Request{Path: "cg/x", Operation: logical.UpdateOperation}, false)
			if !r.Allowed {
				return "denied"
			}
			if r.ControlGroup == nil {
				return "nocg"
			}
			var names []string
			for _, f := range r.ControlGroup.Factors {
				names = append(names, f.Name)
			}
			sort.Strings(names)
			s := "0"
			if r.ControlGroup.SelfAuthorizationAllowed {
				s = "1"
			}
			return "cg:" + strconv.Itoa(int(r.ControlGroup.TTL/time.Second)) + ":" + s + ":" + strings.Join(names, "+")
		})
		marker := ""
		if pi == 0 {
			first = res
		} else if res != first {
			marker = "!VIOL:the same policies attached in another order subject an update of cg/x to a different control group: " + first + " vs " + res + " (the approval requirement depends on the policies' order, i.e. on their names)#control-group-depends-on-policy-order"
		}
		out.Op(res+marker, append([]string{"cgmerge"}, fields...)...)
	}
}

func TestVerifC03(t *testing.T) {
	out := vh.Open()
	defer out.Close()
	rng := vh.NewRand(vh.Seed())
	fixedCases(t, out, rng)
	// the witness of finding F97, then generated ones
	cgOrderCase(t, out, rng, []cgSpec{{present: true, ttl: 15, factors: []string{"admin-approval"}}, {}})
	for i := 0; i < 200; i++ {
		cgOrderCase(t, out, rng.Fork(uint64(1<<40+i)), nil)
	}
	n := vh.EnvInt("VERIF_C03_CASES", 8000)
	if vh.Thorough() {
		n = vh.EnvInt("VERIF_C03_CASES", 100000)
	}
	for i := 0; i < n; i++ {
		if i%32 == 17 {
			aliasCase(t, out, rng.Fork(uint64(i)))
		} else if i%4 == 3 {
			priorityCase(t, out, rng.Fork(uint64(i)))
		} else {
			randomCase(t, out, rng.Fork(uint64(i)))
		}
	}
}
