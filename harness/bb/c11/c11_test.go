//go:build verif

package c11

// Black-box correspondence harness for C11, part 1 (stream "hashwalk"): which strings of a request / response
// reach an audit entry in clear and which only as a salted HMAC.  Overlaid as internal/zzverif/c11.
//
// Real code under test: audit.AuditFormatter.FormatRequest / FormatResponse (HashAuth, HashRequest, HashResponse,
// HashWrapInfo, hashWalker over reflectwalk) + audit.JSONFormatWriter with a real salt; every 8th case goes
// through the real file audit device (internal/builtin/audit/file) writing to a temporary file.
//
// The emitted JSON line is parsed back; every string that equals an independently recomputed
// HMAC-SHA256(salt, x) of an input string x is written `h<hex x>`, everything else `s<hex>`, so that model
// and implementation are compared symbolically.  The emitted BYTES are additionally scanned for every secret
// canary that is not under an exempt key (property predicate, marker !VIOL).

import (
	"bytes"
	"context"
	"crypto/ed25519"
	"crypto/hmac"
	"crypto/sha256"
	"encoding/hex"
	"encoding/json"
	"os"
	"path/filepath"
	"sort"
	"strconv"
	"strings"
	"testing"
	"time"

	"github.com/go-jose/go-jose/v4"
	"github.com/go-jose/go-jose/v4/jwt"
	"github.com/openbao/openbao/sdk/v2/helper/salt"
	"github.com/openbao/openbao/sdk/v2/helper/wrapping"
	"github.com/openbao/openbao/sdk/v2/logical"
	"github.com/openbao/openbao/v2/internal/audit"
	auditFile "github.com/openbao/openbao/v2/internal/builtin/audit/file"
	"github.com/openbao/openbao/v2/internal/helper/namespace"
	"github.com/openbao/openbao/v2/internal/zzverif/vh"
)

// ------------------------------------------------------------------------------------------ trees

type node struct {
	kind   byte // s n t f z a o
	s      string
	lit    string // number literal (canonical JSON text of the float64)
	f      float64
	arr    []*node
	keys   []string
	vals   []*node
	canary bool
	asTime *time.Time // render this string leaf as a time.Time value
	raw    bool       // render as []byte (top-level http_raw_body only)
	strct  bool       // render this object as a Go struct value
}

type c11Struct struct {
	A string   `json:"a"`
	B []string `json:"b"`
}

type gen struct {
	rng      *vh.Rand
	nCanary  int
	canaries []string
	strings  []string // every string that occurs anywhere in the input (pre-image table)
}

var keyAlphabet = []string{"k1", "k2", "password", "token", "keys", "key_info", "data", "", "ключ", "a b", "K1", "x\ty", "http_raw_body", "list"}

var timeSamples = []string{
	"2006-01-02T15:04:05Z", "2006-01-02T15:04:05.999999999Z", "2006-01-02T15:04:05+07:00", "2024-02-29T23:59:59-23:59",
	"0000-01-01T00:00:00Z", "9999-12-31T23:59:59.1+00:00", "2006-01-02T3:04:05Z", "2006-01-02T15:04:05,5Z",
	"2006-01-02T15:04:05+24:00", "2006-01-02T15:04:05-00:60",
}

var nearTimeSamples = []string{
	"2006-01-02 15:04:05Z", "2006-01-02t15:04:05Z", "2006-01-02T15:04:05z", "2006-01-02T15:04:05", "2023-02-29T00:00:00Z",
	"2006-13-02T15:04:05Z", "2006-01-02T24:04:05Z", "2006-01-02T15:04:05+25:00", "2006-01-02T15:04:05Z ", " 2006-01-02T15:04:05Z",
	"2006-01-02T15:04:05.Z", "12006-01-02T15:04:05Z", "2006-1-02T15:04:05Z", "2006-01-02T15:04:60Z", "٢٠٠٦-01-02T15:04:05Z",
	"2006-01-02T15:04:05+0700", "2006-01-02", "15:04:05Z",
}

var plainSamples = []string{
	"", " ", "a", "hello world", "naïve ☃ 𝄞", "quote\" back\\slash", "<script>&amp;</script>", "line\nbreak\ttab", "hmac-sha256:abcdef0123",
	"null", "true", "123", "hvs.CAESIabc", "s.notatoken", "  ", "\x7f\x01",
}

func (g *gen) canary() string {
	g.nCanary++
	c := "CANARY" + strconv.Itoa(g.nCanary) + "x" + hex.EncodeToString(g.rng.Bytes(6))
	// some secrets are glued to a timestamp: still secrets (UnmarshalText rejects them), must be hashed
	switch g.rng.Intn(24) {
	case 0:
		c = timeSamples[g.rng.Intn(len(timeSamples))] + c
	case 1:
		c = c + timeSamples[g.rng.Intn(len(timeSamples))]
	case 2:
		c = "2006-01-02T" + c
	}
	g.canaries = append(g.canaries, c)
	return c
}

func (g *gen) str() *node {
	n := &node{kind: 's'}
	switch r := g.rng.Intn(100); {
	case r < 40:
		n.s = g.canary()
		n.canary = true
	case r < 52:
		n.s = timeSamples[g.rng.Intn(len(timeSamples))]
	case r < 58:
		t := time.Unix(int64(g.rng.Intn(2000000000)), int64(g.rng.Intn(1000000000))).UTC()
		if g.rng.Bool() {
			t = t.In(time.FixedZone("", (g.rng.Intn(47)-23)*1800))
		}
		n.s = t.Format(time.RFC3339Nano)
		n.asTime = &t
	case r < 68:
		n.s = nearTimeSamples[g.rng.Intn(len(nearTimeSamples))]
	case r < 72:
		n.s = mutateTime(g.rng)
	default:
		n.s = plainSamples[g.rng.Intn(len(plainSamples))]
	}
	return n
}

func (g *gen) num() *node {
	var f float64
	switch g.rng.Intn(8) {
	case 0:
		f = 0
	case 1:
		f = float64(int64(g.rng.Intn(2000)) - 1000)
	case 2:
		f = float64(int64(g.rng.U64() >> 11)) // up to 2^53
	case 3:
		f = -float64(int64(g.rng.U64() >> 12))
	case 4:
		f = float64(g.rng.Intn(1000)) / 8
	case 5:
		f = 1e21
	case 6:
		f = 1.5e-7
	default:
		f = float64(g.rng.Intn(1 << 30))
	}
	b, err := json.Marshal(f)
	if err != nil {
		panic(err)
	}
	return &node{kind: 'n', f: f, lit: string(b)}
}

func (g *gen) key() string {
	if g.rng.Chance(85) {
		return keyAlphabet[g.rng.Intn(len(keyAlphabet))]
	}
	return "r" + hex.EncodeToString(g.rng.Bytes(2))
}

func (g *gen) obj(depth int) *node {
	n := &node{kind: 'o'}
	if depth < 5 && g.rng.Chance(8) { // struct-shaped object: {"a": str, "b": [str…]}
		n.strct = true
		b := &node{kind: 'a'}
		for i, m := 0, g.rng.Intn(3); i < m; i++ {
			b.arr = append(b.arr, g.str())
		}
		n.keys, n.vals = []string{"a", "b"}, []*node{g.str(), b}
		for _, v := range append([]*node{n.vals[0]}, b.arr...) {
			v.asTime = nil
		}
		return n
	}
	cnt := g.rng.Intn(5)
	if g.rng.Chance(10) {
		cnt = 0
	}
	seen := map[string]bool{}
	for i := 0; i < cnt; i++ {
		k := g.key()
		if seen[k] {
			continue
		}
		seen[k] = true
		n.keys = append(n.keys, k)
		n.vals = append(n.vals, g.value(depth+1))
	}
	return n
}

func (g *gen) value(depth int) *node {
	r := g.rng.Intn(100)
	if depth >= 5 && r >= 60 {
		r = g.rng.Intn(60)
	}
	switch {
	case r < 38:
		return g.str()
	case r < 46:
		return g.num()
	case r < 50:
		return &node{kind: 't'}
	case r < 54:
		return &node{kind: 'f'}
	case r < 60:
		return &node{kind: 'z'}
	case r < 80:
		n := &node{kind: 'a'}
		cnt := g.rng.Intn(4)
		allStr := g.rng.Chance(40)
		for i := 0; i < cnt; i++ {
			if allStr {
				n.arr = append(n.arr, g.str())
			} else {
				n.arr = append(n.arr, g.value(depth+1))
			}
		}
		return n
	default:
		return g.obj(depth)
	}
}

// mutateTime: a valid timestamp with one byte replaced / inserted / removed (lands on both sides of the predicate)
func mutateTime(rng *vh.Rand) string {
	b := []byte(timeSamples[rng.Intn(len(timeSamples))])
	alphabet := []byte("0123456789-:TZtz+., 9")
	switch rng.Intn(3) {
	case 0:
		b[rng.Intn(len(b))] = alphabet[rng.Intn(len(alphabet))]
	case 1:
		i := rng.Intn(len(b) + 1)
		b = append(b[:i], append([]byte{alphabet[rng.Intn(len(alphabet))]}, b[i:]...)...)
	default:
		i := rng.Intn(len(b))
		b = append(b[:i], b[i+1:]...)
	}
	return string(b)
}

// toGo renders the tree as the Go values a backend would put into Request.Data / Response.Data, with typed
// variants whose JSON form is the same tree.
func (g *gen) toGo(n *node) any {
	switch n.kind {
	case 's':
		if n.raw {
			return []byte(n.s)
		}
		if n.asTime != nil && g.rng.Bool() {
			return *n.asTime
		}
		return n.s
	case 'n':
		if n.f == float64(int64(n.f)) && n.f < 1e15 && n.f > -1e15 {
			switch g.rng.Intn(4) {
			case 0:
				return int(n.f)
			case 1:
				return int64(n.f)
			case 2:
				return json.Number(n.lit)
			}
		}
		return n.f
	case 't':
		return true
	case 'f':
		return false
	case 'z':
		return nil
	case 'a':
		allStr := len(n.arr) > 0
		for _, e := range n.arr {
			if e.kind != 's' || e.asTime != nil {
				allStr = false
			}
		}
		if allStr && g.rng.Bool() {
			out := make([]string, len(n.arr))
			for i, e := range n.arr {
				out[i] = e.s
			}
			return out
		}
		out := make([]any, len(n.arr))
		for i, e := range n.arr {
			out[i] = g.toGo(e)
		}
		return out
	case 'o':
		if n.strct {
			st := c11Struct{A: n.vals[0].s, B: []string{}}
			for _, e := range n.vals[1].arr {
				st.B = append(st.B, e.s)
			}
			if g.rng.Bool() {
				return &st
			}
			return st
		}
		allStr := len(n.keys) > 0
		for _, e := range n.vals {
			if e.kind != 's' || e.asTime != nil || e.raw {
				allStr = false
			}
		}
		if allStr && g.rng.Chance(40) {
			out := map[string]string{}
			for i, k := range n.keys {
				out[k] = n.vals[i].s
			}
			return out
		}
		out := map[string]any{}
		for i, k := range n.keys {
			out[k] = g.toGo(n.vals[i])
		}
		return out
	}
	panic("kind")
}

func (g *gen) collect(n *node) {
	if n == nil {
		return
	}
	if n.kind == 's' {
		g.strings = append(g.strings, n.s)
	}
	for _, e := range n.arr {
		g.collect(e)
	}
	for _, e := range n.vals {
		g.collect(e)
	}
}

// tokens of the line protocol; object keys sorted bytewise
func tokens(n *node, out *[]string) {
	switch n.kind {
	case 's':
		*out = append(*out, "s"+vh.HexS(n.s))
	case 'n':
		*out = append(*out, "n"+n.lit)
	case 't', 'f', 'z':
		*out = append(*out, string(n.kind))
	case 'a':
		*out = append(*out, "a"+strconv.Itoa(len(n.arr)))
		for _, e := range n.arr {
			tokens(e, out)
		}
	case 'o':
		*out = append(*out, "o"+strconv.Itoa(len(n.keys)))
		idx := make([]int, len(n.keys))
		for i := range idx {
			idx[i] = i
		}
		sort.Slice(idx, func(a, b int) bool { return n.keys[idx[a]] < n.keys[idx[b]] })
		for _, i := range idx {
			*out = append(*out, "k"+vh.HexS(n.keys[i]))
			tokens(n.vals[i], out)
		}
	}
}

func dataField(n *node) string {
	if n == nil {
		return "nil"
	}
	var t []string
	tokens(n, &t)
	return strings.Join(t, ",")
}

// ------------------------------------------------------------------------------------------ reading entries back

type reader struct {
	salt  string
	table map[string]string // real hmac string -> pre-image
}

func (r *reader) mac(s string) string {
	hm := hmac.New(sha256.New, []byte(r.salt))
	hm.Write([]byte(s))
	return "hmac-sha256:" + hex.EncodeToString(hm.Sum(nil))
}

func (r *reader) str(s string) string {
	if pre, ok := r.table[s]; ok {
		return "h" + vh.HexS(pre)
	}
	return "s" + vh.HexS(s)
}

func (r *reader) field(m map[string]any, k string) string {
	if m == nil {
		return "s-"
	}
	v, ok := m[k]
	if !ok {
		return "s-"
	}
	s, ok := v.(string)
	if !ok {
		return "?nonstring"
	}
	return r.str(s)
}

func (r *reader) tok(v any, out *[]string) {
	switch x := v.(type) {
	case string:
		*out = append(*out, r.str(x))
	case json.Number:
		*out = append(*out, "n"+string(x))
	case bool:
		if x {
			*out = append(*out, "t")
		} else {
			*out = append(*out, "f")
		}
	case nil:
		*out = append(*out, "z")
	case []any:
		*out = append(*out, "a"+strconv.Itoa(len(x)))
		for _, e := range x {
			r.tok(e, out)
		}
	case map[string]any:
		*out = append(*out, "o"+strconv.Itoa(len(x)))
		ks := make([]string, 0, len(x))
		for k := range x {
			ks = append(ks, k)
		}
		sort.Strings(ks)
		for _, k := range ks {
			*out = append(*out, "k"+vh.HexS(k))
			r.tok(x[k], out)
		}
	default:
		*out = append(*out, "?type")
	}
}

func (r *reader) data(m map[string]any, k string) string {
	if m == nil {
		return "nil"
	}
	v, ok := m[k]
	if !ok {
		return "nil"
	}
	var t []string
	r.tok(v, &t)
	return strings.Join(t, ",")
}

func sub(m map[string]any, k string) map[string]any {
	if m == nil {
		return nil
	}
	x, _ := m[k].(map[string]any)
	return x
}

func has(m map[string]any, k string) bool {
	if m == nil {
		return false
	}
	_, ok := m[k]
	return ok
}

func (r *reader) reqPart(e map[string]any) string {
	a, q := sub(e, "auth"), sub(e, "request")
	return strings.Join([]string{r.field(a, "client_token"), r.field(a, "accessor"), r.field(q, "client_token"),
		r.field(q, "client_token_accessor"), r.data(q, "data")}, "|")
}

func (r *reader) respPart(e map[string]any) string {
	p := sub(e, "response")
	ra := "nil"
	if has(p, "auth") {
		x := sub(p, "auth")
		ra = r.field(x, "client_token") + "," + r.field(x, "accessor")
	}
	w := "nil"
	if has(p, "wrap_info") {
		x := sub(p, "wrap_info")
		w = r.field(x, "token") + "," + r.field(x, "accessor") + "," + r.field(x, "wrapped_accessor")
	}
	return strings.Join([]string{ra, r.data(p, "data"), w}, "|")
}

// ------------------------------------------------------------------------------------------ devices

type sink struct {
	name         string
	hmacAccessor bool
	elide        bool
	salt         string
	formatter    *audit.AuditFormatter
	file         audit.Backend
	filePath     string
}

func newSink(t *testing.T, dir string, hmacAccessor, elide bool, saltVal string) *sink {
	ctx := context.Background()
	s := &sink{hmacAccessor: hmacAccessor, elide: elide, salt: saltVal}
	s.name = "a" + strconv.FormatBool(hmacAccessor) + "e" + strconv.FormatBool(elide)
	mk := func() logical.Storage {
		v := &logical.InmemStorage{}
		if err := v.Put(ctx, &logical.StorageEntry{Key: salt.DefaultLocation, Value: []byte(saltVal)}); err != nil {
			t.Fatal(err)
		}
		return v
	}
	cfg := func() *salt.Config {
		return &salt.Config{HMAC: sha256.New, HMACType: "hmac-sha256", Location: salt.DefaultLocation}
	}
	view := mk()
	var cached *salt.Salt
	s.formatter = &audit.AuditFormatter{AuditFormatWriter: &audit.JSONFormatWriter{SaltFunc: func(ctx context.Context) (*salt.Salt, error) {
		if cached != nil {
			return cached, nil
		}
		var err error
		cached, err = salt.NewSalt(ctx, view, cfg())
		return cached, err
	}}}
	s.filePath = filepath.Join(dir, s.name+".log")
	be, err := auditFile.Factory(ctx, &audit.BackendConfig{SaltView: mk(), SaltConfig: cfg(), Config: map[string]string{
		"file_path": s.filePath, "hmac_accessor": strconv.FormatBool(hmacAccessor), "elide_list_responses": strconv.FormatBool(elide),
	}})
	if err != nil {
		t.Fatal(err)
	}
	s.file = be
	return s
}

// emit runs the real code and returns the JSON line
func (s *sink) emit(t *testing.T, useFile, response bool, in *logical.LogInput) ([]byte, error) {
	ctx := namespace.RootContext(context.Background())
	if useFile {
		var err error
		if response {
			err = s.file.LogResponse(ctx, in)
		} else {
			err = s.file.LogRequest(ctx, in)
		}
		if err != nil {
			return nil, err
		}
		b, rerr := os.ReadFile(s.filePath)
		if rerr != nil {
			t.Fatal(rerr)
		}
		if terr := os.Truncate(s.filePath, 0); terr != nil {
			t.Fatal(terr)
		}
		return b, nil
	}
	var buf bytes.Buffer
	cfg := audit.FormatterConfig{HMACAccessor: s.hmacAccessor, ElideListResponses: s.elide}
	var err error
	if response {
		err = s.formatter.FormatResponse(ctx, &buf, cfg, in)
	} else {
		err = s.formatter.FormatRequest(ctx, &buf, cfg, in)
	}
	return buf.Bytes(), err
}

// ------------------------------------------------------------------------------------------ the test

func b01(b bool) string {
	if b {
		return "1"
	}
	return "0"
}

func keysField(ks []string) string {
	if len(ks) == 0 {
		return "none"
	}
	h := make([]string, len(ks))
	for i, k := range ks {
		h[i] = vh.HexS(k)
	}
	return strings.Join(h, ",")
}

func (g *gen) ignKeys() []string {
	var out []string
	for i, n := 0, g.rng.Intn(4); i < n; i++ {
		out = append(out, g.key())
	}
	if g.rng.Chance(20) {
		out = nil
	}
	return out
}

var c11JWTSigner jose.Signer

// c11JWT: a compact JWS (EdDSA, one of consts.AllowedJWTSignatureAlgorithmsBao) with the claims of a response-wrapping
// JWT: jti = the wrapping token id
func c11JWT(t *testing.T, jti string) string {
	if c11JWTSigner == nil {
		_, priv, err := ed25519.GenerateKey(nil)
		if err != nil {
			t.Fatal(err)
		}
		sg, err := jose.NewSigner(jose.SigningKey{Algorithm: jose.EdDSA, Key: priv}, (&jose.SignerOptions{}).WithType("JWT"))
		if err != nil {
			t.Fatal(err)
		}
		c11JWTSigner = sg
	}
	tok, err := jwt.Signed(c11JWTSigner).Claims(jwt.Claims{ID: jti, Issuer: "vault", Subject: "", Expiry: jwt.NewNumericDate(time.Unix(1700000060, 0))}).
		Claims(map[string]any{"addr": "http://127.0.0.1:8200", "type": "wrapping"}).Serialize()
	if err != nil {
		t.Fatal(err)
	}
	return tok
}

func (g *gen) tokenLike(emptyPct int) string {
	if g.rng.Chance(emptyPct) {
		return ""
	}
	return g.canary()
}

func TestVerifC11Hash(t *testing.T) {
	out := vh.Open()
	defer out.Close()
	rng := vh.NewRand(vh.Seed())
	dir := t.TempDir()

	// (0) time.Time.UnmarshalText on strings around the RFC 3339 shape — ties `isTimeShaped`
	nTime := 20000
	if vh.Thorough() {
		nTime = 1500000
	}
	all := append(append([]string{}, timeSamples...), nearTimeSamples...)
	all = append(all, plainSamples...)
	isTime := func(s string) string {
		var tm time.Time
		return b01(tm.UnmarshalText([]byte(s)) == nil)
	}
	for _, s := range all {
		out.Op(isTime(s), "time", vh.HexS(s))
	}
	for i := 0; i < nTime; i++ {
		var s string
		switch rng.Intn(4) {
		case 0:
			tm := time.Unix(int64(rng.U64()%400000000000)-62135596800, int64(rng.Intn(1000000000))).UTC()
			if rng.Bool() {
				tm = tm.In(time.FixedZone("", (rng.Intn(96)-48)*1800+rng.Intn(2)*60))
			}
			s = tm.Format([]string{time.RFC3339, time.RFC3339Nano, "2006-01-02T15:04:05.000Z07:00", "2006-01-02T15:04:05,000000Z07:00"}[rng.Intn(4)])
		case 1:
			// lattice over the range checks: month/day/hour/minute/second/zone at and beyond their limits
			p := func(vals ...int) int { return vals[rng.Intn(len(vals))] }
			s = vh.Sprintf("%04d-%02d-%02dT%02d:%02d:%02d", p(0, 1900, 2000, 2023, 2024, 2100, 9999), p(0, 1, 2, 4, 12, 13), p(0, 1, 28, 29, 30, 31, 32),
				p(0, 9, 23, 24), p(0, 59, 60), p(0, 59, 60))
			switch rng.Intn(4) {
			case 0:
				s += "Z"
			case 1:
				s += vh.Sprintf("%c%02d:%02d", "+-"[rng.Intn(2)], p(0, 12, 23, 24, 25), p(0, 30, 59, 60, 61))
			case 2:
				s += vh.Sprintf(".%sZ", strings.Repeat("7", 1+rng.Intn(12)))
			default:
				s += vh.Sprintf("%c%d%c%02d:%02d", ".,"[rng.Intn(2)], rng.Intn(1000), "+-"[rng.Intn(2)], p(0, 23, 24), p(0, 59, 60))
			}
		default:
			s = mutateTime(rng)
		}
		if !strings.ContainsRune(s, 0) {
			out.Op(isTime(s), "time", vh.HexS(s))
		}
	}

	// (1) entries
	sinks := []*sink{
		newSink(t, dir, true, false, "verif-salt-A"), newSink(t, dir, false, false, "verif-salt-B"),
		newSink(t, dir, true, true, "verif-salt-C"), newSink(t, dir, false, true, "verif-salt-D"),
	}
	n := 4000
	if vh.Thorough() {
		n = 150000
	}
	for i := 0; i < n; i++ {
		g := &gen{rng: rng.Fork(uint64(i))}
		sk := sinks[g.rng.Intn(len(sinks))]
		useFile := i%8 == 0
		response := g.rng.Bool()
		isList := g.rng.Chance(30)

		// --- input
		var auth *logical.Auth
		authTok, authAcc := "", ""
		if g.rng.Chance(85) {
			authTok, authAcc = g.tokenLike(15), g.tokenLike(25)
			auth = &logical.Auth{ClientToken: authTok, Accessor: authAcc, DisplayName: "display", Policies: []string{"default"}}
		}
		reqTok, reqAcc := g.tokenLike(15), g.tokenLike(25)
		var reqData *node
		if g.rng.Chance(90) {
			reqData = g.obj(0)
			reqData.strct = false
		}
		reqIgn := g.ignKeys()
		req := &logical.Request{ID: "id", Operation: logical.UpdateOperation, Path: "secret/x", ClientToken: reqTok, ClientTokenAccessor: reqAcc}
		if isList {
			req.Operation = logical.ListOperation
		}
		if reqData != nil {
			req.Data = g.topGo(reqData)
		}
		in := &logical.LogInput{Auth: auth, Request: req, NonHMACReqDataKeys: reqIgn}
		g.strings = append(g.strings, authTok, authAcc, reqTok, reqAcc)
		g.collect(reqData)

		var respData *node
		var respAuth *logical.Auth
		var wrap *wrapping.ResponseWrapInfo
		var respIgn []string
		raTok, raAcc, wTok, wAcc, wWrapped := "", "", "", "", ""
		if response {
			respIgn = g.ignKeys()
			in.NonHMACRespDataKeys = respIgn
			if g.rng.Chance(92) {
				resp := &logical.Response{}
				if g.rng.Chance(85) {
					respData = g.obj(0)
					if isList && g.rng.Chance(70) { // list-shaped response: keys (+ key_info)
						ks := &node{kind: 'a'}
						for j, m := 0, g.rng.Intn(4); j < m; j++ {
							ks.arr = append(ks.arr, g.str())
						}
						respData.keys, respData.vals = append([]string{"keys"}, dropKey(respData, "keys")...), append([]*node{ks}, dropVal(respData, "keys")...)
						if g.rng.Bool() {
							ki := g.obj(1)
							ki.strct = false
							respData.keys, respData.vals = append([]string{"key_info"}, dropKey(respData, "key_info")...), append([]*node{ki}, dropVal(respData, "key_info")...)
						}
					}
					if g.rng.Chance(12) { // raw-body response
						body := &node{kind: 's', s: g.canary(), canary: true, raw: true}
						respData.keys, respData.vals = append([]string{logical.HTTPRawBody}, dropKey(respData, logical.HTTPRawBody)...), append([]*node{body}, dropVal(respData, logical.HTTPRawBody)...)
					}
					respData.strct = false
					resp.Data = g.topGo(respData)
				}
				if g.rng.Chance(35) {
					raTok, raAcc = g.tokenLike(10), g.tokenLike(20)
					respAuth = &logical.Auth{ClientToken: raTok, Accessor: raAcc, Policies: []string{"p"}}
					resp.Auth = respAuth
				}
				if g.rng.Chance(35) {
					wTok, wAcc, wWrapped = g.tokenLike(5), g.tokenLike(15), g.tokenLike(50)
					if g.rng.Chance(25) { // JWT-shaped wrapping token (two dots)
						if g.rng.Chance(55) {
							// a REAL signed JWT as wrapInCubbyhole mints it for format=jwt: its jti claim is the wrapping
							// token's id, a secret that must not reach a non-raw entry in clear either
							jti := g.canary()
							wTok = c11JWT(t, jti)
							g.canaries = append(g.canaries, wTok, jti)
							g.strings = append(g.strings, jti)
						} else {
							wTok = "eyJ" + wTok + "." + g.canary() + "." + g.canary()
							g.canaries = append(g.canaries, wTok)
						}
					}
					wrap = &wrapping.ResponseWrapInfo{TTL: time.Minute, Token: wTok, Accessor: wAcc, WrappedAccessor: wWrapped,
						CreationTime: time.Unix(1700000000, 0), CreationPath: "secret/x"}
					resp.WrapInfo = wrap
				}
				in.Response = resp
			}
			g.strings = append(g.strings, raTok, raAcc, wTok, wAcc, wWrapped)
			g.collect(respData)
		}

		// --- run the real code
		var line []byte
		var err error
		panicked := vh.Catch(func() string {
			line, err = sk.emit(t, useFile, response, in)
			return ""
		})

		// --- the op line
		var fields []string
		elide := sk.elide && isList
		if response {
			ra, w := "nil", "nil"
			if respAuth != nil {
				ra = vh.HexS(raTok) + "," + vh.HexS(raAcc)
			}
			if wrap != nil {
				w = vh.HexS(wTok) + "," + vh.HexS(wAcc) + "," + vh.HexS(wWrapped)
			}
			fields = []string{"resp", b01(sk.hmacAccessor), b01(elide), keysField(reqIgn), vh.HexS(authTok), vh.HexS(authAcc), vh.HexS(reqTok), vh.HexS(reqAcc),
				dataField(reqData), keysField(respIgn), ra, dataField(respData), w}
		} else {
			fields = []string{"req", b01(sk.hmacAccessor), keysField(reqIgn), vh.HexS(authTok), vh.HexS(authAcc), vh.HexS(reqTok), vh.HexS(reqAcc), dataField(reqData)}
		}

		// --- canonical result
		var res string
		switch {
		case panicked == "panic":
			res = "panic"
		case err != nil:
			res = "err:" + strings.ReplaceAll(strings.SplitN(err.Error(), ":", 2)[0], "\t", " ")
		default:
			rd := &reader{salt: sk.salt, table: map[string]string{}}
			for _, s := range g.strings {
				rd.table[rd.mac(s)] = s
			}
			var entry map[string]any
			dec := json.NewDecoder(bytes.NewReader(line))
			dec.UseNumber()
			if derr := dec.Decode(&entry); derr != nil {
				res = "err:json-decode"
				break
			}
			res = rd.reqPart(entry)
			if response {
				res += "|" + rd.respPart(entry)
			}
			// property predicate on the emitted bytes: no non-exempt canary anywhere in the entry
			exempt := map[string]bool{}
			markExempt(reqData, "", reqIgn, exempt)
			markExempt(respData, "", respIgn, exempt)
			if !sk.hmacAccessor {
				for _, a := range []string{authAcc, reqAcc, raAcc, wAcc, wWrapped} {
					exempt[a] = true
				}
			}
			for _, c := range g.canaries {
				if c != "" && !exempt[c] && bytes.Contains(line, []byte(c)) {
					res += "!VIOL:plaintext secret in audit entry#canary-in-entry"
					break
				}
			}
		}
		out.Op(res, fields...)
	}
}

func dropKey(n *node, k string) []string {
	var out []string
	for _, x := range n.keys {
		if x != k {
			out = append(out, x)
		}
	}
	return out
}

func dropVal(n *node, k string) []*node {
	var out []*node
	for i, x := range n.keys {
		if x != k {
			out = append(out, n.vals[i])
		}
	}
	return out
}

// topGo: the top level of Request.Data / Response.Data is always a map[string]any
func (g *gen) topGo(n *node) map[string]any {
	out := map[string]any{}
	for i, k := range n.keys {
		out[k] = g.toGo(n.vals[i])
	}
	return out
}

// markExempt records the canaries whose innermost enclosing map key is in the non-HMAC list
func markExempt(n *node, key string, ign []string, out map[string]bool) {
	if n == nil {
		return
	}
	switch n.kind {
	case 's':
		if n.canary {
			for _, k := range ign {
				if k == key {
					out[n.s] = true
				}
			}
		}
	case 'a':
		for _, e := range n.arr {
			markExempt(e, key, ign, out)
		}
	case 'o':
		for i, k := range n.keys {
			markExempt(n.vals[i], k, ign, out)
		}
	}
}
