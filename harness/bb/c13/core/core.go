//go:build verif

// Package c13core is the generator and operation runner shared by the two C13 correspondence harnesses
// (sdk module: inmem / transactional inmem / file; root module: raft FSM / single-node RaftBackend).
// It is overlaid as sdk/zzverif/c13core; nothing is written into /repo.
//
// One case = one backend kind + one stack of wrapping layers (physical.NewCache, NewStorageEncoding,
// physical.NewView, logical.NewStorageView) + a generated operation sequence, every operation entering at the
// TOP of the stack. Each operation is written as one protocol line (`op fields => canonical result`).
package c13core

import (
	"context"
	"errors"
	"sort"
	"strings"
	"time"
	"unicode/utf8"

	log "github.com/hashicorp/go-hclog"
	metrics "github.com/hashicorp/go-metrics/compat"
	"github.com/openbao/openbao/sdk/v2/helper/consts"
	"github.com/openbao/openbao/sdk/v2/logical"
	"github.com/openbao/openbao/sdk/v2/physical"
	"github.com/openbao/openbao/sdk/v2/zzverif/vh"
)

var ctx = context.Background()

// Target is one bottom backend kind.
type Target struct {
	Kind string // inmem | inmemtx | file | fsm | raft
	// Fresh returns an EMPTY backend for a new case (may reuse and wipe one instance).
	Fresh func() physical.Backend
	// Weight is the relative share of cases.
	Weight int
	// MaxKeys bounds the generated key-set size (slow backends use fewer).
	MaxKeys int
	// BarrierView, when set, builds internal/vault/barrier.NewView(storage, prefix) (root module only); it is driven as
	// layer kind "bview" (same contract as logical.StorageView, which it wraps).
	BarrierView func(s logical.Storage, prefix string) logical.Storage
	// Implicit: layers that are always at the bottom of the stack of this target (e.g. the barrier view through which the
	// storage barrier is reached); when they end in a logical view only logical views are generated above them
	Implicit []Layer
	// KeySizeBoundary makes one case put keys of bottom length MaxKeySize-1, MaxKeySize and MaxKeySize+1 (bbolt: 32768)
	KeySizeBoundary bool
}

type Layer struct {
	Kind   string // cache | enc | pview | lview
	Prefix string
	Size   int
}

func layersString(ls []Layer) string {
	if len(ls) == 0 {
		return "-"
	}
	parts := make([]string, len(ls))
	for i, l := range ls {
		switch l.Kind {
		case "pview", "lview", "bview":
			parts[i] = l.Kind + ":" + vh.HexS(l.Prefix)
		default:
			parts[i] = l.Kind
		}
	}
	return strings.Join(parts, ",")
}

// ---------------------------------------------------------------------------------------------- tops

// top is whatever sits at the top of the stack: a physical.Backend or a logical.Storage.
type top interface {
	Put(key string, val []byte) error
	Get(key string) (found bool, val []byte, retKey string, err error)
	Delete(key string) error
	List(prefix string) ([]string, error)
	ListPage(prefix, after string, limit int) ([]string, error)
	View() logical.ClearableView
	Begin(rw bool) (top, finisher, error)
}

type finisher interface {
	Commit(context.Context) error
	Rollback(context.Context) error
}

type physTop struct{ b physical.Backend }

func (t physTop) Put(k string, v []byte) error {
	return t.b.Put(ctx, &physical.Entry{Key: k, Value: v})
}
func (t physTop) Get(k string) (bool, []byte, string, error) {
	e, err := t.b.Get(ctx, k)
	if err != nil || e == nil {
		return false, nil, "", err
	}
	return true, e.Value, e.Key, nil
}
func (t physTop) Delete(k string) error                         { return t.b.Delete(ctx, k) }
func (t physTop) List(p string) ([]string, error)               { return t.b.List(ctx, p) }
func (t physTop) ListPage(p, a string, l int) ([]string, error) { return t.b.ListPage(ctx, p, a, l) }
func (t physTop) View() logical.ClearableView                   { return t.b }
func (t physTop) Begin(rw bool) (top, finisher, error) {
	tb, ok := t.b.(physical.TransactionalBackend)
	if !ok {
		return nil, nil, errors.New("not transactional")
	}
	var tx physical.Transaction
	var err error
	if rw {
		tx, err = tb.BeginTx(ctx)
	} else {
		tx, err = tb.BeginReadOnlyTx(ctx)
	}
	if err != nil {
		return nil, nil, err
	}
	return physTop{tx}, tx, nil
}

type logTop struct{ s logical.Storage }

func (t logTop) Put(k string, v []byte) error {
	return t.s.Put(ctx, &logical.StorageEntry{Key: k, Value: v})
}
func (t logTop) Get(k string) (bool, []byte, string, error) {
	e, err := t.s.Get(ctx, k)
	if err != nil || e == nil {
		return false, nil, "", err
	}
	return true, e.Value, e.Key, nil
}
func (t logTop) Delete(k string) error                         { return t.s.Delete(ctx, k) }
func (t logTop) List(p string) ([]string, error)               { return t.s.List(ctx, p) }
func (t logTop) ListPage(p, a string, l int) ([]string, error) { return t.s.ListPage(ctx, p, a, l) }
func (t logTop) View() logical.ClearableView                   { return t.s }
func (t logTop) Begin(rw bool) (top, finisher, error) {
	ts, ok := t.s.(logical.TransactionalStorage)
	if !ok {
		return nil, nil, errors.New("not transactional")
	}
	var tx logical.Transaction
	var err error
	if rw {
		tx, err = ts.BeginTx(ctx)
	} else {
		tx, err = ts.BeginReadOnlyTx(ctx)
	}
	if err != nil {
		return nil, nil, err
	}
	return logTop{tx}, tx, nil
}

func buildStack(bottom physical.Backend, layers []Layer, tgt Target) top {
	logger := log.NewNullLogger()
	b := bottom
	var s logical.Storage
	for _, l := range layers {
		switch l.Kind {
		case "cache":
			c := physical.NewCache(b, l.Size, logger, &metrics.BlackholeSink{})
			c.SetEnabled(true)
			b = c
		case "enc":
			b = physical.NewStorageEncoding(b)
		case "pview":
			b = physical.NewView(b, l.Prefix)
		case "lview":
			if s == nil {
				s = logical.NewLogicalStorage(b)
			}
			s = logical.NewStorageView(s, l.Prefix)
		case "bview":
			if s == nil {
				s = logical.NewLogicalStorage(b)
			}
			s = tgt.BarrierView(s, l.Prefix)
		}
	}
	if s != nil {
		return logTop{s}
	}
	return physTop{b}
}

// ---------------------------------------------------------------------------------------------- canonical results

func ErrClass(err error) string {
	msg := err.Error()
	switch {
	case errors.Is(err, physical.ErrNonUTF8):
		return "err:nonutf8"
	case errors.Is(err, physical.ErrNonPrintable):
		return "err:nonprint"
	case errors.Is(err, physical.ErrRelativePath), errors.Is(err, logical.ErrRelativePath):
		return "err:relative"
	case errors.Is(err, consts.ErrPathContainsParentReferences):
		return "err:parentref"
	case errors.Is(err, physical.ErrTransactionReadOnly):
		return "err:readonly"
	case errors.Is(err, physical.ErrTransactionAlreadyCommitted):
		return "err:txfinished"
	case strings.Contains(msg, "invalid UTF-8"):
		return "err:protoutf8"
	case strings.Contains(msg, "key required"), strings.Contains(msg, "key being empty"):
		return "err:keyrequired"
	case strings.Contains(msg, physical.ErrKeyTooLarge), strings.Contains(msg, "key too large"):
		return "err:keytoolarge"
	case strings.Contains(msg, physical.ErrValueTooLarge):
		return "err:valuetoolarge"
	}
	return "err:other"
}

func listStr(l []string) string {
	parts := make([]string, len(l))
	for i, e := range l {
		parts[i] = vh.HexS(e)
	}
	return "l:" + strings.Join(parts, ",")
}

// ---------------------------------------------------------------------------------------------- generator

var segPool = []string{"a", "b", "a-", "a.", "a0", "ab", "é", "~", "-", "0", "foo", "m", "z", "a~", "€", "b0", "aé", "a.temp", "b.temp", ".temp"}

// segments most layers or backends treat specially
var oddSegs = []string{".", "..", "", "_x", "x.temp", "a\x00", "\xff", "\u200b", "a b", "..a", "a..b", "...", ".a", "\u00ad", "a\xc3", "\u03b1", " "}

func fileSegOK(s string) bool {
	return s != "" && s != "." && !strings.Contains(s, "..") && s[0] != '_' &&
		!strings.Contains(s, "\x00") && len(s) <= 200
}

func fileAdmissible(k string) bool {
	if k == "" {
		return false
	}
	for _, s := range strings.Split(k, "/") {
		if !fileSegOK(s) {
			return false
		}
	}
	return true
}

func fileDirPrefix(p string) bool {
	return p == "" || (strings.HasSuffix(p, "/") && fileAdmissible(p[:len(p)-1]))
}

// code points the model's printable table covers (Latin-1 plus a few); a key with anything else is not driven
// through a stack with an encoding layer on the write path.
func encModelled(k string) bool {
	for _, r := range k {
		if r < 0x100 || r == 0xFFFD { // 0xFFFD: produced by ranging over invalid UTF-8 (rejected as nonutf8 anyway)
			continue
		}
		switch r {
		case 0x20AC, 0x4E2D, 0x1F600, 0x3B1, 0x200B, 0x2028, 0xFEFF, 0x2003:
			continue
		}
		return false
	}
	return true
}

type gen struct {
	rng         *vh.Rand
	kind        string
	segs        []string // the case's segment pool (small, so that prefixes are shared)
	odd         int      // percent chance of an odd segment
	hasEnc      bool
	barrierView bool
}

func (g *gen) seg() string {
	if g.rng.Chance(g.odd) {
		return g.rng.Pick(oddSegs)
	}
	if g.rng.Chance(3) {
		// boundary length
		n := []int{199, 200, 254, 255, 300}[g.rng.Intn(5)]
		return strings.Repeat("L", n)
	}
	return g.rng.Pick(g.segs)
}

// key generates a relative key: 1-4 segments, sometimes with a trailing slash.
func (g *gen) key() string {
	depth := 1 + g.rng.Intn(4)
	if g.rng.Chance(40) {
		depth = 1 + g.rng.Intn(2)
	}
	parts := make([]string, depth)
	for i := range parts {
		parts[i] = g.seg()
	}
	k := strings.Join(parts, "/")
	if g.rng.Chance(g.odd / 2) {
		k += "/"
	}
	return k
}

// admissibleForBottom says whether the harness may PUT bottom key k on this backend kind (refusals that the model
// covers, such as "..", stay in; what the model does not cover is filtered out).
func (g *gen) putOK(bottomKey string) bool {
	switch g.kind {
	case "file":
		return strings.Contains(bottomKey, "..") || fileAdmissible(bottomKey)
	}
	return true
}

// txnKeyOK: inside a raft transaction a key that is not valid UTF-8 is accepted by Put/Delete and only fails when the
// log entry is marshalled at Commit; commit failures are outside this model, so such keys are not written in a
// transaction.
func (g *gen) txnKeyOK(bottomKey string) bool {
	return g.kind != "raft" || utf8.ValidString(bottomKey)
}

func (g *gen) keyOK(bottomKey string) bool {
	switch g.kind {
	case "file":
		return bottomKey == "" || strings.Contains(bottomKey, "..") || fileAdmissible(bottomKey)
	}
	return true
}

// ---------------------------------------------------------------------------------------------- runner

type runner struct {
	out    *vh.Out
	rng    *vh.Rand
	g      *gen
	tgt    Target
	bottom physical.Backend
	layers []Layer
	full   string // concatenation of the view prefixes, bottom first
	top    top
	txn    top
	fin    finisher
	// generator-side bookkeeping (NOT a checker): bottom keys believed present, to aim prefixes / afters
	ref          map[string]bool
	txref        map[string]bool
	trailingSeen bool
	// a raft transaction that used a string that is not valid UTF-8 in ANY operation (also reads and listings: they
	// become verification records of the protobuf log entry) cannot be marshalled at Commit; commit failures are
	// outside this model, so such a transaction is rolled back by the harness instead of committed.
	txTainted bool
}

func (r *runner) taint(args ...string) {
	if r.txn == nil || r.g.kind != "raft" {
		return
	}
	for _, a := range args {
		if !utf8.ValidString(r.full+a) || !utf8.ValidString(a) {
			r.txTainted = true
		}
	}
}

func (r *runner) cur() top {
	if r.txn != nil {
		return r.txn
	}
	return r.top
}

// pviewOverCache: a physical.View somewhere above a cache layer (View.Get rewrites Entry.Key on the object the layer
// below returned; the cache returns its own stored object).
func (r *runner) pviewOverCache() bool {
	cache := false
	for _, l := range r.layers {
		if l.Kind == "cache" {
			cache = true
		}
		if l.Kind == "pview" && cache {
			return true
		}
	}
	return false
}

func (r *runner) refmap() map[string]bool {
	if r.txn != nil {
		return r.txref
	}
	return r.ref
}

func errOr(err error, ok string) string {
	if err != nil {
		return ErrClass(err)
	}
	return ok
}

func (r *runner) put(k string, v []byte) {
	r.taint(k)
	res := vh.Catch(func() string { return errOr(r.cur().Put(k, v), "ok") })
	if res == "ok" {
		r.refmap()[r.full+k] = true
		if strings.HasSuffix(r.full+k, "/") || k == "" {
			r.trailingSeen = true // some directory listing now contains the empty child ""
		}
	}
	r.out.Op(res, "put", vh.HexS(k), vh.Hex(v))
}

func (r *runner) del(k string) {
	r.taint(k)
	res := vh.Catch(func() string { return errOr(r.cur().Delete(k), "ok") })
	if res == "ok" {
		delete(r.refmap(), r.full+k)
	}
	r.out.Op(res, "del", vh.HexS(k))
}

func (r *runner) get(k string) {
	r.taint(k)
	res := vh.Catch(func() string {
		found, v, rk, err := r.cur().Get(k)
		if err != nil {
			return ErrClass(err)
		}
		if !found {
			return "nil"
		}
		// the value and the Key field of the returned entry (the model computes both)
		s := "v:" + vh.Hex(v) + ";k:" + vh.HexS(rk)
		if rk != k {
			sig := "get-key-mismatch"
			if r.pviewOverCache() {
				sig = "pview-over-cache-get-key-truncated-twice"
			}
			s += "!VIOL:get returned an entry whose Key (" + vh.HexS(rk) + ") differs from the requested key#" + sig
		}
		return s
	})
	r.out.Op(res, "get", vh.HexS(k))
}

func (r *runner) list(p string) {
	r.taint(p)
	res := vh.Catch(func() string {
		l, err := r.cur().List(p)
		if err != nil {
			return ErrClass(err)
		}
		return listStr(l)
	})
	r.out.Op(res, "list", vh.HexS(p))
}

func (r *runner) page(p, after string, limit int) {
	r.taint(p, after)
	res := vh.Catch(func() string {
		l, err := r.cur().ListPage(p, after, limit)
		if err != nil {
			return ErrClass(err)
		}
		return listStr(l)
	})
	r.out.Op(res, "page", vh.HexS(p), vh.HexS(after), vh.I(int64(limit)))
}

func (r *runner) rawput(k string, v []byte) {
	res := vh.Catch(func() string { return errOr(r.bottom.Put(ctx, &physical.Entry{Key: k, Value: v}), "ok") })
	if res == "ok" {
		r.ref[k] = true
		if strings.HasSuffix(k, "/") || k == r.full {
			r.trailingSeen = true
		}
	}
	r.out.Op(res, "rawput", vh.HexS(k), vh.Hex(v))
}

func (r *runner) rawdel(k string) {
	res := vh.Catch(func() string { return errOr(r.bottom.Delete(ctx, k), "ok") })
	if res == "ok" {
		delete(r.ref, k)
	}
	r.out.Op(res, "rawdel", vh.HexS(k))
}

func (r *runner) begin(rw bool) {
	mode := "ro"
	if rw {
		mode = "rw"
	}
	t, f, err := r.top.Begin(rw)
	if err != nil {
		r.out.Op(ErrClass(err), "begin", mode)
		return
	}
	r.txn, r.fin = t, f
	r.txTainted = false
	r.txref = map[string]bool{}
	for k := range r.ref {
		r.txref[k] = true
	}
	r.out.Op("ok", "begin", mode)
}

func (r *runner) commit(rw bool) {
	if r.txTainted {
		r.rollback()
		return
	}
	err := r.fin.Commit(ctx)
	if err == nil {
		r.ref = r.txref
	}
	r.txn, r.fin, r.txref = nil, nil, nil
	r.out.Op(errOr(err, "ok"), "commit")
}

func (r *runner) rollback() {
	err := r.fin.Rollback(ctx)
	r.txn, r.fin, r.txref = nil, nil, nil
	r.out.Op(errOr(err, "ok"), "rollback")
}

const cbCap = 20000

// A broken listing can make the scan helpers loop forever (they page with after = last entry). Each helper call runs
// under a deadline; a call that hits it is recorded as err:fuel, and after a few such calls the helpers are no longer
// driven in this run (the predicate has its failing inputs by then).
var helperHangs int

const helperHangLimit = 3

func (r *runner) helperCtx() (context.Context, context.CancelFunc) {
	// generous: 3 s plus 5 ms per key believed present (ClearView on raft applies one log entry per key)
	return context.WithTimeout(ctx, 3*time.Second+time.Duration(len(r.ref))*5*time.Millisecond)
}

func helperErr(err error) string {
	if errors.Is(err, context.DeadlineExceeded) {
		helperHangs++
		return "err:fuel"
	}
	return ErrClass(err)
}

func (r *runner) scan(pageSize int) {
	if helperHangs >= helperHangLimit {
		return
	}
	res := vh.Catch(func() string {
		var got []string
		c, cancel := r.helperCtx()
		defer cancel()
		err := logical.ScanViewPaginated(c, r.top.View(), log.NewNullLogger(), pageSize, func(page, index int, path string) (bool, error) {
			got = append(got, path)
			if len(got) > cbCap {
				return false, errors.New("callback cap reached")
			}
			return true, nil
		})
		if err != nil {
			if len(got) > cbCap {
				helperHangs++
				return "err:fuel"
			}
			return helperErr(err)
		}
		return listStr(got)
	})
	r.out.Op(res, "scan", vh.I(int64(pageSize)))
}

func (r *runner) collect() {
	if helperHangs >= helperHangLimit {
		return
	}
	res := vh.Catch(func() string {
		c, cancel := r.helperCtx()
		defer cancel()
		got, err := logical.CollectKeys(c, r.top.View())
		if err != nil {
			return helperErr(err)
		}
		return listStr(got)
	})
	r.out.Op(res, "collect")
}

func (r *runner) clear() {
	if helperHangs >= helperHangLimit {
		return
	}
	res := vh.Catch(func() string {
		c, cancel := r.helperCtx()
		defer cancel()
		err := logical.ClearView(c, r.top.View())
		if err != nil {
			return helperErr(err)
		}
		return "ok"
	})
	// generator bookkeeping: re-derive from the backend
	r.resync()
	r.out.Op(res, "clear")
}

// walkAll lists every key of the bottom backend by plain recursion over List (harness code, independent of the
// scan helpers under test).
func walkAll(b physical.Backend, prefix string, depth int, acc *[]string) error {
	if depth > 64 {
		return errors.New("too deep")
	}
	l, err := b.List(ctx, prefix)
	if err != nil {
		return err
	}
	for _, e := range l {
		if strings.HasSuffix(e, "/") {
			if err := walkAll(b, prefix+e, depth+1, acc); err != nil {
				return err
			}
		} else {
			*acc = append(*acc, prefix+e)
		}
	}
	return nil
}

func (r *runner) resync() {
	var ks []string
	if err := walkAll(r.bottom, "", 0, &ks); err != nil {
		return
	}
	r.ref = map[string]bool{}
	for _, k := range ks {
		r.ref[k] = true
	}
}

func (r *runner) dump() {
	res := vh.Catch(func() string {
		var ks []string
		if err := walkAll(r.bottom, "", 0, &ks); err != nil {
			return ErrClass(err)
		}
		sort.Strings(ks)
		parts := make([]string, 0, len(ks))
		for i, k := range ks {
			if i > 0 && ks[i-1] == k {
				return "err:duplicate-key-in-walk"
			}
			e, err := r.bottom.Get(ctx, k)
			if err != nil {
				return ErrClass(err)
			}
			if e == nil {
				return "err:listed-key-has-no-entry:" + vh.HexS(k)
			}
			parts = append(parts, vh.HexS(k)+"="+vh.Hex(e.Value))
		}
		return "d:" + strings.Join(parts, ",")
	})
	r.out.Op(res, "dump")
}

// ---- argument choice

// entriesUnder computes, from the generator's bookkeeping, the children of bottom prefix bp.
func (r *runner) entriesUnder(bp string) []string {
	seen := map[string]bool{}
	for k := range r.refmap() {
		if !strings.HasPrefix(k, bp) {
			continue
		}
		t := k[len(bp):]
		if i := strings.Index(t, "/"); i >= 0 {
			t = t[:i+1]
		}
		seen[t] = true
	}
	out := make([]string, 0, len(seen))
	for e := range seen {
		out = append(out, e)
	}
	sort.Strings(out)
	return out
}

// relKeys are the known keys relative to the top of the stack.
func (r *runner) relKeys() []string {
	var out []string
	for k := range r.refmap() {
		if strings.HasPrefix(k, r.full) {
			out = append(out, k[len(r.full):])
		}
	}
	sort.Strings(out)
	return out
}

func (r *runner) pickPrefix() string {
	rng := r.rng
	rel := r.relKeys()
	if len(rel) == 0 || rng.Chance(15) {
		if rng.Chance(60) {
			return ""
		}
		p := r.g.key()
		if !strings.HasSuffix(p, "/") {
			p += "/"
		}
		if r.g.kind == "file" && !fileDirPrefix(r.full+p) {
			return ""
		}
		return p
	}
	k := rel[rng.Intn(len(rel))]
	// a directory prefix of k
	var cuts []int
	for i := 0; i < len(k); i++ {
		if k[i] == '/' {
			cuts = append(cuts, i+1)
		}
	}
	p := ""
	if len(cuts) > 0 && rng.Chance(75) {
		p = k[:cuts[rng.Intn(len(cuts))]]
	}
	if r.g.kind != "file" && rng.Chance(6) {
		// a prefix that is not slash-terminated
		if len(k) > 0 {
			p = k[:1+rng.Intn(len(k))]
		}
	}
	if r.g.kind == "file" && !fileDirPrefix(r.full+p) && !strings.Contains(r.full+p, "..") {
		return ""
	}
	return p
}

func stripSlash(s string) string { return strings.TrimSuffix(s, "/") }

func lastSeg(p string) string {
	p = stripSlash(p)
	if i := strings.LastIndex(p, "/"); i >= 0 {
		return p[i+1:]
	}
	return p
}

func (r *runner) pickAfter(p string) string {
	rng := r.rng
	es := r.entriesUnder(r.full + p)
	e := func() string {
		if len(es) == 0 {
			return r.g.seg()
		}
		return es[rng.Intn(len(es))]
	}
	switch c := rng.Intn(100); {
	case c < 30:
		return e()
	case c < 36:
		return e() + "x"
	case c < 40:
		s := e()
		if len(s) > 0 {
			return s[:len(s)-1]
		}
		return "0"
	case c < 47:
		return "."
	case c < 54:
		return ".."
	case c < 68:
		switch rng.Intn(9) {
		case 0:
			return stripSlash(e()) + "/../" + e()
		case 1:
			return "../" + lastSeg(r.full+p) + "/" + e()
		case 2:
			return "./" + e()
		case 3:
			return e() + "/."
		case 4:
			return stripSlash(e()) + "/../.."
		case 5:
			return "../.."
		case 6:
			return stripSlash(e()) + "/.."
		case 7:
			return "../" + e()
		default:
			return stripSlash(e()) + "/./" + e()
		}
	case c < 78:
		switch rng.Intn(5) {
		case 0:
			return stripSlash(e()) + "/" + e()
		case 1:
			return stripSlash(e()) + "/"
		case 2:
			return "/" + e()
		case 3:
			return stripSlash(e()) + "//" + e()
		default:
			return "/"
		}
	case c < 82:
		return ""
	default:
		return r.g.key()
	}
}

func (r *runner) pickLimit() int {
	return []int{-1, 0, 1, 1, 2, 2, 3, 5, 1000, -7}[r.rng.Intn(10)]
}

func (r *runner) pickKey(existingPct int) string {
	rel := r.relKeys()
	if len(rel) > 0 && r.rng.Chance(existingPct) {
		return rel[r.rng.Intn(len(rel))]
	}
	return r.g.key()
}

func (r *runner) val() []byte {
	switch r.rng.Intn(8) {
	case 0:
		if r.g.kind == "inmemtx" {
			// TransactionalInmemBackend cannot commit a transaction that read or overwrote a key whose stored value is
			// a nil slice (reflect.DeepEqual(nil, []byte{}) in Commit): commit verification is C08's subject, so nil
			// values are not driven here (reported as an observation).
			return []byte{}
		}
		return nil
	case 1:
		return []byte{}
	default:
		return r.rng.Bytes(1 + r.rng.Intn(6))
	}
}

// ---------------------------------------------------------------------------------------------- a case

func viewPrefix(g *gen) string {
	switch g.rng.Intn(8) {
	case 0:
		return ""
	case 1:
		if g.kind == "file" {
			// the file backend maps prefixes to directories: only slash-terminated view prefixes are meaningful
			return g.rng.Pick(g.segs) + "/"
		}
		return g.rng.Pick(g.segs) // not slash-terminated
	case 2:
		return g.rng.Pick(g.segs) + "/" + g.rng.Pick(g.segs) + "/"
	default:
		return g.rng.Pick(g.segs) + "/"
	}
}

func genLayers(g *gen, kind string) []Layer {
	rng := g.rng
	var ls []Layer
	if rng.Chance(30) {
		return ls
	}
	n := 1 + rng.Intn(3)
	for i := 0; i < n; i++ {
		switch rng.Intn(4) {
		case 0:
			ls = append(ls, Layer{Kind: "cache", Size: []int{2, 4, 16, 0}[rng.Intn(4)]})
		case 1:
			ls = append(ls, Layer{Kind: "enc"})
		case 2:
			ls = append(ls, Layer{Kind: "pview", Prefix: viewPrefix(g)})
		default:
		}
	}
	nl := 0
	switch c := rng.Intn(10); {
	case c < 4:
		nl = 1
	case c < 6:
		nl = 2
	}
	for i := 0; i < nl; i++ {
		k := "lview"
		if g.barrierView && rng.Chance(50) {
			k = "bview"
		}
		ls = append(ls, Layer{Kind: k, Prefix: viewPrefix(g)})
	}
	return ls
}

// RunCase generates and runs one case on a fresh backend of the target.
func RunCase(out *vh.Out, rng *vh.Rand, tgt Target, big bool) {
	g := &gen{rng: rng, kind: tgt.Kind, barrierView: tgt.BarrierView != nil}
	// the case's segment pool
	ns := 2 + rng.Intn(5)
	for i := 0; i < ns; i++ {
		g.segs = append(g.segs, rng.Pick(segPool))
	}
	g.odd = []int{0, 0, 4, 10, 25}[rng.Intn(5)]
	layers := genLayers(g, tgt.Kind)
	if len(tgt.Implicit) > 0 {
		var up []Layer
		for _, l := range layers {
			if l.Kind == "lview" || l.Kind == "bview" {
				up = append(up, l)
			}
		}
		layers = append(append([]Layer{}, tgt.Implicit...), up...)
	}
	full := ""
	hasCache := false // writes below a cache bypass it by construction: raw writes then happen only before the first top-level op
	for _, l := range layers {
		switch l.Kind {
		case "pview", "lview", "bview":
			full += l.Prefix
		case "enc":
			g.hasEnc = true
		case "cache":
			hasCache = true
		}
	}
	if tgt.Kind == "file" {
		// view prefixes must keep bottom keys admissible: prefixes are pool segments, fine; but a non-slash-terminated
		// view prefix glued to a key is still a plain segment, also fine.
	}
	bottom := tgt.Fresh()
	r := &runner{out: out, rng: rng, g: g, tgt: tgt, bottom: bottom, layers: layers, full: full,
		top: buildStack(bottom, layers, tgt), ref: map[string]bool{}}
	out.Reset()
	out.Op("ok", "cfg", tgt.Kind, layersString(layers))

	txnCapable := (tgt.Kind == "inmemtx" || tgt.Kind == "raft")
	for _, l := range layers {
		if l.Kind == "pview" {
			txnCapable = false
		}
	}

	okPut := func(k string) bool {
		bk := full + k
		if !g.putOK(bk) {
			return false
		}
		if g.hasEnc && !encModelled(bk) {
			return false
		}
		if r.txn != nil && !g.txnKeyOK(bk) {
			return false
		}
		return true
	}
	okKey := func(k string) bool { return g.keyOK(full + k) }
	okDel := func(k string) bool {
		if !okKey(k) {
			return false
		}
		if g.hasEnc && !encModelled(full+k) {
			return false
		}
		if r.txn != nil && !g.txnKeyOK(full+k) {
			return false
		}
		return true
	}

	// raw keys below / beside the views
	if full != "" || rng.Chance(20) {
		nraw := rng.Intn(6)
		for i := 0; i < nraw; i++ {
			k := g.key()
			if rng.Chance(50) {
				k = full + k // inside the view
			} else if rng.Chance(30) && len(full) > 1 {
				k = full[:len(full)-1] + "0" + g.key() // a sibling sharing most of the prefix
			}
			if g.putOK(k) {
				r.rawput(k, r.val())
			}
		}
	}

	// population
	maxKeys := tgt.MaxKeys
	if maxKeys <= 0 {
		maxKeys = 40
	}
	var nkeys int
	switch c := rng.Intn(10); {
	case c < 1:
		nkeys = 0
	case c < 4:
		nkeys = 1 + rng.Intn(5)
	case c < 8:
		nkeys = 5 + rng.Intn(16)
	default:
		nkeys = 20 + rng.Intn(21)
	}
	if nkeys > maxKeys {
		nkeys = maxKeys
	}
	if big {
		nkeys = 2600 + rng.Intn(300)
	}
	for i := 0; i < nkeys; i++ {
		var k string
		if big {
			// > DefaultScanViewPageLimit children in one directory plus a few nested ones
			if i%50 == 0 {
				k = "big/sub" + vh.I(int64(i)) + "/" + g.key()
			} else {
				k = "big/k" + vh.I(int64(i*7919%100003))
			}
		} else {
			k = g.key()
			if rng.Chance(15) {
				// a key that is also a prefix of an existing key, or the reverse
				rel := r.relKeys()
				if len(rel) > 0 {
					o := rel[rng.Intn(len(rel))]
					if i := strings.LastIndex(stripSlash(o), "/"); i > 0 && rng.Bool() {
						k = o[:i]
					} else {
						k = stripSlash(o) + "/" + g.seg()
					}
				}
			}
		}
		if okPut(k) {
			r.put(k, r.val())
		}
	}

	nops := 10 + rng.Intn(35)
	if big {
		nops = 6
	}
	for i := 0; i < nops; i++ {
		// inside a transaction: churn ONE key (mostly one that is in committed storage) through a run of deletes and puts,
		// then read it and list its folder — the transaction's private write set must give the last operation's answer
		if r.txn != nil && rng.Chance(14) {
			if k := r.pickKey(85); okPut(k) && okDel(k) {
				for j, n := 0, 2+rng.Intn(4); j < n; j++ {
					if rng.Chance(55) {
						r.del(k)
					} else {
						r.put(k, r.val())
					}
				}
				r.get(k)
				if p := k[:strings.LastIndex(k, "/")+1]; okKey(p) {
					r.list(p)
				}
				continue
			}
		}
		c := rng.Intn(100)
		switch {
		case c < 38:
			p := r.pickPrefix()
			if okKey(p) {
				r.page(p, r.pickAfter(p), r.pickLimit())
			}
		case c < 46:
			p := r.pickPrefix()
			if okKey(p) {
				r.list(p)
			}
		case c < 58:
			k := r.pickKey(70)
			if okKey(k) && !(tgt.Kind == "file" && full+k == "") {
				r.get(k)
			}
		case c < 67:
			k := r.pickKey(30)
			if okPut(k) {
				r.put(k, r.val())
			}
		case c < 75:
			k := r.pickKey(75)
			if okDel(k) {
				r.del(k)
			}
		case c < 78:
			if r.txn == nil && !hasCache {
				k := g.key()
				if rng.Chance(60) {
					k = full + k
				}
				if g.putOK(k) {
					r.rawput(k, r.val())
				}
			}
		case c < 80:
			if r.txn == nil && !hasCache {
				var ks []string
				for k := range r.ref {
					ks = append(ks, k)
				}
				sort.Strings(ks)
				if len(ks) > 0 {
					k := ks[rng.Intn(len(ks))]
					if g.keyOK(k) {
						r.rawdel(k)
					}
				}
			}
		case c < 86:
			if txnCapable {
				if r.txn == nil {
					r.begin(rng.Chance(75))
				} else if rng.Chance(50) {
					r.commit(true)
				} else {
					r.rollback()
				}
			}
		case c < 92:
			if r.txn == nil {
				ps := []int{2, 3, 100, 2500}[rng.Intn(4)]
				if !r.trailingSeen && rng.Chance(30) {
					ps = []int{1, 0, -1}[rng.Intn(3)]
				}
				r.scan(ps)
			}
		case c < 95:
			if r.txn == nil {
				r.collect()
			}
		case c < 97:
			if r.txn == nil && !big {
				r.clear()
			}
		default:
			if r.txn == nil {
				r.dump()
			}
		}
	}
	if big && r.txn == nil {
		r.scan(2500)
		r.collect()
		r.page("big/", "", 2500)
		r.clear()
	}
	if r.txn != nil {
		if rng.Chance(60) {
			r.commit(true)
		} else {
			r.rollback()
		}
	}
	r.dump()
}

// Run drives `cases` cases distributed over the targets by weight.
func Run(out *vh.Out, seed uint64, targets []Target, cases int, bigCases int) {
	base := vh.NewRand(seed)
	total := 0
	for _, t := range targets {
		total += t.Weight
	}
	for i := 0; i < cases; i++ {
		rng := base.Fork(uint64(i))
		w := rng.Intn(total)
		var tgt Target
		for _, t := range targets {
			if w < t.Weight {
				tgt = t
				break
			}
			w -= t.Weight
		}
		RunCase(out, rng, tgt, false)
	}
	for i := 0; i < bigCases; i++ {
		rng := base.Fork(uint64(1000000 + i))
		RunCase(out, rng, targets[i%len(targets)], true)
	}
	for _, t := range targets {
		if t.KeySizeBoundary {
			keySizeCase(out, t)
		}
		if t.Kind == "file" {
			underscoreCase(out, t)
		}
	}
}

// underscoreCase (file backend): the entry of key "a" is the file "_a"; the entries below prefix "_a/" live in the
// directory "_a" — one name on disk. Keys with a segment that starts with '_' are kept out of the trace model
// (DESIGN C13, admissible keys); this predicate-level line records what the two keys do to each other.
// Op line: underscore => a=<ok|err|lost> x=<ok|err|lost>
func underscoreCase(out *vh.Out, tgt Target) {
	b := tgt.Fresh()
	ctx := context.Background()
	out.Reset()
	out.Op("ok", "cfg", tgt.Kind, "-")
	st := func(k string, want []byte) string {
		e, err := b.Get(ctx, k)
		switch {
		case err != nil:
			return "err"
		case e == nil || string(e.Value) != string(want):
			return "lost"
		}
		return "ok"
	}
	e1 := b.Put(ctx, &physical.Entry{Key: "a", Value: []byte{1}})
	e2 := b.Put(ctx, &physical.Entry{Key: "_a/x", Value: []byte{2}})
	res := "a=" + st("a", []byte{1}) + " x=" + st("_a/x", []byte{2})
	if e1 != nil {
		res += " puta=err"
	}
	if e2 != nil {
		res += " putx=err"
	}
	if res != "a=ok x=ok" {
		res += "!VIOL:file backend: key \"a\" and the keys below prefix \"_a/\" share the on-disk name \"_a\": " + res + "#F87:file-underscore-name-collision"
	}
	out.Op(res, "underscore")
}

// keySizeCase: bbolt refuses keys longer than 32768 bytes; the raft backend checks the same bound before proposing.
func keySizeCase(out *vh.Out, tgt Target) {
	bottom := tgt.Fresh()
	g := &gen{rng: vh.NewRand(1), kind: tgt.Kind}
	r := &runner{out: out, rng: g.rng, g: g, tgt: tgt, bottom: bottom, top: buildStack(bottom, nil, tgt), ref: map[string]bool{}}
	out.Reset()
	out.Op("ok", "cfg", tgt.Kind, "-")
	for _, n := range []int{32767, 32768, 32769} {
		k := "big/" + strings.Repeat("k", n-4)
		r.put(k, []byte{1})
		r.get(k)
	}
	r.list("big/")
	r.page("big/", strings.Repeat("k", 32763), 5)
	// the empty key: stored by the in-memory backends, refused (never proposed to the log) by raft
	if g.putOK("") {
		r.put("", []byte{7})
		r.get("")
		r.list("")
	}
	if tgt.Kind == "raft" {
		r.begin(true)
		r.put("", []byte{8})
		r.put("txn/after-empty", []byte{9})
		r.commit(true)
		r.get("txn/after-empty")
		r.begin(true)
		for _, n := range []int{32768, 32769} {
			k := "txn/" + strings.Repeat("t", n-4)
			r.put(k, []byte{2})
		}
		r.list("txn/")
		r.commit(true)
		r.list("txn/")
	}
	r.dump()
}
