//go:build verif

package c13

// Black-box correspondence harness for C13 (sdk module): inmem (plain and transactional) and file backends, bare and
// under physical.NewCache / NewStorageEncoding / physical.NewView / logical.NewStorageView stacks. Overlaid as
// sdk/zzverif/c13; the generator and runner live in sdk/zzverif/c13core.

import (
	"os"
	"testing"

	log "github.com/hashicorp/go-hclog"
	"github.com/openbao/openbao/sdk/v2/physical"
	"github.com/openbao/openbao/sdk/v2/physical/file"
	"github.com/openbao/openbao/sdk/v2/physical/inmem"
	"github.com/openbao/openbao/sdk/v2/zzverif/c13core"
	"github.com/openbao/openbao/sdk/v2/zzverif/vh"
)

func TestVerifC13(t *testing.T) {
	out := vh.Open()
	defer out.Close()
	logger := log.NewNullLogger()

	scratch, err := os.MkdirTemp("", "verif-c13-file-")
	if err != nil {
		t.Fatal(err)
	}
	defer os.RemoveAll(scratch)
	nfile := 0

	targets := []c13core.Target{
		{Kind: "inmem", Weight: 4, Fresh: func() physical.Backend {
			b, err := inmem.NewInmem(map[string]string{"disable_transactions": "true"}, logger)
			if err != nil {
				t.Fatal(err)
			}
			return b
		}},
		{Kind: "inmemtx", Weight: 4, Fresh: func() physical.Backend {
			b, err := inmem.NewInmem(nil, logger)
			if err != nil {
				t.Fatal(err)
			}
			return b
		}},
		{Kind: "file", Weight: 2, MaxKeys: 25, Fresh: func() physical.Backend {
			// a fresh directory per case, two levels below the scratch root
			nfile++
			if nfile > 1 {
				os.RemoveAll(scratch + "/c" + vh.I(int64(nfile-1)))
			}
			dir := scratch + "/c" + vh.I(int64(nfile)) + "/root"
			if err := os.MkdirAll(dir, 0o700); err != nil {
				t.Fatal(err)
			}
			b, err := file.NewFileBackend(map[string]string{"path": dir}, nil)
			if err != nil {
				t.Fatal(err)
			}
			return b
		}},
	}
	cases := vh.EnvInt("VERIF_C13_CASES", 2500)
	big := 3
	if vh.Thorough() {
		cases = vh.EnvInt("VERIF_C13_CASES", 120000)
		big = 9
	}
	c13core.Run(out, vh.Seed(), targets, cases, big)
}
