//go:build verif

// c01writers — fact extractor for property C01 (T-gen): lists every call of a WRITE method (Put, Delete
// and the transactional equivalents reached through the same interfaces) whose receiver's static type is
// sdk/physical.Backend / physical.Transaction / physical.TransactionalBackend, a named type whose method
// set comes from them (interface embedding, struct embedding), or any other type declared in an
// sdk/physical package (physical.View, physical.Cache, inmem.*, …), in the non-test files of
// internal/vault/** other than the barrier package itself. These are the call sites that hand bytes to
// the physical backend WITHOUT going through the encrypting barrier.
//
// Output: a Lean module (Obao/Gen/PhysicalWriters.lean) with `writers : List (String × String × String)`
// = (file relative to the repository, enclosing function incl. receiver, method). The receiver's static
// type is kept in a comment beside each triple. The file is written only when its content changes.
//
// usage: c01writers -repo /repo -out <lean file> [-tsv <file>] [patterns…]   (default ./internal/vault/...)
package main

import (
	"flag"
	"fmt"
	"go/ast"
	"go/types"
	"os"
	"path/filepath"
	"sort"
	"strings"

	"golang.org/x/tools/go/packages"
)

const physPkg = "github.com/openbao/openbao/sdk/v2/physical"

var writeMethods = map[string]bool{"Put": true, "Delete": true}

// isPhysical reports whether t (after stripping pointers) is a named type declared in sdk/physical or one
// of its sub-packages, or a named/anonymous struct or interface that embeds such a type (transitively).
func isPhysical(t types.Type, depth int) bool {
	if depth > 6 || t == nil {
		return false
	}
	for {
		p, ok := t.(*types.Pointer)
		if !ok {
			break
		}
		t = p.Elem()
	}
	t = types.Unalias(t)
	if n, ok := t.(*types.Named); ok {
		if pk := n.Obj().Pkg(); pk != nil && (pk.Path() == physPkg || strings.HasPrefix(pk.Path(), physPkg+"/")) {
			return true
		}
	}
	switch u := t.Underlying().(type) {
	case *types.Interface:
		for i := 0; i < u.NumEmbeddeds(); i++ {
			if isPhysical(u.EmbeddedType(i), depth+1) {
				return true
			}
		}
	case *types.Struct:
		for i := 0; i < u.NumFields(); i++ {
			if f := u.Field(i); f.Embedded() && isPhysical(f.Type(), depth+1) {
				return true
			}
		}
	}
	return false
}

// methodFromPhysical: for struct receivers the selected method must itself be promoted from (or declared
// in) a physical package; a struct that embeds physical.Backend but overrides Put is not a raw writer at
// this call site (its own Put body is scanned separately).
func methodFromPhysical(sel *types.Selection) bool {
	if sel == nil {
		return true
	}
	f, ok := sel.Obj().(*types.Func)
	if !ok || f.Pkg() == nil {
		return true
	}
	p := f.Pkg().Path()
	return p == physPkg || strings.HasPrefix(p, physPkg+"/")
}

// hasWriteMethod: the type (or a pointer to it) offers Put or Delete
func hasWriteMethod(t types.Type) bool {
	for _, tt := range []types.Type{t, types.NewPointer(t)} {
		ms := types.NewMethodSet(tt)
		for i := 0; i < ms.Len(); i++ {
			if writeMethods[ms.At(i).Obj().Name()] {
				return true
			}
		}
	}
	return false
}

func funcName(fd *ast.FuncDecl) string {
	if fd.Recv == nil || len(fd.Recv.List) == 0 {
		return fd.Name.Name
	}
	t := fd.Recv.List[0].Type
	for {
		switch x := t.(type) {
		case *ast.StarExpr:
			t = x.X
			continue
		case *ast.IndexExpr:
			t = x.X
			continue
		case *ast.ParenExpr:
			t = x.X
			continue
		}
		break
	}
	if id, ok := t.(*ast.Ident); ok {
		return id.Name + "." + fd.Name.Name
	}
	return fd.Name.Name
}

type row struct{ file, fn, method, typ string }

func leanStr(s string) string {
	s = strings.ReplaceAll(s, "\\", "\\\\")
	s = strings.ReplaceAll(s, "\"", "\\\"")
	return "\"" + s + "\""
}

func main() {
	repo := flag.String("repo", "/repo", "repository root")
	out := flag.String("out", "", "Lean file to write")
	tsv := flag.String("tsv", "", "optional TSV dump")
	flag.Parse()
	pats := flag.Args()
	if len(pats) == 0 {
		pats = []string{"./internal/vault/..."}
	}
	root, _ := filepath.Abs(*repo)
	cfg := &packages.Config{
		Mode: packages.NeedName | packages.NeedFiles | packages.NeedSyntax | packages.NeedTypes |
			packages.NeedTypesInfo | packages.NeedImports | packages.NeedDeps,
		Dir: root,
	}
	pkgs, err := packages.Load(cfg, pats...)
	if err != nil {
		fmt.Fprintln(os.Stderr, "load:", err)
		os.Exit(2)
	}
	nerr := 0
	for _, p := range pkgs {
		for _, e := range p.Errors {
			fmt.Fprintln(os.Stderr, "package error:", p.PkgPath, e)
			nerr++
		}
	}
	if nerr > 0 || len(pkgs) == 0 {
		// a tree that does not type-check gives no trustworthy facts
		fmt.Fprintln(os.Stderr, "refusing to emit facts from a tree with type errors")
		os.Exit(3)
	}
	var rows []row
	scanned := 0
	for _, p := range pkgs {
		if p.PkgPath == "github.com/openbao/openbao/v2/internal/vault/barrier" || strings.Contains(p.PkgPath, "/zzverif/") {
			continue
		}
		for _, f := range p.Syntax {
			fname := p.Fset.Position(f.Pos()).Filename
			if strings.HasSuffix(fname, "_test.go") {
				continue
			}
			rel, err := filepath.Rel(root, fname)
			if err != nil || strings.HasPrefix(rel, "..") {
				continue
			}
			scanned++
			for _, d := range f.Decls {
				fn := "<package-level>"
				var body ast.Node = d
				if fd, ok := d.(*ast.FuncDecl); ok {
					fn = funcName(fd)
					if fd.Body == nil {
						continue
					}
					body = fd.Body
				}
				ast.Inspect(body, func(n ast.Node) bool {
					// both calls and method values (x.Put passed as a function) are writers
					sel, ok := n.(*ast.SelectorExpr)
					if !ok || !writeMethods[sel.Sel.Name] {
						return true
					}
					tv, ok := p.TypesInfo.Types[sel.X]
					if !ok || tv.Type == nil {
						return true
					}
					if !isPhysical(tv.Type, 0) {
						return true
					}
					if !methodFromPhysical(p.TypesInfo.Selections[sel]) {
						return true
					}
					rows = append(rows, row{filepath.ToSlash(rel), fn, sel.Sel.Name, tv.Type.String()})
					return true
				})
			}
		}
	}
	// second pass: a type whose own method is a raw writer is a pass-through wrapper when it holds a physical-typed
	// field; every place that CONSTRUCTS such a value (composite literal) decides what the wrapper will write, so
	// construction sites are writer sites too ("construct:<Type>")
	wrappers := map[string]bool{}
	for _, r := range rows {
		if i := strings.Index(r.fn, "."); i > 0 {
			wrappers[r.fn[:i]] = true
		}
	}
	for _, p := range pkgs {
		if p.PkgPath == "github.com/openbao/openbao/v2/internal/vault/barrier" || strings.Contains(p.PkgPath, "/zzverif/") {
			continue
		}
		for _, f := range p.Syntax {
			fname := p.Fset.Position(f.Pos()).Filename
			if strings.HasSuffix(fname, "_test.go") {
				continue
			}
			rel, err := filepath.Rel(root, fname)
			if err != nil || strings.HasPrefix(rel, "..") {
				continue
			}
			for _, d := range f.Decls {
				fn := "<package-level>"
				if fd, ok := d.(*ast.FuncDecl); ok {
					fn = funcName(fd)
				}
				ast.Inspect(d, func(n ast.Node) bool {
					cl, ok := n.(*ast.CompositeLit)
					if !ok {
						return true
					}
					tv, ok := p.TypesInfo.Types[cl]
					if !ok || tv.Type == nil {
						return true
					}
					nt, ok := types.Unalias(tv.Type).(*types.Named)
					if !ok || !wrappers[nt.Obj().Name()] || nt.Obj().Pkg() == nil || nt.Obj().Pkg().Path() != p.PkgPath {
						return true
					}
					st, ok := nt.Underlying().(*types.Struct)
					if !ok {
						return true
					}
					holds := false
					for i := 0; i < st.NumFields(); i++ {
						if isPhysical(st.Field(i).Type(), 0) {
							holds = true
						}
					}
					if holds {
						rows = append(rows, row{filepath.ToSlash(rel), fn, "construct:" + nt.Obj().Name(), nt.String()})
					}
					return true
				})
			}
		}
	}
	// third pass: exported functions/methods that hand a physical backend to their caller (other packages could then
	// write raw through it): "returns:physical"
	for _, p := range pkgs {
		if p.PkgPath == "github.com/openbao/openbao/v2/internal/vault/barrier" || strings.Contains(p.PkgPath, "/zzverif/") {
			continue
		}
		for _, f := range p.Syntax {
			fname := p.Fset.Position(f.Pos()).Filename
			if strings.HasSuffix(fname, "_test.go") {
				continue
			}
			rel, err := filepath.Rel(root, fname)
			if err != nil || strings.HasPrefix(rel, "..") {
				continue
			}
			for _, d := range f.Decls {
				fd, ok := d.(*ast.FuncDecl)
				if !ok || !fd.Name.IsExported() || fd.Type.Results == nil {
					continue
				}
				obj, ok := p.TypesInfo.Defs[fd.Name].(*types.Func)
				if !ok {
					continue
				}
				sig := obj.Type().(*types.Signature)
				for i := 0; i < sig.Results().Len(); i++ {
					if rt := sig.Results().At(i).Type(); isPhysical(rt, 0) && hasWriteMethod(rt) {
						rows = append(rows, row{filepath.ToSlash(rel), funcName(fd), "returns:physical", sig.Results().At(i).Type().String()})
						break
					}
				}
			}
		}
	}
	sort.Slice(rows, func(i, j int) bool {
		a, b := rows[i], rows[j]
		if a.file != b.file {
			return a.file < b.file
		}
		if a.fn != b.fn {
			return a.fn < b.fn
		}
		if a.method != b.method {
			return a.method < b.method
		}
		return a.typ < b.typ
	})
	// dedupe identical (file, func, method) triples (several calls in one function)
	var ded []row
	for _, r := range rows {
		if n := len(ded); n > 0 && ded[n-1].file == r.file && ded[n-1].fn == r.fn && ded[n-1].method == r.method {
			if !strings.Contains(ded[n-1].typ, r.typ) {
				ded[n-1].typ += " | " + r.typ
			}
			continue
		}
		ded = append(ded, r)
	}
	var sb strings.Builder
	sb.WriteString("-- GENERATED by harness/bb/c01writers (go/packages + go/types) from the repository's working tree on every\n")
	sb.WriteString("-- run of `./check C01`; do not edit. One triple per (file, enclosing function, method) with a call of\n")
	sb.WriteString("-- Put/Delete on a receiver whose static type is (or embeds) an sdk/physical type, in the non-test,\n")
	sb.WriteString("-- non-barrier packages under internal/vault.\n")
	sb.WriteString("namespace Obao.Gen.PhysicalWriters\n\n")
	sb.WriteString(fmt.Sprintf("def scannedFiles : Nat := %d\n\n", scanned))
	sb.WriteString("def writers : List (String × String × String) := [\n")
	for i, r := range ded {
		sep := ","
		if i == len(ded)-1 {
			sep = ""
		}
		sb.WriteString(fmt.Sprintf("  (%s, %s, %s)%s  -- %s\n", leanStr(r.file), leanStr(r.fn), leanStr(r.method), sep,
			strings.ReplaceAll(r.typ, "github.com/openbao/openbao/", "")))
	}
	sb.WriteString("]\n\nend Obao.Gen.PhysicalWriters\n")
	if *tsv != "" {
		var tb strings.Builder
		for _, r := range ded {
			tb.WriteString(r.file + "\t" + r.fn + "\t" + r.method + "\t" + r.typ + "\n")
		}
		if err := os.WriteFile(*tsv, []byte(tb.String()), 0o644); err != nil {
			fmt.Fprintln(os.Stderr, err)
			os.Exit(2)
		}
	}
	if *out == "" {
		fmt.Print(sb.String())
		return
	}
	old, _ := os.ReadFile(*out)
	if string(old) != sb.String() {
		if err := os.MkdirAll(filepath.Dir(*out), 0o755); err != nil {
			fmt.Fprintln(os.Stderr, err)
			os.Exit(2)
		}
		if err := os.WriteFile(*out, []byte(sb.String()), 0o644); err != nil {
			fmt.Fprintln(os.Stderr, err)
			os.Exit(2)
		}
	}
	fmt.Fprintf(os.Stderr, "c01writers: %d files scanned, %d writer sites\n", scanned, len(ded))
}
