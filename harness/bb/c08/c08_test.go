//go:build verif

package c08

// Black-box correspondence harness for C08 (a): the harness IS the scheduler. One goroutine drives an
// explicit interleaving of the operations and commits of 1-4 open transactions plus plain (non-transactional)
// readers/writers over inmem's transactional backend — bare, behind physical.NewCache (transactional cache),
// and behind cache + logical.NewLogicalStorage + logical.NewStorageView. Every result and every commit
// verdict goes to the trace (stream "txn-inmem"); after every commit the parent store is dumped so that
// "aborted => store unchanged" and "committed => writes visible together" are observable.
// Overlaid as sdk/zzverif/c08; never written into /repo.

import (
	"context"
	"errors"
	"strings"
	"sync"
	"testing"
	"time"

	log "github.com/hashicorp/go-hclog"
	metrics "github.com/hashicorp/go-metrics/compat"
	"github.com/openbao/openbao/sdk/v2/helper/locksutil"
	"github.com/openbao/openbao/sdk/v2/logical"
	"github.com/openbao/openbao/sdk/v2/physical"
	"github.com/openbao/openbao/sdk/v2/physical/inmem"
	"github.com/openbao/openbao/sdk/v2/zzverif/vh"
)

// ---- a uniform face over physical.* and logical.* storage ----

type kv interface {
	Get(ctx context.Context, key string) ([]byte, bool, error)
	Put(ctx context.Context, key string, val []byte) error
	Delete(ctx context.Context, key string) error
	List(ctx context.Context, prefix string) ([]string, error)
	ListPage(ctx context.Context, prefix, after string, limit int) ([]string, error)
}

type txn interface {
	kv
	Commit(ctx context.Context) error
	Rollback(ctx context.Context) error
}

type store interface {
	kv
	Begin(ctx context.Context, readOnly bool) (txn, error)
}

type physKV struct{ b physical.Backend }

func (p physKV) Get(ctx context.Context, key string) ([]byte, bool, error) {
	e, err := p.b.Get(ctx, key)
	if err != nil || e == nil {
		return nil, false, err
	}
	return e.Value, true, nil
}
func (p physKV) Put(ctx context.Context, key string, val []byte) error {
	return p.b.Put(ctx, &physical.Entry{Key: key, Value: val})
}
func (p physKV) Delete(ctx context.Context, key string) error { return p.b.Delete(ctx, key) }
func (p physKV) List(ctx context.Context, prefix string) ([]string, error) {
	return p.b.List(ctx, prefix)
}
func (p physKV) ListPage(ctx context.Context, prefix, after string, limit int) ([]string, error) {
	return p.b.ListPage(ctx, prefix, after, limit)
}

type physTxn struct {
	physKV
	t physical.Transaction
}

func (p physTxn) Commit(ctx context.Context) error   { return p.t.Commit(ctx) }
func (p physTxn) Rollback(ctx context.Context) error { return p.t.Rollback(ctx) }

type physStore struct {
	physKV
	tb physical.TransactionalBackend
}

func (p physStore) Begin(ctx context.Context, ro bool) (txn, error) {
	var t physical.Transaction
	var err error
	if ro {
		t, err = p.tb.BeginReadOnlyTx(ctx)
	} else {
		t, err = p.tb.BeginTx(ctx)
	}
	if err != nil {
		return nil, err
	}
	return physTxn{physKV{t}, t}, nil
}

type logKV struct{ s logical.Storage }

func (l logKV) Get(ctx context.Context, key string) ([]byte, bool, error) {
	e, err := l.s.Get(ctx, key)
	if err != nil || e == nil {
		return nil, false, err
	}
	return e.Value, true, nil
}
func (l logKV) Put(ctx context.Context, key string, val []byte) error {
	return l.s.Put(ctx, &logical.StorageEntry{Key: key, Value: val})
}
func (l logKV) Delete(ctx context.Context, key string) error { return l.s.Delete(ctx, key) }
func (l logKV) List(ctx context.Context, prefix string) ([]string, error) {
	return l.s.List(ctx, prefix)
}
func (l logKV) ListPage(ctx context.Context, prefix, after string, limit int) ([]string, error) {
	return l.s.ListPage(ctx, prefix, after, limit)
}

type logTxn struct {
	logKV
	t logical.Transaction
}

func (l logTxn) Commit(ctx context.Context) error   { return l.t.Commit(ctx) }
func (l logTxn) Rollback(ctx context.Context) error { return l.t.Rollback(ctx) }

type logStore struct {
	logKV
	ts logical.TransactionalStorage
}

func (l logStore) Begin(ctx context.Context, ro bool) (txn, error) {
	var t logical.Transaction
	var err error
	if ro {
		t, err = l.ts.BeginReadOnlyTx(ctx)
	} else {
		t, err = l.ts.BeginTx(ctx)
	}
	if err != nil {
		return nil, err
	}
	return logTxn{logKV{t}, t}, nil
}

// ---- hook wrapper between the transactional inmem backend and physical.NewCache ----
// Its transactions call back at the START of the underlying Commit and right AFTER it returned, i.e. inside
// cacheTransaction.Commit before the cache's own post-processing continues. The scheduler uses the two points to
// run concurrent plain readers on the parent cache inside the commit window (same goroutine: at both points the
// cache holds none of the parent's key locks).

type hookState struct {
	atStart func()
	after   func(err error)

	// park: the next plain Get of this (physical) key is held right after the real storage read returned,
	// i.e. inside cache.Get, which at that point holds the read lock of the key's stripe
	mu   sync.Mutex
	park *parkReq
}

type parkReq struct {
	key     string
	fetched chan string   // what the storage read returned
	release chan struct{} // closed by the scheduler to let the reader go on
}

func (b *hookBackend) Get(ctx context.Context, key string) (*physical.Entry, error) {
	e, err := b.TransactionalBackend.Get(ctx, key)
	b.h.mu.Lock()
	p := b.h.park
	if p != nil && p.key == key {
		b.h.park = nil
	} else {
		p = nil
	}
	b.h.mu.Unlock()
	if p != nil {
		switch {
		case err != nil:
			p.fetched <- errClass(err)
		case e == nil:
			p.fetched <- "nil"
		default:
			p.fetched <- "v:" + vh.Hex(e.Value)
		}
		<-p.release
	}
	return e, err
}

type hookBackend struct {
	physical.TransactionalBackend
	h *hookState
}

type hookTxn struct {
	physical.Transaction
	h *hookState
}

func (b *hookBackend) BeginTx(ctx context.Context) (physical.Transaction, error) {
	t, err := b.TransactionalBackend.BeginTx(ctx)
	if err != nil {
		return nil, err
	}
	return &hookTxn{t, b.h}, nil
}

func (b *hookBackend) BeginReadOnlyTx(ctx context.Context) (physical.Transaction, error) {
	t, err := b.TransactionalBackend.BeginReadOnlyTx(ctx)
	if err != nil {
		return nil, err
	}
	return &hookTxn{t, b.h}, nil
}

func (t *hookTxn) Commit(ctx context.Context) error {
	if f := t.h.atStart; f != nil {
		t.h.atStart = nil
		f()
	}
	err := t.Transaction.Commit(ctx)
	if f := t.h.after; f != nil {
		t.h.after = nil
		f(err)
	}
	return err
}

// what the scheduler needs besides the layered store: the hook points and direct access to the backend below
type below struct {
	h      *hookState       // nil for the bare layer
	raw    physical.Backend // the inmem backend itself
	prefix string           // key prefix the layered store adds ("v/" behind the storage view)
	purge  func()           // empties the parent cache
}

var layers = []string{"bare", "cache", "view"}

// extraLayer lets a second harness file (built only in the root module, where internal/vault/barrier is importable)
// provide further layered stores for the same generator: layer "barrier" = the AES-GCM barrier over inmem.
var extraLayer func(t *testing.T, layer string) (store, *below)

func newStore(t *testing.T, layer string) (store, *below) {
	if extraLayer != nil {
		if st, bl := extraLayer(t, layer); st != nil {
			return st, bl
		}
	}
	logger := log.NewNullLogger()
	raw, err := inmem.NewInmem(nil, logger)
	if err != nil {
		t.Fatal(err)
	}
	tb, ok := raw.(physical.TransactionalBackend)
	if !ok {
		t.Fatal("inmem.NewInmem did not return a transactional backend")
	}
	if layer == "bare" {
		return physStore{physKV{tb}, tb}, &below{raw: tb}
	}
	hs := &hookState{}
	c := physical.NewCache(&hookBackend{tb, hs}, 0, logger, &metrics.BlackholeSink{})
	c.SetEnabled(true)
	ctb, ok := c.(physical.TransactionalBackend)
	if !ok {
		t.Fatal("cache over a transactional backend is not transactional")
	}
	if layer == "cache" {
		return physStore{physKV{ctb}, ctb}, &below{h: hs, raw: tb, purge: func() { c.Purge(context.Background()) }}
	}
	ls := logical.NewLogicalStorage(ctb)
	view := logical.NewStorageView(ls, "v/")
	ts, ok := view.(logical.TransactionalStorage)
	if !ok {
		t.Fatal("storage view over transactional storage is not transactional")
	}
	// something outside the view that must never become visible through it
	if err := ctb.Put(context.Background(), &physical.Entry{Key: "outside", Value: []byte{1}}); err != nil {
		t.Fatal(err)
	}
	return logStore{logKV{view}, ts}, &below{h: hs, raw: tb, prefix: "v/", purge: func() { c.Purge(context.Background()) }}
}

// ---- canonical results ----

func errClass(err error) string {
	switch {
	case errors.Is(err, physical.ErrTransactionReadOnly):
		return "err:readonly"
	case errors.Is(err, physical.ErrTransactionAlreadyCommitted):
		return "err:finished"
	case errors.Is(err, physical.ErrTransactionCommitFailure):
		return "err:conflict"
	}
	return "err:other"
}

func q(s string) string {
	if s == "" {
		return "-"
	}
	return s
}

func resGet(v []byte, found bool, err error) string {
	if err != nil {
		return errClass(err)
	}
	if !found {
		return "nil"
	}
	return "v:" + vh.Hex(v)
}

func resList(l []string, err error) string {
	if err != nil {
		return errClass(err)
	}
	qs := make([]string, len(l))
	for i, x := range l {
		qs[i] = q(x) // a key equal to the listing prefix yields the empty child: written "-"
	}
	return "[" + strings.Join(qs, ",") + "]"
}

func resErr(err error) string {
	if err != nil {
		return errClass(err)
	}
	return "ok"
}

// ---- generator ----

var keyPool = [][]string{
	{"a", "b", "c"},
	{"foo/a", "foo/b", "foo/c", "g"},
	{"foo/a", "foo/b", "foo/d/x", "foo/d/y", "h"},
	{"a", "a/b", "a/c", "ab", "b/c/d"},
	{"foo", "foo/a", "foo/b/c", "foo/b/d", "foo0", "z"},
	{"k/1", "k/2", "k/3", "k/4", "k/5", "k/6"},
}

var values = [][]byte{{}, {1}, {2}, {3}, {0xab, 0xcd}}

type caseGen struct {
	rng      *vh.Rand
	keys     []string
	prefixes []string
	afters   []string
}

func newCaseGen(rng *vh.Rand) *caseGen {
	g := &caseGen{rng: rng}
	g.keys = keyPool[rng.Intn(len(keyPool))]
	pset := map[string]bool{"": true}
	aset := map[string]bool{"": true, ".": true, "..": true, "zz": true, "0": true}
	for _, k := range g.keys {
		parts := strings.Split(k, "/")
		for i := 1; i < len(parts); i++ {
			pset[strings.Join(parts[:i], "/")+"/"] = true
		}
		for i, p := range parts {
			if i < len(parts)-1 {
				aset[p+"/"] = true
			}
			aset[p] = true
		}
		if len(k) > 1 {
			pset[k[:len(k)-1]] = true // a prefix that does not end in "/"
		}
	}
	for p := range pset {
		g.prefixes = append(g.prefixes, p)
	}
	for a := range aset {
		g.afters = append(g.afters, a)
	}
	sortStrings(g.prefixes)
	sortStrings(g.afters)
	return g
}

func sortStrings(s []string) {
	for i := 1; i < len(s); i++ {
		for j := i; j > 0 && s[j] < s[j-1]; j-- {
			s[j], s[j-1] = s[j-1], s[j]
		}
	}
}

var limits = []int{-1, 0, 1, 2, 3, 10}

type sched struct {
	t    *testing.T
	out  *vh.Out
	ctx  context.Context
	st   store
	g    *caseGen
	txns []txn  // by id
	ro   []bool // by id
	done []bool // by id: commit/rollback was called
	bl   *below
	wset [][]string // by id: keys the transaction wrote (successfully)
}

func (s *sched) who(id int) (kv, string) {
	if id < 0 {
		return s.st, "p"
	}
	return s.txns[id], vh.I(int64(id))
}

// one random data operation by `id` (-1 = plain)
func (s *sched) dataOp(id int, writeBias int) {
	rng := s.g.rng
	k, w := s.who(id)
	key := rng.Pick(s.g.keys)
	switch c := rng.Intn(100); {
	case c < writeBias*2/3:
		v := values[rng.Intn(len(values))]
		r := vh.Catch(func() string { return resErr(k.Put(s.ctx, key, v)) })
		s.out.Op(r, "put", w, key, vh.Hex(v))
		if id >= 0 && r == "ok" {
			s.wset[id] = append(s.wset[id], key)
		}
	case c < writeBias:
		r := vh.Catch(func() string { return resErr(k.Delete(s.ctx, key)) })
		s.out.Op(r, "del", w, key)
		if id >= 0 && r == "ok" {
			s.wset[id] = append(s.wset[id], key)
		}
	case c < writeBias+(100-writeBias)/2:
		s.out.Op(vh.Catch(func() string { return resGet(k.Get(s.ctx, key)) }), "get", w, key)
	case c < writeBias+(100-writeBias)*3/4:
		p := rng.Pick(s.g.prefixes)
		s.out.Op(vh.Catch(func() string { return resList(k.List(s.ctx, p)) }), "list", w, q(p))
	default:
		p := rng.Pick(s.g.prefixes)
		a := rng.Pick(s.g.afters)
		l := limits[rng.Intn(len(limits))]
		s.out.Op(vh.Catch(func() string { return resList(k.ListPage(s.ctx, p, a, l)) }), "listp", w, q(p), q(a), vh.I(int64(l)))
	}
}

func (s *sched) dump() {
	vals := make([]string, len(s.g.keys))
	for i, k := range s.g.keys {
		vals[i] = resGet(s.st.Get(s.ctx, k))
	}
	s.out.Op(strings.Join(vals, ","), append([]string{"dump"}, s.g.keys...)...)
}

// keys for concurrent readers inside a commit window: mostly keys of the transaction's write set
func (s *sched) readerKeys(id int) []string {
	rng := s.g.rng
	n := rng.Intn(4)
	ks := make([]string, 0, n)
	for i := 0; i < n; i++ {
		if len(s.wset[id]) > 0 && rng.Chance(70) {
			ks = append(ks, rng.Pick(s.wset[id]))
		} else {
			ks = append(ks, rng.Pick(s.g.keys))
		}
	}
	return ks
}

func (s *sched) hget(k string) {
	s.out.Op(vh.Catch(func() string { return resGet(s.st.Get(s.ctx, k)) }), "hget", k)
}

// cache coherent at quiescence: a read through the layered store vs. a direct read of the backend below
func (s *sched) cohere() {
	var b strings.Builder
	for _, k := range s.g.keys {
		c := resGet(s.st.Get(s.ctx, k))
		e, err := s.bl.raw.Get(s.ctx, s.bl.prefix+k)
		d := "nil"
		if err != nil {
			d = errClass(err)
		} else if e != nil {
			d = "v:" + vh.Hex(e.Value)
		}
		if c == d {
			b.WriteByte('=')
		} else {
			b.WriteByte('!')
		}
	}
	s.out.Op(b.String(), append([]string{"cohere"}, s.g.keys...)...)
}

var lockWindowsLeft int

func recvOr(ch chan string, d time.Duration) (string, bool) {
	select {
	case r := <-ch:
		return r, true
	case <-time.After(d):
		return "timeout", false
	}
}

// Commit window at LOCK granularity: a plain cache.Get runs in its own goroutine and is parked by the hook
// below the cache right after the storage read returned (it holds the key's stripe read lock); the
// transaction's Commit runs in another goroutine. The trace records the observed order of events:
// rstart (parked / returned), cunder (verdict of the underlying commit), cwait (has Commit returned, or is it
// blocked on the write lock of a stripe the parked reader holds), rrelease, commit.
func (s *sched) lockWindow(id int) {
	rng := s.g.rng
	w := vh.I(int64(id))
	kR := rng.Pick(s.g.keys)
	if len(s.wset[id]) > 0 && rng.Chance(70) {
		kR = rng.Pick(s.wset[id])
	}
	if rng.Chance(70) {
		s.bl.purge()
		s.out.Op("ok", "purge")
	}
	s.out.Op("ok", "cstart", w)
	const long = 30 * time.Second
	quiet := time.Duration(vh.EnvInt("VERIF_C08_QUIET_MS", 60)) * time.Millisecond

	p := &parkReq{key: s.bl.prefix + kR, fetched: make(chan string, 1), release: make(chan struct{})}
	s.bl.h.mu.Lock()
	s.bl.h.park = p
	s.bl.h.mu.Unlock()
	gdone := make(chan string, 1)
	go func() { gdone <- vh.Catch(func() string { return resGet(s.st.Get(s.ctx, kR)) }) }()
	parked := false
	var rres string
	select {
	case v := <-p.fetched:
		parked, rres = true, "parked:"+v
	case r := <-gdone:
		rres = "ret:" + r // LRU hit: the storage below was not consulted
	case <-time.After(long):
		rres = "timeout"
	}
	if !parked {
		s.bl.h.mu.Lock()
		s.bl.h.park = nil
		s.bl.h.mu.Unlock()
	}
	s.out.Op(rres, "rstart", kR)

	underCh := make(chan string, 1)
	s.bl.h.after = func(err error) { underCh <- resErr(err) }
	cdone := make(chan string, 1)
	go func() { cdone <- vh.Catch(func() string { return resErr(s.txns[id].Commit(s.ctx)) }) }()
	under, _ := recvOr(underCh, long)
	s.out.Op(under, "cunder", w)

	// Only the LENGTH of the wait depends on what is expected: where the locks say Commit must be blocked we
	// watch a quiet period; otherwise we give it all the time it wants.
	expectBlocked := false
	if parked && under == "ok" {
		for _, k := range s.wset[id] {
			if locksutil.LockIndexForKey(s.bl.prefix+k) == locksutil.LockIndexForKey(s.bl.prefix+kR) {
				expectBlocked = true
			}
		}
	}
	wait := long
	if expectBlocked {
		wait = quiet
	}
	cres, returned := recvOr(cdone, wait)
	if returned {
		s.out.Op("ret:"+cres, "cwait", w)
	} else {
		s.out.Op("blocked", "cwait", w)
	}
	if parked {
		close(p.release)
		r, _ := recvOr(gdone, long)
		s.out.Op("ret:"+r, "rrelease")
	}
	if !returned {
		cres, _ = recvOr(cdone, long)
	}
	s.out.Op(cres, "commit", w)
	s.done[id] = true
	s.cohere()
	s.dump()
}

// windowCommit: the commit of transaction id in micro-steps, with concurrent plain readers (through the cache) at the
// two hook points of the commit window: r0 before the underlying commit, r1 between it and the evictions from the parent
// cache. Direct predicate ("the writes of a committed transaction become visible together"): among the reads of r1, once
// one key the transaction changed shows its NEW value, no key it changed may still show its OLD value.
func (s *sched) windowCommit(id int, r0, r1 []string) {
	w := vh.I(int64(id))
	raw := func(k string) string {
		e, err := s.bl.raw.Get(s.ctx, s.bl.prefix+k)
		if err != nil {
			return "err"
		}
		if e == nil {
			return "nil"
		}
		return "v:" + vh.Hex(e.Value)
	}
	pre := map[string]string{}
	s.out.Op("ok", "cstart", w)
	s.bl.h.atStart = func() {
		for _, k := range s.wset[id] {
			pre[k] = raw(k)
		}
		for _, k := range r0 {
			s.hget(k)
		}
	}
	s.bl.h.after = func(err error) {
		s.out.Op(resErr(err), "cunder", w)
		sawNew := ""
		for _, k := range r1 {
			got := vh.Catch(func() string { return resGet(s.st.Get(s.ctx, k)) })
			res := got
			if p, written := pre[k]; err == nil && written {
				post := raw(k)
				switch {
				case p != post && got == post && sawNew == "":
					sawNew = k
				case p != post && got == p && sawNew != "" && sawNew != k:
					res += "!VIOL:a plain reader inside the commit window of transaction " + w + " saw the NEW value of " + sawNew + " and afterwards the OLD value of " + k + ": the writes of a committed transaction did not become visible together#F94:cache-window-half-visible"
				}
			}
			s.out.Op(res, "hget", k)
		}
	}
	res := vh.Catch(func() string { return resErr(s.txns[id].Commit(s.ctx)) })
	if s.bl.h.atStart != nil || s.bl.h.after != nil {
		s.t.Fatalf("commit of transaction %d did not pass the hook points", id)
	}
	s.out.Op(res, "commit", w)
	s.done[id] = true
	s.cohere()
	s.dump()
}

// halfVisibleCase (cache layers, directed): k1 is in the parent cache, k2 is not; a transaction changes both; inside its
// commit window a plain reader reads k2 (miss: the backend's new value) and then k1 (hit: the old value).
func halfVisibleCase(t *testing.T, out *vh.Out, layer string) {
	out.Reset()
	st, bl := newStore(t, layer)
	if bl.h == nil {
		return
	}
	s := &sched{t: t, out: out, ctx: context.Background(), st: st, bl: bl, g: newCaseGen(vh.NewRand(7))}
	out.Op("ok", "layer", layer)
	f := []string{"stripes"}
	for _, k := range s.g.keys {
		f = append(f, k, vh.I(int64(locksutil.LockIndexForKey(bl.prefix+k))))
	}
	out.Op("ok", f...)
	k1, k2 := s.g.keys[0], s.g.keys[1]
	for _, k := range []string{k1, k2} {
		out.Op(resErr(s.st.Put(s.ctx, k, values[0])), "put", "p", k, vh.Hex(values[0]))
	}
	bl.purge()
	out.Op("ok", "purge")
	out.Op(vh.Catch(func() string { return resGet(s.st.Get(s.ctx, k1)) }), "get", "p", k1)
	tx, err := s.st.Begin(s.ctx, false)
	if err != nil {
		t.Fatalf("begin: %v", err)
	}
	s.txns, s.ro, s.done, s.wset = append(s.txns, tx), append(s.ro, false), append(s.done, false), append(s.wset, nil)
	out.Op("ok", "begin", "0", "rw")
	for _, k := range []string{k1, k2} {
		out.Op(resErr(tx.Put(s.ctx, k, values[1])), "put", "0", k, vh.Hex(values[1]))
		s.wset[0] = append(s.wset[0], k)
	}
	s.windowCommit(0, nil, []string{k2, k1})
}

func (s *sched) finish(id int, commit bool) {
	w := vh.I(int64(id))
	if commit && s.bl.h != nil && !s.done[id] && lockWindowsLeft > 0 && s.g.rng.Chance(35) {
		lockWindowsLeft--
		s.lockWindow(id)
		return
	}
	if commit && s.bl.h != nil && !s.done[id] && s.g.rng.Chance(50) {
		// commit in micro-steps: concurrent plain readers at the two hook points of the commit window
		s.windowCommit(id, s.readerKeys(id), s.readerKeys(id))
		return
	}
	if commit {
		s.out.Op(vh.Catch(func() string { return resErr(s.txns[id].Commit(s.ctx)) }), "commit", w)
	} else {
		s.out.Op(vh.Catch(func() string { return resErr(s.txns[id].Rollback(s.ctx)) }), "rollback", w)
	}
	s.done[id] = true
	s.dump()
}

func runCase(t *testing.T, out *vh.Out, rng *vh.Rand, layer string, steps int) {
	out.Reset()
	st, bl := newStore(t, layer)
	s := &sched{t: t, out: out, ctx: context.Background(), st: st, bl: bl, g: newCaseGen(rng)}
	out.Op("ok", "layer", layer)
	if bl.h != nil {
		f := []string{"stripes"}
		for _, k := range s.g.keys {
			f = append(f, k, vh.I(int64(locksutil.LockIndexForKey(bl.prefix+k))))
		}
		out.Op("ok", f...)
	}
	// initial population
	for _, k := range s.g.keys {
		if rng.Chance(60) {
			v := values[rng.Intn(len(values))]
			out.Op(resErr(s.st.Put(s.ctx, k, v)), "put", "p", k, vh.Hex(v))
		}
	}
	maxOpen := 1 + rng.Intn(4)
	plainW := []int{0, 10, 25}[rng.Intn(3)] // how often plain writers interfere
	open := func() []int {
		var o []int
		for id := range s.txns {
			if !s.done[id] {
				o = append(o, id)
			}
		}
		return o
	}
	for i := 0; i < steps; i++ {
		o := open()
		c := rng.Intn(100)
		switch {
		case len(o) < maxOpen && len(s.txns) < 8 && (len(o) == 0 || c < 12):
			ro := rng.Chance(15)
			tx, err := s.st.Begin(s.ctx, ro)
			if err != nil {
				t.Fatalf("begin: %v", err)
			}
			s.txns = append(s.txns, tx)
			s.ro = append(s.ro, ro)
			s.done = append(s.done, false)
			s.wset = append(s.wset, nil)
			mode := "rw"
			if ro {
				mode = "ro"
			}
			out.Op("ok", "begin", vh.I(int64(len(s.txns)-1)), mode)
		case c < 12+plainW:
			s.dataOp(-1, 70)
		case c < 12+plainW+8 && len(o) > 0:
			s.finish(o[rng.Intn(len(o))], rng.Chance(85))
		case c < 12+plainW+8+3 && len(s.txns) > len(o):
			// use of a finished transaction (any operation, including a second commit/rollback)
			var fin []int
			for id := range s.txns {
				if s.done[id] {
					fin = append(fin, id)
				}
			}
			id := fin[rng.Intn(len(fin))]
			switch rng.Intn(4) {
			case 0:
				s.finish(id, true)
			case 1:
				s.finish(id, false)
			default:
				s.dataOp(id, 40)
			}
		case len(o) > 0:
			id := o[rng.Intn(len(o))]
			wb := 40
			if s.ro[id] {
				wb = 15
			}
			s.dataOp(id, wb)
		default:
			s.dataOp(-1, 50)
		}
	}
	for _, id := range open() {
		s.finish(id, rng.Chance(90))
	}
	if s.bl.h != nil {
		s.cohere()
	}
	s.dump()
}

func TestVerifC08Inmem(t *testing.T) {
	out := vh.Open()
	defer out.Close()
	rng := vh.NewRand(vh.Seed())
	n := vh.EnvInt("VERIF_C08_CASES", 3000)
	lockWindowsLeft = vh.EnvInt("VERIF_C08_LOCKWINDOWS", 150)
	if vh.Thorough() {
		n = vh.EnvInt("VERIF_C08_CASES", 200000)
		lockWindowsLeft = vh.EnvInt("VERIF_C08_LOCKWINDOWS", 4000)
	}
	for _, layer := range layers {
		halfVisibleCase(t, out, layer)
	}
	for i := 0; i < n; i++ {
		cr := rng.Fork(uint64(i))
		layer := layers[i%len(layers)]
		steps := 8 + cr.Intn(40)
		runCase(t, out, cr, layer, steps)
	}
}
