//go:build verif

package c08

// Root-module addition to the C08 scheduler harness: the same generator over the REAL encrypting storage barrier
// (internal/vault/barrier: TransactionalAESGCMBarrier, initialised and unsealed) on top of inmem's transactional
// backend — the layer every logical.Storage of a running server goes through. To the transaction model the barrier is
// transparent (stream "txn-barrier", layer "barrier" = bare): serializability, atomic visibility, read-your-writes
// and listings must be those of the backend below. Overlaid as internal/zzverif/c08b together with c08_test.go.

import (
	"context"
	"testing"

	log "github.com/hashicorp/go-hclog"
	"github.com/openbao/openbao/sdk/v2/logical"
	"github.com/openbao/openbao/sdk/v2/physical"
	"github.com/openbao/openbao/sdk/v2/physical/inmem"
	"github.com/openbao/openbao/v2/internal/vault/barrier"
)

func init() {
	layers = []string{"barrier"}
	extraLayer = func(t *testing.T, layer string) (store, *below) {
		if layer != "barrier" {
			return nil, nil
		}
		raw, err := inmem.NewInmem(nil, log.NewNullLogger())
		if err != nil {
			t.Fatal(err)
		}
		tb := raw.(physical.TransactionalBackend)
		sb := barrier.NewAESGCMBarrier(tb, nil)
		key, err := sb.GenerateKey()
		if err != nil {
			t.Fatal(err)
		}
		ctx := context.Background()
		if err := sb.Initialize(ctx, key, nil); err != nil {
			t.Fatal(err)
		}
		if err := sb.Unseal(ctx, key); err != nil {
			t.Fatal(err)
		}
		// as in a running server, clients reach the barrier through a storage view (here the barrier's own view type):
		// the barrier's keyring records live beside it, under core/
		view := barrier.NewView(sb, "logical/m/")
		ts, ok := view.(logical.TransactionalStorage)
		if !ok {
			t.Fatal("a barrier view over a transactional barrier is not transactional")
		}
		return logStore{logKV{view}, ts}, &below{raw: tb}
	}
}

func TestVerifC08Barrier(t *testing.T) { TestVerifC08Inmem(t) }
