//go:build verif

package c17

// Black-box correspondence harness for C17 over sdk/helper/keysutil: Policy + LockManager on
// logical.InmemStorage (wrapped by a put-fault injector). Overlaid as sdk/zzverif/c17. The thin endpoint glue
// that lives in the transit backend (configuration and trim guards, HMAC computation, rewrap) is replayed here
// the way path_keys_config.go / path_trim.go / path_hmac.go / path_rewrap.go call the policy, so that the same
// model stream ("transit") is compared with both this harness and the one driving the real endpoints.

import (
	"context"
	"crypto/hmac"
	"crypto/rand"
	"crypto/sha256"
	"encoding/base64"
	"strconv"
	"strings"
	"testing"

	"github.com/openbao/openbao/sdk/v2/helper/keysutil"
	"github.com/openbao/openbao/sdk/v2/logical"
	"github.com/openbao/openbao/sdk/v2/zzverif/c17core"
	"github.com/openbao/openbao/sdk/v2/zzverif/vh"
)

type aadFactory struct{ b []byte }

func (f aadFactory) GetAssociatedData() ([]byte, error) { return f.b, nil }

type target struct {
	lm   *keysutil.LockManager
	st   logical.Storage // transactional
	fs   *c17core.FaultStore
	ctx  context.Context
	name string
}

func newTarget(useCache bool) c17core.Target {
	lm, err := keysutil.NewLockManager(useCache, 0)
	if err != nil {
		panic(err)
	}
	st, fs := c17core.NewFaultStorage()
	return &target{lm: lm, st: st, fs: fs, ctx: context.Background(), name: "k"}
}

func (t *target) Close() {}

func (t *target) SupportsNonce() bool { return true }

func cls(err error) string {
	if err == nil {
		return ""
	}
	return c17core.Classify(err.Error())
}

func (t *target) get(excl bool) (*keysutil.Policy, string) { return t.getFrom(t.st, excl) }

func (t *target) getFrom(st logical.Storage, excl bool) (*keysutil.Policy, string) {
	p, _, err := t.lm.GetPolicyWithLockType(t.ctx, keysutil.PolicyRequest{Storage: st, Name: t.name}, rand.Reader, excl)
	if err != nil {
		return nil, cls(err)
	}
	if p == nil {
		return nil, "nokey"
	}
	return p, ""
}

// mutating wraps a mutating operation: the planned put fault applies to it and is cleared afterwards.
func (t *target) mutating(f func() string) (res string) {
	t.fs.Count = 0
	defer func() {
		t.fs.FailAt = 0
		if r := recover(); r != nil {
			res = "PANIC"
		}
	}()
	return f()
}

func (t *target) FailPut(k int) { t.fs.FailAt = k }

// inTx runs f the way the rotate / config / trim handlers run: inside logical.StartTxStorage, i.e. on a
// transaction of the storage that is committed on success and rolled back when the request fails.
func (t *target) inTx(f func(st logical.Storage) string) string {
	return t.mutating(func() (res string) {
		tx, err := t.st.(logical.TransactionalStorage).BeginTx(t.ctx)
		if err != nil {
			return cls(err)
		}
		defer func() {
			if r := recover(); r != nil {
				tx.Rollback(t.ctx) //nolint:errcheck
				panic(r)
			}
		}()
		res = f(tx)
		if res != "" {
			tx.Rollback(t.ctx) //nolint:errcheck
			return res
		}
		return cls(tx.Commit(t.ctx))
	})
}

func (t *target) Info() (c17core.Info, bool) {
	p, c := t.get(false)
	if c != "" {
		return c17core.Info{}, false
	}
	defer p.Unlock()
	return c17core.Info{Latest: p.LatestVersion, MinDec: p.MinDecryptionVersion, MinEnc: p.MinEncryptionVersion, MinAvail: p.MinAvailableVersion}, true
}

var keyTypes = map[string]keysutil.KeyType{
	"aes128-gcm96": keysutil.KeyType_AES128_GCM96, "aes256-gcm96": keysutil.KeyType_AES256_GCM96,
	"chacha20-poly1305": keysutil.KeyType_ChaCha20_Poly1305, "xchacha20-poly1305": keysutil.KeyType_XChaCha20_Poly1305,
	"ed25519": keysutil.KeyType_ED25519, "ecdsa-p256": keysutil.KeyType_ECDSA_P256, "hmac": keysutil.KeyType_HMAC,
}

func (t *target) New(typ string, derived, convergent bool) string {
	return t.mutating(func() string {
		req := keysutil.PolicyRequest{Upsert: true, Storage: t.st, Name: t.name, KeyType: keyTypes[typ], Derived: derived, Convergent: convergent}
		if typ == "hmac" {
			req.KeySize = 32
		}
		p, upserted, err := t.lm.GetPolicy(t.ctx, req, rand.Reader)
		if err != nil {
			return cls(err)
		}
		if p == nil {
			return "nokey"
		}
		p.Unlock()
		if !upserted {
			return "exists"
		}
		return ""
	})
}

func (t *target) Rotate() string {
	return t.inTx(func(st logical.Storage) string {
		p, c := t.getFrom(st, true)
		if c != "" {
			return c
		}
		defer p.Unlock()
		return cls(p.Rotate(t.ctx, st, rand.Reader))
	})
}

// ImportVersion: Policy.ImportPublicOrPrivate with a fresh random key (a new key version made of given material), inside
// a transaction as pathImportVersionWrite runs it.
func (t *target) ImportVersion() string {
	return t.inTx(func(st logical.Storage) string {
		p, c := t.getFrom(st, true)
		if c != "" {
			return c
		}
		defer p.Unlock()
		key := make([]byte, 32)
		if _, err := rand.Read(key); err != nil {
			return "other(rand)"
		}
		return cls(p.ImportPublicOrPrivate(t.ctx, st, key, true, rand.Reader))
	})
}

// Config replays pathKeysConfigWrite's use of the policy (min versions and the three flags).
func (t *target) Config(dec, enc *int, del, exp, apb *bool) string {
	return t.inTx(func(st logical.Storage) (res string) {
		p, c := t.getFrom(st, true)
		if c != "" {
			return c
		}
		defer p.Unlock()
		oD, oE, oDel, oExp, oApb := p.MinDecryptionVersion, p.MinEncryptionVersion, p.DeletionAllowed, p.Exportable, p.AllowPlaintextBackup
		defer func() {
			if res != "" {
				p.MinDecryptionVersion, p.MinEncryptionVersion, p.DeletionAllowed, p.Exportable, p.AllowPlaintextBackup = oD, oE, oDel, oExp, oApb
			}
		}()
		persistNeeded := false
		if dec != nil {
			d := *dec
			if d < 0 {
				return "negMinDec"
			}
			if d == 0 {
				d = 1
			}
			if d != p.MinDecryptionVersion {
				if d > p.LatestVersion {
					return "minDecTooHigh"
				}
				p.MinDecryptionVersion = d
				persistNeeded = true
			}
		}
		if enc != nil {
			e := *enc
			if e < 0 {
				return "negMinEnc"
			}
			if e != p.MinEncryptionVersion {
				if e > p.LatestVersion {
					return "minEncTooHigh"
				}
				p.MinEncryptionVersion = e
				persistNeeded = true
			}
		}
		if p.MinEncryptionVersion > 0 && p.MinEncryptionVersion < p.MinDecryptionVersion {
			return "encBelowDec"
		}
		if del != nil && *del != p.DeletionAllowed {
			p.DeletionAllowed = *del
			persistNeeded = true
		}
		if p.MinDecryptionVersion == 0 {
			p.MinDecryptionVersion = 1
			persistNeeded = true
		}
		if exp != nil && *exp && !p.Exportable {
			p.Exportable = true
			persistNeeded = true
		}
		if apb != nil && *apb && !p.AllowPlaintextBackup {
			p.AllowPlaintextBackup = true
			persistNeeded = true
		}
		if !persistNeeded {
			return ""
		}
		switch {
		case p.MinAvailableVersion > p.MinEncryptionVersion:
			return "availAboveEnc"
		case p.MinAvailableVersion > p.MinDecryptionVersion:
			return "availAboveDec"
		}
		return cls(p.Persist(t.ctx, st))
	})
}

// RawConfig assigns the minimum versions without the endpoint guards and persists, restoring them on failure.
func (t *target) RawConfig(dec, enc int) (string, bool) {
	return t.inTx(func(st logical.Storage) string {
		p, c := t.getFrom(st, true)
		if c != "" {
			return c
		}
		defer p.Unlock()
		oD, oE := p.MinDecryptionVersion, p.MinEncryptionVersion
		p.MinDecryptionVersion, p.MinEncryptionVersion = dec, enc
		if err := p.Persist(t.ctx, st); err != nil {
			p.MinDecryptionVersion, p.MinEncryptionVersion = oD, oE
			return cls(err)
		}
		return ""
	}), true
}

// Trim replays pathTrimUpdate's use of the policy.
func (t *target) Trim(n int) string {
	return t.inTx(func(st logical.Storage) string {
		p, c := t.getFrom(st, true)
		if c != "" {
			return c
		}
		defer p.Unlock()
		orig := p.MinAvailableVersion
		switch {
		case n < orig:
			return "trimDecrement"
		case p.MinEncryptionVersion == 0:
			return "trimEncUnset"
		case p.MinDecryptionVersion == 0:
			return "trimDecUnset"
		case n > p.MinEncryptionVersion:
			return "trimAboveEnc"
		case n > p.MinDecryptionVersion:
			return "trimAboveDec"
		case n < 0:
			return "trimNegative"
		case n == 0:
			return "trimZero"
		}
		p.MinAvailableVersion = n
		if err := p.Persist(t.ctx, st); err != nil {
			p.MinAvailableVersion = orig
			return cls(err)
		}
		return ""
	})
}

func (t *target) Backup() (blob string, res string) {
	res = t.mutating(func() string {
		b, err := t.lm.BackupPolicy(t.ctx, t.st, t.name)
		blob = b
		return cls(err)
	})
	return blob, res
}

// Restore replays pathRestoreUpdate: RestorePolicy inside a storage transaction.
func (t *target) Restore(blob string, force bool) string {
	return t.inTx(func(st logical.Storage) string {
		return cls(t.lm.RestorePolicy(t.ctx, st, t.name, blob, force))
	})
}

// RestoreRaw is the bare library call on the (non-transaction) storage handle; an empty blob only probes support.
func (t *target) RestoreRaw(blob string, force bool) (string, bool) {
	if blob == "" {
		return "probe", true
	}
	return t.mutating(func() string {
		return cls(t.lm.RestorePolicy(t.ctx, t.st, t.name, blob, force))
	}), true
}

func (t *target) Delete() string {
	return t.mutating(func() string {
		return cls(t.lm.DeletePolicy(t.ctx, t.st, t.name))
	})
}

func factories(aad []byte) []any {
	if len(aad) == 0 {
		return nil
	}
	return []any{aadFactory{aad}}
}

func b64(b []byte) string { return base64.StdEncoding.EncodeToString(b) }

func (t *target) Encrypt(ver int, ctx, aad, nonce, plain []byte) (ct string, res string) {
	defer func() {
		if r := recover(); r != nil {
			res = "PANIC"
		}
	}()
	p, c := t.get(false)
	if c != "" {
		return "", c
	}
	defer p.Unlock()
	ct, err := p.EncryptWithFactory(ver, ctx, nonce, b64(plain), factories(aad)...)
	return ct, cls(err)
}

func (t *target) Decrypt(ct string, ctx, aad []byte) (plain []byte, res string) {
	defer func() {
		if r := recover(); r != nil {
			res = "PANIC"
		}
	}()
	p, c := t.get(false)
	if c != "" {
		return nil, c
	}
	defer p.Unlock()
	pt, err := p.DecryptWithFactory(ctx, nil, ct, factories(aad)...)
	if err != nil {
		return nil, cls(err)
	}
	raw, err := base64.StdEncoding.DecodeString(pt)
	if err != nil {
		return nil, "other(plaintext not base64)"
	}
	return raw, ""
}

// Rewrap replays pathRewrapWrite: Decrypt without associated data, then Encrypt with the requested version.
func (t *target) Rewrap(ct string, ver int, ctx []byte) (out string, res string) {
	defer func() {
		if r := recover(); r != nil {
			res = "PANIC"
		}
	}()
	p, c := t.get(false)
	if c != "" {
		return "", c
	}
	defer p.Unlock()
	pt, err := p.Decrypt(ctx, nil, ct)
	if err != nil {
		return "", cls(err)
	}
	out, err = p.Encrypt(ver, ctx, nil, pt)
	return out, cls(err)
}

func (t *target) Sign(ver int, ctx, msg []byte) (sig string, res string) {
	defer func() {
		if r := recover(); r != nil {
			res = "PANIC"
		}
	}()
	p, c := t.get(false)
	if c != "" {
		return "", c
	}
	defer p.Unlock()
	r, err := p.Sign(ver, ctx, msg, keysutil.HashTypeSHA2256, "", keysutil.MarshalingTypeASN1)
	if err != nil {
		return "", cls(err)
	}
	return r.Signature, ""
}

func (t *target) Verify(sig string, ctx, msg []byte) (ok bool, res string) {
	defer func() {
		if r := recover(); r != nil {
			res = "PANIC"
		}
	}()
	p, c := t.get(false)
	if c != "" {
		return false, c
	}
	defer p.Unlock()
	ok, err := p.VerifySignature(ctx, msg, keysutil.HashTypeSHA2256, "", keysutil.MarshalingTypeASN1, sig)
	if err != nil {
		if c17core.SigFormatError(err.Error()) {
			return false, ""
		}
		return false, cls(err)
	}
	return ok, ""
}

// HMAC replays pathHMACWrite: version selection, Policy.HMACKey, HMAC-SHA256.
func (t *target) HMAC(ver int, msg []byte) (mac string, res string) {
	p, c := t.get(false)
	if c != "" {
		return "", c
	}
	defer p.Unlock()
	switch {
	case ver == 0:
		ver = p.LatestVersion
	case ver == p.LatestVersion:
	case p.MinEncryptionVersion > 0 && ver < p.MinEncryptionVersion:
		return "", "belowMinEnc"
	}
	key, err := p.HMACKey(ver)
	if err != nil {
		return "", cls(err)
	}
	hf := hmac.New(sha256.New, key)
	hf.Write(msg)
	return "vault:v" + strconv.Itoa(ver) + ":" + b64(hf.Sum(nil)), ""
}

// HMACVerify replays pathHMACVerify.
func (t *target) HMACVerify(mac string, msg []byte) (bool, string) {
	p, c := t.get(false)
	if c != "" {
		return false, c
	}
	defer p.Unlock()
	if !strings.HasPrefix(mac, "vault:v") {
		return false, "noprefix"
	}
	parts := strings.SplitN(strings.TrimPrefix(mac, "vault:v"), ":", 2)
	if len(parts) != 2 {
		return false, "fields"
	}
	ver, err := strconv.Atoi(parts[0])
	if err != nil {
		return false, "verparse"
	}
	verBytes, err := base64.StdEncoding.DecodeString(parts[1])
	if err != nil {
		return false, "b64"
	}
	if ver > p.LatestVersion {
		return false, "tooNew"
	}
	if p.MinDecryptionVersion > 0 && ver < p.MinDecryptionVersion {
		return false, "tooOld"
	}
	key, err := p.HMACKey(ver)
	if err != nil {
		return false, cls(err)
	}
	if key == nil {
		return false, "emptykey"
	}
	hf := hmac.New(sha256.New, key)
	hf.Write(msg)
	return hmac.Equal(hf.Sum(nil), verBytes), ""
}

func TestVerifC17(t *testing.T) {
	out := vh.Open()
	defer out.Close()
	rng := vh.NewRand(vh.Seed())
	cases, ops := vh.EnvInt("VERIF_C17_CASES", 2500), 60
	if vh.Thorough() {
		cases = vh.EnvInt("VERIF_C17_CASES", 40000)
	}
	c17core.Run(out, rng, newTarget, cases, ops, false)
}

// TestVerifC17Faults: the same histories with single storage-put faults planned before mutating operations.
func TestVerifC17Faults(t *testing.T) {
	out := vh.Open()
	defer out.Close()
	rng := vh.NewRand(vh.Seed() ^ 0x5bd1e995)
	cases, ops := vh.EnvInt("VERIF_C17_CASES", 1500), 50
	if vh.Thorough() {
		cases = vh.EnvInt("VERIF_C17_CASES", 25000)
	}
	c17core.Run(out, rng, newTarget, cases, ops, true)
}
