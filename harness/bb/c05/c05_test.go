//go:build verif

package c05

// Black-box correspondence harness for C05 (framework.CalculateTTL), overlaid as sdk/zzverif/c05.

import (
	"strings"
	"testing"
	"time"

	"github.com/openbao/openbao/sdk/v2/framework"
	"github.com/openbao/openbao/sdk/v2/logical"
	"github.com/openbao/openbao/sdk/v2/zzverif/vh"
)

func TestVerifC05(t *testing.T) {
	out := vh.Open()
	defer out.Close()
	rng := vh.NewRand(vh.Seed())
	n := 200000
	if vh.Thorough() {
		n = 3000000
	}
	sec := int64(time.Second)
	// lattice values around the boundaries the code compares against, in nanoseconds
	base := []int64{0, 1, sec - 1, sec, sec + 1, 59 * sec, 60 * sec, 3600 * sec, 86400 * sec, 32 * 86400 * sec, -1, -sec, -3600 * sec, 500000000, 1500000000}
	pick := func(ref int64) int64 {
		switch rng.Intn(10) {
		case 0, 1, 2, 3:
			return base[rng.Intn(len(base))]
		case 4:
			return ref - 1
		case 5:
			return ref
		case 6:
			return ref + 1
		case 7:
			return int64(rng.Intn(7200)) * sec
		case 8:
			return int64(rng.U64() % uint64(40*86400*sec))
		default:
			return 0
		}
	}
	for i := 0; i < n; i++ {
		sysMax := pick(3600 * sec)
		if rng.Chance(70) && sysMax <= 0 {
			sysMax = int64(1+rng.Intn(100000)) * sec
		}
		sysDef := pick(sysMax)
		incr := pick(sysMax)
		bttl := pick(sysMax)
		period := int64(0)
		if rng.Chance(35) {
			period = pick(sysMax)
		}
		bmax := pick(sysMax)
		emax := pick(sysMax)
		elapsed := pick(sysMax) // start = now - elapsed (may be in the future when negative)
		if rng.Chance(30) {
			elapsed = pick(emax)
		}
		startZero := rng.Chance(10)
		sv := &logical.StaticSystemView{DefaultLeaseTTLVal: time.Duration(sysDef), MaxLeaseTTLVal: time.Duration(sysMax)}
		var res string
		var nowT, startT time.Time
		for attempt := 0; attempt < 5; attempt++ {
			before := time.Now()
			nowT = before.Truncate(time.Second)
			var st time.Time
			if !startZero {
				st = before.Add(-time.Duration(elapsed))
				startT = st.Truncate(time.Second)
			}
			ttl, warns, err := framework.CalculateTTL(sv, time.Duration(incr), time.Duration(bttl), time.Duration(period), time.Duration(bmax), time.Duration(emax), st)
			after := time.Now().Truncate(time.Second)
			if !after.Equal(nowT) {
				continue // the second changed during the call: retry so that `now` is known exactly
			}
			switch {
			case err == nil:
				res = "ok:" + vh.I(int64(ttl)) + ":" + vh.I(int64(len(warns)))
			case strings.Contains(err.Error(), "max TTL must be greater than zero"):
				res = "err:max"
			case strings.Contains(err.Error(), "past the max TTL"):
				res = "err:past"
			default:
				res = "err:other"
			}
			break
		}
		if res == "" {
			continue
		}
		sz, stN := "0", startT.UnixNano()
		if startZero {
			sz, stN = "1", 0
		}
		out.Op(res, "calc", vh.I(nowT.UnixNano()), sz, vh.I(stN), vh.I(sysMax), vh.I(sysDef), vh.I(incr), vh.I(bttl), vh.I(period), vh.I(bmax), vh.I(emax))
	}
}
