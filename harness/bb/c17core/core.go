//go:build verif

// Package c17core is the generator, canonicaliser and direct property predicate shared by the two C17
// correspondence harnesses: the black-box one over sdk/helper/keysutil (Policy + LockManager) and the one
// that drives the real transit backend through HandleRequest. Both implement Target; Run produces the
// op lines of driver stream "transit". Real ciphertexts / signatures / HMACs are opaque to the model, so
// every distinct artifact string is replaced by its first-occurrence ordinal (#1, #2, ...), and a mutated
// artifact is described by (handle, version rewrite, body rewrite).
package c17core

import (
	"encoding/asn1"
	"encoding/base64"
	"encoding/json"
	"math/big"
	"strconv"
	"strings"

	"github.com/openbao/openbao/sdk/v2/zzverif/vh"
)

// Info is what the key-read view reports about the key ring.
type Info struct{ Latest, MinDec, MinEnc, MinAvail int }

// Target is the implementation under test. Every method returns a canonical error class ("" = success).
type Target interface {
	New(typ string, derived, convergent bool) string
	Rotate() string
	Config(dec, enc *int, del, exp, apb *bool) string
	Trim(n int) string
	Backup() (string, string)
	Restore(blob string, force bool) string
	Delete() string
	Encrypt(ver int, ctx, aad, nonce, plain []byte) (string, string)
	Decrypt(ct string, ctx, aad []byte) ([]byte, string)
	Rewrap(ct string, ver int, ctx []byte) (string, string)
	Sign(ver int, ctx, msg []byte) (string, string)
	Verify(sig string, ctx, msg []byte) (bool, string)
	HMAC(ver int, msg []byte) (string, string)
	HMACVerify(mac string, msg []byte) (bool, string)
	// FailPut plans a storage fault: the k-th Put of the next mutating operation fails (0 = none).
	FailPut(k int)
	Info() (Info, bool)
	// SupportsNonce: the caller can hand a nonce to Encrypt (the encrypt endpoint never forwards one).
	SupportsNonce() bool
	// RawConfig assigns both minimum versions without the endpoint guards and persists (keysutil level only);
	// supported = false when the target has no such entry point.
	RawConfig(dec, enc int) (cls string, supported bool)
	// RestoreRaw is the bare library call keysutil.LockManager.RestorePolicy on a storage handle that is not a
	// transaction (Restore is the endpoint, which runs it inside one); supported = false for endpoint targets.
	RestoreRaw(blob string, force bool) (cls string, supported bool)
	Close()
}

// SoftDeleter: the endpoint targets' keys/<name>/soft-delete (restore = false) and soft-delete-restore (restore = true).
// Only driven WITH a planned storage fault on their single Put: the request then fails and must leave the key as it was.
type SoftDeleter interface {
	SoftDelete(restore bool) string
}

// Importer: targets that can add a key version made of given key material (Policy.ImportPublicOrPrivate).
type Importer interface {
	ImportVersion() string
}

// CommitFaulter: targets whose mutating operations run inside a storage transaction (the endpoints): the Commit of the
// next one is refused.
type CommitFaulter interface {
	FailCommit()
}

const InjectedPutError = "verif: injected put failure"

// Classify maps an error message of keysutil / the transit endpoints to the model's error class.
func Classify(msg string) string {
	if strings.Contains(msg, InjectedCommitError) {
		return "commit"
	}
	has := func(s string) bool { return strings.Contains(msg, s) }
	switch {
	case has(InjectedPutError):
		return "persist:put"
	case has("error deriving key"):
		return "derive"
	case has("already exists"), has("already existed"):
		return "exists"
	case has("convergent encryption requires derivation"), has("convergent encryption not supported for keys"),
		has("key derivation and convergent encryption not supported"):
		return "badparams"
	case has("encryption key not found"), has("key not found"), has("no existing key named"), has("invalid key name"),
		has("could not delete key; not found"), has("not found"):
		return "nokey"
	case has("minimum decryption version of") && has("is less than 1"):
		return "persist:minDec<1"
	case has("latest version of") && has("is less than 1"):
		return "persist:latest<1"
	case has("archive version not up-to-date"):
		return "persist:archiveStale"
	case has("archive version of"):
		return "persist:archiveAhead"
	case has("minimum decryption version of") && has("is greater than minimum encryption version"):
		return "persist:encBelowDec"
	case has("minimum decryption version of") && has("is greater than the latest version"):
		return "persist:decAboveLatest"
	case has("min decryption version cannot be negative"):
		return "negMinDec"
	case has("cannot set min decryption version of"):
		return "minDecTooHigh"
	case has("min encryption version cannot be negative"):
		return "negMinEnc"
	case has("cannot set min encryption version of"):
		return "minEncTooHigh"
	case has("cannot set min encryption/decryption values"):
		return "encBelowDec"
	case has("min encryption version should not be less than min available version"):
		return "availAboveEnc"
	case has("min decryption version should not be less then min available version"):
		return "availAboveDec"
	case has("minimum available version cannot be decremented"):
		return "trimDecrement"
	case has("when minimum encryption version is not set"):
		return "trimEncUnset"
	case has("when minimum decryption version is not set"):
		return "trimDecUnset"
	case has("cannot be greater than minmum encryption version"):
		return "trimAboveEnc"
	case has("cannot be greater than minimum decryption version"):
		return "trimAboveDec"
	case has("minimum available version cannot be negative"):
		return "trimNegative"
	case has("minimum available version should be positive"):
		return "trimZero"
	case has("exporting is disallowed"):
		return "notExportable"
	case has("plaintext backup is disallowed"):
		return "noPlainBackup"
	case has("deletion is not allowed for this key"):
		return "deletionNotAllowed"
	case has("cannot generate HMAC: version is too old"), has("less than the minimum encryption key version"):
		return "belowMinEnc"
	case has("is negative"), has("cannot be negative"):
		return "negver"
	case has("higher than the latest key version"), has("version is too new"), has("key version does not exist; latest key version is"):
		return "tooNew"
	case has("too old"):
		return "tooOld"
	case has("context should be set either in all the request blocks or in none"):
		return "ctxmix"
	case has("nonce provided when not allowed"):
		return "nonceNotAllowed"
	case has("missing 'context' for key derivation"):
		return "ctxMissing"
	case has("could not derive key, length too small"), has("could not derive enc key, length not correct"),
		has("no HMAC key exists for that key version"), has("does not contain a private part"), has("unhandled convergent version -1"),
		has("HMAC key value could not be computed"):
		return "emptykey"
	case has("no such key version"):
		return "novers"
	case has("invalid key version"):
		return "invalidver"
	case has("no prefix"):
		return "noprefix"
	case has("wrong number of fields"):
		return "fields"
	case has("version number could not be decoded"):
		return "verparse"
	case has("could not decode base64"), has("invalid base64 signature value"), has("unable to decode verification HMAC as base64"):
		return "b64"
	case has("invalid ciphertext length"):
		return "length"
	case has("message authentication failed"):
		return "auth"
	case has("not supported for key type"), has("does not support"), has("provided for non-AEAD cipher suite"):
		return "unsupported"
	case has("refusing to use soft-deleted key"):
		return "softdeleted"
	}
	return "other(" + strings.ReplaceAll(strings.ReplaceAll(msg, "\t", " "), "\n", " ") + ")"
}

// SigFormatError reports the ECDSA ASN.1 decoding failures that are canonicalised to "does not verify".
func SigFormatError(msg string) bool {
	return strings.Contains(msg, "supplied signature is invalid") || strings.Contains(msg, "supplied signature contains extra data")
}

type artifact struct {
	kind    string // enc, sig, mac
	ver     int
	ctx     string // hex of the derivation context when the key is derived, else "-"
	aad     string
	msg     string
	epoch   int
	faulted bool // created after a storage fault was injected in this case
}

type backupMeta struct {
	typ                 string
	derived, convergent bool
}

type gen struct {
	out *vh.Out
	rng *vh.Rand
	t   Target

	typ                 string
	derived, convergent bool
	exists              bool
	info                Info
	epoch               int
	faultSeen           bool
	lastCls             string
	lastRestoreOp       string // "restore" (endpoint, transactional) or "restoreraw" (bare library call)
	dead                bool // an operation panicked: the case ends
	failedFaults        []string // kinds of the operations whose planned put fault fired in this case

	handles map[string]int
	arts    []artifact // index = handle-1
	strs    []string   // artifact strings by handle-1
	conv    map[string]string
	backups []string
	bmeta   []backupMeta

	ctxs, aads, msgs [][]byte
	faults           bool
}

func hx(b []byte) string { return vh.Hex(b) }

func (g *gen) refresh() {
	g.info, g.exists = g.t.Info()
}

func (g *gen) polResult(cls string) string {
	g.lastCls = cls
	g.refresh()
	if cls != "" {
		return errRes(cls)
	}
	return "ok:l" + strconv.Itoa(g.info.Latest) + ":d" + strconv.Itoa(g.info.MinDec) + ":e" + strconv.Itoa(g.info.MinEnc) + ":a" + strconv.Itoa(g.info.MinAvail)
}

func (g *gen) handle(s string, a artifact) int {
	if h, ok := g.handles[s]; ok {
		return h
	}
	g.arts = append(g.arts, a)
	g.strs = append(g.strs, s)
	g.handles[s] = len(g.arts)
	return len(g.arts)
}

// splitArtifact splits "vault:v<ver>:<body>".
func splitArtifact(s string) (verStr, body string, ok bool) {
	if !strings.HasPrefix(s, "vault:v") {
		return "", "", false
	}
	parts := strings.SplitN(strings.TrimPrefix(s, "vault:v"), ":", 2)
	if len(parts) != 2 {
		return "", "", false
	}
	return parts[0], parts[1], true
}

// faultSig names the storage-fault scenario a post-fault violation is attributed to: a failed bare library call of
// RestorePolicy outside a transaction if there was one (two Puts, no atomicity: known finding F39, library call
// only), else a failed restore through the endpoint (F39 as repaired: the handler opens a transaction — the signature
// stays so that the defect is reported if it returns), else a failed trim (F38, repaired likewise), else the first
// operation whose put failed.
func (g *gen) faultSig() string {
	if len(g.failedFaults) == 0 {
		return "fault-planned-but-not-fired"
	}
	for _, want := range []string{"restoreraw", "restore", "trim"} {
		for _, k := range g.failedFaults {
			if k == want {
				if want == "restoreraw" {
					return "after-failed-bare-restore-call"
				}
				return "after-failed-" + want
			}
		}
	}
	return "after-failed-" + g.failedFaults[0]
}

// emit writes one protocol line; a predicate failure that follows a fired storage fault is attributed to that
// fault scenario (one structural signature per scenario, whatever the visible consequence is).
func (g *gen) emit(res string, fields ...string) {
	if res == "panic" {
		// the state after a panic in the middle of an operation is not modelled: record it, end the case
		g.dead = true
		res = viol(res, "operation panicked", "panic")
	}
	if i := strings.Index(res, "!VIOL:"); i >= 0 && len(g.failedFaults) > 0 {
		what := res[i+len("!VIOL:"):]
		if j := strings.LastIndex(what, "#"); j >= 0 {
			what = what[:j]
		}
		res = res[:i] + "!VIOL:" + what + " [history contains a failed storage put: " + strings.Join(g.failedFaults, ",") + "]#storage-fault:" + g.faultSig()
	}
	g.out.Op(res, fields...)
}

func errRes(cls string) string {
	if cls == "PANIC" {
		return "panic"
	}
	return "err:" + cls
}

func viol(res, what, sig string) string { return res + "!VIOL:" + what + "#" + sig }

func optI(p *int) string {
	if p == nil {
		return "-"
	}
	return strconv.Itoa(*p)
}

func optB(p *bool) string {
	if p == nil {
		return "-"
	}
	if *p {
		return "1"
	}
	return "0"
}

func b01(b bool) string {
	if b {
		return "1"
	}
	return "0"
}

var types = []string{"aes128-gcm96", "aes256-gcm96", "chacha20-poly1305", "xchacha20-poly1305", "ed25519", "ecdsa-p256", "hmac"}

func encType(t string) bool  { return strings.Contains(t, "gcm") || strings.Contains(t, "poly1305") }
func signType(t string) bool { return t == "ed25519" || t == "ecdsa-p256" }

// ---------------------------------------------------------------- operations

func (g *gen) opNew() {
	typ := g.rng.Pick(types)
	if g.rng.Chance(55) {
		typ = types[g.rng.Intn(4)]
	}
	derived, convergent := false, false
	switch {
	case encType(typ):
		derived = g.rng.Chance(50)
		convergent = derived && g.rng.Chance(50)
		if g.rng.Chance(4) {
			derived, convergent = false, true
		}
	case typ == "ed25519":
		derived = g.rng.Chance(40)
		convergent = g.rng.Chance(4)
	default:
		derived = g.rng.Chance(4)
		convergent = g.rng.Chance(3)
	}
	cls := g.t.New(typ, derived, convergent)
	if cls == "" {
		g.typ, g.derived, g.convergent = typ, derived, convergent
		g.epoch++
	}
	g.emit(g.polResult(cls), "new", typ, b01(derived), b01(convergent))
}

func (g *gen) opRotate() {
	cls := g.t.Rotate()
	g.emit(g.polResult(cls), "rotate")
}

func (g *gen) pickVer(extra ...int) int {
	i := g.info
	c := []int{0, 1, i.Latest, i.Latest + 1, i.MinDec, i.MinDec - 1, i.MinDec + 1, i.MinEnc, i.MinEnc - 1, i.MinEnc + 1, i.MinAvail, i.MinAvail - 1, i.MinAvail + 1, -1, g.rng.Intn(i.Latest+2)}
	c = append(c, extra...)
	return c[g.rng.Intn(len(c))]
}

func (g *gen) opConfig() {
	var dec, enc *int
	var del, exp, apb *bool
	r := g.rng.Intn(100)
	if r < 55 {
		v := g.pickVer()
		if g.rng.Chance(50) && g.info.Latest > 0 {
			v = 1 + g.rng.Intn(g.info.Latest)
		}
		dec = &v
	}
	if g.rng.Chance(50) {
		v := g.pickVer()
		if g.rng.Chance(50) && g.info.Latest > 0 {
			v = g.info.MinDec + g.rng.Intn(g.info.Latest-g.info.MinDec+1)
			if dec != nil && *dec >= 1 && *dec <= g.info.Latest {
				v = *dec + g.rng.Intn(g.info.Latest-*dec+1)
			}
		}
		enc = &v
	}
	if g.rng.Chance(12) {
		b := g.rng.Chance(70)
		del = &b
	}
	if g.rng.Chance(25) {
		b := g.rng.Chance(85)
		exp = &b
	}
	if g.rng.Chance(25) {
		b := g.rng.Chance(85)
		apb = &b
	}
	g.doConfig(dec, enc, del, exp, apb)
}

func (g *gen) doConfig(dec, enc *int, del, exp, apb *bool) {
	cls := g.t.Config(dec, enc, del, exp, apb)
	g.emit(g.polResult(cls), "cfg", optI(dec), optI(enc), optB(del), optB(exp), optB(apb))
}

// opRawConfig: unguarded assignment of the minimum versions (exercises handleArchiving's own sanity checks). The
// values stay where the policy API does not panic and where min_encryption_version <= latest, the caller-side
// precondition of "key_version 0 = latest".
func (g *gen) opRawConfig() bool {
	i := g.info
	decs := []int{0, i.MinAvail, i.MinAvail + 1, i.MinDec, i.MinDec + 1, i.Latest, i.Latest + 1, i.MinAvail + g.rng.Intn(i.Latest-i.MinAvail+2)}
	dec := decs[g.rng.Intn(len(decs))]
	if dec < i.MinAvail && dec != 0 {
		dec = i.MinAvail
	}
	enc := g.rng.Intn(i.Latest + 1)
	if g.rng.Chance(30) {
		enc = 0
	}
	cls, ok := g.t.RawConfig(dec, enc)
	if !ok {
		return false
	}
	g.emit(g.polResult(cls), "rawcfg", strconv.Itoa(dec), strconv.Itoa(enc))
	return true
}

func (g *gen) opTrim() {
	i := g.info
	m := i.MinDec
	if i.MinEnc < m {
		m = i.MinEnc
	}
	c := []int{m, m, m, m - 1, m + 1, i.MinAvail, i.MinAvail + 1, i.MinAvail - 1, 0, -1, 1, i.MinDec, i.MinEnc, g.rng.Intn(i.Latest + 2)}
	g.doTrim(c[g.rng.Intn(len(c))])
}

func (g *gen) doTrim(n int) {
	cls := g.t.Trim(n)
	g.emit(g.polResult(cls), "trim", strconv.Itoa(n))
}

func (g *gen) pickCtx() []byte {
	if g.derived {
		if g.rng.Chance(8) {
			return nil
		}
		return g.ctxs[g.rng.Intn(len(g.ctxs))]
	}
	if g.rng.Chance(15) {
		return g.ctxs[g.rng.Intn(len(g.ctxs))]
	}
	return nil
}

func (g *gen) pickAad() []byte {
	if g.rng.Chance(50) {
		return nil
	}
	return g.aads[g.rng.Intn(len(g.aads))]
}

func (g *gen) dctx(ctx []byte) string {
	if g.derived {
		return hx(ctx)
	}
	return "-"
}

func (g *gen) recordEnc(ct string, reqVer int, ctx, aad, plain []byte, res *string) int {
	verStr, _, ok := splitArtifact(ct)
	ver, err := strconv.Atoi(verStr)
	if !ok || err != nil {
		*res = viol("ok:malformed", "encrypt returned a ciphertext without the vault:v<n>: prefix", "enc-prefix")
		return 0
	}
	a := artifact{kind: "enc", ver: ver, ctx: g.dctx(ctx), aad: hx(aad), msg: hx(plain), epoch: g.epoch, faulted: g.faultSeen}
	h := g.handle(ct, a)
	*res = "ok:#" + strconv.Itoa(h) + ":v" + strconv.Itoa(ver)
	// direct predicate: version selection
	i := g.info
	switch {
	case ver < i.MinEnc:
		*res = viol(*res, "encrypt used a version below min_encryption_version", "enc-below-min-enc")
	case ver > i.Latest || ver < 1:
		*res = viol(*res, "encrypt used a version outside 1..latest", "enc-version-range")
	case reqVer == 0 && ver != i.Latest:
		*res = viol(*res, "encrypt with key_version=0 did not use the latest version", "enc-not-latest")
	case reqVer != 0 && ver != reqVer:
		*res = viol(*res, "encrypt used another version than the requested one", "enc-other-version")
	}
	// direct predicate: convergent encryption is deterministic per (key version, context, aad, plaintext)
	if g.convergent {
		k := strconv.Itoa(g.epoch) + "|" + strconv.Itoa(ver) + "|" + a.ctx + "|" + a.aad + "|" + a.msg
		if prev, ok := g.conv[k]; ok && prev != ct {
			*res = viol(*res, "convergent encryption produced two ciphertexts for one (version, context, aad, plaintext)", "convergent-nondeterministic")
		}
		g.conv[k] = ct
	}
	// direct predicate: immediate round trip
	back, cls := g.t.Decrypt(ct, ctx, aad)
	if !strings.Contains(*res, "!VIOL") {
		if cls != "" && ver >= i.MinDec {
			*res = viol(*res, "a fresh ciphertext does not decrypt ("+cls+")", "roundtrip-fails")
		} else if cls == "" && hx(back) != a.msg {
			*res = viol(*res, "a fresh ciphertext decrypts to another plaintext", "roundtrip-wrong-plaintext")
		}
	}
	return h
}

func (g *gen) opEnc() {
	ver := 0
	if g.rng.Chance(40) {
		ver = g.pickVer()
	}
	ctx, aad := g.pickCtx(), g.pickAad()
	var nonce []byte
	if g.rng.Chance(4) && g.t.SupportsNonce() {
		nonce = g.rng.Bytes(12)
	}
	g.doEnc(ver, ctx, aad, nonce, g.msgs[g.rng.Intn(len(g.msgs))])
}

func (g *gen) doEnc(ver int, ctx, aad, nonce, plain []byte) {
	ct, cls := g.t.Encrypt(ver, ctx, aad, nonce, plain)
	res := errRes(cls)
	if cls == "" {
		g.recordEnc(ct, ver, ctx, aad, plain, &res)
	}
	g.emit(res, "enc", strconv.Itoa(ver), hx(ctx), hx(aad), hx(nonce), hx(plain))
}

func (g *gen) pickHandle(kind string) int {
	var hs []int
	for i, a := range g.arts {
		if a.kind == kind {
			hs = append(hs, i+1)
		}
	}
	if len(hs) == 0 {
		return 0
	}
	if g.rng.Chance(40) {
		// recent
		k := len(hs) - 1 - g.rng.Intn(minInt(4, len(hs)))
		return hs[k]
	}
	return hs[g.rng.Intn(len(hs))]
}

func minInt(a, b int) int {
	if a < b {
		return a
	}
	return b
}

// mutate rewrites the artifact string; returns the string, the op-line description of the version and body
// rewrites, whether the version string still denotes the artifact's version, and whether the body changed.
func (g *gen) mutate(s string, a artifact, wantV, wantB bool) (string, string, string, bool, bool) {
	verStr, body, _ := splitArtifact(s)
	vm, bm := "=", "="
	sameVer, bodyChanged := true, false
	if wantV {
		i := g.info
		switch g.rng.Intn(22) {
		case 0:
			return "ault:v" + verStr + ":" + body, "noprefix", "=", false, false
		case 1:
			return "vault:v" + verStr + body, "nofields", "=", false, false
		case 2:
			verStr = "0"
		case 3:
			verStr = "0" + verStr
		case 4:
			verStr = "+" + verStr
		case 5:
			verStr = "-" + verStr
		case 6:
			verStr = strconv.Itoa(i.Latest + 1)
		case 7:
			verStr = strconv.Itoa(a.ver + 1)
		case 8:
			verStr = strconv.Itoa(a.ver - 1)
		case 9:
			verStr = strconv.Itoa(i.MinDec)
		case 10:
			verStr = strconv.Itoa(i.MinDec - 1)
		case 11:
			verStr = strconv.Itoa(i.Latest)
		case 12:
			verStr = "99999999999999999999"
		case 13:
			verStr = "9223372036854775808"
		case 14:
			verStr = g.rng.Pick([]string{"x", "", " " + verStr, verStr + " ", "1_0", "0x1", "1e0", "١", "1.0", "--1", "+-1", "+"})
		case 15:
			verStr = "00" + verStr
		case 16:
			verStr = "+0"
		case 17:
			verStr = "-0"
		case 18:
			verStr = strconv.Itoa(1 + g.rng.Intn(i.Latest+1))
		case 19:
			verStr = "-9223372036854775808"
		case 20:
			verStr = "+00" + strconv.Itoa(1+g.rng.Intn(i.Latest+1))
		default:
			verStr = strconv.Itoa(g.rng.Intn(i.Latest + 3))
		}
		vm = "s:" + vh.HexS(verStr)
		n, err := strconv.Atoi(verStr)
		if err == nil && n == 0 && a.kind == "enc" {
			n = 1 // documented alias: v0 is v1 (DESIGN section 6, interpretations)
		}
		sameVer = err == nil && n == a.ver
	}
	if wantB {
		raw, err := base64.StdEncoding.DecodeString(body)
		if err != nil {
			raw = []byte(body)
		}
		bodyChanged = true
		kinds := []string{"flipfirst", "flipmid", "fliplast", "trunc1", "append1", "short", "empty", "badb64"}
		bm = g.rng.Pick(kinds)
		mut := append([]byte{}, raw...)
		switch bm {
		case "flipfirst":
			mut[0] ^= 1 << uint(g.rng.Intn(8))
		case "flipmid":
			mut[len(mut)/2] ^= 1 << uint(g.rng.Intn(8))
		case "fliplast":
			mut[len(mut)-1] ^= 1 << uint(g.rng.Intn(8))
		case "trunc1":
			mut = mut[:len(mut)-1]
		case "append1":
			mut = append(mut, byte(g.rng.Intn(256)))
		case "short":
			mut = mut[:5]
		case "empty":
			mut = nil
		}
		if a.kind == "sig" && g.typ == "ecdsa-p256" && bm != "badb64" {
			// an ECDSA signature that no longer parses is reported as "does not verify" before any key lookup
			var es struct{ R, S *big.Int }
			if rest, err := asn1.Unmarshal(mut, &es); err != nil || len(rest) != 0 {
				bm = "badasn1"
			}
		}
		body = base64.StdEncoding.EncodeToString(mut)
		if bm == "badb64" {
			body = "!*" + body
		}
	}
	return "vault:v" + verStr + ":" + body, vm, bm, sameVer, bodyChanged
}

func (g *gen) inWindow(a artifact) bool {
	return g.exists && a.ver >= g.info.MinDec && a.ver <= g.info.Latest && a.ver >= 1
}

// decCase is one generated decrypt request on a known artifact, with what the property expects of it.
type decCase struct {
	h                                           int
	a                                           artifact
	ms, vm, bm                                  string
	ctx, aad                                    []byte
	wantV, wantB, ctxSame, aadSame, sameVer, bc bool
}

func (g *gen) genDec(h int) decCase {
	a, s := g.arts[h-1], g.strs[h-1]
	d := decCase{h: h, a: a, ctx: unhex(a.ctx), aad: unhex(a.aad), ctxSame: true, aadSame: true}
	r := g.rng.Intn(100)
	switch {
	case r < 40:
	case r < 50:
		d.ctx = g.otherOf(g.ctxs, d.ctx, 25)
		d.ctxSame = hx(d.ctx) == a.ctx || !g.derived
	case r < 60:
		d.aad = g.otherOf(g.aads, d.aad, 35)
		d.aadSame = hx(d.aad) == a.aad
	case r < 82:
		d.wantV = true
	case r < 96:
		d.wantB = true
	default:
		d.wantV, d.wantB = true, true
	}
	if !g.derived && a.ctx == "-" && g.rng.Chance(10) {
		d.ctx = g.ctxs[0] // ignored by non-derived keys
	}
	d.ms, d.vm, d.bm, d.sameVer, d.bc = g.mutate(s, a, d.wantV, d.wantB)
	return d
}

// judgeDec is the direct predicate on one decrypt result (single request or batch item).
func (g *gen) judgeDec(d decCase, plain []byte, cls string) string {
	a := d.a
	res := errRes(cls)
	if cls == "" {
		res = "ok:" + hx(plain)
		switch {
		case hx(plain) != a.msg:
			res = viol(res, "decrypt returned a plaintext other than the one encrypted under that ciphertext", "dec-wrong-plaintext")
		case d.bc:
			res = viol(res, "decrypt accepted a modified ciphertext body", "dec-accepts-tampered-body")
		case !d.sameVer:
			res = viol(res, "decrypt accepted a ciphertext whose version prefix denotes another version", "dec-accepts-other-version")
		case !d.ctxSame:
			res = viol(res, "decrypt accepted another derivation context", "dec-accepts-other-context")
		case !d.aadSame:
			res = viol(res, "decrypt accepted other associated data", "dec-accepts-other-aad")
		case !g.inWindow(a):
			res = viol(res, "decrypt accepted a version outside [min_decryption_version, latest]", "dec-outside-window")
		}
	} else if !d.wantV && !d.wantB && d.ctxSame && d.aadSame && a.epoch == g.epoch && g.inWindow(a) && !(g.derived && len(d.ctx) == 0) {
		res = viol(res, "an unmodified ciphertext of a version inside [min_decryption_version, latest] is refused ("+cls+")", "dec-refused-in-window")
	}
	return res
}

func (g *gen) opDec() {
	h := g.pickHandle("enc")
	if h == 0 {
		g.opEnc()
		return
	}
	d := g.genDec(h)
	plain, cls := g.t.Decrypt(d.ms, d.ctx, d.aad)
	g.emit(g.judgeDec(d, plain, cls), "dec", strconv.Itoa(h), d.vm, d.bm, hx(d.ctx), hx(d.aad))
}

// ---------------------------------------------------------------- batch requests (endpoint targets only)

// BatchItem is one element of batch_input; BatchResult its element of batch_results.
type BatchItem struct {
	Ver             int
	Ctx, Aad, Plain []byte
	Ct              string
}

type BatchResult struct {
	Text string // ciphertext, or base64-decoded plaintext as string(bytes)
	Cls  string // canonical error class, "" = success
}

// Batcher is implemented by targets that accept batch_input (kind = "encrypt", "decrypt", "rewrap"); whole != "" is a
// refusal of the whole request.
type Batcher interface {
	Batch(kind string, items []BatchItem) (results []BatchResult, whole string)
}

// joinBatch assembles the result field of a batch line: per-item results joined by "|", the first per-item predicate
// failure moved to the end of the line (where the runner looks for it).
func joinBatch(rs []string) string {
	viol := ""
	for i, r := range rs {
		if k := strings.Index(r, "!VIOL:"); k >= 0 {
			if viol == "" {
				what := r[k+len("!VIOL:"):]
				sig := ""
				if j := strings.LastIndex(what, "#"); j >= 0 {
					what, sig = what[:j], what[j:]
				}
				viol = "!VIOL:batch item " + strconv.Itoa(i) + ": " + what + sig
			}
			rs[i] = r[:k]
		}
	}
	return strings.Join(rs, "|") + viol
}

func (g *gen) opBatch(bt Batcher) {
	n := 1 + g.rng.Intn(5)
	switch g.rng.Intn(10) {
	case 0, 1, 2, 3: // encrypt
		items := make([]BatchItem, n)
		fields := []string{"benc", strconv.Itoa(n)}
		for i := range items {
			ver := 0
			if g.rng.Chance(40) {
				ver = g.pickVer()
			}
			items[i] = BatchItem{Ver: ver, Ctx: g.pickCtx(), Aad: g.pickAad(), Plain: g.msgs[g.rng.Intn(len(g.msgs))]}
			fields = append(fields, strconv.Itoa(ver), hx(items[i].Ctx), hx(items[i].Aad), hx(items[i].Plain))
		}
		rs, whole := bt.Batch("encrypt", items)
		if whole != "" || len(rs) != n {
			g.emit(errRes(whole+lenNote(len(rs), n, whole)), fields...)
			return
		}
		out := make([]string, n)
		for i, r := range rs {
			out[i] = errRes(r.Cls)
			if r.Cls == "" {
				g.recordEnc(r.Text, items[i].Ver, items[i].Ctx, items[i].Aad, items[i].Plain, &out[i])
			}
		}
		g.emit(joinBatch(out), fields...)
	case 4, 5, 6, 7, 8: // decrypt
		if g.pickHandle("enc") == 0 {
			g.opEnc()
			return
		}
		items := make([]BatchItem, n)
		ds := make([]decCase, n)
		fields := []string{"bdec", strconv.Itoa(n)}
		for i := range items {
			ds[i] = g.genDec(g.pickHandle("enc"))
			if i > 0 && g.rng.Chance(50) {
				// the neighbour pattern: same ciphertext family, one item with and one without associated data
				ds[i].aad = nil
				ds[i].aadSame = ds[i].a.aad == "-"
			}
			items[i] = BatchItem{Ct: ds[i].ms, Ctx: ds[i].ctx, Aad: ds[i].aad}
			fields = append(fields, strconv.Itoa(ds[i].h), ds[i].vm, ds[i].bm, hx(ds[i].ctx), hx(ds[i].aad))
		}
		rs, whole := bt.Batch("decrypt", items)
		if whole != "" || len(rs) != n {
			g.emit(errRes(whole+lenNote(len(rs), n, whole)), fields...)
			return
		}
		out := make([]string, n)
		for i, r := range rs {
			out[i] = g.judgeDec(ds[i], []byte(r.Text), r.Cls)
		}
		g.emit(joinBatch(out), fields...)
	default: // rewrap
		if g.pickHandle("enc") == 0 {
			g.opEnc()
			return
		}
		items := make([]BatchItem, n)
		hs := make([]int, n)
		fields := []string{"brewrap", strconv.Itoa(n)}
		for i := range items {
			h := g.pickHandle("enc")
			a := g.arts[h-1]
			ver := 0
			if g.rng.Chance(35) {
				ver = g.pickVer()
			}
			ctx := unhex(a.ctx)
			if g.rng.Chance(8) {
				ctx = g.otherOf(g.ctxs, ctx, 30)
			}
			hs[i] = h
			items[i] = BatchItem{Ct: g.strs[h-1], Ver: ver, Ctx: ctx}
			fields = append(fields, strconv.Itoa(h), strconv.Itoa(ver), hx(ctx))
		}
		rs, whole := bt.Batch("rewrap", items)
		if whole != "" || len(rs) != n {
			g.emit(errRes(whole+lenNote(len(rs), n, whole)), fields...)
			return
		}
		out := make([]string, n)
		for i, r := range rs {
			out[i] = errRes(r.Cls)
			if r.Cls == "" {
				a := g.arts[hs[i]-1]
				g.recordEnc(r.Text, items[i].Ver, items[i].Ctx, nil, unhex(a.msg), &out[i])
				if a.aad != "-" && !strings.Contains(out[i], "!VIOL") {
					out[i] = viol(out[i], "rewrap accepted a ciphertext bound to associated data without it", "dec-accepts-other-aad")
				}
			}
		}
		g.emit(joinBatch(out), fields...)
	}
}

func lenNote(got, want int, whole string) string {
	if whole == "" && got != want {
		return "other(batch_results has " + strconv.Itoa(got) + " items for " + strconv.Itoa(want) + ")"
	}
	return ""
}

func unhex(s string) []byte {
	if s == "-" {
		return nil
	}
	b := make([]byte, len(s)/2)
	for i := range b {
		v, _ := strconv.ParseUint(s[2*i:2*i+2], 16, 8)
		b[i] = byte(v)
	}
	return b
}

// otherOf picks a value different from cur (empty with probability pEmpty when cur is not empty).
func (g *gen) otherOf(pool [][]byte, cur []byte, pEmpty int) []byte {
	if len(cur) != 0 && g.rng.Chance(pEmpty) {
		return nil
	}
	for k := 0; k < 8; k++ {
		c := pool[g.rng.Intn(len(pool))]
		if hx(c) != hx(cur) {
			return c
		}
	}
	return append(append([]byte{}, cur...), 1)
}

func (g *gen) opRewrap() {
	h := g.pickHandle("enc")
	if h == 0 {
		g.opEnc()
		return
	}
	a, s := g.arts[h-1], g.strs[h-1]
	ver := 0
	if g.rng.Chance(35) {
		ver = g.pickVer()
	}
	ctx := unhex(a.ctx)
	if g.rng.Chance(8) {
		ctx = g.otherOf(g.ctxs, ctx, 30)
	}
	ct, cls := g.t.Rewrap(s, ver, ctx)
	res := errRes(cls)
	if cls == "" {
		g.recordEnc(ct, ver, ctx, nil, unhex(a.msg), &res)
		if a.aad != "-" && !strings.Contains(res, "!VIOL") {
			res = viol(res, "rewrap accepted a ciphertext bound to associated data without it", "dec-accepts-other-aad")
		}
	}
	g.emit(res, "rewrap", strconv.Itoa(h), strconv.Itoa(ver), hx(ctx))
}

func (g *gen) opSign() {
	ver := 0
	if g.rng.Chance(40) {
		ver = g.pickVer()
	}
	ctx := g.pickCtx()
	msg := g.msgs[g.rng.Intn(len(g.msgs))]
	if g.typ == "ecdsa-p256" {
		msg = g.msgs[len(g.msgs)-1-g.rng.Intn(3)] // 32-byte digests
	}
	sig, cls := g.t.Sign(ver, ctx, msg)
	res := errRes(cls)
	if cls == "" {
		verStr, _, ok := splitArtifact(sig)
		v, err := strconv.Atoi(verStr)
		if !ok || err != nil {
			res = viol("ok:malformed", "sign returned a signature without the vault:v<n>: prefix", "sig-prefix")
		} else {
			dctx := "-"
			if g.typ == "ed25519" && g.derived {
				dctx = hx(ctx)
			}
			h := g.handle(sig, artifact{kind: "sig", ver: v, ctx: dctx, aad: "-", msg: hx(msg), epoch: g.epoch, faulted: g.faultSeen})
			res = "ok:#" + strconv.Itoa(h) + ":v" + strconv.Itoa(v)
			i := g.info
			if v < i.MinEnc || v > i.Latest || (ver == 0 && v != i.Latest) || (ver != 0 && v != ver) {
				res = viol(res, "sign used a version other than requested / below min_encryption_version", "sign-version")
			}
		}
	}
	g.emit(res, "sign", strconv.Itoa(ver), hx(ctx), hx(msg))
}

func (g *gen) opVerify(kind string) {
	h := g.pickHandle(kind)
	if h == 0 {
		if kind == "sig" {
			g.opSign()
		} else {
			g.opHMAC()
		}
		return
	}
	a, s := g.arts[h-1], g.strs[h-1]
	ctx, msg := unhex(a.ctx), unhex(a.msg)
	ctxSame, msgSame := true, true
	r := g.rng.Intn(100)
	wantV, wantB := false, false
	switch {
	case r < 40:
	case r < 50:
		if kind == "sig" {
			ctx = g.otherOf(g.ctxs, ctx, 25)
			ctxSame = hx(ctx) == a.ctx || a.ctx == "-"
		}
	case r < 62:
		msg = g.otherOf(g.msgs, msg, 0)
		if kind == "sig" && g.typ == "ecdsa-p256" && len(msg) == 0 {
			// an empty digest is rejected by crypto/ecdsa before the key is touched; not a policy-level input
			msg = g.msgs[len(g.msgs)-1]
		}
		msgSame = hx(msg) == a.msg
	case r < 84:
		wantV = true
	case r < 97:
		wantB = true
	default:
		wantV, wantB = true, true
	}
	ms, vm, bm, sameVer, bodyChanged := g.mutate(s, a, wantV, wantB)
	var ok bool
	var cls string
	if kind == "sig" {
		ok, cls = g.t.Verify(ms, ctx, msg)
	} else {
		ok, cls = g.t.HMACVerify(ms, msg)
	}
	res := errRes(cls)
	if cls == "" {
		res = strconv.FormatBool(ok)
		name := map[string]string{"sig": "signature", "mac": "HMAC"}[kind]
		if ok {
			switch {
			case bodyChanged, !sameVer, !ctxSame, !msgSame:
				res = viol(res, "verification accepted a modified "+name+", version, context or message", kind+"-accepts-modified")
			case !g.inWindow(a):
				res = viol(res, "verification accepted a version outside [min_decryption_version, latest]", kind+"-outside-window")
			}
		} else if !wantV && !wantB && ctxSame && msgSame && a.epoch == g.epoch && g.inWindow(a) {
			sig := kind + "-refused-in-window"
			res = viol(res, "an unmodified "+name+" of a version inside [min_decryption_version, latest] does not verify", sig)
		}
	} else if !wantV && !wantB && ctxSame && msgSame && a.epoch == g.epoch && g.inWindow(a) && !(a.ctx != "-" && len(ctx) == 0) {
		sig := kind + "-refused-in-window"
		res = viol(res, "verification of an unmodified artifact inside the version window fails ("+cls+")", sig)
	}
	if kind == "sig" {
		g.emit(res, "verify", strconv.Itoa(h), vm, bm, hx(ctx), hx(msg))
	} else {
		g.emit(res, "hmacverify", strconv.Itoa(h), vm, bm, hx(msg))
	}
}

func (g *gen) opHMAC() {
	ver := 0
	if g.rng.Chance(45) {
		ver = g.pickVer()
	}
	msg := g.msgs[g.rng.Intn(len(g.msgs))]
	mac, cls := g.t.HMAC(ver, msg)
	res := errRes(cls)
	if cls == "" {
		verStr, _, ok := splitArtifact(mac)
		v, err := strconv.Atoi(verStr)
		if !ok || err != nil {
			res = viol("ok:malformed", "hmac returned a value without the vault:v<n>: prefix", "mac-prefix")
		} else {
			h := g.handle(mac, artifact{kind: "mac", ver: v, ctx: "-", aad: "-", msg: hx(msg), epoch: g.epoch, faulted: g.faultSeen})
			res = "ok:#" + strconv.Itoa(h) + ":v" + strconv.Itoa(v)
			i := g.info
			if (v < i.MinEnc && v != i.Latest) || v > i.Latest || (ver == 0 && v != i.Latest) || (ver != 0 && v != ver) {
				res = viol(res, "hmac used a version other than requested / below min_encryption_version", "mac-version")
			}
		}
	}
	g.emit(res, "hmac", strconv.Itoa(ver), hx(msg))
}

func (g *gen) opBackup() {
	blob, cls := g.t.Backup()
	g.lastCls = cls
	g.refresh()
	if cls != "" {
		g.emit(errRes(cls), "backup")
		return
	}
	g.backups = append(g.backups, blob)
	g.bmeta = append(g.bmeta, backupMeta{g.typ, g.derived, g.convergent})
	g.emit("ok:B"+strconv.Itoa(len(g.backups)), "backup")
}

func (g *gen) opRestore() {
	g.lastRestoreOp = ""
	if len(g.backups) == 0 {
		g.opBackup()
		return
	}
	b := 1 + g.rng.Intn(len(g.backups))
	force := g.rng.Chance(75)
	opName := "restore"
	var cls string
	if c, ok := g.t.RestoreRaw("", false); g.rng.Chance(40) && ok && c == "probe" {
		opName = "restoreraw"
		cls, _ = g.t.RestoreRaw(g.backups[b-1], force)
	} else {
		cls = g.t.Restore(g.backups[b-1], force)
	}
	g.lastRestoreOp = opName
	if cls == "" {
		g.epoch++
		m := g.bmeta[b-1]
		g.typ, g.derived, g.convergent = m.typ, m.derived, m.convergent
	}
	g.emit(g.polResult(cls), opName, strconv.Itoa(b), b01(force))
}

func (g *gen) opDelete() {
	cls := g.t.Delete()
	g.refresh()
	if cls != "" {
		g.emit(errRes(cls), "delete")
		return
	}
	g.epoch++
	g.emit("ok", "delete")
}

// opSoftDelFault: a soft-delete (or soft-delete-restore) whose only Put fails: the request errs and nothing about the key
// may change — in particular not the cached policy's soft_deleted flag, which would make every later use of the key fail
// (or, for a failed restore, succeed) although storage says otherwise.
func (g *gen) opSoftDelFault(sd SoftDeleter) {
	g.t.FailPut(1)
	g.faultSeen = true
	g.emit("ok", "failput", "1")
	restore := g.rng.Chance(25)
	cls := sd.SoftDelete(restore)
	g.t.FailPut(0)
	g.emit(g.polResult(cls), "softdel-fault", b01(restore))
	if cls == "persist:put" {
		g.failedFaults = append(g.failedFaults, "softdel")
	}
}

func (g *gen) opFailPut() {
	if sd, ok := g.t.(SoftDeleter); ok && g.rng.Chance(25) {
		g.opSoftDelFault(sd)
		return
	}
	k := 1 + g.rng.Intn(2)
	if g.rng.Chance(10) {
		k = 3
	}
	g.t.FailPut(k)
	g.faultSeen = true
	g.emit("ok", "failput", strconv.Itoa(k))
	// the fault applies to the next mutating operation
	kind := ""
	switch g.rng.Intn(10) {
	case 0, 1, 2:
		kind = "rotate"
		g.opRotate()
	case 3, 4, 5:
		kind = "trim"
		g.opTrim()
	case 6, 7:
		kind = "config"
		g.opConfig()
	case 8:
		kind = "backup"
		g.opBackup()
	default:
		g.opRestore()
		kind = g.lastRestoreOp
		if kind == "" {
			kind = "backup" // no backup existed yet: opRestore took one instead
		}
	}
	if g.lastCls == "persist:put" {
		g.failedFaults = append(g.failedFaults, kind)
	}
	g.t.FailPut(0)
}

func ip(v int) *int { return &v }

// directedRotateFaultCase: the k-th Put of a rotation fails, the rotation is retried, the new version is used, then
// min_decryption_version is raised above it and lowered again (the archive slot of the retried version must hold the
// key that is in use).
func (g *gen) directedRotateFaultCase(k int) {
	g.typ, g.derived, g.convergent = "chacha20-poly1305", false, false
	cls := g.t.New(g.typ, false, false)
	g.epoch++
	g.emit(g.polResult(cls), "new", g.typ, "0", "0")
	g.opRotate()
	g.t.FailPut(k)
	g.faultSeen = true
	g.emit("ok", "failput", strconv.Itoa(k))
	g.opRotate()
	if g.lastCls == "persist:put" {
		g.failedFaults = append(g.failedFaults, "rotate")
	}
	g.t.FailPut(0)
	g.opRotate()
	g.doEnc(0, nil, nil, nil, []byte("after retry"))
	g.opRotate()
	g.doConfig(ip(g.info.Latest), ip(g.info.Latest), nil, nil, nil)
	g.doConfig(ip(1), nil, nil, nil, nil)
	g.doDecPlain(1)
	g.opRotate()
	g.doDecPlain(1)
}

// directedRestoreFaultCase: a restore (force) over an existing, newer ring whose policy Put (the 3rd of the call) fails
// after the backup's archive was written; then a rotation and min_decryption_version raised and lowered. raw = the bare
// library call outside a transaction (finding F39, library part), else the endpoint (transactional since the repair).
func (g *gen) directedRestoreFaultCase(raw bool) {
	if _, ok := g.t.RestoreRaw("", false); raw && !ok {
		return
	}
	g.typ, g.derived, g.convergent = "aes256-gcm96", false, false
	cls := g.t.New(g.typ, false, false)
	g.epoch++
	g.emit(g.polResult(cls), "new", g.typ, "0", "0")
	tr := true
	g.doConfig(nil, nil, nil, &tr, &tr)
	g.opBackup()
	g.opRotate()
	g.doEnc(0, nil, nil, nil, []byte("version two"))
	g.t.FailPut(3)
	g.faultSeen = true
	g.emit("ok", "failput", "3")
	name := "restore"
	if raw {
		name = "restoreraw"
		cls, _ = g.t.RestoreRaw(g.backups[0], true)
	} else {
		cls = g.t.Restore(g.backups[0], true)
	}
	if cls == "" {
		g.epoch++
	}
	g.emit(g.polResult(cls), name, "1", "1")
	if g.lastCls == "persist:put" {
		g.failedFaults = append(g.failedFaults, name)
	}
	g.t.FailPut(0)
	g.opRotate()
	g.doConfig(ip(3), nil, nil, nil, nil)
	g.doConfig(ip(1), nil, nil, nil, nil)
	g.doDecPlain(1)
}

// directedFaultCase is the minimal history of finding F38 (failed archive put during trim, retried trim, then
// min_decryption_version raised and lowered): run first so that the fault stream always exercises it.
func (g *gen) directedFaultCase(k int) {
	g.typ, g.derived, g.convergent = "aes256-gcm96", false, false
	cls := g.t.New(g.typ, false, false)
	g.epoch++
	g.emit(g.polResult(cls), "new", g.typ, "0", "0")
	g.opRotate()
	g.opRotate()
	g.doEnc(0, nil, nil, nil, []byte("payload"))
	g.doEnc(2, nil, nil, nil, []byte("older"))
	g.doConfig(ip(1), ip(1), nil, nil, nil)
	g.t.FailPut(k)
	g.faultSeen = true
	g.emit("ok", "failput", strconv.Itoa(k))
	g.doTrim(1)
	if g.lastCls == "persist:put" {
		g.failedFaults = append(g.failedFaults, "trim")
	}
	g.t.FailPut(0)
	g.doTrim(1)
	g.doDecPlain(1)
	g.doConfig(ip(3), ip(3), nil, nil, nil)
	g.doConfig(ip(1), nil, nil, nil, nil)
	g.doDecPlain(1)
	g.doDecPlain(2)
	g.opRotate()
	g.doDecPlain(1)
}

// directedImportFaultCase: a key version is imported while the k-th Put of its Persist fails. The call answers with the
// error and the ring must be as it was: for the trace model an import is a rotation (a new version with fresh key
// material), and its failure is the failure of a rotation at the same Put.
func (g *gen) directedImportFaultCase(im Importer, k int) {
	g.typ, g.derived, g.convergent = "aes256-gcm96", false, false
	cls := g.t.New(g.typ, false, false)
	g.epoch++
	g.emit(g.polResult(cls), "new", g.typ, "0", "0")
	g.opRotate()
	g.doEnc(0, nil, nil, nil, []byte("version two"))
	g.t.FailPut(k)
	g.faultSeen = true
	g.emit("ok", "failput", strconv.Itoa(k))
	before := g.info.Latest
	cls = im.ImportVersion()
	res := g.polResult(cls)
	if cls != "" && g.info.Latest != before {
		res = viol(res, "an import of a key version that failed ("+cls+") left the ring changed: latest version "+strconv.Itoa(before)+" -> "+strconv.Itoa(g.info.Latest), "failed-import-takes-effect")
	}
	g.emit(res, "rotate")
	if g.lastCls == "persist:put" {
		g.failedFaults = append(g.failedFaults, "import")
	}
	g.t.FailPut(0)
	g.doEnc(0, nil, nil, nil, []byte("after the failed import"))
	g.doDecPlain(len(g.arts))
	g.doDecPlain(1)
	cls = im.ImportVersion()
	g.emit(g.polResult(cls), "rotate")
	g.doEnc(0, nil, nil, nil, []byte("under the imported version"))
	g.doDecPlain(len(g.arts))
	g.doDecPlain(1)
}

// directedCommitFaultCase: the transaction Commit of a rotate / config / trim request is refused. The request answers
// with the error and must have no effect: the ring reported afterwards, the version used by the next encryption and the
// decryptability of every version inside the (unchanged) window are those of the history without the request.
func (g *gen) directedCommitFaultCase(cf CommitFaulter, kind string) {
	g.typ, g.derived, g.convergent = "aes256-gcm96", false, false
	cls := g.t.New(g.typ, false, false)
	g.epoch++
	g.emit(g.polResult(cls), "new", g.typ, "0", "0")
	g.doEnc(0, nil, nil, nil, []byte("version one"))
	g.opRotate()
	g.opRotate()
	g.doEnc(0, nil, nil, nil, []byte("version three"))
	if kind == "trim" {
		g.doConfig(ip(2), ip(2), nil, nil, nil)
	}
	cf.FailCommit()
	g.faultSeen = true
	g.emit("ok", "failcommit")
	switch kind {
	case "rotate":
		g.opRotate()
	case "config":
		g.doConfig(ip(3), ip(3), nil, nil, nil)
	case "trim":
		g.doTrim(2)
	}
	if g.lastCls == "commit" {
		g.failedFaults = append(g.failedFaults, kind)
	}
	g.doEnc(0, nil, nil, nil, []byte("after the failed commit"))
	g.doDecPlain(len(g.arts))
	g.doDecPlain(1)
	g.doDecPlain(2)
	g.opRotate()
	g.doEnc(0, nil, nil, nil, []byte("after a good rotation"))
	g.doDecPlain(len(g.arts))
	g.doDecPlain(1)
}

// directedLegacyConvergentCase: a convergent key ring in the form the convergent-version-2 code stored it (policy-level
// convergent_version 2, no per-key value) — produced by editing a backup of a fresh key and restoring it — is rotated;
// the new key version carries the current convergent scheme, so encrypt accepts it: decrypt must give the plaintext
// back. For the trace model the edited backup is backup B1 (the key material is unchanged; only version 2 is used).
func (g *gen) directedLegacyConvergentCase() {
	g.typ, g.derived, g.convergent = "aes256-gcm96", true, true
	cls := g.t.New(g.typ, true, true)
	g.epoch++
	g.emit(g.polResult(cls), "new", g.typ, "1", "1")
	tr := true
	g.doConfig(nil, nil, nil, &tr, &tr)
	g.opBackup()
	if len(g.backups) == 0 {
		return
	}
	raw, err := base64.StdEncoding.DecodeString(g.backups[0])
	var kd map[string]any
	if err != nil || json.Unmarshal(raw, &kd) != nil {
		return
	}
	pol, _ := kd["policy"].(map[string]any)
	if pol == nil {
		return
	}
	pol["convergent_version"] = 2
	if ks, ok := pol["keys"].(map[string]any); ok {
		for _, e := range ks {
			if m, ok := e.(map[string]any); ok {
				m["convergent_version"] = 0
			}
		}
	}
	if ak, ok := kd["archived_keys"].(map[string]any); ok {
		if l, ok := ak["keys"].([]any); ok {
			for _, e := range l {
				if m, ok := e.(map[string]any); ok {
					m["convergent_version"] = 0
				}
			}
		}
	}
	mod, _ := json.Marshal(kd)
	g.backups[0] = base64.StdEncoding.EncodeToString(mod)
	cls = g.t.Restore(g.backups[0], true)
	g.lastRestoreOp = "restore"
	if cls == "" {
		g.epoch++
	}
	g.emit(g.polResult(cls), "restore", "1", "1")
	g.opRotate()
	g.doEnc(0, []byte("ctx-a"), nil, nil, []byte("legacy ring, new version"))
	g.doDecPlain(len(g.arts))
	g.opRotate()
	g.doEnc(0, []byte("ctx-b"), nil, nil, []byte("legacy ring, third version"))
	g.doDecPlain(len(g.arts))
	g.doDecPlain(len(g.arts) - 1)
}

// doDecPlain decrypts handle h unmodified with its own context and associated data.
func (g *gen) doDecPlain(h int) {
	if h < 1 || h > len(g.arts) {
		return
	}
	a, s := g.arts[h-1], g.strs[h-1]
	ctx, aad := unhex(a.ctx), unhex(a.aad)
	plain, cls := g.t.Decrypt(s, ctx, aad)
	res := errRes(cls)
	if cls == "" {
		res = "ok:" + hx(plain)
		if hx(plain) != a.msg {
			res = viol(res, "decrypt returned a plaintext other than the one encrypted under that ciphertext", "dec-wrong-plaintext")
		} else if !g.inWindow(a) {
			res = viol(res, "decrypt accepted a version outside [min_decryption_version, latest]", "dec-outside-window")
		}
	} else if a.epoch == g.epoch && g.inWindow(a) {
		res = viol(res, "an unmodified ciphertext of a version inside [min_decryption_version, latest] is refused ("+cls+")", "dec-refused-in-window")
	}
	g.emit(res, "dec", strconv.Itoa(h), "=", "=", hx(ctx), hx(aad))
}

// Run generates `cases` histories against fresh targets and writes the trace.
func Run(out *vh.Out, rng *vh.Rand, mk func(useCache bool) Target, cases, opsPerCase int, faults bool) {
	for c := 0; c < cases; c++ {
		r := rng.Fork(uint64(c))
		out.Reset()
		useCache := faults || r.Chance(70)
		g := &gen{out: out, rng: r, t: mk(useCache), handles: map[string]int{}, conv: map[string]string{}, faults: faults}
		g.ctxs = [][]byte{[]byte("ctx-a"), []byte("ctx-b"), r.Bytes(1 + r.Intn(20))}
		g.aads = [][]byte{[]byte("aad-1"), []byte("aad-2"), r.Bytes(1 + r.Intn(24))}
		g.msgs = [][]byte{nil, []byte("m"), []byte("hello world"), r.Bytes(1 + r.Intn(48)), r.Bytes(300), r.Bytes(32), r.Bytes(32), r.Bytes(32)}
		if im, ok := g.t.(Importer); ok && faults && c >= 9 && c < 11 {
			g.directedImportFaultCase(im, c-8)
			g.t.Close()
			continue
		}
		if cf, ok := g.t.(CommitFaulter); ok && faults && c >= 6 && c < 9 {
			g.directedCommitFaultCase(cf, []string{"rotate", "config", "trim"}[c-6])
			g.t.Close()
			continue
		}
		if faults && c < 6 {
			switch {
			case c < 2:
				g.directedFaultCase(c + 1)
			case c < 4:
				g.directedRotateFaultCase(c - 1)
			default:
				g.directedRestoreFaultCase(c == 5)
			}
			g.t.Close()
			continue
		}
		if !faults && c == 0 {
			g.directedLegacyConvergentCase()
			g.t.Close()
			continue
		}
		n := opsPerCase/2 + r.Intn(opsPerCase)
		// leading phase: grow the ring so that old versions exist
		g.opNew()
		for k := r.Intn(5); k > 0 && g.exists; k-- {
			g.opRotate()
		}
		for k := 0; k < n && !g.dead; k++ {
			if !g.exists {
				g.opNew()
				continue
			}
			x := r.Intn(100)
			enc, sig := encType(g.typ), signType(g.typ)
			switch {
			case x < 10:
				g.opRotate()
			case x < 12:
				if !g.opRawConfig() {
					g.opConfig()
				}
			case x < 24:
				g.opConfig()
			case x < 30:
				g.opTrim()
			case x < 33:
				g.opBackup()
			case x < 36:
				g.opRestore()
			case x < 37:
				g.opDelete()
			case x < 40 && faults:
				g.opFailPut()
			case x < 44 && enc && !faults:
				if bt, ok := g.t.(Batcher); ok {
					g.opBatch(bt)
				} else {
					g.opDec()
				}
			case x < 58:
				if enc {
					g.opEnc()
				} else if sig {
					g.opSign()
				} else {
					g.opHMAC()
				}
			case x < 80:
				if enc {
					g.opDec()
				} else if sig {
					g.opVerify("sig")
				} else {
					g.opVerify("mac")
				}
			case x < 84:
				if enc {
					g.opRewrap()
				} else {
					g.opHMAC()
				}
			case x < 91:
				g.opHMAC()
			case x < 97:
				g.opVerify("mac")
			default:
				// an operation the key type does not support
				if enc {
					g.opSign()
				} else {
					g.opEnc()
				}
			}
		}
		g.t.Close()
	}
}
