//go:build verif

package c17core

import (
	"context"
	"errors"

	"github.com/openbao/openbao/sdk/v2/logical"
	"github.com/openbao/openbao/sdk/v2/physical"
	"github.com/openbao/openbao/sdk/v2/physical/inmem"
)

// FaultStore is a transactional in-memory physical backend whose k-th Put (inside or outside a transaction,
// counted per operation) can be made to fail. Transactions are the real ones of physical/inmem, so a request
// that runs inside logical.StartTxStorage has its writes rolled back exactly as on a transactional backend.
type FaultStore struct {
	inner         physical.TransactionalBackend
	Count, FailAt int
	// FailCommit: the Commit of the next transaction is refused (its writes are discarded), once
	FailCommit bool
}

const InjectedCommitError = "verif: injected commit failure"

func (f *FaultStore) hit() error {
	f.Count++
	if f.FailAt > 0 && f.Count == f.FailAt {
		return errors.New(InjectedPutError)
	}
	return nil
}

func (f *FaultStore) Put(ctx context.Context, e *physical.Entry) error {
	if err := f.hit(); err != nil {
		return err
	}
	return f.inner.Put(ctx, e)
}
func (f *FaultStore) Get(ctx context.Context, k string) (*physical.Entry, error) { return f.inner.Get(ctx, k) }
func (f *FaultStore) Delete(ctx context.Context, k string) error                 { return f.inner.Delete(ctx, k) }
func (f *FaultStore) List(ctx context.Context, p string) ([]string, error)       { return f.inner.List(ctx, p) }
func (f *FaultStore) ListPage(ctx context.Context, p, a string, l int) ([]string, error) {
	return f.inner.ListPage(ctx, p, a, l)
}
func (f *FaultStore) BeginReadOnlyTx(ctx context.Context) (physical.Transaction, error) {
	return f.inner.BeginReadOnlyTx(ctx)
}
func (f *FaultStore) BeginTx(ctx context.Context) (physical.Transaction, error) {
	tx, err := f.inner.BeginTx(ctx)
	if err != nil {
		return nil, err
	}
	return &faultTx{Transaction: tx, parent: f}, nil
}

type faultTx struct {
	physical.Transaction
	parent *FaultStore
}

func (t *faultTx) Put(ctx context.Context, e *physical.Entry) error {
	if err := t.parent.hit(); err != nil {
		return err
	}
	return t.Transaction.Put(ctx, e)
}

func (t *faultTx) Commit(ctx context.Context) error {
	if t.parent.FailCommit {
		t.parent.FailCommit = false
		_ = t.Transaction.Rollback(ctx)
		return errors.New(InjectedCommitError)
	}
	return t.Transaction.Commit(ctx)
}

// NewFaultStorage returns a transactional logical.Storage over a fresh FaultStore.
func NewFaultStorage() (logical.Storage, *FaultStore) {
	b, err := inmem.NewInmem(nil, nil)
	if err != nil {
		panic(err)
	}
	fs := &FaultStore{inner: b.(physical.TransactionalBackend)}
	return logical.NewLogicalStorage(fs), fs
}
