//go:build verif

package c12

// Black-box correspondence harness for C12, stream "view": logical.IsRelativePath and logical.NewStorageView
// (SanityCheck / ExpandKey / TruncateKey / SubView / Get / Put / Delete / List / ListPage) over a real
// logical.InmemStorage wrapped by a recorder that notes every key the view hands to the storage below it.
// Overlaid as sdk/zzverif/c12; nothing is written into /repo.

import (
	"context"
	"errors"
	"strconv"
	"strings"
	"testing"

	"github.com/openbao/openbao/sdk/v2/logical"
	"github.com/openbao/openbao/sdk/v2/zzverif/vh"
)

type recStorage struct {
	inner logical.Storage
	ops   []string
}

func (r *recStorage) note(kind, key string) { r.ops = append(r.ops, kind+"="+vh.HexS(key)) }

func (r *recStorage) take() string {
	if len(r.ops) == 0 {
		return "-"
	}
	s := strings.Join(r.ops, ",")
	r.ops = nil
	return s
}

func (r *recStorage) List(ctx context.Context, prefix string) ([]string, error) {
	r.note("list", prefix)
	return r.inner.List(ctx, prefix)
}

func (r *recStorage) ListPage(ctx context.Context, prefix string, after string, limit int) ([]string, error) {
	r.ops = append(r.ops, "listpage="+vh.HexS(prefix)+":"+vh.HexS(after)+":"+strconv.Itoa(limit))
	return r.inner.ListPage(ctx, prefix, after, limit)
}

func (r *recStorage) Get(ctx context.Context, key string) (*logical.StorageEntry, error) {
	r.note("get", key)
	return r.inner.Get(ctx, key)
}

func (r *recStorage) Put(ctx context.Context, e *logical.StorageEntry) error {
	r.note("put", e.Key)
	return r.inner.Put(ctx, e)
}

func (r *recStorage) Delete(ctx context.Context, key string) error {
	r.note("delete", key)
	return r.inner.Delete(ctx, key)
}

func errClass(err error) string {
	if errors.Is(err, logical.ErrRelativePath) {
		return "err:relative"
	}
	return "err:other"
}

func namesStr(ns []string) string {
	hs := make([]string, len(ns))
	for i, n := range ns {
		hs[i] = vh.HexS(n)
	}
	return "[" + strings.Join(hs, ",") + "]"
}

var (
	rootPrefixes = []string{"", "logical/u1/", "logical/u2/", "namespaces/n1/logical/u1/", "namespaces/n1/", "a", "a/", "a/b/",
		"sys/", "é/", "\xff/", "logical/u1", "x/./", "/"}
	subPrefixes = []string{"x/", "", "y", "k/", "a/", "b/c/", "../", "./", "..", "é/", "/"}
	segAlphabet = []string{"a", "b", "c", ".", "..", "", "...", ".a", "a.", "..a", "a..", "é", "\xff", " ", ". ", "\x00", "a.b", "-", "+", "*"}
	hostileKeys = []string{"../x", "a/../../b", "./", "a//b", "..", "a/..", ".", "", "/", "//", "/.", "/..", "/./", "/../", "a/./b",
		"a/.", "./a", "../", "a/../", "..a/b", "a/..b", "a/b..", "a/.../b", "a/ ../b", "..\x00/a", "é/../x", "a/\xff../b", "\xff", ".../", "a/b/c",
		"logical/u2/x", "../u2/x", "../../logical/u2/x", "k/../../x", "k/x", "k/", "k", ".k/x", "k/.x", "k/x."}
)

func genKey(rng *vh.Rand) string {
	switch rng.Intn(10) {
	case 0, 1, 2:
		return hostileKeys[rng.Intn(len(hostileKeys))]
	case 3:
		// hostile key embedded in a longer path
		return "a/" + hostileKeys[rng.Intn(len(hostileKeys))] + "/z"
	default:
		n := 1 + rng.Intn(5)
		segs := make([]string, n)
		for i := range segs {
			segs[i] = segAlphabet[rng.Intn(len(segAlphabet))]
		}
		return strings.Join(segs, "/")
	}
}

// small key space so that gets hit, deletes remove, and lists have content
func genPlainKey(rng *vh.Rand) string {
	n := 1 + rng.Intn(3)
	segs := make([]string, n)
	al := []string{"a", "b", "k", "x", "é", "a.", ".a", "..."}
	for i := range segs {
		segs[i] = al[rng.Intn(len(al))]
	}
	s := strings.Join(segs, "/")
	if rng.Chance(10) {
		s += "/"
	}
	return s
}

func TestVerifC12View(t *testing.T) {
	out := vh.Open()
	defer out.Close()
	rng := vh.NewRand(vh.Seed())
	ctx := context.Background()

	// (a) pure predicate: fixed hostile corpus + random segment compositions + exhaustive short strings over "./a"
	for _, k := range hostileKeys {
		out.Op(boolS(logical.IsRelativePath(k)), "isrel", vh.HexS(k))
	}
	var enum func(cur string, depth int)
	enum = func(cur string, depth int) {
		out.Op(boolS(logical.IsRelativePath(cur)), "isrel", vh.HexS(cur))
		if depth == 0 {
			return
		}
		for _, c := range []string{".", "/", "a"} {
			enum(cur+c, depth-1)
		}
	}
	depth := 7
	if vh.Thorough() {
		depth = 10
	}
	enum("", depth)
	nPure := 20000
	if vh.Thorough() {
		nPure = 400000
	}
	for i := 0; i < nPure; i++ {
		k := genKey(rng)
		out.Op(boolS(logical.IsRelativePath(k)), "isrel", vh.HexS(k))
	}

	// (b) stateful cases: views and nested sub-views over one recorded storage
	cases := 600
	if vh.Thorough() {
		cases = 12000
	}
	for ci := 0; ci < cases; ci++ {
		out.Reset()
		r := rng.Fork(uint64(ci))
		rec := &recStorage{inner: &logical.InmemStorage{}}
		type vw struct {
			v     logical.StorageView
			chain string
		}
		var views []vw
		nv := 2 + r.Intn(3)
		for i := 0; i < nv; i++ {
			p := rootPrefixes[r.Intn(len(rootPrefixes))]
			v := logical.NewStorageView(rec, p)
			chain := []string{vh.HexS(p)}
			for d := r.Intn(4); d > 0; d-- {
				q := subPrefixes[r.Intn(len(subPrefixes))]
				v = v.SubView(q)
				chain = append(chain, vh.HexS(q))
			}
			views = append(views, vw{v, strings.Join(chain, ",")})
		}
		nops := 20 + r.Intn(30)
		for oi := 0; oi < nops; oi++ {
			w := views[r.Intn(len(views))]
			var k string
			if r.Chance(65) {
				k = genPlainKey(r)
			} else {
				k = genKey(r)
			}
			hk := vh.HexS(k)
			switch r.Intn(12) {
			case 0:
				out.Op(vh.HexS(w.v.Prefix()), "prefix", w.chain)
			case 1:
				out.Op(vh.HexS(w.v.ExpandKey(k)), "expand", w.chain, hk)
			case 2:
				full := k
				if r.Bool() {
					full = w.v.Prefix() + k
				}
				out.Op(vh.HexS(w.v.TruncateKey(full)), "truncate", w.chain, vh.HexS(full))
			case 3, 4, 5:
				res := vh.Catch(func() string {
					err := w.v.Put(ctx, &logical.StorageEntry{Key: k, Value: []byte("v")})
					if err != nil {
						return errClass(err) + "|" + rec.take()
					}
					return "ok|" + rec.take()
				})
				out.Op(res, "put", w.chain, hk)
			case 6:
				res := vh.Catch(func() string {
					err := w.v.Delete(ctx, k)
					if err != nil {
						return errClass(err) + "|" + rec.take()
					}
					return "ok|" + rec.take()
				})
				out.Op(res, "delete", w.chain, hk)
			case 7, 8:
				res := vh.Catch(func() string {
					e, err := w.v.Get(ctx, k)
					if err != nil {
						return errClass(err) + "|" + rec.take()
					}
					if e == nil {
						return "ok|" + rec.take() + "|0"
					}
					return "ok|" + rec.take() + "|1:" + vh.HexS(e.Key)
				})
				out.Op(res, "get", w.chain, hk)
			case 9:
				lk := genListKey(r, k)
				res := vh.Catch(func() string {
					ns, err := w.v.List(ctx, lk)
					if err != nil {
						return errClass(err) + "|" + rec.take()
					}
					return "ok|" + rec.take() + "|" + namesStr(ns)
				})
				out.Op(res, "list", w.chain, vh.HexS(lk))
			default:
				lk := genListKey(r, k)
				after := ""
				if r.Chance(70) {
					after = genKey(r)
					if r.Chance(50) {
						after = []string{"a", "b", "k", "a/", "..", "../", "k/", "x"}[r.Intn(8)]
					}
				}
				limit := []int{-1, 0, 1, 2, 3, 100}[r.Intn(6)]
				res := vh.Catch(func() string {
					ns, err := w.v.ListPage(ctx, lk, after, limit)
					if err != nil {
						return errClass(err) + "|" + rec.take()
					}
					return "ok|" + rec.take() + "|" + namesStr(ns)
				})
				out.Op(res, "listpage", w.chain, vh.HexS(lk), vh.HexS(after), strconv.Itoa(limit))
			}
		}
	}
}

// list prefixes: mostly directories that exist in the small plain key space, some hostile ones
func genListKey(r *vh.Rand, k string) string {
	switch r.Intn(10) {
	case 0, 1, 2:
		return ""
	case 3, 4, 5, 6:
		return []string{"a/", "k/", "b/", "x/", "a/b/", "a", "é/", "a./", "k/a/", ".../"}[r.Intn(10)]
	case 7:
		if k != "" && !strings.HasSuffix(k, "/") {
			return k + "/"
		}
		return k
	}
	return k
}

func boolS(b bool) string {
	if b {
		return "1"
	}
	return "0"
}
