//go:build verif

// Package vh holds the few helpers every correspondence harness shares: the single PRNG all random
// choices derive from (SplitMix64 seeded from VERIF_SEED), the trace writer of the line protocol
// (`op fields \t=>\t implementation result`), and hex escaping. It is overlaid into the module being
// tested (internal/zzverif/vh or sdk/zzverif/vh); nothing is written into /repo.
package vh

import (
	"bufio"
	"encoding/hex"
	"fmt"
	"os"
	"strconv"
	"strings"
)

type Rand struct{ s uint64 }

func NewRand(seed uint64) *Rand { return &Rand{s: seed} }

func (r *Rand) U64() uint64 {
	r.s += 0x9e3779b97f4a7c15
	z := r.s
	z = (z ^ (z >> 30)) * 0xbf58476d1ce4e5b9
	z = (z ^ (z >> 27)) * 0x94d049bb133111eb
	return z ^ (z >> 31)
}

// Intn returns a value in [0, n).
func (r *Rand) Intn(n int) int {
	if n <= 0 {
		return 0
	}
	return int(r.U64() % uint64(n))
}

func (r *Rand) Bool() bool         { return r.U64()&1 == 1 }
func (r *Rand) Chance(p int) bool  { return r.Intn(100) < p }
func (r *Rand) Pick(xs []string) string { return xs[r.Intn(len(xs))] }
func (r *Rand) PickInt(xs []int64) int64 { return xs[r.Intn(len(xs))] }
func (r *Rand) Bytes(n int) []byte {
	b := make([]byte, n)
	for i := range b {
		b[i] = byte(r.U64())
	}
	return b
}

// Fork derives an independent generator (for a case), so that a case replays from (seed, index).
func (r *Rand) Fork(i uint64) *Rand { return &Rand{s: r.s ^ (i+1)*0xd1342543de82ef95} }

func Seed() uint64 {
	v, err := strconv.ParseUint(os.Getenv("VERIF_SEED"), 10, 64)
	if err != nil {
		return 1
	}
	return v
}

func Tier() string {
	if t := os.Getenv("VERIF_TIER"); t != "" {
		return t
	}
	return "quick"
}

func Thorough() bool { return Tier() == "thorough" }

// EnvInt reads an integer knob with a default.
func EnvInt(name string, def int) int {
	if v, err := strconv.Atoi(os.Getenv(name)); err == nil {
		return v
	}
	return def
}

type Out struct {
	f *os.File
	w *bufio.Writer
	N int
}

func Open() *Out {
	p := os.Getenv("VERIF_OUT")
	if p == "" {
		p = "/dev/stdout"
	}
	f, err := os.Create(p)
	if err != nil {
		panic(err)
	}
	return &Out{f: f, w: bufio.NewWriterSize(f, 1<<20)}
}

// Op writes one protocol line: op fields, separator, implementation result.
func (o *Out) Op(result string, fields ...string) {
	for _, f := range fields {
		if strings.ContainsAny(f, "\t\n") {
			panic("field contains tab/newline: " + f)
		}
	}
	if strings.ContainsAny(result, "\n") {
		result = strings.ReplaceAll(result, "\n", " ")
	}
	o.w.WriteString(strings.Join(fields, "\t"))
	o.w.WriteString("\t=>\t")
	o.w.WriteString(result)
	o.w.WriteByte('\n')
	o.N++
}

func (o *Out) Reset() { o.w.WriteString("reset\n") }

func (o *Out) Close() {
	o.w.Flush()
	o.f.Close()
}

// Hex encodes bytes; the empty string is written "-" so that no field is ever empty.
func Hex(b []byte) string {
	if len(b) == 0 {
		return "-"
	}
	return hex.EncodeToString(b)
}

func HexS(s string) string { return Hex([]byte(s)) }

func I(v int64) string { return strconv.FormatInt(v, 10) }
func U(v uint64) string { return strconv.FormatUint(v, 10) }

// Catch runs f and maps a panic to the result "panic".
func Catch(f func() string) (res string) {
	defer func() {
		if r := recover(); r != nil {
			res = "panic"
		}
	}()
	return f()
}

func Sprintf(format string, a ...any) string { return fmt.Sprintf(format, a...) }
