package vault

import (
	"context"
	"errors"
	"testing"

	"github.com/openbao/openbao/sdk/v2/logical"
	"github.com/openbao/openbao/v2/internal/helper/namespace"
	"github.com/openbao/openbao/v2/internal/vault/barrier"
)

// Core.unsealInternal unseals the barrier FIRST and runs checkSelfInit /
// startClusterListener / startRaftBackend afterwards; when one of them refuses
// (the designed "self-initialization failed: refusing to unseal" path) it
// returns the error without sealing the barrier again. The core then reports
// sealed=true, while its barrier is unsealed, holds the whole keyring and
// serves reads and writes.
func TestHunt_RefusedUnsealLeavesBarrierUnsealed(t *testing.T) {
	c, keys, root := TestCoreUnsealed(t)
	ctx := namespace.RootContext(context.Background())

	req := logical.TestRequest(t, logical.UpdateOperation, "secret/foo")
	req.ClientToken = root
	req.Data = map[string]any{"v": "canary"}
	if _, err := c.HandleRequest(ctx, req); err != nil {
		t.Fatal(err)
	}

	// what an interrupted self-initialisation leaves behind
	if err := c.MarkSelfInitStarted(ctx); err != nil {
		t.Fatal(err)
	}
	if err := c.Seal(root); err != nil {
		t.Fatal(err)
	}
	if !c.barrier.Sealed() {
		t.Fatal("barrier not sealed after seal")
	}

	var err error
	for _, k := range keys {
		if _, err = c.Unseal(TestKeyCopy(k)); err != nil {
			break
		}
	}
	if !errors.Is(err, ErrSelfInitFailed) {
		t.Fatalf("expected the unseal to be refused, got %v", err)
	}
	if !c.Sealed() {
		t.Fatal("core should report sealed after a refused unseal")
	}
	st, _ := c.GetSealStatus(ctx, false)
	t.Logf("sys/seal-status: sealed=%v; unseal error: %v", st != nil && st.Sealed, err)

	// The core is sealed, so its barrier must be sealed too.
	if !c.barrier.Sealed() {
		t.Errorf("DEFECT: core reports sealed but the barrier is UNSEALED")
	}
	if kr, kerr := c.barrier.Keyring(); !errors.Is(kerr, barrier.ErrBarrierSealed) {
		t.Errorf("DEFECT: sealed core still holds key material: keyring err=%v, root key present=%v, active term=%d", kerr, kr != nil && len(kr.RootKey()) > 0, kr.ActiveTerm())
	}
	if l, lerr := c.barrier.List(ctx, "logical/"); !errors.Is(lerr, barrier.ErrBarrierSealed) {
		t.Errorf("DEFECT: sealed core's barrier serves a list: %v err=%v", l, lerr)
	}
	if perr := c.barrier.Put(ctx, &logical.StorageEntry{Key: "zz/probe", Value: []byte("x")}); !errors.Is(perr, barrier.ErrBarrierSealed) {
		t.Errorf("DEFECT: sealed core's barrier accepts a write: err=%v", perr)
	}
}
